/-
C01 — PROPERTY THEOREMS.  "The loop runs every deferred task exactly once, on the loop thread,
in order."

Every theorem quantifies over EVERY execution of the model from `init`: `exec cfg init sts = some s`
says that `sts` is a list of enabled steps, i.e. an arbitrary interleaving of any number of
submitter threads (`submit tid k`, any tid, any number) with loop start, passes (any reason for
the poll to return), callables with arbitrary scripts (`cfg.prog`, submit/next/cancel/exit from
inside callables), timer/fd callbacks that use the API, exit, re-run by any thread and
destruction.  No bound on the number of threads, tasks, passes or re-runs.
`cfg.clearOnClose = true` is the code with patches/C01-01 applied; theorems that do not mention
it hold for the code as found as well.
-/
import TboxModel.C01.Proofs
namespace Tbox.C01

/-- **assumption on RunId arithmetic**: the 64-bit id counters have not wrapped (fewer than 2^63
submissions per entry point).  The model counts in `Nat`; under `NoWrap` the ids it hands out are the
code's `uint64_t` values (`C01_ids_are_code_ids`) and the `== 0` re-allocation branch of
`allocRunInLoopId` is dead.  The theorems that speak about ids carry it as a hypothesis on the state
they describe; the counters only grow, so it then holds for every earlier state of the execution. -/
def NoWrap (s : State) : Prop := s.inAlloc + 2 < 2 ^ 64 ∧ s.nextAlloc + 2 < 2 ^ 64

instance (s : State) : Decidable (NoWrap s) := by unfold NoWrap; exact inferInstance

theorem C01_ids_are_code_ids (s : State) (hw : NoWrap s) :
    (s.inAlloc + 2) % 2 ^ 64 = s.inAlloc + 2 ∧ (s.inAlloc + 2) % 2 ^ 64 ≠ 0 ∧ (s.nextAlloc + 2) % 2 ^ 64 = s.nextAlloc + 2 := by
  unfold NoWrap at hw
  refine ⟨Nat.mod_eq_of_lt hw.1, ?_, Nat.mod_eq_of_lt hw.2⟩
  rw [Nat.mod_eq_of_lt hw.1]; omega

theorem exactly_once_core (cfg : Cfg) (sts : List Step) (s : State) (he : exec cfg init sts = some s) (id : Nat) :
    (idsOf s.inLoopQ).count id + (idsOf s.nextQ).count id + (idsOf s.tmpQ).count id + (idsOf s.dQ).count id +
      s.executed.count id + s.cancelled.count id = if accepted s id then 1 else 0 := by
  have h := (exec_inv cfg init sts init_inv s he).count id
  rw [line_def] at h
  simp only [List.count_append, List.count_reverse] at h
  omega

/-- **exactly once / exactly one place.**  At every point of every execution each id handed out
so far is in exactly one of {run-in-loop queue, run-next queue, batch being executed, shutdown
batch, executed, cancelled} and occurs there once; ids never handed out occur nowhere. -/
theorem C01_exactly_once (cfg : Cfg) (sts : List Step) (s : State) (he : exec cfg init sts = some s) (_hw : NoWrap s) (id : Nat) :
    (idsOf s.inLoopQ).count id + (idsOf s.nextQ).count id + (idsOf s.tmpQ).count id + (idsOf s.dQ).count id +
      s.executed.count id + s.cancelled.count id = if accepted s id then 1 else 0 :=
  exactly_once_core cfg sts s he id

/-- a callable is invoked at most once — stated on the history (execution events of the log) -/
theorem C01_executed_at_most_once (cfg : Cfg) (sts : List Step) (s : State) (he : exec cfg init sts = some s) (id : Nat) :
    (execIds s.log).count id ≤ 1 := by
  have h := exactly_once_core cfg sts s he id
  rw [(exec_inv cfg init sts init_inv s he).logExec]
  split at h <;> omega

/-- every id handed out and not cancelled that is no longer queued has been executed (nothing is dropped) -/
theorem C01_not_dropped (cfg : Cfg) (sts : List Step) (s : State) (he : exec cfg init sts = some s) (id : Nat)
    (ha : accepted s id) (hq : id ∉ idsOf (pend s)) (hc : id ∉ s.cancelled) : id ∈ s.executed := by
  have h := exactly_once_core cfg sts s he id
  simp only [ha, if_true] at h
  simp only [pend, idsOf_append, List.mem_append, not_or] at hq
  have h1 := List.count_eq_zero.2 hq.1.1.1
  have h2 := List.count_eq_zero.2 hq.1.1.2
  have h3 := List.count_eq_zero.2 hq.1.2
  have h4 := List.count_eq_zero.2 hq.2
  have h5 := List.count_eq_zero.2 hc
  exact List.count_pos_iff.1 (by omega)

/-- **cancel is sound.**  If some `cancel(id)` returned true (a successful-cancel event is in the
history) the callable has not been and — this holding in every reachable state — will never be
invoked. -/
theorem C01_cancel_sound (cfg : Cfg) (sts : List Step) (s : State) (he : exec cfg init sts = some s) (_hw : NoWrap s) (id : Nat)
    (hc : id ∈ cancelIds s.log) : id ∉ execIds s.log := by
  have hi := exec_inv cfg init sts init_inv s he
  have h := exactly_once_core cfg sts s he id
  rw [hi.logCanc] at hc
  rw [hi.logExec]
  have : 0 < s.cancelled.count id := List.count_pos_iff.2 hc
  intro hx
  have : 0 < s.executed.count id := List.count_pos_iff.2 hx
  split at h <;> omega

/-- `cancel(id)` returning false is justified: the id was never handed out, or the callable has
already been invoked (or is being invoked), or it was cancelled before, or it sits in the local
batch of the shutdown drain (`cleanupDeferredTasks` moves the queues to locals that `cancel`
cannot see: such a task is not cancellable any more and will be run). -/
theorem C01_cancel_false_sound (cfg : Cfg) (sts : List Step) (s : State) (he : exec cfg init sts = some s) (_hw : NoWrap s) (id : Nat)
    (hr : cancelRet s id = false) :
    ¬ accepted s id ∨ id ∈ s.executed ∨ id ∈ s.cancelled ∨ id ∈ idsOf s.dQ := by
  have hi := exec_inv cfg init sts init_inv s he
  have h := exactly_once_core cfg sts s he id
  by_cases ha : accepted s id
  · right
    simp only [ha, if_true] at h
    have hid : id ≠ 0 := by unfold accepted at ha; omega
    by_cases ht : hasId s.tmpQ id = true
    · simp [cancelRet, hid, ht] at hr
    · have ht0 : (idsOf s.tmpQ).count id = 0 := List.count_eq_zero.2 (fun hm => ht ((hasId_iff _ _).2 hm))
      simp only [cancelRet, hid, if_false, ht] at hr
      by_cases hodd : id % 2 = 1
      · simp only [hodd, if_true] at hr
        have hn0 : (idsOf s.nextQ).count id = 0 :=
          List.count_eq_zero.2 (fun hm => by rw [(hasId_iff _ _).2 hm] at hr; cases hr)
        have hi0 : (idsOf s.inLoopQ).count id = 0 :=
          List.count_eq_zero.2 (fun hm => by have := idsOf_par_in _ hi.parIn id hm; omega)
        by_cases hx : id ∈ s.executed
        · exact Or.inl hx
        · by_cases hcn : id ∈ s.cancelled
          · exact Or.inr (Or.inl hcn)
          · have := List.count_eq_zero.2 hx; have := List.count_eq_zero.2 hcn
            exact Or.inr (Or.inr (List.count_pos_iff.1 (by omega)))
      · simp only [hodd, if_false] at hr
        have hi0 : (idsOf s.inLoopQ).count id = 0 :=
          List.count_eq_zero.2 (fun hm => by rw [(hasId_iff _ _).2 hm] at hr; cases hr)
        have hn0 : (idsOf s.nextQ).count id = 0 :=
          List.count_eq_zero.2 (fun hm => by have := idsOf_par_next _ hi.parNext id hm; omega)
        by_cases hx : id ∈ s.executed
        · exact Or.inl hx
        · by_cases hcn : id ∈ s.cancelled
          · exact Or.inr (Or.inl hcn)
          · have := List.count_eq_zero.2 hx; have := List.count_eq_zero.2 hcn
            exact Or.inr (Or.inr (List.count_pos_iff.1 (by omega)))
  · exact Or.inl ha

/-- ids are handed out in submission order per entry point: the id the next `runInLoop`
(`runNext`) returns is larger than every even (odd) id handed out before. -/
theorem C01_ids_follow_submission (s : State) (tid : Nat) (body : List Act) (id : Nat) (ha : accepted s id) :
    (id % 2 = 0 → id < (submitInLoop s tid body).inAlloc ∧ (submitInLoop s tid body).inAlloc = s.inAlloc + 2) ∧
    (id % 2 = 1 → id < (submitNext s tid body).nextAlloc ∧ (submitNext s tid body).nextAlloc = s.nextAlloc + 2) := by
  have hf := (submitInLoop_frame s tid body).2.2.2.2.2.1
  unfold accepted at ha
  constructor
  · intro h0
    refine ⟨?_, hf⟩
    rw [hf]
    rcases ha with ⟨_, _, _⟩ | ⟨_, _, _⟩ <;> omega
  · intro h1
    refine ⟨?_, rfl⟩
    show id < s.nextAlloc + 2
    rcases ha with ⟨_, _, _⟩ | ⟨_, _, _⟩ <;> omega

/-- **FIFO per entry point (hence per submitter).**  The ids executed so far, read oldest first
and restricted to one entry point (p = 0: `runInLoop`, p = 1: `runNext`), are strictly
increasing — with `C01_ids_follow_submission`: callables submitted through the same entry point,
by one thread or by several, are invoked in submission order (cancelled ones are skipped). -/
theorem C01_fifo_per_submitter (cfg : Cfg) (sts : List Step) (s : State) (he : exec cfg init sts = some s) (_hw : NoWrap s) (p : Nat) :
    (par p s.executed.reverse).Pairwise (· < ·) := by
  have h := (exec_inv cfg init sts init_inv s he).order p
  rw [line, par_append] at h
  exact (List.pairwise_append.1 h).1

/-- … and everything still queued for that entry point will run after everything already run,
in queue order (the whole "line" of an entry point is strictly increasing). -/
theorem C01_fifo_pending (cfg : Cfg) (sts : List Step) (s : State) (he : exec cfg init sts = some s) (p : Nat) :
    (par p (s.executed.reverse ++ idsOf (pend s))).Pairwise (· < ·) :=
  (exec_inv cfg init sts init_inv s he).order p

/-- **loop thread.**  Every invocation in the history is made by the thread that most recently
entered `runLoop` or the destructor on this loop object (pass, exit drain, destructor drain). -/
theorem C01_loop_thread (cfg : Cfg) (sts : List Step) (s : State) (he : exec cfg init sts = some s) :
    execsOk s.log = true :=
  (exec_inv cfg init sts init_inv s he).execs

/-- **no lost wake-up** (repaired code): whenever the loop has an eventfd (it is running) and the
cross-thread queue is not empty, the eventfd counter is positive, so the poll the loop thread is
in, or will enter next, returns and reports it.  The executions quantified over contain every fault
schedule (`Step.fault`): polls interrupted by signals or failing, spurious readiness, failing eventfd
reads.  The one kernel answer that is excluded is a FAILED WRITE to the eventfd since it was last read
(`wrLost`, which includes a failed eventfd(): every write then fails) — the code sets the flag
although nothing was written (`C01_write_fault_loses_wakeup_counterexample`); a non-blocking eventfd
whose counter is at most 1 never refuses a write of 1, so the hypothesis is the kernel assumption
"write to a valid eventfd succeeds" + "eventfd() succeeded". -/
theorem C01_no_lost_wakeup (cfg : Cfg) (hfix : cfg.clearOnClose = true) (sts : List Step) (s : State)
    (he : exec cfg init sts = some s) (n : Nat) (hfd : s.efd = some n) (hq : s.inLoopQ ≠ [])
    (hl : s.wrLost = false) : 0 < n := by
  obtain ⟨_, hw⟩ := exec_wake cfg hfix init sts init_inv init_wake s he
  exact hw.counter n hfd (hw.armed (by simp [hfd]) hq) hl

/-- … and then the next pass serves the queue: in the poll phase with a non-empty queue, after the
poll returns the eventfd callback is enabled and "eventfd not reported" is not. -/
theorem C01_wakeup_served (cfg : Cfg) (hfix : cfg.clearOnClose = true) (sts : List Step) (s : State)
    (he : exec cfg init sts = some s) (hp : s.phase = .poll) (hq : s.inLoopQ ≠ []) (hl : s.wrLost = false)
    (hpoll : s.poll = .ok) :
    (step cfg s .passBegin).wakeSeen = true ∧ valid (step cfg s .passBegin) .passSkip = false ∧
    ((step cfg s .passBegin).timerDue = false → valid (step cfg s .passBegin) .passWake = true) := by
  have hi := exec_inv cfg init sts init_inv s he
  have hsome : s.efd.isSome = true := hi.fdRun.2 (Or.inl hp)
  obtain ⟨n, hn⟩ := Option.isSome_iff_exists.1 hsome
  have := C01_no_lost_wakeup cfg hfix sts s he n hn hq hl
  refine ⟨by simp [step, pollSees, hn, this, hpoll], by simp [step, valid, pollSees, hn, this, hpoll], ?_⟩
  intro hd
  simp only [step] at hd
  simp [step, valid, pollSees, hn, this, hpoll, hd]

/-- **a poll interrupted by a signal (or failing) consumes nothing**: the pass that follows does not run the
eventfd callback, the counter, the flag and the queue are as before — so the wake-up invariant
(`C01_no_lost_wakeup`, which holds in every reachable state, also after any number of such passes) makes the
next uninterrupted poll report the eventfd (`C01_wakeup_served`). -/
theorem C01_eintr_keeps_wakeup (cfg : Cfg) (s : State) (hi : s.poll = .intr ∨ s.poll = .err) :
    let s' := step cfg s .passBegin
    s'.wakeSeen = false ∧ s'.efd = s.efd ∧ s'.hasCommit = s.hasCommit ∧ s'.inLoopQ = s.inLoopQ ∧ s'.wrLost = s.wrLost ∧
    s'.poll = .ok := by
  rcases hi with h | h <;> simp [step, pollSees, h]

/-- a spurious readiness report (counter 0, the read fails with EAGAIN) or a failing read costs one pass and
nothing else: the swap is done, the flag is cleared, the queue handed to the batch — stated on the step; the
invariants hold across it (`exec_inv`, `exec_wake` quantify over it). -/
theorem C01_read_fault_harmless (cfg : Cfg) (s : State) (hr : s.rdFail = true) :
    let s' := step cfg s .passWake
    s'.efd = s.efd ∧ s'.hasCommit = false ∧ s'.tmpQ = s.inLoopQ ∧ s'.inLoopQ = s.tmpQ ∧ s'.rdFail = false := by
  simp [step, hr]

/-- the program of the witness: task 1 submits task 0 through runInLoop and calls exitLoop() -/
def witnessProg : Nat → List Act
  | 1 => [.inLoop 0, .exit]
  | _ => []

/-- DESIGN §7-1: one batch submits and exits; the loop is run again; a thread submits. -/
def witness : List Step :=
  [.submit 1 1, .loopStart 0 true, .passBegin, .passWake, .execFront, .act, .act, .passNext, .passEnd,
   .drainGen, .drainExec, .drainEnd, .loopStart 0 true, .submit 2 0]

/-- **the code as found loses the wake-up**: after the witness the loop is polling, the queue
holds the task, and the eventfd counter is 0 (has_commit_run_req_ is still set from the first
run, so `runInLoop` did not write). -/
theorem C01_no_lost_wakeup_counterexample :
    (exec (foundCfg witnessProg) init witness).map (fun s => (s.phase, s.efd, idsOf s.inLoopQ, s.hasCommit)) =
      some (.poll, some 0, [6], true) := by decide

/-- the same schedule on the repaired code: the counter is 1 -/
theorem C01_witness_repaired :
    (exec (fixedCfg witnessProg) init witness).map (fun s => (s.phase, s.efd, idsOf s.inLoopQ, s.hasCommit)) =
      some (.poll, some 1, [6], true) := by decide

/-- **drained on exit, with the 100-generation bound.**  When `cleanupDeferredTasks` returns (loop
exit or destructor): if something is still queued then all 100 generations were used
(`remain = 0`); otherwise every callable ever submitted and not cancelled has been invoked. -/
theorem C01_drained_on_exit (cfg : Cfg) (sts : List Step) (s : State) (he : exec cfg init sts = some s)
    (hv : valid s .drainEnd = true) :
    ((s.nextQ ≠ [] ∨ s.inLoopQ ≠ []) → s.remain = 0) ∧
    (s.nextQ = [] → s.inLoopQ = [] → ∀ id, accepted s id → id ∈ s.executed ∨ id ∈ s.cancelled) := by
  have hi := exec_inv cfg init sts init_inv s he
  simp only [valid, drainMore, Bool.and_eq_true, beq_iff_eq, List.isEmpty_iff, Bool.not_eq_true', Bool.and_eq_false_iff,
    Bool.or_eq_false_iff, Bool.not_eq_false', decide_eq_false_iff_not] at hv
  obtain ⟨⟨⟨hp, hc⟩, hd⟩, hm⟩ := hv
  constructor
  · intro hne
    rcases hm with ⟨h1, h2⟩ | h3
    · rcases hne with h | h
      · exact absurd h2 h
      · exact absurd h1 h
    · omega
  · intro hn hq id ha
    by_cases hcn : id ∈ s.cancelled
    · exact Or.inr hcn
    · refine Or.inl (C01_not_dropped cfg sts s he id ha ?_ hcn)
      simp [pend, (hi.shapeDrain hp).1, hd, hn, hq]

/-- **a callable pending when the loop stops is run during shutdown** — unconditionally: once the
drain that started at loop exit (or destruction) is over, every id that was queued when it
started has been invoked (they are generation 1; cancel cannot reach them any more). -/
theorem C01_pending_at_exit_run (cfg : Cfg) (sts : List Step) (s : State) (he : exec cfg init sts = some s)
    (hp : s.phase ≠ .drain) : ∀ id ∈ s.exitPending, id ∈ s.executed :=
  (exec_inv cfg init sts init_inv s he).exitDone hp

/-! ### lock discipline (what the model can say about data-race freedom) -/

/-- does the API call take lock_? (`runInLoop` always; `cancel` of an even id not found in the batch;
`exitLoop` while the exit timer is armed: `deleteTimer` → `run()` looks at the running state under lock_) -/
def actLocks (s : State) : Act → Bool
  | .inLoop _ => true
  | .cancel id => id != 0 && !hasId s.tmpQ id && id % 2 != 1
  | .exit => s.exitTimer
  | .exitLater _ => s.exitTimer
  | .run _ => true            -- run() looks at the running state under lock_
  | .nestedRun => true        -- runLoop() asks isRunning() (lock_) and returns
  | _ => false

/-- the step runs (partly) inside a critical section of lock_ -/
def holdsLock (s : State) : Step → Bool
  | .submit _ _ => true
  | .idleAct _ a => actLocks s a
  | .cbAct a => actLocks s a
  | .loopStart _ _ => true
  | .passWake => true
  | .act => (s.phase == .drain && (!s.destroying || s.userCleanup)) || (match s.cur with | a :: _ => actLocks s a | [] => false)
  | .drainGen => !s.destroying || s.userCleanup
  | .drainExec => !s.destroying || s.userCleanup
  | .drainEnd => !s.destroying || s.userCleanup
  | .submitRun _ _ => true
  | .cleanup _ => true
  | _ => false

/-- the object is being destroyed: by contract no other thread uses it -/
def exclusive (s : State) : Bool := s.phase == .drain && s.destroying && !s.userCleanup

/-- **lock discipline.**  A step that does not hold lock_ (and is not part of the destructor)
leaves the lock-protected variables — cross-thread queue, pending-wake flag, eventfd, even id
allocator — untouched.  (The only reads outside lock_ are the kernel's: the poll looks at the
eventfd counter.) -/
theorem C01_lock_discipline (cfg : Cfg) (s : State) (st : Step) (hv : valid s st = true)
    (hl : holdsLock s st = false) (hx : exclusive s = false) :
    (step cfg s st).inLoopQ = s.inLoopQ ∧ (step cfg s st).hasCommit = s.hasCommit ∧
    (step cfg s st).efd = s.efd ∧ (step cfg s st).inAlloc = s.inAlloc := by
  have hact : ∀ (s0 : State) (tid : Nat) (a : Act), actLocks s0 a = false →
      (doAct cfg s0 tid a).inLoopQ = s0.inLoopQ ∧ (doAct cfg s0 tid a).hasCommit = s0.hasCommit ∧
      (doAct cfg s0 tid a).efd = s0.efd ∧ (doAct cfg s0 tid a).inAlloc = s0.inAlloc := by
    intro s0 tid a ha
    cases a with
    | inLoop k => simp [actLocks] at ha
    | next k => simp [doAct, submitNext, noteNext]
    | exit => simp only [actLocks] at ha; simp [doAct, dropExitTimer, ha]
    | exitLater w => simp only [actLocks] at ha; simp [doAct, dropExitTimer, ha]
    | throw => simp [doAct]
    | run k => simp [actLocks] at ha
    | nestedRun => simp [actLocks] at ha
    | cancel id =>
      simp only [actLocks, Bool.and_eq_false_iff, bne_eq_false_iff_eq, Bool.not_eq_false'] at ha
      simp only [doAct, cancel]
      by_cases h0 : id = 0
      · simp [h0]
      · by_cases ht : hasId s0.tmpQ id = true
        · simp [h0, ht]
        · have hodd : id % 2 = 1 := by
            rcases ha with (h | h) | h
            · exact absurd h h0
            · exact absurd h ht
            · exact h
          simp [h0, ht, hodd]
  cases st with
  | submit t k => simp [holdsLock] at hl
  | idleAct t a => exact hact s t a (by simpa [holdsLock] using hl)
  | cbAct a => exact hact s s.loopTid a (by simpa [holdsLock] using hl)
  | loopStart t f => simp [holdsLock] at hl
  | passWake => simp [holdsLock] at hl
  | passBegin => simp [step]
  | timerExit => simp [step]
  | passSkip => simp [step]
  | passNext => simp [step]
  | execFront => simp only [step]; split <;> simp
  | passEnd => simp only [step]; split <;> simp
  | destroy t => simp [step]
  | fault f => cases f <;> simp [step, setFault]
  | tick d => simp [step]
  | setWL a b => simp [step]
  | passBreak => simp [step]
  | submitRun t k => simp [holdsLock] at hl
  | cleanup t => simp [holdsLock] at hl
  | act =>
    simp only [holdsLock, Bool.or_eq_false_iff] at hl
    simp only [step]
    split
    · rename_i a rest hc
      rw [hc] at hl
      have := hact { s with cur := rest } s.loopTid a (by simpa [actLocks] using hl.2)
      simpa using this
    · simp
  | drainGen =>
    simp only [valid, Bool.and_eq_true, beq_iff_eq] at hv
    simp only [holdsLock, Bool.or_eq_false_iff, Bool.not_eq_false'] at hl
    simp [exclusive, hv.1.1.1, hl.1, hl.2] at hx
  | drainExec =>
    simp only [valid, Bool.and_eq_true, beq_iff_eq] at hv
    simp only [holdsLock, Bool.or_eq_false_iff, Bool.not_eq_false'] at hl
    simp [exclusive, hv.1.1, hl.1, hl.2] at hx
  | drainEnd =>
    simp only [valid, Bool.and_eq_true, beq_iff_eq] at hv
    simp only [holdsLock, Bool.or_eq_false_iff, Bool.not_eq_false'] at hl
    simp [exclusive, hv.1.1.1, hl.1, hl.2] at hx

/-- **loop-thread-only variables.**  A cross-thread submission touches nothing but the
lock-protected variables (and the ghost log): run-next queue, batches, id allocator of `runNext`,
`keep_running_` and the loop thread's control state are only ever touched by loop-thread steps. -/
theorem C01_loop_thread_only (cfg : Cfg) (s : State) (tid k : Nat) :
    let s' := step cfg s (.submit tid k)
    s'.nextQ = s.nextQ ∧ s'.tmpQ = s.tmpQ ∧ s'.dQ = s.dQ ∧ s'.nextAlloc = s.nextAlloc ∧ s'.keepRunning = s.keepRunning ∧
    s'.phase = s.phase ∧ s'.cur = s.cur ∧ s'.remain = s.remain ∧ s'.executed = s.executed ∧ s'.cancelled = s.cancelled := by
  have h := submitInLoop_frame s tid (cfg.prog k)
  simp only at h
  simp only [step]
  exact ⟨h.2.1, h.2.2.1, h.2.2.2.1, h.2.2.2.2.2.2.1, h.2.2.2.2.1, h.2.2.2.2.2.2.2.1, h.2.2.2.2.2.2.2.2.1,
    h.2.2.2.2.2.2.2.2.2.1, h.2.2.2.2.2.2.2.2.2.2.2.2.1, h.2.2.2.2.2.2.2.2.2.2.2.2.2.1⟩

/-- **a task in the shutdown batch is out of `cancel`'s reach** (the 4th case of
`C01_cancel_false_sound`): `cancel` never changes the local batch, so the refused task stays queued
there and is invoked by the drain (`C01_pending_at_exit_run`, `C01_exactly_once`). -/
theorem C01_drain_batch_not_cancellable (s : State) (id : Nat) : (cancel s id).dQ = s.dQ := by
  simp only [cancel]
  split
  · rfl
  · split
    · rfl
    · split <;> rfl

/-- **exit through the exit timer** (`exitLoop(wait_time)`): when the timer fires in a pass the loop
leaves at the end of that very pass (the `while (keep_running_)` test fails) and enters the shutdown
drain — the same exit path as `exitLoop()`, so drained-on-exit and the wake-up invariant cover it. -/
theorem C01_exit_timer (cfg : Cfg) (s : State) (_hv : valid s .timerExit = true) :
    (step cfg s .timerExit).keepRunning = false ∧ (step cfg s .timerExit).exitTimer = false ∧
    ∀ s', s'.keepRunning = false → valid s' .passEnd = true → (step cfg s' .passEnd).phase = .drain := by
  refine ⟨rfl, rfl, ?_⟩
  intro s' hk _
  simp [step, hk]

/-- re-arming or cancelling an armed exit timer makes the loop submit a deferred task to itself
(`deleteTimer` → `run()` → `runNext`): it takes the next odd id and is queued like any other. -/
theorem C01_exit_timer_internal_task (cfg : Cfg) (s : State) (tid : Nat) (h : s.exitTimer = true) :
    (doAct cfg s tid .exit).nextAlloc = s.nextAlloc + 2 ∧
    idsOf (doAct cfg s tid .exit).nextQ = idsOf s.nextQ ++ [s.nextAlloc + 2] ∧
    (doAct cfg s tid .exit).keepRunning = false ∧ (doAct cfg s tid .exit).exitTimer = false := by
  simp [doAct, dropExitTimer, h, submitNext, noteNext]

/-! ### exceptions thrown by callables (repaired code: patches/C01-02) -/

/-- **a throwing callable does not take the rest of the batch with it.**  The step in which the
running callable throws changes nothing but the rest of its own script: all four queues, the phase,
the flags are as before, and whatever is left of the batch (pass batch or shutdown batch) is the next
thing the loop thread calls.  All other theorems of this file quantify over executions that contain
such steps, so exactly-once, FIFO and drained-on-exit hold with throwing callables as well. -/
theorem C01_throw_keeps_batch (cfg : Cfg) (s : State) (rest : List Act) (hc : s.cur = .throw :: rest) :
    let s' := step cfg s .act
    s'.cur = [] ∧ s'.tmpQ = s.tmpQ ∧ s'.dQ = s.dQ ∧ s'.nextQ = s.nextQ ∧ s'.inLoopQ = s.inLoopQ ∧ s'.phase = s.phase ∧
    s'.executed = s.executed ∧ s'.keepRunning = s.keepRunning ∧ s'.remain = s.remain ∧
    (s.tmpQ ≠ [] → (s.phase = .wake ∨ s.phase = .next) → valid s' .execFront = true) ∧
    (s.dQ ≠ [] → s.phase = .drain → valid s' .drainExec = true) := by
  simp only [step, hc, doAct, true_and]
  refine ⟨?_, ?_⟩
  · intro ht hp
    rcases hp with hp | hp <;> simp [valid, hp, ht]
  · intro hd hp
    simp [valid, hp, hd]

/-- program of the witness: task 1 throws, task 2 does nothing -/
def throwProg : Nat → List Act
  | 1 => [.throw]
  | _ => []

/-- a kOnce run with two runNext tasks submitted from a task of the single pass: both are pending at
loop exit; the first one throws in the shutdown drain -/
def throwWitness : List Step :=
  [.submit 1 3, .loopStart 0 false, .passBegin, .passWake, .execFront, .act, .act, .passNext, .passEnd,
   .drainGen, .drainExec, .act]

def throwProg' : Nat → List Act
  | 3 => [.inLoop 1, .inLoop 2]
  | k => throwProg k

/-- **the code as found drops the rest of the shutdown batch**: task 6 was handed out, is in no queue,
was not executed and not cancelled (the exception unwound `cleanupDeferredTasks`). -/
theorem C01_throw_drops_batch_counterexample :
    (execFound (foundCfg throwProg') init throwWitness).map
      (fun s => (decide (accepted s 6), idsOf (pend s), s.executed, s.cancelled, s.phase)) =
      some (true, [], [4, 2], [], .idle) := by decide

/-- the same schedule on the repaired code: task 6 is still in the batch and runs next -/
theorem C01_throw_witness_repaired :
    (exec (fixedCfg throwProg') init (throwWitness ++ [.drainExec, .drainEnd])).map
      (fun s => (idsOf (pend s), s.executed, s.phase)) = some ([], [6, 4, 2], .idle) := by decide


/-! ### round 7: run(), parity of ids, kernel faults, clock and poll timeout, cleanup(), water line -/

/-- **the parity of an id identifies its queue, for every id ever issued** — and therefore `cancel`, which
looks at the batch being executed and then only at the queue named by the parity, is COMPLETE: it answers
true exactly when the id sits in one of the three containers it may still be removed from. -/
theorem C01_parity_identifies_queue (cfg : Cfg) (sts : List Step) (s : State) (he : exec cfg init sts = some s) :
    (∀ t ∈ s.inLoopQ, t.id % 2 = 0 ∧ 2 ≤ t.id) ∧ (∀ t ∈ s.nextQ, t.id % 2 = 1 ∧ 3 ≤ t.id) ∧
    (∀ id, accepted s id → (id % 2 = 0 → id ∉ idsOf s.nextQ) ∧ (id % 2 = 1 → id ∉ idsOf s.inLoopQ)) ∧
    ∀ id, cancelRet s id = true ↔ id ∈ idsOf (s.tmpQ ++ s.nextQ ++ s.inLoopQ) := by
  have hi := exec_inv cfg init sts init_inv s he
  have hacc : ∀ id, id ∈ idsOf (s.tmpQ ++ s.nextQ ++ s.inLoopQ) → accepted s id := by
    intro id hid
    refine accepted_of_mem_line hi ?_
    rw [line_def]
    simp only [idsOf_append, List.mem_append] at hid ⊢
    rcases hid with (h | h) | h
    · exact Or.inr (Or.inl (Or.inl (Or.inl h)))
    · exact Or.inr (Or.inl (Or.inr h))
    · exact Or.inr (Or.inr h)
  have mem_ids : ∀ (q : List Task) (t : Task), t ∈ q → t.id ∈ idsOf q := fun q t ht => List.mem_map.2 ⟨t, ht, rfl⟩
  refine ⟨?_, ?_, ?_, ?_⟩
  · intro t ht
    have ha := hacc t.id (by simp only [idsOf_append, List.mem_append]; exact Or.inr (mem_ids _ _ ht))
    have hp := hi.parIn t ht
    unfold accepted at ha
    exact ⟨hp, by omega⟩
  · intro t ht
    have ha := hacc t.id (by simp only [idsOf_append, List.mem_append]; exact Or.inl (Or.inr (mem_ids _ _ ht)))
    have hp := hi.parNext t ht
    unfold accepted at ha
    exact ⟨hp, by omega⟩
  · intro id _
    exact ⟨fun h0 hm => by have := idsOf_par_next _ hi.parNext id hm; omega,
           fun h1 hm => by have := idsOf_par_in _ hi.parIn id hm; omega⟩
  · intro id
    constructor
    · intro hr
      simp only [cancelRet] at hr
      simp only [idsOf_append, List.mem_append]
      split at hr
      · cases hr
      · split at hr
        · rename_i ht; exact Or.inl (Or.inl ((hasId_iff _ _).1 ht))
        · split at hr
          · exact Or.inl (Or.inr ((hasId_iff _ _).1 hr))
          · exact Or.inr ((hasId_iff _ _).1 hr)
    · intro hm
      have ha := hacc id hm
      have h0 : id ≠ 0 := by unfold accepted at ha; omega
      simp only [idsOf_append, List.mem_append] at hm
      simp only [cancelRet, h0, if_false]
      by_cases ht : hasId s.tmpQ id = true
      · simp [ht]
      · simp only [ht, if_false]
        have hnt : id ∉ idsOf s.tmpQ := fun h => ht ((hasId_iff _ _).2 h)
        rcases hm with (h | h) | h
        · exact absurd h hnt
        · have := idsOf_par_next _ hi.parNext id h
          simp [this, (hasId_iff _ _).2 h]
        · have := idsOf_par_in _ hi.parIn id h
          have hne : ¬ id % 2 = 1 := by omega
          simp [hne, (hasId_iff _ _).2 h]

/-- **`run()` picks the entry point by thread and running state**: from the loop thread (a callable, a timer/fd
callback, the shutdown drain) and from the owner while the loop is not running it is `runNext`; from any other
thread while the loop runs it is `runInLoop` (lock_, wake-up committed). -/
theorem C01_run_picks_queue (cfg : Cfg) (sts : List Step) (s : State) (he : exec cfg init sts = some s) (k tid : Nat) :
    doAct cfg s s.loopTid (.run k) = submitNext s s.loopTid (cfg.prog k) ∧
    (s.phase = .idle → doAct cfg s tid (.run k) = submitNext s tid (cfg.prog k)) ∧
    (valid s (.submitRun tid k) = true → step cfg s (.submitRun tid k) = submitInLoop s tid (cfg.prog k)) := by
  have hi := exec_inv cfg init sts init_inv s he
  refine ⟨by simp [doAct], ?_, ?_⟩
  · intro hp
    have hfd := hi.fdRun
    simp [hp] at hfd
    simp [doAct, hfd]
  · intro hv
    simp only [valid, Bool.and_eq_true, bne_iff_ne, ne_eq] at hv
    obtain ⟨⟨⟨h1, h2⟩, h3⟩, h4⟩ := hv
    have hsome : s.efd.isSome = true := by
      refine hi.fdRun.2 ?_
      have hq := hi.shapeDrain
      cases hp : s.phase <;> simp_all
    simp [step, doAct, hsome, h4]

/-- **a failed eventfd write loses the wake-up** (code as it is; kernel answer excluded by `wrLost = false` in
`C01_no_lost_wakeup`): the loop is polling, the queue holds the task, the flag says "wake-up pending", the counter
is 0. -/
theorem C01_write_fault_loses_wakeup_counterexample :
    (exec (fixedCfg witnessProg) init [.loopStart 0 true, .fault .wrFail, .submit 1 0]).map
      (fun s => (s.phase, s.efd, idsOf s.inLoopQ, s.hasCommit, s.wrLost)) = some (.poll, some 0, [2], true, true) := by decide

/-- **eventfd() failing (EMFILE) when the loop starts**: the loop runs, every wake-up write fails (fd -1), the
eventfd callback can never run; cross-thread tasks wait for the shutdown drain.  Total, but deaf. -/
theorem C01_eventfd_create_fail_counterexample :
    (exec (fixedCfg witnessProg) init [.fault .efdFail, .loopStart 0 true, .submit 1 0, .passBegin, .passSkip, .passNext, .passEnd,
        .passBegin, .cbAct .exit, .passSkip, .passNext, .passEnd, .drainGen, .drainExec, .drainEnd]).map
      (fun s => (s.phase, s.executed, s.fdBad)) = some (.idle, [2], false) := by decide

/-- the hard poll error of the select engine leaves the loop through the shutdown drain (nothing is dropped:
`C01_drained_on_exit` covers this drain too); the epoll engine treats it like EINTR. -/
theorem C01_poll_error_select_drains (cfg : Cfg) (s : State) (hsel : cfg.selectEngine = true) (hp : s.phase = .poll)
    (he : s.poll = .err) (hx : s.exitTimer = false) :
    valid (step cfg s .passBegin) .passBreak = true ∧ valid (step cfg s .passBegin) .passSkip = false ∧
    (step cfg (step cfg s .passBegin) .passBreak).phase = .drain ∧ (step cfg (step cfg s .passBegin) .passBreak).remain = 100 := by
  simp [step, valid, hsel, he, hx, pollSees]

theorem C01_poll_error_epoll_continues (cfg : Cfg) (s : State) (hsel : cfg.selectEngine = false) :
    (step cfg s .passBegin).broke = false := by
  simp [step, hsel]

/-- **the exit timer never fires early**: in every reachable state in which `timerExit` is enabled the timer is
armed and the clock has reached its deadline `exitAt` (= clock at `exitLoop(w)` + w, `C01_exit_timer_deadline`). -/
theorem C01_exit_timer_not_early (cfg : Cfg) (sts : List Step) (s : State) (he : exec cfg init sts = some s)
    (hv : valid s .timerExit = true) : s.exitTimer = true ∧ s.exitAt ≤ s.clock := by
  have ht := exec_time cfg init sts init_time s he
  simp only [valid, Bool.and_eq_true, beq_iff_eq] at hv
  exact ⟨(ht.due hv.2).1, (ht.due hv.2).2.1⟩

theorem C01_exit_timer_deadline (cfg : Cfg) (s : State) (tid w : Nat) :
    (doAct cfg s tid (.exitLater w)).exitAt = s.clock + w ∧ (doAct cfg s tid (.exitLater w)).exitTimer = true ∧
    (doAct cfg s tid (.exitLater w)).timerDue = false ∨ (s.exitTimer = false ∧ (doAct cfg s tid (.exitLater w)).exitAt = s.clock + w) := by
  by_cases h : s.exitTimer = true
  · left; simp [doAct, dropExitTimer, h, submitNext, noteNext]
  · right; simp [doAct, dropExitTimer, h]

/-- … and never late in terms of passes: a pass whose poll returns at or after the deadline finds the timer due,
and cannot go on to the batches (or leave through `break`) before it has fired. -/
theorem C01_exit_timer_fires (cfg : Cfg) (s : State) (hx : s.exitTimer = true) (hd : s.exitAt ≤ s.clock) :
    let s' := step cfg s .passBegin
    s'.timerDue = true ∧ valid s' .passWake = false ∧ valid s' .passSkip = false ∧ valid s' .passBreak = false ∧
    (s.phase = .poll → valid s' .timerExit = true) := by
  simp [step, valid, hx, hd]

/-- **width of the poll timeout.**  `getWaitTime()` is 64 bit; the epoll engine hands `static_cast<int>` of it to
epoll_wait after clamping at INT_MAX.  With the clamp the cast is the identity: "for ever" stays -1, a
non-negative wait stays non-negative (never "for ever"), never exceeds the real wait (never oversleeps the
deadline), equals it below 2^31 and stays positive for a positive wait (no busy polling).  The select engine
passes the 64-bit value. -/
theorem C01_poll_timeout_width (cfg : Cfg) (s : State) :
    (waitTime s = -1 → pollTimeout cfg s = -1) ∧
    (0 ≤ waitTime s → 0 ≤ pollTimeout cfg s ∧ pollTimeout cfg s ≤ waitTime s ∧
      (waitTime s ≤ 2147483647 → pollTimeout cfg s = waitTime s) ∧ (0 < waitTime s → 0 < pollTimeout cfg s)) ∧
    (cfg.selectEngine = true → pollTimeout cfg s = waitTime s) ∧ (-1 ≤ waitTime s) := by
  have hge : -1 ≤ waitTime s := by
    unfold waitTime; split
    · omega
    · split
      · split <;> omega
      · omega
  unfold pollTimeout toInt32
  cases cfg.selectEngine
  · simp only [Bool.false_eq_true, ↓reduceIte]
    refine ⟨?_, ?_, ?_, hge⟩
    · intro h; rw [h]; decide
    · intro h0
      split <;> omega
    · intro h; cases h
  · simp only [↓reduceIte]
    exact ⟨fun h => h, fun h0 => ⟨h0, Int.le_refl _, fun _ => trivial, fun h => h⟩, fun _ => trivial, hge⟩

/-- without the clamp (the code before the fix of the timer property) a wait of 2^31 ms is handed over as a negative
number = wait for ever, and 2^32 ms as 0 = busy polling -/
theorem C01_poll_timeout_unclamped_counterexample : toInt32 2147483648 = -2147483648 ∧ toInt32 4294967296 = 0 := by decide

/-- **the public `cleanup()`** (loop not running) runs the same drain as loop exit and returns to idle with the
loop object alive and reusable; `C01_drained_on_exit` (stated on `drainEnd`) and `C01_pending_at_exit_run` cover it. -/
theorem C01_cleanup_returns_idle (cfg : Cfg) (s : State) (tid : Nat) (hp : s.phase = .idle) :
    valid s (.cleanup tid) = true ∧ (step cfg s (.cleanup tid)).phase = .drain ∧ (step cfg s (.cleanup tid)).remain = 100 ∧
    exclusive (step cfg s (.cleanup tid)) = false ∧ valid (step cfg s (.cleanup tid)) (.submit 1 0) = false ∧
    ∀ s', s'.phase = .drain → s'.destroying = true → s'.userCleanup = true → (step cfg s' .drainEnd).phase = .idle := by
  refine ⟨by simp [valid, hp], by simp [step], by simp [step], by simp [step, exclusive], by simp [step, valid], ?_⟩
  intro s' _ hd hu
  simp [step, hd, hu]

/-- lock discipline of the code as found: the drain of `cleanup()` does not hold lock_ -/
def holdsLockFound (s : State) : Step → Bool
  | .drainGen => !s.destroying
  | .drainExec => !s.destroying
  | .drainEnd => !s.destroying
  | st => holdsLock s st

/-- **`cleanup()` as found empties the cross-thread queue without lock_** while other threads may legitimately be
inside `runInLoop` (the object is not being destroyed): the step is enabled, holds no lock, is not exclusive, and
changes `run_in_loop_func_queue_` — the lock-discipline theorem is false for it.  patches/C01-03 takes lock_. -/
theorem C01_cleanup_unlocked_counterexample :
    (exec (fixedCfg witnessProg) init [.submit 1 0, .cleanup 0]).map
      (fun s => (valid s .drainGen, holdsLockFound s .drainGen, exclusive s, idsOf s.inLoopQ,
                 idsOf (step (fixedCfg witnessProg) s .drainGen).inLoopQ)) = some (true, false, false, [2], []) := by decide

/-- **destruction**: the engine's destructor drains (≤ 100 generations), then `~CommonLoop` deletes the exit timer — an
armed one defers the release of its record as one more deferred task — and drains again (patches/C01-05; before, that
task was dropped and the record leaked).  `drainEnd` of the first drain starts the second, `drainEnd` of the second
ends the object; `C01_drained_on_exit` speaks about both. -/
theorem C01_destructor_two_drains (cfg : Cfg) (s : State) (hd : s.destroying = true) (hu : s.userCleanup = false) :
    (s.finalDrain = false → (step cfg s .drainEnd).phase = s.phase ∧ (step cfg s .drainEnd).remain = 100 ∧
        (step cfg s .drainEnd).finalDrain = true ∧ (step cfg s .drainEnd).exitTimer = false ∧
        (s.exitTimer = true → idsOf (step cfg s .drainEnd).nextQ = idsOf s.nextQ ++ [s.nextAlloc + 2])) ∧
    (s.finalDrain = true → (step cfg s .drainEnd).phase = .dead) := by
  refine ⟨?_, ?_⟩
  · intro hf
    by_cases hx : s.exitTimer = true <;> simp [step, hd, hu, hf, hx, dropExitTimer, submitNext, noteNext]
  · intro hf; simp [step, hd, hu, hf]

/-- the code as found: an exit timer armed at destruction posts its release after the last drain: dropped (leak) -/
theorem C01_destructor_drops_timer_release_counterexample :
    (execFound (foundCfg witnessProg) init [.idleAct 0 (.exitLater 5), .destroy 0, .drainEnd]).map
      (fun s => (s.phase, idsOf s.nextQ, s.executed)) = some (.dead, [3], []) ∧
    (exec (fixedCfg witnessProg) init [.idleAct 0 (.exitLater 5), .destroy 0, .drainEnd, .drainGen, .drainExec, .drainEnd]).map
      (fun s => (s.phase, idsOf s.nextQ, s.executed)) = some (.dead, [], [3]) := by decide

/-- `runLoop()` called from a callable or callback of the running loop is refused (patches/C01-04): nothing changes -/
theorem C01_nested_run_refused (cfg : Cfg) (s : State) (tid : Nat) : doAct cfg s tid .nestedRun = s := rfl

/-! #### water line and statistics do not influence execution -/

/-- forget the water-line configuration, the notice counter and the peak statistics -/
def eraseStat (s : State) : State := { s with wlIn := 0, wlNext := 0, notices := 0, inPeak := 0, nextPeak := 0 }
/-- set them to arbitrary values -/
def setStat (s : State) (a b c d e : Nat) : State := { s with wlIn := a, wlNext := b, notices := c, inPeak := d, nextPeak := e }

theorem eraseStat_commit (s : State) (a b c d e : Nat) : eraseStat (commit (setStat s a b c d e)) = eraseStat (commit s) := by
  unfold commit setStat eraseStat
  simp only
  split
  · rfl
  · split <;> rfl

theorem eraseStat_submitInLoop (s : State) (a b c d e tid : Nat) (body : List Act) :
    eraseStat (submitInLoop (setStat s a b c d e) tid body) = eraseStat (submitInLoop s tid body) := by
  unfold submitInLoop noteIn setStat eraseStat
  simp only
  split
  · unfold commit
    simp only
    split
    · rfl
    · split <;> rfl
  · rfl

theorem eraseStat_submitNext (s : State) (a b c d e tid : Nat) (body : List Act) :
    eraseStat (submitNext (setStat s a b c d e) tid body) = eraseStat (submitNext s tid body) := rfl

theorem eraseStat_doAct (cfg : Cfg) (s : State) (a b c d e tid : Nat) (x : Act) :
    eraseStat (doAct cfg (setStat s a b c d e) tid x) = eraseStat (doAct cfg s tid x) := by
  cases x with
  | inLoop k => exact eraseStat_submitInLoop s a b c d e tid _
  | next k => rfl
  | cancel id =>
    by_cases h0 : id = 0 <;> by_cases h1 : hasId s.tmpQ id = true <;> by_cases h2 : id % 2 = 1 <;>
      simp [doAct, cancel, cancelRet, setStat, eraseStat, h0, h1, h2]
  | exit => by_cases h : s.exitTimer = true <;> simp [doAct, dropExitTimer, setStat, eraseStat, submitNext, noteNext, h]
  | exitLater w => by_cases h : s.exitTimer = true <;> simp [doAct, dropExitTimer, setStat, eraseStat, submitNext, noteNext, h]
  | throw => rfl
  | run k =>
    simp only [doAct]
    have : (setStat s a b c d e).efd = s.efd ∧ (setStat s a b c d e).loopTid = s.loopTid := ⟨rfl, rfl⟩
    rw [this.1, this.2]
    split
    · exact eraseStat_submitInLoop s a b c d e tid _
    · rfl
  | nestedRun => rfl

/-- **queue behaviour is independent of the water line**: whatever `water_line()` holds and whatever the statistics
say, a step is enabled in the same states and leads to the same state up to water line, notice count and peaks. -/
theorem C01_waterline_independent (cfg : Cfg) (s : State) (st : Step) (a b c d e : Nat) :
    valid (setStat s a b c d e) st = valid s st ∧
    eraseStat (step cfg (setStat s a b c d e) st) = eraseStat (step cfg s st) := by
  refine ⟨by cases st <;> rfl, ?_⟩
  cases st with
  | submit tid k => exact eraseStat_submitInLoop s a b c d e tid _
  | idleAct tid x => exact eraseStat_doAct cfg s a b c d e tid x
  | cbAct x => exact eraseStat_doAct cfg s a b c d e _ x
  | submitRun tid k => exact eraseStat_doAct cfg s a b c d e tid (.run k)
  | act =>
    simp only [step]
    have hc : (setStat s a b c d e).cur = s.cur := rfl
    rw [hc]
    split
    · exact eraseStat_doAct cfg { s with cur := _ } a b c d e _ _
    · rfl
  | loopStart tid forever =>
    by_cases h1 : s.inLoopQ.isEmpty = true <;> by_cases h2 : s.hasCommit = true <;> by_cases h3 : s.wrFail = true <;>
      by_cases h4 : s.efdFail = true <;> simp [step, commit, setStat, eraseStat, h1, h2, h3, h4]
  | passBegin => rfl
  | timerExit => rfl
  | passWake => rfl
  | passSkip => rfl
  | execFront => cases h : s.tmpQ <;> simp [step, setStat, eraseStat, h]
  | passNext => rfl
  | passEnd => by_cases h : s.keepRunning = true <;> simp [step, setStat, eraseStat, h]
  | drainGen => rfl
  | drainExec => cases h : s.dQ <;> simp [step, setStat, eraseStat, h]
  | drainEnd =>
    by_cases h1 : s.destroying = true <;> by_cases h2 : s.userCleanup = true <;> by_cases h3 : s.finalDrain = true <;>
      by_cases h4 : s.exitTimer = true <;> simp [step, setStat, eraseStat, dropExitTimer, submitNext, noteNext, h1, h2, h3, h4]
  | destroy tid => rfl
  | fault f => cases f <;> rfl
  | tick n => rfl
  | passBreak => rfl
  | cleanup tid => rfl
  | setWL x y => rfl

/-- … hence for whole executions: two runs of the same step list from states that differ only in water line and
statistics stay enabled together and end in states that differ only there. -/
theorem C01_waterline_independent_exec (cfg : Cfg) (sts : List Step) (s : State) (a b c d e : Nat) :
    (exec cfg (setStat s a b c d e) sts).map eraseStat = (exec cfg s sts).map eraseStat := by
  induction sts generalizing s a b c d e with
  | nil => rfl
  | cons st sts ih =>
    obtain ⟨hv, hs⟩ := C01_waterline_independent cfg s st a b c d e
    simp only [exec, hv]
    split
    · have e1 : step cfg (setStat s a b c d e) st = setStat (eraseStat (step cfg s st))
          (step cfg (setStat s a b c d e) st).wlIn (step cfg (setStat s a b c d e) st).wlNext (step cfg (setStat s a b c d e) st).notices
          (step cfg (setStat s a b c d e) st).inPeak (step cfg (setStat s a b c d e) st).nextPeak := by
        rw [← hs]; rfl
      have e2 : step cfg s st = setStat (eraseStat (step cfg s st))
          (step cfg s st).wlIn (step cfg s st).wlNext (step cfg s st).notices (step cfg s st).inPeak (step cfg s st).nextPeak := rfl
      have l := ih (eraseStat (step cfg s st)) (step cfg (setStat s a b c d e) st).wlIn (step cfg (setStat s a b c d e) st).wlNext
        (step cfg (setStat s a b c d e) st).notices (step cfg (setStat s a b c d e) st).inPeak (step cfg (setStat s a b c d e) st).nextPeak
      have r := ih (eraseStat (step cfg s st)) (step cfg s st).wlIn (step cfg s st).wlNext (step cfg s st).notices
        (step cfg s st).inPeak (step cfg s st).nextPeak
      rw [← e1] at l
      rw [← e2] at r
      rw [l, r]
    · rfl

/-! ### non-vacuity: concrete executions satisfying the hypotheses -/

/-- tasks: 1 = [runNext 0, cancel 5 (hit in the queue), runNext 0, exit], 2 = [cancel 2 (already run)] -/
def demoProg : Nat → List Act
  | 1 => [.next 0, .cancel 3, .next 0, .exit]
  | 2 => [.cancel 2]
  | _ => []

/-- two threads submit, the loop runs one pass (task 2 cancels its own queued runNext task 3, a third
thread submits task 6 in the middle of the batch, task 4 fails to cancel the executed task 2, the
runNext task 5 runs in the same pass), exits, drains task 6, is run again once by another thread
(task 8) and destroyed. -/
def demo : List Step :=
  [.submit 1 1, .submit 2 2, .loopStart 0 true, .passBegin, .passWake, .execFront, .act, .act, .act, .submit 3 0, .act,
   .execFront, .act, .passNext, .execFront, .passEnd, .drainGen, .drainExec, .drainEnd,
   .submit 1 0, .loopStart 7 false, .passBegin, .passWake, .execFront, .passNext, .passEnd, .drainEnd, .destroy 7, .drainEnd, .drainEnd]

example : (exec (fixedCfg demoProg) init demo).map (fun s => (s.executed, s.cancelled, s.phase, idsOf (pend s))) =
    some ([8, 6, 5, 4, 2], [3], .dead, []) := by decide
example : (exec (fixedCfg demoProg) init demo).map (fun s => execsOk s.log) = some true := by decide
/-- `C01_drained_on_exit`: a state where `drainEnd` is enabled with empty queues -/
example : (exec (fixedCfg demoProg) init (demo.take 18)).map (fun s => (valid s .drainEnd, s.remain)) = some (true, 99) := by decide
/-- `C01_pending_at_exit_run`: after the exit drain the task that was pending at loop exit (6) has been run -/
example : (exec (fixedCfg demoProg) init (demo.take 19)).map (fun s => (s.exitPending, s.phase, s.executed)) =
    some ([6], .idle, [6, 5, 4, 2]) := by decide
/-- `C01_no_lost_wakeup` / `C01_wakeup_served`: polling, queue non-empty, counter 1 (after a re-run) -/
example : (exec (fixedCfg witnessProg) init witness).map (fun s => (s.phase, s.efd, s.inLoopQ.length)) = some (.poll, some 1, 1) := by decide
/-- `C01_cancel_sound` / `C01_cancel_false_sound`: a successful cancel and a refused one occur in `demo` -/
example : (exec (fixedCfg demoProg) init demo).map (fun s => (cancelIds s.log, s.log.filter (fun e => e matches .cancel _ false))) =
    some ([3], [.cancel 2 false]) := by decide
/-- `C01_exit_timer` / `C01_exit_timer_internal_task`: a run where the exit timer is armed from a callable,
fires in the next pass, is armed again while idle and dropped by `exitLoop()` (internal task 5) -/
example : (exec (fixedCfg (fun k => if k = 1 then [.exitLater 5] else [])) init
    [.submit 1 1, .loopStart 0 true, .passBegin, .passWake, .execFront, .act, .passNext, .passEnd, .tick 4,
     .passBegin, .passSkip, .passNext, .passEnd, .tick 1,
     .passBegin, .timerExit, .passSkip, .passNext, .passEnd, .drainEnd, .idleAct 0 (.exitLater 7), .idleAct 0 .exit]).map
    (fun s => (s.phase, s.exitTimer, s.keepRunning, idsOf s.nextQ)) = some (.idle, false, false, [3]) := by decide
/-- `NoWrap` holds in the demo's final state -/
example : (exec (fixedCfg demoProg) init demo).map (fun s => decide (NoWrap s)) = some true := by decide
/-- `C01_throw_keeps_batch`: a state in which the running callable is about to throw with a task left in the batch -/
example : (exec (fixedCfg throwProg') init (throwWitness.take 11)).map (fun s => (s.cur, idsOf s.dQ, s.phase)) =
    some ([.throw], [6], .drain) := by decide
/-- `C01_lock_discipline`: a lock-free step (runNext from a callable) in a non-exclusive state -/
example : (exec (fixedCfg demoProg) init (demo.take 6)).map (fun s => (valid s .act, holdsLock s .act, exclusive s)) =
    some (true, false, false) := by decide
/-- the 100-generation bound is reached by a self-reposting task: 100 executions in the exit drain, one left -/
def chainProg : Nat → List Act := fun _ => [.next 0]
def drainAll : Nat → List Step
  | 0 => [.drainEnd]
  | n + 1 => [.drainGen, .drainExec, .act] ++ drainAll n
example : (exec (fixedCfg chainProg) init ([.idleAct 0 (.next 0), .loopStart 0 false, .passBegin, .passSkip, .passNext,
      .execFront, .act, .passEnd] ++ drainAll 100)).map (fun s => (s.executed.length, idsOf s.nextQ, s.phase)) =
    some (101, [205], .idle) := by decide +kernel

/-- `C01_parity_identifies_queue` / `C01_run_picks_queue`: run() from another thread while the loop runs takes an
even id, from a callable an odd one; both are found by cancel through their parity -/
example : (exec (fixedCfg (fun k => if k = 1 then [.run 0, .cancel 3, .cancel 4] else [])) init
    [.submit 1 1, .loopStart 0 true, .submitRun 2 0, .passBegin, .passWake, .execFront, .act, .act, .act]).map
    (fun s => (s.cancelled, idsOf (pend s))) = some ([4, 3], []) := by decide
/-- `C01_eintr_keeps_wakeup` / `C01_wakeup_served`: two interrupted polls, then the wake-up is served -/
example : (exec (fixedCfg witnessProg) init
    [.loopStart 0 true, .submit 1 0, .fault (.poll .intr), .passBegin, .passSkip, .passNext, .passEnd,
     .fault (.poll .err), .passBegin, .passSkip, .passNext, .passEnd, .passBegin, .passWake, .execFront]).map
    (fun s => (s.executed, s.efd)) = some ([2], some 0) := by decide
/-- `C01_read_fault_harmless`: a spurious report and a failed read; the extra wake-up costs one empty pass -/
example : (exec (fixedCfg witnessProg) init
    [.loopStart 0 true, .fault (.poll .spurious), .passBegin, .fault .rdFail, .passWake, .passNext, .passEnd,
     .submit 1 0, .fault .rdFail, .passBegin, .passWake, .execFront, .passNext, .passEnd, .passBegin, .passWake]).map
    (fun s => (s.executed, s.efd, s.hasCommit)) = some ([2], some 0, false) := by decide
/-- `C01_poll_error_select_drains`: select engine, hard error, queued runNext work is drained -/
example : (exec (fixedCfgSel witnessProg) init
    [.idleAct 0 (.next 0), .loopStart 0 true, .fault (.poll .err), .passBegin, .passBreak, .drainGen, .drainExec, .drainEnd]).map
    (fun s => (s.executed, s.phase)) = some ([3], .idle) := by decide
/-- `C01_exit_timer_not_early` / `C01_exit_timer_fires`: a wait of 2^31 + 1 ms: not due after 2^31 ms, due one ms later -/
example : (exec (fixedCfg witnessProg) init
    [.idleAct 0 (.exitLater 2147483649), .loopStart 0 true, .tick 2147483648, .passBegin]).map
    (fun s => (s.timerDue, pollTimeout (fixedCfg witnessProg) s)) = some (false, 1) := by decide
example : (exec (fixedCfg witnessProg) init
    [.idleAct 0 (.exitLater 2147483649), .loopStart 0 true]).map
    (fun s => (waitTime s, pollTimeout (fixedCfg witnessProg) s, pollTimeout (fixedCfgSel witnessProg) s)) =
    some (2147483649, 2147483647, 2147483649) := by decide
example : (exec (fixedCfg witnessProg) init
    [.idleAct 0 (.exitLater 2147483649), .loopStart 0 true, .tick 2147483649, .passBegin, .timerExit, .passSkip, .passNext, .passEnd]).map
    (fun s => s.phase) = some .drain := by decide
/-- `C01_cleanup_returns_idle`: queued work, cleanup() by the owner, loop reusable afterwards -/
example : (exec (fixedCfg witnessProg) init
    [.submit 1 0, .idleAct 0 (.next 0), .cleanup 0, .drainGen, .drainExec, .drainExec, .drainEnd, .submit 1 0, .loopStart 0 false]).map
    (fun s => (s.executed, s.phase, s.efd)) = some ([2, 3], .poll, some 1) := by decide
/-- `C01_waterline_independent`: a run with water line 0 logs notices, the queues are the same -/
example : (exec (fixedCfg witnessProg) init [.setWL 0 0, .submit 1 0, .idleAct 0 (.next 0)]).map
    (fun s => (s.notices, idsOf (pend s))) = some (2, [3, 2]) := by decide
/-- `C01_nested_run_refused`: the act is enabled inside a callable of the running loop -/
example : (exec (fixedCfg (fun k => if k = 1 then [.nestedRun, .next 0] else [])) init
    [.submit 1 1, .loopStart 0 true, .passBegin, .passWake, .execFront, .act, .act]).map
    (fun s => (idsOf s.nextQ, s.phase)) = some ([3], .wake) := by decide

/-! ### round 8: cancel of the running task / of the id issued next, the queries isRunning() / isInLoopThread() -/

theorem removeId_of_not_has (q : List Task) (id : Nat) (h : hasId q id = false) : removeId q id = q := by
  simp only [removeId, List.filter_eq_self, bne_iff_ne, ne_eq]
  intro t ht he
  have : hasId q id = true := by
    simp only [hasId, List.any_eq_true, beq_iff_eq]; exact ⟨t, ht, he⟩
  rw [h] at this; cases this

/-- a `cancel` that answers false changes nothing but the (ghost) log -/
theorem cancel_of_ret_false (s : State) (id : Nat) (h : cancelRet s id = false) :
    cancel s id = { s with log := .cancel id false :: s.log } := by
  simp only [cancel, h]
  simp only [cancelRet] at h
  by_cases h0 : id = 0
  · simp [h0]
  · simp only [h0, if_false] at h ⊢
    by_cases ht : hasId s.tmpQ id = true
    · simp [ht] at h
    · simp only [ht] at h ⊢
      by_cases hodd : id % 2 = 1
      · simp only [hodd, if_true] at h ⊢
        rw [removeId_of_not_has _ _ h]; rfl
      · simp only [hodd, if_false] at h ⊢
        rw [removeId_of_not_has _ _ h]; rfl

theorem cancelRet_false_of_absent (s : State) (id : Nat) (ht : id ∉ idsOf s.tmpQ) (hn : id ∉ idsOf s.nextQ)
    (hi : id ∉ idsOf s.inLoopQ) : cancelRet s id = false := by
  have a : hasId s.tmpQ id = false := by
    cases h : hasId s.tmpQ id with | false => rfl | true => exact absurd ((hasId_iff _ _).1 h) ht
  have b : hasId s.nextQ id = false := by
    cases h : hasId s.nextQ id with | false => rfl | true => exact absurd ((hasId_iff _ _).1 h) hn
  have c : hasId s.inLoopQ id = false := by
    cases h : hasId s.inLoopQ id with | false => rfl | true => exact absurd ((hasId_iff _ _).1 h) hi
  by_cases h0 : id = 0 <;> simp [cancelRet, a, b, c, h0]


theorem doAct_executed (cfg : Cfg) (s : State) (tid : Nat) (a : Act) : (doAct cfg s tid a).executed = s.executed := by
  cases a with
  | inLoop k => exact (submitInLoop_frame s tid (cfg.prog k)).2.2.2.2.2.2.2.2.2.2.2.2.1
  | next k => simp [doAct, submitNext, noteNext]
  | cancel id => simp only [doAct, cancel]; split <;> (try split) <;> (try split) <;> rfl
  | exit => simp only [doAct]; exact (dropExitTimer_frame s tid).2.2.2.2.1
  | exitLater w => simp only [doAct]; exact (dropExitTimer_frame s tid).2.2.2.2.1
  | throw => rfl
  | run k =>
    simp only [doAct]; split
    · exact (submitInLoop_frame s tid (cfg.prog k)).2.2.2.2.2.2.2.2.2.2.2.2.1
    · simp [submitNext, noteNext]
  | nestedRun => rfl

/-- the set of executed ids only grows -/
theorem step_executed_mono (cfg : Cfg) (s : State) (st : Step) (id : Nat) (h : id ∈ s.executed) :
    id ∈ (step cfg s st).executed := by
  cases st with
  | submit t k => simp only [step]; rw [(submitInLoop_frame s t (cfg.prog k)).2.2.2.2.2.2.2.2.2.2.2.2.1]; exact h
  | idleAct t a => simp only [step, doAct_executed]; exact h
  | cbAct a => simp only [step, doAct_executed]; exact h
  | submitRun t k => simp only [step, doAct_executed]; exact h
  | loopStart t f =>
    simp only [step]; split
    · simpa using h
    · rw [(commit_frame _).2.2.2.2.2.2.2.2.2.2.2.2.1]; simpa using h
  | execFront => simp only [step]; split <;> simp [h]
  | drainExec => simp only [step]; split <;> simp [h]
  | act =>
    simp only [step]; split
    · rw [doAct_executed]; exact h
    · exact h
  | passEnd => simp only [step]; split <;> exact h
  | drainEnd =>
    simp only [step]; split
    · split
      · exact h
      · split
        · simp only []; rw [(dropExitTimer_frame s s.loopTid).2.2.2.2.1]; exact h
        · exact h
    · exact h
  | fault f => cases f <;> exact h
  | passBegin => exact h
  | timerExit => exact h
  | passWake => exact h
  | passSkip => exact h
  | passNext => exact h
  | drainGen => exact h
  | destroy t => exact h
  | tick d => exact h
  | passBreak => exact h
  | cleanup t => exact h
  | setWL a b => exact h

theorem exec_executed_mono (cfg : Cfg) (sts : List Step) (s s' : State) (he : exec cfg s sts = some s') (id : Nat)
    (h : id ∈ s.executed) : id ∈ s'.executed := by
  induction sts generalizing s with
  | nil => simp only [exec, Option.some.injEq] at he; subst he; exact h
  | cons x l ih =>
    simp only [exec] at he
    split at he
    · exact ih _ he (step_executed_mono cfg s x id h)
    · cases he

theorem exec_append (cfg : Cfg) (l l' : List Step) (a b c : State) (h : exec cfg a l = some b) (h' : exec cfg b l' = some c) :
    exec cfg a (l ++ l') = some c := by
  induction l generalizing a with
  | nil => simp only [exec, Option.some.injEq] at h; subst h; simpa using h'
  | cons x l ih =>
    simp only [exec, List.cons_append] at h ⊢
    split at h
    · rename_i hx; simp only [hx, if_true]; exact ih _ h
    · cases h

/-- **a task that has been (or is being) invoked cannot be cancelled any more**, at every point of every execution:
`cancel(id)` answers false and changes nothing — no queue, no batch, no counter, only the ghost log. -/
theorem C01_cancel_after_exec_false (cfg : Cfg) (sts : List Step) (s : State) (he : exec cfg init sts = some s) (id : Nat)
    (hx : id ∈ s.executed) :
    cancelRet s id = false ∧ cancel s id = { s with log := .cancel id false :: s.log } := by
  have h := exactly_once_core cfg sts s he id
  have hp : 0 < s.executed.count id := List.count_pos_iff.2 hx
  have hr : cancelRet s id = false := by
    refine cancelRet_false_of_absent s id ?_ ?_ ?_ <;>
    · intro hm; have := List.count_pos_iff.2 hm; split at h <;> omega
  exact ⟨hr, cancel_of_ret_false s id hr⟩

/-- **cancel of the task currently executing, from inside itself** (lesson of seeded C01-8), for the batch of the
eventfd callback (`phase = wake`: runInLoop tasks), the runNext batch (`phase = next`) and the shutdown drain:
the code pops the task BEFORE it invokes it (`auto item = front(); pop_front();`), so when the callable — at any
point `sts'` later of its own script or of anything that follows — asks to cancel its own id, the answer is false,
nothing changes but the log, and in particular the follower `rest` is still the batch: it is neither removed nor
skipped (`tmpQ = rest` right after the pop, untouched by the cancel). -/
theorem C01_cancel_self_while_running (cfg : Cfg) (sts : List Step) (s : State) (he : exec cfg init sts = some s)
    (t : Task) (rest : List Task) (hq : s.tmpQ = t :: rest) (hv : valid s .execFront = true)
    (s1 : State) (h1 : s1 = step cfg s .execFront)
    (sts' : List Step) (s' : State) (he' : exec cfg s1 sts' = some s') :
    s1.tmpQ = rest ∧ s1.cur = t.body ∧ s1.executed = t.id :: s.executed ∧
    cancelRet s1 t.id = false ∧ cancel s1 t.id = { s1 with log := .cancel t.id false :: s1.log } ∧
    (cancel s1 t.id).tmpQ = rest ∧
    cancelRet s' t.id = false ∧ cancel s' t.id = { s' with log := .cancel t.id false :: s'.log } := by
  have e1 : exec cfg init (sts ++ [.execFront]) = some s1 :=
    exec_append cfg sts [.execFront] init s _ he (by simp [exec, hv, h1])
  have hs : s1 = { s with tmpQ := rest, cur := t.body, executed := (t.id :: s.executed), log := (Ev.exec t.id s.loopTid :: s.log) } := by
    simp [h1, step, hq]
  have hmem : t.id ∈ s1.executed := by rw [hs]; simp
  have c1 := C01_cancel_after_exec_false cfg _ _ e1 t.id hmem
  have e2 := exec_append cfg _ sts' init _ s' e1 he'
  have c2 := C01_cancel_after_exec_false cfg _ _ e2 t.id (exec_executed_mono cfg sts' _ s' he' t.id hmem)
  refine ⟨by rw [hs], by rw [hs], by rw [hs], c1.1, c1.2, ?_, c2.1, c2.2⟩
  rw [c1.2, hs]

/-- the same in the shutdown drain (loop exit, destructor, `cleanup()`): the running task of the local batch is not
cancellable either (the local deques are invisible to `cancel`), the rest of the generation `rest` stays -/
theorem C01_cancel_self_in_drain (cfg : Cfg) (sts : List Step) (s : State) (he : exec cfg init sts = some s)
    (t : Task) (rest : List Task) (hq : s.dQ = t :: rest) (hv : valid s .drainExec = true)
    (s1 : State) (h1 : s1 = step cfg s .drainExec)
    (sts' : List Step) (s' : State) (he' : exec cfg s1 sts' = some s') :
    s1.dQ = rest ∧ cancelRet s1 t.id = false ∧ (cancel s1 t.id).dQ = rest ∧
    cancelRet s' t.id = false ∧ cancel s' t.id = { s' with log := .cancel t.id false :: s'.log } := by
  have e1 : exec cfg init (sts ++ [.drainExec]) = some s1 :=
    exec_append cfg sts [.drainExec] init s _ he (by simp [exec, hv, h1])
  have hs : s1 = { s with dQ := rest, cur := t.body, executed := (t.id :: s.executed), log := (Ev.exec t.id s.loopTid :: s.log) } := by
    simp [h1, step, hq]
  have hmem : t.id ∈ s1.executed := by rw [hs]; simp
  have c1 := C01_cancel_after_exec_false cfg _ _ e1 t.id hmem
  have e2 := exec_append cfg _ sts' init _ s' e1 he'
  have c2 := C01_cancel_after_exec_false cfg _ _ e2 t.id (exec_executed_mono cfg sts' _ s' he' t.id hmem)
  refine ⟨by rw [hs], c1.1, ?_, c2.1, c2.2⟩
  rw [c1.2, hs]

/-- **cancel of the id that will be issued next** (state-derived input: the allocators are cached state): at every
point of every execution `cancel(run_in_loop_id_alloc_ + 2)` and `cancel(run_next_id_alloc_ + 2)` answer false and
change nothing, and the submission that follows gets exactly that id and is queued — an early cancel does not
pre-empt a task that does not exist yet. -/
theorem C01_cancel_next_id (cfg : Cfg) (sts : List Step) (s : State) (he : exec cfg init sts = some s) (tid : Nat)
    (body : List Act) :
    cancelRet s (s.inAlloc + 2) = false ∧ cancelRet s (s.nextAlloc + 2) = false ∧
    cancel s (s.inAlloc + 2) = { s with log := .cancel (s.inAlloc + 2) false :: s.log } ∧
    cancel s (s.nextAlloc + 2) = { s with log := .cancel (s.nextAlloc + 2) false :: s.log } ∧
    (submitInLoop (cancel s (s.inAlloc + 2)) tid body).inLoopQ = s.inLoopQ ++ [{ id := s.inAlloc + 2, owner := tid, body := body }] ∧
    (submitNext (cancel s (s.nextAlloc + 2)) tid body).nextQ = s.nextQ ++ [{ id := s.nextAlloc + 2, owner := tid, body := body }] := by
  have hi := exec_inv cfg init sts init_inv s he
  have hpar := hi.allocPar
  have absent : ∀ id, ¬ accepted s id → cancelRet s id = false := by
    intro id hna
    have h := exactly_once_core cfg sts s he id
    simp only [hna, if_false] at h
    refine cancelRet_false_of_absent s id ?_ ?_ ?_ <;>
    · intro hm; have := List.count_pos_iff.2 hm; omega
  have r1 : cancelRet s (s.inAlloc + 2) = false := absent _ (by unfold accepted; omega)
  have r2 : cancelRet s (s.nextAlloc + 2) = false := absent _ (by unfold accepted; omega)
  refine ⟨r1, r2, cancel_of_ret_false s _ r1, cancel_of_ret_false s _ r2, ?_, ?_⟩
  · rw [cancel_of_ret_false s _ r1]; exact (submitInLoop_frame _ tid body).1
  · rw [cancel_of_ret_false s _ r2]; simp [submitNext, noteNext]

/-- **`isRunning()`** is true exactly between runThisBeforeLoop and the end of runThisAfterLoop: while the loop thread
polls, runs callbacks and batches, and during the drain of loop exit — and false while idle (before the first run,
between runs), during a destructor / `cleanup()` drain and after destruction. -/
theorem C01_isRunning (cfg : Cfg) (sts : List Step) (s : State) (he : exec cfg init sts = some s) :
    (isRunning s = true ↔ (s.phase = .poll ∨ s.phase = .pre ∨ s.phase = .wake ∨ s.phase = .next ∨
      (s.phase = .drain ∧ s.destroying = false))) ∧
    ((s.phase = .idle ∨ s.phase = .dead ∨ (s.phase = .drain ∧ s.destroying = true)) → isRunning s = false) := by
  have hi := exec_inv cfg init sts init_inv s he
  refine ⟨hi.fdRun, ?_⟩
  intro hp
  cases hr : isRunning s with
  | false => rfl
  | true =>
    have := hi.fdRun.1 hr
    rcases hp with h | h | ⟨h, hd⟩ <;> simp [h] at this
    rw [hd] at this; cases this

/-- **`isInLoopThread()`** asked by thread `tid`: true iff the loop is running and `tid` is the thread that entered
runLoop() (the last `start` event of the history).  Hence: every callable of a pass batch or of the loop-exit drain
runs on a thread for which it answers true (`s.loopTid`, the thread of the `exec` event), it answers false to every
other thread, and to EVERY thread — the draining one included — while the loop is not running (idle, destructor or
`cleanup()` drain: loop_thread_id_ is cleared). -/
theorem C01_isInLoopThread (cfg : Cfg) (sts : List Step) (s : State) (he : exec cfg init sts = some s) (tid : Nat) :
    (inLoopThread s tid = true ↔ isRunning s = true ∧ tid = s.loopTid) ∧
    (inLoopThread s tid = true → lastDriver s.log = some tid) ∧
    (valid s .execFront = true → inLoopThread s s.loopTid = true) ∧
    (isRunning s = false → inLoopThread s tid = false) := by
  have hi := exec_inv cfg init sts init_inv s he
  refine ⟨by simp [inLoopThread, isRunning], ?_, ?_, ?_⟩
  · intro h
    simp only [inLoopThread, Bool.and_eq_true, beq_iff_eq] at h
    have hp := hi.fdRun.1 h.1
    rw [h.2]
    refine hi.driver ?_
    rcases hp with h | h | h | h | ⟨h, _⟩ <;> simp [h]
  · intro hv
    simp only [valid, Bool.and_eq_true, Bool.or_eq_true, beq_iff_eq] at hv
    have : s.efd.isSome = true := hi.fdRun.2 (by rcases hv.1.1 with h | h <;> simp [h])
    simp [inLoopThread, this]
  · intro h; simp only [isRunning] at h; simp [inLoopThread, h]

/-- `run()` decides with exactly these two queries (`isRunningLockless() && !isInLoopThreadLockless()`) -/
theorem C01_run_uses_queries (cfg : Cfg) (s : State) (tid k : Nat) :
    doAct cfg s tid (.run k) = if isRunning s && !inLoopThread s tid then submitInLoop s tid (cfg.prog k)
                               else submitNext s tid (cfg.prog k) := by
  have hb : ∀ (x y : Bool), (x && !y) = (x && !(x && y)) := by decide
  simp only [doAct, isRunning, inLoopThread, bne, ← hb]

/-! non-vacuity of the round-8 theorems -/
/-- `C01_cancel_self_while_running`: batch [2, 4] of runInLoop tasks, task 2 cancels itself (answer false), task 4 runs;
then the runNext batch [3, 5]: task 3 cancels itself, 5 runs; task 5 is the LAST of its batch and cancels itself too -/
def selfProg : Nat → List Act
  | 1 => [.cancel 2, .next 3, .next 4]
  | 3 => [.cancel 3]
  | 4 => [.cancel 5]
  | _ => []
example : (exec (fixedCfg selfProg) init
    [.submit 1 1, .submit 1 0, .loopStart 0 true, .passBegin, .passWake, .execFront, .act, .act, .act, .execFront, .passNext,
     .execFront, .act, .execFront, .act, .passEnd]).map (fun s => (s.executed, s.cancelled, s.log.filter (fun e => e matches .cancel _ _))) =
    some ([5, 3, 4, 2], [], [.cancel 5 false, .cancel 3 false, .cancel 2 false]) := by decide
/-- `C01_cancel_next_id` / `C01_isRunning` / `C01_isInLoopThread`: while polling the loop is running, thread 0 is the loop thread -/
example : (exec (fixedCfg selfProg) init [.submit 1 0, .idleAct 0 (.cancel 4), .submit 1 0, .loopStart 0 true]).map
    (fun s => (idsOf s.inLoopQ, isRunning s, inLoopThread s 0, inLoopThread s 1)) = some ([2, 4], true, true, false) := by decide
example : (exec (fixedCfg selfProg) init [.submit 1 0, .destroy 3, .drainGen, .drainExec]).map
    (fun s => (isRunning s, inLoopThread s 3, s.executed)) = some (false, false, [2]) := by decide

/-! ### round 8 (3): `exitLoop()` from a thread other than the loop thread — what is assumed, and why it is outside the statement

`CommonLoop::exitLoop(wait)` (common_loop_timer.cpp) and the engines' `stopLoop()` take no lock and wake nobody:
  * `stopLoop()` is the plain store `keep_running_ = false` (a `bool`, not atomic), read by the loop thread in
    `while (keep_running_)`: from a foreign thread that is a C++ data race, and even when the store is seen the loop thread
    may sit in epoll_wait/select with timeout -1 and never re-evaluate the condition — the call has no effect until some
    other event wakes the poll;
  * `exitLoop(wait)` and the head of `exitLoop()` (`sp_exit_timer_->disable()`, delete, `newTimerEvent`, `enable()`) edit the
    timer heap, the timer cabinet and `sp_exit_timer_` — loop-thread-only structures — and `disable()` of an armed timer calls
    `run()`, which from a foreign thread goes through `runInLoop` (that part is safe).
The model therefore has NO step "exitLoop by a thread that is not inside a loop-thread step while the loop runs":
`Act.exit` / `Act.exitLater` are reachable only through `Step.act` / `Step.cbAct` (loop thread) and `Step.idleAct` (owner,
loop not running; `valid` demands `phase = idle`).  ASSUMPTION (plugin `ASSUMPTIONS`): applications stop a running loop from
another thread with `runInLoop([loop]{ loop->exitLoop(); })`, which IS modelled (an ordinary cross-thread submission whose
script is `[.exit]`; `C01_wakeup_served` gives that it is served) and is what the free-running stress does under TSan.
Why outside C01: the statement speaks about callables "handed to an event loop for deferred execution" through
runInLoop / runNext / run and about their cancellation; its thread-safety clause is "concurrent SUBMISSION from several threads
is free of data races and never loses a wake-up".  `exitLoop` is not a submission entry point, loop.h documents no thread-safety
for it, and what a racy `keep_running_` store could change — WHEN the loop stops — does not affect any clause: whenever the
loop thread does leave the `while`, `C01_drained_on_exit` / `C01_pending_at_exit_run` hold from that state on (they are proved
for every state with `keepRunning = false`, however it got there: `Step.timerExit`, a callback, a callable).  So the assumption
removes a source of undefined behaviour, not a case of the property.  (A direct cross-thread `exitLoop()` is NOT exercised by the
harness: `keep_running_` is a plain `bool` member of both engines, so such a run would be a data race by the letter of the C++
memory model — a finding about `exitLoop`, not about C01; this round did not run it under TSan.) -/

end Tbox.C01
