/-
C01 — PROPERTY THEOREMS.  "The loop runs every deferred task exactly once, on the loop thread,
in order."

Every theorem quantifies over EVERY execution of the model from `init`: `exec cfg init sts = some s`
says that `sts` is a list of enabled steps, i.e. an arbitrary interleaving of any number of
submitter threads (`submit tid k`, any tid, any number) with loop start, passes (any reason for
the poll to return), callables with arbitrary scripts (`cfg.prog`, submit/next/cancel/exit from
inside callables), timer/fd callbacks that use the API, exit, re-run by any thread and
destruction.  No bound on the number of threads, tasks, passes or re-runs.
`cfg.clearOnClose = true` is the code with patches/C01-01 applied; theorems that do not mention
it hold for the code as found as well.
-/
import TboxModel.C01.Proofs
namespace Tbox.C01

/-- **assumption on RunId arithmetic**: the 64-bit id counters have not wrapped (fewer than 2^63
submissions per entry point).  The model counts in `Nat`; under `NoWrap` the ids it hands out are the
code's `uint64_t` values (`C01_ids_are_code_ids`) and the `== 0` re-allocation branch of
`allocRunInLoopId` is dead.  The theorems that speak about ids carry it as a hypothesis on the state
they describe; the counters only grow, so it then holds for every earlier state of the execution. -/
def NoWrap (s : State) : Prop := s.inAlloc + 2 < 2 ^ 64 ∧ s.nextAlloc + 2 < 2 ^ 64

instance (s : State) : Decidable (NoWrap s) := by unfold NoWrap; exact inferInstance

theorem C01_ids_are_code_ids (s : State) (hw : NoWrap s) :
    (s.inAlloc + 2) % 2 ^ 64 = s.inAlloc + 2 ∧ (s.inAlloc + 2) % 2 ^ 64 ≠ 0 ∧ (s.nextAlloc + 2) % 2 ^ 64 = s.nextAlloc + 2 := by
  unfold NoWrap at hw
  refine ⟨Nat.mod_eq_of_lt hw.1, ?_, Nat.mod_eq_of_lt hw.2⟩
  rw [Nat.mod_eq_of_lt hw.1]; omega

theorem exactly_once_core (cfg : Cfg) (sts : List Step) (s : State) (he : exec cfg init sts = some s) (id : Nat) :
    (idsOf s.inLoopQ).count id + (idsOf s.nextQ).count id + (idsOf s.tmpQ).count id + (idsOf s.dQ).count id +
      s.executed.count id + s.cancelled.count id = if accepted s id then 1 else 0 := by
  have h := (exec_inv cfg init sts init_inv s he).count id
  rw [line_def] at h
  simp only [List.count_append, List.count_reverse] at h
  omega

/-- **exactly once / exactly one place.**  At every point of every execution each id handed out
so far is in exactly one of {run-in-loop queue, run-next queue, batch being executed, shutdown
batch, executed, cancelled} and occurs there once; ids never handed out occur nowhere. -/
theorem C01_exactly_once (cfg : Cfg) (sts : List Step) (s : State) (he : exec cfg init sts = some s) (_hw : NoWrap s) (id : Nat) :
    (idsOf s.inLoopQ).count id + (idsOf s.nextQ).count id + (idsOf s.tmpQ).count id + (idsOf s.dQ).count id +
      s.executed.count id + s.cancelled.count id = if accepted s id then 1 else 0 :=
  exactly_once_core cfg sts s he id

/-- a callable is invoked at most once — stated on the history (execution events of the log) -/
theorem C01_executed_at_most_once (cfg : Cfg) (sts : List Step) (s : State) (he : exec cfg init sts = some s) (id : Nat) :
    (execIds s.log).count id ≤ 1 := by
  have h := exactly_once_core cfg sts s he id
  rw [(exec_inv cfg init sts init_inv s he).logExec]
  split at h <;> omega

/-- every id handed out and not cancelled that is no longer queued has been executed (nothing is dropped) -/
theorem C01_not_dropped (cfg : Cfg) (sts : List Step) (s : State) (he : exec cfg init sts = some s) (id : Nat)
    (ha : accepted s id) (hq : id ∉ idsOf (pend s)) (hc : id ∉ s.cancelled) : id ∈ s.executed := by
  have h := exactly_once_core cfg sts s he id
  simp only [ha, if_true] at h
  simp only [pend, idsOf_append, List.mem_append, not_or] at hq
  have h1 := List.count_eq_zero.2 hq.1.1.1
  have h2 := List.count_eq_zero.2 hq.1.1.2
  have h3 := List.count_eq_zero.2 hq.1.2
  have h4 := List.count_eq_zero.2 hq.2
  have h5 := List.count_eq_zero.2 hc
  exact List.count_pos_iff.1 (by omega)

/-- **cancel is sound.**  If some `cancel(id)` returned true (a successful-cancel event is in the
history) the callable has not been and — this holding in every reachable state — will never be
invoked. -/
theorem C01_cancel_sound (cfg : Cfg) (sts : List Step) (s : State) (he : exec cfg init sts = some s) (_hw : NoWrap s) (id : Nat)
    (hc : id ∈ cancelIds s.log) : id ∉ execIds s.log := by
  have hi := exec_inv cfg init sts init_inv s he
  have h := exactly_once_core cfg sts s he id
  rw [hi.logCanc] at hc
  rw [hi.logExec]
  have : 0 < s.cancelled.count id := List.count_pos_iff.2 hc
  intro hx
  have : 0 < s.executed.count id := List.count_pos_iff.2 hx
  split at h <;> omega

/-- `cancel(id)` returning false is justified: the id was never handed out, or the callable has
already been invoked (or is being invoked), or it was cancelled before, or it sits in the local
batch of the shutdown drain (`cleanupDeferredTasks` moves the queues to locals that `cancel`
cannot see: such a task is not cancellable any more and will be run). -/
theorem C01_cancel_false_sound (cfg : Cfg) (sts : List Step) (s : State) (he : exec cfg init sts = some s) (_hw : NoWrap s) (id : Nat)
    (hr : cancelRet s id = false) :
    ¬ accepted s id ∨ id ∈ s.executed ∨ id ∈ s.cancelled ∨ id ∈ idsOf s.dQ := by
  have hi := exec_inv cfg init sts init_inv s he
  have h := exactly_once_core cfg sts s he id
  by_cases ha : accepted s id
  · right
    simp only [ha, if_true] at h
    have hid : id ≠ 0 := by unfold accepted at ha; omega
    by_cases ht : hasId s.tmpQ id = true
    · simp [cancelRet, hid, ht] at hr
    · have ht0 : (idsOf s.tmpQ).count id = 0 := List.count_eq_zero.2 (fun hm => ht ((hasId_iff _ _).2 hm))
      simp only [cancelRet, hid, if_false, ht] at hr
      by_cases hodd : id % 2 = 1
      · simp only [hodd, if_true] at hr
        have hn0 : (idsOf s.nextQ).count id = 0 :=
          List.count_eq_zero.2 (fun hm => by rw [(hasId_iff _ _).2 hm] at hr; cases hr)
        have hi0 : (idsOf s.inLoopQ).count id = 0 :=
          List.count_eq_zero.2 (fun hm => by have := idsOf_par_in _ hi.parIn id hm; omega)
        by_cases hx : id ∈ s.executed
        · exact Or.inl hx
        · by_cases hcn : id ∈ s.cancelled
          · exact Or.inr (Or.inl hcn)
          · have := List.count_eq_zero.2 hx; have := List.count_eq_zero.2 hcn
            exact Or.inr (Or.inr (List.count_pos_iff.1 (by omega)))
      · simp only [hodd, if_false] at hr
        have hi0 : (idsOf s.inLoopQ).count id = 0 :=
          List.count_eq_zero.2 (fun hm => by rw [(hasId_iff _ _).2 hm] at hr; cases hr)
        have hn0 : (idsOf s.nextQ).count id = 0 :=
          List.count_eq_zero.2 (fun hm => by have := idsOf_par_next _ hi.parNext id hm; omega)
        by_cases hx : id ∈ s.executed
        · exact Or.inl hx
        · by_cases hcn : id ∈ s.cancelled
          · exact Or.inr (Or.inl hcn)
          · have := List.count_eq_zero.2 hx; have := List.count_eq_zero.2 hcn
            exact Or.inr (Or.inr (List.count_pos_iff.1 (by omega)))
  · exact Or.inl ha

/-- ids are handed out in submission order per entry point: the id the next `runInLoop`
(`runNext`) returns is larger than every even (odd) id handed out before. -/
theorem C01_ids_follow_submission (s : State) (tid : Nat) (body : List Act) (id : Nat) (ha : accepted s id) :
    (id % 2 = 0 → id < (submitInLoop s tid body).inAlloc ∧ (submitInLoop s tid body).inAlloc = s.inAlloc + 2) ∧
    (id % 2 = 1 → id < (submitNext s tid body).nextAlloc ∧ (submitNext s tid body).nextAlloc = s.nextAlloc + 2) := by
  have hf := (submitInLoop_frame s tid body).2.2.2.2.2.1
  unfold accepted at ha
  constructor
  · intro h0
    refine ⟨?_, hf⟩
    rw [hf]
    rcases ha with ⟨_, _, _⟩ | ⟨_, _, _⟩ <;> omega
  · intro h1
    refine ⟨?_, rfl⟩
    show id < s.nextAlloc + 2
    rcases ha with ⟨_, _, _⟩ | ⟨_, _, _⟩ <;> omega

/-- **FIFO per entry point (hence per submitter).**  The ids executed so far, read oldest first
and restricted to one entry point (p = 0: `runInLoop`, p = 1: `runNext`), are strictly
increasing — with `C01_ids_follow_submission`: callables submitted through the same entry point,
by one thread or by several, are invoked in submission order (cancelled ones are skipped). -/
theorem C01_fifo_per_submitter (cfg : Cfg) (sts : List Step) (s : State) (he : exec cfg init sts = some s) (_hw : NoWrap s) (p : Nat) :
    (par p s.executed.reverse).Pairwise (· < ·) := by
  have h := (exec_inv cfg init sts init_inv s he).order p
  rw [line, par_append] at h
  exact (List.pairwise_append.1 h).1

/-- … and everything still queued for that entry point will run after everything already run,
in queue order (the whole "line" of an entry point is strictly increasing). -/
theorem C01_fifo_pending (cfg : Cfg) (sts : List Step) (s : State) (he : exec cfg init sts = some s) (p : Nat) :
    (par p (s.executed.reverse ++ idsOf (pend s))).Pairwise (· < ·) :=
  (exec_inv cfg init sts init_inv s he).order p

/-- **loop thread.**  Every invocation in the history is made by the thread that most recently
entered `runLoop` or the destructor on this loop object (pass, exit drain, destructor drain). -/
theorem C01_loop_thread (cfg : Cfg) (sts : List Step) (s : State) (he : exec cfg init sts = some s) :
    execsOk s.log = true :=
  (exec_inv cfg init sts init_inv s he).execs

/-- **no lost wake-up** (repaired code): whenever the loop has an eventfd (it is running) and the
cross-thread queue is not empty, the eventfd counter is positive, so the poll the loop thread is
in, or will enter next, returns and reports it. -/
theorem C01_no_lost_wakeup (cfg : Cfg) (hfix : cfg.clearOnClose = true) (sts : List Step) (s : State)
    (he : exec cfg init sts = some s) (n : Nat) (hfd : s.efd = some n) (hq : s.inLoopQ ≠ []) : 0 < n := by
  obtain ⟨_, hw⟩ := exec_wake cfg hfix init sts init_inv init_wake s he
  have h1 := hw.counter n hfd
  have h2 := hw.armed (by simp [hfd]) hq
  simp [h2] at h1; omega

/-- … and then the next pass serves the queue: in the poll phase with a non-empty queue, after the
poll returns the eventfd callback is enabled and "eventfd not reported" is not. -/
theorem C01_wakeup_served (cfg : Cfg) (hfix : cfg.clearOnClose = true) (sts : List Step) (s : State)
    (he : exec cfg init sts = some s) (hp : s.phase = .poll) (hq : s.inLoopQ ≠ []) :
    valid (step cfg s .passBegin) .passWake = true ∧ valid (step cfg s .passBegin) .passSkip = false := by
  have hi := exec_inv cfg init sts init_inv s he
  have hsome : s.efd.isSome = true := hi.fdRun.2 (Or.inl hp)
  obtain ⟨n, hn⟩ := Option.isSome_iff_exists.1 hsome
  have := C01_no_lost_wakeup cfg hfix sts s he n hn hq
  simp [step, valid, hn, this]

/-- the program of the witness: task 1 submits task 0 through runInLoop and calls exitLoop() -/
def witnessProg : Nat → List Act
  | 1 => [.inLoop 0, .exit]
  | _ => []

/-- DESIGN §7-1: one batch submits and exits; the loop is run again; a thread submits. -/
def witness : List Step :=
  [.submit 1 1, .loopStart 0 true, .passBegin, .passWake, .execFront, .act, .act, .passNext, .passEnd,
   .drainGen, .drainExec, .drainEnd, .loopStart 0 true, .submit 2 0]

/-- **the code as found loses the wake-up**: after the witness the loop is polling, the queue
holds the task, and the eventfd counter is 0 (has_commit_run_req_ is still set from the first
run, so `runInLoop` did not write). -/
theorem C01_no_lost_wakeup_counterexample :
    (exec (foundCfg witnessProg) init witness).map (fun s => (s.phase, s.efd, idsOf s.inLoopQ, s.hasCommit)) =
      some (.poll, some 0, [6], true) := by decide

/-- the same schedule on the repaired code: the counter is 1 -/
theorem C01_witness_repaired :
    (exec (fixedCfg witnessProg) init witness).map (fun s => (s.phase, s.efd, idsOf s.inLoopQ, s.hasCommit)) =
      some (.poll, some 1, [6], true) := by decide

/-- **drained on exit, with the 100-generation bound.**  When `cleanupDeferredTasks` returns (loop
exit or destructor): if something is still queued then all 100 generations were used
(`remain = 0`); otherwise every callable ever submitted and not cancelled has been invoked. -/
theorem C01_drained_on_exit (cfg : Cfg) (sts : List Step) (s : State) (he : exec cfg init sts = some s)
    (hv : valid s .drainEnd = true) :
    ((s.nextQ ≠ [] ∨ s.inLoopQ ≠ []) → s.remain = 0) ∧
    (s.nextQ = [] → s.inLoopQ = [] → ∀ id, accepted s id → id ∈ s.executed ∨ id ∈ s.cancelled) := by
  have hi := exec_inv cfg init sts init_inv s he
  simp only [valid, drainMore, Bool.and_eq_true, beq_iff_eq, List.isEmpty_iff, Bool.not_eq_true', Bool.and_eq_false_iff,
    Bool.or_eq_false_iff, Bool.not_eq_false', decide_eq_false_iff_not] at hv
  obtain ⟨⟨⟨hp, hc⟩, hd⟩, hm⟩ := hv
  constructor
  · intro hne
    rcases hm with ⟨h1, h2⟩ | h3
    · rcases hne with h | h
      · exact absurd h2 h
      · exact absurd h1 h
    · omega
  · intro hn hq id ha
    by_cases hcn : id ∈ s.cancelled
    · exact Or.inr hcn
    · refine Or.inl (C01_not_dropped cfg sts s he id ha ?_ hcn)
      simp [pend, (hi.shapeDrain hp).1, hd, hn, hq]

/-- **a callable pending when the loop stops is run during shutdown** — unconditionally: once the
drain that started at loop exit (or destruction) is over, every id that was queued when it
started has been invoked (they are generation 1; cancel cannot reach them any more). -/
theorem C01_pending_at_exit_run (cfg : Cfg) (sts : List Step) (s : State) (he : exec cfg init sts = some s)
    (hp : s.phase ≠ .drain) : ∀ id ∈ s.exitPending, id ∈ s.executed :=
  (exec_inv cfg init sts init_inv s he).exitDone hp

/-! ### lock discipline (what the model can say about data-race freedom) -/

/-- does the API call take lock_? (`runInLoop` always; `cancel` of an even id not found in the batch;
`exitLoop` while the exit timer is armed: `deleteTimer` → `run()` looks at the running state under lock_) -/
def actLocks (s : State) : Act → Bool
  | .inLoop _ => true
  | .cancel id => id != 0 && !hasId s.tmpQ id && id % 2 != 1
  | .exit => s.exitTimer
  | .exitLater => s.exitTimer
  | _ => false

/-- the step runs (partly) inside a critical section of lock_ -/
def holdsLock (s : State) : Step → Bool
  | .submit _ _ => true
  | .idleAct _ a => actLocks s a
  | .cbAct a => actLocks s a
  | .loopStart _ _ => true
  | .passWake => true
  | .act => (s.phase == .drain && !s.destroying) || (match s.cur with | a :: _ => actLocks s a | [] => false)
  | .drainGen => !s.destroying
  | .drainExec => !s.destroying
  | .drainEnd => !s.destroying
  | _ => false

/-- the object is being destroyed: by contract no other thread uses it -/
def exclusive (s : State) : Bool := s.phase == .drain && s.destroying

/-- **lock discipline.**  A step that does not hold lock_ (and is not part of the destructor)
leaves the lock-protected variables — cross-thread queue, pending-wake flag, eventfd, even id
allocator — untouched.  (The only reads outside lock_ are the kernel's: the poll looks at the
eventfd counter.) -/
theorem C01_lock_discipline (cfg : Cfg) (s : State) (st : Step) (hv : valid s st = true)
    (hl : holdsLock s st = false) (hx : exclusive s = false) :
    (step cfg s st).inLoopQ = s.inLoopQ ∧ (step cfg s st).hasCommit = s.hasCommit ∧
    (step cfg s st).efd = s.efd ∧ (step cfg s st).inAlloc = s.inAlloc := by
  have hact : ∀ (s0 : State) (tid : Nat) (a : Act), actLocks s0 a = false →
      (doAct cfg s0 tid a).inLoopQ = s0.inLoopQ ∧ (doAct cfg s0 tid a).hasCommit = s0.hasCommit ∧
      (doAct cfg s0 tid a).efd = s0.efd ∧ (doAct cfg s0 tid a).inAlloc = s0.inAlloc := by
    intro s0 tid a ha
    cases a with
    | inLoop k => simp [actLocks] at ha
    | next k => simp [doAct, submitNext]
    | exit => simp only [actLocks] at ha; simp [doAct, dropExitTimer, ha]
    | exitLater => simp only [actLocks] at ha; simp [doAct, dropExitTimer, ha]
    | throw => simp [doAct]
    | cancel id =>
      simp only [actLocks, Bool.and_eq_false_iff, bne_eq_false_iff_eq, Bool.not_eq_false'] at ha
      simp only [doAct, cancel]
      by_cases h0 : id = 0
      · simp [h0]
      · by_cases ht : hasId s0.tmpQ id = true
        · simp [h0, ht]
        · have hodd : id % 2 = 1 := by
            rcases ha with (h | h) | h
            · exact absurd h h0
            · exact absurd h ht
            · exact h
          simp [h0, ht, hodd]
  cases st with
  | submit t k => simp [holdsLock] at hl
  | idleAct t a => exact hact s t a (by simpa [holdsLock] using hl)
  | cbAct a => exact hact s s.loopTid a (by simpa [holdsLock] using hl)
  | loopStart t f => simp [holdsLock] at hl
  | passWake => simp [holdsLock] at hl
  | passBegin => simp [step]
  | timerExit => simp [step]
  | passSkip => simp [step]
  | passNext => simp [step]
  | execFront => simp only [step]; split <;> simp
  | passEnd => simp only [step]; split <;> simp
  | destroy t => simp [step]
  | act =>
    simp only [holdsLock, Bool.or_eq_false_iff] at hl
    simp only [step]
    split
    · rename_i a rest hc
      rw [hc] at hl
      have := hact { s with cur := rest } s.loopTid a (by simpa [actLocks] using hl.2)
      simpa using this
    · simp
  | drainGen =>
    simp only [valid, Bool.and_eq_true, beq_iff_eq] at hv
    simp only [holdsLock, Bool.not_eq_false'] at hl
    simp [exclusive, hv.1.1.1, hl] at hx
  | drainExec =>
    simp only [valid, Bool.and_eq_true, beq_iff_eq] at hv
    simp only [holdsLock, Bool.not_eq_false'] at hl
    simp [exclusive, hv.1.1, hl] at hx
  | drainEnd =>
    simp only [valid, Bool.and_eq_true, beq_iff_eq] at hv
    simp only [holdsLock, Bool.not_eq_false'] at hl
    simp [exclusive, hv.1.1.1, hl] at hx

/-- **loop-thread-only variables.**  A cross-thread submission touches nothing but the
lock-protected variables (and the ghost log): run-next queue, batches, id allocator of `runNext`,
`keep_running_` and the loop thread's control state are only ever touched by loop-thread steps. -/
theorem C01_loop_thread_only (cfg : Cfg) (s : State) (tid k : Nat) :
    let s' := step cfg s (.submit tid k)
    s'.nextQ = s.nextQ ∧ s'.tmpQ = s.tmpQ ∧ s'.dQ = s.dQ ∧ s'.nextAlloc = s.nextAlloc ∧ s'.keepRunning = s.keepRunning ∧
    s'.phase = s.phase ∧ s'.cur = s.cur ∧ s'.remain = s.remain ∧ s'.executed = s.executed ∧ s'.cancelled = s.cancelled := by
  have h := submitInLoop_frame s tid (cfg.prog k)
  simp only at h
  simp only [step]
  exact ⟨h.2.1, h.2.2.1, h.2.2.2.1, h.2.2.2.2.2.2.1, h.2.2.2.2.1, h.2.2.2.2.2.2.2.1, h.2.2.2.2.2.2.2.2.1,
    h.2.2.2.2.2.2.2.2.2.1, h.2.2.2.2.2.2.2.2.2.2.2.2.1, h.2.2.2.2.2.2.2.2.2.2.2.2.2.1⟩

/-- **a task in the shutdown batch is out of `cancel`'s reach** (the 4th case of
`C01_cancel_false_sound`): `cancel` never changes the local batch, so the refused task stays queued
there and is invoked by the drain (`C01_pending_at_exit_run`, `C01_exactly_once`). -/
theorem C01_drain_batch_not_cancellable (s : State) (id : Nat) : (cancel s id).dQ = s.dQ := by
  simp only [cancel]
  split
  · rfl
  · split
    · rfl
    · split <;> rfl

/-- **exit through the exit timer** (`exitLoop(wait_time)`): when the timer fires in a pass the loop
leaves at the end of that very pass (the `while (keep_running_)` test fails) and enters the shutdown
drain — the same exit path as `exitLoop()`, so drained-on-exit and the wake-up invariant cover it. -/
theorem C01_exit_timer (cfg : Cfg) (s : State) (_hv : valid s .timerExit = true) :
    (step cfg s .timerExit).keepRunning = false ∧ (step cfg s .timerExit).exitTimer = false ∧
    ∀ s', s'.keepRunning = false → valid s' .passEnd = true → (step cfg s' .passEnd).phase = .drain := by
  refine ⟨rfl, rfl, ?_⟩
  intro s' hk _
  simp [step, hk]

/-- re-arming or cancelling an armed exit timer makes the loop submit a deferred task to itself
(`deleteTimer` → `run()` → `runNext`): it takes the next odd id and is queued like any other. -/
theorem C01_exit_timer_internal_task (cfg : Cfg) (s : State) (tid : Nat) (h : s.exitTimer = true) :
    (doAct cfg s tid .exit).nextAlloc = s.nextAlloc + 2 ∧
    idsOf (doAct cfg s tid .exit).nextQ = idsOf s.nextQ ++ [s.nextAlloc + 2] ∧
    (doAct cfg s tid .exit).keepRunning = false ∧ (doAct cfg s tid .exit).exitTimer = false := by
  simp [doAct, dropExitTimer, h, submitNext]

/-! ### exceptions thrown by callables (repaired code: patches/C01-02) -/

/-- **a throwing callable does not take the rest of the batch with it.**  The step in which the
running callable throws changes nothing but the rest of its own script: all four queues, the phase,
the flags are as before, and whatever is left of the batch (pass batch or shutdown batch) is the next
thing the loop thread calls.  All other theorems of this file quantify over executions that contain
such steps, so exactly-once, FIFO and drained-on-exit hold with throwing callables as well. -/
theorem C01_throw_keeps_batch (cfg : Cfg) (s : State) (rest : List Act) (hc : s.cur = .throw :: rest) :
    let s' := step cfg s .act
    s'.cur = [] ∧ s'.tmpQ = s.tmpQ ∧ s'.dQ = s.dQ ∧ s'.nextQ = s.nextQ ∧ s'.inLoopQ = s.inLoopQ ∧ s'.phase = s.phase ∧
    s'.executed = s.executed ∧ s'.keepRunning = s.keepRunning ∧ s'.remain = s.remain ∧
    (s.tmpQ ≠ [] → (s.phase = .wake ∨ s.phase = .next) → valid s' .execFront = true) ∧
    (s.dQ ≠ [] → s.phase = .drain → valid s' .drainExec = true) := by
  simp only [step, hc, doAct, true_and]
  refine ⟨?_, ?_⟩
  · intro ht hp
    rcases hp with hp | hp <;> simp [valid, hp, ht]
  · intro hd hp
    simp [valid, hp, hd]

/-- program of the witness: task 1 throws, task 2 does nothing -/
def throwProg : Nat → List Act
  | 1 => [.throw]
  | _ => []

/-- a kOnce run with two runNext tasks submitted from a task of the single pass: both are pending at
loop exit; the first one throws in the shutdown drain -/
def throwWitness : List Step :=
  [.submit 1 3, .loopStart 0 false, .passBegin, .passWake, .execFront, .act, .act, .passNext, .passEnd,
   .drainGen, .drainExec, .act]

def throwProg' : Nat → List Act
  | 3 => [.inLoop 1, .inLoop 2]
  | k => throwProg k

/-- **the code as found drops the rest of the shutdown batch**: task 6 was handed out, is in no queue,
was not executed and not cancelled (the exception unwound `cleanupDeferredTasks`). -/
theorem C01_throw_drops_batch_counterexample :
    (execFound (foundCfg throwProg') init throwWitness).map
      (fun s => (decide (accepted s 6), idsOf (pend s), s.executed, s.cancelled, s.phase)) =
      some (true, [], [4, 2], [], .idle) := by decide

/-- the same schedule on the repaired code: task 6 is still in the batch and runs next -/
theorem C01_throw_witness_repaired :
    (exec (fixedCfg throwProg') init (throwWitness ++ [.drainExec, .drainEnd])).map
      (fun s => (idsOf (pend s), s.executed, s.phase)) = some ([], [6, 4, 2], .idle) := by decide

/-! ### non-vacuity: concrete executions satisfying the hypotheses -/

/-- tasks: 1 = [runNext 0, cancel 5 (hit in the queue), runNext 0, exit], 2 = [cancel 2 (already run)] -/
def demoProg : Nat → List Act
  | 1 => [.next 0, .cancel 3, .next 0, .exit]
  | 2 => [.cancel 2]
  | _ => []

/-- two threads submit, the loop runs one pass (task 2 cancels its own queued runNext task 3, a third
thread submits task 6 in the middle of the batch, task 4 fails to cancel the executed task 2, the
runNext task 5 runs in the same pass), exits, drains task 6, is run again once by another thread
(task 8) and destroyed. -/
def demo : List Step :=
  [.submit 1 1, .submit 2 2, .loopStart 0 true, .passBegin, .passWake, .execFront, .act, .act, .act, .submit 3 0, .act,
   .execFront, .act, .passNext, .execFront, .passEnd, .drainGen, .drainExec, .drainEnd,
   .submit 1 0, .loopStart 7 false, .passBegin, .passWake, .execFront, .passNext, .passEnd, .drainEnd, .destroy 7, .drainEnd]

example : (exec (fixedCfg demoProg) init demo).map (fun s => (s.executed, s.cancelled, s.phase, idsOf (pend s))) =
    some ([8, 6, 5, 4, 2], [3], .dead, []) := by decide
example : (exec (fixedCfg demoProg) init demo).map (fun s => execsOk s.log) = some true := by decide
/-- `C01_drained_on_exit`: a state where `drainEnd` is enabled with empty queues -/
example : (exec (fixedCfg demoProg) init (demo.take 18)).map (fun s => (valid s .drainEnd, s.remain)) = some (true, 99) := by decide
/-- `C01_pending_at_exit_run`: after the exit drain the task that was pending at loop exit (6) has been run -/
example : (exec (fixedCfg demoProg) init (demo.take 19)).map (fun s => (s.exitPending, s.phase, s.executed)) =
    some ([6], .idle, [6, 5, 4, 2]) := by decide
/-- `C01_no_lost_wakeup` / `C01_wakeup_served`: polling, queue non-empty, counter 1 (after a re-run) -/
example : (exec (fixedCfg witnessProg) init witness).map (fun s => (s.phase, s.efd, s.inLoopQ.length)) = some (.poll, some 1, 1) := by decide
/-- `C01_cancel_sound` / `C01_cancel_false_sound`: a successful cancel and a refused one occur in `demo` -/
example : (exec (fixedCfg demoProg) init demo).map (fun s => (cancelIds s.log, s.log.filter (fun e => e matches .cancel _ false))) =
    some ([3], [.cancel 2 false]) := by decide
/-- `C01_exit_timer` / `C01_exit_timer_internal_task`: a run where the exit timer is armed from a callable,
fires in the next pass, is armed again while idle and dropped by `exitLoop()` (internal task 5) -/
example : (exec (fixedCfg (fun k => if k = 1 then [.exitLater] else [])) init
    [.submit 1 1, .loopStart 0 true, .passBegin, .passWake, .execFront, .act, .passNext, .passEnd,
     .passBegin, .timerExit, .passSkip, .passNext, .passEnd, .drainEnd, .idleAct 0 .exitLater, .idleAct 0 .exit]).map
    (fun s => (s.phase, s.exitTimer, s.keepRunning, idsOf s.nextQ)) = some (.idle, false, false, [3]) := by decide
/-- `NoWrap` holds in the demo's final state -/
example : (exec (fixedCfg demoProg) init demo).map (fun s => decide (NoWrap s)) = some true := by decide
/-- `C01_throw_keeps_batch`: a state in which the running callable is about to throw with a task left in the batch -/
example : (exec (fixedCfg throwProg') init (throwWitness.take 11)).map (fun s => (s.cur, idsOf s.dQ, s.phase)) =
    some ([.throw], [6], .drain) := by decide
/-- `C01_lock_discipline`: a lock-free step (runNext from a callable) in a non-exclusive state -/
example : (exec (fixedCfg demoProg) init (demo.take 6)).map (fun s => (valid s .act, holdsLock s .act, exclusive s)) =
    some (true, false, false) := by decide
/-- the 100-generation bound is reached by a self-reposting task: 100 executions in the exit drain, one left -/
def chainProg : Nat → List Act := fun _ => [.next 0]
def drainAll : Nat → List Step
  | 0 => [.drainEnd]
  | n + 1 => [.drainGen, .drainExec, .act] ++ drainAll n
example : (exec (fixedCfg chainProg) init ([.idleAct 0 (.next 0), .loopStart 0 false, .passBegin, .passSkip, .passNext,
      .execFront, .act, .passEnd] ++ drainAll 100)).map (fun s => (s.executed.length, idsOf s.nextQ, s.phase)) =
    some (101, [205], .idle) := by decide +kernel

end Tbox.C01
