/-
C01 — abstract specification: predicates over a history (list of events, newest first) and over
the ghost bookkeeping of a state.  Executable (the driver evaluates the Bool versions on recorded
histories of the real loop).
-/
import TboxModel.C01.Model
namespace Tbox.C01

/-- the thread that most recently entered runLoop, the destructor or cleanup() -/
def lastDriver : List Ev → Option Nat
  | [] => none
  | .start t :: _ => some t
  | .destroy t :: _ => some t
  | .cleanup t :: _ => some t
  | _ :: r => lastDriver r

/-- every execution event is made by the thread that is driving the loop at that moment -/
def execsOk : List Ev → Bool
  | [] => true
  | .exec _ t :: r => (lastDriver r == some t) && execsOk r
  | _ :: r => execsOk r

def execIds : List Ev → List Nat
  | [] => []
  | .exec id _ :: r => id :: execIds r
  | _ :: r => execIds r

def cancelIds : List Ev → List Nat
  | [] => []
  | .cancel id true :: r => id :: cancelIds r
  | _ :: r => cancelIds r

/-- ids handed out so far: even ids 2,4,… by runInLoop, odd ids 3,5,… by runNext -/
def accepted (s : State) (id : Nat) : Prop :=
  (id % 2 = 0 ∧ 2 ≤ id ∧ id ≤ s.inAlloc) ∨ (id % 2 = 1 ∧ 3 ≤ id ∧ id ≤ s.nextAlloc)

instance (s : State) (id : Nat) : Decidable (accepted s id) := by unfold accepted; exact inferInstance

/-- everything still queued, in the order the loop would serve it per entry point -/
def pend (s : State) : List Task := s.tmpQ ++ s.dQ ++ s.nextQ ++ s.inLoopQ

/-- executed ids (oldest first) followed by the pending ones -/
def line (s : State) : List Nat := s.executed.reverse ++ idsOf (pend s)

/-- the ids of one entry point (parity 0 = runInLoop, 1 = runNext) -/
def par (p : Nat) (l : List Nat) : List Nat := l.filter (fun x => x % 2 == p)

end Tbox.C01
