/- C02 — exact catch-up count of a persistent timer in one (late) pass. -/
import TboxModel.C02.Term
namespace Tbox.C02

/-- what a call does to the heap: every record afterwards is an old record, unchanged, or carries a
token handed out by this call (tokens are handed out in increasing order, never twice) -/
def Ev (s s' : State) : Prop := s.nextTok ≤ s'.nextTok ∧ ∀ q ∈ s'.timers, q ∈ s.timers ∨ s.nextTok ≤ q.tok

theorem ev_refl (s : State) : Ev s s := ⟨Nat.le_refl _, fun _ h => Or.inl h⟩

theorem ev_trans (a b c : State) (h1 : Ev a b) (h2 : Ev b c) : Ev a c := by
  refine ⟨Nat.le_trans h1.1 h2.1, ?_⟩
  intro q hq
  rcases h2.2 q hq with hb | hb
  · exact h1.2 q hb
  · exact Or.inr (Nat.le_trans h1.1 hb)

theorem disable_ev (s : State) (j : Nat) : Ev s (disable s j).1 := by
  obtain ⟨p, hp⟩ := disable_timers s j
  refine ⟨Nat.le_of_eq (disable_fields s j).2.1.symm, ?_⟩
  intro q hq; rw [hp] at hq; exact Or.inl (List.mem_filter.1 hq).1

theorem initTimer_ev (s : State) (j ms : Nat) (o : Bool) : Ev s (initTimer s j ms o).1 := by
  unfold initTimer
  split
  · exact ev_refl s
  · exact disable_ev s j

theorem destroy_ev (s : State) (j : Nat) : Ev s (destroy s j).1 := by
  unfold destroy
  split
  · exact ev_refl s
  · exact disable_ev s j

theorem enable_ev (s : State) (j : Nat) : Ev s (enable s j).1 := by
  unfold enable
  by_cases ha : (s.obj j).alive = true <;> simp only [ha, Bool.not_true, Bool.not_false, Bool.false_eq_true, ↓reduceIte]
  · by_cases hin : (s.obj j).inited = true <;> simp only [hin, Bool.not_true, Bool.not_false, Bool.false_eq_true, ↓reduceIte]
    · by_cases he : (s.obj j).enabled = true <;> simp only [he, Bool.false_eq_true, ↓reduceIte]
      · exact ev_refl s
      · refine ⟨Nat.le_succ _, ?_⟩
        intro q hq
        rcases List.mem_cons.1 hq with rfl | hq
        · exact Or.inr (Nat.le_refl _)
        · exact Or.inl hq
    · exact ev_refl s
  · exact ev_refl s

theorem act_ev (s : State) (a : Act) : Ev s (act s a).1 :=
  act_ind Ev ev_refl ev_trans disable_ev initTimer_ev enable_ev destroy_ev (fun s _ => ev_refl s)
    (fun s _ _ => ev_refl s) s a

theorem runScript_ev (s : State) (as : List Act) : Ev s (runScript s as) :=
  runScript_ind Ev ev_refl ev_trans act_ev s as

theorem act_passNow (s : State) (a : Act) : (act s a).1.passNow = s.passNow :=
  act_ind (fun a b => b.passNow = a.passNow) (fun _ => rfl) (fun _ _ _ h1 h2 => h2.trans h1)
    (fun s j => (disable_fields s j).2.2.1)
    (fun s j ms o => by simp only [initTimer]; split; rfl; exact (disable_fields s j).2.2.1)
    (fun s j => by simp only [enable]; split; rfl; split; rfl; split; rfl; rfl)
    (fun s j => by simp only [destroy]; split; rfl; exact (disable_fields s j).2.2.1)
    (fun _ _ => rfl) (fun _ _ _ => rfl) s a

theorem runScript_passNow (s : State) (as : List Act) : (runScript s as).passNow = s.passNow :=
  runScript_ind (fun a b => b.passNow = a.passNow) (fun _ => rfl) (fun _ _ _ h1 h2 => h2.trans h1) act_passNow s as

theorem fire_passNow (s : State) (r : Rec) : (fire s r).passNow = s.passNow := by
  rw [fire_eq, runScript_passNow, (fireHead_fields s r).1]

/-- what the pass knows about the record that carries token `τ`, as long as it is in the heap:
same enablement (owner, base, period), and its firing count is the initial one or it has been
served in this pass, every time for a deadline ≤ t -/
structure Track (τ owner base d k0 t : Nat) (s : State) : Prop where
  tokLt : τ < s.nextTok
  recs : ∀ q ∈ s.timers, q.tok = τ →
    q.owner = owner ∧ q.base = base ∧ q.interval = d ∧ q.oneshot = false ∧ (q.k = k0 ∨ (k0 < q.k ∧ base + q.k * d ≤ t))

theorem fire_track (τ owner base d k0 t : Nat) (s : State) (r : Rec) (h : Inv s) (hp : s.passNow = some t)
    (hc : canFire s r = true) (ht : Track τ owner base d k0 t s) : Track τ owner base d k0 t (fire s r) := by
  obtain ⟨t', hpn, hr, hdue, _⟩ := canFire_spec hc
  rw [hp] at hpn; cases hpn
  have hev := runScript_ev (fireHead s r) (s.obj r.owner).script
  rw [← fire_eq] at hev
  obtain ⟨_, hnt, _, htim⟩ := fireHead_fields s r
  obtain ⟨hev1, hev2⟩ := hev
  rw [hnt] at hev1
  refine ⟨Nat.lt_of_lt_of_le ht.tokLt hev1, ?_⟩
  intro q hq hqt
  rcases hev2 q hq with hq' | hq'
  · rw [htim] at hq'
    have hold : q ∈ s.timers.filter (fun x => x.tok != r.tok) → _ := fun hm => ht.recs q (List.mem_filter.1 hm).1 hqt
    split at hq'
    · exact hold hq'
    · rcases List.mem_cons.1 hq' with rfl | hq'
      · -- the served record itself, re-armed
        obtain ⟨h1, h2, h3, h4, h5⟩ := ht.recs r hr hqt
        have hd := (h.recs r hr).deadline
        refine ⟨h1, h2, h3, h4, Or.inr ⟨?_, ?_⟩⟩
        · show k0 < r.k + 1
          rcases h5 with h5 | h5 <;> omega
        · show base + (r.k + 1) * d ≤ t
          rw [← h2, ← h3, ← hd]; exact hdue
      · exact hold hq'
  · rw [hnt] at hq'; have := ht.tokLt; omega

theorem fires_track (τ owner base d k0 t : Nat) (toks : List Nat) (s s' : State) (h : Inv s) (hp : s.passNow = some t)
    (ht : Track τ owner base d k0 t s) (he : exec s (toks.map Step.fire) = some s') :
    Inv s' ∧ s'.passNow = some t ∧ Track τ owner base d k0 t s' := by
  induction toks generalizing s with
  | nil => simp [exec] at he; subst he; exact ⟨h, hp, ht⟩
  | cons tok toks ih =>
    simp only [List.map, exec] at he
    split at he
    · rename_i hv
      have hi := step_inv s (.fire tok) h hv
      simp only [step, valid] at hv he hi
      cases hf : findTok s tok with
      | none => simp [hf] at hv
      | some r =>
        simp only [hf] at hv he hi
        have hpf : (fire s r).passNow = some t := by rw [fire_passNow]; exact hp
        exact ih _ hi hpf (fire_track τ owner base d k0 t s r h hp hv ht) he
    · cases he

theorem exec_append (s : State) (a b : List Step) : exec s (a ++ b) = (exec s a).bind (fun s1 => exec s1 b) := by
  induction a generalizing s with
  | nil => rfl
  | cons x a ih =>
    simp only [List.cons_append, exec]
    split
    · exact ih _
    · rfl

/-- arithmetic core: a record first due at `e = base + (k0+1)·d ≤ t` whose counter is `k` when nothing
is due any more (`t < base + (k+1)·d`, last served deadline `base + k·d ≤ t`) was served
`(t − e)/d + 1` times -/
theorem catchup_arith (base d k0 k t e : Nat) (he : e = base + (k0 + 1) * d) (hdue : e ≤ t)
    (hend : t < base + (k + 1) * d) (hk : k = k0 ∨ (k0 < k ∧ base + k * d ≤ t)) :
    k = k0 + ((t - e) / d + 1) := by
  rcases hk with rfl | ⟨hlt, hle⟩
  · omega
  · obtain ⟨m, rfl⟩ := Nat.exists_eq_add_of_lt hlt
    have hdiv : (t - e) / d = m := by
      apply Nat.div_eq_of_lt_le
      · simp only [Nat.add_mul, Nat.one_mul] at he hle hend ⊢; omega
      · simp only [Nat.add_mul, Nat.one_mul] at he hle hend ⊢; omega
    omega

end Tbox.C02
