/- C02 — "destroyed stays destroyed and is never called again" -/
import TboxModel.C02.Proofs
namespace Tbox.C02

/-- object `j` exists, is destroyed, and no callback on it was logged after the first `n` log entries -/
structure DeadQuiet (j n : Nat) (s : State) : Prop where
  exists_ : j < s.nObjs
  dead    : (s.obj j).alive = false
  quiet   : ∀ e ∈ s.log.take (s.log.length - n), e.obj ≠ j

theorem disable_log (s : State) (j : Nat) : (disable s j).1.log = s.log := (disable_fields s j).2.2.2.1
theorem disable_nObjs (s : State) (j : Nat) : (disable s j).1.nObjs = s.nObjs := (disable_fields s j).2.2.2.2.1

theorem disable_dead (s : State) (i j : Nat) (h : (s.obj j).alive = false) : ((disable s i).1.obj j).alive = false := by
  by_cases hij : j = i
  · subst hij; rw [disable_alive]; exact h
  · rw [disable_obj_other s i j hij]; exact h

/-- what every call leaves alone: the callback log; object serials only grow; a destroyed object stays destroyed -/
def Quiet (s s' : State) : Prop :=
  s'.log = s.log ∧ s.nObjs ≤ s'.nObjs ∧ ∀ j, j < s.nObjs → (s.obj j).alive = false → (s'.obj j).alive = false

theorem act_quiet (s : State) (a : Act) : Quiet s (act s a).1 := by
  refine act_ind Quiet ?_ ?_ ?_ ?_ ?_ ?_ ?_ ?_ s a
  · exact fun s => ⟨rfl, Nat.le_refl _, fun _ _ h => h⟩
  · intro a b c h1 h2
    exact ⟨h2.1.trans h1.1, Nat.le_trans h1.2.1 h2.2.1, fun j hj hd => h2.2.2 j (Nat.lt_of_lt_of_le hj h1.2.1) (h1.2.2 j hj hd)⟩
  · intro s i
    exact ⟨disable_log s i, Nat.le_of_eq (disable_nObjs s i).symm, fun j _ h => disable_dead s i j h⟩
  · intro s i ms o
    simp only [initTimer]
    split
    · exact ⟨rfl, Nat.le_refl _, fun _ _ h => h⟩
    · rename_i ha
      refine ⟨by simp [disable_log], by simp [disable_nObjs], ?_⟩
      intro j _ h
      by_cases hij : j = i
      · subst hij; simp [h] at ha
      · simp only [obj_setObj, hij, ↓reduceIte]; exact disable_dead s i j h
  · intro s i
    simp only [enable]
    split; · exact ⟨rfl, Nat.le_refl _, fun _ _ h => h⟩
    split; · exact ⟨rfl, Nat.le_refl _, fun _ _ h => h⟩
    split; · exact ⟨rfl, Nat.le_refl _, fun _ _ h => h⟩
    rename_i ha _ _
    refine ⟨rfl, Nat.le_refl _, ?_⟩
    intro j _ h
    by_cases hij : j = i
    · subst hij; simp [h] at ha
    · simp [State.obj, State.setObj, hij]; exact h
  · intro s i
    simp only [destroy]
    split
    · exact ⟨rfl, Nat.le_refl _, fun _ _ h => h⟩
    · refine ⟨by simp [disable_log], by simp [disable_nObjs], ?_⟩
      intro j _ h
      by_cases hij : j = i
      · subst hij; simp
      · simp only [obj_setObj, hij, ↓reduceIte]; exact disable_dead s i j h
  · intro s sc
    refine ⟨rfl, Nat.le_succ _, ?_⟩
    intro j hj h
    have : j ≠ s.nObjs := Nat.ne_of_lt hj
    simp only [newObjS, State.obj, State.setObj, this, ↓reduceIte]; exact h
  · intro s p k
    exact ⟨rfl, Nat.le_refl _, fun _ _ h => h⟩

theorem act_deadQuiet (s : State) (a : Act) (j n : Nat) (h : DeadQuiet j n s) : DeadQuiet j n (act s a).1 := by
  have hf := act_quiet s a
  exact ⟨Nat.lt_of_lt_of_le h.exists_ hf.2.1, hf.2.2 j h.exists_ h.dead, by rw [hf.1]; exact h.quiet⟩

theorem runScript_deadQuiet (s : State) (as : List Act) (j n : Nat) (h : DeadQuiet j n s) :
    DeadQuiet j n (runScript s as) := by
  induction as generalizing s with
  | nil => exact h
  | cons a as ih => exact ih _ (act_deadQuiet s a j n h)

theorem take_cons_of_lt {α} (e : α) (l : List α) (n : Nat) (hn : n ≤ l.length) :
    (e :: l).take ((e :: l).length - n) = e :: l.take (l.length - n) := by
  have : (e :: l).length - n = (l.length - n) + 1 := by simp; omega
  rw [this]; rfl

theorem fireHead_facts (s : State) (r : Rec) :
    (fireHead s r).nObjs = s.nObjs ∧ (∃ ev : Fired, ev.obj = r.owner ∧ (fireHead s r).log = ev :: s.log) ∧
    ∀ j, j ≠ r.owner → (fireHead s r).obj j = s.obj j := by
  unfold fireHead
  simp only
  split
  · exact ⟨rfl, ⟨_, rfl, rfl⟩, fun j hj => by simp [State.obj, State.setObj, hj]⟩
  · exact ⟨rfl, ⟨_, rfl, rfl⟩, fun j _ => rfl⟩

theorem runScript_log (x : State) (as : List Act) : (runScript x as).log = x.log := by
  induction as generalizing x with
  | nil => rfl
  | cons a as ih => rw [runScript, ih, (act_quiet x a).1]

theorem step_deadQuiet (s : State) (st : Step) (j n : Nat) (hi : Inv s) (hv : valid s st = true)
    (hn : n ≤ s.log.length) (h : DeadQuiet j n s) : DeadQuiet j n (step s st) ∧ n ≤ (step s st).log.length := by
  cases st with
  | newObj sc =>
    refine ⟨⟨?_, ?_, h.quiet⟩, hn⟩
    · show j < s.nObjs + 1; exact Nat.lt_succ_of_lt h.exists_
    · have : j ≠ s.nObjs := Nat.ne_of_lt h.exists_
      simp only [step, newObjS, State.obj, State.setObj, this, ↓reduceIte]; exact h.dead
  | api a => exact ⟨act_deadQuiet s a j n h, by simp only [step]; rw [(act_quiet s a).1]; exact hn⟩
  | advance d => exact ⟨⟨h.exists_, h.dead, h.quiet⟩, hn⟩
  | beginPass => exact ⟨⟨h.exists_, h.dead, h.quiet⟩, hn⟩
  | endPass => exact ⟨⟨h.exists_, h.dead, h.quiet⟩, hn⟩
  | fire tok =>
    simp only [step, valid] at hv ⊢
    cases hf : findTok s tok with
    | none => simp [hf] at hv
    | some r =>
      simp only [hf] at hv ⊢
      obtain ⟨t, hpn, hr, _, _⟩ := canFire_spec hv
      have ok := hi.recs r hr
      have hne : j ≠ r.owner := by
        intro e; have := ok.alive; rw [← e, h.dead] at this; cases this
      obtain ⟨hnO, ⟨ev, hev, hl⟩, hobj⟩ := fireHead_facts s r
      have hq : DeadQuiet j n (fireHead s r) := by
        refine ⟨hnO ▸ h.exists_, by rw [hobj j hne]; exact h.dead, ?_⟩
        rw [hl, take_cons_of_lt ev s.log n hn]
        intro e he
        rcases List.mem_cons.1 he with rfl | he
        · rw [hev]; exact fun e' => hne e'.symm
        · exact h.quiet e he
      rw [fire_eq]
      exact ⟨runScript_deadQuiet _ _ j n hq, by rw [runScript_log, hl]; simp; omega⟩

theorem exec_deadQuiet (s : State) (sts : List Step) (j n : Nat) (hi : Inv s) (hn : n ≤ s.log.length)
    (h : DeadQuiet j n s) (s' : State) (he : exec s sts = some s') : DeadQuiet j n s' := by
  induction sts generalizing s with
  | nil => simp [exec] at he; exact he ▸ h
  | cons st sts ih =>
    simp only [exec] at he
    split at he
    · rename_i hv
      have := step_deadQuiet s st j n hi hv hn h
      exact ih _ (step_inv s st hi hv) this.2 this.1 he
    · cases he

end Tbox.C02
