/- C02 — "destroyed stays destroyed and is never called again" -/
import TboxModel.C02.Proofs
namespace Tbox.C02

/-- object `j` exists, is destroyed, and no callback on it was logged after the first `n` log entries -/
structure DeadQuiet (j n : Nat) (s : State) : Prop where
  exists_ : j < s.nObjs
  dead    : (s.obj j).alive = false
  quiet   : ∀ e ∈ s.log.take (s.log.length - n), e.obj ≠ j

theorem disable_log (s : State) (j : Nat) : (disable s j).1.log = s.log := (disable_fields s j).2.2.2.1
theorem disable_nObjs (s : State) (j : Nat) : (disable s j).1.nObjs = s.nObjs := (disable_fields s j).2.2.2.2.1

theorem disable_dead (s : State) (i j : Nat) (h : (s.obj j).alive = false) : ((disable s i).1.obj j).alive = false := by
  by_cases hij : j = i
  · subst hij; rw [disable_alive]; exact h
  · rw [disable_obj_other s i j hij]; exact h

theorem act_fields (s : State) (a : Act) : (act s a).1.log = s.log ∧ (act s a).1.nObjs = s.nObjs := by
  cases a with
  | init i ms o =>
    simp only [act, initTimer]
    split
    · exact ⟨rfl, rfl⟩
    · exact ⟨by simp [disable_log], by simp [disable_nObjs]⟩
  | enable i =>
    simp only [act, enable]
    split; · exact ⟨rfl, rfl⟩
    split; · exact ⟨rfl, rfl⟩
    split; · exact ⟨rfl, rfl⟩
    exact ⟨rfl, rfl⟩
  | disable i => exact ⟨disable_log s i, disable_nObjs s i⟩
  | destroy i =>
    simp only [act, destroy]
    split
    · exact ⟨rfl, rfl⟩
    · exact ⟨by simp [disable_log], by simp [disable_nObjs]⟩

theorem act_dead (s : State) (a : Act) (j : Nat) (h : (s.obj j).alive = false) : ((act s a).1.obj j).alive = false := by
  cases a with
  | init i ms o =>
    simp only [act, initTimer]
    split
    · exact h
    · rename_i ha
      by_cases hij : j = i
      · subst hij; simp [h] at ha
      · simp only [obj_setObj, hij, ↓reduceIte]; exact disable_dead s i j h
  | enable i =>
    simp only [act, enable]
    split; · exact h
    split; · exact h
    split; · exact h
    rename_i ha _ _
    by_cases hij : j = i
    · subst hij; simp [h] at ha
    · simp [State.obj, State.setObj, hij]; exact h
  | disable i => exact disable_dead s i j h
  | destroy i =>
    simp only [act, destroy]
    split
    · exact h
    · by_cases hij : j = i
      · subst hij; simp
      · simp only [obj_setObj, hij, ↓reduceIte]; exact disable_dead s i j h

theorem act_deadQuiet (s : State) (a : Act) (j n : Nat) (h : DeadQuiet j n s) : DeadQuiet j n (act s a).1 := by
  have hf := act_fields s a
  exact ⟨hf.2 ▸ h.exists_, act_dead s a j h.dead, by rw [hf.1]; exact h.quiet⟩

theorem runScript_deadQuiet (s : State) (as : List Act) (j n : Nat) (h : DeadQuiet j n s) :
    DeadQuiet j n (runScript s as) := by
  induction as generalizing s with
  | nil => exact h
  | cons a as ih => exact ih _ (act_deadQuiet s a j n h)

theorem take_cons_of_lt {α} (e : α) (l : List α) (n : Nat) (hn : n ≤ l.length) :
    (e :: l).take ((e :: l).length - n) = e :: l.take (l.length - n) := by
  have : (e :: l).length - n = (l.length - n) + 1 := by simp; omega
  rw [this]; rfl

/-- the state in which the callback script of record `r` starts (timers re-armed/popped, event logged,
one-shot flag reset) -/
def fireHead (s : State) (r : Rec) : State :=
  let t := s.passNow.getD s.now
  let rest := s.timers.filter (fun q => q.tok != r.tok)
  let timers := if r.oneshot then rest else { r with expired := r.expired + r.interval, k := r.k + 1 } :: rest
  let o := s.obj r.owner
  let ev : Fired := { obj := r.owner, passNow := t, base := r.base, n := r.k + 1, interval := r.interval,
                      okAtCall := o.alive && o.enabled, deadline := r.expired,
                      prevDeadline := s.lastDeadline, oneshot := r.oneshot }
  let s0 : State := { s with timers := timers, log := ev :: s.log, lastDeadline := r.expired }
  if o.oneshot then s0.setObj r.owner { o with enabled := false, token := none } else s0

theorem fire_eq (s : State) (r : Rec) : fire s r = runScript (fireHead s r) (s.obj r.owner).script := by
  unfold fire onEvent fireHead
  rfl

theorem fireHead_facts (s : State) (r : Rec) :
    (fireHead s r).nObjs = s.nObjs ∧ (∃ ev : Fired, ev.obj = r.owner ∧ (fireHead s r).log = ev :: s.log) ∧
    ∀ j, j ≠ r.owner → (fireHead s r).obj j = s.obj j := by
  unfold fireHead
  simp only
  split
  · exact ⟨rfl, ⟨_, rfl, rfl⟩, fun j hj => by simp [State.obj, State.setObj, hj]⟩
  · exact ⟨rfl, ⟨_, rfl, rfl⟩, fun j _ => rfl⟩

theorem runScript_log (x : State) (as : List Act) : (runScript x as).log = x.log := by
  induction as generalizing x with
  | nil => rfl
  | cons a as ih => rw [runScript, ih, (act_fields x a).1]

theorem step_deadQuiet (s : State) (st : Step) (j n : Nat) (hi : Inv s) (hv : valid s st = true)
    (hn : n ≤ s.log.length) (h : DeadQuiet j n s) : DeadQuiet j n (step s st) ∧ n ≤ (step s st).log.length := by
  cases st with
  | newObj sc =>
    refine ⟨⟨?_, ?_, h.quiet⟩, hn⟩
    · show j < s.nObjs + 1; exact Nat.lt_succ_of_lt h.exists_
    · have : j ≠ s.nObjs := Nat.ne_of_lt h.exists_
      simp only [step, State.obj, State.setObj, this, ↓reduceIte]; exact h.dead
  | api a => exact ⟨act_deadQuiet s a j n h, by simp only [step]; rw [(act_fields s a).1]; exact hn⟩
  | advance d => exact ⟨⟨h.exists_, h.dead, h.quiet⟩, hn⟩
  | beginPass => exact ⟨⟨h.exists_, h.dead, h.quiet⟩, hn⟩
  | endPass => exact ⟨⟨h.exists_, h.dead, h.quiet⟩, hn⟩
  | fire tok =>
    simp only [step, valid] at hv ⊢
    cases hf : findTok s tok with
    | none => simp [hf] at hv
    | some r =>
      simp only [hf] at hv ⊢
      obtain ⟨t, hpn, hr, _, _⟩ := canFire_spec hv
      have ok := hi.recs r hr
      have hne : j ≠ r.owner := by
        intro e; have := ok.alive; rw [← e, h.dead] at this; cases this
      obtain ⟨hnO, ⟨ev, hev, hl⟩, hobj⟩ := fireHead_facts s r
      have hq : DeadQuiet j n (fireHead s r) := by
        refine ⟨hnO ▸ h.exists_, by rw [hobj j hne]; exact h.dead, ?_⟩
        rw [hl, take_cons_of_lt ev s.log n hn]
        intro e he
        rcases List.mem_cons.1 he with rfl | he
        · rw [hev]; exact fun e' => hne e'.symm
        · exact h.quiet e he
      rw [fire_eq]
      exact ⟨runScript_deadQuiet _ _ j n hq, by rw [runScript_log, hl]; simp; omega⟩

theorem exec_deadQuiet (s : State) (sts : List Step) (j n : Nat) (hi : Inv s) (hn : n ≤ s.log.length)
    (h : DeadQuiet j n s) (s' : State) (he : exec s sts = some s') : DeadQuiet j n s' := by
  induction sts generalizing s with
  | nil => simp [exec] at he; exact he ▸ h
  | cons st sts ih =>
    simp only [exec] at he
    split at he
    · rename_i hv
      have := step_deadQuiet s st j n hi hv hn h
      exact ih _ (step_inv s st hi hv) this.2 this.1 he
    · cases he

end Tbox.C02
