/- C02 round 5 — "only the last exitLoop counts": a tracking invariant for ONE object (the loop's exit-timer slot)
over every continuation that does not address that object any more (calls outside and inside callbacks, any
nesting, TimerPool calls included), and the state of a TimerPool right after `cleanup()`. -/
import TboxModel.C02.PoolProofs
namespace Tbox.C02

mutual
/-- the call does not address object `j` (no initialize / enable / disable / destruction of `j`), and neither does any
callback script it installs, at any nesting depth.  TimerPool calls never address an object that is not a pool timer. -/
def Act.avoids (j : Nat) : Act → Bool
  | .init i _ _ => i != j
  | .enable i => i != j
  | .disable i => i != j
  | .destroy i => i != j
  | .newObj sc => avoidsList j sc
  | .doAfter _ sc => avoidsList j sc
  | .doEvery _ sc => avoidsList j sc
  | .cancel _ => true
  | .cleanup => true
  | .pfree _ => true
def avoidsList (j : Nat) : List Act → Bool
  | [] => true
  | a :: as => a.avoids j && avoidsList j as
end

def Step.avoids (j : Nat) : Step → Bool
  | .newObj sc => avoidsList j sc
  | .api a => a.avoids j
  | _ => true

/-- no step of the continuation addresses object `j`, outside or inside callbacks -/
def avoidsSteps (j : Nat) (sts : List Step) : Bool := sts.all (Step.avoids j)

theorem avoidsList_append (j : Nat) (a b : List Act) :
    avoidsList j (a ++ b) = (avoidsList j a && avoidsList j b) := by
  induction a with
  | nil => simp [avoidsList]
  | cons x xs ih => simp [avoidsList, ih, Bool.and_assoc]

/-- every callback that can still run leaves object `j` alone -/
def ScrAvoid (j : Nat) (s : State) : Prop := ∀ i, (s.obj i).alive = true → avoidsList j (s.obj i).script = true

/-! ### the primitives keep `ScrAvoid` (whatever object they address) -/

theorem disable_alive_any (s : State) (j i : Nat) : ((disable s j).1.obj i).alive = (s.obj i).alive := by
  by_cases hij : i = j
  · subst hij; exact disable_alive s i
  · rw [disable_obj_other s j i hij]

theorem sa_disable (slot : Nat) (s : State) (j : Nat) (h : ScrAvoid slot s) : ScrAvoid slot (disable s j).1 := by
  intro i hi
  rw [(disable_obj_same s j i).2.2]
  exact h i (by rw [← disable_alive_any s j i]; exact hi)

theorem sa_init (slot : Nat) (s : State) (j ms : Nat) (o : Bool) (h : ScrAvoid slot s) : ScrAvoid slot (initTimer s j ms o).1 := by
  unfold initTimer
  split
  · exact h
  · intro i hi
    have h1 := sa_disable slot s j h
    by_cases hij : i = j
    · subst hij
      simp only [obj_setObj, ↓reduceIte] at hi ⊢
      exact h1 i hi
    · simp only [obj_setObj, hij, ↓reduceIte] at hi ⊢
      exact h1 i hi

theorem sa_enable (slot : Nat) (s : State) (j : Nat) (h : ScrAvoid slot s) : ScrAvoid slot (enable s j).1 := by
  unfold enable
  simp only
  split; · exact h
  split; · exact h
  split; · exact h
  intro i hi
  by_cases hij : i = j
  · subst hij
    simp only [State.obj, State.setObj, ↓reduceIte] at hi ⊢
    exact h i hi
  · simp only [State.obj, State.setObj, hij, ↓reduceIte] at hi ⊢
    exact h i hi

theorem sa_destroy (slot : Nat) (s : State) (j : Nat) (h : ScrAvoid slot s) : ScrAvoid slot (destroy s j).1 := by
  intro i hi
  rw [destroy_script]
  by_cases hij : i = j
  · subst hij; rw [destroy_dead] at hi; cases hi
  · rw [destroy_obj_other s j i hij] at hi; exact h i hi

theorem sa_new (slot : Nat) (s : State) (sc : List Act) (hsc : avoidsList slot sc = true) (h : ScrAvoid slot s) :
    ScrAvoid slot (newObjS s sc) := by
  intro i hi
  by_cases hij : i = s.nObjs
  · subst hij; simp [newObjS, State.obj, State.setObj]; exact hsc
  · simp only [newObjS, State.obj, State.setObj, hij, ↓reduceIte] at hi ⊢; exact h i hi

theorem sa_pool (slot : Nat) (s : State) (p k : List Nat) (h : ScrAvoid slot s) :
    ScrAvoid slot { s with pool := p, killed := k } := h

theorem sa_killAll (slot : Nat) (l : List Nat) (s : State) (h : ScrAvoid slot s) :
    ScrAvoid slot (l.foldl (fun st k => (destroy (disable st k).1 k).1) s) :=
  killAll_ind (fun a b => ScrAvoid slot a → ScrAvoid slot b) (fun _ x => x) (fun _ _ _ f g x => g (f x))
    (fun s j => sa_disable slot s j) (fun s j => sa_destroy slot s j) l s h

theorem sa_add (slot : Nat) (s : State) (ms : Nat) (os : Bool) (sc : List Act) (hsc : avoidsList slot sc = true)
    (h : ScrAvoid slot s) : ScrAvoid slot (Pool.add s ms os sc).1 := by
  unfold Pool.add
  exact sa_enable slot _ _ (sa_init slot _ _ _ _ (sa_pool slot _ _ _ (sa_new slot s sc hsc h)))

/-- every call whose installed scripts avoid `slot` keeps `ScrAvoid` — also a call that addresses `slot` itself -/
theorem sa_act (slot : Nat) (s : State) (a : Act)
    (ha : a.avoids slot = true ∨ (∃ ms o, a = .init slot ms o) ∨ a = .enable slot ∨ a = .disable slot)
    (h : ScrAvoid slot s) : ScrAvoid slot (act s a).1 := by
  cases a with
  | init j ms o => exact sa_init slot s j ms o h
  | enable j => exact sa_enable slot s j h
  | disable j => exact sa_disable slot s j h
  | destroy j => exact sa_destroy slot s j h
  | newObj sc =>
    have : avoidsList slot sc = true := by
      rcases ha with ha | ⟨_, _, ha⟩ | ha | ha
      · simpa [Act.avoids] using ha
      all_goals cases ha
    exact sa_new slot s sc this h
  | doAfter ms sc =>
    have : avoidsList slot sc = true := by
      rcases ha with ha | ⟨_, _, ha⟩ | ha | ha
      · simpa [Act.avoids] using ha
      all_goals cases ha
    refine sa_add slot s ms true _ ?_ h
    rw [avoidsList_append, this]; simp [avoidsList, Act.avoids]
  | doEvery ms sc =>
    have : avoidsList slot sc = true := by
      rcases ha with ha | ⟨_, _, ha⟩ | ha | ha
      · simpa [Act.avoids] using ha
      all_goals cases ha
    exact sa_add slot s ms false _ this h
  | cancel k =>
    simp only [act, Pool.cancel]
    split
    · exact sa_destroy slot _ k (sa_disable slot _ k (sa_pool slot s _ _ h))
    · exact h
  | cleanup =>
    simp only [act, Pool.cleanup]
    exact sa_pool slot _ _ _ (sa_killAll slot _ s h)
  | pfree k =>
    simp only [act, Pool.free]
    split
    · exact sa_destroy slot _ k (sa_pool slot s _ _ h)
    · exact h

/-! ### a call that avoids `slot` leaves the object alone -/

theorem enable_obj_other (s : State) (j i : Nat) (hij : i ≠ j) : (enable s j).1.obj i = s.obj i := by
  unfold enable
  simp only
  split; · rfl
  split; · rfl
  split; · rfl
  simp [State.obj, State.setObj, hij]

theorem initTimer_obj_other (s : State) (j ms : Nat) (o : Bool) (i : Nat) (hij : i ≠ j) :
    (initTimer s j ms o).1.obj i = s.obj i := by
  unfold initTimer
  split
  · rfl
  · simp only [obj_setObj, hij, ↓reduceIte]; exact disable_obj_other s j i hij

theorem act_obj_avoid (slot : Nat) (s : State) (a : Act) (ha : a.avoids slot = true) (hlt : slot < s.nObjs)
    (hnp : slot ∉ s.pool) : (act s a).1.obj slot = s.obj slot := by
  have hne : slot ≠ s.nObjs := Nat.ne_of_lt hlt
  cases a with
  | init j ms o =>
    have : slot ≠ j := by simp [Act.avoids] at ha; exact fun e => ha e.symm
    exact initTimer_obj_other s j ms o slot this
  | enable j =>
    have : slot ≠ j := by simp [Act.avoids] at ha; exact fun e => ha e.symm
    exact enable_obj_other s j slot this
  | disable j =>
    have : slot ≠ j := by simp [Act.avoids] at ha; exact fun e => ha e.symm
    exact disable_obj_other s j slot this
  | destroy j =>
    have : slot ≠ j := by simp [Act.avoids] at ha; exact fun e => ha e.symm
    exact destroy_obj_other s j slot this
  | newObj sc => simp [act, newObjS, State.obj, State.setObj, hne]
  | doAfter ms sc => exact add_other s ms true _ slot hne
  | doEvery ms sc => exact add_other s ms false _ slot hne
  | cancel k =>
    by_cases hl : Pool.live s k = true
    · have hk : slot ≠ k := fun e => hnp (e ▸ (live_iff s k).1 hl)
      exact (cancel_effect s k hl).2.2.2.2 slot hk
    · have : act s (.cancel k) = (s, false) := by simp only [act, Pool.cancel, hl]; rfl
      rw [this]
  | cleanup => exact (cleanup_effect s).2.2.2.1 slot hnp
  | pfree k =>
    by_cases hl : Pool.live s k = true
    · have hk : slot ≠ k := fun e => hnp (e ▸ (live_iff s k).1 hl)
      exact (free_effect s k hl).2.2.2.2 slot hk
    · have : act s (.pfree k) = (s, true) := by simp only [act, Pool.free, hl]; rfl
      rw [this]

/-- the context in which object `slot` is tracked -/
structure SlotCtx (slot : Nat) (s : State) : Prop where
  inv : Inv s
  lt : slot < s.nObjs
  notPool : slot ∉ s.pool
  scripts : ScrAvoid slot s

theorem act_ctx (slot : Nat) (s : State) (a : Act) (h : SlotCtx slot s) (ha : a.avoids slot = true) :
    SlotCtx slot (act s a).1 ∧ (act s a).1.obj slot = s.obj slot := by
  have st := act_stale s a slot h.lt h.notPool
  exact ⟨⟨act_inv s a h.inv, st.1, st.2, sa_act slot s a (Or.inl ha) h.scripts⟩,
    act_obj_avoid slot s a ha h.lt h.notPool⟩

theorem runScript_ctx (slot : Nat) (s : State) (as : List Act) (h : SlotCtx slot s) (ha : avoidsList slot as = true) :
    SlotCtx slot (runScript s as) ∧ (runScript s as).obj slot = s.obj slot := by
  induction as generalizing s with
  | nil => exact ⟨h, rfl⟩
  | cons a as ih =>
    simp only [avoidsList, Bool.and_eq_true] at ha
    obtain ⟨h1, e1⟩ := act_ctx slot s a h ha.1
    obtain ⟨h2, e2⟩ := ih _ h1 ha.2
    exact ⟨h2, e2.trans e1⟩

/-! ### the tracking invariant

`old` is the callback log when the last `exitLoop` call was made; `nw` what was logged since.  Phases: ARMED (the slot is
enabled, its record carries base `t0`, interval `w`, one-shot; it has not fired since), FIRED (disabled; exactly one callback
since, of that enablement), and — only if `z` — IDLE (disabled, no callback since: after `exitLoop(0)`). -/
structure XT (slot t0 w : Nat) (z : Bool) (old : List Fired) (s : State) : Prop where
  ctx : SlotCtx slot s
  alive : (s.obj slot).alive = true
  ph : ∃ nw, s.log = nw ++ old ∧
    (((s.obj slot).enabled = true ∧ nw.filter (fun e => e.obj == slot) = [] ∧
        z = false ∧ ∀ r ∈ s.timers, r.owner = slot → r.base = t0 ∧ r.interval = w ∧ r.oneshot = true) ∨
     ((s.obj slot).enabled = false ∧ ∃ e, nw.filter (fun e => e.obj == slot) = [e] ∧ e.base = t0 ∧ e.interval = w ∧
        e.oneshot = true ∧ z = false) ∨
     ((s.obj slot).enabled = false ∧ nw.filter (fun e => e.obj == slot) = [] ∧ z = true))

/-- a change that concerns neither the object nor its records nor the log -/
theorem XT_frame {slot t0 w : Nat} {z : Bool} {old : List Fired} {s s' : State} (h : XT slot t0 w z old s)
    (hc : SlotCtx slot s') (ho : s'.obj slot = s.obj slot) (hl : s'.log = s.log)
    (hr : ∀ q ∈ s'.timers, q.owner = slot → q ∈ s.timers) : XT slot t0 w z old s' := by
  refine ⟨hc, by rw [ho]; exact h.alive, ?_⟩
  obtain ⟨nw, e, p⟩ := h.ph
  refine ⟨nw, by rw [hl]; exact e, ?_⟩
  rw [ho]
  rcases p with ⟨a, b, hz, c⟩ | p | p
  · exact Or.inl ⟨a, b, hz, fun r hr' ho' => c r (hr r hr' ho') ho'⟩
  · exact Or.inr (Or.inl p)
  · exact Or.inr (Or.inr p)

theorem act_XT {slot t0 w : Nat} {z : Bool} {old : List Fired} {s : State} (a : Act) (ha : a.avoids slot = true)
    (h : XT slot t0 w z old s) : XT slot t0 w z old (act s a).1 := by
  obtain ⟨hc, ho⟩ := act_ctx slot s a h.ctx ha
  exact XT_frame h hc ho (act_quiet s a).1 (recs_of_ev h.ctx.inv hc.inv (act_ev s a) ho)

theorem runScript_XT {slot t0 w : Nat} {z : Bool} {old : List Fired} {s : State} (as : List Act)
    (ha : avoidsList slot as = true) (h : XT slot t0 w z old s) : XT slot t0 w z old (runScript s as) := by
  obtain ⟨hc, ho⟩ := runScript_ctx slot s as h.ctx ha
  exact XT_frame h hc ho (runScript_log s as) (recs_of_ev h.ctx.inv hc.inv (runScript_ev s as) ho)

theorem fireHead_timers (s : State) (r : Rec) : ∀ q ∈ (fireHead s r).timers, q ∈ s.timers ∨ q.owner = r.owner := by
  intro q hq
  unfold fireHead at hq
  simp only at hq
  have key : ∀ q ∈ (if r.oneshot then s.timers.filter (fun q => q.tok != r.tok)
      else { r with expired := r.expired + r.interval, k := r.k + 1 } :: s.timers.filter (fun q => q.tok != r.tok)),
      q ∈ s.timers ∨ q.owner = r.owner := by
    intro q hq
    split at hq
    · exact Or.inl (List.mem_filter.1 hq).1
    · rcases List.mem_cons.1 hq with rfl | hq
      · exact Or.inr rfl
      · exact Or.inl (List.mem_filter.1 hq).1
  split at hq
  · exact key q hq
  · exact key q hq

theorem fireHead_ctx (slot : Nat) (s : State) (r : Rec) (h : SlotCtx slot s) (hc : canFire s r = true) :
    SlotCtx slot (fireHead s r) := by
  obtain ⟨hp, _, hn⟩ := fireHead_pk s r
  obtain ⟨_, _, hobj⟩ := fireHead_facts s r
  obtain ⟨oa, osc, _⟩ := fireHead_owner s r
  refine ⟨fireHead_inv s r h.inv hc, by rw [hn]; exact h.lt, by rw [hp]; exact h.notPool, ?_⟩
  intro i hi
  by_cases hio : i = r.owner
  · subst hio; rw [osc]; rw [oa] at hi; exact h.scripts _ hi
  · rw [hobj i hio] at hi ⊢; exact h.scripts i hi

theorem fire_XT {slot t0 w : Nat} {z : Bool} {old : List Fired} {s : State} (r : Rec) (hc : canFire s r = true)
    (h : XT slot t0 w z old s) : XT slot t0 w z old (fire s r) := by
  obtain ⟨_, _, hr, _, _⟩ := canFire_spec hc
  have ok := h.ctx.inv.recs r hr
  have hcx := fireHead_ctx slot s r h.ctx hc
  obtain ⟨ev, hlog, hevo, hevb, _, hevi, hevos⟩ := fireHead_log s r
  obtain ⟨_, _, hobj⟩ := fireHead_facts s r
  obtain ⟨oa, _, _, _, oen⟩ := fireHead_owner s r
  have hsc : avoidsList slot (s.obj r.owner).script = true := h.ctx.scripts _ ok.alive
  rw [fire_eq]
  refine runScript_XT _ hsc ?_
  obtain ⟨nw, e, p⟩ := h.ph
  by_cases hos : r.owner = slot
  · -- the slot's own record is served: it was ARMED
    have hen : (s.obj slot).enabled = true := by rw [← hos]; exact ok.enabled
    rcases p with ⟨_, b, hz, c⟩ | ⟨a, _⟩ | ⟨a, _⟩
    · obtain ⟨c1, c2, c3⟩ := c r hr hos
      refine ⟨hcx, by rw [← hos, oa, hos]; exact h.alive, ev :: nw, by rw [hlog, e]; rfl, Or.inr (Or.inl ⟨?_, ev, ?_, ?_, ?_, ?_, hz⟩)⟩
      · rw [← hos, oen, ok.oneshot, c3]; rfl
      · have : (ev.obj == slot) = true := by rw [hevo, hos]; simp
        simp [List.filter, this, b]
      · rw [hevb, c1]
      · rw [hevi, c2]
      · rw [hevos, c3]
    · rw [hen] at a; cases a
    · rw [hen] at a; cases a
  · -- another timer's record
    have hso : slot ≠ r.owner := fun x => hos x.symm
    have hf : (ev.obj == slot) = false := by rw [hevo]; simp [hos]
    refine ⟨hcx, by rw [hobj slot hso]; exact h.alive, ev :: nw, by rw [hlog, e]; rfl, ?_⟩
    rw [hobj slot hso]
    have hfil : (ev :: nw).filter (fun e => e.obj == slot) = nw.filter (fun e => e.obj == slot) := by
      simp [List.filter, hf]
    rw [hfil]
    rcases p with ⟨a, b, hz, c⟩ | p | p
    · refine Or.inl ⟨a, b, hz, ?_⟩
      intro q hq hqo
      rcases fireHead_timers s r q hq with h1 | h1
      · exact c q h1 hqo
      · exact absurd (hqo.symm.trans h1).symm hos
    · exact Or.inr (Or.inl p)
    · exact Or.inr (Or.inr p)

theorem step_XT {slot t0 w : Nat} {z : Bool} {old : List Fired} {s : State} (st : Step) (ha : st.avoids slot = true)
    (hv : valid s st = true) (h : XT slot t0 w z old s) : XT slot t0 w z old (step s st) := by
  have hi' := step_inv s st h.ctx.inv hv
  cases st with
  | newObj sc => exact act_XT (.newObj sc) ha h
  | api a => exact act_XT a ha h
  | advance d => exact XT_frame h ⟨hi', h.ctx.lt, h.ctx.notPool, h.ctx.scripts⟩ rfl rfl (fun _ x _ => x)
  | beginPass => exact XT_frame h ⟨hi', h.ctx.lt, h.ctx.notPool, h.ctx.scripts⟩ rfl rfl (fun _ x _ => x)
  | endPass => exact XT_frame h ⟨hi', h.ctx.lt, h.ctx.notPool, h.ctx.scripts⟩ rfl rfl (fun _ x _ => x)
  | fire tok =>
    simp only [step, valid] at hv ⊢
    cases hf : findTok s tok with
    | none => simp [hf] at hv
    | some r => simp only [hf] at hv ⊢; exact fire_XT r hv h

theorem exec_XT {slot t0 w : Nat} {z : Bool} {old : List Fired} (sts : List Step) (s : State)
    (ha : avoidsSteps slot sts = true) (h : XT slot t0 w z old s) (s' : State) (he : exec s sts = some s') :
    XT slot t0 w z old s' := by
  induction sts generalizing s with
  | nil => simp [exec] at he; exact he ▸ h
  | cons st sts ih =>
    simp only [avoidsSteps, List.all_cons, Bool.and_eq_true] at ha
    simp only [exec] at he
    split at he
    · rename_i hv; exact ih _ ha.2 (step_XT st ha.1 hv h) he
    · cases he

/-- what the invariant says about the callbacks of the slot since the call -/
theorem XT_result {slot t0 w : Nat} {z : Bool} {old : List Fired} {s : State} (h : XT slot t0 w z old s) :
    ∃ nw, s.log = nw ++ old ∧
      (nw.filter (fun e => e.obj == slot) = [] ∨
       ∃ e, nw.filter (fun e => e.obj == slot) = [e] ∧ e.base = t0 ∧ e.interval = w ∧ e.n = 1 ∧ e.deadline = t0 + w ∧
         t0 + w ≤ e.passNow ∧ e.okAtCall = true) ∧
      (z = false → ∀ t', s.passNow = some t' → valid s .endPass = true → t0 + w ≤ t' →
        ∃ e, nw.filter (fun e => e.obj == slot) = [e]) := by
  obtain ⟨nw, e, p⟩ := h.ph
  refine ⟨nw, e, ?_, ?_⟩
  · rcases p with ⟨_, b, _⟩ | ⟨_, ev, b, c1, c2, c3, _⟩ | ⟨_, b, _⟩
    · exact Or.inl b
    · have hm : ev ∈ s.log := by
        rw [e]; apply List.mem_append_left
        have : ev ∈ nw.filter (fun e => e.obj == slot) := by rw [b]; exact List.mem_singleton.2 rfl
        exact (List.mem_filter.1 this).1
      have ok := h.ctx.inv.log ev hm
      have hn : ev.n = 1 := ok.once c3
      refine Or.inr ⟨ev, b, c1, c2, hn, ?_, ?_, ok.okAtCall⟩
      · rw [ok.isDeadline, hn, c1, c2]; omega
      · have := ok.notEarly; rw [hn, c1, c2] at this; omega
    · exact Or.inl b
  · intro hz t' hp hend hle
    rcases p with ⟨a, _, _, c⟩ | ⟨_, ev, b, _⟩ | ⟨_, _, z1⟩
    · exfalso
      obtain ⟨r, hr, hro⟩ := h.ctx.inv.hasRec slot h.alive a
      obtain ⟨c1, c2, c3⟩ := c r hr hro
      have ok := h.ctx.inv.recs r hr
      simp only [valid, hp, List.all_eq_true, decide_eq_true_eq] at hend
      have h1 := hend r hr
      have h2 := ok.deadline
      rw [ok.once c3, c1, c2] at h2
      omega
    · exact ⟨ev, b⟩
    · rw [hz] at z1; cases z1

/-! ### a TimerPool right after `cleanup()` (TimerPool-only executions) -/

/-- in a TimerPool-only execution every object that is alive is a live pool timer -/
def AlivePool (s : State) : Prop := ∀ j, (s.obj j).alive = true → j ∈ s.pool

theorem ap_act (s : State) (a : Act) (ha : a.pu = true ∨ ∃ k, a = .pfree k) (hx : Aux s) (h : AlivePool s) :
    AlivePool (act s a).1 := by
  cases a with
  | init _ _ _ => rcases ha with ha | ⟨_, ha⟩ <;> simp [Act.pu] at ha
  | enable _ => rcases ha with ha | ⟨_, ha⟩ <;> simp [Act.pu] at ha
  | disable _ => rcases ha with ha | ⟨_, ha⟩ <;> simp [Act.pu] at ha
  | destroy _ => rcases ha with ha | ⟨_, ha⟩ <;> simp [Act.pu] at ha
  | newObj _ => rcases ha with ha | ⟨_, ha⟩ <;> simp [Act.pu] at ha
  | doAfter ms sc =>
    intro j hj
    show j ∈ (Pool.add s ms true _).1.pool
    rw [(add_pk s ms true _).1]
    by_cases hjn : j = s.nObjs
    · subst hjn; exact List.mem_cons_self
    · have : (Pool.add s ms true (sc ++ [.pfree s.nObjs])).1.obj j = s.obj j := add_other s ms true _ j hjn
      exact List.mem_cons_of_mem _ (h j (by rw [← this]; exact hj))
  | doEvery ms sc =>
    intro j hj
    show j ∈ (Pool.add s ms false _).1.pool
    rw [(add_pk s ms false _).1]
    by_cases hjn : j = s.nObjs
    · subst hjn; exact List.mem_cons_self
    · have : (Pool.add s ms false sc).1.obj j = s.obj j := add_other s ms false _ j hjn
      exact List.mem_cons_of_mem _ (h j (by rw [← this]; exact hj))
  | cancel k =>
    by_cases hl : Pool.live s k = true
    · obtain ⟨e1, _, e3, _, e5⟩ := cancel_effect s k hl
      intro j hj
      show j ∈ (Pool.cancel s k).1.pool
      have hjk : j ≠ k := by intro e; subst e; rw [show (act s (.cancel j)).1 = (Pool.cancel s j).1 from rfl, e1] at hj; cases hj
      rw [e3, mem_filter_ne]
      exact ⟨h j (by rw [← e5 j hjk]; exact hj), hjk⟩
    · have : act s (.cancel k) = (s, false) := by simp only [act, Pool.cancel, hl]; rfl
      rw [this]; exact h
  | cleanup =>
    obtain ⟨_, _, _, e4, e5⟩ := cleanup_effect s
    intro j hj
    exfalso
    by_cases hjp : j ∈ s.pool
    · have := e5 j hjp (hx.poolLt j hjp)
      rw [show (act s .cleanup).1 = Pool.cleanup s from rfl, this] at hj; cases hj
    · rw [show (act s .cleanup).1 = Pool.cleanup s from rfl, e4 j hjp] at hj
      exact hjp (h j hj)
  | pfree k =>
    by_cases hl : Pool.live s k = true
    · obtain ⟨e1, _, e3, _, e5⟩ := free_effect s k hl
      intro j hj
      show j ∈ (Pool.free s k).pool
      have hjk : j ≠ k := by intro e; subst e; rw [show (act s (.pfree j)).1 = Pool.free s j from rfl, e1] at hj; cases hj
      rw [e3, mem_filter_ne]
      exact ⟨h j (by rw [← e5 j hjk]; exact hj), hjk⟩
    · have : act s (.pfree k) = (s, true) := by simp only [act, Pool.free, hl]; rfl
      rw [this]; exact h

theorem ap_runScript (s : State) (as : List Act) (ha : ∀ a ∈ as, a.pu = true ∨ ∃ k, a = .pfree k) (hx : Aux s)
    (h : AlivePool s) : AlivePool (runScript s as) := by
  induction as generalizing s with
  | nil => exact h
  | cons a as ih =>
    exact ih _ (fun b hb => ha b (List.mem_cons_of_mem _ hb)) (act_aux s a hx)
      (ap_act s a (ha a List.mem_cons_self) hx h)

theorem ap_step (s : State) (st : Step) (hpu : st.pu = true) (hi : Inv s) (hx : Aux s) (hso : SOk s)
    (hv : valid s st = true) (h : AlivePool s) : AlivePool (step s st) := by
  cases st with
  | newObj sc => simp [Step.pu] at hpu
  | api a => exact ap_act s a (Or.inl hpu) hx h
  | advance d => exact h
  | beginPass => exact h
  | endPass => exact h
  | fire tok =>
    simp only [step, valid] at hv ⊢
    cases hf : findTok s tok with
    | none => simp [hf] at hv
    | some r =>
      simp only [hf] at hv ⊢
      obtain ⟨_, _, hr, _, _⟩ := canFire_spec hv
      have ok := hi.recs r hr
      obtain ⟨hp, _, hn⟩ := fireHead_pk s r
      obtain ⟨_, _, hobj⟩ := fireHead_facts s r
      obtain ⟨oa, _, _⟩ := fireHead_owner s r
      have hlt : r.owner < s.nObjs := by
        apply Nat.lt_of_not_le; intro hle
        have := hi.fresh _ hle; rw [ok.alive] at this; cases this
      have h1 : AlivePool (fireHead s r) := by
        intro j hj
        rw [hp]
        by_cases hjo : j = r.owner
        · subst hjo; rw [oa] at hj; exact h _ hj
        · rw [hobj j hjo] at hj; exact h j hj
      rw [fire_eq]
      exact ap_runScript _ _ (scriptOk_acts (hso _ hlt)) (fireHead_aux s r hi hv hx) h1

theorem init_ap : AlivePool init := fun j hj => by simp [init, State.obj] at hj

theorem exec_ap (s : State) (sts : List Step) (hpu : puSteps sts = true) (hi : Inv s) (hx : Aux s) (hso : SOk s)
    (h : AlivePool s) (s' : State) (he : exec s sts = some s') : AlivePool s' := by
  induction sts generalizing s with
  | nil => simp [exec] at he; exact he ▸ h
  | cons st sts ih =>
    simp only [puSteps, List.all_cons, Bool.and_eq_true] at hpu
    simp only [exec] at he
    split at he
    · rename_i hv
      exact ih _ hpu.2 (step_inv s st hi hv) (step_aux s st hi hv hx) (step_sok s st hpu.1 hi hv hso)
        (ap_step s st hpu.1 hi hx hso hv h) he
    · cases he

/-- `cleanup()` on a pool that owns every alive timer object leaves nothing: no live token, no alive object, an empty heap -/
theorem cleanup_fresh (s : State) (hi : Inv s) (hx : Aux s) (h : AlivePool s) :
    (Pool.cleanup s).pool = [] ∧ (∀ j, ((Pool.cleanup s).obj j).alive = false) ∧ (Pool.cleanup s).timers = [] := by
  obtain ⟨e1, _, _, e4, e5⟩ := cleanup_effect s
  have hdead : ∀ j, ((Pool.cleanup s).obj j).alive = false := by
    intro j
    by_cases hjp : j ∈ s.pool
    · exact e5 j hjp (hx.poolLt j hjp)
    · rw [e4 j hjp]
      cases ha : (s.obj j).alive with
      | false => rfl
      | true => exact absurd (h j ha) hjp
  refine ⟨e1, hdead, ?_⟩
  have hi' := pool_cleanup_inv s hi
  cases ht : (Pool.cleanup s).timers with
  | nil => rfl
  | cons r rs =>
    have := (hi'.recs r (by rw [ht]; exact List.mem_cons_self)).alive
    rw [hdead] at this; cases this

end Tbox.C02
