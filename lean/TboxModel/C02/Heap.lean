/-
C02 — the binary heap of `common_loop_timer.cpp`, as the code USES it.

`timer_min_heap_` is a `std::vector<Timer*>` kept heap-ordered by `std::push_heap / pop_heap /
make_heap` with `TimerCmp` (`x->expired > y->expired`: a min-heap on the deadline).  The vector is a
`List`, `push_back x` is `v ++ [x]`, `pop_back` is `dropLast`, `front()` is the head.  The three
algorithms are NOT fixed to one implementation: `HeapAlgs` is any triple of functions meeting the
contract the C++ standard gives them ([alg.heap.operations]):

  push_heap : [first,last-1) is a heap  ⇒  [first,last) is a heap, a permutation of the input
  pop_heap  : [first,last) is a non-empty heap ⇒ the old front is now at last-1 and [first,last-1)
              is a heap made of the other elements
  make_heap : the result is a heap, a permutation of the input

so every theorem below holds for libstdc++'s sift-up/sift-down as for any other conforming library,
and for every way such a library may break ties among equal deadlines.  `sortedAlgs` is a concrete
(executable) instance — a sorted vector is a binary heap — used by the driver and by the examples.
The four call patterns of the repo code are `add` (addTimer), `popFront` (repeat == 1 branch of
handleExpiredTimers), `repush` (its else branch) and `delete` (deleteTimer's zero-the-deadline +
make_heap + pop_heap + pop_back).
-/
namespace Tbox.C02.Heap

variable {α : Type}

/-- the binary-heap property of a vector w.r.t. `key` (min-heap: parent ≤ child) -/
def IsHeap (key : α → Nat) (l : List α) : Prop :=
  ∀ i, 0 < i → (h : i < l.length) → key (l[(i - 1) / 2]'(by omega)) ≤ key l[i]

/-- executable check of the same (driver self-check) -/
def isHeapB (key : α → Nat) (l : List α) : Bool :=
  match l with
  | [] => true
  | d :: _ => (List.range l.length).all fun i => i == 0 || decide (key (l.getD ((i - 1) / 2) d) ≤ key (l.getD i d))

/-- a heap's front is a minimum -/
theorem IsHeap.front_le {key : α → Nat} {x : α} {l : List α} (h : IsHeap key (x :: l)) :
    ∀ y ∈ x :: l, key x ≤ key y := by
  have key0 : ∀ n, ∀ i, i ≤ n → (hi : i < (x :: l).length) → key x ≤ key ((x :: l)[i]) := by
    intro n
    induction n with
    | zero => intro i hi0 hi; have : i = 0 := by omega
              subst this; exact Nat.le_refl _
    | succ n ih =>
      intro i hin hi
      by_cases h0 : i = 0
      · subst h0; exact Nat.le_refl _
      · have hp := h i (by omega) hi
        have := ih ((i - 1) / 2) (by omega) (by omega)
        exact Nat.le_trans this hp
  intro y hy
  obtain ⟨i, hi, rfl⟩ := List.getElem_of_mem hy
  exact key0 i i (Nat.le_refl _) hi

/-- a vector sorted by key is a heap -/
theorem isHeap_of_sorted {key : α → Nat} {l : List α} (h : l.Pairwise (fun a b => key a ≤ key b)) :
    IsHeap key l := by
  intro i hi0 hi
  rw [List.pairwise_iff_getElem] at h
  exact h ((i - 1) / 2) i (by omega) hi (by omega)

theorem isHeap_nil (key : α → Nat) : IsHeap key ([] : List α) := by
  intro i _ hi; simp at hi

/-- the standard's contract for the three heap algorithms -/
structure HeapAlgs (α : Type) (key : α → Nat) where
  pushHeap : List α → List α
  popHeap  : List α → List α
  makeHeap : List α → List α
  push_spec : ∀ (l : List α) (x : α), IsHeap key l →
      IsHeap key (pushHeap (l ++ [x])) ∧ (pushHeap (l ++ [x])).Perm (l ++ [x])
  pop_spec : ∀ (x : α) (l : List α), IsHeap key (x :: l) →
      ∃ l', popHeap (x :: l) = l' ++ [x] ∧ IsHeap key l' ∧ l'.Perm l
  make_spec : ∀ l : List α, IsHeap key (makeHeap l) ∧ (makeHeap l).Perm l

/-! ### a concrete instance: insertion sort (a sorted vector is a heap) -/

def ins (key : α → Nat) (x : α) : List α → List α
  | [] => [x]
  | y :: ys => if key x ≤ key y then x :: y :: ys else y :: ins key x ys

def isort (key : α → Nat) : List α → List α
  | [] => []
  | x :: xs => ins key x (isort key xs)

theorem ins_perm (key : α → Nat) (x : α) (l : List α) : (ins key x l).Perm (x :: l) := by
  induction l with
  | nil => exact List.Perm.refl _
  | cons y ys ih =>
    unfold ins
    split
    · exact List.Perm.refl _
    · exact (List.Perm.cons y ih).trans (List.Perm.swap x y ys)

theorem isort_perm (key : α → Nat) (l : List α) : (isort key l).Perm l := by
  induction l with
  | nil => exact List.Perm.refl _
  | cons x xs ih => exact (ins_perm key x _).trans (List.Perm.cons x ih)

theorem ins_sorted (key : α → Nat) (x : α) (l : List α) (h : l.Pairwise (fun a b => key a ≤ key b)) :
    (ins key x l).Pairwise (fun a b => key a ≤ key b) := by
  induction l with
  | nil => simp [ins]
  | cons y ys ih =>
    unfold ins
    rw [List.pairwise_cons] at h
    split
    · rename_i hlt
      rw [List.pairwise_cons]
      refine ⟨?_, List.pairwise_cons.2 h⟩
      intro z hz
      rcases List.mem_cons.1 hz with rfl | hz'
      · omega
      · have := h.1 z hz'; omega
    · rename_i hge
      rw [List.pairwise_cons]
      refine ⟨?_, ih h.2⟩
      intro z hz
      have := (ins_perm key x ys).mem_iff.1 hz
      rcases List.mem_cons.1 this with rfl | hz'
      · omega
      · exact h.1 z hz'

theorem isort_sorted (key : α → Nat) (l : List α) : (isort key l).Pairwise (fun a b => key a ≤ key b) := by
  induction l with
  | nil => simp [isort]
  | cons x xs ih => exact ins_sorted key x _ ih

def sortedAlgs (key : α → Nat) : HeapAlgs α key where
  pushHeap := isort key
  popHeap := fun v => match v with
    | [] => []
    | x :: l => isort key l ++ [x]
  makeHeap := isort key
  push_spec := fun _ _ _ => ⟨isHeap_of_sorted (isort_sorted key _), isort_perm key _⟩
  pop_spec := fun _ l _ => ⟨isort key l, rfl, isHeap_of_sorted (isort_sorted key _), isort_perm key _⟩
  make_spec := fun _ => ⟨isHeap_of_sorted (isort_sorted key _), isort_perm key _⟩

/-! ### the call patterns of common_loop_timer.cpp -/

variable {key : α → Nat}

/-- `addTimer`: `push_back(t); push_heap(begin, end, TimerCmp())` -/
def add (A : HeapAlgs α key) (v : List α) (x : α) : List α := A.pushHeap (v ++ [x])

/-- `handleExpiredTimers`, `repeat == 1`: `pop_heap; pop_back` -/
def popFront (A : HeapAlgs α key) (v : List α) : List α := (A.popHeap v).dropLast

/-- `handleExpiredTimers`, else branch: `pop_heap; t->expired += t->interval (…); push_heap`
(`f` is the update made through the pointer `t`, which now sits at the back) -/
def repush (A : HeapAlgs α key) (v : List α) (f : α → α) : List α :=
  let w := A.popHeap v
  match w.getLast? with
  | none => w
  | some t => A.pushHeap (w.dropLast ++ [f t])

/-- `deleteTimer` after the cabinet lookup: `timer->expired = 0` (through the pointer, wherever the
record sits in the vector: `p` recognises it, `zero` is the store), `make_heap; pop_heap; pop_back` -/
def delete (A : HeapAlgs α key) (v : List α) (p : α → Bool) (zero : α → α) : List α :=
  (A.popHeap (A.makeHeap (v.map fun x => if p x then zero x else x))).dropLast

theorem add_spec (A : HeapAlgs α key) (v : List α) (x : α) (h : IsHeap key v) :
    IsHeap key (add A v x) ∧ (add A v x).Perm (x :: v) := by
  obtain ⟨h1, h2⟩ := A.push_spec v x h
  exact ⟨h1, h2.trans (List.perm_append_comm)⟩

theorem popFront_spec (A : HeapAlgs α key) (x : α) (l : List α) (h : IsHeap key (x :: l)) :
    IsHeap key (popFront A (x :: l)) ∧ (popFront A (x :: l)).Perm l := by
  obtain ⟨l', e, h1, h2⟩ := A.pop_spec x l h
  simp only [popFront, e, List.dropLast_concat]
  exact ⟨h1, h2⟩

theorem repush_spec (A : HeapAlgs α key) (x : α) (l : List α) (f : α → α) (h : IsHeap key (x :: l)) :
    IsHeap key (repush A (x :: l) f) ∧ (repush A (x :: l) f).Perm (f x :: l) := by
  obtain ⟨l', e, h1, h2⟩ := A.pop_spec x l h
  simp only [repush, e, List.getLast?_concat, List.dropLast_concat]
  obtain ⟨h3, h4⟩ := A.push_spec l' (f x) h1
  exact ⟨h3, (h4.trans List.perm_append_comm).trans (List.Perm.cons _ h2)⟩

/-- mapping the store over the vector: the addressed record (the only one `p` recognises) is replaced -/
theorem map_zero_perm (v : List α) (p : α → Bool) (zero : α → α) (t : α) (hu : v.filter p = [t]) :
    (v.map fun x => if p x then zero x else x).Perm (zero t :: v.filter (fun x => !p x)) := by
  induction v with
  | nil => simp at hu
  | cons y ys ih =>
    by_cases hy : p y = true
    · simp only [List.filter_cons, hy, ↓reduceIte, List.cons.injEq] at hu
      obtain ⟨hyt, hu2⟩ := hu
      subst hyt
      have hnone : ∀ z ∈ ys, p z = false := by
        intro z hz
        cases hpz : p z with
        | false => rfl
        | true =>
          have : z ∈ ys.filter p := List.mem_filter.2 ⟨hz, hpz⟩
          rw [hu2] at this; cases this
      have e1 : (ys.map fun x => if p x then zero x else x) = ys := by
        rw [List.map_congr_left (g := id)]
        · simp
        · intro z hz; simp [hnone z hz]
      have e2 : ys.filter (fun x => !p x) = ys := by
        rw [List.filter_eq_self]; intro z hz; simp [hnone z hz]
      simp [hy, e1, e2]
    · have hy' : p y = false := by cases h : p y <;> simp_all
      simp only [List.filter_cons, hy', Bool.false_eq_true, ↓reduceIte] at hu
      simp only [List.map_cons, hy', Bool.false_eq_true, ↓reduceIte, List.filter_cons, Bool.not_false]
      exact (List.Perm.cons y (ih hu)).trans (List.Perm.swap _ _ _)

/-- **`deleteTimer` removes exactly the addressed record** — for every conforming heap library and
whatever the vector's order was — PROVIDED every other record has a deadline > 0: after the store the
addressed record is the only one with key 0, `make_heap` must put it in front, `pop_heap` moves it to
the back, `pop_back` drops it.  The result is again a heap. -/
theorem delete_spec (A : HeapAlgs α key) (v : List α) (p : α → Bool) (zero : α → α) (t : α)
    (hu : v.filter p = [t]) (hz : key (zero t) = 0) (hpos : ∀ y ∈ v, p y = false → 0 < key y) :
    IsHeap key (delete A v p zero) ∧ (delete A v p zero).Perm (v.filter fun x => !p x) := by
  have hw := map_zero_perm v p zero t hu
  obtain ⟨hm, hmp⟩ := A.make_spec (v.map fun x => if p x then zero x else x)
  have hperm := hmp.trans hw
  cases hmk : A.makeHeap (v.map fun x => if p x then zero x else x) with
  | nil => rw [hmk] at hperm; exact absurd hperm.length_eq (by simp)
  | cons hd rest =>
    rw [hmk] at hm hperm
    -- the front is a minimum, the zeroed record is in the vector: the front has key 0
    have hin : zero t ∈ hd :: rest := hperm.mem_iff.2 List.mem_cons_self
    have h0 : key hd = 0 := by have := hm.front_le (zero t) hin; omega
    -- … and the only record with key 0 is the zeroed one
    have hhd : hd = zero t := by
      have : hd ∈ zero t :: v.filter (fun x => !p x) := hperm.mem_iff.1 List.mem_cons_self
      rcases List.mem_cons.1 this with h | h
      · exact h
      · rw [List.mem_filter] at h
        have := hpos hd h.1 (by simpa using h.2)
        omega
    obtain ⟨l', e, h1, h2⟩ := A.pop_spec hd rest hm
    simp only [delete, hmk, e, List.dropLast_concat]
    refine ⟨h1, h2.trans ?_⟩
    rw [hhd] at hperm
    exact hperm.cons_inv

end Tbox.C02.Heap
