/-
C02 — model of the timer core of the event loop:
  modules/event/common_loop_timer.cpp  (addTimer / deleteTimer / handleExpiredTimers)
  modules/event/timer_event_impl.cpp   (TimerEventImpl: initialize/enable/disable/onEvent/dtor)

The min-heap is a list of records; *which* of several records with the same minimal
deadline is served first is left open (a `fire` step names the record), so the theorems
hold for every tie-break the C++ heap algorithms may take.  `deleteTimer` is modelled as
removal of the record with that token (the code zeroes the deadline, re-heapifies and pops
the minimum; with all live deadlines > 0 — the clock is > 0 — that is the same record;
std::make_heap/pop_heap are trusted).  Callbacks are scripts of API calls carried in the
object, so calls made from inside callbacks are ordinary model steps.
`base`/`k` are ghost fields (time of enablement, firings so far) used only by theorems.
-/
namespace Tbox.C02

structure Rec where
  tok      : Nat
  owner    : Nat
  expired  : Nat
  interval : Nat
  oneshot  : Bool
  base     : Nat := 0
  k        : Nat := 0
deriving Repr, DecidableEq

inductive Act where
  | init (j : Nat) (ms : Nat) (oneshot : Bool)
  | enable (j : Nat)
  | disable (j : Nat)
  | destroy (j : Nat)
deriving Repr, DecidableEq

structure Obj where
  alive    : Bool := true
  inited   : Bool := false
  enabled  : Bool := false
  oneshot  : Bool := false
  interval : Nat := 0
  token    : Option Nat := none
  script   : List Act := []
deriving Repr

/-- one callback invocation, as logged: object, the pass's `now`, ghost base / firing number /
interval of the record, whether the object was alive∧enabled when the callback was entered,
and the deadline served -/
structure Fired where
  obj : Nat
  passNow : Nat
  base : Nat
  n : Nat
  interval : Nat
  okAtCall : Bool
  deadline : Nat
  prevDeadline : Nat     -- deadline served just before in the same pass (0 at pass start)
  oneshot : Bool
deriving Repr, DecidableEq

structure State where
  now     : Nat := 1
  passNow : Option Nat := none     -- some t while handleExpiredTimers runs with `now == t`
  timers  : List Rec := []
  nextTok : Nat := 1
  objs    : Nat → Obj := fun _ => { alive := false }   -- object table (id → TimerEventImpl)
  nObjs   : Nat := 0
  log     : List Fired := []       -- newest first
  lastDeadline : Nat := 0          -- ghost: deadline served last in the running pass

def State.obj (s : State) (j : Nat) : Obj := s.objs j
def State.setObj (s : State) (j : Nat) (o : Obj) : State :=
  { s with objs := fun i => if i = j then o else s.objs i }

/-- `TimerEventImpl::disable` -/
def disable (s : State) (j : Nat) : State × Bool :=
  let o := s.obj j
  if !o.alive then (s, false)
  else if !o.inited then (s, false)
  else if !o.enabled then (s, true)
  else
    let timers := match o.token with
      | some t => s.timers.filter (fun r => r.tok != t)   -- CommonLoop::deleteTimer
      | none => s.timers
    ({ s with timers := timers }.setObj j { o with enabled := false }, true)

/-- `TimerEventImpl::initialize` -/
def initTimer (s : State) (j : Nat) (ms : Nat) (oneshot : Bool) : State × Bool :=
  if !(s.obj j).alive then (s, false) else
  let s1 := (disable s j).1
  let o := s1.obj j
  (s1.setObj j { o with interval := ms, oneshot := oneshot, inited := true }, true)

/-- `TimerEventImpl::enable` (→ `CommonLoop::addTimer`) -/
def enable (s : State) (j : Nat) : State × Bool :=
  let o := s.obj j
  if !o.alive then (s, false)
  else if !o.inited then (s, false)
  else if o.enabled then (s, true)
  else
    let r : Rec := { tok := s.nextTok, owner := j, expired := s.now + o.interval, interval := o.interval,
                     oneshot := o.oneshot, base := s.now, k := 0 }
    ({ s with timers := r :: s.timers, nextTok := s.nextTok + 1 }.setObj j
        { o with enabled := true, token := some s.nextTok }, true)

/-- `~TimerEventImpl` -/
def destroy (s : State) (j : Nat) : State × Bool :=
  if !(s.obj j).alive then (s, false) else
  let s1 := (disable s j).1
  (s1.setObj j { s1.obj j with alive := false }, true)

def act (s : State) : Act → State × Bool
  | .init j ms o => initTimer s j ms o
  | .enable j => enable s j
  | .disable j => disable s j
  | .destroy j => destroy s j

def runScript (s : State) : List Act → State
  | [] => s
  | a :: as => runScript (act s a).1 as

/-- `TimerEventImpl::onEvent`: one-shot marks itself disabled first, then the user callback -/
def onEvent (s : State) (j : Nat) : State :=
  let o := s.obj j
  let s1 := if o.oneshot then s.setObj j { o with enabled := false, token := none } else s
  runScript s1 o.script

/-- is record `r` the one `handleExpiredTimers` may serve now? due and of minimal deadline -/
def canFire (s : State) (r : Rec) : Bool :=
  match s.passNow with
  | none => false
  | some t => r ∈ s.timers && r.expired ≤ t && s.timers.all (fun q => r.expired ≤ q.expired)

/-- one iteration of the `handleExpiredTimers` loop serving record `r` -/
def fire (s : State) (r : Rec) : State :=
  let t := s.passNow.getD s.now
  let rest := s.timers.filter (fun q => q.tok != r.tok)
  let timers := if r.oneshot then rest          -- repeat == 1: pop, free token, free object
                else { r with expired := r.expired + r.interval, k := r.k + 1 } :: rest
  let o := s.obj r.owner
  let ev : Fired := { obj := r.owner, passNow := t, base := r.base, n := r.k + 1, interval := r.interval,
                      okAtCall := o.alive && o.enabled, deadline := r.expired,
                      prevDeadline := s.lastDeadline, oneshot := r.oneshot }
  onEvent { s with timers := timers, log := ev :: s.log, lastDeadline := r.expired } r.owner

inductive Step where
  | newObj (script : List Act)       -- loop->newTimerEvent() + setCallback(script)
  | api (a : Act)                    -- API call made outside any callback
  | advance (d : Nat)                -- the monotonic clock moves on
  | beginPass                        -- handleExpiredTimers reads the clock once
  | fire (tok : Nat)                 -- serves the record with this token
  | endPass                          -- loop condition `now < front.expired` (or empty heap)
deriving Repr

def findTok (s : State) (tok : Nat) : Option Rec := s.timers.find? (fun r => r.tok == tok)

def valid (s : State) : Step → Bool
  | .newObj _ => s.passNow.isNone
  | .api _ => s.passNow.isNone
  | .advance _ => true
  | .beginPass => s.passNow.isNone
  | .fire tok => match findTok s tok with
      | some r => canFire s r
      | none => false
  | .endPass => match s.passNow with
      | some t => s.timers.all (fun r => t < r.expired)
      | none => false

def step (s : State) : Step → State
  | .newObj sc => { s.setObj s.nObjs { script := sc } with nObjs := s.nObjs + 1 }
  | .api a => (act s a).1
  | .advance d => { s with now := s.now + d }
  | .beginPass => { s with passNow := some s.now, lastDeadline := 0 }
  | .fire tok => match findTok s tok with
      | some r => fire s r
      | none => s
  | .endPass => { s with passNow := none }

/-- run a step list; `none` as soon as a step is not enabled in the current state -/
def exec (s : State) : List Step → Option State
  | [] => some s
  | st :: sts => if valid s st then exec (step s st) sts else none

def init : State := {}

end Tbox.C02
