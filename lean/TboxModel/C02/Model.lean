/-
C02 — model of the timer core of the event loop:
  modules/event/common_loop_timer.cpp  (addTimer / deleteTimer / handleExpiredTimers)
  modules/event/timer_event_impl.cpp   (TimerEventImpl: initialize/enable/disable/onEvent/dtor)
  modules/eventx/timer_pool.cpp        (TimerPool: doEvery/doAfter/doAt/cancel/cleanup — section `Pool`)

The min-heap is a list of records; *which* of several records with the same minimal
deadline is served first is left open (a `fire` step names the record), so the theorems
hold for every tie-break the C++ heap algorithms may take.  `deleteTimer` is modelled as
removal of the record with that token (the code zeroes the deadline, re-heapifies and pops
the minimum; with all live deadlines > 0 — the clock is > 0 — that is the same record;
std::make_heap/pop_heap are trusted).  Callbacks are scripts of API calls carried in the
object, so calls made from inside callbacks are ordinary model steps.  A script may itself
create timers (`newObj`, `doAfter`, `doEvery` carry the script of the timer they create), so
`Act` is a nested inductive type.
`base`/`k` are ghost fields (time of enablement, firings so far) used only by theorems;
`killed` is a ghost list (pool tokens on which `cancel` returned true / that `cleanup` retired).
-/
namespace Tbox.C02

structure Rec where
  tok      : Nat
  owner    : Nat
  expired  : Nat
  interval : Nat
  oneshot  : Bool
  base     : Nat := 0
  k        : Nat := 0
deriving Repr, DecidableEq

inductive Act where
  | init (j : Nat) (ms : Nat) (oneshot : Bool)
  | enable (j : Nat)
  | disable (j : Nat)
  | destroy (j : Nat)
  | newObj (script : List Act)                 -- loop->newTimerEvent() + setCallback(script) from inside a callback
  | doAfter (ms : Nat) (script : List Act)     -- TimerPool::doAfter(ms, script)
  | doEvery (ms : Nat) (script : List Act)     -- TimerPool::doEvery(ms, script)
  | cancel (k : Nat)                           -- TimerPool::cancel(token k)
  | cleanup                                    -- TimerPool::cleanup()
  | pfree (k : Nat)                            -- tail of the doAfter wrapper: timers_.free(token); runNext(delete timer)

structure Obj where
  alive    : Bool := true
  inited   : Bool := false
  enabled  : Bool := false
  oneshot  : Bool := false
  interval : Nat := 0
  token    : Option Nat := none
  script   : List Act := []

/-- one callback invocation, as logged: object, the pass's `now`, ghost base / firing number /
interval of the record, whether the object was alive∧enabled when the callback was entered,
and the deadline served -/
structure Fired where
  obj : Nat
  passNow : Nat
  base : Nat
  n : Nat
  interval : Nat
  okAtCall : Bool
  deadline : Nat
  prevDeadline : Nat     -- deadline served just before in the same pass (0 at pass start)
  oneshot : Bool
deriving Repr, DecidableEq

structure State where
  now     : Nat := 1
  passNow : Option Nat := none     -- some t while handleExpiredTimers runs with `now == t`
  timers  : List Rec := []
  nextTok : Nat := 1
  objs    : Nat → Obj := fun _ => { alive := false }   -- object table (id → TimerEventImpl)
  nObjs   : Nat := 0
  log     : List Fired := []       -- newest first
  lastDeadline : Nat := 0          -- ghost: deadline served last in the running pass
  pool    : List Nat := []         -- TimerPool::Impl::timers_ : the live pool tokens (see section `Pool`)
  killed  : List Nat := []         -- ghost: pool tokens retired by cancel (returning true) / cleanup

def State.obj (s : State) (j : Nat) : Obj := s.objs j
def State.setObj (s : State) (j : Nat) (o : Obj) : State :=
  { s with objs := fun i => if i = j then o else s.objs i }

/-- `TimerEventImpl::disable` -/
def disable (s : State) (j : Nat) : State × Bool :=
  let o := s.obj j
  if !o.alive then (s, false)
  else if !o.inited then (s, false)
  else if !o.enabled then (s, true)
  else
    let timers := match o.token with
      | some t => s.timers.filter (fun r => r.tok != t)   -- CommonLoop::deleteTimer
      | none => s.timers
    ({ s with timers := timers }.setObj j { o with enabled := false }, true)

/-- `TimerEventImpl::initialize` (re-initialising an enabled timer disables it first) -/
def initTimer (s : State) (j : Nat) (ms : Nat) (oneshot : Bool) : State × Bool :=
  if !(s.obj j).alive then (s, false) else
  let s1 := (disable s j).1
  let o := s1.obj j
  (s1.setObj j { o with interval := ms, oneshot := oneshot, inited := true }, true)

/-- `TimerEventImpl::enable` (→ `CommonLoop::addTimer`) -/
def enable (s : State) (j : Nat) : State × Bool :=
  let o := s.obj j
  if !o.alive then (s, false)
  else if !o.inited then (s, false)
  else if o.enabled then (s, true)
  else
    let r : Rec := { tok := s.nextTok, owner := j, expired := s.now + o.interval, interval := o.interval,
                     oneshot := o.oneshot, base := s.now, k := 0 }
    ({ s with timers := r :: s.timers, nextTok := s.nextTok + 1 }.setObj j
        { o with enabled := true, token := some s.nextTok }, true)

/-- `~TimerEventImpl` (destruction while enabled disables first) -/
def destroy (s : State) (j : Nat) : State × Bool :=
  if !(s.obj j).alive then (s, false) else
  let s1 := (disable s j).1
  (s1.setObj j { s1.obj j with alive := false }, true)

/-- `loop->newTimerEvent()` + `setCallback(script)`: the new object gets the next serial -/
def newObjS (s : State) (sc : List Act) : State :=
  { s.setObj s.nObjs { script := sc } with nObjs := s.nObjs + 1 }

/-! ### TimerPool (eventx/timer_pool.cpp)

`TimerPool::Impl` = the loop + a cabinet `timers_` of TimerEvents.  The cabinet is rendered by its
contract as repaired (theorem `C08_cab_lookup` of the C08 package: a token resolves to the object
stored at its `alloc` until it is freed or the cabinet cleared, and to nothing ever after — tokens
are never reissued): the token of a pool timer IS the serial of its TimerEvent object (`nObjs` only
grows, so a serial is never handed out twice) and `State.pool` is the set of live tokens. -/
namespace Pool

/-- is `k` a live token of the cabinet (`timers_.at(k) != nullptr`)? -/
def live (s : State) (k : Nat) : Bool := s.pool.contains k

/-- common part of doEvery / doAfter: newTimerEvent, `timers_.alloc`, initialize, setCallback, enable;
returns the token -/
def add (s : State) (ms : Nat) (oneshot : Bool) (sc : List Act) : State × Nat :=
  let j := s.nObjs
  let s1 := newObjS s sc
  let s2 : State := { s1 with pool := j :: s1.pool }
  let s3 := (initTimer s2 j ms oneshot).1
  ((enable s3 j).1, j)

/-- `TimerPool::doEvery` -/
def doEvery (s : State) (ms : Nat) (sc : List Act) : State × Nat := add s ms false sc

/-- `TimerPool::doAfter`: the installed callback is `cb(); timers_.free(token); runNext(delete timer)` -/
def doAfter (s : State) (ms : Nat) (sc : List Act) : State × Nat := add s ms true (sc ++ [.pfree s.nObjs])

/-- `TimerPool::doAt(tp)` with the system clock reading `wall` (both in ms): `doAfter(tp − wall)`.
Only time points in the future are in the model (a non-positive difference reaches
`addTimer` as a huge unsigned interval; outside the property, d ≥ 1). -/
def doAt (s : State) (wall tp : Int) (sc : List Act) : Option (State × Nat) :=
  if 1 ≤ tp - wall then some (doAfter s (tp - wall).toNat sc) else none

/-- `TimerPool::cancel`: `timers_.free(token)`; if it was live: `timer->disable()` and delete the
TimerEvent (deferred through `run()` while the loop runs: nothing can reach the object in between,
its token is gone) -/
def cancel (s : State) (k : Nat) : State × Bool :=
  if live s k then
    let s1 : State := { s with pool := s.pool.filter (fun x => x != k), killed := k :: s.killed }
    let s2 := (disable s1 k).1
    ((destroy s2 k).1, true)
  else (s, false)

/-- `TimerPool::cleanup`: `timers_.foreach(disable + delete)`, `timers_.clear()` -/
def cleanup (s : State) : State :=
  let s1 := s.pool.foldl (fun st k => (destroy (disable st k).1 k).1) s
  { s1 with pool := [], killed := s.pool ++ s.killed }

/-- tail of the doAfter wrapper, run after the user callback: `timers_.free(token)` and delete -/
def free (s : State) (k : Nat) : State :=
  if live s k then (destroy { s with pool := s.pool.filter (fun x => x != k) } k).1 else s

end Pool

def act (s : State) : Act → State × Bool
  | .init j ms o => initTimer s j ms o
  | .enable j => enable s j
  | .disable j => disable s j
  | .destroy j => destroy s j
  | .newObj sc => (newObjS s sc, true)
  | .doAfter ms sc => ((Pool.doAfter s ms sc).1, true)
  | .doEvery ms sc => ((Pool.doEvery s ms sc).1, true)
  | .cancel k => Pool.cancel s k
  | .cleanup => (Pool.cleanup s, true)
  | .pfree k => (Pool.free s k, true)

def runScript (s : State) : List Act → State
  | [] => s
  | a :: as => runScript (act s a).1 as

/-- the same, also collecting the return value of every call (the driver compares them with the
implementation's) -/
def runScriptR (s : State) : List Act → State × List Bool
  | [] => (s, [])
  | a :: as =>
    let (s1, r) := act s a
    let (s2, rs) := runScriptR s1 as
    (s2, r :: rs)

/-- `TimerEventImpl::onEvent`: one-shot marks itself disabled first, then the user callback -/
def onEvent (s : State) (j : Nat) : State :=
  let o := s.obj j
  let s1 := if o.oneshot then s.setObj j { o with enabled := false, token := none } else s
  runScript s1 o.script

/-- is record `r` the one `handleExpiredTimers` may serve now? due and of minimal deadline -/
def canFire (s : State) (r : Rec) : Bool :=
  match s.passNow with
  | none => false
  | some t => r ∈ s.timers && r.expired ≤ t && s.timers.all (fun q => r.expired ≤ q.expired)

/-- one iteration of the `handleExpiredTimers` loop serving record `r` -/
def fire (s : State) (r : Rec) : State :=
  let t := s.passNow.getD s.now
  let rest := s.timers.filter (fun q => q.tok != r.tok)
  let timers := if r.oneshot then rest          -- repeat == 1: pop, free token, free object
                else { r with expired := r.expired + r.interval, k := r.k + 1 } :: rest
  let o := s.obj r.owner
  let ev : Fired := { obj := r.owner, passNow := t, base := r.base, n := r.k + 1, interval := r.interval,
                      okAtCall := o.alive && o.enabled, deadline := r.expired,
                      prevDeadline := s.lastDeadline, oneshot := r.oneshot }
  onEvent { s with timers := timers, log := ev :: s.log, lastDeadline := r.expired } r.owner

/-- the state in which the callback script of record `r` starts (timers re-armed/popped, event logged,
one-shot flag reset): `fire s r = runScript (fireHead s r) script` (theorem `fire_eq`) -/
def fireHead (s : State) (r : Rec) : State :=
  let t := s.passNow.getD s.now
  let rest := s.timers.filter (fun q => q.tok != r.tok)
  let timers := if r.oneshot then rest else { r with expired := r.expired + r.interval, k := r.k + 1 } :: rest
  let o := s.obj r.owner
  let ev : Fired := { obj := r.owner, passNow := t, base := r.base, n := r.k + 1, interval := r.interval,
                      okAtCall := o.alive && o.enabled, deadline := r.expired,
                      prevDeadline := s.lastDeadline, oneshot := r.oneshot }
  let s0 : State := { s with timers := timers, log := ev :: s.log, lastDeadline := r.expired }
  if o.oneshot then s0.setObj r.owner { o with enabled := false, token := none } else s0

/-- `fire` with the return values of the calls made by the callback (theorem `fireR_fst`: same state) -/
def fireR (s : State) (r : Rec) : State × List Bool := runScriptR (fireHead s r) (s.obj r.owner).script

inductive Step where
  | newObj (script : List Act)       -- loop->newTimerEvent() + setCallback(script)
  | api (a : Act)                    -- API call made outside any callback
  | advance (d : Nat)                -- the monotonic clock moves on
  | beginPass                        -- handleExpiredTimers reads the clock once
  | fire (tok : Nat)                 -- serves the record with this token
  | endPass                          -- loop condition `now < front.expired` (or empty heap)

def findTok (s : State) (tok : Nat) : Option Rec := s.timers.find? (fun r => r.tok == tok)

def valid (s : State) : Step → Bool
  | .newObj _ => s.passNow.isNone
  | .api _ => s.passNow.isNone
  | .advance _ => true
  | .beginPass => s.passNow.isNone
  | .fire tok => match findTok s tok with
      | some r => canFire s r
      | none => false
  | .endPass => match s.passNow with
      | some t => s.timers.all (fun r => t < r.expired)
      | none => false

def step (s : State) : Step → State
  | .newObj sc => newObjS s sc
  | .api a => (act s a).1
  | .advance d => { s with now := s.now + d }
  | .beginPass => { s with passNow := some s.now, lastDeadline := 0 }
  | .fire tok => match findTok s tok with
      | some r => fire s r
      | none => s
  | .endPass => { s with passNow := none }

/-- run a step list; `none` as soon as a step is not enabled in the current state -/
def exec (s : State) : List Step → Option State
  | [] => some s
  | st :: sts => if valid s st then exec (step s st) sts else none

def init : State := {}

/-! ### decidable predicates on scripts and step lists used as theorem hypotheses -/

mutual
/-- every interval mentioned by the act (also inside the scripts it carries) is ≥ 1 ms -/
def Act.pos : Act → Bool
  | .init _ ms _ => decide (1 ≤ ms)
  | .newObj sc => posList sc
  | .doAfter ms sc => decide (1 ≤ ms) && posList sc
  | .doEvery ms sc => decide (1 ≤ ms) && posList sc
  | _ => true
def posList : List Act → Bool
  | [] => true
  | a :: as => a.pos && posList as
end

mutual
/-- the act is a call a user of the TimerPool can make (also inside the callbacks it installs) -/
def Act.pu : Act → Bool
  | .doAfter _ sc => puList sc
  | .doEvery _ sc => puList sc
  | .cancel _ => true
  | .cleanup => true
  | _ => false
def puList : List Act → Bool
  | [] => true
  | a :: as => a.pu && puList as
end

def Step.pos : Step → Bool
  | .newObj sc => posList sc
  | .api a => a.pos
  | _ => true

/-- "all intervals are ≥ 1": every `init`/`doAfter`/`doEvery`, in API steps and in every callback script -/
def posSteps (sts : List Step) : Bool := sts.all Step.pos

def Step.pu : Step → Bool
  | .newObj _ => false
  | .api a => a.pu
  | _ => true

/-- the execution uses timers only through the TimerPool -/
def puSteps (sts : List Step) : Bool := sts.all Step.pu

end Tbox.C02
