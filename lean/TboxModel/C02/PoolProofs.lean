/- C02 — the TimerPool layer: per-timer invariant `PT` and its preservation by every TimerPool call
(made outside or inside callbacks) and by every loop iteration. -/
import TboxModel.C02.Dead
import TboxModel.C02.Catchup
namespace Tbox.C02

/-! ### what the primitives leave alone -/

theorem disable_pk (s : State) (j : Nat) : (disable s j).1.pool = s.pool ∧ (disable s j).1.killed = s.killed := by
  by_cases ha : (s.obj j).alive = true <;> by_cases hi : (s.obj j).inited = true <;>
    by_cases he : (s.obj j).enabled = true <;> simp_all [disable, State.obj, State.setObj]

theorem destroy_pk (s : State) (j : Nat) : (destroy s j).1.pool = s.pool ∧ (destroy s j).1.killed = s.killed := by
  simp only [destroy]
  split
  · exact ⟨rfl, rfl⟩
  · exact disable_pk s j

theorem destroy_obj_other (s : State) (j i : Nat) (hij : i ≠ j) : (destroy s j).1.obj i = s.obj i := by
  simp only [destroy]
  split
  · rfl
  · simp only [obj_setObj, hij, ↓reduceIte]; exact disable_obj_other s j i hij

theorem destroy_dead (s : State) (j : Nat) : ((destroy s j).1.obj j).alive = false := by
  simp only [destroy]
  split
  · rename_i h; simpa using h
  · simp

theorem killAll_quiet (l : List Nat) (s : State) : Quiet s (l.foldl (fun st k => (destroy (disable st k).1 k).1) s) := by
  have hq : ∀ s a, Quiet s (act s a).1 := act_quiet
  induction l generalizing s with
  | nil => exact ⟨rfl, Nat.le_refl _, fun _ _ h => h⟩
  | cons k l ih =>
    have h1 := hq s (.disable k)
    have h2 := hq (disable s k).1 (.destroy k)
    have h3 := ih (destroy (disable s k).1 k).1
    simp only [act] at h1 h2
    simp only [List.foldl]
    exact ⟨h3.1.trans (h2.1.trans h1.1), Nat.le_trans h1.2.1 (Nat.le_trans h2.2.1 h3.2.1),
      fun j hj hd => h3.2.2 j (Nat.lt_of_lt_of_le hj (Nat.le_trans h1.2.1 h2.2.1))
        (h2.2.2 j (Nat.lt_of_lt_of_le hj h1.2.1) (h1.2.2 j hj hd))⟩

theorem killAll_other (l : List Nat) (s : State) (i : Nat) (hi : i ∉ l) :
    (l.foldl (fun st k => (destroy (disable st k).1 k).1) s).obj i = s.obj i := by
  induction l generalizing s with
  | nil => rfl
  | cons k l ih =>
    simp only [List.mem_cons, not_or] at hi
    simp only [List.foldl]
    rw [ih _ hi.2, destroy_obj_other _ k i hi.1, disable_obj_other s k i hi.1]

theorem killAll_pk (l : List Nat) (s : State) :
    (l.foldl (fun st k => (destroy (disable st k).1 k).1) s).pool = s.pool ∧
    (l.foldl (fun st k => (destroy (disable st k).1 k).1) s).killed = s.killed := by
  induction l generalizing s with
  | nil => exact ⟨rfl, rfl⟩
  | cons k l ih =>
    simp only [List.foldl]
    obtain ⟨h1, h2⟩ := ih (destroy (disable s k).1 k).1
    rw [h1, h2, (destroy_pk _ k).1, (destroy_pk _ k).2, (disable_pk s k).1, (disable_pk s k).2]
    exact ⟨rfl, rfl⟩

theorem killAll_dead (l : List Nat) (s : State) (i : Nat) (hi : i ∈ l) (hlt : i < s.nObjs) :
    ((l.foldl (fun st k => (destroy (disable st k).1 k).1) s).obj i).alive = false := by
  induction l generalizing s with
  | nil => cases hi
  | cons k l ih =>
    simp only [List.foldl]
    have hq1 := act_quiet s (.disable k)
    have hq2 := act_quiet (disable s k).1 (.destroy k)
    simp only [act] at hq1 hq2
    have hlt' : i < (destroy (disable s k).1 k).1.nObjs := Nat.lt_of_lt_of_le hlt (Nat.le_trans hq1.2.1 hq2.2.1)
    by_cases hik : i = k
    · subst hik
      have hd := destroy_dead (disable s i).1 i
      exact (killAll_quiet l _).2.2 i hlt' hd
    · rcases List.mem_cons.1 hi with h | h
      · exact absurd h hik
      · exact ih _ h hlt'

/-! ### effect of the TimerPool calls -/

theorem add_other (s : State) (ms : Nat) (os : Bool) (sc : List Act) (i : Nat) (hi : i ≠ s.nObjs) :
    (Pool.add s ms os sc).1.obj i = s.obj i := by
  simp [Pool.add, newObjS, initTimer, disable, enable, State.obj, State.setObj, hi]

theorem add_pk (s : State) (ms : Nat) (os : Bool) (sc : List Act) :
    (Pool.add s ms os sc).1.pool = s.nObjs :: s.pool ∧ (Pool.add s ms os sc).1.killed = s.killed ∧
    (Pool.add s ms os sc).1.nObjs = s.nObjs + 1 ∧ (Pool.add s ms os sc).1.log = s.log := by
  simp [Pool.add, newObjS, initTimer, disable, enable, State.obj, State.setObj]

theorem add_new (s : State) (ms : Nat) (os : Bool) (sc : List Act) (h : Inv s) :
    let s' := (Pool.add s ms os sc).1
    (s'.obj s.nObjs).alive = true ∧ (s'.obj s.nObjs).enabled = true ∧ (s'.obj s.nObjs).oneshot = os ∧
    (s'.obj s.nObjs).interval = ms ∧ (s'.obj s.nObjs).script = sc ∧
    ∀ r ∈ s'.timers, r.owner = s.nObjs → r.base = s.now ∧ r.k = 0 := by
  have hd : (s.obj s.nObjs).alive = false := h.fresh _ (Nat.le_refl _)
  refine ⟨?_, ?_, ?_, ?_, ?_, ?_⟩
  · simp [Pool.add, newObjS, initTimer, disable, enable, State.obj, State.setObj]
  · simp [Pool.add, newObjS, initTimer, disable, enable, State.obj, State.setObj]
  · simp [Pool.add, newObjS, initTimer, disable, enable, State.obj, State.setObj]
  · simp [Pool.add, newObjS, initTimer, disable, enable, State.obj, State.setObj]
  · simp [Pool.add, newObjS, initTimer, disable, enable, State.obj, State.setObj]
  · intro r hr ho
    have hr' : r = ⟨s.nextTok, s.nObjs, s.now + ms, ms, os, s.now, 0⟩ ∨ r ∈ s.timers := by
      simpa [Pool.add, newObjS, initTimer, disable, enable, State.obj, State.setObj] using hr
    rcases hr' with rfl | hr'
    · exact ⟨rfl, rfl⟩
    · have := (h.recs r hr').alive; rw [ho, hd] at this; cases this

/-! ### the per-timer invariant -/

/-- firing numbers of the callbacks of object `j` in the log, newest first -/
def nums (l : List Fired) (j : Nat) : List Nat := (l.filter (fun e => e.obj == j)).map (·.n)

/-- `[c, c-1, …, 1]` -/
def down : Nat → List Nat
  | 0 => []
  | n + 1 => (n + 1) :: down n

inductive Phase where
  | armed      -- token live, TimerEvent enabled
  | running    -- a doAfter timer inside its own callback (one-shot: already disabled, token still live)
  | done       -- token retired, TimerEvent deleted
deriving DecidableEq

def Phase.next (a b : Phase) : Prop := b = a ∨ b = .done

theorem Phase.next_refl (a : Phase) : a.next a := Or.inl rfl
theorem Phase.next_trans {a b c : Phase} (h1 : a.next b) (h2 : b.next c) : a.next c := by
  rcases h1 with rfl | rfl <;> rcases h2 with rfl | rfl <;> simp [Phase.next]

/-- facts that hold in every execution -/
structure Aux (s : State) : Prop where
  logLt : ∀ e ∈ s.log, e.obj < s.nObjs
  poolLt : ∀ k ∈ s.pool, k < s.nObjs

/-- shape of the callbacks the TimerPool installs: the user's (TimerPool calls only), for doAfter
followed by the wrapper's tail -/
def ScriptOk (i : Nat) (sc : List Act) : Prop := puList sc = true ∨ ∃ u, puList u = true ∧ sc = u ++ [.pfree i]

def SOk (s : State) : Prop := ∀ i, i < s.nObjs → ScriptOk i (s.obj i).script

def PhaseOk (j t d : Nat) (os : Bool) (s : State) : Phase → Prop
  | .armed => j ∈ s.pool ∧ (s.obj j).alive = true ∧ (s.obj j).enabled = true ∧ (s.obj j).oneshot = os ∧
      (s.obj j).interval = d ∧ ∀ r ∈ s.timers, r.owner = j → r.base = t ∧ nums s.log j = down r.k
  | .running => os = true ∧ j ∈ s.pool ∧ (s.obj j).alive = true ∧ (s.obj j).enabled = false ∧ nums s.log j = [1]
  | .done => j ∉ s.pool ∧ (s.obj j).alive = false ∧ (∃ c, nums s.log j = down c) ∧
      (os = true → nums s.log j = [1] ∨ (nums s.log j = [] ∧ j ∈ s.killed))

/-- the TimerPool timer with token `j`, created at clock reading `t` with delay/period `d` -/
structure PT (j t d : Nat) (os : Bool) (ph : Phase) (s : State) : Prop where
  lt : j < s.nObjs
  entries : ∀ e ∈ s.log, e.obj = j → e.base = t ∧ e.interval = d ∧ e.oneshot = os
  script : if os = true then ∃ u, puList u = true ∧ (s.obj j).script = u ++ [.pfree j]
           else puList (s.obj j).script = true
  phase : PhaseOk j t d os s ph

/-- `s'` differs from `s` in nothing that concerns timer `j` -/
structure Frame (j : Nat) (s s' : State) : Prop where
  obj : s'.obj j = s.obj j
  nums : nums s'.log j = nums s.log j
  entries : ∀ e ∈ s'.log, e.obj = j → e ∈ s.log
  nObjs : s.nObjs ≤ s'.nObjs
  pool : j ∈ s'.pool ↔ j ∈ s.pool
  killed : j ∈ s.killed → j ∈ s'.killed
  recs : ∀ q ∈ s'.timers, q.owner = j → q ∈ s.timers

theorem PT_frame {j t d : Nat} {os : Bool} {ph : Phase} {s s' : State} (h : PT j t d os ph s) (f : Frame j s s') :
    PT j t d os ph s' := by
  refine ⟨Nat.lt_of_lt_of_le h.lt f.nObjs, fun e he ho => h.entries e (f.entries e he ho) ho, ?_, ?_⟩
  · rw [f.obj]; exact h.script
  · have hp := h.phase
    cases ph with
    | armed =>
      simp only [PhaseOk] at hp ⊢
      rw [f.obj, f.nums, f.pool]
      exact ⟨hp.1, hp.2.1, hp.2.2.1, hp.2.2.2.1, hp.2.2.2.2.1, fun r hr ho => hp.2.2.2.2.2 r (f.recs r hr ho) ho⟩
    | running =>
      simp only [PhaseOk] at hp ⊢
      rw [f.obj, f.nums, f.pool]
      exact hp
    | done =>
      simp only [PhaseOk] at hp ⊢
      rw [f.obj, f.nums, f.pool]
      refine ⟨hp.1, hp.2.1, hp.2.2.1, ?_⟩
      intro ho
      rcases hp.2.2.2 ho with h1 | h1
      · exact Or.inl h1
      · exact Or.inr ⟨h1.1, f.killed h1.2⟩

/-- records of `j` after a call that leaves object `j` alone are records of `j` before -/
theorem recs_of_ev {j : Nat} {s s' : State} (hi : Inv s) (hi' : Inv s') (hev : Ev s s') (ho : s'.obj j = s.obj j) :
    ∀ q ∈ s'.timers, q.owner = j → q ∈ s.timers := by
  intro q hq hqo
  rcases hev.2 q hq with h | h
  · exact h
  · exfalso
    have ok' := hi'.recs q hq
    have a1 := ok'.alive; have a2 := ok'.enabled; have e2 := ok'.token
    rw [hqo, ho] at a1 a2 e2
    obtain ⟨r, hr, hro⟩ := hi.hasRec j a1 a2
    have ok := hi.recs r hr
    have e1 := ok.token
    rw [hro] at e1
    rw [e1] at e2
    have : r.tok = q.tok := Option.some.inj e2
    have := ok.tokLt
    omega

/-- frame for a call of the model -/
theorem frame_of_act {j : Nat} {s : State} (a : Act) (hi : Inv s) (ho : (act s a).1.obj j = s.obj j)
    (hp : j ∈ (act s a).1.pool ↔ j ∈ s.pool) (hk : j ∈ s.killed → j ∈ (act s a).1.killed) : Frame j s (act s a).1 := by
  have hq := act_quiet s a
  exact ⟨ho, by rw [hq.1], fun e he _ => by rw [hq.1] at he; exact he, hq.2.1, hp, hk,
    recs_of_ev hi (act_inv s a hi) (act_ev s a) ho⟩

theorem destroy_script (s : State) (j i : Nat) : ((destroy s j).1.obj i).script = (s.obj i).script := by
  simp only [destroy]
  split
  · rfl
  · by_cases hij : i = j
    · subst hij; simp only [obj_setObj, ↓reduceIte]; exact (disable_obj_same s i i).2.2
    · simp only [obj_setObj, hij, ↓reduceIte]; exact (disable_obj_same s j i).2.2

theorem killAll_script (l : List Nat) (s : State) (i : Nat) :
    ((l.foldl (fun st k => (destroy (disable st k).1 k).1) s).obj i).script = (s.obj i).script := by
  induction l generalizing s with
  | nil => rfl
  | cons k l ih =>
    simp only [List.foldl]
    rw [ih, destroy_script, (disable_obj_same s k i).2.2]

theorem mem_filter_ne {l : List Nat} {j k : Nat} : j ∈ l.filter (fun x => x != k) ↔ j ∈ l ∧ j ≠ k := by
  simp [List.mem_filter]

theorem cancel_effect (s : State) (k : Nat) (hl : Pool.live s k = true) :
    ((Pool.cancel s k).1.obj k).alive = false ∧ ((Pool.cancel s k).1.obj k).script = (s.obj k).script ∧
    (Pool.cancel s k).1.pool = s.pool.filter (fun x => x != k) ∧ (Pool.cancel s k).1.killed = k :: s.killed ∧
    ∀ i, i ≠ k → (Pool.cancel s k).1.obj i = s.obj i := by
  simp only [Pool.cancel, hl, ↓reduceIte]
  refine ⟨destroy_dead _ k, ?_, ?_, ?_, ?_⟩
  · rw [destroy_script, (disable_obj_same _ k k).2.2]; rfl
  · rw [(destroy_pk _ k).1, (disable_pk _ k).1]
  · rw [(destroy_pk _ k).2, (disable_pk _ k).2]
  · intro i hi; rw [destroy_obj_other _ k i hi, disable_obj_other _ k i hi]; rfl

theorem free_effect (s : State) (k : Nat) (hl : Pool.live s k = true) :
    ((Pool.free s k).obj k).alive = false ∧ ((Pool.free s k).obj k).script = (s.obj k).script ∧
    (Pool.free s k).pool = s.pool.filter (fun x => x != k) ∧ (Pool.free s k).killed = s.killed ∧
    ∀ i, i ≠ k → (Pool.free s k).obj i = s.obj i := by
  simp only [Pool.free, hl, ↓reduceIte]
  refine ⟨destroy_dead _ k, ?_, ?_, ?_, ?_⟩
  · rw [destroy_script]; rfl
  · rw [(destroy_pk _ k).1]
  · rw [(destroy_pk _ k).2]
  · intro i hi; rw [destroy_obj_other _ k i hi]; rfl

theorem cleanup_effect (s : State) :
    (Pool.cleanup s).pool = [] ∧ (Pool.cleanup s).killed = s.pool ++ s.killed ∧
    (∀ i, ((Pool.cleanup s).obj i).script = (s.obj i).script) ∧
    (∀ i, i ∉ s.pool → (Pool.cleanup s).obj i = s.obj i) ∧
    (∀ i, i ∈ s.pool → i < s.nObjs → ((Pool.cleanup s).obj i).alive = false) := by
  simp only [Pool.cleanup]
  exact ⟨trivial, trivial, fun i => killAll_script s.pool s i, fun i hi => killAll_other s.pool s i hi,
    fun i hi hlt => killAll_dead s.pool s i hi hlt⟩

theorem nums_down_armed {j t d : Nat} {os : Bool} {s : State} (hi : Inv s) (h : PhaseOk j t d os s .armed) :
    (∃ c, nums s.log j = down c) ∧ (os = true → nums s.log j = []) := by
  simp only [PhaseOk] at h
  obtain ⟨r, hr, hro⟩ := hi.hasRec j h.2.1 h.2.2.1
  have hn := (h.2.2.2.2.2 r hr hro).2
  refine ⟨⟨r.k, hn⟩, ?_⟩
  intro ho
  have ok := hi.recs r hr
  have : r.oneshot = true := by rw [← ok.oneshot, hro, h.2.2.2.1]; exact ho
  rw [hn, ok.once this]; rfl

/-- token `j` is retired (cancel, cleanup, or the doAfter wrapper's tail) -/
theorem retire {j t d : Nat} {os : Bool} {ph : Phase} {s s' : State} (hi : Inv s) (h : PT j t d os ph s)
    (hph : ph ≠ .done) (hsc : (s'.obj j).script = (s.obj j).script) (hdead : (s'.obj j).alive = false)
    (hlog : s'.log = s.log) (hn : s.nObjs ≤ s'.nObjs) (hpool : j ∉ s'.pool) (hk : ph = .armed → j ∈ s'.killed) :
    PT j t d os .done s' := by
  refine ⟨Nat.lt_of_lt_of_le h.lt hn, by rw [hlog]; exact h.entries, by rw [hsc]; exact h.script, ?_⟩
  have hp := h.phase
  simp only [PhaseOk]
  rw [hlog]
  cases ph with
  | armed =>
    obtain ⟨h1, h2⟩ := nums_down_armed hi hp
    exact ⟨hpool, hdead, h1, fun ho => Or.inr ⟨h2 ho, hk rfl⟩⟩
  | running =>
    simp only [PhaseOk] at hp
    exact ⟨hpool, hdead, ⟨1, hp.2.2.2.2⟩, fun _ => Or.inl hp.2.2.2.2⟩
  | done => exact absurd rfl hph

theorem live_iff (s : State) (k : Nat) : Pool.live s k = true ↔ k ∈ s.pool := by
  simp [Pool.live]

theorem not_done_of_live {j t d : Nat} {os : Bool} {ph : Phase} {s : State} (h : PT j t d os ph s) (hl : j ∈ s.pool) :
    ph ≠ .done := by
  intro e; subst e
  have := h.phase; simp only [PhaseOk] at this; exact this.1 hl

/-- every call a TimerPool user can make, and the wrapper tail of another timer, keeps `PT j`;
the phase stays or becomes `done` -/
theorem act_PT {j t d : Nat} {os : Bool} {ph : Phase} {s : State} (a : Act)
    (ha : a.pu = true ∨ ∃ i, i ≠ j ∧ a = .pfree i) (hi : Inv s) (h : PT j t d os ph s) :
    ∃ ph', ph.next ph' ∧ PT j t d os ph' (act s a).1 := by
  have hjn : j ≠ s.nObjs := Nat.ne_of_lt h.lt
  have hq := act_quiet s a
  -- the three kinds of call that do not concern `j`
  have hadd : ∀ ms os' sc, a = .doAfter ms sc ∨ a = .doEvery ms sc →
      (act s a).1 = (Pool.add s ms os' (if os' then sc ++ [.pfree s.nObjs] else sc)).1 →
      ∃ ph', ph.next ph' ∧ PT j t d os ph' (act s a).1 := by
    intro ms os' sc _ e
    refine ⟨ph, Phase.next_refl _, PT_frame h (frame_of_act a hi ?_ ?_ ?_)⟩
    · rw [e]; exact add_other s ms os' _ j hjn
    · rw [e, (add_pk s ms os' _).1]; simp [hjn]
    · rw [e, (add_pk s ms os' _).2.1]; exact fun x => x
  cases a with
  | init _ _ _ => rcases ha with ha | ⟨_, _, ha⟩ <;> simp [Act.pu] at ha
  | enable _ => rcases ha with ha | ⟨_, _, ha⟩ <;> simp [Act.pu] at ha
  | disable _ => rcases ha with ha | ⟨_, _, ha⟩ <;> simp [Act.pu] at ha
  | destroy _ => rcases ha with ha | ⟨_, _, ha⟩ <;> simp [Act.pu] at ha
  | newObj _ => rcases ha with ha | ⟨_, _, ha⟩ <;> simp [Act.pu] at ha
  | doAfter ms sc => exact hadd ms true sc (Or.inl rfl) rfl
  | doEvery ms sc => exact hadd ms false sc (Or.inr rfl) rfl
  | cancel k =>
    by_cases hl : Pool.live s k = true
    · obtain ⟨e1, e2, e3, e4, e5⟩ := cancel_effect s k hl
      by_cases hkj : k = j
      · subst hkj
        refine ⟨.done, Or.inr rfl, retire hi h (not_done_of_live h ((live_iff s k).1 hl)) e2 e1 hq.1 hq.2.1 ?_ ?_⟩
        · show k ∉ (Pool.cancel s k).1.pool
          rw [e3, mem_filter_ne]; exact fun x => x.2 rfl
        · intro _; show k ∈ (Pool.cancel s k).1.killed; rw [e4]; exact List.mem_cons_self
      · refine ⟨ph, Phase.next_refl _, PT_frame h (frame_of_act _ hi ?_ ?_ ?_)⟩
        · exact e5 j (fun x => hkj x.symm)
        · show j ∈ (Pool.cancel s k).1.pool ↔ _
          rw [e3, mem_filter_ne]; exact ⟨fun x => x.1, fun x => ⟨x, fun y => hkj y.symm⟩⟩
        · intro x; show j ∈ (Pool.cancel s k).1.killed; rw [e4]; exact List.mem_cons_of_mem _ x
    · have : act s (.cancel k) = (s, false) := by simp only [act, Pool.cancel, hl]; rfl
      rw [this]; exact ⟨ph, Phase.next_refl _, h⟩
  | cleanup =>
    obtain ⟨e1, e2, e3, e4, e5⟩ := cleanup_effect s
    by_cases hjp : j ∈ s.pool
    · refine ⟨.done, Or.inr rfl, retire hi h (not_done_of_live h hjp) (e3 j) (e5 j hjp h.lt) hq.1 hq.2.1 ?_ ?_⟩
      · show j ∉ (Pool.cleanup s).pool; rw [e1]; simp
      · intro _; show j ∈ (Pool.cleanup s).killed; rw [e2]; exact List.mem_append_left _ hjp
    · refine ⟨ph, Phase.next_refl _, PT_frame h (frame_of_act _ hi (e4 j hjp) ?_ ?_)⟩
      · show j ∈ (Pool.cleanup s).pool ↔ _; rw [e1]; simp [hjp]
      · intro x; show j ∈ (Pool.cleanup s).killed; rw [e2]; exact List.mem_append_right _ x
  | pfree k =>
    have hkj : k ≠ j := by
      rcases ha with ha | ⟨i, hij, ha⟩
      · simp [Act.pu] at ha
      · cases ha; exact hij
    by_cases hl : Pool.live s k = true
    · obtain ⟨e1, e2, e3, e4, e5⟩ := free_effect s k hl
      refine ⟨ph, Phase.next_refl _, PT_frame h (frame_of_act _ hi ?_ ?_ ?_)⟩
      · exact e5 j (fun x => hkj x.symm)
      · show j ∈ (Pool.free s k).pool ↔ _
        rw [e3, mem_filter_ne]; exact ⟨fun x => x.1, fun x => ⟨x, fun y => hkj y.symm⟩⟩
      · intro x; show j ∈ (Pool.free s k).killed; rw [e4]; exact x
    · have : act s (.pfree k) = (s, true) := by simp only [act, Pool.free, hl]; rfl
      rw [this]; exact ⟨ph, Phase.next_refl _, h⟩

/-- the tail of `j`'s own doAfter wrapper -/
theorem pfree_self_PT {j t d : Nat} {os : Bool} {ph : Phase} {s : State} (hi : Inv s) (h : PT j t d os ph s)
    (hph : ph ≠ .armed) : PT j t d os .done (act s (.pfree j)).1 := by
  have hq := act_quiet s (.pfree j)
  by_cases hl : Pool.live s j = true
  · obtain ⟨e1, e2, e3, e4, e5⟩ := free_effect s j hl
    refine retire hi h (not_done_of_live h ((live_iff s j).1 hl)) e2 e1 hq.1 hq.2.1 ?_ (fun e => absurd e hph)
    show j ∉ (Pool.free s j).pool
    rw [e3, mem_filter_ne]; exact fun x => x.2 rfl
  · have : act s (.pfree j) = (s, true) := by simp only [act, Pool.free, hl]; rfl
    rw [this]
    cases ph with
    | armed => exact absurd rfl hph
    | running =>
      have := h.phase; simp only [PhaseOk] at this
      exact absurd ((live_iff s j).2 this.2.1) hl
    | done => exact h

/-- a user callback (TimerPool calls only) -/
theorem runScript_PT {j t d : Nat} {os : Bool} {ph : Phase} {s : State} (u : List Act) (hu : puList u = true)
    (hi : Inv s) (h : PT j t d os ph s) : ∃ ph', ph.next ph' ∧ PT j t d os ph' (runScript s u) := by
  induction u generalizing s ph with
  | nil => exact ⟨ph, Phase.next_refl _, h⟩
  | cons a u ih =>
    simp only [puList, Bool.and_eq_true] at hu
    obtain ⟨p1, n1, h1⟩ := act_PT a (Or.inl hu.1) hi h
    obtain ⟨p2, n2, h2⟩ := ih hu.2 (act_inv s a hi) h1
    exact ⟨p2, Phase.next_trans n1 n2, h2⟩

/-- the installed callback of another pool timer `i` -/
theorem runScript_other_PT {j t d i : Nat} {os : Bool} {ph : Phase} {s : State} (sc : List Act) (hsc : ScriptOk i sc)
    (hij : i ≠ j) (hi : Inv s) (h : PT j t d os ph s) : ∃ ph', ph.next ph' ∧ PT j t d os ph' (runScript s sc) := by
  rcases hsc with hu | ⟨u, hu, rfl⟩
  · exact runScript_PT sc hu hi h
  · rw [runScript_append]
    obtain ⟨p1, n1, h1⟩ := runScript_PT u hu hi h
    obtain ⟨p2, n2, h2⟩ := act_PT (.pfree i) (Or.inr ⟨i, hij, rfl⟩) (runScript_inv s u hi) h1
    exact ⟨p2, Phase.next_trans n1 n2, h2⟩

/-! ### one loop iteration -/

theorem fireHead_log (s : State) (r : Rec) :
    ∃ ev : Fired, (fireHead s r).log = ev :: s.log ∧ ev.obj = r.owner ∧ ev.base = r.base ∧ ev.n = r.k + 1 ∧
      ev.interval = r.interval ∧ ev.oneshot = r.oneshot := by
  unfold fireHead
  simp only
  split <;> exact ⟨_, rfl, rfl, rfl, rfl, rfl, rfl⟩

theorem fireHead_pk (s : State) (r : Rec) : (fireHead s r).pool = s.pool ∧ (fireHead s r).killed = s.killed ∧
    (fireHead s r).nObjs = s.nObjs := by
  unfold fireHead
  simp only
  split <;> exact ⟨rfl, rfl, rfl⟩

theorem fireHead_owner (s : State) (r : Rec) :
    ((fireHead s r).obj r.owner).alive = (s.obj r.owner).alive ∧
    ((fireHead s r).obj r.owner).script = (s.obj r.owner).script ∧
    ((fireHead s r).obj r.owner).oneshot = (s.obj r.owner).oneshot ∧
    ((fireHead s r).obj r.owner).interval = (s.obj r.owner).interval ∧
    ((fireHead s r).obj r.owner).enabled = (!(s.obj r.owner).oneshot && (s.obj r.owner).enabled) := by
  unfold fireHead
  simp only
  split
  · rename_i h; simp [h]
  · rename_i h; simp only [Bool.not_eq_true, State.obj] at h ⊢; simp [h]

theorem nums_cons (e : Fired) (l : List Fired) (j : Nat) :
    nums (e :: l) j = if e.obj = j then e.n :: nums l j else nums l j := by
  simp only [nums, List.filter]
  by_cases h : e.obj = j
  · simp [h]
  · have : (e.obj == j) = false := by simp [h]
    simp [this, h]

theorem fire_PT {j t d : Nat} {os : Bool} {ph : Phase} {s : State} (r : Rec) (hi : Inv s) (hso : SOk s)
    (hc : canFire s r = true) (h : PT j t d os ph s) (hph : ph ≠ .running) :
    ∃ ph', ph' ≠ .running ∧ PT j t d os ph' (fire s r) := by
  obtain ⟨t', hpn, hr, hdue, _⟩ := canFire_spec hc
  have ok := hi.recs r hr
  have hih := fireHead_inv s r hi hc
  obtain ⟨hnO, _, hobj⟩ := fireHead_facts s r
  obtain ⟨hpool, hkilled, _⟩ := fireHead_pk s r
  obtain ⟨_, _, _, htim⟩ := fireHead_fields s r
  obtain ⟨ev, hlog, ev1, ev2, ev3, ev4, ev5⟩ := fireHead_log s r
  have holt : r.owner < s.nObjs := by
    apply Classical.byContradiction; intro hge
    have := hi.fresh r.owner (by omega); rw [ok.alive] at this; cases this
  rw [fire_eq]
  by_cases hoj : r.owner = j
  · -- `j` itself is served
    have hpa : ph = .armed := by
      cases ph with
      | armed => rfl
      | running => exact absurd rfl hph
      | done => have := h.phase; simp only [PhaseOk] at this; rw [← hoj, ok.alive] at this; cases this.2.1
    subst hpa
    have hp := h.phase
    simp only [PhaseOk] at hp
    obtain ⟨hp1, hp2, hp3, hp4, hp5, hp6⟩ := hp
    obtain ⟨hbase, hnum⟩ := hp6 r hr hoj
    have hrd : r.interval = d := by rw [← ok.interval, hoj]; exact hp5
    have hros : r.oneshot = os := by rw [← ok.oneshot, hoj]; exact hp4
    obtain ⟨f1, f2, f3, f4, f5⟩ := fireHead_owner s r
    rw [hoj] at f1 f2 f3 f4 f5
    have hnums : nums (fireHead s r).log j = (r.k + 1) :: down r.k := by
      rw [hlog, nums_cons, ev1, ev3]; simp only [hoj, ↓reduceIte]; rw [hnum]
    have hent : ∀ e ∈ (fireHead s r).log, e.obj = j → e.base = t ∧ e.interval = d ∧ e.oneshot = os := by
      intro e he heo
      rw [hlog] at he
      rcases List.mem_cons.1 he with rfl | he
      · exact ⟨ev2.trans hbase, ev4.trans hrd, ev5.trans hros⟩
      · exact h.entries e he heo
    have hscr : (if os = true then ∃ u, puList u = true ∧ ((fireHead s r).obj j).script = u ++ [.pfree j]
        else puList ((fireHead s r).obj j).script = true) := by rw [f2]; exact h.script
    cases hos : os with
    | true =>
      subst hos
      have hk0 : r.k = 0 := ok.once hros
      have hrun : PT j t d true .running (fireHead s r) := by
        refine ⟨by rw [hnO]; exact h.lt, hent, hscr, ?_⟩
        simp only [PhaseOk]
        refine ⟨trivial, by rw [hpool]; exact hp1, by rw [f1]; exact hp2, ?_, ?_⟩
        · rw [f5, hp4]; rfl
        · rw [hnums, hk0]; rfl
      obtain ⟨u, hu, hsc⟩ := h.script
      rw [hoj, hsc, runScript_append]
      obtain ⟨p1, n1, h1⟩ := runScript_PT u hu hih hrun
      have hne : p1 ≠ .armed := by rcases n1 with rfl | rfl <;> simp
      refine ⟨.done, by simp, ?_⟩
      have := pfree_self_PT (runScript_inv _ u hih) h1 hne
      simpa [runScript, act] using this
    | false =>
      subst hos
      have harm : PT j t d false .armed (fireHead s r) := by
        refine ⟨by rw [hnO]; exact h.lt, hent, hscr, ?_⟩
        simp only [PhaseOk]
        refine ⟨by rw [hpool]; exact hp1, by rw [f1]; exact hp2, by rw [f5, hp4, hp3]; rfl, by rw [f3]; exact hp4,
          by rw [f4]; exact hp5, ?_⟩
        intro q hq hqo
        rw [htim, hros] at hq
        simp only [Bool.false_eq_true, ↓reduceIte] at hq
        rcases List.mem_cons.1 hq with rfl | hq
        · exact ⟨hbase, by rw [hnums]; rfl⟩
        · exfalso
          have hq' := List.mem_filter.1 hq
          have := owner_unique hi hq'.1 hr (hqo.trans hoj.symm)
          simp [this] at hq'
      have hsc : puList (s.obj j).script = true := by simpa using h.script
      rw [hoj]
      obtain ⟨p1, n1, h1⟩ := runScript_PT _ hsc hih harm
      exact ⟨p1, by rcases n1 with rfl | rfl <;> simp, h1⟩
  · -- another timer is served
    have hf : Frame j s (fireHead s r) := by
      refine ⟨hobj j (fun e => hoj e.symm), ?_, ?_, Nat.le_of_eq hnO.symm, by rw [hpool], by rw [hkilled]; exact fun x => x, ?_⟩
      · rw [hlog, nums_cons, ev1]; simp [hoj]
      · intro e he heo
        rw [hlog] at he
        rcases List.mem_cons.1 he with rfl | he
        · exact absurd (ev1.symm.trans heo) hoj
        · exact he
      · intro q hq hqo
        rw [htim] at hq
        split at hq
        · exact (List.mem_filter.1 hq).1
        · rcases List.mem_cons.1 hq with rfl | hq
          · exact absurd hqo hoj
          · exact (List.mem_filter.1 hq).1
    obtain ⟨p1, n1, h1⟩ := runScript_other_PT (s.obj r.owner).script (hso r.owner holt) hoj hih (PT_frame h hf)
    exact ⟨p1, by rcases n1 with rfl | rfl <;> simp [hph], h1⟩

/-! ### `Aux` holds in every execution -/

theorem initTimer_pk (s : State) (j ms : Nat) (o : Bool) :
    (initTimer s j ms o).1.pool = s.pool ∧ (initTimer s j ms o).1.killed = s.killed := by
  simp only [initTimer]
  split
  · exact ⟨rfl, rfl⟩
  · exact disable_pk s j

theorem enable_pk (s : State) (j : Nat) : (enable s j).1.pool = s.pool ∧ (enable s j).1.killed = s.killed := by
  simp only [enable]
  split; · exact ⟨rfl, rfl⟩
  split; · exact ⟨rfl, rfl⟩
  split; · exact ⟨rfl, rfl⟩
  exact ⟨rfl, rfl⟩

/-- the live tokens after a call are live tokens before it or serials handed out by the call -/
theorem act_pool_sub (s : State) (a : Act) : ∀ k ∈ (act s a).1.pool, k ∈ s.pool ∨ s.nObjs ≤ k := by
  intro k hk
  cases a with
  | init j ms o => rw [show (act s (.init j ms o)).1.pool = s.pool from (initTimer_pk s j ms o).1] at hk; exact Or.inl hk
  | enable j => rw [show (act s (.enable j)).1.pool = s.pool from (enable_pk s j).1] at hk; exact Or.inl hk
  | disable j => rw [show (act s (.disable j)).1.pool = s.pool from (disable_pk s j).1] at hk; exact Or.inl hk
  | destroy j => rw [show (act s (.destroy j)).1.pool = s.pool from (destroy_pk s j).1] at hk; exact Or.inl hk
  | newObj sc => exact Or.inl hk
  | doAfter ms sc =>
    rw [show (act s (.doAfter ms sc)).1.pool = s.nObjs :: s.pool from (add_pk s ms true _).1] at hk
    rcases List.mem_cons.1 hk with rfl | hk
    · exact Or.inr (Nat.le_refl _)
    · exact Or.inl hk
  | doEvery ms sc =>
    rw [show (act s (.doEvery ms sc)).1.pool = s.nObjs :: s.pool from (add_pk s ms false _).1] at hk
    rcases List.mem_cons.1 hk with rfl | hk
    · exact Or.inr (Nat.le_refl _)
    · exact Or.inl hk
  | cancel k' =>
    by_cases hl : Pool.live s k' = true
    · rw [show (act s (.cancel k')).1.pool = _ from (cancel_effect s k' hl).2.2.1, mem_filter_ne] at hk; exact Or.inl hk.1
    · have : act s (.cancel k') = (s, false) := by simp only [act, Pool.cancel, hl]; rfl
      rw [this] at hk; exact Or.inl hk
  | cleanup => rw [show (act s .cleanup).1.pool = [] from (cleanup_effect s).1] at hk; cases hk
  | pfree k' =>
    by_cases hl : Pool.live s k' = true
    · rw [show (act s (.pfree k')).1.pool = _ from (free_effect s k' hl).2.2.1, mem_filter_ne] at hk; exact Or.inl hk.1
    · have : act s (.pfree k') = (s, true) := by simp only [act, Pool.free, hl]; rfl
      rw [this] at hk; exact Or.inl hk

theorem act_aux (s : State) (a : Act) (h : Aux s) : Aux (act s a).1 := by
  have hq := act_quiet s a
  refine ⟨?_, ?_⟩
  · intro e he; rw [hq.1] at he; exact Nat.lt_of_lt_of_le (h.logLt e he) hq.2.1
  · intro k hk
    rcases act_pool_sub s a k hk with h1 | h1
    · exact Nat.lt_of_lt_of_le (h.poolLt k h1) hq.2.1
    · -- a serial handed out by this call: only `add` does that, and it advances `nObjs`
      cases a with
      | doAfter ms sc =>
        rw [show (act s (.doAfter ms sc)).1.pool = s.nObjs :: s.pool from (add_pk s ms true _).1] at hk
        rw [show (act s (.doAfter ms sc)).1.nObjs = s.nObjs + 1 from (add_pk s ms true _).2.2.1]
        rcases List.mem_cons.1 hk with rfl | hk
        · exact Nat.lt_succ_self _
        · exact Nat.lt_succ_of_lt (h.poolLt k hk)
      | doEvery ms sc =>
        rw [show (act s (.doEvery ms sc)).1.pool = s.nObjs :: s.pool from (add_pk s ms false _).1] at hk
        rw [show (act s (.doEvery ms sc)).1.nObjs = s.nObjs + 1 from (add_pk s ms false _).2.2.1]
        rcases List.mem_cons.1 hk with rfl | hk
        · exact Nat.lt_succ_self _
        · exact Nat.lt_succ_of_lt (h.poolLt k hk)
      | init j ms o => rw [show (act s (.init j ms o)).1.pool = s.pool from (initTimer_pk s j ms o).1] at hk; exact Nat.lt_of_lt_of_le (h.poolLt k hk) hq.2.1
      | enable j => rw [show (act s (.enable j)).1.pool = s.pool from (enable_pk s j).1] at hk; exact Nat.lt_of_lt_of_le (h.poolLt k hk) hq.2.1
      | disable j => rw [show (act s (.disable j)).1.pool = s.pool from (disable_pk s j).1] at hk; exact Nat.lt_of_lt_of_le (h.poolLt k hk) hq.2.1
      | destroy j => rw [show (act s (.destroy j)).1.pool = s.pool from (destroy_pk s j).1] at hk; exact Nat.lt_of_lt_of_le (h.poolLt k hk) hq.2.1
      | newObj sc => exact Nat.lt_of_lt_of_le (h.poolLt k hk) hq.2.1
      | cancel k' =>
        by_cases hl : Pool.live s k' = true
        · rw [show (act s (.cancel k')).1.pool = _ from (cancel_effect s k' hl).2.2.1, mem_filter_ne] at hk
          exact Nat.lt_of_lt_of_le (h.poolLt k hk.1) hq.2.1
        · have : act s (.cancel k') = (s, false) := by simp only [act, Pool.cancel, hl]; rfl
          rw [this] at hk ⊢; exact h.poolLt k hk
      | cleanup => rw [show (act s .cleanup).1.pool = [] from (cleanup_effect s).1] at hk; cases hk
      | pfree k' =>
        by_cases hl : Pool.live s k' = true
        · rw [show (act s (.pfree k')).1.pool = _ from (free_effect s k' hl).2.2.1, mem_filter_ne] at hk
          exact Nat.lt_of_lt_of_le (h.poolLt k hk.1) hq.2.1
        · have : act s (.pfree k') = (s, true) := by simp only [act, Pool.free, hl]; rfl
          rw [this] at hk ⊢; exact h.poolLt k hk

theorem runScript_aux (s : State) (as : List Act) (h : Aux s) : Aux (runScript s as) := by
  induction as generalizing s with
  | nil => exact h
  | cons a as ih => exact ih _ (act_aux s a h)

theorem fireHead_aux (s : State) (r : Rec) (hi : Inv s) (hc : canFire s r = true) (h : Aux s) : Aux (fireHead s r) := by
  obtain ⟨_, _, hr, _, _⟩ := canFire_spec hc
  have ok := hi.recs r hr
  have holt : r.owner < s.nObjs := by
    apply Classical.byContradiction; intro hge
    have := hi.fresh r.owner (by omega); rw [ok.alive] at this; cases this
  obtain ⟨ev, hlog, ev1, _⟩ := fireHead_log s r
  obtain ⟨hpool, _, hnO⟩ := fireHead_pk s r
  refine ⟨?_, ?_⟩
  · intro e he
    rw [hlog] at he; rw [hnO]
    rcases List.mem_cons.1 he with rfl | he
    · rw [ev1]; exact holt
    · exact h.logLt e he
  · intro k hk; rw [hpool] at hk; rw [hnO]; exact h.poolLt k hk

theorem fire_aux (s : State) (r : Rec) (hi : Inv s) (hc : canFire s r = true) (h : Aux s) : Aux (fire s r) := by
  rw [fire_eq]
  exact runScript_aux _ _ (fireHead_aux s r hi hc h)

theorem step_aux (s : State) (st : Step) (hi : Inv s) (hv : valid s st = true) (h : Aux s) : Aux (step s st) := by
  cases st with
  | newObj sc => exact ⟨fun e he => Nat.lt_succ_of_lt (h.logLt e he), fun k hk => Nat.lt_succ_of_lt (h.poolLt k hk)⟩
  | api a => exact act_aux s a h
  | advance d => exact ⟨h.logLt, h.poolLt⟩
  | beginPass => exact ⟨h.logLt, h.poolLt⟩
  | endPass => exact ⟨h.logLt, h.poolLt⟩
  | fire tok =>
    simp only [step, valid] at hv ⊢
    cases hf : findTok s tok with
    | none => simp [hf] at hv
    | some r => simp only [hf] at hv ⊢; exact fire_aux s r hi hv h

theorem init_aux : Aux init := ⟨by simp [init], by simp [init]⟩

theorem exec_aux (s : State) (sts : List Step) (hi : Inv s) (h : Aux s) (s' : State) (he : exec s sts = some s') : Aux s' := by
  induction sts generalizing s with
  | nil => simp [exec] at he; exact he ▸ h
  | cons st sts ih =>
    simp only [exec] at he
    split at he
    · rename_i hv; exact ih _ (step_inv s st hi hv) (step_aux s st hi hv h) he
    · cases he

/-- **stale tokens stay dead**: a serial that has been handed out and is not (or no longer) a live token
never becomes one again, whatever happens — tokens are never reissued -/
theorem act_stale (s : State) (a : Act) (k : Nat) (hlt : k < s.nObjs) (hd : k ∉ s.pool) :
    k < (act s a).1.nObjs ∧ k ∉ (act s a).1.pool := by
  refine ⟨Nat.lt_of_lt_of_le hlt (act_quiet s a).2.1, ?_⟩
  intro hk
  rcases act_pool_sub s a k hk with h | h
  · exact hd h
  · omega

theorem runScript_stale (s : State) (as : List Act) (k : Nat) (hlt : k < s.nObjs) (hd : k ∉ s.pool) :
    k < (runScript s as).nObjs ∧ k ∉ (runScript s as).pool := by
  induction as generalizing s with
  | nil => exact ⟨hlt, hd⟩
  | cons a as ih => have := act_stale s a k hlt hd; exact ih _ this.1 this.2

theorem step_stale (s : State) (st : Step) (k : Nat) (hlt : k < s.nObjs) (hd : k ∉ s.pool) :
    k < (step s st).nObjs ∧ k ∉ (step s st).pool := by
  cases st with
  | newObj sc => exact ⟨Nat.lt_succ_of_lt hlt, hd⟩
  | api a => exact act_stale s a k hlt hd
  | advance d => exact ⟨hlt, hd⟩
  | beginPass => exact ⟨hlt, hd⟩
  | endPass => exact ⟨hlt, hd⟩
  | fire tok =>
    simp only [step]
    cases hf : findTok s tok with
    | none => exact ⟨hlt, hd⟩
    | some r =>
      simp only
      rw [fire_eq]
      obtain ⟨hpool, _, hnO⟩ := fireHead_pk s r
      exact runScript_stale _ _ k (by rw [hnO]; exact hlt) (by rw [hpool]; exact hd)

theorem exec_stale (s : State) (sts : List Step) (k : Nat) (hlt : k < s.nObjs) (hd : k ∉ s.pool) (s' : State)
    (he : exec s sts = some s') : k < s'.nObjs ∧ k ∉ s'.pool := by
  induction sts generalizing s with
  | nil => simp [exec] at he; exact he ▸ ⟨hlt, hd⟩
  | cons st sts ih =>
    simp only [exec] at he
    split at he
    · have := step_stale s st k hlt hd; exact ih _ this.1 this.2 he
    · cases he

/-! ### the callbacks stored in the objects keep their shape (TimerPool-only executions) -/

theorem destroy_nObjs (s : State) (j : Nat) : (destroy s j).1.nObjs = s.nObjs := by
  simp only [destroy]
  split
  · rfl
  · exact disable_nObjs s j

theorem killAll_nObjs (l : List Nat) (s : State) :
    (l.foldl (fun st k => (destroy (disable st k).1 k).1) s).nObjs = s.nObjs := by
  induction l generalizing s with
  | nil => rfl
  | cons k l ih => simp only [List.foldl]; rw [ih, destroy_nObjs, disable_nObjs]

theorem act_scripts (s : State) (a : Act) :
    s.nObjs ≤ (act s a).1.nObjs ∧ ∀ i, i < s.nObjs → ((act s a).1.obj i).script = (s.obj i).script := by
  refine act_ind (fun s s' => s.nObjs ≤ s'.nObjs ∧ ∀ i, i < s.nObjs → (s'.obj i).script = (s.obj i).script)
    ?_ ?_ ?_ ?_ ?_ ?_ ?_ ?_ s a
  · exact fun s => ⟨Nat.le_refl _, fun _ _ => rfl⟩
  · intro a b c h1 h2
    exact ⟨Nat.le_trans h1.1 h2.1, fun i hi => (h2.2 i (Nat.lt_of_lt_of_le hi h1.1)).trans (h1.2 i hi)⟩
  · exact fun s j => ⟨Nat.le_of_eq (disable_nObjs s j).symm, fun i _ => (disable_obj_same s j i).2.2⟩
  · intro s j ms o
    simp only [initTimer]
    split
    · exact ⟨Nat.le_refl _, fun _ _ => rfl⟩
    · refine ⟨Nat.le_of_eq (disable_nObjs s j).symm, ?_⟩
      intro i _
      by_cases hij : i = j
      · subst hij; simp only [obj_setObj, ↓reduceIte]; exact (disable_obj_same s i i).2.2
      · simp only [obj_setObj, hij, ↓reduceIte]; exact (disable_obj_same s j i).2.2
  · intro s j
    simp only [enable]
    split; · exact ⟨Nat.le_refl _, fun _ _ => rfl⟩
    split; · exact ⟨Nat.le_refl _, fun _ _ => rfl⟩
    split; · exact ⟨Nat.le_refl _, fun _ _ => rfl⟩
    refine ⟨Nat.le_refl _, ?_⟩
    intro i _
    by_cases hij : i = j
    · subst hij; simp [State.obj, State.setObj]
    · simp [State.obj, State.setObj, hij]
  · exact fun s j => ⟨Nat.le_of_eq (destroy_nObjs s j).symm, fun i _ => destroy_script s j i⟩
  · intro s sc
    refine ⟨Nat.le_succ _, ?_⟩
    intro i hi
    have : i ≠ s.nObjs := Nat.ne_of_lt hi
    simp [newObjS, State.obj, State.setObj, this]
  · exact fun s p k => ⟨Nat.le_refl _, fun _ _ => rfl⟩

theorem add_script (s : State) (ms : Nat) (os : Bool) (sc : List Act) :
    ((Pool.add s ms os sc).1.obj s.nObjs).script = sc := by
  simp [Pool.add, newObjS, initTimer, disable, enable, State.obj, State.setObj]

theorem act_sok (s : State) (a : Act) (ha : a.pu = true ∨ ∃ i, a = .pfree i) (h : SOk s) : SOk (act s a).1 := by
  obtain ⟨_, hsc⟩ := act_scripts s a
  have keep : (act s a).1.nObjs = s.nObjs → SOk (act s a).1 := by
    intro e i hi
    rw [e] at hi; rw [hsc i hi]; exact h i hi
  have hadd : ∀ ms os sc, ScriptOk s.nObjs sc → (act s a).1 = (Pool.add s ms os sc).1 → SOk (act s a).1 := by
    intro ms os sc hok e i hi
    rw [e, (add_pk s ms os sc).2.2.1] at hi
    by_cases hin : i = s.nObjs
    · subst hin; rw [e, add_script]; exact hok
    · have hi' : i < s.nObjs := by omega
      rw [hsc i hi']; exact h i hi'
  cases a with
  | init _ _ _ => rcases ha with ha | ⟨_, ha⟩ <;> simp [Act.pu] at ha
  | enable _ => rcases ha with ha | ⟨_, ha⟩ <;> simp [Act.pu] at ha
  | disable _ => rcases ha with ha | ⟨_, ha⟩ <;> simp [Act.pu] at ha
  | destroy _ => rcases ha with ha | ⟨_, ha⟩ <;> simp [Act.pu] at ha
  | newObj _ => rcases ha with ha | ⟨_, ha⟩ <;> simp [Act.pu] at ha
  | doAfter ms sc =>
    have hp : puList sc = true := by
      rcases ha with ha | ⟨_, ha⟩
      · simpa [Act.pu] using ha
      · cases ha
    exact hadd ms true _ (Or.inr ⟨sc, hp, rfl⟩) rfl
  | doEvery ms sc =>
    have hp : puList sc = true := by
      rcases ha with ha | ⟨_, ha⟩
      · simpa [Act.pu] using ha
      · cases ha
    exact hadd ms false _ (Or.inl hp) rfl
  | cancel k =>
    apply keep
    simp only [act, Pool.cancel]
    split
    · rw [destroy_nObjs, disable_nObjs]
    · rfl
  | cleanup =>
    apply keep
    simp only [act, Pool.cleanup]
    exact killAll_nObjs _ _
  | pfree k =>
    apply keep
    simp only [act, Pool.free]
    split
    · rw [destroy_nObjs]
    · rfl

theorem puList_append_pfree {u : List Act} {i : Nat} (hu : puList u = true) :
    ∀ a ∈ u ++ [Act.pfree i], a.pu = true ∨ ∃ k, a = .pfree k := by
  induction u with
  | nil => intro a ha; simp at ha; exact Or.inr ⟨i, ha⟩
  | cons x u ih =>
    simp only [puList, Bool.and_eq_true] at hu
    intro a ha
    rcases List.mem_cons.1 ha with rfl | ha
    · exact Or.inl hu.1
    · exact ih hu.2 a ha

theorem puList_mem {u : List Act} (hu : puList u = true) : ∀ a ∈ u, a.pu = true ∨ ∃ k, a = .pfree k := by
  induction u with
  | nil => intro a ha; cases ha
  | cons x u ih =>
    simp only [puList, Bool.and_eq_true] at hu
    intro a ha
    rcases List.mem_cons.1 ha with rfl | ha
    · exact Or.inl hu.1
    · exact ih hu.2 a ha

theorem runScript_sok (s : State) (as : List Act) (ha : ∀ a ∈ as, a.pu = true ∨ ∃ k, a = .pfree k) (h : SOk s) :
    SOk (runScript s as) := by
  induction as generalizing s with
  | nil => exact h
  | cons a as ih =>
    exact ih _ (fun b hb => ha b (List.mem_cons_of_mem _ hb)) (act_sok s a (ha a List.mem_cons_self) h)

theorem scriptOk_acts {i : Nat} {sc : List Act} (h : ScriptOk i sc) : ∀ a ∈ sc, a.pu = true ∨ ∃ k, a = .pfree k := by
  rcases h with h | ⟨u, hu, rfl⟩
  · exact puList_mem h
  · exact puList_append_pfree hu

theorem fire_sok (s : State) (r : Rec) (hi : Inv s) (hc : canFire s r = true) (h : SOk s) : SOk (fire s r) := by
  obtain ⟨_, _, hr, _, _⟩ := canFire_spec hc
  have ok := hi.recs r hr
  have holt : r.owner < s.nObjs := by
    apply Classical.byContradiction; intro hge
    have := hi.fresh r.owner (by omega); rw [ok.alive] at this; cases this
  rw [fire_eq]
  apply runScript_sok _ _ (scriptOk_acts (h r.owner holt))
  obtain ⟨_, _, hnO⟩ := fireHead_pk s r
  obtain ⟨_, _, hobj⟩ := fireHead_facts s r
  intro i hi'
  rw [hnO] at hi'
  by_cases hio : i = r.owner
  · subst hio; rw [(fireHead_owner s r).2.1]; exact h _ hi'
  · rw [hobj i hio]; exact h i hi'

/-! ### creation: `doAfter` / `doEvery` establish `PT` for the new token -/

theorem nums_nil_of_logLt {s : State} (hx : Aux s) (j : Nat) (hj : s.nObjs ≤ j) : nums s.log j = [] := by
  have : ∀ l : List Fired, (∀ e ∈ l, e.obj < s.nObjs) → nums l j = [] := by
    intro l hl
    induction l with
    | nil => rfl
    | cons e l ih =>
      rw [nums_cons]
      have := hl e List.mem_cons_self
      rw [if_neg (by omega)]
      exact ih (fun e he => hl e (List.mem_cons_of_mem _ he))
  exact this s.log hx.logLt

theorem add_PT (s : State) (ms : Nat) (os : Bool) (u : List Act) (hu : puList u = true) (hi : Inv s) (hx : Aux s) :
    PT s.nObjs s.now ms os .armed (Pool.add s ms os (if os = true then u ++ [.pfree s.nObjs] else u)).1 := by
  obtain ⟨e1, e2, e3, e4⟩ := add_pk s ms os (if os = true then u ++ [.pfree s.nObjs] else u)
  obtain ⟨n1, n2, n3, n4, n5, n6⟩ := add_new s ms os (if os = true then u ++ [.pfree s.nObjs] else u) hi
  have hn : nums s.log s.nObjs = [] := nums_nil_of_logLt hx _ (Nat.le_refl _)
  refine ⟨by rw [e3]; exact Nat.lt_succ_self _, ?_, ?_, ?_⟩
  · intro e he heo
    rw [e4] at he
    have := hx.logLt e he; omega
  · rw [n5]
    cases os with
    | true => exact ⟨u, hu, rfl⟩
    | false => exact hu
  · simp only [PhaseOk]
    refine ⟨by rw [e1]; exact List.mem_cons_self, n1, n2, n3, n4, ?_⟩
    intro r hr ho
    obtain ⟨h1, h2⟩ := n6 r hr ho
    rw [e4, hn, h2]
    exact ⟨h1, rfl⟩

theorem act_doAfter_eq (s : State) (ms : Nat) (u : List Act) :
    (act s (.doAfter ms u)).1 = (Pool.add s ms true (if true = true then u ++ [.pfree s.nObjs] else u)).1 := rfl

theorem act_doEvery_eq (s : State) (ms : Nat) (u : List Act) :
    (act s (.doEvery ms u)).1 = (Pool.add s ms false (if false = true then u ++ [.pfree s.nObjs] else u)).1 := rfl

/-! ### steps and executions -/

theorem frame_same {j : Nat} {s s' : State} (ho : s'.objs = s.objs) (hl : s'.log = s.log) (hn : s'.nObjs = s.nObjs)
    (hp : s'.pool = s.pool) (hk : s'.killed = s.killed) (ht : s'.timers = s.timers) : Frame j s s' :=
  ⟨by simp [State.obj, ho], by rw [hl], fun e he _ => by rw [hl] at he; exact he, Nat.le_of_eq hn.symm, by rw [hp],
   by rw [hk]; exact fun x => x, fun q hq _ => by rw [ht] at hq; exact hq⟩

theorem step_PT {j t d : Nat} {os : Bool} {ph : Phase} {s : State} (st : Step) (hpu : st.pu = true) (hi : Inv s)
    (hso : SOk s) (hv : valid s st = true) (h : PT j t d os ph s) (hph : ph ≠ .running) :
    ∃ ph', ph' ≠ .running ∧ PT j t d os ph' (step s st) := by
  cases st with
  | newObj sc => simp [Step.pu] at hpu
  | api a =>
    obtain ⟨p, n, hp⟩ := act_PT a (Or.inl hpu) hi h
    exact ⟨p, by rcases n with rfl | rfl <;> simp [hph], hp⟩
  | advance dd => exact ⟨ph, hph, PT_frame h (frame_same rfl rfl rfl rfl rfl rfl)⟩
  | beginPass => exact ⟨ph, hph, PT_frame h (frame_same rfl rfl rfl rfl rfl rfl)⟩
  | endPass => exact ⟨ph, hph, PT_frame h (frame_same rfl rfl rfl rfl rfl rfl)⟩
  | fire tok =>
    simp only [step, valid] at hv ⊢
    cases hf : findTok s tok with
    | none => simp [hf] at hv
    | some r => simp only [hf] at hv ⊢; exact fire_PT r hi hso hv h hph

theorem step_sok (s : State) (st : Step) (hpu : st.pu = true) (hi : Inv s) (hv : valid s st = true) (h : SOk s) :
    SOk (step s st) := by
  cases st with
  | newObj sc => simp [Step.pu] at hpu
  | api a => exact act_sok s a (Or.inl hpu) h
  | advance dd => exact h
  | beginPass => exact h
  | endPass => exact h
  | fire tok =>
    simp only [step, valid] at hv ⊢
    cases hf : findTok s tok with
    | none => simp [hf] at hv
    | some r => simp only [hf] at hv ⊢; exact fire_sok s r hi hv h

theorem init_sok : SOk init := fun i hi => by simp [init] at hi

theorem exec_sok (s : State) (sts : List Step) (hpu : puSteps sts = true) (hi : Inv s) (h : SOk s) (s' : State)
    (he : exec s sts = some s') : SOk s' := by
  induction sts generalizing s with
  | nil => simp [exec] at he; exact he ▸ h
  | cons st sts ih =>
    simp only [puSteps, List.all_cons, Bool.and_eq_true] at hpu
    simp only [exec] at he
    split at he
    · rename_i hv; exact ih _ hpu.2 (step_inv s st hi hv) (step_sok s st hpu.1 hi hv h) he
    · cases he

theorem exec_PT {j t d : Nat} {os : Bool} {ph : Phase} (sts : List Step) (s : State) (hpu : puSteps sts = true)
    (hi : Inv s) (hso : SOk s) (h : PT j t d os ph s) (hph : ph ≠ .running) (s' : State)
    (he : exec s sts = some s') : ∃ ph', ph' ≠ .running ∧ PT j t d os ph' s' := by
  induction sts generalizing s ph with
  | nil => simp [exec] at he; exact he ▸ ⟨ph, hph, h⟩
  | cons st sts ih =>
    simp only [puSteps, List.all_cons, Bool.and_eq_true] at hpu
    simp only [exec] at he
    split at he
    · rename_i hv
      obtain ⟨p, hp1, hp2⟩ := step_PT st hpu.1 hi hso hv h hph
      exact ih _ hpu.2 (step_inv s st hi hv) (step_sok s st hpu.1 hi hv hso) hp2 hp1 he
    · cases he

/-! ### timers created from inside callbacks (re-arming pattern) -/

theorem puList_all {l : List Act} (hl : puList l = true) : ∀ b ∈ l, b.pu = true := by
  induction l with
  | nil => intro b hb; cases hb
  | cons x l ih =>
    simp only [puList, Bool.and_eq_true] at hl
    intro b hb
    rcases List.mem_cons.1 hb with rfl | hb
    · exact hl.1
    · exact ih hl.2 b hb

theorem runScript_acts_PT {j t d : Nat} {os : Bool} {ph : Phase} {s : State} (as : List Act)
    (ha : ∀ a ∈ as, a.pu = true ∨ ∃ i, i ≠ j ∧ a = .pfree i) (hi : Inv s) (h : PT j t d os ph s) :
    ∃ ph', ph.next ph' ∧ PT j t d os ph' (runScript s as) := by
  induction as generalizing s ph with
  | nil => exact ⟨ph, Phase.next_refl _, h⟩
  | cons a as ih =>
    obtain ⟨p1, n1, h1⟩ := act_PT a (ha a List.mem_cons_self) hi h
    obtain ⟨p2, n2, h2⟩ := ih (fun b hb => ha b (List.mem_cons_of_mem _ hb)) (act_inv s a hi) h1
    exact ⟨p2, Phase.next_trans n1 n2, h2⟩

/-- every timer created while the script runs satisfies `PT` (armed or already done) when it ends -/
theorem runScript_new (sc : List Act) (s : State)
    (hsc : ∀ a ∈ sc, a.pu = true ∨ ∃ i, i < s.nObjs ∧ a = .pfree i) (hi : Inv s) (hx : Aux s) :
    ∀ j, s.nObjs ≤ j → j < (runScript s sc).nObjs →
      ∃ t d os ph, ph ≠ Phase.running ∧ PT j t d os ph (runScript s sc) := by
  induction sc generalizing s with
  | nil => intro j h1 h2; simp only [runScript] at h2; omega
  | cons a rest ih =>
    intro j hj1 hj2
    simp only [runScript] at hj2 ⊢
    have hmono := (act_quiet s a).2.1
    have hrest : ∀ b ∈ rest, b.pu = true ∨ ∃ i, i < (act s a).1.nObjs ∧ b = .pfree i := by
      intro b hb
      rcases hsc b (List.mem_cons_of_mem _ hb) with h | ⟨i, hi1, hi2⟩
      · exact Or.inl h
      · exact Or.inr ⟨i, Nat.lt_of_lt_of_le hi1 hmono, hi2⟩
    by_cases hlt : j < (act s a).1.nObjs
    · -- created by `a`
      have hrest' : ∀ b ∈ rest, b.pu = true ∨ ∃ i, i ≠ j ∧ b = .pfree i := by
        intro b hb
        rcases hsc b (List.mem_cons_of_mem _ hb) with h | ⟨i, hi1, hi2⟩
        · exact Or.inl h
        · exact Or.inr ⟨i, by omega, hi2⟩
      have hcreate : ∀ ms os u, puList u = true →
          (act s a).1 = (Pool.add s ms os (if os = true then u ++ [.pfree s.nObjs] else u)).1 →
          ∃ t d os ph, ph ≠ Phase.running ∧ PT j t d os ph (runScript (act s a).1 rest) := by
        intro ms os u hu e
        have hn : (act s a).1.nObjs = s.nObjs + 1 := by rw [e]; exact (add_pk s ms os _).2.2.1
        have hjn : j = s.nObjs := by omega
        have hpt := add_PT s ms os u hu hi hx
        rw [← e, ← hjn] at hpt
        obtain ⟨p, n, hp⟩ := runScript_acts_PT rest hrest' (act_inv s a hi) hpt
        exact ⟨s.now, ms, os, p, by rcases n with rfl | rfl <;> simp, hp⟩
      have hsame : (act s a).1.nObjs = s.nObjs → ∃ t d os ph, ph ≠ Phase.running ∧ PT j t d os ph (runScript (act s a).1 rest) := by
        intro e; omega
      have ha := hsc a List.mem_cons_self
      cases a with
      | init _ _ _ => rcases ha with ha | ⟨_, _, ha⟩ <;> simp [Act.pu] at ha
      | enable _ => rcases ha with ha | ⟨_, _, ha⟩ <;> simp [Act.pu] at ha
      | disable _ => rcases ha with ha | ⟨_, _, ha⟩ <;> simp [Act.pu] at ha
      | destroy _ => rcases ha with ha | ⟨_, _, ha⟩ <;> simp [Act.pu] at ha
      | newObj _ => rcases ha with ha | ⟨_, _, ha⟩ <;> simp [Act.pu] at ha
      | doAfter ms u =>
        have hp : puList u = true := by
          rcases ha with ha | ⟨_, _, ha⟩
          · simpa [Act.pu] using ha
          · cases ha
        exact hcreate ms true u hp (act_doAfter_eq s ms u)
      | doEvery ms u =>
        have hp : puList u = true := by
          rcases ha with ha | ⟨_, _, ha⟩
          · simpa [Act.pu] using ha
          · cases ha
        exact hcreate ms false u hp (act_doEvery_eq s ms u)
      | cancel k =>
        apply hsame
        simp only [act, Pool.cancel]
        split
        · rw [destroy_nObjs, disable_nObjs]
        · rfl
      | cleanup =>
        apply hsame
        simp only [act, Pool.cleanup]
        exact killAll_nObjs _ _
      | pfree k =>
        apply hsame
        simp only [act, Pool.free]
        split
        · rw [destroy_nObjs]
        · rfl
    · exact ih _ hrest (act_inv s a hi) (act_aux s a hx) j (by omega) hj2

/-- in a TimerPool-only execution every timer object ever created is a pool timer in phase
armed or done, with its own creation time `t`, delay/period `d` and mode -/
def AllPT (s : State) : Prop := ∀ j, j < s.nObjs → ∃ t d os ph, ph ≠ Phase.running ∧ PT j t d os ph s

theorem step_allPT (s : State) (st : Step) (hpu : st.pu = true) (hi : Inv s) (hx : Aux s) (hso : SOk s)
    (hv : valid s st = true) (h : AllPT s) : AllPT (step s st) := by
  intro j hj
  by_cases hold : j < s.nObjs
  · obtain ⟨t, d, os, ph, hph, hpt⟩ := h j hold
    obtain ⟨p, hp1, hp2⟩ := step_PT st hpu hi hso hv hpt hph
    exact ⟨t, d, os, p, hp1, hp2⟩
  · cases st with
    | newObj sc => simp [Step.pu] at hpu
    | api a =>
      have := runScript_new [a] s (fun b hb => by simp at hb; subst hb; exact Or.inl hpu) hi hx j (by omega)
        (by simpa [runScript, step] using hj)
      simpa [runScript, step] using this
    | advance dd => exact absurd hj hold
    | beginPass => exact absurd hj hold
    | endPass => exact absurd hj hold
    | fire tok =>
      simp only [step, valid] at hv hj ⊢
      cases hf : findTok s tok with
      | none => simp [hf] at hv
      | some r =>
        simp only [hf] at hv hj ⊢
        obtain ⟨_, _, hr, _, _⟩ := canFire_spec hv
        have ok := hi.recs r hr
        have holt : r.owner < s.nObjs := by
          apply Classical.byContradiction; intro hge
          have := hi.fresh r.owner (by omega); rw [ok.alive] at this; cases this
        obtain ⟨_, _, hnO⟩ := fireHead_pk s r
        rw [fire_eq] at hj ⊢
        refine runScript_new _ _ ?_ (fireHead_inv s r hi hv) (fireHead_aux s r hi hv hx) j (by omega) hj
        intro a ha
        rcases hso r.owner holt with hs | ⟨u, hu, hs⟩
        · exact Or.inl (puList_all hs a ha)
        · rw [hs] at ha
          rcases List.mem_append.1 ha with ha | ha
          · exact Or.inl (puList_all hu a ha)
          · simp at ha; exact Or.inr ⟨r.owner, by rw [hnO]; exact holt, ha⟩

theorem exec_allPT (s : State) (sts : List Step) (hpu : puSteps sts = true) (hi : Inv s) (hx : Aux s) (hso : SOk s)
    (h : AllPT s) (s' : State) (he : exec s sts = some s') : AllPT s' := by
  induction sts generalizing s with
  | nil => simp [exec] at he; exact he ▸ h
  | cons st sts ih =>
    simp only [puSteps, List.all_cons, Bool.and_eq_true] at hpu
    simp only [exec] at he
    split at he
    · rename_i hv
      exact ih _ hpu.2 (step_inv s st hi hv) (step_aux s st hi hv hx) (step_sok s st hpu.1 hi hv hso)
        (step_allPT s st hpu.1 hi hx hso hv h) he
    · cases he

theorem init_allPT : AllPT init := fun j hj => by simp [init] at hj

/-! ### what `PT` says about the callbacks of a timer -/

theorem PT_not_early {j t d : Nat} {os : Bool} {ph : Phase} {s : State} (hi : Inv s) (h : PT j t d os ph s) :
    ∀ e ∈ s.log, e.obj = j → t + e.n * d ≤ e.passNow ∧ t + d ≤ e.passNow ∧ e.base = t ∧ e.interval = d ∧ e.oneshot = os := by
  intro e he heo
  obtain ⟨h1, h2, h3⟩ := h.entries e he heo
  have ok := hi.log e he
  have hne := ok.notEarly
  rw [h1, h2] at hne
  have : d ≤ e.n * d := Nat.le_mul_of_pos_left d ok.pos
  exact ⟨hne, by omega, h1, h2, h3⟩

theorem PT_count {j t d : Nat} {os : Bool} {ph : Phase} {s : State} (hi : Inv s) (h : PT j t d os ph s)
    (hph : ph ≠ .running) :
    (∃ c, nums s.log j = down c) ∧
    (os = true → nums s.log j = [1] ∨ (nums s.log j = [] ∧ (Pool.live s j = true ∨ j ∈ s.killed))) := by
  have hp := h.phase
  cases ph with
  | armed =>
    obtain ⟨h1, h2⟩ := nums_down_armed hi hp
    simp only [PhaseOk] at hp
    exact ⟨h1, fun ho => Or.inr ⟨h2 ho, Or.inl ((live_iff s j).2 hp.1)⟩⟩
  | running => exact absurd rfl hph
  | done =>
    simp only [PhaseOk] at hp
    refine ⟨hp.2.2.1, fun ho => ?_⟩
    rcases hp.2.2.2 ho with h1 | h1
    · exact Or.inl h1
    · exact Or.inr ⟨h1.1, Or.inr h1.2⟩

/-- when a pass that reads the clock at `t' ≥ t + d` has ended, a doAfter timer is not armed any more -/
theorem PT_passEnd {j t d t' : Nat} {ph : Phase} {s : State} (hi : Inv s) (h : PT j t d true ph s)
    (hph : ph ≠ .running) (hp : s.passNow = some t') (hend : valid s .endPass = true) (hle : t + d ≤ t') :
    nums s.log j = [1] ∨ (nums s.log j = [] ∧ j ∈ s.killed) := by
  have hpo := h.phase
  cases ph with
  | armed =>
    exfalso
    simp only [PhaseOk] at hpo
    obtain ⟨r, hr, hro⟩ := hi.hasRec j hpo.2.1 hpo.2.2.1
    have ok := hi.recs r hr
    have hb := (hpo.2.2.2.2.2 r hr hro).1
    have hos : r.oneshot = true := by rw [← ok.oneshot, hro]; exact hpo.2.2.2.1
    have hk := ok.once hos
    have hd : r.interval = d := by rw [← ok.interval, hro]; exact hpo.2.2.2.2.1
    have hdl := ok.deadline
    rw [hk, hb, hd] at hdl
    simp only [valid, hp, List.all_eq_true, decide_eq_true_eq] at hend
    have := hend r hr
    omega
  | running => exact absurd rfl hph
  | done => simp only [PhaseOk] at hpo; exact hpo.2.2.2 trivial

theorem nums_length (l : List Fired) (j : Nat) : (nums l j).length = (l.filter (fun e => e.obj == j)).length := by
  simp [nums]

end Tbox.C02
