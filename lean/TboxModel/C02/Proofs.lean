/- C02 — the inductive invariant of the timer model and its preservation by every step. -/
import TboxModel.C02.Model
namespace Tbox.C02

/-- a heap record is consistent with the object that owns it -/
structure RecOk (s : State) (r : Rec) : Prop where
  alive    : (s.obj r.owner).alive = true
  inited   : (s.obj r.owner).inited = true
  enabled  : (s.obj r.owner).enabled = true
  token    : (s.obj r.owner).token = some r.tok
  oneshot  : (s.obj r.owner).oneshot = r.oneshot
  interval : (s.obj r.owner).interval = r.interval
  tokLt    : r.tok < s.nextTok
  deadline : r.expired = r.base + (r.k + 1) * r.interval
  baseLe   : r.base ≤ s.now
  once     : r.oneshot = true → r.k = 0

/-- a logged callback is legitimate -/
structure FiredOk (e : Fired) : Prop where
  okAtCall  : e.okAtCall = true                              -- object alive and enabled when called
  notEarly  : e.base + e.n * e.interval ≤ e.passNow          -- n-th firing not before base + n·d
  isDeadline : e.deadline = e.base + e.n * e.interval
  ordered   : e.prevDeadline ≤ e.deadline                    -- deadline order within a pass
  once      : e.oneshot = true → e.n = 1
  pos       : 1 ≤ e.n

structure Inv (s : State) : Prop where
  recs    : ∀ r ∈ s.timers, RecOk s r
  nodup   : s.timers.Pairwise (fun a b => a.tok ≠ b.tok)
  hasRec  : ∀ j, (s.obj j).alive = true → (s.obj j).enabled = true → ∃ r ∈ s.timers, r.owner = j
  fresh   : ∀ j, s.nObjs ≤ j → (s.obj j).alive = false
  log     : ∀ e ∈ s.log, FiredOk e
  passLe  : ∀ t, s.passNow = some t → t ≤ s.now
  lastLe  : ∀ t, s.passNow = some t → s.lastDeadline ≤ t ∧ ∀ r ∈ s.timers, s.lastDeadline ≤ r.expired

theorem init_inv : Inv init := by
  refine ⟨by simp [init], by simp [init], ?_, ?_, by simp [init], by simp [init], by simp [init]⟩
  · intro j h; simp [init, State.obj] at h
  · intro j _; simp [init, State.obj]

@[simp] theorem obj_setObj (s : State) (j : Nat) (o : Obj) (i : Nat) :
    (s.setObj j o).obj i = if i = j then o else s.obj i := rfl

@[simp] theorem setObj_timers (s : State) (j : Nat) (o : Obj) : (s.setObj j o).timers = s.timers := rfl
@[simp] theorem setObj_nextTok (s : State) (j : Nat) (o : Obj) : (s.setObj j o).nextTok = s.nextTok := rfl
@[simp] theorem setObj_now (s : State) (j : Nat) (o : Obj) : (s.setObj j o).now = s.now := rfl
@[simp] theorem setObj_log (s : State) (j : Nat) (o : Obj) : (s.setObj j o).log = s.log := rfl
@[simp] theorem setObj_passNow (s : State) (j : Nat) (o : Obj) : (s.setObj j o).passNow = s.passNow := rfl
@[simp] theorem setObj_lastDeadline (s : State) (j : Nat) (o : Obj) : (s.setObj j o).lastDeadline = s.lastDeadline := rfl
@[simp] theorem setObj_nObjs (s : State) (j : Nat) (o : Obj) : (s.setObj j o).nObjs = s.nObjs := rfl
@[simp] theorem obj_withTimers (s : State) (t : List Rec) (i : Nat) : ({ s with timers := t } : State).obj i = s.obj i := rfl


/-- the invariant reads only these fields (not `pool` / `killed`) -/
theorem inv_congr {s s' : State} (h : Inv s) (ht : s'.timers = s.timers) (ho : s'.objs = s.objs)
    (hn : s'.nextTok = s.nextTok) (hnow : s'.now = s.now) (hl : s'.log = s.log) (hp : s'.passNow = s.passNow)
    (hld : s'.lastDeadline = s.lastDeadline) (hno : s'.nObjs = s.nObjs) : Inv s' := by
  have hobj : ∀ j, s'.obj j = s.obj j := fun j => by simp [State.obj, ho]
  refine ⟨?_, by rw [ht]; exact h.nodup, ?_, ?_, by rw [hl]; exact h.log, ?_, ?_⟩
  · intro r hr
    rw [ht] at hr
    have ok := h.recs r hr
    refine ⟨?_, ?_, ?_, ?_, ?_, ?_, ?_, ok.deadline, ?_, ok.once⟩
    · rw [hobj]; exact ok.alive
    · rw [hobj]; exact ok.inited
    · rw [hobj]; exact ok.enabled
    · rw [hobj]; exact ok.token
    · rw [hobj]; exact ok.oneshot
    · rw [hobj]; exact ok.interval
    · rw [hn]; exact ok.tokLt
    · rw [hnow]; exact ok.baseLe
  · intro j; rw [hobj, ht]; exact h.hasRec j
  · intro j; rw [hobj, hno]; exact h.fresh j
  · intro t; rw [hp, hnow]; exact h.passLe t
  · intro t; rw [hp, hld, ht]; exact h.lastLe t

theorem inv_pool (s : State) (p k : List Nat) (h : Inv s) : Inv { s with pool := p, killed := k } :=
  inv_congr h rfl rfl rfl rfl rfl rfl rfl rfl

/-- two records owned by the same object are the same token -/
theorem owner_unique {s : State} (h : Inv s) {a b : Rec} (ha : a ∈ s.timers) (hb : b ∈ s.timers)
    (ho : a.owner = b.owner) : a.tok = b.tok := by
  have h1 := (h.recs a ha).token
  have h2 := (h.recs b hb).token
  rw [ho] at h1; rw [h1] at h2; exact Option.some.inj h2

theorem tok_inj {l : List Rec} (h : l.Pairwise (fun a b => a.tok ≠ b.tok)) {a b : Rec}
    (ha : a ∈ l) (hb : b ∈ l) (ht : a.tok = b.tok) : a = b := by
  induction l with
  | nil => cases ha
  | cons x xs ih =>
    rw [List.pairwise_cons] at h
    rcases List.mem_cons.1 ha with rfl | ha' <;> rcases List.mem_cons.1 hb with rfl | hb'
    · rfl
    · exact absurd ht (h.1 _ hb')
    · exact absurd ht.symm (h.1 _ ha')
    · exact ih h.2 ha' hb'

/-! ### disable -/

theorem disable_inv (s : State) (j : Nat) (h : Inv s) : Inv (disable s j).1 := by
  unfold disable
  by_cases ha : (s.obj j).alive = true <;> simp only [ha, Bool.not_true, Bool.not_false, Bool.false_eq_true, ↓reduceIte]
  · by_cases hi : (s.obj j).inited = true <;> simp only [hi, Bool.not_true, Bool.not_false, Bool.false_eq_true, ↓reduceIte]
    · by_cases he : (s.obj j).enabled = true <;> simp only [he, Bool.not_true, Bool.not_false, Bool.false_eq_true, ↓reduceIte]
      · obtain ⟨r0, hr0, ho0⟩ := h.hasRec j ha he
        have htok : (s.obj j).token = some r0.tok := ho0 ▸ (h.recs r0 hr0).token
        simp only [htok]
        -- remaining records are not owned by j
        have hne : ∀ r ∈ s.timers, (r.tok != r0.tok) = true → r.owner ≠ j := by
          intro r hr hn ho
          have := owner_unique h hr hr0 (ho.trans ho0.symm)
          simp [this] at hn
        refine ⟨?_, ?_, ?_, ?_, h.log, h.passLe, ?_⟩
        · intro r hr
          simp only [setObj_timers, List.mem_filter] at hr
          have hro := hne r hr.1 hr.2
          have ok := h.recs r hr.1
          have := ok.alive; have := ok.inited; have := ok.enabled; have := ok.token; have := ok.oneshot
          have := ok.interval; have := ok.tokLt; have := ok.deadline; have := ok.baseLe; have := ok.once
          constructor <;> simp_all [State.obj, State.setObj]
        · exact h.nodup.filter _
        · intro i hia hie
          by_cases hij : i = j
          · subst hij; simp at hie
          · simp [hij] at hia hie
            obtain ⟨r, hr, hro⟩ := h.hasRec i hia hie
            refine ⟨r, ?_, hro⟩
            simp only [setObj_timers, List.mem_filter]
            refine ⟨hr, ?_⟩
            by_cases ht : r.tok = r0.tok
            · exfalso
              have := tok_inj h.nodup hr hr0 ht
              subst this; exact hij (hro.symm.trans ho0)
            · simp [ht]
        · intro i hi
          by_cases hij : i = j
          · subst hij; simp; have := h.fresh i hi; simp [ha] at this
          · simp [hij]; exact h.fresh i hi
        · intro t ht
          refine ⟨(h.lastLe t ht).1, ?_⟩
          intro r hr
          simp only [setObj_timers, List.mem_filter] at hr
          exact (h.lastLe t ht).2 r hr.1
      · exact h
    · exact h
  · exact h

/-- facts about the result of `disable` used by initialize/destroy -/
theorem disable_obj_other (s : State) (j i : Nat) (hij : i ≠ j) : ((disable s j).1.obj i) = s.obj i := by
  by_cases ha : (s.obj j).alive = true <;> by_cases hi : (s.obj j).inited = true <;>
    by_cases he : (s.obj j).enabled = true <;> simp_all [disable, State.obj, State.setObj]

theorem disable_alive (s : State) (j : Nat) : ((disable s j).1.obj j).alive = (s.obj j).alive := by
  by_cases ha : (s.obj j).alive = true <;> by_cases hi : (s.obj j).inited = true <;>
    by_cases he : (s.obj j).enabled = true <;> simp_all [disable, State.obj, State.setObj]

theorem disable_not_enabled (s : State) (j : Nat) (ha : (s.obj j).alive = true) :
    ((disable s j).1.obj j).enabled = false ∨ (s.obj j).inited = false := by
  by_cases hi : (s.obj j).inited = true <;>
    by_cases he : (s.obj j).enabled = true <;> simp_all [disable, State.obj, State.setObj]

theorem disable_fields (s : State) (j : Nat) :
    (disable s j).1.now = s.now ∧ (disable s j).1.nextTok = s.nextTok ∧ (disable s j).1.passNow = s.passNow ∧
    (disable s j).1.log = s.log ∧ (disable s j).1.nObjs = s.nObjs ∧ (disable s j).1.lastDeadline = s.lastDeadline := by
  by_cases ha : (s.obj j).alive = true <;> by_cases hi : (s.obj j).inited = true <;>
    by_cases he : (s.obj j).enabled = true <;> simp_all [disable, State.obj, State.setObj]

/-- no record is owned by an object that is not enabled -/
theorem no_rec_of_not_enabled {s : State} (h : Inv s) {j : Nat} (hj : (s.obj j).enabled = false) :
    ∀ r ∈ s.timers, r.owner ≠ j := by
  intro r hr ho
  have := (h.recs r hr).enabled
  rw [ho, hj] at this; cases this

/-- changing fields of a non-enabled object other than alive/enabled keeps the invariant -/
theorem setObj_inv_of_not_enabled (s : State) (j : Nat) (o : Obj) (h : Inv s)
    (hj : (s.obj j).enabled = false) (ho : o.enabled = false) (hal : o.alive = true → (s.obj j).alive = true) :
    Inv (s.setObj j o) := by
  have hno := no_rec_of_not_enabled h hj
  refine ⟨?_, h.nodup, ?_, ?_, h.log, h.passLe, h.lastLe⟩
  · intro r hr
    have ok := h.recs r hr
    have hro := hno r hr
    have := ok.alive; have := ok.inited; have := ok.enabled; have := ok.token; have := ok.oneshot
    have := ok.interval; have := ok.tokLt; have := ok.deadline; have := ok.baseLe; have := ok.once
    constructor <;> simp_all [State.obj, State.setObj]
  · intro i hia hie
    by_cases hij : i = j
    · subst hij; simp [State.obj, State.setObj] at hie; rw [ho] at hie; cases hie
    · have : (s.setObj j o).obj i = s.obj i := by simp [hij]
      rw [this] at hia hie; exact h.hasRec i hia hie
  · intro i hi
    by_cases hij : i = j
    · subst hij
      have := h.fresh i hi
      simp only [obj_setObj, ↓reduceIte]
      cases hoa : o.alive with
      | false => rfl
      | true => rw [hal hoa] at this; cases this
    · simp [hij]; exact h.fresh i hi

/-! ### initialize / destroy -/

theorem initTimer_inv (s : State) (j ms : Nat) (os : Bool) (h : Inv s) : Inv (initTimer s j ms os).1 := by
  unfold initTimer
  by_cases ha : (s.obj j).alive = true
  · simp only [ha, Bool.not_true, Bool.false_eq_true, ↓reduceIte]
    have h1 := disable_inv s j h
    rcases disable_not_enabled s j ha with hne | hni
    · exact setObj_inv_of_not_enabled _ j _ h1 hne hne (fun _ => by rw [disable_alive]; exact ha)
    · -- not inited: disable did nothing, and a non-inited object is not enabled (no record, so hasRec…)
      have hd : (disable s j).1 = s := by unfold disable; simp [ha, hni]
      rw [hd]
      by_cases he : (s.obj j).enabled = true
      · obtain ⟨r, hr, hro⟩ := h.hasRec j ha he
        have := (h.recs r hr).inited; rw [hro, hni] at this; cases this
      · exact setObj_inv_of_not_enabled _ j _ h (by simpa using he) (by simpa using he) (fun _ => ha)
  · simp [ha]; exact h

theorem destroy_inv (s : State) (j : Nat) (h : Inv s) : Inv (destroy s j).1 := by
  unfold destroy
  by_cases ha : (s.obj j).alive = true
  · simp only [ha, Bool.not_true, Bool.false_eq_true, ↓reduceIte]
    have h1 := disable_inv s j h
    rcases disable_not_enabled s j ha with hne | hni
    · exact setObj_inv_of_not_enabled _ j _ h1 hne hne (fun hc => by simp at hc)
    · have hd : (disable s j).1 = s := by unfold disable; simp [ha, hni]
      rw [hd]
      by_cases he : (s.obj j).enabled = true
      · obtain ⟨r, hr, hro⟩ := h.hasRec j ha he
        have := (h.recs r hr).inited; rw [hro, hni] at this; cases this
      · exact setObj_inv_of_not_enabled _ j _ h (by simpa using he) (by simpa using he) (fun hc => by simp at hc)
  · simp [ha]; exact h

/-! ### enable -/

theorem enable_inv (s : State) (j : Nat) (h : Inv s) : Inv (enable s j).1 := by
  unfold enable
  by_cases ha : (s.obj j).alive = true <;> simp only [ha, Bool.not_true, Bool.not_false, Bool.false_eq_true, ↓reduceIte]
  · by_cases hi : (s.obj j).inited = true <;> simp only [hi, Bool.not_true, Bool.not_false, Bool.false_eq_true, ↓reduceIte]
    · by_cases he : (s.obj j).enabled = true <;> simp only [he, Bool.not_true, Bool.not_false, Bool.false_eq_true, ↓reduceIte]
      · exact h
      · have hef : (s.obj j).enabled = false := by simpa using he
        have hno := no_rec_of_not_enabled h hef
        refine ⟨?_, ?_, ?_, ?_, h.log, h.passLe, ?_⟩
        · intro r hr
          simp only [setObj_timers, List.mem_cons] at hr
          rcases hr with rfl | hr
          · constructor <;> simp_all [State.obj, State.setObj]
          · have ok := h.recs r hr
            have hro := hno r hr
            have := ok.alive; have := ok.inited; have := ok.enabled; have := ok.token; have := ok.oneshot
            have := ok.interval; have := ok.tokLt; have := ok.deadline; have := ok.baseLe; have := ok.once
            constructor <;> simp_all [State.obj, State.setObj] <;> omega
        · simp only [setObj_timers, List.pairwise_cons]
          refine ⟨?_, h.nodup⟩
          intro r hr
          have := (h.recs r hr).tokLt
          simp; omega
        · intro i hia hie
          by_cases hij : i = j
          · subst hij; exact ⟨_, List.mem_cons_self, rfl⟩
          · simp only [State.obj, State.setObj, hij, ↓reduceIte] at hia hie
            obtain ⟨r, hr, hro⟩ := h.hasRec i hia hie
            exact ⟨r, by simp [hr], hro⟩
        · intro i hi
          by_cases hij : i = j
          · subst hij; have := h.fresh i hi; rw [ha] at this; cases this
          · simp [State.obj, State.setObj, hij]; exact h.fresh i hi
        · intro t ht
          have hl := h.lastLe t ht
          have hp := h.passLe t ht
          refine ⟨hl.1, ?_⟩
          intro r hr
          simp only [setObj_timers, List.mem_cons] at hr
          rcases hr with rfl | hr
          · have h1 := hl.1
            show s.lastDeadline ≤ s.now + _
            omega
          · exact hl.2 r hr
    · exact h
  · exact h

theorem newObjS_inv (s : State) (sc : List Act) (h : Inv s) : Inv (newObjS s sc) := by
  simp only [newObjS]
  have hd : (s.obj s.nObjs).alive = false := h.fresh _ (Nat.le_refl _)
  have hno : ∀ r ∈ s.timers, r.owner ≠ s.nObjs := by
    intro r hr ho; have := (h.recs r hr).alive; rw [ho, hd] at this; cases this
  refine ⟨?_, h.nodup, ?_, ?_, h.log, h.passLe, h.lastLe⟩
  · intro q hq
    have okq := h.recs q hq
    have hne := hno q hq
    have := okq.alive; have := okq.inited; have := okq.enabled; have := okq.token; have := okq.oneshot
    have := okq.interval; have := okq.tokLt; have := okq.deadline; have := okq.baseLe; have := okq.once
    constructor <;> simp_all [State.obj, State.setObj]
  · intro i hia hie
    by_cases hij : i = s.nObjs
    · subst hij; simp [State.obj, State.setObj] at hie
    · simp only [State.obj, State.setObj, hij, ↓reduceIte] at hia hie
      exact h.hasRec i hia hie
  · intro i hi
    have : i ≠ s.nObjs := by simp at hi; omega
    simp only [State.obj, State.setObj, this, ↓reduceIte]
    exact h.fresh i (by simp at hi; omega)

/-! ### TimerPool calls are compositions of the above -/

theorem pool_add_inv (s : State) (ms : Nat) (os : Bool) (sc : List Act) (h : Inv s) : Inv (Pool.add s ms os sc).1 := by
  unfold Pool.add
  exact enable_inv _ _ (initTimer_inv _ _ _ _ (inv_pool _ _ _ (newObjS_inv s sc h)))

theorem pool_cancel_inv (s : State) (k : Nat) (h : Inv s) : Inv (Pool.cancel s k).1 := by
  unfold Pool.cancel
  split
  · exact destroy_inv _ _ (disable_inv _ _ (inv_pool _ _ _ h))
  · exact h

theorem killAll_inv (l : List Nat) (s : State) (h : Inv s) :
    Inv (l.foldl (fun st k => (destroy (disable st k).1 k).1) s) := by
  induction l generalizing s with
  | nil => exact h
  | cons k l ih => exact ih _ (destroy_inv _ _ (disable_inv _ _ h))

theorem pool_cleanup_inv (s : State) (h : Inv s) : Inv (Pool.cleanup s) := by
  unfold Pool.cleanup
  exact inv_pool _ _ _ (killAll_inv _ _ h)

theorem pool_free_inv (s : State) (k : Nat) (h : Inv s) : Inv (Pool.free s k) := by
  unfold Pool.free
  split
  · exact destroy_inv _ _ (inv_congr h rfl rfl rfl rfl rfl rfl rfl rfl)
  · exact h

theorem act_inv (s : State) (a : Act) (h : Inv s) : Inv (act s a).1 := by
  cases a with
  | init j ms o => exact initTimer_inv s j ms o h
  | enable j => exact enable_inv s j h
  | disable j => exact disable_inv s j h
  | destroy j => exact destroy_inv s j h
  | newObj sc => exact newObjS_inv s sc h
  | doAfter ms sc => exact pool_add_inv s ms true _ h
  | doEvery ms sc => exact pool_add_inv s ms false _ h
  | cancel k => exact pool_cancel_inv s k h
  | cleanup => exact pool_cleanup_inv s h
  | pfree k => exact pool_free_inv s k h

theorem runScript_inv (s : State) (as : List Act) (h : Inv s) : Inv (runScript s as) := by
  induction as generalizing s with
  | nil => exact h
  | cons a as ih => exact ih _ (act_inv s a h)

/-! ### one iteration of handleExpiredTimers -/

theorem canFire_spec {s : State} {r : Rec} (h : canFire s r = true) :
    ∃ t, s.passNow = some t ∧ r ∈ s.timers ∧ r.expired ≤ t ∧ ∀ q ∈ s.timers, r.expired ≤ q.expired := by
  unfold canFire at h
  cases hp : s.passNow with
  | none => simp [hp] at h
  | some t =>
    simp only [hp, Bool.and_eq_true, decide_eq_true_eq, List.all_eq_true] at h
    exact ⟨t, rfl, h.1.1, h.1.2, h.2⟩

theorem fireHead_inv (s : State) (r : Rec) (h : Inv s) (hc : canFire s r = true) : Inv (fireHead s r) := by
  obtain ⟨t, hpn, hr, hdue, hmin⟩ := canFire_spec hc
  have ok := h.recs r hr
  have hlast := h.lastLe t hpn
  -- records other than r are owned by other objects
  have hother : ∀ q ∈ s.timers, (q.tok != r.tok) = true → q.owner ≠ r.owner := by
    intro q hq hn ho
    have := owner_unique h hq hr ho
    simp [this] at hn
  have hev : FiredOk { obj := r.owner, passNow := t, base := r.base, n := r.k + 1, interval := r.interval,
                       okAtCall := (s.obj r.owner).alive && (s.obj r.owner).enabled, deadline := r.expired,
                       prevDeadline := s.lastDeadline, oneshot := r.oneshot } := by
    have hd := ok.deadline
    refine ⟨by simp [ok.alive, ok.enabled], ?_, hd, hlast.2 r hr, ?_, by simp⟩
    · show r.base + (r.k + 1) * r.interval ≤ t; omega
    · intro ho; have := ok.once ho; simp [this]
  unfold fireHead
  simp only [hpn, Option.getD_some]
  by_cases hos : r.oneshot = true
  · -- one-shot: record removed, object marks itself disabled
    have hoo : (s.obj r.owner).oneshot = true := ok.oneshot.trans hos
    simp only [hos, ↓reduceIte]
    have e1 : ∀ (x : State), x.obj r.owner = s.obj r.owner → (x.obj r.owner).oneshot = true := fun x hx => hx ▸ hoo
    rw [if_pos (by simpa [State.obj] using hoo)]
    refine ⟨?_, ?_, ?_, ?_, ?_, ?_, ?_⟩
    · intro q hq
      simp only [setObj_timers, List.mem_filter] at hq
      have okq := h.recs q hq.1
      have hne := hother q hq.1 hq.2
      have := okq.alive; have := okq.inited; have := okq.enabled; have := okq.token; have := okq.oneshot
      have := okq.interval; have := okq.tokLt; have := okq.deadline; have := okq.baseLe; have := okq.once
      constructor <;> simp_all [State.obj, State.setObj]
    · exact h.nodup.filter _
    · intro i hia hie
      by_cases hij : i = r.owner
      · subst hij; simp [State.obj, State.setObj] at hie
      · simp only [State.obj, State.setObj, hij, ↓reduceIte] at hia hie
        obtain ⟨q, hq, hqo⟩ := h.hasRec i hia hie
        refine ⟨q, ?_, hqo⟩
        simp only [setObj_timers, List.mem_filter]
        refine ⟨hq, ?_⟩
        by_cases ht : q.tok = r.tok
        · have := tok_inj h.nodup hq hr ht
          subst this; exact absurd hqo.symm hij
        · simp [ht]
    · intro i hi
      by_cases hij : i = r.owner
      · subst hij; have := h.fresh _ hi; rw [ok.alive] at this; cases this
      · simp [State.obj, State.setObj, hij]; exact h.fresh i hi
    · intro e he
      simp only [setObj_log, List.mem_cons] at he
      rcases he with rfl | he
      · simpa [hos] using hev
      · exact h.log e he
    · intro t' ht'
      simp only [setObj_passNow] at ht'
      cases ht'; exact h.passLe t hpn
    · intro t' ht'
      simp only [setObj_passNow] at ht'
      cases ht'
      refine ⟨hdue, ?_⟩
      intro q hq
      simp only [setObj_timers, List.mem_filter] at hq
      exact hmin q hq.1
  · -- persistent: record re-armed one interval later
    have hof : r.oneshot = false := by simpa using hos
    have hoo : (s.obj r.owner).oneshot = false := ok.oneshot.trans hof
    simp only [hof, Bool.false_eq_true, ↓reduceIte]
    rw [if_neg (by simp [State.obj] at hoo ⊢; exact hoo)]
    refine ⟨?_, ?_, ?_, h.fresh, ?_, ?_, ?_⟩
    · intro q hq
      simp only [List.mem_cons, List.mem_filter] at hq
      rcases hq with rfl | hq
      · have hd := ok.deadline
        refine ⟨ok.alive, ok.inited, ok.enabled, ok.token, ok.oneshot.trans hof, ok.interval, ok.tokLt, ?_, ok.baseLe, ?_⟩
        · show r.expired + r.interval = r.base + (r.k + 1 + 1) * r.interval
          rw [hd]; simp [Nat.add_mul]; omega
        · intro ho; simp [hof] at ho
      · have okq := h.recs q hq.1
        exact ⟨okq.alive, okq.inited, okq.enabled, okq.token, okq.oneshot, okq.interval, okq.tokLt, okq.deadline, okq.baseLe, okq.once⟩
    · simp only [List.pairwise_cons]
      refine ⟨?_, h.nodup.filter _⟩
      intro q hq
      simp only [List.mem_filter] at hq
      have := hq.2
      simp at this
      exact fun e => this e.symm
    · intro i hia hie
      by_cases hij : i = r.owner
      · subst hij; exact ⟨_, List.mem_cons_self, rfl⟩
      · obtain ⟨q, hq, hqo⟩ := h.hasRec i hia hie
        refine ⟨q, ?_, hqo⟩
        simp only [List.mem_cons, List.mem_filter]
        right
        refine ⟨hq, ?_⟩
        by_cases ht : q.tok = r.tok
        · have := tok_inj h.nodup hq hr ht
          subst this; exact absurd hqo.symm hij
        · simp [ht]
    · intro e he
      simp only [List.mem_cons] at he
      rcases he with rfl | he
      · simpa [hof] using hev
      · exact h.log e he
    · intro t' ht'
      cases ht'; exact h.passLe t hpn
    · intro t' ht'
      cases ht'
      refine ⟨hdue, ?_⟩
      intro q hq
      simp only [List.mem_cons, List.mem_filter] at hq
      rcases hq with rfl | hq
      · show r.expired ≤ r.expired + r.interval; omega
      · exact hmin q hq.1

theorem fire_inv (s : State) (r : Rec) (h : Inv s) (hc : canFire s r = true) : Inv (fire s r) := by
  have : fire s r = runScript (fireHead s r) (s.obj r.owner).script := by unfold fire onEvent fireHead; rfl
  rw [this]
  exact runScript_inv _ _ (fireHead_inv s r h hc)

theorem step_inv (s : State) (st : Step) (h : Inv s) (hv : valid s st = true) : Inv (step s st) := by
  cases st with
  | newObj sc => exact newObjS_inv s sc h
  | api a => exact act_inv s a h
  | advance d =>
    refine ⟨?_, h.nodup, h.hasRec, h.fresh, h.log, ?_, h.lastLe⟩
    · intro r hr
      have ok := h.recs r hr
      exact ⟨ok.alive, ok.inited, ok.enabled, ok.token, ok.oneshot, ok.interval, ok.tokLt, ok.deadline,
             Nat.le_trans ok.baseLe (Nat.le_add_right _ _), ok.once⟩
    · intro t ht; exact Nat.le_trans (h.passLe t ht) (Nat.le_add_right _ _)
  | beginPass =>
    refine ⟨?_, h.nodup, h.hasRec, h.fresh, h.log, ?_, ?_⟩
    · intro r hr
      have ok := h.recs r hr
      exact ⟨ok.alive, ok.inited, ok.enabled, ok.token, ok.oneshot, ok.interval, ok.tokLt, ok.deadline, ok.baseLe, ok.once⟩
    · intro t ht; simp only [step] at ht ⊢; cases ht; exact Nat.le_refl _
    · intro t ht; simp [step]
  | fire tok =>
    simp only [step, valid] at hv ⊢
    cases hf : findTok s tok with
    | none => simp [hf] at hv
    | some r => simp only [hf] at hv ⊢; exact fire_inv s r h hv
  | endPass =>
    refine ⟨?_, h.nodup, h.hasRec, h.fresh, h.log, ?_, ?_⟩
    · intro r hr
      have ok := h.recs r hr
      exact ⟨ok.alive, ok.inited, ok.enabled, ok.token, ok.oneshot, ok.interval, ok.tokLt, ok.deadline, ok.baseLe, ok.once⟩
    · intro t ht; simp [step] at ht
    · intro t ht; simp [step] at ht

theorem exec_inv (s : State) (sts : List Step) (h : Inv s) (s' : State) (he : exec s sts = some s') : Inv s' := by
  induction sts generalizing s with
  | nil => simp [exec] at he; exact he ▸ h
  | cons st sts ih =>
    simp only [exec] at he
    split at he
    · rename_i hv; exact ih _ (step_inv s st h hv) he
    · cases he

/-! ### every call is a composition of five primitives and of updates of the pool / ghost fields -/

theorem killAll_ind (P : State → State → Prop) (refl : ∀ s, P s s) (trans : ∀ a b c, P a b → P b c → P a c)
    (hdis : ∀ s j, P s (disable s j).1) (hdes : ∀ s j, P s (destroy s j).1) (l : List Nat) (s : State) :
    P s (l.foldl (fun st k => (destroy (disable st k).1 k).1) s) := by
  induction l generalizing s with
  | nil => exact refl s
  | cons k l ih => exact trans _ _ _ (trans _ _ _ (hdis s k) (hdes _ k)) (ih _)

/-- induction principle for relations between the state before and after a call; the side
conditions `1 ≤ ms` / `posList sc` are available when the act is `pos` (pass `hp : a.pos = true`) -/
theorem act_ind_pos (P : State → State → Prop) (refl : ∀ s, P s s) (trans : ∀ a b c, P a b → P b c → P a c)
    (hdis : ∀ s j, P s (disable s j).1) (hinit : ∀ s j ms o, 1 ≤ ms → P s (initTimer s j ms o).1)
    (hen : ∀ s j, P s (enable s j).1) (hdes : ∀ s j, P s (destroy s j).1)
    (hnew : ∀ s sc, posList sc = true → P s (newObjS s sc))
    (hpool : ∀ s p k, P s { s with pool := p, killed := k })
    (s : State) (a : Act) (hp : a.pos = true) : P s (act s a).1 := by
  have hadd : ∀ s ms os sc, 1 ≤ ms → posList sc = true → P s (Pool.add s ms os sc).1 := by
    intro s ms os sc h1 h2
    unfold Pool.add
    exact trans _ _ _ (trans _ _ _ (trans _ _ _ (hnew s sc h2) (hpool _ _ _)) (hinit _ _ _ _ h1)) (hen _ _)
  have happ : ∀ (sc : List Act) (k : Nat), posList sc = true → posList (sc ++ [.pfree k]) = true := by
    intro sc k h
    induction sc with
    | nil => simp [posList, Act.pos]
    | cons a as ih => simp only [posList, Bool.and_eq_true, List.cons_append] at h ⊢; exact ⟨h.1, ih h.2⟩
  cases a with
  | init j ms o => simp only [Act.pos, decide_eq_true_eq] at hp; exact hinit s j ms o hp
  | enable j => exact hen s j
  | disable j => exact hdis s j
  | destroy j => exact hdes s j
  | newObj sc => simp only [Act.pos] at hp; exact hnew s sc hp
  | doAfter ms sc =>
    simp only [Act.pos, Bool.and_eq_true, decide_eq_true_eq] at hp
    exact hadd s ms true _ hp.1 (happ sc _ hp.2)
  | doEvery ms sc =>
    simp only [Act.pos, Bool.and_eq_true, decide_eq_true_eq] at hp
    exact hadd s ms false _ hp.1 hp.2
  | cancel k =>
    simp only [act, Pool.cancel]
    split
    · exact trans _ _ _ (trans _ _ _ (hpool s _ _) (hdis _ k)) (hdes _ k)
    · exact refl s
  | cleanup =>
    simp only [act, Pool.cleanup]
    exact trans _ _ _ (killAll_ind P refl trans hdis hdes _ s) (hpool _ _ _)
  | pfree k =>
    simp only [act, Pool.free]
    split
    · exact trans _ _ _ (hpool s (s.pool.filter (fun x => x != k)) s.killed) (hdes _ k)
    · exact refl s

/-- the same without side conditions -/
theorem act_ind (P : State → State → Prop) (refl : ∀ s, P s s) (trans : ∀ a b c, P a b → P b c → P a c)
    (hdis : ∀ s j, P s (disable s j).1) (hinit : ∀ s j ms o, P s (initTimer s j ms o).1)
    (hen : ∀ s j, P s (enable s j).1) (hdes : ∀ s j, P s (destroy s j).1)
    (hnew : ∀ s sc, P s (newObjS s sc))
    (hpool : ∀ s p k, P s { s with pool := p, killed := k })
    (s : State) (a : Act) : P s (act s a).1 := by
  have hadd : ∀ s ms os sc, P s (Pool.add s ms os sc).1 := by
    intro s ms os sc
    unfold Pool.add
    exact trans _ _ _ (trans _ _ _ (trans _ _ _ (hnew s sc) (hpool _ _ _)) (hinit _ _ _ _)) (hen _ _)
  cases a with
  | init j ms o => exact hinit s j ms o
  | enable j => exact hen s j
  | disable j => exact hdis s j
  | destroy j => exact hdes s j
  | newObj sc => exact hnew s sc
  | doAfter ms sc => exact hadd s ms true _
  | doEvery ms sc => exact hadd s ms false _
  | cancel k =>
    simp only [act, Pool.cancel]
    split
    · exact trans _ _ _ (trans _ _ _ (hpool s _ _) (hdis _ k)) (hdes _ k)
    · exact refl s
  | cleanup =>
    simp only [act, Pool.cleanup]
    exact trans _ _ _ (killAll_ind P refl trans hdis hdes _ s) (hpool _ _ _)
  | pfree k =>
    simp only [act, Pool.free]
    split
    · exact trans _ _ _ (hpool s (s.pool.filter (fun x => x != k)) s.killed) (hdes _ k)
    · exact refl s

theorem runScript_ind (P : State → State → Prop) (refl : ∀ s, P s s) (trans : ∀ a b c, P a b → P b c → P a c)
    (hact : ∀ s a, P s (act s a).1) (s : State) (as : List Act) : P s (runScript s as) := by
  induction as generalizing s with
  | nil => exact refl s
  | cons a as ih => exact trans _ _ _ (hact s a) (ih _)

theorem runScript_append (s : State) (as bs : List Act) : runScript s (as ++ bs) = runScript (runScript s as) bs := by
  induction as generalizing s with
  | nil => rfl
  | cons a as ih => exact ih _

theorem runScriptR_fst (s : State) (as : List Act) : (runScriptR s as).1 = runScript s as := by
  induction as generalizing s with
  | nil => rfl
  | cons a as ih => simp only [runScriptR, runScript]; exact ih _

theorem fire_eq (s : State) (r : Rec) : fire s r = runScript (fireHead s r) (s.obj r.owner).script := by
  unfold fire onEvent fireHead
  rfl

/-- the driver's `fireR` computes the state of `fire` -/
theorem fireR_fst (s : State) (r : Rec) : (fireR s r).1 = fire s r := by
  rw [fire_eq, fireR, runScriptR_fst]

end Tbox.C02
