/-
C02 — PROPERTY THEOREMS.  "Timers never fire early, never skip, never fire after disable."

All theorems quantify over EVERY execution of the model from `init`: any number of timer
objects, any interleaving of API calls made outside callbacks (`api`), clock advances,
loop passes, any callback scripts (init/enable/disable/destroy of any object, including
self), and any tie-break among equal deadlines (`fire tok` is enabled for every due record
of minimal deadline).  `exec init sts = some s` says that `sts` is such an execution.
-/
import TboxModel.C02.Proofs
import TboxModel.C02.Dead
namespace Tbox.C02

/-- Master statement: every callback ever made is legitimate (see `FiredOk`). -/
theorem C02_callbacks_legit (sts : List Step) (s : State) (he : exec init sts = some s) :
    ∀ e ∈ s.log, FiredOk e :=
  (exec_inv init sts init_inv s he).log

/-- **never early**: the n-th callback of an enablement made at time `base` with period `d`
happens in a pass whose clock reading is ≥ base + n·d (n = 1 for a one-shot). -/
theorem C02_never_early (sts : List Step) (s : State) (he : exec init sts = some s) :
    ∀ e ∈ s.log, e.base + e.n * e.interval ≤ e.passNow ∧ 1 ≤ e.n :=
  fun e h => ⟨(C02_callbacks_legit sts s he e h).notEarly, (C02_callbacks_legit sts s he e h).pos⟩

/-- **never after disable/destroy**: whenever a callback is entered its object is alive and
enabled — also when another callback of the same pass disabled, destroyed or re-initialised
it just before, and whatever token slots were reused. -/
theorem C02_no_fire_after_disable (sts : List Step) (s : State) (he : exec init sts = some s) :
    ∀ e ∈ s.log, e.okAtCall = true :=
  fun e h => (C02_callbacks_legit sts s he e h).okAtCall

/-- the same, structurally: in a reachable state every record the loop could serve belongs to
an alive, enabled object; an object that is not enabled owns no record at all. -/
theorem C02_records_belong_to_enabled (sts : List Step) (s : State) (he : exec init sts = some s) :
    (∀ r ∈ s.timers, (s.obj r.owner).alive = true ∧ (s.obj r.owner).enabled = true) ∧
    (∀ j, (s.obj j).enabled = false → ∀ r ∈ s.timers, r.owner ≠ j) := by
  have h := exec_inv init sts init_inv s he
  exact ⟨fun r hr => ⟨(h.recs r hr).alive, (h.recs r hr).enabled⟩, fun j hj => no_rec_of_not_enabled h hj⟩

/-- **destroyed is final**: once object `j` has been destroyed (after the execution `pre`), no
continuation `post` — whatever it does, including passes, re-initialisation attempts and token
slot reuse — ever makes another callback on it: the callbacks logged during `post` are all on
other objects. -/
theorem C02_destroyed_never_fires (pre post : List Step) (s s' : State) (j : Nat)
    (h1 : exec init pre = some s) (h2 : exec s post = some s')
    (hj : j < s.nObjs) (hd : (s.obj j).alive = false) :
    ∀ e ∈ s'.log.take (s'.log.length - s.log.length), e.obj ≠ j := by
  have hi := exec_inv init pre init_inv s h1
  have hq : DeadQuiet j s.log.length s := ⟨hj, hd, by simp⟩
  exact (exec_deadQuiet s post j s.log.length hi (Nat.le_refl _) hq s' h2).quiet

/-- **deadline order**: within one pass deadlines are served in non-decreasing order. -/
theorem C02_deadline_order (sts : List Step) (s : State) (he : exec init sts = some s) :
    ∀ e ∈ s.log, e.prevDeadline ≤ e.deadline ∧ e.deadline = e.base + e.n * e.interval :=
  fun e h => ⟨(C02_callbacks_legit sts s he e h).ordered, (C02_callbacks_legit sts s he e h).isDeadline⟩

/-- **one-shot fires once**: a callback of a one-shot enablement is its first. -/
theorem C02_oneshot_once (sts : List Step) (s : State) (he : exec init sts = some s) :
    ∀ e ∈ s.log, e.oneshot = true → e.n = 1 :=
  fun e h => (C02_callbacks_legit sts s he e h).once

/-- a one-shot timer is already disabled when its callback script starts -/
theorem C02_oneshot_disabled_in_callback (s : State) (j : Nat) (h : (s.obj j).oneshot = true) :
    onEvent s j = runScript (s.setObj j { s.obj j with enabled := false, token := none }) (s.obj j).script := by
  unfold onEvent; simp [h]

/-- **no skip**: when a pass ends (loop condition of `handleExpiredTimers` false) every enabled
timer owns a record whose next deadline `base + (k+1)·d` is strictly in the future, `k` being
the number of callbacks it has had — so it has fired ⌊(t − base)/d⌋ times, none skipped,
however late the pass was. -/
theorem C02_no_skip (sts : List Step) (s : State) (he : exec init sts = some s) (t : Nat)
    (hp : s.passNow = some t) (hend : valid s .endPass = true) :
    (∀ j, (s.obj j).alive = true → (s.obj j).enabled = true →
        ∃ r ∈ s.timers, r.owner = j ∧ t < r.base + (r.k + 1) * r.interval) := by
  have h := exec_inv init sts init_inv s he
  intro j ha hen
  obtain ⟨r, hr, ho⟩ := h.hasRec j ha hen
  refine ⟨r, hr, ho, ?_⟩
  simp only [valid, hp, List.all_eq_true, decide_eq_true_eq] at hend
  have := hend r hr
  rw [(h.recs r hr).deadline] at this
  exact this

/-- **re-enable starts a fresh full interval**: enabling a disabled, initialised, alive
object creates a record due exactly one interval after the current clock reading. -/
theorem C02_reenable_fresh (s : State) (j : Nat) (ha : (s.obj j).alive = true)
    (hi : (s.obj j).inited = true) (hd : (s.obj j).enabled = false) :
    ∃ r ∈ (enable s j).1.timers, r.owner = j ∧ r.expired = s.now + (s.obj j).interval ∧ r.k = 0 ∧
      r.base = s.now ∧ ((enable s j).1.obj j).enabled = true := by
  unfold enable
  simp only [ha, hi, hd, Bool.not_true, Bool.false_eq_true, ↓reduceIte]
  exact ⟨_, List.mem_cons_self, rfl, rfl, rfl, rfl, by simp [State.obj, State.setObj]⟩

/-! ### non-vacuity: concrete executions that satisfy the hypotheses -/

/-- two timers, a persistent one (period 3) whose callback disables the one-shot (interval 5),
loop wakes 7 ms late: persistent fires twice in one pass, one-shot never. -/
def demo : List Step :=
  [.newObj [.disable 1], .newObj [], .api (.init 0 3 false), .api (.init 1 5 true),
   .api (.enable 0), .api (.enable 1), .advance 7, .beginPass, .fire 1, .fire 1, .endPass]

example : (exec init demo).isSome = true := by decide
/-- `C02_destroyed_never_fires` is not vacuous: destroy object 1 while armed, then a late pass -/
example : ((exec init [.newObj [], .newObj [], .api (.init 1 5 false), .api (.enable 1), .api (.destroy 1)]).map
    (fun s => (decide (1 < s.nObjs), (s.obj 1).alive))) = some (true, false) := by decide
example : (exec init demo).map (fun s => s.log.map (fun e => (e.obj, e.n, e.deadline))) =
    some [(0, 2, 7), (0, 1, 4)] := by decide
/-- serving the one-shot first (tie-break the other way) is rejected only because it is not minimal -/
example : (exec init (demo.take 8 ++ [.fire 2])).isSome = false := by decide

end Tbox.C02
