/-
C02 — PROPERTY THEOREMS.  "Timers never fire early, never skip, never fire after disable."

All theorems quantify over EVERY execution of the model from `init`: any number of timer
objects, any interleaving of API calls made outside callbacks (`api`), clock advances,
loop passes, any callback scripts (init/enable/disable/destroy of any object, including
self; creation of new timers with their own callback scripts; TimerPool calls), and any
tie-break among equal deadlines (`fire tok` is enabled for every due record of minimal
deadline).  `exec init sts = some s` says that `sts` is such an execution.
Sections: timer core (round 1) · termination of a pass and exact catch-up count · TimerPool.
Round 3 (machine widths, explicit heap, waiting time of both engines): `WideProps.lean`, imported here.
Round 4: whole-execution simulation between the width-faithful machine (`WideExec.lean`) and this model (last section).
-/
import TboxModel.C02.Proofs
import TboxModel.C02.Dead
import TboxModel.C02.Catchup
import TboxModel.C02.PoolProofs
import TboxModel.C02.WideProps
import TboxModel.C02.WideSim
import TboxModel.C02.ExitLast
namespace Tbox.C02

/-- Master statement: every callback ever made is legitimate (see `FiredOk`). -/
theorem C02_callbacks_legit (sts : List Step) (s : State) (he : exec init sts = some s) :
    ∀ e ∈ s.log, FiredOk e :=
  (exec_inv init sts init_inv s he).log

/-- **never early**: the n-th callback of an enablement made at time `base` with period `d`
happens in a pass whose clock reading is ≥ base + n·d (n = 1 for a one-shot). -/
theorem C02_never_early (sts : List Step) (s : State) (he : exec init sts = some s) :
    ∀ e ∈ s.log, e.base + e.n * e.interval ≤ e.passNow ∧ 1 ≤ e.n :=
  fun e h => ⟨(C02_callbacks_legit sts s he e h).notEarly, (C02_callbacks_legit sts s he e h).pos⟩

/-- **never after disable/destroy**: whenever a callback is entered its object is alive and
enabled — also when another callback of the same pass disabled, destroyed or re-initialised
it just before, and whatever token slots were reused. -/
theorem C02_no_fire_after_disable (sts : List Step) (s : State) (he : exec init sts = some s) :
    ∀ e ∈ s.log, e.okAtCall = true :=
  fun e h => (C02_callbacks_legit sts s he e h).okAtCall

/-- the same, structurally: in a reachable state every record the loop could serve belongs to
an alive, enabled object; an object that is not enabled owns no record at all. -/
theorem C02_records_belong_to_enabled (sts : List Step) (s : State) (he : exec init sts = some s) :
    (∀ r ∈ s.timers, (s.obj r.owner).alive = true ∧ (s.obj r.owner).enabled = true) ∧
    (∀ j, (s.obj j).enabled = false → ∀ r ∈ s.timers, r.owner ≠ j) := by
  have h := exec_inv init sts init_inv s he
  exact ⟨fun r hr => ⟨(h.recs r hr).alive, (h.recs r hr).enabled⟩, fun j hj => no_rec_of_not_enabled h hj⟩

/-- **destroyed is final**: once object `j` has been destroyed (after the execution `pre`), no
continuation `post` — whatever it does, including passes, re-initialisation attempts and token
slot reuse — ever makes another callback on it: the callbacks logged during `post` are all on
other objects. -/
theorem C02_destroyed_never_fires (pre post : List Step) (s s' : State) (j : Nat)
    (h1 : exec init pre = some s) (h2 : exec s post = some s')
    (hj : j < s.nObjs) (hd : (s.obj j).alive = false) :
    ∀ e ∈ s'.log.take (s'.log.length - s.log.length), e.obj ≠ j := by
  have hi := exec_inv init pre init_inv s h1
  have hq : DeadQuiet j s.log.length s := ⟨hj, hd, by simp⟩
  exact (exec_deadQuiet s post j s.log.length hi (Nat.le_refl _) hq s' h2).quiet

/-- **deadline order**: within one pass deadlines are served in non-decreasing order. -/
theorem C02_deadline_order (sts : List Step) (s : State) (he : exec init sts = some s) :
    ∀ e ∈ s.log, e.prevDeadline ≤ e.deadline ∧ e.deadline = e.base + e.n * e.interval :=
  fun e h => ⟨(C02_callbacks_legit sts s he e h).ordered, (C02_callbacks_legit sts s he e h).isDeadline⟩

/-- **one-shot fires once**: a callback of a one-shot enablement is its first. -/
theorem C02_oneshot_once (sts : List Step) (s : State) (he : exec init sts = some s) :
    ∀ e ∈ s.log, e.oneshot = true → e.n = 1 :=
  fun e h => (C02_callbacks_legit sts s he e h).once

/-- a one-shot timer is already disabled when its callback script starts -/
theorem C02_oneshot_disabled_in_callback (s : State) (j : Nat) (h : (s.obj j).oneshot = true) :
    onEvent s j = runScript (s.setObj j { s.obj j with enabled := false, token := none }) (s.obj j).script := by
  unfold onEvent; simp [h]

/-- **no skip**: when a pass ends (loop condition of `handleExpiredTimers` false) every enabled
timer owns a record whose next deadline `base + (k+1)·d` is strictly in the future, `k` being
the number of callbacks it has had — so it has fired ⌊(t − base)/d⌋ times, none skipped,
however late the pass was. -/
theorem C02_no_skip (sts : List Step) (s : State) (he : exec init sts = some s) (t : Nat)
    (hp : s.passNow = some t) (hend : valid s .endPass = true) :
    (∀ j, (s.obj j).alive = true → (s.obj j).enabled = true →
        ∃ r ∈ s.timers, r.owner = j ∧ t < r.base + (r.k + 1) * r.interval) := by
  have h := exec_inv init sts init_inv s he
  intro j ha hen
  obtain ⟨r, hr, ho⟩ := h.hasRec j ha hen
  refine ⟨r, hr, ho, ?_⟩
  simp only [valid, hp, List.all_eq_true, decide_eq_true_eq] at hend
  have := hend r hr
  rw [(h.recs r hr).deadline] at this
  exact this

/-- **re-enable starts a fresh full interval**: enabling a disabled, initialised, alive
object creates a record due exactly one interval after the current clock reading. -/
theorem C02_reenable_fresh (s : State) (j : Nat) (ha : (s.obj j).alive = true)
    (hi : (s.obj j).inited = true) (hd : (s.obj j).enabled = false) :
    ∃ r ∈ (enable s j).1.timers, r.owner = j ∧ r.expired = s.now + (s.obj j).interval ∧ r.k = 0 ∧
      r.base = s.now ∧ ((enable s j).1.obj j).enabled = true := by
  unfold enable
  simp only [ha, hi, hd, Bool.not_true, Bool.false_eq_true, ↓reduceIte]
  exact ⟨_, List.mem_cons_self, rfl, rfl, rfl, rfl, by simp [State.obj, State.setObj]⟩


/-! ### termination of a pass and exact catch-up count (intervals ≥ 1) -/

/-- **PosIntervals is an invariant**: in an execution whose `init`/`doAfter`/`doEvery` calls — made
outside callbacks or inside any callback script, at any nesting depth — all have ms ≥ 1
(`posSteps`, decidable), every heap record and every initialised object has interval ≥ 1. -/
theorem C02_pos_intervals (sts : List Step) (s : State) (he : exec init sts = some s) (hp : posSteps sts = true) :
    PosIntervals s :=
  (exec_good init sts init_good hp s he).2

/-- **one loop iteration strictly decreases μ** = Σ over due records of ((t − expired)/interval + 1):
the served record loses one unit (or leaves, if one-shot), and nothing its callback script does
— disable, destroy, re-initialise, enable, create, TimerPool calls, on any timer — adds a due
record (a newly armed record expires at now + interval > t). -/
theorem C02_fire_decreases (pre : List Step) (s : State) (tok : Nat) (hpos : posSteps pre = true)
    (h1 : exec init pre = some s) (hv : valid s (.fire tok) = true) : mu (step s (.fire tok)) < mu s :=
  (step_fire_mu s tok (exec_good init pre init_good hpos s h1) hv).2.2

/-- **a pass terminates**: any sequence of loop iterations inside one pass — whatever tie-breaks and
whatever the callbacks do — is at most μ long, μ taken when the sequence starts (e.g. right after
`beginPass`); so `handleExpiredTimers` leaves its loop after at most
Σ_{due r} ((t − r.expired)/r.interval + 1) callbacks. -/
theorem C02_pass_terminates (pre : List Step) (toks : List Nat) (s s' : State) (hpos : posSteps pre = true)
    (h1 : exec init pre = some s) (h2 : exec s (toks.map Step.fire) = some s') :
    toks.length + mu s' ≤ mu s :=
  (fires_bounded toks s s' (exec_good init pre init_good hpos s h1) h2).2.2

/-- … and it is never stuck before that: while a pass runs, either nothing is due (`endPass`) or
serving a record of minimal deadline is an enabled step. -/
theorem C02_pass_progress (pre : List Step) (s : State) (t : Nat) (h1 : exec init pre = some s)
    (hp : s.passNow = some t) (hne : valid s .endPass = false) : ∃ tok, valid s (.fire tok) = true :=
  pass_progress s (exec_inv init pre init_inv s h1) t hp hne

/-- The hypothesis cannot be dropped: a persistent timer of interval 0 (which `posSteps` excludes and
the property does not cover, d ≥ 1) is served again and again with the same deadline; μ = 1 when
the pass begins and still 1 after 25 iterations … -/
def zeroDemo : List Step := [.newObj [], .api (.init 0 0 false), .api (.enable 0), .beginPass]

theorem C02_pass_terminates_counterexample :
    posSteps zeroDemo = false ∧
    ((exec init zeroDemo).bind fun s => (exec s ((List.replicate 25 1).map Step.fire)).map
      fun s' => (mu s, mu s', s'.log.length)) = some (1, 1, 25) := by
  decide

/-- … and after any number of iterations: the pass is endless in the model (as in the code). -/
theorem C02_pass_endless_counterexample (n : Nat) :
    ((exec init zeroDemo).bind fun s => exec s ((List.replicate n 1).map Step.fire)).isSome = true := by
  have key : ∀ (n : Nat) (s : State) (k : Nat), s.passNow = some 1 →
      s.timers = [{ tok := 1, owner := 0, expired := 1, interval := 0, oneshot := false, base := 1, k := k }] →
      (s.obj 0).oneshot = false → (s.obj 0).script = [] →
      (exec s ((List.replicate n 1).map Step.fire)).isSome = true := by
    intro n
    induction n with
    | zero => intro s k _ _ _ _; rfl
    | succ n ih =>
      intro s k hp ht ho hs
      have hf : findTok s 1 = some { tok := 1, owner := 0, expired := 1, interval := 0, oneshot := false, base := 1, k := k } := by
        simp [findTok, ht]
      have hv : valid s (.fire 1) = true := by simp [valid, hf, canFire, hp, ht]
      simp only [List.replicate, List.map, exec, hv, ↓reduceIte, step, hf]
      have hfe : ∀ r : Rec, r.owner = 0 → fire s r = fireHead s r := by
        intro r h0; rw [fire_eq, h0, hs]; rfl
      rw [hfe _ rfl]
      refine ih _ (k + 1) ?_ ?_ ?_ ?_
      · unfold fireHead; simp [ho, hp]
      · unfold fireHead; simp [ho, ht]
      · unfold fireHead; simp [ho]; simpa [State.obj] using ho
      · unfold fireHead; simp [ho]; simpa [State.obj] using hs
  have h0 : ∃ s, exec init zeroDemo = some s ∧ s.passNow = some 1 ∧
      s.timers = [{ tok := 1, owner := 0, expired := 1, interval := 0, oneshot := false, base := 1, k := 0 }] ∧
      (s.obj 0).oneshot = false ∧ (s.obj 0).script = [] := by
    refine ⟨_, rfl, ?_, ?_, ?_, ?_⟩ <;> decide
  obtain ⟨s, he, h1, h2, h3, h4⟩ := h0
  rw [he]
  exact key n s 0 h1 h2 h3 h4

/-- **exact catch-up count**: a persistent timer whose record `r` is due (`r.expired ≤ t`) in a pass
running at clock reading `t`, and which no callback of that pass disables, re-initialises, destroys
or cancels — i.e. it is still armed under the same heap token when the pass ends (any such call
frees the token, and tokens are never handed out twice) — is called back in that pass exactly
⌊(t − r.expired)/r.interval⌋ + 1 times: its firing counter `k` advances by exactly that number,
however the other timers' callbacks and the tie-breaks interleave. -/
theorem C02_catchup_count (pre : List Step) (toks : List Nat) (s s' : State) (t : Nat) (r r' : Rec)
    (h1 : exec init pre = some s) (hp : s.passNow = some t)
    (h2 : exec s (toks.map Step.fire ++ [.endPass]) = some s')
    (hr : r ∈ s.timers) (hper : r.oneshot = false) (hdue : r.expired ≤ t)
    (hr' : r' ∈ s'.timers) (htok : r'.tok = r.tok) :
    r'.k = r.k + ((t - r.expired) / r.interval + 1) ∧ r'.owner = r.owner ∧ r'.base = r.base ∧
    r'.interval = r.interval := by
  have hi := exec_inv init pre init_inv s h1
  rw [exec_append] at h2
  cases h3 : exec s (toks.map Step.fire) with
  | none => simp [h3] at h2
  | some s1 =>
    simp only [h3, Option.bind_some, exec] at h2
    split at h2
    · rename_i hv
      cases h2
      have ok := hi.recs r hr
      have ht0 : Track r.tok r.owner r.base r.interval r.k t s := by
        refine ⟨ok.tokLt, ?_⟩
        intro q hq hqt
        have := tok_inj hi.nodup hq hr hqt
        subst this
        exact ⟨rfl, rfl, rfl, hper, Or.inl rfl⟩
      obtain ⟨hi1, hp1, ht1⟩ := fires_track r.tok r.owner r.base r.interval r.k t toks s s1 hi hp ht0 h3
      have hr1 : r' ∈ s1.timers := hr'
      obtain ⟨e1, e2, e3, _, e5⟩ := ht1.recs r' hr1 htok
      simp only [valid, hp1, List.all_eq_true, decide_eq_true_eq] at hv
      have hend := hv r' hr1
      rw [(hi1.recs r' hr1).deadline, e2, e3] at hend
      exact ⟨catchup_arith r.base r.interval r.k r'.k t r.expired ok.deadline hdue hend e5, e1, e2, e3⟩
    · cases h2


/-! ### TimerPool (eventx/timer_pool.cpp): `Pool.doAfter / doEvery / doAt / cancel / cleanup` of the model

`puSteps sts` (decidable) says that the execution uses timers only through the TimerPool: every API
step and every act of every callback script, at any nesting depth, is doAfter / doEvery / cancel /
cleanup (callbacks may create new pool timers — the re-arming pattern — and cancel any token, their
own included, or call cleanup).  The token returned by doAfter / doEvery is the serial of the new
TimerEvent (`s.nObjs`); `nums log j` lists the firing numbers of `j`'s callbacks, newest first, and
`down c = [c, …, 1]`. -/

/-- **doAfter: exactly once, not before t + d, unless cancelled first (then never).**  After
`doAfter(d, u)` at clock reading `t = s.now`, in every TimerPool-only continuation: the callback has
run at most once; every run was in a pass whose clock reading is ≥ t + d; it has run once, or its
token is still live (still pending), or it was retired by a successful `cancel` / by `cleanup`
without ever running; and once a pass that read the clock at t' ≥ t + d has ended it is not pending
any more: it ran exactly once, or never and was cancelled. -/
theorem C02_pool_doAfter_once (pre post : List Step) (s s' : State) (d : Nat) (u : List Act)
    (hpre : puSteps pre = true) (hu : puList u = true) (hpost : puSteps post = true)
    (h1 : exec init pre = some s) (h2 : exec s (.api (.doAfter d u) :: post) = some s') :
    (Pool.doAfter s d u).2 = s.nObjs ∧
    (s'.log.filter (fun e => e.obj == s.nObjs)).length ≤ 1 ∧
    (∀ e ∈ s'.log, e.obj = s.nObjs → s.now + d ≤ e.passNow) ∧
    ((s'.log.filter (fun e => e.obj == s.nObjs)).length = 1 ∨
      ((s'.log.filter (fun e => e.obj == s.nObjs)).length = 0 ∧ (Pool.live s' s.nObjs = true ∨ s.nObjs ∈ s'.killed))) ∧
    (∀ t', s'.passNow = some t' → valid s' .endPass = true → s.now + d ≤ t' →
      (s'.log.filter (fun e => e.obj == s.nObjs)).length = 1 ∨
      ((s'.log.filter (fun e => e.obj == s.nObjs)).length = 0 ∧ s.nObjs ∈ s'.killed)) := by
  have hi := exec_inv init pre init_inv s h1
  have hx := exec_aux init pre init_inv init_aux s h1
  have hso := exec_sok init pre hpre init_inv init_sok s h1
  simp only [exec] at h2
  split at h2
  · rename_i hv
    have hpt : PT s.nObjs s.now d true .armed (step s (.api (.doAfter d u))) := add_PT s d true u hu hi hx
    have hst : (Step.api (.doAfter d u)).pu = true := by simpa [Step.pu, Act.pu] using hu
    have hi1 := step_inv s _ hi hv
    obtain ⟨ph, hph, hp⟩ := exec_PT post _ hpost hi1 (step_sok s _ hst hi hv hso) hpt (by simp) s' h2
    have hi' := exec_inv _ post hi1 s' h2
    obtain ⟨_, hc⟩ := PT_count hi' hp hph
    rw [← nums_length]
    refine ⟨rfl, ?_, fun e he ho => (PT_not_early hi' hp e he ho).2.1, ?_, ?_⟩
    · rcases hc rfl with h | h <;> simp [h]
    · rcases hc rfl with h | h
      · exact Or.inl (by simp [h])
      · exact Or.inr ⟨by simp [h.1], h.2⟩
    · intro t' hp' hend hle
      rcases PT_passEnd hi' hp hph hp' hend hle with h | h
      · exact Or.inl (by simp [h])
      · exact Or.inr ⟨by simp [h.1], h.2⟩
  · cases h2

/-- **doEvery: the n-th callback is not before t + n·d.**  After `doEvery(d, u)` at clock reading
`t = s.now`, in every TimerPool-only continuation the callbacks of the new timer are numbered
consecutively c, …, 1 (newest first — none skipped, none repeated) and the one numbered n ran in a
pass whose clock reading is ≥ t + n·d. -/
theorem C02_pool_doEvery_nth (pre post : List Step) (s s' : State) (d : Nat) (u : List Act)
    (hpre : puSteps pre = true) (hu : puList u = true) (hpost : puSteps post = true)
    (h1 : exec init pre = some s) (h2 : exec s (.api (.doEvery d u) :: post) = some s') :
    (Pool.doEvery s d u).2 = s.nObjs ∧
    (∃ c, nums s'.log s.nObjs = down c) ∧
    (∀ e ∈ s'.log, e.obj = s.nObjs → s.now + e.n * d ≤ e.passNow) := by
  have hi := exec_inv init pre init_inv s h1
  have hx := exec_aux init pre init_inv init_aux s h1
  have hso := exec_sok init pre hpre init_inv init_sok s h1
  simp only [exec] at h2
  split at h2
  · rename_i hv
    have hpt : PT s.nObjs s.now d false .armed (step s (.api (.doEvery d u))) := add_PT s d false u hu hi hx
    have hst : (Step.api (.doEvery d u)).pu = true := by simpa [Step.pu, Act.pu] using hu
    have hi1 := step_inv s _ hi hv
    obtain ⟨ph, hph, hp⟩ := exec_PT post _ hpost hi1 (step_sok s _ hst hi hv hso) hpt (by simp) s' h2
    have hi' := exec_inv _ post hi1 s' h2
    exact ⟨rfl, (PT_count hi' hp hph).1, fun e he ho => (PT_not_early hi' hp e he ho).1⟩
  · cases h2

/-- **every pool timer, also those created from inside callbacks (re-arming pattern).**  In a
TimerPool-only execution every timer object `j` ever created has a creation time `t`, a delay/period
`d` and a mode such that all its callbacks carry that enablement, are numbered consecutively,
the n-th ran not before t + n·d, and a doAfter timer ran at most once — exactly once unless its
token is still live or was retired by cancel/cleanup before it ran. -/
theorem C02_pool_all_timers (sts : List Step) (s : State) (hpu : puSteps sts = true) (he : exec init sts = some s) :
    ∀ j, j < s.nObjs → ∃ t d os,
      (∀ e ∈ s.log, e.obj = j → e.base = t ∧ e.interval = d ∧ e.oneshot = os ∧ t + e.n * d ≤ e.passNow) ∧
      (∃ c, nums s.log j = down c) ∧
      (os = true → nums s.log j = [1] ∨ (nums s.log j = [] ∧ (Pool.live s j = true ∨ j ∈ s.killed))) := by
  have hi := exec_inv init sts init_inv s he
  have hall := exec_allPT init sts hpu init_inv init_aux init_sok init_allPT s he
  intro j hj
  obtain ⟨t, d, os, ph, hph, hp⟩ := hall j hj
  refine ⟨t, d, os, ?_, (PT_count hi hp hph).1, (PT_count hi hp hph).2⟩
  intro e he' ho
  obtain ⟨a, _, b, c, dd⟩ := PT_not_early hi hp e he' ho
  exact ⟨b, c, dd, a⟩

/-- **cancel returns true iff the token is live, and afterwards that timer never fires** (by
`C02_destroyed_never_fires`) **and the token stays dead** — in every execution, TimerPool-only or
not, whatever is done afterwards (new timers, passes, cleanup …); a cancel of a dead token changes
nothing. -/
theorem C02_pool_cancel (pre post : List Step) (s s' : State) (k : Nat)
    (h1 : exec init pre = some s) (h2 : exec s (.api (.cancel k) :: post) = some s') :
    (Pool.cancel s k).2 = Pool.live s k ∧
    (Pool.live s k = false → (Pool.cancel s k).1 = s) ∧
    (Pool.live s k = true → Pool.live s' k = false ∧
      ∀ e ∈ s'.log.take (s'.log.length - s.log.length), e.obj ≠ k) := by
  have hi := exec_inv init pre init_inv s h1
  have hx := exec_aux init pre init_inv init_aux s h1
  refine ⟨?_, ?_, ?_⟩
  · simp only [Pool.cancel]; split <;> simp_all
  · intro hl; simp only [Pool.cancel, hl]; rfl
  · intro hl
    simp only [exec] at h2
    split at h2
    · rename_i hv
      obtain ⟨e1, _, e3, _, _⟩ := cancel_effect s k hl
      have hlt : k < s.nObjs := hx.poolLt k ((live_iff s k).1 hl)
      have hq := act_quiet s (.cancel k)
      have hpre : exec init (pre ++ [.api (.cancel k)]) = some (step s (.api (.cancel k))) := by
        rw [exec_append, h1]; simp only [Option.bind_some, exec, hv, ↓reduceIte]
      have hnp : k ∉ (step s (.api (.cancel k))).pool := by
        show k ∉ (Pool.cancel s k).1.pool
        rw [e3, mem_filter_ne]; exact fun x => x.2 rfl
      have hst := exec_stale _ post k (Nat.lt_of_lt_of_le hlt hq.2.1) hnp s' h2
      refine ⟨by rw [Bool.eq_false_iff]; intro h; exact hst.2 ((live_iff s' k).1 h), ?_⟩
      have := C02_destroyed_never_fires _ post _ s' k hpre h2 (Nat.lt_of_lt_of_le hlt hq.2.1) e1
      have hlog : (step s (.api (.cancel k))).log = s.log := hq.1
      rw [hlog] at this
      exact this
    · cases h2

/-- **after cleanup no pool timer ever fires and stale tokens stay dead**: every token live when
`cleanup()` is called is dead afterwards for ever, and no callback is ever made again on its timer —
whatever follows (new pool timers get new tokens). -/
theorem C02_pool_cleanup (pre post : List Step) (s s' : State)
    (h1 : exec init pre = some s) (h2 : exec s (.api .cleanup :: post) = some s') :
    ∀ k, Pool.live s k = true → Pool.live s' k = false ∧
      ∀ e ∈ s'.log.take (s'.log.length - s.log.length), e.obj ≠ k := by
  have hi := exec_inv init pre init_inv s h1
  have hx := exec_aux init pre init_inv init_aux s h1
  intro k hl
  simp only [exec] at h2
  split at h2
  · rename_i hv
    obtain ⟨e1, _, _, _, e5⟩ := cleanup_effect s
    have hkp := (live_iff s k).1 hl
    have hlt : k < s.nObjs := hx.poolLt k hkp
    have hq := act_quiet s .cleanup
    have hpre : exec init (pre ++ [.api .cleanup]) = some (step s (.api .cleanup)) := by
      rw [exec_append, h1]; simp only [Option.bind_some, exec, hv, ↓reduceIte]
    have hnp : k ∉ (step s (.api .cleanup)).pool := by
      show k ∉ (Pool.cleanup s).pool
      rw [e1]; simp
    have hst := exec_stale _ post k (Nat.lt_of_lt_of_le hlt hq.2.1) hnp s' h2
    refine ⟨by rw [Bool.eq_false_iff]; intro h; exact hst.2 ((live_iff s' k).1 h), ?_⟩
    have := C02_destroyed_never_fires _ post _ s' k hpre h2 (Nat.lt_of_lt_of_le hlt hq.2.1) (e5 k hkp hlt)
    have hlog : (step s (.api .cleanup)).log = s.log := hq.1
    rw [hlog] at this
    exact this
  · cases h2

/-- **stale tokens stay dead** (tokens are never reissued): a serial that was handed out and is not a
live token never becomes one again, in any execution. -/
theorem C02_pool_stale_token (post : List Step) (s s' : State) (k : Nat)
    (h2 : exec s post = some s') (hk : k < s.nObjs) (hd : Pool.live s k = false) :
    Pool.live s' k = false := by
  have hnp : k ∉ s.pool := fun h => by rw [(live_iff s k).2 h] at hd; cases hd
  have := exec_stale s post k hk hnp s' h2
  rw [Bool.eq_false_iff]; intro h; exact this.2 ((live_iff s' k).1 h)

/-- **cancel / cleanup / doAfter / doEvery from inside callbacks keep the invariant** — also a
callback cancelling its own timer or calling cleanup while it runs: the state after any callback
script satisfies `Inv` again (so all the C02 theorems above apply to executions that contain such
callbacks; this is the instance of `exec_inv` for one callback), every live token denotes an
existing timer object and every logged callback an existing object. -/
theorem C02_pool_callbacks_keep_inv (pre : List Step) (s : State) (r : Rec) (h1 : exec init pre = some s)
    (hc : canFire s r = true) : Inv (fire s r) ∧ Aux (fire s r) :=
  ⟨fire_inv s r (exec_inv init pre init_inv s h1) hc,
   fire_aux s r (exec_inv init pre init_inv s h1) hc (exec_aux init pre init_inv init_aux s h1)⟩

/-- `doAt(tp)` is `doAfter(tp − wall clock)` for time points in the future -/
theorem C02_pool_doAt (s : State) (wall tp : Int) (u : List Act) (h : 1 ≤ tp - wall) :
    Pool.doAt s wall tp u = some (Pool.doAfter s (tp - wall).toNat u) ∧ 1 ≤ (tp - wall).toNat := by
  simp only [Pool.doAt, h, ↓reduceIte, true_and]; omega

/-! ### non-vacuity: concrete executions that satisfy the hypotheses -/

/-- two timers, a persistent one (period 3) whose callback disables the one-shot (interval 5),
loop wakes 7 ms late: persistent fires twice in one pass, one-shot never. -/
def demo : List Step :=
  [.newObj [.disable 1], .newObj [], .api (.init 0 3 false), .api (.init 1 5 true),
   .api (.enable 0), .api (.enable 1), .advance 7, .beginPass, .fire 1, .fire 1, .endPass]

example : (exec init demo).isSome = true := by decide
/-- `C02_destroyed_never_fires` is not vacuous: destroy object 1 while armed, then a late pass -/
example : ((exec init [.newObj [], .newObj [], .api (.init 1 5 false), .api (.enable 1), .api (.destroy 1)]).map
    (fun s => (decide (1 < s.nObjs), (s.obj 1).alive))) = some (true, false) := by decide
example : (exec init demo).map (fun s => s.log.map (fun e => (e.obj, e.n, e.deadline))) =
    some [(0, 2, 7), (0, 1, 4)] := by decide
/-- serving the one-shot first (tie-break the other way) is rejected only because it is not minimal -/
example : (exec init (demo.take 8 ++ [.fire 2])).isSome = false := by decide

/-- `C02_pass_terminates` / `C02_catchup_count` are not vacuous: `demo` has all intervals ≥ 1; when its
late pass begins μ = 2 + 1 (persistent timer due twice, one-shot once); two iterations happen (the
one-shot is disabled by the first callback); the persistent record (token 1, first due at 4, period 3,
t = 8) goes from k = 0 to k = 0 + ((8 − 4)/3 + 1) = 2 under the same token. -/
example : posSteps demo = true := by decide
example : (exec init (demo.take 8)).map (fun s => (mu s, s.passNow)) = some (3, some 8) := by decide
example : (exec init (demo.take 8)).map (fun s => s.timers.map fun r => (r.tok, r.k, r.expired, r.oneshot)) =
    some [(2, 0, 6, true), (1, 0, 4, false)] := by decide
example : (exec init demo).map (fun s => s.timers.map fun r => (r.tok, r.k, r.expired)) = some [(1, 2, 10)] := by decide

/-- TimerPool theorems are not vacuous.  `poolDemo`: doAfter(5) (token 0) and doEvery(2) (token 1) whose
callback cancels token 0; the loop wakes at t = 5: token 1 fires for deadlines 3 and 5, the first
callback cancels token 0 (returns true), which never fires.  `rearmDemo`: a doAfter(2) callback
re-arms a doAfter(3): the second timer (token 1, created at t = 3 inside the callback) fires at 6. -/
def poolDemo : List Step :=
  [.api (.doAfter 5 []), .api (.doEvery 2 [.cancel 0]), .advance 4, .beginPass, .fire 2, .fire 2, .endPass,
   .advance 10, .beginPass, .fire 2, .fire 2, .fire 2, .fire 2, .fire 2, .endPass, .api (.cancel 0), .api .cleanup]
def rearmDemo : List Step :=
  [.api (.doAfter 2 [.doAfter 3 []]), .advance 2, .beginPass, .fire 1, .endPass, .advance 3, .beginPass, .fire 2, .endPass]

example : puSteps poolDemo = true ∧ puSteps rearmDemo = true ∧ posSteps poolDemo = true := by decide
example : (exec init poolDemo).map (fun s => (s.log.map fun e => (e.obj, e.n, e.passNow), s.killed, s.pool)) =
    some ([(1, 7, 15), (1, 6, 15), (1, 5, 15), (1, 4, 15), (1, 3, 15), (1, 2, 5), (1, 1, 5)], [1, 0], []) := by decide
example : (exec init (poolDemo.take 3)).map (fun s => (Pool.live s 0, (Pool.cancel s 0).2, (Pool.cancel s 7).2)) =
    some (true, true, false) := by decide
example : (exec init rearmDemo).map (fun s => (s.log.map fun e => (e.obj, e.n, e.base, e.passNow), s.nObjs, s.pool)) =
    some ([(1, 1, 3, 6), (0, 1, 1, 3)], 2, []) := by decide
example : (Pool.doAt init 1000 1007 []).map (fun p => (p.2, p.1.timers.map (·.expired))) = some (0, [8]) := by decide

/-! ### round 4: the width-faithful machine (`WideExec.lean`) simulates into this model, execution by execution

`Wide.xexec A wl Wide.xinit sts = some x`: the machine at the widths of the C++ code (UInt64 clock and
deadlines that may wrap, `long` intervals converted at `addTimer`, records in a heap-ordered vector
served from the FRONT, `deleteTimer` by zero + make_heap + pop_heap + pop_back) runs the op list `sts`
— the same `Step` language as above, callback scripts of any nesting included — on ANY heap library `A`
meeting the standard's contract.  `Wide.bndSteps sts` (decidable): every millisecond count in the op list
is a non-negative `long` (< 2^63); the machine itself refuses to advance the clock to 2^63 ms. -/

/-- **whole-execution simulation**: every execution of the width-faithful machine from its initial state is an
execution of the abstract model by the SAME op list (every `fire tok` the heap front forced is an enabled
abstract step: due, minimal, armed), ending in a related state: same callback log, same object flags,
same live pool tokens, the abstract record list is the heap vector up to order (`Wide.Sim`). -/
theorem C02_wide_exec_simulates (A : Wide.Algs) (wl : Int64) (sts : List Step) (x : Wide.XState)
    (hb : Wide.bndSteps sts = true) (he : Wide.xexec A wl Wide.xinit sts = some x) :
    ∃ s, exec init sts = some s ∧ Wide.Sim x s :=
  Wide.sim_exec A wl sts Wide.sim_init hb x he

/-- … in observable terms: the same callback trace (who, in which pass, which deadline, which firing
number), the same `isEnabled()` answers, the same live TimerPool tokens, the same clock. -/
theorem C02_wide_exec_same_trace (A : Wide.Algs) (wl : Int64) (sts : List Step) (x : Wide.XState)
    (hb : Wide.bndSteps sts = true) (he : Wide.xexec A wl Wide.xinit sts = some x) :
    ∃ s, exec init sts = some s ∧ s.log = x.log ∧ s.pool = x.pool ∧ s.now = x.now.toNat ∧ s.nObjs = x.nObjs ∧
      ∀ j, (s.obj j).alive = (x.obj j).alive ∧ (s.obj j).inited = (x.obj j).inited ∧
           (s.obj j).enabled = (x.obj j).enabled := by
  obtain ⟨s, e, h⟩ := C02_wide_exec_simulates A wl sts x hb he
  refine ⟨s, e, h.log, h.pool, h.now, h.nObjs, fun j => ?_⟩
  have : s.obj j = Wide.objOf (x.obj j) := h.objs j
  rw [this]; exact ⟨rfl, rfl, rfl⟩

/-- **the property, about the machine at width**: every callback the width-faithful machine ever makes —
on any conforming heap library, with 64-bit wrapping arithmetic — was made on an alive, enabled object,
not before `base + n·d`, on exactly that deadline, in deadline order within its pass, a one-shot only
once.  (`C02_callbacks_legit` transported along the simulation.) -/
theorem C02_wide_exec_callbacks_legit (A : Wide.Algs) (wl : Int64) (sts : List Step) (x : Wide.XState)
    (hb : Wide.bndSteps sts = true) (he : Wide.xexec A wl Wide.xinit sts = some x) :
    ∀ e ∈ x.log, FiredOk e := by
  obtain ⟨s, e, h⟩ := C02_wide_exec_simulates A wl sts x hb he
  rw [← h.log]
  exact C02_callbacks_legit sts s e

/-- **no 64-bit deadline of a reachable state has wrapped**: every record in the heap vector carries the
mathematical deadline `base + (k+1)·interval`, belongs to an alive, enabled object, and is still below 2^64. -/
theorem C02_wide_exec_deadlines_exact (A : Wide.Algs) (wl : Int64) (sts : List Step) (x : Wide.XState)
    (hb : Wide.bndSteps sts = true) (he : Wide.xexec A wl Wide.xinit sts = some x) :
    ∀ w ∈ x.loop.heap, w.expired.toNat = w.base + (w.k + 1) * w.interval.toNat ∧
      (x.obj w.owner).alive = true ∧ (x.obj w.owner).enabled = true := by
  obtain ⟨s, e, h⟩ := C02_wide_exec_simulates A wl sts x hb he
  have hi := exec_inv init sts init_inv s e
  intro w hw
  have hm : Wide.toRec w ∈ s.timers := h.timers.mem_iff.2 (List.mem_map.2 ⟨w, hw, rfl⟩)
  have ok := hi.recs _ hm
  have ho : s.obj w.owner = Wide.objOf (x.obj w.owner) := h.objs w.owner
  refine ⟨ok.deadline, ?_, ?_⟩
  · have := ok.alive; rw [show (Wide.toRec w).owner = w.owner from rfl, ho] at this; exact this
  · have := ok.enabled; rw [show (Wide.toRec w).owner = w.owner from rfl, ho] at this; exact this

/-- **no skip, at width**: when the machine leaves the `while` loop of `handleExpiredTimers` (front not due at
64-bit width, or empty vector) every alive, enabled object owns a heap record whose deadline
`base + (k+1)·d` is strictly after the clock reading of the pass. -/
theorem C02_wide_exec_no_skip (A : Wide.Algs) (wl : Int64) (sts : List Step) (x : Wide.XState) (t : UInt64)
    (hb : Wide.bndSteps sts = true) (he : Wide.xexec A wl Wide.xinit sts = some x)
    (hp : x.passNow = some t) (hend : Wide.xvalid A wl x .endPass = true) :
    ∀ j, (x.obj j).alive = true → (x.obj j).enabled = true →
      ∃ w ∈ x.loop.heap, w.owner = j ∧ t.toNat < w.base + (w.k + 1) * w.interval.toNat := by
  obtain ⟨s, e, h⟩ := C02_wide_exec_simulates A wl sts x hb he
  obtain ⟨hv, _⟩ := Wide.sim_step A wl h .endPass rfl hend
  have hsp : s.passNow = some t.toNat := by rw [h.passNow, hp]; rfl
  intro j ha hen
  have ho : s.obj j = Wide.objOf (x.obj j) := h.objs j
  obtain ⟨r, hr, hro, hlt⟩ := C02_no_skip sts s e t.toNat hsp hv j (by rw [ho]; exact ha) (by rw [ho]; exact hen)
  obtain ⟨w, hw, rfl⟩ := List.mem_map.1 (h.timers.mem_iff.1 hr)
  exact ⟨w, hw, hro, hlt⟩

/-- non-vacuity: the op list `demo` (late pass, a callback disabling the other timer) runs on the
width-faithful machine over the sorted-vector heap library, with the log of the abstract run -/
example : Wide.bndSteps demo = true := by decide
example : ((Wide.xexec (Heap.sortedAlgs Wide.key) 10000000 Wide.xinit demo).map fun x => x.log.map fun e => (e.obj, e.n, e.deadline)) =
    some [(0, 2, 7), (0, 1, 4)] := by decide

/-! ### round 4: the loop's own exit timer (`CommonLoop::exitLoop(wait)`)

`exitLoop(w)` disables and deletes the pending exit timer, then either stops the loop (w = 0) or creates, initialises
(one-shot, w ms) and enables a new one whose callback is `stopLoop()`.  For the timer core this is exactly what
re-initialising and enabling ONE TimerEvent does (`initialize` disables first; a new C++ object instead of the old one
makes no difference to heap and cabinet: the old record is removed, the new one gets a fresh token either way), so
the exit timer is an ordinary object of the model — the "slot" — driven by `exitLoopActs`; `stopLoop()` is the slot's
callback.  Every theorem above therefore speaks about it too (never early, once, deadline order with the user's timers,
never after a later `exitLoop` replaced it, `getWaitTime` bounded by it).  The loop leaving and re-entering `runLoop`
does not touch the heap: a pending exit timer survives into the next run (the repository's tests arm it before
`runLoop()`), tied on every run by the harness (`xl`, `xlo`, `q` ops). -/

/-- `CommonLoop::exitLoop(w)` as calls on the exit-timer slot -/
def exitLoopActs (slot w : Nat) : List Act := if w = 0 then [.disable slot] else [.init slot w true, .enable slot]

/-- **exitLoop(w), w ≥ 1, starts one fresh full wait**: whatever exit timer was pending (armed earlier with another
wait, due in this very pass, already fired), afterwards the slot owns exactly ONE record, it expires at `now + w`
(a full interval from the call, not from the earlier call), is a one-shot that has not fired. -/
theorem C02_exit_arms_fresh (s : State) (slot w : Nat) (hi : Inv s) (ha : (s.obj slot).alive = true) :
    ∃ r ∈ (runScript s (exitLoopActs slot (w + 1))).timers, r.owner = slot ∧ r.expired = s.now + (w + 1) ∧ r.base = s.now ∧
      r.k = 0 ∧ r.oneshot = true ∧ ∀ q ∈ (runScript s (exitLoopActs slot (w + 1))).timers, q.owner = slot → q = r := by
  have hs1 : Inv (initTimer s slot (w + 1) true).1 := initTimer_inv s slot (w + 1) true hi
  have e1 : (initTimer s slot (w + 1) true).1 = ((disable s slot).1.setObj slot
      { (disable s slot).1.obj slot with interval := w + 1, oneshot := true, inited := true }) := by
    unfold initTimer; simp [ha]
  have hal : ((initTimer s slot (w + 1) true).1.obj slot).alive = true := by
    rw [e1]; simp [disable_alive, ha]
  have hin : ((initTimer s slot (w + 1) true).1.obj slot).inited = true := by rw [e1]; simp
  have hiv : ((initTimer s slot (w + 1) true).1.obj slot).interval = w + 1 := by rw [e1]; simp
  have hos : ((initTimer s slot (w + 1) true).1.obj slot).oneshot = true := by rw [e1]; simp
  have hnow : (initTimer s slot (w + 1) true).1.now = s.now := by rw [e1]; simp [(disable_fields s slot).1]
  have hen : ((initTimer s slot (w + 1) true).1.obj slot).enabled = false := by
    rw [e1]; simp
    rcases disable_not_enabled s slot ha with h | h
    · exact h
    · -- not initialised: the object cannot be enabled (no record may belong to it), `disable` left it as it was
      have hd : (disable s slot).1 = s := by simp [disable, ha, h]
      rw [hd]
      cases he : (s.obj slot).enabled with
      | false => rfl
      | true =>
        obtain ⟨r, hr, ho⟩ := hi.hasRec slot ha he
        have := (hi.recs r hr).inited; rw [ho, h] at this; cases this
  have hrun : runScript s (exitLoopActs slot (w + 1)) = (enable (initTimer s slot (w + 1) true).1 slot).1 := by
    simp [exitLoopActs, runScript, act]
  rw [hrun]
  obtain ⟨r, hr, ho, hex, hk, hb, _⟩ := C02_reenable_fresh (initTimer s slot (w + 1) true).1 slot hal hin hen
  have hi2 := enable_inv _ slot hs1
  refine ⟨r, hr, ho, by rw [hex, hnow, hiv], by rw [hb, hnow], hk, ?_, ?_⟩
  · have := (hi2.recs r hr).oneshot
    rw [ho] at this
    rw [← this]
    simp [enable, hal, hin, hen, hos]
  · intro q hq hqo
    exact tok_inj hi2.nodup hq hr (owner_unique hi2 hq hr (hqo.trans ho.symm))

/-- **exitLoop(0) (and the first half of every exitLoop) disarms**: afterwards no record belongs to the slot, so the old
exit timer can never stop the loop — also when it was the heap front and due in the running pass. -/
theorem C02_exit_zero_disarms (s : State) (slot : Nat) (hi : Inv s) (ha : (s.obj slot).alive = true) :
    ∀ r ∈ (runScript s (exitLoopActs slot 0)).timers, r.owner ≠ slot := by
  have hrun : runScript s (exitLoopActs slot 0) = (disable s slot).1 := by simp [exitLoopActs, runScript, act]
  rw [hrun]
  have hi1 := disable_inv s slot hi
  rcases disable_not_enabled s slot ha with h | h
  · exact no_rec_of_not_enabled hi1 h
  · intro r hr ho
    have := (hi1.recs r hr).inited
    have hd : (disable s slot).1 = s := by simp [disable, ha, h]
    rw [hd] at this hr
    rw [ho, h] at this; cases this

/-- the exit timer never stops the loop early, stops it once per `exitLoop` call, in deadline order with the user's timers:
the instance of `C02_callbacks_legit` for the slot (its callback IS `stopLoop()`). -/
theorem C02_exit_not_early (sts : List Step) (s : State) (slot : Nat) (he : exec init sts = some s) :
    ∀ e ∈ s.log, e.obj = slot → e.base + e.n * e.interval ≤ e.passNow ∧ e.okAtCall = true ∧ e.prevDeadline ≤ e.deadline ∧
      (e.oneshot = true → e.n = 1) :=
  fun e h _ => ⟨(C02_callbacks_legit sts s he e h).notEarly, (C02_callbacks_legit sts s he e h).okAtCall,
                (C02_callbacks_legit sts s he e h).ordered, (C02_callbacks_legit sts s he e h).once⟩

/-- non-vacuity: slot 0, a user timer 1 (5 ms); exitLoop(7), then exitLoop(3) at t = 6 replaces it: one slot record, due at 9 -/
example : ((exec init [.newObj [], .newObj [], .api (.init 1 5 false), .api (.enable 1)]).map fun s =>
    let s1 := runScript s (exitLoopActs 0 7)
    let s2 := runScript { s1 with now := s1.now + 5 } (exitLoopActs 0 3)
    (s2.timers.filter (fun r => r.owner == 0)).map fun r => (r.expired, r.base, r.oneshot)) = some [(9, 6, true)] := by decide

/-! ### round 5: only the LAST `exitLoop` counts · `cleanup()` then reuse · negative exit waits

`avoidsSteps slot post` / `avoidsList slot rest` (decidable, `ExitLast.lean`): no call of the continuation — made outside
callbacks, inside callbacks, inside the callbacks of timers created by callbacks, at any depth, TimerPool calls included —
addresses the slot, i.e. there is no further `exitLoop`.  `hsc` says the same of the callbacks already installed on objects
that are still alive (a destroyed timer's callback can never run again: `C02_destroyed_never_fires`). -/

/-- **only the last `exitLoop(w)`, w ≥ 1, counts.**  `s` is ANY state the model can be in (`Inv s`: reached by any history,
with any number of earlier `exitLoop(w_i)` calls made outside or inside callbacks, the exit timer pending, due, fired or
never armed; `s` may be in the middle of a pass and in the middle of a callback).  The call is made at clock reading `s.now`;
`rest` is the remainder of the callback that made it.  Then in EVERY continuation without a further `exitLoop`:
the slot's callback (`stopLoop()`) has run at most once since the call; if it has, that was the firing of THIS call's timer —
enablement base `s.now`, wait `w+1`, served on the deadline `s.now + w + 1` exactly, in a pass that read the clock at or
after it, on an alive, enabled object (no earlier call's deadline ever stops the loop, however many were pending or due) —
and once a pass that read the clock at `t' ≥ s.now + w + 1` has ended, it HAS run: the loop exits at the deadline of the
last call. -/
theorem C02_exit_last_call_wins (s s' : State) (slot w : Nat) (rest : List Act) (post : List Step)
    (hi : Inv s) (hlt : slot < s.nObjs) (hnp : slot ∉ s.pool) (ha : (s.obj slot).alive = true)
    (hsc : ∀ i, (s.obj i).alive = true → avoidsList slot (s.obj i).script = true)
    (hrest : avoidsList slot rest = true) (hpost : avoidsSteps slot post = true)
    (he : exec (runScript (runScript s (exitLoopActs slot (w + 1))) rest) post = some s') :
    ∃ nw, s'.log = nw ++ s.log ∧
      (nw.filter (fun e => e.obj == slot) = [] ∨
       ∃ e, nw.filter (fun e => e.obj == slot) = [e] ∧ e.base = s.now ∧ e.interval = w + 1 ∧ e.n = 1 ∧
         e.deadline = s.now + (w + 1) ∧ s.now + (w + 1) ≤ e.passNow ∧ e.okAtCall = true) ∧
      (∀ t', s'.passNow = some t' → valid s' .endPass = true → s.now + (w + 1) ≤ t' →
        ∃ e, nw.filter (fun e => e.obj == slot) = [e]) := by
  -- the state right after the call
  have hacts : exitLoopActs slot (w + 1) = [.init slot (w + 1) true, .enable slot] := by simp [exitLoopActs]
  have hi2 : Inv (runScript s (exitLoopActs slot (w + 1))) := runScript_inv s _ hi
  have hst := runScript_stale s (exitLoopActs slot (w + 1)) slot hlt hnp
  have hsa : ScrAvoid slot (runScript s (exitLoopActs slot (w + 1))) := by
    rw [hacts]
    exact sa_act slot _ _ (Or.inr (Or.inr (Or.inl rfl))) (sa_act slot s _ (Or.inr (Or.inl ⟨_, _, rfl⟩)) hsc)
  obtain ⟨r, hr, hro, hex, hb, hk, hos, huniq⟩ := C02_exit_arms_fresh s slot w hi ha
  have ok := hi2.recs r hr
  have hiv : r.interval = w + 1 := by
    have := ok.deadline; rw [hex, hb, hk] at this; omega
  have x0 : XT slot s.now (w + 1) false s.log (runScript s (exitLoopActs slot (w + 1))) := by
    refine ⟨⟨hi2, hst.1, hst.2, hsa⟩, by have := ok.alive; rw [hro] at this; exact this, [], by rw [runScript_log]; rfl,
      Or.inl ⟨?_, rfl, rfl, ?_⟩⟩
    · have := ok.enabled; rw [hro] at this; exact this
    · intro q hq hqo; rw [huniq q hq hqo]; exact ⟨hb, hiv, hos⟩
  have x2 := exec_XT post _ hpost (runScript_XT rest hrest x0) s' he
  obtain ⟨nw, e, p, q⟩ := XT_result x2
  exact ⟨nw, e, p, q rfl⟩

/-- the same for a call made outside callbacks after ANY history `pre` from the initial state (any number of earlier
`exitLoop` calls in it, from deferred functions or from timer callbacks) -/
theorem C02_exit_last_call_wins_history (pre post : List Step) (s s' : State) (slot w : Nat)
    (h1 : exec init pre = some s) (hlt : slot < s.nObjs) (hnp : slot ∉ s.pool) (ha : (s.obj slot).alive = true)
    (hsc : ∀ i, (s.obj i).alive = true → avoidsList slot (s.obj i).script = true) (hpost : avoidsSteps slot post = true)
    (he : exec (runScript s (exitLoopActs slot (w + 1))) post = some s') :
    ∃ nw, s'.log = nw ++ s.log ∧
      (nw.filter (fun e => e.obj == slot) = [] ∨
       ∃ e, nw.filter (fun e => e.obj == slot) = [e] ∧ e.base = s.now ∧ e.interval = w + 1 ∧ e.n = 1 ∧
         e.deadline = s.now + (w + 1) ∧ s.now + (w + 1) ≤ e.passNow ∧ e.okAtCall = true) ∧
      (∀ t', s'.passNow = some t' → valid s' .endPass = true → s.now + (w + 1) ≤ t' →
        ∃ e, nw.filter (fun e => e.obj == slot) = [e]) :=
  C02_exit_last_call_wins s s' slot w [] post (exec_inv init pre init_inv s h1) hlt hnp ha hsc rfl hpost he

/-- **a last `exitLoop(0)` is final**: it stops the loop at the call (`wait_time.count() == 0` → `stopLoop()`), and whatever exit
timer was pending — armed by any earlier call, even due in the running pass — never stops the loop afterwards: in every
continuation without a further `exitLoop` the slot's callback never runs. -/
theorem C02_exit_zero_final (s s' : State) (slot : Nat) (rest : List Act) (post : List Step)
    (hi : Inv s) (hlt : slot < s.nObjs) (hnp : slot ∉ s.pool) (ha : (s.obj slot).alive = true)
    (hsc : ∀ i, (s.obj i).alive = true → avoidsList slot (s.obj i).script = true)
    (hrest : avoidsList slot rest = true) (hpost : avoidsSteps slot post = true)
    (he : exec (runScript (runScript s (exitLoopActs slot 0)) rest) post = some s') :
    ∃ nw, s'.log = nw ++ s.log ∧ nw.filter (fun e => e.obj == slot) = [] := by
  have hrun : runScript s (exitLoopActs slot 0) = (disable s slot).1 := by simp [exitLoopActs, runScript, act]
  have hi2 : Inv (disable s slot).1 := disable_inv s slot hi
  have hst := runScript_stale s (exitLoopActs slot 0) slot hlt hnp
  rw [hrun] at hst he
  have hen : ((disable s slot).1.obj slot).enabled = false := by
    rcases disable_not_enabled s slot ha with h | h
    · exact h
    · have hd : (disable s slot).1 = s := by simp [disable, ha, h]
      rw [hd]
      cases hen : (s.obj slot).enabled with
      | false => rfl
      | true =>
        obtain ⟨r, hr, ho⟩ := hi.hasRec slot ha hen
        have := (hi.recs r hr).inited; rw [ho, h] at this; cases this
  have x0 : XT slot 0 0 true s.log (disable s slot).1 := by
    refine ⟨⟨hi2, hst.1, hst.2, sa_disable slot s slot hsc⟩, by rw [disable_alive]; exact ha, [], by rw [disable_log]; rfl,
      Or.inr (Or.inr ⟨hen, rfl, rfl⟩)⟩
  have x2 := exec_XT post _ hpost (runScript_XT rest hrest x0) s' he
  obtain ⟨nw, e, p⟩ := x2.ph
  refine ⟨nw, e, ?_⟩
  rcases p with ⟨_, b, _⟩ | ⟨_, _, _, _, _, _, hz⟩ | ⟨_, b, _⟩
  · exact b
  · cases hz
  · exact b

/-- **`cleanup()` leaves a fresh pool.**  In a TimerPool-only execution (any history: timers pending, fired, cancelled,
re-armed from callbacks; `s` may be inside a pass — `cleanup()` called from a timer callback is the `.cleanup` act of a
script), right after `cleanup()`: no token is live, no TimerEvent is alive, the loop's heap holds NO record — so
`getWaitTime` sees an empty heap and nothing of before the cleanup can ever be served — while the clock and the callback
log are untouched.  Every later call on an old object is a no-op (`act` checks `alive` first), old tokens stay dead
(`C02_pool_stale_token`, by the cabinet contract of C08: tokens are never reissued). -/
theorem C02_pool_cleanup_fresh (pre : List Step) (s : State) (hpu : puSteps pre = true) (h1 : exec init pre = some s) :
    (Pool.cleanup s).pool = [] ∧ (∀ j, ((Pool.cleanup s).obj j).alive = false) ∧ (Pool.cleanup s).timers = [] ∧
    (Pool.cleanup s).log = s.log ∧ (Pool.cleanup s).now = s.now ∧ s.nObjs ≤ (Pool.cleanup s).nObjs := by
  have hi := exec_inv init pre init_inv s h1
  have hx := exec_aux init pre init_inv init_aux s h1
  have hso := exec_sok init pre hpu init_inv init_sok s h1
  have hap := exec_ap init pre hpu init_inv init_aux init_sok init_ap s h1
  obtain ⟨a, b, c⟩ := cleanup_fresh s hi hx hap
  have hq := act_quiet s .cleanup
  refine ⟨a, b, c, hq.1, ?_, hq.2.1⟩
  have : ∀ (l : List Nat) (s : State), (l.foldl (fun st k => (destroy (disable st k).1 k).1) s).now = s.now := by
    intro l
    induction l with
    | nil => intro s; rfl
    | cons k l ih =>
      intro s
      simp only [List.foldl]
      rw [ih]
      have h2 : (destroy (disable s k).1 k).1.now = (disable s k).1.now := by
        simp only [destroy]; split
        · rfl
        · simp [(disable_fields _ k).1]
      rw [h2, (disable_fields s k).1]
  simp only [Pool.cleanup]
  exact this s.pool s

/-- **the first `doAfter` / `doEvery` after `cleanup()` behaves as on a fresh pool**: its record is the ONLY one in the heap, due
exactly `d` ms after the call (a full interval: nothing of the old timers' deadlines is inherited), its token is the one
live token, and it is a new one (≥ every token handed out before the cleanup). -/
theorem C02_pool_first_after_cleanup (pre : List Step) (s : State) (d : Nat) (os : Bool) (u : List Act)
    (hpu : puSteps pre = true) (h1 : exec init pre = some s) :
    let c := Pool.cleanup s
    let p := Pool.add c d os u
    p.2 = c.nObjs ∧ s.nObjs ≤ p.2 ∧ p.1.pool = [p.2] ∧
    ∃ r, p.1.timers = [r] ∧ r.owner = p.2 ∧ r.expired = s.now + d ∧ r.base = s.now ∧ r.k = 0 ∧ r.oneshot = os := by
  obtain ⟨a, _, c, _, e, f⟩ := C02_pool_cleanup_fresh pre s hpu h1
  refine ⟨rfl, f, ?_, ?_⟩
  · rw [(add_pk _ d os u).1, a]; rfl
  · refine ⟨⟨(Pool.cleanup s).nextTok, (Pool.cleanup s).nObjs, (Pool.cleanup s).now + d, d, os, (Pool.cleanup s).now, 0⟩, ?_, rfl, ?_, e, rfl, rfl⟩
    · simp [Pool.add, newObjS, initTimer, disable, enable, State.obj, State.setObj, c]
    · show (Pool.cleanup s).now + d = s.now + d
      rw [e]

/-- **`cleanup()` then reuse, whole histories.**  TimerPool-only history `pre`, `cleanup()`, any TimerPool-only `mid`, then
`doAfter(d, u)`, then any TimerPool-only `post`: the new timer satisfies the full doAfter contract (token = fresh serial,
at most once, not before t + d, exactly once after a pass at t' ≥ t + d unless cancelled) exactly as on a pool that never
had a cleanup, AND every token that was live when `cleanup()` was called stays dead to the end and none of those timers
is ever called back after the cleanup. -/
theorem C02_pool_reuse_after_cleanup (pre mid post : List Step) (s0 s s' : State) (d : Nat) (u : List Act)
    (hpre : puSteps pre = true) (hmid : puSteps mid = true) (hu : puList u = true) (hpost : puSteps post = true)
    (h0 : exec init pre = some s0) (h1 : exec s0 (.api .cleanup :: mid) = some s)
    (h2 : exec s (.api (.doAfter d u) :: post) = some s') :
    ((Pool.doAfter s d u).2 = s.nObjs ∧ s0.nObjs ≤ s.nObjs ∧
     (s'.log.filter (fun e => e.obj == s.nObjs)).length ≤ 1 ∧
     (∀ e ∈ s'.log, e.obj = s.nObjs → s.now + d ≤ e.passNow) ∧
     (∀ t', s'.passNow = some t' → valid s' .endPass = true → s.now + d ≤ t' →
       (s'.log.filter (fun e => e.obj == s.nObjs)).length = 1 ∨
       ((s'.log.filter (fun e => e.obj == s.nObjs)).length = 0 ∧ s.nObjs ∈ s'.killed))) ∧
    (∀ k, Pool.live s0 k = true → k < s.nObjs ∧ Pool.live s k = false ∧ Pool.live s' k = false ∧
       ∀ e ∈ s'.log.take (s'.log.length - s0.log.length), e.obj ≠ k) := by
  have hall : exec init (pre ++ .api .cleanup :: mid) = some s := by rw [exec_append, h0]; exact h1
  have hpu : puSteps (pre ++ .api .cleanup :: mid) = true := by
    simp only [puSteps, List.all_append, List.all_cons, Bool.and_eq_true] at hpre hmid ⊢
    exact ⟨hpre, by simp [Step.pu, Act.pu], hmid⟩
  obtain ⟨a1, a2, a3, _, a5⟩ := C02_pool_doAfter_once (pre ++ .api .cleanup :: mid) post s s' d u hpu hu hpost hall h2
  have hx0 := exec_aux init pre init_inv init_aux s0 h0
  have hmono : ∀ (sts : List Step) (a b : State), exec a sts = some b → a.nObjs ≤ b.nObjs := by
    intro sts
    induction sts with
    | nil => intro a b h; simp [exec] at h; rw [h]; exact Nat.le_refl _
    | cons st sts ih =>
      intro a b h
      simp only [exec] at h
      split at h
      · refine Nat.le_trans ?_ (ih _ _ h)
        cases st with
        | newObj sc => exact Nat.le_succ _
        | api x => exact (act_quiet a x).2.1
        | advance _ => exact Nat.le_refl _
        | beginPass => exact Nat.le_refl _
        | endPass => exact Nat.le_refl _
        | fire tok =>
          simp only [step]
          cases hf : findTok a tok with
          | none => exact Nat.le_refl _
          | some r =>
            simp only
            rw [fire_eq]
            have := (fireHead_pk a r).2.2
            have h3 : ∀ (as : List Act) (x : State), x.nObjs ≤ (runScript x as).nObjs := by
              intro as
              induction as with
              | nil => intro x; exact Nat.le_refl _
              | cons y ys ih2 => intro x; exact Nat.le_trans (act_quiet x y).2.1 (ih2 _)
            exact this ▸ h3 _ _
      · cases h
  have hn01 : s0.nObjs ≤ s.nObjs := hmono _ _ _ h1
  refine ⟨⟨a1, hn01, a2, a3, a5⟩, ?_⟩
  intro k hk
  have hlt : k < s0.nObjs := hx0.poolLt k ((live_iff s0 k).1 hk)
  have hlong : exec s0 (.api .cleanup :: (mid ++ .api (.doAfter d u) :: post)) = some s' := by
    have : (Step.api Act.cleanup :: (mid ++ .api (.doAfter d u) :: post)) = (.api .cleanup :: mid) ++ (.api (.doAfter d u) :: post) := rfl
    rw [this, exec_append, h1]; exact h2
  obtain ⟨b1, b2⟩ := C02_pool_cleanup pre (mid ++ .api (.doAfter d u) :: post) s0 s' h0 hlong k hk
  obtain ⟨c1, _⟩ := C02_pool_cleanup pre mid s0 s h0 h1 k hk
  exact ⟨Nat.lt_of_lt_of_le hlt hn01, c1, b1, b2⟩

/-- **negative exit waits** (outside the property, d ≥ 1; what the code does): `exitLoop(milliseconds(w))` with `w < 0` does NOT
stop the loop at the call (`count() != 0`) but arms an exit timer whose 64-bit deadline is `now − |w|` (mod 2^64): while
`|w| ≤ now` — always, on a steady clock that counts from boot — it is due at once: the loop exits in the very next pass;
if `|w| > now` the deadline wraps to `2^64 − (|w| − now)` and the loop is never stopped by it. -/
theorem C02_wide_exit_negative (A : Wide.Algs) (x : Wide.XState) (slot : Nat) (w : Int64) (hneg : w.toInt < 0) :
    (Wide.xExitLoop A x slot w).2 = false ∧
    (Wide.xExitLoop A x slot w).1 = (Wide.xEnable A (Wide.xInit A x slot w true).1 slot).1 ∧
    ((-w.toInt).toNat ≤ x.now.toNat → Wide.due x.now (x.now + Wide.intervalArg w) = true) ∧
    (x.now.toNat < (-w.toInt).toNat → ∀ now' : UInt64, now'.toNat < 2^63 → Wide.due now' (x.now + Wide.intervalArg w) = false) := by
  have hne : (w == 0) = false := by
    rw [beq_eq_false_iff_ne]; intro e; rw [e] at hneg; exact absurd hneg (by decide)
  obtain ⟨h1, h2⟩ := Wide.C02_wide_negative_interval x.now w hneg
  refine ⟨by simp [Wide.xExitLoop, hne], by simp [Wide.xExitLoop, hne], ?_, ?_⟩
  · intro hle; rw [Wide.due_iff, h1 hle]; simp
  · intro hlt now' hn
    rw [Wide.due_iff, h2 hlt]
    have := Int64.le_toInt w
    simp only [decide_eq_false_iff_not]
    omega

/-- … and `exitLoop(0)` stops at the call; for a count ≥ 1 the width-faithful `exitLoop` is the slot script of the abstract model -/
theorem C02_wide_exit_is_slot_script (A : Wide.Algs) (x : Wide.XState) (slot : Nat) :
    (Wide.xExitLoop A x slot 0) = ((Wide.xRunScript A x (exitLoopActs slot 0)), true) ∧
    ∀ w, w + 1 < 2^63 → Wide.xExitLoop A x slot (Wide.msArg (w + 1)) = ((Wide.xRunScript A x (exitLoopActs slot (w + 1))), false) := by
  constructor
  · rfl
  · intro w hw
    have hne : (Wide.msArg (w + 1) == 0) = false := by
      rw [beq_eq_false_iff_ne]; intro e
      have : (Wide.msArg (w + 1)).toInt = 0 := by rw [e]; rfl
      unfold Wide.msArg at this
      rw [Int64.toInt_ofNat_of_lt (by omega)] at this
      omega
    simp [Wide.xExitLoop, hne, exitLoopActs, Wide.xRunScript, Wide.xAct]

/-- non-vacuity of `C02_exit_last_call_wins`: slot 0; a user timer 1 (5 ms, persistent) whose callback does not touch the slot;
exitLoop(7) at t = 1, exitLoop(20) at t = 6 (replaces), exitLoop(3) at t = 8 (the LAST): late pass at t = 30 — both earlier
deadlines (8 and 26) are over, yet the slot fires once, for the deadline 11 of the last call -/
def exitDemoPre : List Step :=
  [.newObj [], .newObj [], .api (.init 1 5 false), .api (.enable 1), .api (.init 0 7 true), .api (.enable 0), .advance 5,
   .api (.init 0 20 true), .api (.enable 0), .advance 2]
def exitDemoPost : List Step := [.advance 22, .beginPass, .fire 1, .fire 4, .fire 1, .fire 1, .fire 1, .fire 1, .endPass]

example : avoidsSteps 0 exitDemoPost = true := by decide
example : ((exec init exitDemoPre).bind fun s => (exec (runScript s (exitLoopActs 0 3)) exitDemoPost).map fun s' =>
    (s.now, (s'.log.filter fun e => e.obj == 0).map fun e => (e.base, e.interval, e.deadline, e.passNow))) =
    some (8, [(8, 3, 11, 30)]) := by decide
/-- non-vacuity of the TimerPool cleanup theorems: two pending timers, cleanup, a doAfter(4) at t = 3: one record, due at 7, token 2 -/
example : ((exec init [.api (.doAfter 5 []), .api (.doEvery 2 []), .advance 2]).map fun s =>
    let p := Pool.add (Pool.cleanup s) 4 true []
    (p.2, p.1.pool, p.1.timers.map fun r => (r.owner, r.expired), (Pool.cleanup s).timers.length)) = some (2, [2], [(2, 7)], 0) := by decide

end Tbox.C02
