/- C02 — a pass of `handleExpiredTimers` terminates (measure argument), for intervals ≥ 1. -/
import TboxModel.C02.Proofs
namespace Tbox.C02

/-- every record and every initialised object has interval ≥ 1; every stored callback script is `pos` -/
structure PosIntervals (s : State) : Prop where
  recs : ∀ r ∈ s.timers, 1 ≤ r.interval
  objs : ∀ j, (s.obj j).inited = true → 1 ≤ (s.obj j).interval
  scripts : ∀ j, posList (s.obj j).script = true

theorem init_pos : PosIntervals init :=
  ⟨by simp [init], by simp [init, State.obj], by simp [init, State.obj, posList]⟩

/-- contribution of one record to the pass measure: the number of times it is due up to `t` -/
def contrib (t : Nat) (r : Rec) : Nat := if r.expired ≤ t then (t - r.expired) / r.interval + 1 else 0

def muL (t : Nat) : List Rec → Nat
  | [] => 0
  | r :: l => contrib t r + muL t l

/-- μ: Σ over due records of ((t − expired)/interval + 1), t = the clock reading of the running pass -/
def mu (s : State) : Nat :=
  match s.passNow with
  | some t => muL t s.timers
  | none => 0

theorem muL_filter_le (t : Nat) (p : Rec → Bool) (l : List Rec) : muL t (l.filter p) ≤ muL t l := by
  induction l with
  | nil => exact Nat.le_refl _
  | cons x l ih =>
    simp only [List.filter]
    split
    · simp only [muL]; omega
    · simp only [muL]; omega

theorem muL_remove (t : Nat) (r : Rec) (l : List Rec) (hr : r ∈ l) :
    muL t (l.filter (fun q => q.tok != r.tok)) + contrib t r ≤ muL t l := by
  induction l with
  | nil => cases hr
  | cons x l ih =>
    simp only [List.filter]
    by_cases hx : x.tok = r.tok
    · have : (x.tok != r.tok) = false := by simp [hx]
      simp only [this, muL]
      rcases List.mem_cons.1 hr with rfl | hr'
      · have := muL_filter_le t (fun q => q.tok != r.tok) l; omega
      · have := ih hr'; omega
    · have : (x.tok != r.tok) = true := by simp [hx]
      simp only [this, muL]
      rcases List.mem_cons.1 hr with rfl | hr'
      · exact absurd rfl hx
      · have := ih hr'; omega

theorem contrib_rearm (t : Nat) (r : Rec) (hd : 1 ≤ r.interval) (hdue : r.expired ≤ t) :
    contrib t { r with expired := r.expired + r.interval, k := r.k + 1 } + 1 ≤ contrib t r := by
  simp only [contrib, hdue, ↓reduceIte]
  split
  · rename_i h2
    have e : t - r.expired = (t - (r.expired + r.interval)) + r.interval := by omega
    rw [e, Nat.add_div_right _ (by omega : 0 < r.interval)]
    omega
  · generalize (t - r.expired) / r.interval = x; omega

/-! ### effect of the primitives -/

theorem disable_obj_same (s : State) (j i : Nat) :
    ((disable s j).1.obj i).inited = (s.obj i).inited ∧ ((disable s j).1.obj i).interval = (s.obj i).interval ∧
    ((disable s j).1.obj i).script = (s.obj i).script := by
  by_cases hij : i = j
  · subst hij
    by_cases ha : (s.obj i).alive = true <;> by_cases hi : (s.obj i).inited = true <;>
      by_cases he : (s.obj i).enabled = true <;> simp_all [disable, State.obj, State.setObj]
  · rw [disable_obj_other s j i hij]; exact ⟨rfl, rfl, rfl⟩

theorem filter_tt (l : List Rec) : l.filter (fun _ => true) = l := by
  induction l with
  | nil => rfl
  | cons x l ih => simp only [List.filter, ih]

theorem disable_timers (s : State) (j : Nat) : ∃ p : Rec → Bool, (disable s j).1.timers = s.timers.filter p := by
  by_cases ha : (s.obj j).alive = true <;> by_cases hi : (s.obj j).inited = true <;>
    by_cases he : (s.obj j).enabled = true <;>
    simp only [disable, ha, hi, he, Bool.not_true, Bool.not_false, Bool.false_eq_true, ↓reduceIte]
  · cases (s.obj j).token with
    | none => exact ⟨fun _ => true, (filter_tt _).symm⟩
    | some t => exact ⟨_, rfl⟩
  all_goals exact ⟨fun _ => true, (filter_tt _).symm⟩

theorem disable_pos (s : State) (j : Nat) (h : PosIntervals s) : PosIntervals (disable s j).1 := by
  obtain ⟨p, hp⟩ := disable_timers s j
  refine ⟨?_, ?_, ?_⟩
  · intro r hr; rw [hp] at hr; exact h.recs r (List.mem_filter.1 hr).1
  · intro i hi; rw [(disable_obj_same s j i).1] at hi; rw [(disable_obj_same s j i).2.1]; exact h.objs i hi
  · intro i; rw [(disable_obj_same s j i).2.2]; exact h.scripts i

theorem setObj_pos (s : State) (j : Nat) (o : Obj) (h : PosIntervals s)
    (h1 : o.inited = true → 1 ≤ o.interval) (h2 : posList o.script = true) : PosIntervals (s.setObj j o) := by
  refine ⟨h.recs, ?_, ?_⟩
  · intro i hi
    by_cases hij : i = j
    · subst hij; simp only [obj_setObj, ↓reduceIte] at hi ⊢; exact h1 hi
    · simp only [obj_setObj, hij, ↓reduceIte] at hi ⊢; exact h.objs i hi
  · intro i
    by_cases hij : i = j
    · subst hij; simp only [obj_setObj, ↓reduceIte]; exact h2
    · simp only [obj_setObj, hij, ↓reduceIte]; exact h.scripts i

def Good (s : State) : Prop := Inv s ∧ PosIntervals s

/-- a call made while a pass runs never increases the measure (and keeps `Good`) -/
def Shrinks (s s' : State) : Prop :=
  Good s → Good s' ∧ s'.passNow = s.passNow ∧ ∀ t, s.passNow = some t → muL t s'.timers ≤ muL t s.timers

theorem shrinks_refl (s : State) : Shrinks s s := fun h => ⟨h, rfl, fun _ _ => Nat.le_refl _⟩

theorem shrinks_trans (a b c : State) (h1 : Shrinks a b) (h2 : Shrinks b c) : Shrinks a c := by
  intro ha
  obtain ⟨hb, hpb, hmb⟩ := h1 ha
  obtain ⟨hc, hpc, hmc⟩ := h2 hb
  refine ⟨hc, hpc.trans hpb, ?_⟩
  intro t ht
  exact Nat.le_trans (hmc t (hpb.trans ht)) (hmb t ht)

theorem disable_shrinks (s : State) (j : Nat) : Shrinks s (disable s j).1 := by
  intro h
  obtain ⟨p, hp⟩ := disable_timers s j
  exact ⟨⟨disable_inv s j h.1, disable_pos s j h.2⟩, (disable_fields s j).2.2.1,
    fun t _ => by rw [hp]; exact muL_filter_le t p _⟩

theorem initTimer_shrinks (s : State) (j ms : Nat) (o : Bool) (hms : 1 ≤ ms) : Shrinks s (initTimer s j ms o).1 := by
  intro h
  have hi := initTimer_inv s j ms o h.1
  unfold initTimer at hi ⊢
  split
  · exact ⟨h, rfl, fun _ _ => Nat.le_refl _⟩
  · rename_i ha
    simp only [ha, Bool.false_eq_true, ↓reduceIte] at hi
    obtain ⟨hg, hp, hm⟩ := disable_shrinks s j h
    refine ⟨⟨hi, ?_⟩, hp, hm⟩
    exact setObj_pos _ j _ hg.2 (fun _ => hms) (hg.2.scripts j)

theorem destroy_shrinks (s : State) (j : Nat) : Shrinks s (destroy s j).1 := by
  intro h
  have hi := destroy_inv s j h.1
  unfold destroy at hi ⊢
  split
  · exact ⟨h, rfl, fun _ _ => Nat.le_refl _⟩
  · rename_i ha
    simp only [ha, Bool.false_eq_true, ↓reduceIte] at hi
    obtain ⟨hg, hp, hm⟩ := disable_shrinks s j h
    refine ⟨⟨hi, ?_⟩, hp, hm⟩
    exact setObj_pos _ j _ hg.2 (hg.2.objs j) (hg.2.scripts j)

theorem enable_shrinks (s : State) (j : Nat) : Shrinks s (enable s j).1 := by
  intro h
  have hi := enable_inv s j h.1
  unfold enable at hi ⊢
  by_cases ha : (s.obj j).alive = true <;> simp only [ha, Bool.not_true, Bool.not_false, Bool.false_eq_true, ↓reduceIte] at hi ⊢
  · by_cases hin : (s.obj j).inited = true <;> simp only [hin, Bool.not_true, Bool.not_false, Bool.false_eq_true, ↓reduceIte] at hi ⊢
    · by_cases he : (s.obj j).enabled = true <;> simp only [he, Bool.false_eq_true, ↓reduceIte] at hi ⊢
      · exact ⟨h, trivial, fun _ _ => Nat.le_refl _⟩
      · have hd := h.2.objs j hin
        refine ⟨⟨hi, ?_⟩, rfl, ?_⟩
        · refine setObj_pos _ j _ ⟨?_, h.2.objs, h.2.scripts⟩ (fun _ => hd) (h.2.scripts j)
          intro r hr
          rcases List.mem_cons.1 hr with rfl | hr
          · exact hd
          · exact h.2.recs r hr
        · intro t ht
          have hle := h.1.passLe t ht
          simp only [setObj_timers, muL, contrib]
          rw [if_neg (by show ¬ (s.now + (s.obj j).interval ≤ t); omega)]
          omega
    · exact ⟨h, trivial, fun _ _ => Nat.le_refl _⟩
  · exact ⟨h, trivial, fun _ _ => Nat.le_refl _⟩

theorem newObjS_shrinks (s : State) (sc : List Act) (hsc : posList sc = true) : Shrinks s (newObjS s sc) := by
  intro h
  refine ⟨⟨newObjS_inv s sc h.1, ?_⟩, rfl, fun _ _ => Nat.le_refl _⟩
  have := setObj_pos s s.nObjs { script := sc } h.2 (by simp) hsc
  exact ⟨this.recs, this.objs, this.scripts⟩

theorem pool_shrinks (s : State) (p k : List Nat) : Shrinks s { s with pool := p, killed := k } := by
  intro h
  exact ⟨⟨inv_pool s p k h.1, ⟨h.2.recs, h.2.objs, h.2.scripts⟩⟩, rfl, fun _ _ => Nat.le_refl _⟩

theorem act_shrinks (s : State) (a : Act) (hp : a.pos = true) : Shrinks s (act s a).1 :=
  act_ind_pos Shrinks shrinks_refl shrinks_trans disable_shrinks initTimer_shrinks enable_shrinks destroy_shrinks
    newObjS_shrinks pool_shrinks s a hp

theorem runScript_shrinks (s : State) (as : List Act) (hp : posList as = true) : Shrinks s (runScript s as) := by
  induction as generalizing s with
  | nil => exact shrinks_refl s
  | cons a as ih =>
    simp only [posList, Bool.and_eq_true] at hp
    exact shrinks_trans _ _ _ (act_shrinks s a hp.1) (ih _ hp.2)

/-! ### one iteration of the loop strictly decreases the measure -/

theorem fireHead_pos (s : State) (r : Rec) (h : PosIntervals s) (hr : r ∈ s.timers) : PosIntervals (fireHead s r) := by
  have hd := h.recs r hr
  have hrecs : ∀ q ∈ (if r.oneshot then s.timers.filter (fun q => q.tok != r.tok)
      else { r with expired := r.expired + r.interval, k := r.k + 1 } :: s.timers.filter (fun q => q.tok != r.tok)),
      1 ≤ q.interval := by
    intro q hq
    split at hq
    · exact h.recs q (List.mem_filter.1 hq).1
    · rcases List.mem_cons.1 hq with rfl | hq
      · exact hd
      · exact h.recs q (List.mem_filter.1 hq).1
  unfold fireHead
  simp only
  split
  · refine setObj_pos _ _ _ ⟨hrecs, h.objs, h.scripts⟩ ?_ (h.scripts r.owner)
    exact h.objs r.owner
  · exact ⟨hrecs, h.objs, h.scripts⟩

theorem fireHead_fields (s : State) (r : Rec) :
    (fireHead s r).passNow = s.passNow ∧ (fireHead s r).nextTok = s.nextTok ∧ (fireHead s r).now = s.now ∧
    (fireHead s r).timers = (if r.oneshot then s.timers.filter (fun q => q.tok != r.tok)
      else { r with expired := r.expired + r.interval, k := r.k + 1 } :: s.timers.filter (fun q => q.tok != r.tok)) := by
  unfold fireHead
  simp only
  split <;> exact ⟨rfl, rfl, rfl, rfl⟩

theorem fireHead_mu (s : State) (r : Rec) (t : Nat) (h : PosIntervals s) (hr : r ∈ s.timers) (hdue : r.expired ≤ t) :
    muL t (fireHead s r).timers + 1 ≤ muL t s.timers := by
  rw [(fireHead_fields s r).2.2.2]
  have hrm := muL_remove t r s.timers hr
  split
  · have : 1 ≤ contrib t r := by simp only [contrib, hdue, ↓reduceIte]; exact Nat.le_add_left _ _
    omega
  · have := contrib_rearm t r (h.recs r hr) hdue
    simp only [muL]; omega

/-- **variant**: serving a due record strictly decreases μ, whatever its callback script does -/
theorem fire_mu_lt (s : State) (r : Rec) (hg : Good s) (hc : canFire s r = true) :
    Good (fire s r) ∧ (fire s r).passNow = s.passNow ∧ mu (fire s r) + 1 ≤ mu s := by
  obtain ⟨t, hpn, hr, hdue, _⟩ := canFire_spec hc
  have hgh : Good (fireHead s r) := ⟨fireHead_inv s r hg.1 hc, fireHead_pos s r hg.2 hr⟩
  have hph : (fireHead s r).passNow = some t := by rw [(fireHead_fields s r).1]; exact hpn
  obtain ⟨hgf, hpf, hmf⟩ := runScript_shrinks (fireHead s r) (s.obj r.owner).script (hg.2.scripts r.owner) hgh
  rw [fire_eq]
  refine ⟨hgf, by rw [hpf, hph, hpn], ?_⟩
  have h1 := hmf t hph
  have h2 := fireHead_mu s r t hg.2 hr hdue
  simp only [mu, hpf, hph, hpn]
  omega

theorem step_fire_mu (s : State) (tok : Nat) (hg : Good s) (hv : valid s (.fire tok) = true) :
    Good (step s (.fire tok)) ∧ (step s (.fire tok)).passNow = s.passNow ∧ mu (step s (.fire tok)) + 1 ≤ mu s := by
  simp only [step, valid] at hv ⊢
  cases hf : findTok s tok with
  | none => simp [hf] at hv
  | some r => simp only [hf] at hv ⊢; exact fire_mu_lt s r hg hv

/-- any sequence of valid loop iterations inside one pass is no longer than the measure allows -/
theorem fires_bounded (toks : List Nat) (s s' : State) (hg : Good s)
    (he : exec s (toks.map Step.fire) = some s') : Good s' ∧ s'.passNow = s.passNow ∧ toks.length + mu s' ≤ mu s := by
  induction toks generalizing s with
  | nil => simp [exec] at he; subst he; exact ⟨hg, rfl, by simp⟩
  | cons tok toks ih =>
    simp only [List.map, exec] at he
    split at he
    · rename_i hv
      obtain ⟨hg1, hp1, hm1⟩ := step_fire_mu s tok hg hv
      obtain ⟨hg2, hp2, hm2⟩ := ih _ hg1 he
      refine ⟨hg2, hp2.trans hp1, ?_⟩
      simp only [List.length_cons]; omega
    · cases he

/-! ### `Good` is an invariant of executions whose intervals are all ≥ 1 -/

theorem step_good (s : State) (st : Step) (hg : Good s) (hv : valid s st = true) (hp : st.pos = true) : Good (step s st) := by
  refine ⟨step_inv s st hg.1 hv, ?_⟩
  cases st with
  | newObj sc => exact (newObjS_shrinks s sc hp hg).1.2
  | api a => exact (act_shrinks s a hp hg).1.2
  | advance d => exact ⟨hg.2.recs, hg.2.objs, hg.2.scripts⟩
  | beginPass => exact ⟨hg.2.recs, hg.2.objs, hg.2.scripts⟩
  | endPass => exact ⟨hg.2.recs, hg.2.objs, hg.2.scripts⟩
  | fire tok => exact (step_fire_mu s tok hg hv).1.2

theorem exec_good (s : State) (sts : List Step) (hg : Good s) (hp : posSteps sts = true) (s' : State)
    (he : exec s sts = some s') : Good s' := by
  induction sts generalizing s with
  | nil => simp [exec] at he; exact he ▸ hg
  | cons st sts ih =>
    simp only [posSteps, List.all_cons, Bool.and_eq_true] at hp
    simp only [exec] at he
    split at he
    · rename_i hv; exact ih _ (step_good s st hg hv hp.1) hp.2 he
    · cases he

theorem init_good : Good init := ⟨init_inv, init_pos⟩

/-! ### progress: while something is due, some iteration is enabled -/

theorem exists_min (l : List Rec) (hne : l ≠ []) : ∃ r ∈ l, ∀ q ∈ l, r.expired ≤ q.expired := by
  induction l with
  | nil => exact absurd rfl hne
  | cons x l ih =>
    by_cases hl : l = []
    · subst hl; exact ⟨x, List.mem_cons_self, fun q hq => by simp at hq; subst hq; exact Nat.le_refl _⟩
    · obtain ⟨m, hm, hmin⟩ := ih hl
      by_cases hx : x.expired ≤ m.expired
      · refine ⟨x, List.mem_cons_self, ?_⟩
        intro q hq
        rcases List.mem_cons.1 hq with rfl | hq
        · exact Nat.le_refl _
        · exact Nat.le_trans hx (hmin q hq)
      · refine ⟨m, List.mem_cons_of_mem _ hm, ?_⟩
        intro q hq
        rcases List.mem_cons.1 hq with rfl | hq
        · omega
        · exact hmin q hq

theorem find_tok_of_mem {l : List Rec} (h : l.Pairwise (fun a b => a.tok ≠ b.tok)) {r : Rec} (hr : r ∈ l) :
    l.find? (fun q => q.tok == r.tok) = some r := by
  induction l with
  | nil => cases hr
  | cons x l ih =>
    rw [List.pairwise_cons] at h
    rcases List.mem_cons.1 hr with rfl | hr'
    · simp
    · have : x.tok ≠ r.tok := h.1 r hr'
      have : (x.tok == r.tok) = false := by simp [this]
      simp only [List.find?, this]
      exact ih h.2 hr'

/-- the loop of `handleExpiredTimers` is never stuck: in a running pass either the loop condition
is false (`endPass`) or serving the front record is an enabled step -/
theorem pass_progress (s : State) (h : Inv s) (t : Nat) (hp : s.passNow = some t)
    (hne : valid s .endPass = false) : ∃ tok, valid s (.fire tok) = true := by
  simp only [valid, hp] at hne
  have : ∃ q ∈ s.timers, q.expired ≤ t := by
    simp only [List.all_eq_false, decide_eq_true_eq] at hne
    obtain ⟨q, hq, hlt⟩ := hne
    exact ⟨q, hq, by omega⟩
  obtain ⟨q, hq, hqd⟩ := this
  obtain ⟨m, hm, hmin⟩ := exists_min s.timers (List.ne_nil_of_mem hq)
  refine ⟨m.tok, ?_⟩
  simp only [valid, findTok, find_tok_of_mem h.nodup hm, canFire, hp]
  simp only [Bool.and_eq_true, decide_eq_true_eq, List.all_eq_true]
  exact ⟨⟨hm, Nat.le_trans (hmin q hq) hqd⟩, hmin⟩

end Tbox.C02
