/-
C02 — the timer core of `common_loop_timer.cpp` AT THE WIDTHS OF THE C++ CODE, on the explicit heap
of `Heap.lean`.

  now, Timer::expired, Timer::interval, Timer::repeat   uint64_t            → UInt64
  TimerEventImpl::interval_  (std::chrono::milliseconds::rep = long)        → Int64
  `addTimer(interval_.count(), …)`   long → uint64_t (timer_event_impl.cpp:67, sign conversion)
  `uint64_t GetCurrentSteadyClockMilliseconds()`  rep (long) → uint64_t (common_loop_timer.cpp:36)
  `int delay_ms = now - t->expired`   uint64_t → int (common_loop_timer.cpp:69, narrowing)
  `int64_t wait_time = front->expired - now`  uint64_t → int64_t (common_loop_timer.cpp:48)
  epoll engine: `if (wait_ms > INT_MAX) wait_ms = INT_MAX; epoll_wait(…, static_cast<int>(wait_ms))`
  select engine: `tv.tv_sec = wait_ms / 1000; tv.tv_usec = wait_ms % 1000` (sic: milliseconds stored as µs)

`WTimer.owner/base/k` are ghost fields (which TimerEventImpl armed the record, when, firings so far).  The cabinet of the loop is
rendered by its contract (C08): the live tokens are exactly the tokens of the records in the heap
(a token is freed at the two points a record leaves the vector), tokens are never reissued.
Everything here is executable; theorems are in `WideProofs.lean`.  TimerEventImpl / TimerPool / callback scripts on top of
this core, at width: `WideExec.lean` (round 4).
-/
import TboxModel.C02.Heap
namespace Tbox.C02.Wide
open Tbox.C02.Heap

structure WTimer where
  tok      : Nat
  expired  : UInt64
  interval : UInt64
  rep      : UInt64            -- `repeat`: 0 = for ever, 1 = last firing, n = n firings left
  owner    : Nat := 0          -- ghost
  base     : Nat := 0          -- ghost: clock reading at `addTimer`
  k        : Nat := 0          -- ghost: number of times the record was re-armed (= callbacks so far)
deriving Repr, DecidableEq

/-- `TimerCmp`: `x->expired > y->expired` — a min-heap on the 64-bit deadline (`<` on UInt64 is `<` on toNat) -/
def key (t : WTimer) : Nat := t.expired.toNat

abbrev Algs := HeapAlgs WTimer key

structure WLoop where
  heap    : List WTimer := []
  nextTok : Nat := 1
deriving Repr

/-- `interval_.count()` passed to `addTimer(uint64_t interval, …)` -/
def intervalArg (ms : Int64) : UInt64 := ms.toUInt64

/-- `CommonLoop::addTimer(interval, repeat, cb)` at clock reading `now`; returns the token -/
def addTimer (A : Algs) (l : WLoop) (now interval rep : UInt64) (owner : Nat := 0) : WLoop × Nat :=
  let t : WTimer := { tok := l.nextTok, expired := now + interval, interval := interval, rep := rep, owner := owner,
                      base := now.toNat }
  ({ heap := add A l.heap t, nextTok := l.nextTok + 1 }, l.nextTok)

def hasTok (tok : Nat) (t : WTimer) : Bool := t.tok == tok
def zeroDeadline (t : WTimer) : WTimer := { t with expired := 0 }

/-- `CommonLoop::deleteTimer(token)`: a dead token is a no-op; else zero the deadline, make_heap, pop_heap, pop_back -/
def deleteTimer (A : Algs) (l : WLoop) (tok : Nat) : WLoop :=
  if l.heap.any (hasTok tok) then { l with heap := delete A l.heap (hasTok tok) zeroDeadline } else l

/-- `int delay_ms = now - t->expired;` — the 64-bit difference cut to its low 32 bits, read as signed -/
def delayMs (now expired : UInt64) : Int32 := (now - expired).toInt64.toInt32

/-- `delay_ms > (water_line_.timer_delay.count() / 1000000)` (`int` promoted to `long`; nanoseconds → ms) -/
def overWaterline (d : Int32) (waterlineNs : Int64) : Bool := decide (d.toInt64 > waterlineNs / 1000000)

/-- the update made through the pointer in the else branch: `t->expired += t->interval; if (t->repeat != 0) --t->repeat;` -/
def rearm (t : WTimer) : WTimer :=
  { t with expired := t.expired + t.interval, rep := if t.rep != 0 then t.rep - 1 else t.rep, k := t.k + 1 }

structure Served where
  timer : WTimer        -- the record at the front, as it was when it was found due
  delay : Int32         -- `delay_ms`
  warn  : Bool          -- whether `LogNotice("timer delay over waterline")` is printed
deriving Repr

/-- the 64-bit due test of the loop: `if (now < t->expired) break;` -/
def due (now expired : UInt64) : Bool := !(decide (now < expired))

/-- the heap after serving the front record `t` -/
def serveHeap (A : Algs) (heap : List WTimer) (t : WTimer) : List WTimer :=
  if t.rep == 1 then popFront A heap else repush A heap rearm

/-- one iteration of the `while` loop of `handleExpiredTimers` (clock read once per pass: `now`):
`none` = the loop is left (`empty()` or `now < front->expired`), else the record whose callback runs -/
def handleOne (A : Algs) (waterlineNs : Int64) (l : WLoop) (now : UInt64) : WLoop × Option Served :=
  match l.heap with
  | [] => (l, none)
  | t :: _ =>
    if due now t.expired then
      let d := delayMs now t.expired
      ({ l with heap := serveHeap A l.heap t }, some { timer := t, delay := d, warn := overWaterline d waterlineNs })
    else (l, none)

/-- `getWaitTime()` on the front deadline -/
def waitCore (hasNext : Bool) (front : Option UInt64) (now : UInt64) : Int64 :=
  if hasNext then 0 else
  match front with
  | none => -1
  | some e =>
    let w := (e - now).toInt64
    if w < 0 then 0 else w

/-- `CommonLoop::getWaitTime()` -/
def getWaitTime (hasNext : Bool) (l : WLoop) (now : UInt64) : Int64 :=
  waitCore hasNext (l.heap.head?.map (·.expired)) now

/-- epoll engine: the `int` handed to `epoll_wait` -/
def epollTimeout (w : Int64) : Int32 := (if w > 2147483647 then 2147483647 else w).toInt32

/-- select engine: `none` = null timeval (wait for ever), else (tv_sec, tv_usec) -/
def selectTimeval (w : Int64) : Option (Int64 × Int64) :=
  if w != -1 then some (w / 1000, w % 1000) else none

/-- the change of seeded/C02-5 (NOT the repo code): the due test made on the narrowed difference -/
def dueNarrowed (now expired : UInt64) : Bool := decide (0 ≤ delayMs now expired)

/-- move a record to the front of the vector (the acceptor follows whichever of several records with
the front's deadline the real heap served; on a sorted vector this keeps the order sorted) -/
def bringFront (heap : List WTimer) (t : WTimer) : List WTimer := t :: heap.erase t

end Tbox.C02.Wide
