/-
C02 — the WHOLE timer stack at the widths of the C++ code (round 4): `TimerEventImpl`, `TimerPool` and
callback scripts on top of the width-faithful loop core of `Wide.lean` (UInt64 clock / deadlines on an
explicit heap vector used through the standard's contract `Algs`).

The machine `XState` runs the SAME step language as the abstract model (`Tbox.C02.Step`, `Tbox.C02.Act`
of `Model.lean`): API calls, clock advances, `beginPass`, `fire tok`, `endPass`, callbacks as scripts
(any nesting).  Differences to `Model.lean`, all of them the code's:
  * the interval of a TimerEventImpl is an `Int64` (`std::chrono::milliseconds::rep`), converted to
    `uint64_t` at `addTimer` (`intervalArg`); deadlines are `UInt64` sums (may wrap);
  * the pending records sit in a heap-ordered vector; `fire tok` is enabled only when the record at the
    FRONT of the vector is due at full 64-bit width and carries that token (`handleOne`): WHICH of
    several records with the same deadline is in front is decided by the heap library, not by the op list;
  * `disable` is `deleteTimer` (zero the deadline, make_heap, pop_heap, pop_back);
  * `advance d` is enabled only while the clock stays below 2^63 ms (it is an int64 count of ns).
`xInit … (ms : Int64)` takes any signed count (the wide cases of the driver use negative ones);
`Act.init j ms o` (ms : Nat) passes `Int64.ofNat ms`.
`WideSim.lean` proves that every execution of this machine is an execution of the abstract model with
the same callback log.
-/
import TboxModel.C02.Model
import TboxModel.C02.Wide
namespace Tbox.C02.Wide
open Tbox.C02 Tbox.C02.Heap

structure XObj where
  alive    : Bool := true
  inited   : Bool := false
  enabled  : Bool := false
  oneshot  : Bool := false
  interval : Int64 := 0
  token    : Option Nat := none
  script   : List Act := []

structure XState where
  loop    : WLoop := {}
  objs    : Nat → XObj := fun _ => { alive := false }
  nObjs   : Nat := 0
  now     : UInt64 := 1
  passNow : Option UInt64 := none
  log     : List Fired := []          -- newest first (same record type as the abstract model's log)
  lastDeadline : Nat := 0             -- ghost
  pool    : List Nat := []            -- TimerPool::Impl::timers_ (live tokens)

def XState.obj (x : XState) (j : Nat) : XObj := x.objs j
def XState.setObj (x : XState) (j : Nat) (o : XObj) : XState :=
  { x with objs := fun i => if i = j then o else x.objs i }

/-- `TimerEventImpl::disable` → `CommonLoop::deleteTimer` -/
def xDisable (A : Algs) (x : XState) (j : Nat) : XState × Bool :=
  let o := x.obj j
  if !o.alive then (x, false)
  else if !o.inited then (x, false)
  else if !o.enabled then (x, true)
  else
    let loop := match o.token with
      | some t => deleteTimer A x.loop t
      | none => x.loop
    ({ x with loop := loop }.setObj j { o with enabled := false }, true)

/-- `TimerEventImpl::initialize(interval, mode)` with any signed millisecond count -/
def xInit (A : Algs) (x : XState) (j : Nat) (ms : Int64) (oneshot : Bool) : XState × Bool :=
  if !(x.obj j).alive then (x, false) else
  let x1 := (xDisable A x j).1
  let o := x1.obj j
  (x1.setObj j { o with interval := ms, oneshot := oneshot, inited := true }, true)

/-- `TimerEventImpl::enable` → `CommonLoop::addTimer(interval_.count(), oneshot ? 1 : 0, …)` -/
def xEnable (A : Algs) (x : XState) (j : Nat) : XState × Bool :=
  let o := x.obj j
  if !o.alive then (x, false)
  else if !o.inited then (x, false)
  else if o.enabled then (x, true)
  else
    let p := addTimer A x.loop x.now (intervalArg o.interval) (if o.oneshot then 1 else 0) j
    ({ x with loop := p.1 }.setObj j { o with enabled := true, token := some p.2 }, true)

/-- `~TimerEventImpl` -/
def xDestroy (A : Algs) (x : XState) (j : Nat) : XState × Bool :=
  if !(x.obj j).alive then (x, false) else
  let x1 := (xDisable A x j).1
  (x1.setObj j { x1.obj j with alive := false }, true)

def xNewObj (x : XState) (sc : List Act) : XState :=
  { x.setObj x.nObjs { script := sc } with nObjs := x.nObjs + 1 }

/-- `std::chrono::milliseconds(ms)` for a count given as a natural number -/
def msArg (ms : Nat) : Int64 := Int64.ofNat ms

namespace XPool
def live (x : XState) (k : Nat) : Bool := x.pool.contains k

def add (A : Algs) (x : XState) (ms : Nat) (oneshot : Bool) (sc : List Act) : XState × Nat :=
  let j := x.nObjs
  let x1 := xNewObj x sc
  let x2 : XState := { x1 with pool := j :: x1.pool }
  let x3 := (xInit A x2 j (msArg ms) oneshot).1
  ((xEnable A x3 j).1, j)

def doEvery (A : Algs) (x : XState) (ms : Nat) (sc : List Act) : XState × Nat := add A x ms false sc
def doAfter (A : Algs) (x : XState) (ms : Nat) (sc : List Act) : XState × Nat := add A x ms true (sc ++ [.pfree x.nObjs])

def cancel (A : Algs) (x : XState) (k : Nat) : XState × Bool :=
  if live x k then
    let x1 : XState := { x with pool := x.pool.filter (fun y => y != k) }
    let x2 := (xDisable A x1 k).1
    ((xDestroy A x2 k).1, true)
  else (x, false)

def cleanup (A : Algs) (x : XState) : XState :=
  let x1 := x.pool.foldl (fun st k => (xDestroy A (xDisable A st k).1 k).1) x
  { x1 with pool := [] }

def free (A : Algs) (x : XState) (k : Nat) : XState :=
  if live x k then (xDestroy A { x with pool := x.pool.filter (fun y => y != k) } k).1 else x
end XPool

def xAct (A : Algs) (x : XState) : Act → XState × Bool
  | .init j ms o => xInit A x j (msArg ms) o
  | .enable j => xEnable A x j
  | .disable j => xDisable A x j
  | .destroy j => xDestroy A x j
  | .newObj sc => (xNewObj x sc, true)
  | .doAfter ms sc => ((XPool.doAfter A x ms sc).1, true)
  | .doEvery ms sc => ((XPool.doEvery A x ms sc).1, true)
  | .cancel k => XPool.cancel A x k
  | .cleanup => (XPool.cleanup A x, true)
  | .pfree k => (XPool.free A x k, true)

def xRunScript (A : Algs) (x : XState) : List Act → XState
  | [] => x
  | a :: as => xRunScript A (xAct A x a).1 as

/-- the state in which the callback of the served record starts: heap re-armed / popped by `handleOne`,
event logged, `TimerEventImpl::onEvent` head (a one-shot marks itself disabled and resets its token) -/
def xFireHead (x : XState) (t : UInt64) (loop' : WLoop) (r : WTimer) : XState :=
  let o := x.obj r.owner
  let ev : Fired := { obj := r.owner, passNow := t.toNat, base := r.base, n := r.k + 1, interval := r.interval.toNat,
                      okAtCall := o.alive && o.enabled, deadline := r.expired.toNat,
                      prevDeadline := x.lastDeadline, oneshot := r.rep == 1 }
  let x0 : XState := { x with loop := loop', log := ev :: x.log, lastDeadline := r.expired.toNat }
  if o.oneshot then x0.setObj r.owner { o with enabled := false, token := none } else x0

/-- one iteration of the `handleExpiredTimers` loop (clock read at `t` when the pass began) with the callback -/
def xFire (A : Algs) (wl : Int64) (x : XState) (t : UInt64) : XState :=
  match handleOne A wl x.loop t with
  | (loop', some sv) => xRunScript A (xFireHead x t loop' sv.timer) (x.obj sv.timer.owner).script
  | (_, none) => x

def xvalid (A : Algs) (wl : Int64) (x : XState) : Step → Bool
  | .newObj _ => x.passNow.isNone
  | .api _ => x.passNow.isNone
  | .advance d => decide (x.now.toNat + d < 2^63)
  | .beginPass => x.passNow.isNone
  | .fire tok => match x.passNow with
      | some t => match (handleOne A wl x.loop t).2 with
          | some sv => sv.timer.tok == tok
          | none => false
      | none => false
  | .endPass => match x.passNow with
      | some t => (handleOne A wl x.loop t).2.isNone
      | none => false

def xstep (A : Algs) (wl : Int64) (x : XState) : Step → XState
  | .newObj sc => xNewObj x sc
  | .api a => (xAct A x a).1
  | .advance d => { x with now := x.now + UInt64.ofNat d }
  | .beginPass => { x with passNow := some x.now, lastDeadline := 0 }
  | .fire _ => match x.passNow with
      | some t => xFire A wl x t
      | none => x
  | .endPass => { x with passNow := none }

def xexec (A : Algs) (wl : Int64) (x : XState) : List Step → Option XState
  | [] => some x
  | st :: sts => if xvalid A wl x st then xexec A wl (xstep A wl x st) sts else none

def xinit : XState := {}

/-- `CommonLoop::exitLoop(wait)` on the exit-timer slot with ANY signed millisecond count (round 5): the pending exit timer is
disabled and deleted; `wait.count() == 0` stops the loop at once (second component), every other count — negative ones
included — creates, initialises (one-shot) and enables a new exit timer.  For counts ≥ 0 this is the script
`exitLoopActs slot w` of the abstract model (`C02_wide_exit_is_slot_script`). -/
def xExitLoop (A : Algs) (x : XState) (slot : Nat) (w : Int64) : XState × Bool :=
  if w == 0 then ((xDisable A x slot).1, true) else ((xEnable A (xInit A x slot w true).1 slot).1, false)

/-! ### the millisecond counts of an op list fit a non-negative `long` (decidable) -/

mutual
def actBnd : Act → Bool
  | .init _ ms _ => decide (ms < 2^63)
  | .newObj sc => bndList sc
  | .doAfter ms sc => decide (ms < 2^63) && bndList sc
  | .doEvery ms sc => decide (ms < 2^63) && bndList sc
  | _ => true
def bndList : List Act → Bool
  | [] => true
  | a :: as => actBnd a && bndList as
end

def stepBnd : Step → Bool
  | .newObj sc => bndList sc
  | .api a => actBnd a
  | _ => true

/-- every `init` / `doAfter` / `doEvery`, in API steps and in every callback script at any depth, has ms < 2^63 -/
def bndSteps (sts : List Step) : Bool := sts.all stepBnd

end Tbox.C02.Wide
