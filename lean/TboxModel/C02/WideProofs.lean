/- C02 — lemmas about the width-faithful timer core (`Wide.lean`) and the heap call patterns. -/
import TboxModel.C02.Wide
namespace Tbox.C02.Wide
open Tbox.C02.Heap

/-! ### bridges between the machine integers and ℕ / ℤ -/

theorem u64_toInt64_toInt (x : UInt64) :
    x.toInt64.toInt = if x.toNat < 2^63 then (x.toNat : Int) else (x.toNat : Int) - 2^64 := by
  show x.toBitVec.toInt = _
  rw [BitVec.toInt_eq_toNat_cond]
  have : x.toBitVec.toNat = x.toNat := rfl
  rw [this]
  split <;> split <;> omega

theorem i64_toUInt64_toNat (x : Int64) :
    (x.toUInt64.toNat : Int) = if 0 ≤ x.toInt then x.toInt else x.toInt + 2^64 := by
  show ((x.toBitVec.toNat : Nat) : Int) = if 0 ≤ x.toBitVec.toInt then x.toBitVec.toInt else x.toBitVec.toInt + 2^64
  rw [BitVec.toInt_eq_toNat_cond]
  have := x.toBitVec.isLt
  split <;> split <;> omega

theorem u64_lt (x : UInt64) : x.toNat < 2^64 := x.toBitVec.isLt

theorem due_iff (now e : UInt64) : due now e = decide (e.toNat ≤ now.toNat) := by
  unfold due
  rw [Bool.eq_iff_iff]
  simp only [Bool.not_eq_true', decide_eq_false_iff_not, decide_eq_true_eq, UInt64.lt_iff_toNat_lt]
  omega

theorem delayMs_toInt (now e : UInt64) :
    (delayMs now e).toInt = (if (now - e).toNat < 2^63 then ((now - e).toNat : Int) else ((now - e).toNat : Int) - 2^64).bmod (2^32) := by
  unfold delayMs
  rw [Int64.toInt_toInt32, u64_toInt64_toInt]


/-! ### deadlines -/

theorem add_exact (now : UInt64) (ms : Int64) (hn : now.toNat < 2^63) (hms : 0 ≤ ms.toInt) :
    (now + intervalArg ms).toNat = now.toNat + ms.toInt.toNat ∧ (intervalArg ms).toNat = ms.toInt.toNat ∧
    (intervalArg ms).toNat < 2^63 := by
  have h := i64_toUInt64_toNat ms
  simp only [hms, if_true] at h
  have := Int64.toInt_lt ms
  unfold intervalArg
  rw [UInt64.toNat_add]
  omega

theorem rearm_exact (now : UInt64) (t : WTimer) (hd : due now t.expired = true) (hn : now.toNat < 2^63)
    (hi : t.interval.toNat < 2^63) : (rearm t).expired.toNat = t.expired.toNat + t.interval.toNat := by
  rw [due_iff] at hd
  simp only [decide_eq_true_eq] at hd
  show (t.expired + t.interval).toNat = _
  rw [UInt64.toNat_add]
  omega

def rearmN : Nat → WTimer → WTimer
  | 0, t => t
  | n + 1, t => rearmN n (rearm t)

theorem rearm_interval (t : WTimer) : (rearm t).interval = t.interval := rfl
theorem rearm_tok (t : WTimer) : (rearm t).tok = t.tok := rfl
theorem rearm_owner (t : WTimer) : (rearm t).owner = t.owner := rfl

theorem rearmN_exact (k : Nat) : ∀ (t : WTimer) (e : Nat), t.expired.toNat = e →
    e + k * t.interval.toNat < 2^64 → (rearmN k t).expired.toNat = e + k * t.interval.toNat := by
  induction k with
  | zero => intro t e he _; simpa [rearmN] using he
  | succ k ih =>
    intro t e he hb
    have hm : (k + 1) * t.interval.toNat = k * t.interval.toNat + t.interval.toNat := Nat.succ_mul _ _
    have h1 : (rearm t).expired.toNat = e + t.interval.toNat := by
      show (t.expired + t.interval).toNat = _
      rw [UInt64.toNat_add, he]; omega
    have := ih (rearm t) (e + t.interval.toNat) h1 (by rw [rearm_interval]; omega)
    rw [rearm_interval] at this
    simp only [rearmN]; omega

/-! ### the waiting time -/

theorem waitCore_spec (now e : UInt64) (hn : now.toNat < 2^63) :
    0 ≤ (waitCore false (some e) now).toInt ∧
    (waitCore false (some e) now).toInt ≤ ((e.toNat - now.toNat : Nat) : Int) ∧
    (e.toNat - now.toNat < 2^63 → (waitCore false (some e) now).toInt = ((e.toNat - now.toNat : Nat) : Int)) ∧
    (2^63 ≤ e.toNat - now.toNat → (waitCore false (some e) now).toInt = 0) := by
  have hw := u64_toInt64_toInt (e - now)
  have he := u64_lt e
  have hd : (e - now).toNat = if now.toNat ≤ e.toNat then e.toNat - now.toNat else 2^64 - (now.toNat - e.toNat) := by
    rw [UInt64.toNat_sub]; split <;> omega
  have h0 : (0 : Int64).toInt = 0 := rfl
  simp only [waitCore, Bool.false_eq_true, ↓reduceIte]
  by_cases hlt : (e - now).toInt64 < 0
  · simp only [hlt, ↓reduceIte, h0]
    rw [Int64.lt_iff_toInt_lt, h0] at hlt
    refine ⟨by omega, by omega, ?_, fun _ => trivial⟩
    intro hlt2
    split at hd <;> split at hw <;> omega
  · simp only [hlt, ↓reduceIte]
    rw [Int64.lt_iff_toInt_lt, h0] at hlt
    refine ⟨by omega, ?_, ?_, ?_⟩
    · split at hd <;> split at hw <;> omega
    · intro _; split at hd <;> split at hw <;> omega
    · intro _; split at hd <;> split at hw <;> omega

theorem epollTimeout_spec (w : Int64) (h : -1 ≤ w.toInt) :
    (epollTimeout w).toInt = min w.toInt 2147483647 := by
  have hc : (2147483647 : Int64).toInt = 2147483647 := rfl
  unfold epollTimeout
  by_cases hgt : w > 2147483647
  · simp only [hgt, ↓reduceIte]
    have : w.toInt > 2147483647 := by
      have := Int64.lt_iff_toInt_lt.1 hgt; rw [hc] at this; exact this
    rw [Int64.toInt_toInt32, hc, Int.bmod_def]; omega
  · simp only [hgt, ↓reduceIte]
    have : ¬ (2147483647 < w.toInt) := by
      intro hh; apply hgt; show (2147483647 : Int64) < w; rw [Int64.lt_iff_toInt_lt, hc]; exact hh
    rw [Int64.toInt_toInt32, Int.bmod_def]; omega

theorem selectTimeval_spec (w : Int64) (h : 0 ≤ w.toInt) :
    ∃ sec usec, selectTimeval w = some (sec, usec) ∧ sec.toInt = w.toInt / 1000 ∧ usec.toInt = w.toInt % 1000 := by
  have hne : (w != -1) = true := by
    rw [bne_iff_ne]; intro hh; rw [hh] at h; exact absurd h (by decide)
  have hk : (1000 : Int64).toInt = 1000 := rfl
  refine ⟨w / 1000, w % 1000, by simp [selectTimeval, hne], ?_, ?_⟩
  · rw [Int64.toInt_div_of_ne_right w 1000 (by decide), hk, Int.tdiv_eq_ediv_of_nonneg h]
  · rw [Int64.toInt_mod, hk, Int.tmod_eq_emod_of_nonneg h]


/-! ### the loop-level invariant: heap-ordered vector, every live deadline > 0, distinct live tokens -/

structure WInv (l : WLoop) : Prop where
  heap  : IsHeap key l.heap
  pos   : ∀ t ∈ l.heap, 0 < t.expired.toNat
  nodup : (l.heap.map (·.tok)).Nodup
  tokLt : ∀ t ∈ l.heap, t.tok < l.nextTok
  ivLt  : ∀ t ∈ l.heap, t.interval.toNat < 2^63

theorem winv_init : WInv {} := ⟨isHeap_nil _, by simp, by simp, by simp, by simp⟩

/-- the invariant only depends on the heap property and on the multiset of records -/
theorem winv_of_perm {h' L : List WTimer} {n : Nat} (hh : IsHeap key h') (hp : h'.Perm L)
    (pos : ∀ t ∈ L, 0 < t.expired.toNat) (nd : (L.map (·.tok)).Nodup) (tl : ∀ t ∈ L, t.tok < n)
    (iv : ∀ t ∈ L, t.interval.toNat < 2^63) : WInv { heap := h', nextTok := n } :=
  ⟨hh, fun t ht => pos t (hp.mem_iff.1 ht), ((hp.map (·.tok)).nodup_iff).2 nd,
   fun t ht => tl t (hp.mem_iff.1 ht), fun t ht => iv t (hp.mem_iff.1 ht)⟩

theorem addTimer_spec (A : Algs) (l : WLoop) (now interval rep : UInt64) (owner : Nat) (h : WInv l)
    (hpos : 0 < (now + interval).toNat) (hiv : interval.toNat < 2^63) :
    WInv (addTimer A l now interval rep owner).1 ∧ (addTimer A l now interval rep owner).2 = l.nextTok ∧
    (addTimer A l now interval rep owner).1.nextTok = l.nextTok + 1 ∧
    (addTimer A l now interval rep owner).1.heap.Perm
      ({ tok := l.nextTok, expired := now + interval, interval := interval, rep := rep, owner := owner, base := now.toNat } :: l.heap) := by
  obtain ⟨h1, h2⟩ := add_spec A l.heap
    { tok := l.nextTok, expired := now + interval, interval := interval, rep := rep, owner := owner, base := now.toNat } h.heap
  refine ⟨?_, rfl, rfl, h2⟩
  refine winv_of_perm h1 h2 ?_ ?_ ?_ ?_
  · intro t ht; rcases List.mem_cons.1 ht with rfl | ht'
    · exact hpos
    · exact h.pos t ht'
  · simp only [List.map_cons, List.nodup_cons]
    refine ⟨?_, h.nodup⟩
    intro hm
    obtain ⟨q, hq, hqt⟩ := List.mem_map.1 hm
    have := h.tokLt q hq
    omega
  · intro t ht; rcases List.mem_cons.1 ht with rfl | ht'
    · exact Nat.lt_succ_self _
    · exact Nat.lt_succ_of_lt (h.tokLt t ht')
  · intro t ht; rcases List.mem_cons.1 ht with rfl | ht'
    · exact hiv
    · exact h.ivLt t ht'

theorem filter_hasTok_single : ∀ (v : List WTimer) (t : WTimer), (v.map (·.tok)).Nodup → t ∈ v →
    v.filter (hasTok t.tok) = [t] := by
  intro v
  induction v with
  | nil => intro t _ ht; cases ht
  | cons y ys ih =>
    intro t hnd ht
    simp only [List.map_cons, List.nodup_cons] at hnd
    rcases List.mem_cons.1 ht with rfl | ht'
    · have : ys.filter (hasTok t.tok) = [] := by
        rw [List.filter_eq_nil_iff]
        intro z hz hzt
        simp only [hasTok, beq_iff_eq] at hzt
        exact hnd.1 (List.mem_map.2 ⟨z, hz, hzt⟩)
      simp [hasTok, this]
    · have hne : hasTok t.tok y = false := by
        simp only [hasTok, beq_eq_false_iff_ne, ne_eq]
        intro he
        exact hnd.1 (List.mem_map.2 ⟨t, ht', he.symm⟩)
      simp only [List.filter_cons, hne, Bool.false_eq_true, ↓reduceIte]
      exact ih t hnd.2 ht'

theorem sublist_props {l : WLoop} (h : WInv l) (L : List WTimer) (hs : L.Sublist l.heap) :
    (∀ t ∈ L, 0 < t.expired.toNat) ∧ (L.map (·.tok)).Nodup ∧ (∀ t ∈ L, t.tok < l.nextTok) ∧
    (∀ t ∈ L, t.interval.toNat < 2^63) :=
  ⟨fun t ht => h.pos t (hs.subset ht), h.nodup.sublist (hs.map _), fun t ht => h.tokLt t (hs.subset ht),
   fun t ht => h.ivLt t (hs.subset ht)⟩

theorem deleteTimer_spec (A : Algs) (l : WLoop) (tok : Nat) (h : WInv l) :
    WInv (deleteTimer A l tok) ∧ (deleteTimer A l tok).nextTok = l.nextTok ∧
    (deleteTimer A l tok).heap.Perm (l.heap.filter fun t => !hasTok tok t) := by
  unfold deleteTimer
  by_cases hany : l.heap.any (hasTok tok) = true
  · simp only [hany, ↓reduceIte]
    obtain ⟨t, ht, htt⟩ := List.any_eq_true.1 hany
    have hte : t.tok = tok := by simpa [hasTok] using htt
    have hu : l.heap.filter (hasTok tok) = [t] := hte ▸ filter_hasTok_single l.heap t h.nodup ht
    obtain ⟨h1, h2⟩ := delete_spec A l.heap (hasTok tok) zeroDeadline t hu rfl
      (fun y hy _ => h.pos y hy)
    obtain ⟨p1, p2, p3, p4⟩ := sublist_props h _ (List.filter_sublist (p := fun t => !hasTok tok t) (l := l.heap))
    exact ⟨winv_of_perm h1 h2 p1 p2 p3 p4, trivial, h2⟩
  · simp only [hany, Bool.false_eq_true, ↓reduceIte]
    refine ⟨h, trivial, ?_⟩
    have : l.heap.filter (fun t => !hasTok tok t) = l.heap := by
      rw [List.filter_eq_self]
      intro z hz
      cases hzt : hasTok tok z with
      | false => rfl
      | true => exact absurd (List.any_eq_true.2 ⟨z, hz, hzt⟩) hany
    rw [this]

theorem handleOne_serves (A : Algs) (wl : Int64) (l : WLoop) (now : UInt64) (t : WTimer) (rest : List WTimer)
    (h : WInv l) (hn : now.toNat < 2^63) (hh : l.heap = t :: rest) (hd : due now t.expired = true) :
    ∃ l', handleOne A wl l now =
        (l', some { timer := t, delay := delayMs now t.expired, warn := overWaterline (delayMs now t.expired) wl }) ∧
      WInv l' ∧ l'.nextTok = l.nextTok ∧
      (t.rep = 1 → l'.heap.Perm rest) ∧ (t.rep ≠ 1 → l'.heap.Perm (rearm t :: rest)) ∧
      (∀ q ∈ l.heap, t.expired.toNat ≤ q.expired.toNat) := by
  have hheap : IsHeap key (t :: rest) := hh ▸ h.heap
  have hsub : rest.Sublist l.heap := by rw [hh]; exact List.sublist_cons_self t rest
  obtain ⟨p1, p2, p3, p4⟩ := sublist_props h rest hsub
  have htm : t ∈ l.heap := by rw [hh]; exact List.mem_cons_self
  refine ⟨{ l with heap := serveHeap A l.heap t }, ?_, ?_, rfl, ?_, ?_, ?_⟩
  · simp only [handleOne, hh, hd, ↓reduceIte]
  · unfold serveHeap
    by_cases hr : t.rep = 1
    · simp only [hr, beq_self_eq_true, ↓reduceIte, hh]
      obtain ⟨h1, h2⟩ := popFront_spec A t rest hheap
      exact winv_of_perm h1 h2 p1 p2 p3 p4
    · have hr' : (t.rep == 1) = false := by simpa using hr
      simp only [hr', Bool.false_eq_true, ↓reduceIte, hh]
      obtain ⟨h1, h2⟩ := repush_spec A t rest rearm hheap
      refine winv_of_perm h1 h2 ?_ ?_ ?_ ?_
      · intro q hq; rcases List.mem_cons.1 hq with rfl | hq'
        · rw [rearm_exact now t hd hn (h.ivLt t htm)]; have := h.pos t htm; omega
        · exact p1 q hq'
      · have := h.nodup; rw [hh] at this; simpa [rearm_tok] using this
      · intro q hq; rcases List.mem_cons.1 hq with rfl | hq'
        · exact h.tokLt t htm
        · exact p3 q hq'
      · intro q hq; rcases List.mem_cons.1 hq with rfl | hq'
        · exact h.ivLt t htm
        · exact p4 q hq'
  · intro hr
    simp only [serveHeap, hr, beq_self_eq_true, ↓reduceIte, hh]
    exact (popFront_spec A t rest hheap).2
  · intro hr
    have hr' : (t.rep == 1) = false := by simpa using hr
    simp only [serveHeap, hr', Bool.false_eq_true, ↓reduceIte, hh]
    exact (repush_spec A t rest rearm hheap).2
  · intro q hq; rw [hh] at hq; exact hheap.front_le q hq

theorem handleOne_leaves (A : Algs) (wl : Int64) (l : WLoop) (now : UInt64) (h : WInv l)
    (hnone : (handleOne A wl l now).2 = none) :
    (handleOne A wl l now).1 = l ∧ ∀ q ∈ l.heap, now.toNat < q.expired.toNat := by
  cases hh : l.heap with
  | nil => simp [handleOne, hh]
  | cons t rest =>
    have hheap : IsHeap key (t :: rest) := hh ▸ h.heap
    by_cases hd : due now t.expired = true
    · simp [handleOne, hh, hd] at hnone
    · simp only [handleOne, hh, hd, Bool.false_eq_true, ↓reduceIte, true_and]
      intro q hq
      have := hheap.front_le q hq
      rw [due_iff] at hd
      simp only [decide_eq_true_eq] at hd
      simp only [key] at this
      omega

end Tbox.C02.Wide
