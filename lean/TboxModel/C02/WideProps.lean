/-
C02 — PROPERTY THEOREMS of round 3: the timer core at the widths of the C++ code (`Wide.lean`) on an
explicit binary heap used through the standard's contract (`Heap.lean`).

Every theorem with an `A : Algs` argument holds for EVERY triple push_heap / pop_heap / make_heap that
meets the C++ standard's contract — libstdc++'s included, whatever tie-breaks it takes.
`Tbox.C02.Wide.WInv l` = the vector is heap-ordered, every live deadline is > 0, live tokens are distinct
and below the allocator, every interval is < 2^63 (it came from a non-negative `milliseconds::rep`).

Range statement, once: the monotonic clock is an `int64` count of nanoseconds, so a clock reading in
ms is < 2^63/10^6 < 2^44; an interval is a non-negative `long`, < 2^63.  Under `now < 2^63` and
`0 ≤ interval` NOTHING in this file wraps (`C02_wide_deadline_exact`, `C02_wide_rearm_exact`): the 64-bit
deadlines are the mathematical `base + (k+1)·d` of `Model.lean`, and the decisions of the loop are the
ones `Model.lean` takes (`C02_wide_serve_refines`, `C02_wide_leave_refines`, `C02_wide_add_refines`,
`C02_wide_delete_exact`), so its theorems (never early, no skip, order, …) speak about the code's
arithmetic.  What happens outside (negative / zero intervals, clock ≥ 2^63, deadline 0) is stated by
the `…_counterexample` / `…_negative_…` theorems.
-/
import TboxModel.C02.WideProofs
namespace Tbox.C02.Wide
open Tbox.C02.Heap

/-! ### deadlines are exact -/

/-- **first deadline**: for every clock reading below 2^63 and every non-negative `milliseconds`
count, `expired = now + interval` is the mathematical sum (< 2^64: no wrap), and the `long → uint64_t`
conversion of the interval is the identity. -/
theorem C02_wide_deadline_exact (now : UInt64) (ms : Int64) (hn : now.toNat < 2^63) (hms : 0 ≤ ms.toInt) :
    (now + intervalArg ms).toNat = now.toNat + ms.toInt.toNat ∧ (intervalArg ms).toNat = ms.toInt.toNat ∧
    (intervalArg ms).toNat < 2^63 :=
  add_exact now ms hn hms

/-- **re-arming a due record never wraps**: `expired += interval` on a record found due at a clock
reading below 2^63. -/
theorem C02_wide_rearm_exact (now : UInt64) (t : WTimer) (hd : due now t.expired = true) (hn : now.toNat < 2^63)
    (hi : t.interval.toNat < 2^63) : (rearm t).expired.toNat = t.expired.toNat + t.interval.toNat :=
  rearm_exact now t hd hn hi

/-- **the k-th deadline, for EVERY 64-bit `now` and `interval`**: as long as `now + (k+1)·interval`
is below 2^64 the deadline after k re-armings is exactly that number (so never-early / no-skip of
`Model.lean`, which are statements about `base + n·d`, are statements about the 64-bit field). -/
theorem C02_wide_kth_deadline (now iv : UInt64) (k : Nat) (t : WTimer) (he : t.expired = now + iv) (hi : t.interval = iv)
    (hb : now.toNat + (k + 1) * iv.toNat < 2^64) :
    (rearmN k t).expired.toNat = now.toNat + (k + 1) * iv.toNat := by
  have hm : (k + 1) * iv.toNat = k * iv.toNat + iv.toNat := Nat.succ_mul _ _
  have h1 : t.expired.toNat = now.toNat + iv.toNat := by rw [he, UInt64.toNat_add]; omega
  have := rearmN_exact k t _ h1 (by rw [hi]; omega)
  rw [hi] at this; omega

/-- beyond 2^64 the deadline wraps and the timer is due at once (fires EARLY): clock 2^64 − 10, interval 20.
Unreachable: it needs a clock reading ≥ 2^63 ms (292 million years of uptime). -/
theorem C02_wide_wrap_counterexample :
    ((18446744073709551606 : UInt64) + 20).toNat = 10 ∧ due 18446744073709551606 (18446744073709551606 + 20) = true := by
  decide

/-- **a negative interval** (outside the property, d ≥ 1): the `long → uint64_t` conversion makes it
2^64 − |d|, so the deadline is `now − |d|`, in the past — the timer is due in the next pass (a persistent
one is re-armed further into the past each time: ⌊now/|d|⌋ callbacks in one pass until the deadline
wraps below zero to ~2^64, after which it never fires again); and when `|d| > now` the deadline is
2^64 − (|d| − now) ≥ 2^63: never due, while `getWaitTime` answers 0 (the loop spins, see
`C02_wait_bound`). -/
theorem C02_wide_negative_interval (now : UInt64) (ms : Int64) (hneg : ms.toInt < 0) :
    ((-ms.toInt).toNat ≤ now.toNat → (now + intervalArg ms).toNat = now.toNat - (-ms.toInt).toNat) ∧
    (now.toNat < (-ms.toInt).toNat → (now + intervalArg ms).toNat = 2^64 - ((-ms.toInt).toNat - now.toNat)) := by
  have h := i64_toUInt64_toNat ms
  have hlt : ¬ (0 ≤ ms.toInt) := by omega
  simp only [hlt, if_false] at h
  have := Int64.le_toInt ms
  have := u64_lt now
  unfold intervalArg
  rw [UInt64.toNat_add]
  constructor <;> intro _ <;> omega

/-- **interval 0**: the deadline is `now`; the record is due in the very next pass (one-shot: fires once
at once; persistent: `C02_pass_endless_counterexample`). -/
theorem C02_wide_zero_interval (now : UInt64) : now + intervalArg 0 = now ∧ due now (now + intervalArg 0) = true := by
  have h0 : intervalArg 0 = 0 := rfl
  rw [h0, UInt64.add_zero]
  exact ⟨rfl, by rw [due_iff]; simp⟩

/-! ### the due decision is made at full width -/

/-- **the due decision never depends on a narrowed value**: whether `handleExpiredTimers` serves the
front record is exactly `front.expired ≤ now` as 64-bit numbers, for all 2^128 pairs; the state after the
iteration and the record served do not depend on `delay_ms` / the waterline (they are the same for every
waterline): `delay_ms` only feeds the log line. -/
theorem C02_wide_due_full_width (A : Algs) (wl : Int64) (l : WLoop) (now : UInt64) :
    ((handleOne A wl l now).2.isSome =
      match l.heap with
      | [] => false
      | t :: _ => decide (t.expired.toNat ≤ now.toNat)) ∧
    (∀ wl', (handleOne A wl' l now).1.heap = (handleOne A wl l now).1.heap ∧
            (handleOne A wl' l now).2.map (·.timer) = (handleOne A wl l now).2.map (·.timer)) := by
  cases hh : l.heap with
  | nil => simp [handleOne, hh]
  | cons t rest =>
    by_cases hd : due now t.expired = true
    · have hd' := hd; rw [due_iff] at hd'
      simp [handleOne, hh, hd, hd']
    · have hd' := hd; rw [due_iff] at hd'
      simp only [Bool.not_eq_true] at hd hd'
      simp [handleOne, hh, hd, hd']

/-- the change of seeded/C02-5 — deciding on `int delay_ms = now − expired` — is wrong: a deadline
2^31 + 1000 ms ahead is "due". -/
theorem C02_wide_dueNarrowed_counterexample :
    due 1000 (1000 + 2147483648 + 1000) = false ∧ dueNarrowed 1000 (1000 + 2147483648 + 1000) = true := by decide

/-- **`delay_ms` is the true delay below 2^31 ms** (24.8 days late); -/
theorem C02_wide_delay_exact (now e : UInt64) (hd : e.toNat ≤ now.toNat) (h : now.toNat - e.toNat < 2^31) :
    (delayMs now e).toInt = ((now.toNat - e.toNat : Nat) : Int) := by
  have hs : (now - e).toNat = now.toNat - e.toNat := by
    rw [UInt64.toNat_sub]; have := u64_lt now; omega
  rw [delayMs_toInt, hs, Int.bmod_def]
  have : now.toNat - e.toNat < 2^63 := by omega
  simp only [this, ↓reduceIte]
  omega

/-- … beyond, the logged number is wrong and the waterline notice can be lost (a pass 2^31 ms late logs
nothing): only the log is affected, see `C02_wide_due_full_width`. -/
theorem C02_wide_delay_wraps_counterexample :
    (delayMs (1000 + 2147483648) 1000).toInt = -2147483648 ∧ overWaterline (delayMs (1000 + 2147483648) 1000) 10000000 = false := by
  decide

/-! ### the loop never sleeps past the nearest deadline (both engines, full width) -/

/-- **`getWaitTime`** for every 64-bit front deadline `e` and every clock reading below 2^63:
0 ≤ wait ≤ e − now (never past the deadline; 0 when it is due), exactly e − now when that is below 2^63
— always the case for a record armed with a non-negative interval — and 0 (busy polling, NOT a
sleep for ever) when e − now ≥ 2^63. -/
theorem C02_wait_bound (now e : UInt64) (hn : now.toNat < 2^63) :
    0 ≤ (waitCore false (some e) now).toInt ∧
    (waitCore false (some e) now).toInt ≤ ((e.toNat - now.toNat : Nat) : Int) ∧
    (e.toNat - now.toNat < 2^63 → (waitCore false (some e) now).toInt = ((e.toNat - now.toNat : Nat) : Int)) ∧
    (2^63 ≤ e.toNat - now.toNat → (waitCore false (some e) now).toInt = 0) :=
  waitCore_spec now e hn

/-- no timers: −1 (wait for ever); a pending `runNext` function: 0 -/
theorem C02_wait_idle (now : UInt64) (f : Option UInt64) :
    waitCore false none now = -1 ∧ waitCore true f now = 0 := ⟨rfl, rfl⟩

/-- **epoll engine**: the `int` handed to `epoll_wait` is `min(wait, INT_MAX)` for every wait ≥ −1: −1
stays −1, a positive wait stays positive (no busy polling, no sleep for ever — the 2^31 … 2^32 ms range
that the unclamped cast mapped to negative numbers), and it is never longer than the wait. -/
theorem C02_wait_bound_epoll (w : Int64) (h : -1 ≤ w.toInt) :
    (epollTimeout w).toInt = min w.toInt 2147483647 ∧
    ((epollTimeout w).toInt = -1 ↔ w.toInt = -1) ∧ (0 < w.toInt → 0 < (epollTimeout w).toInt) ∧
    (epollTimeout w).toInt ≤ w.toInt := by
  have := epollTimeout_spec w h
  refine ⟨this, ?_, ?_, ?_⟩ <;> omega

/-- without the clamp (the code before `fix: epoll engine clamps …`): 30 days become a negative timeout -/
theorem C02_wait_epoll_unclamped_counterexample : ((2592000000 : Int64).toInt32).toInt = -1702967296 := by decide

/-- **select engine**: for every wait ≥ 0 the timeval is valid (0 ≤ tv_usec < 1000 ≤ 999999), and the
time it denotes, tv_sec·10^6 + tv_usec µs, is never longer than the wait (it is shorter by
(wait mod 1000)·999 µs: `tv_usec` receives MILLIseconds) — the loop may wake early and go round again,
it cannot oversleep; whole seconds are exact. -/
theorem C02_wait_bound_select (w : Int64) (h : 0 ≤ w.toInt) :
    ∃ sec usec, selectTimeval w = some (sec, usec) ∧ 0 ≤ sec.toInt ∧ 0 ≤ usec.toInt ∧ usec.toInt < 1000 ∧
      sec.toInt * 1000000 + usec.toInt ≤ w.toInt * 1000 ∧ sec.toInt * 1000 + usec.toInt = w.toInt := by
  obtain ⟨sec, usec, e, hs, hu⟩ := selectTimeval_spec w h
  exact ⟨sec, usec, e, by omega, by omega, by omega, by omega, by omega⟩

/-- −1 = null timeval (wait for ever); 999 ms are handed over as 999 µs (early wake-up, then another round) -/
theorem C02_wait_select_short_counterexample :
    selectTimeval (-1) = none ∧ selectTimeval 999 = some (0, 999) ∧ selectTimeval 86400123 = some (86400, 123) := by decide

/-- **both engines, end to end**: with the front deadline `e` and the clock at `now` < 2^63 neither
engine is told to sleep past `e`: epoll's timeout in ms is ≤ e − now, select's in µs is ≤ (e − now)·1000. -/
theorem C02_wait_bound_engines (now e : UInt64) (hn : now.toNat < 2^63) :
    (epollTimeout (waitCore false (some e) now)).toInt ≤ ((e.toNat - now.toNat : Nat) : Int) ∧
    ∃ sec usec, selectTimeval (waitCore false (some e) now) = some (sec, usec) ∧
      sec.toInt * 1000000 + usec.toInt ≤ ((e.toNat - now.toNat : Nat) : Int) * 1000 := by
  obtain ⟨h0, h1, _, _⟩ := waitCore_spec now e hn
  have he := (C02_wait_bound_epoll _ (by omega : -1 ≤ (waitCore false (some e) now).toInt)).2.2.2
  obtain ⟨sec, usec, e1, _, _, _, e5, _⟩ := C02_wait_bound_select _ h0
  exact ⟨by omega, sec, usec, e1, by omega⟩

/-! ### the heap: multiset preserved, front minimal, deleteTimer exact — for every conforming library -/

/-- the invariant holds initially … -/
theorem C02_wide_inv_init : WInv {} := winv_init

/-- **addTimer** (= what `enable` of `Model.lean` does: a record `(nextTok, owner, now + d, d)` joins the
multiset) keeps the invariant, given a clock reading ≥ 1 (below 2^63) and a non-negative interval;
in particular the new deadline is > 0. -/
theorem C02_wide_add_refines (A : Algs) (l : WLoop) (now : UInt64) (ms : Int64) (rep : UInt64) (owner : Nat)
    (h : WInv l) (h1 : 1 ≤ now.toNat) (hn : now.toNat < 2^63) (hms : 0 ≤ ms.toInt) :
    WInv (addTimer A l now (intervalArg ms) rep owner).1 ∧
    (addTimer A l now (intervalArg ms) rep owner).2 = l.nextTok ∧
    (addTimer A l now (intervalArg ms) rep owner).1.nextTok = l.nextTok + 1 ∧
    (addTimer A l now (intervalArg ms) rep owner).1.heap.Perm
      ({ tok := l.nextTok, expired := now + intervalArg ms, interval := intervalArg ms, rep := rep, owner := owner, base := now.toNat } :: l.heap) ∧
    (now + intervalArg ms).toNat = now.toNat + ms.toInt.toNat := by
  obtain ⟨e1, _, e3⟩ := add_exact now ms hn hms
  obtain ⟨a, b, c, d⟩ := addTimer_spec A l now (intervalArg ms) rep owner h (by omega) e3
  exact ⟨a, b, c, d, e1⟩

/-- **deleteTimer removes exactly the addressed timer** (= `disable` of `Model.lean`: the records with
another token stay, as a multiset), the result is a heap again, a dead token changes nothing — a
theorem about zero-the-deadline + make_heap + pop_heap + pop_back, from "every live deadline > 0". -/
theorem C02_wide_delete_exact (A : Algs) (l : WLoop) (tok : Nat) (h : WInv l) :
    WInv (deleteTimer A l tok) ∧ (deleteTimer A l tok).nextTok = l.nextTok ∧
    (deleteTimer A l tok).heap.Perm (l.heap.filter fun t => !hasTok tok t) :=
  deleteTimer_spec A l tok h

/-- … which needs that invariant: with a LIVE DEADLINE OF 0 (reachable only with the negative interval
−now) a conforming library may put the other zero in front, and `deleteTimer(2)` removes timer 1: the
record of the deleted timer 2 stays in the heap (its storage is freed right after — a dangling pointer). -/
theorem C02_wide_delete_counterexample :
    (deleteTimer (sortedAlgs key)
      { heap := [{ tok := 1, expired := 0, interval := 5, rep := 0 }, { tok := 2, expired := 7, interval := 5, rep := 0 }], nextTok := 3 }
      2).heap.map (·.tok) = [2] := by decide

/-- **one loop iteration that serves a record** (= `fire` of `Model.lean`, whose guard `canFire` is
"due and of minimal deadline"): the record served is the front, it is due at full width, its deadline
is minimal among all live records, and afterwards the multiset is the old one without it (`repeat == 1`)
or with its deadline advanced by exactly one interval (no wrap); the invariant is kept. -/
theorem C02_wide_serve_refines (A : Algs) (wl : Int64) (l : WLoop) (now : UInt64) (t : WTimer) (rest : List WTimer)
    (h : WInv l) (hn : now.toNat < 2^63) (hh : l.heap = t :: rest) (hd : due now t.expired = true) :
    ∃ l', handleOne A wl l now =
        (l', some { timer := t, delay := delayMs now t.expired, warn := overWaterline (delayMs now t.expired) wl }) ∧
      WInv l' ∧ l'.nextTok = l.nextTok ∧
      t.expired.toNat ≤ now.toNat ∧ (∀ q ∈ l.heap, t.expired.toNat ≤ q.expired.toNat) ∧
      (t.rep = 1 → l'.heap.Perm rest) ∧
      (t.rep ≠ 1 → l'.heap.Perm (rearm t :: rest) ∧ (rearm t).expired.toNat = t.expired.toNat + t.interval.toNat) := by
  obtain ⟨l', e, hi, hnx, h1, h2, h3⟩ := handleOne_serves A wl l now t rest h hn hh hd
  have htm : t ∈ l.heap := by rw [hh]; exact List.mem_cons_self
  have hd' := hd; rw [due_iff] at hd'; simp only [decide_eq_true_eq] at hd'
  exact ⟨l', e, hi, hnx, hd', h3, h1, fun hr => ⟨h2 hr, rearm_exact now t hd hn (h.ivLt t htm)⟩⟩

/-- **the loop is left only when nothing is due** (= `endPass` of `Model.lean`): no record at all has a
deadline ≤ now — the front is a minimum, so looking at the front is enough (no skip). -/
theorem C02_wide_leave_refines (A : Algs) (wl : Int64) (l : WLoop) (now : UInt64) (h : WInv l)
    (hnone : (handleOne A wl l now).2 = none) :
    (handleOne A wl l now).1 = l ∧ ∀ q ∈ l.heap, now.toNat < q.expired.toNat :=
  handleOne_leaves A wl l now h hnone

/-! ### non-vacuity -/

/-- a conforming library exists (`sortedAlgs`), and a run of the wide core on it: three timers armed at
t = 1000 (30 days one-shot, 7 ms persistent, 2^31 ms persistent), the middle one deleted, a pass at 1007 -/
def demoLoop : WLoop :=
  let A := sortedAlgs key
  let l0 : WLoop := {}
  let l1 := (addTimer A l0 1000 (intervalArg 2592000000) 1 0).1
  let l2 := (addTimer A l1 1000 (intervalArg 7) 0 1).1
  let l3 := (addTimer A l2 1000 (intervalArg 2147483648) 0 2).1
  l3

example : demoLoop.heap.map (fun t => (t.tok, t.expired.toNat)) = [(2, 1007), (3, 2147484648), (1, 2592001000)] := by decide
example : ((handleOne (sortedAlgs key) 10000000 demoLoop 1007).2.map fun s => (s.timer.tok, s.delay.toInt, s.warn)) = some (2, 0, false) := by decide
example : (handleOne (sortedAlgs key) 10000000 demoLoop 1006).2.isSome = false := by decide
example : (deleteTimer (sortedAlgs key) demoLoop 2).heap.map (·.tok) = [3, 1] := by decide
example : (getWaitTime false (deleteTimer (sortedAlgs key) demoLoop 2) 1000).toInt = 2147483648 ∧
    (epollTimeout (getWaitTime false (deleteTimer (sortedAlgs key) demoLoop 2) 1000)).toInt = 2147483647 := by decide
example : isHeapB key demoLoop.heap = true := by decide

end Tbox.C02.Wide
