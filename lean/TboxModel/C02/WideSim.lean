/- C02 — whole-execution simulation: every execution of the width-faithful machine (`WideExec.lean`) is an
execution of the abstract model (`Model.lean`) with the same callback log. -/
import TboxModel.C02.WideExec
import TboxModel.C02.WideProofs
import TboxModel.C02.Proofs
namespace Tbox.C02.Wide
open Tbox.C02 Tbox.C02.Heap

/-- the abstract record a heap entry stands for -/
def toRec (t : WTimer) : Rec :=
  { tok := t.tok, owner := t.owner, expired := t.expired.toNat, interval := t.interval.toNat,
    oneshot := t.rep == 1, base := t.base, k := t.k }

/-- the abstract TimerEventImpl an object at width stands for (interval: a non-negative `long`) -/
def objOf (o : XObj) : Obj :=
  { alive := o.alive, inited := o.inited, enabled := o.enabled, oneshot := o.oneshot,
    interval := o.interval.toInt.toNat, token := o.token, script := o.script }

/-- the simulation relation -/
structure Sim (x : XState) (s : State) : Prop where
  inv      : WInv x.loop
  timers   : s.timers.Perm (x.loop.heap.map toRec)
  rep01    : ∀ t ∈ x.loop.heap, t.rep = 0 ∨ t.rep = 1
  objs     : ∀ j, s.objs j = objOf (x.objs j)
  ivNonneg : ∀ j, 0 ≤ (x.objs j).interval.toInt
  scripts  : ∀ j, bndList (x.objs j).script = true
  nObjs    : s.nObjs = x.nObjs
  now      : s.now = x.now.toNat
  nowLt    : x.now.toNat < 2^63
  nowPos   : 1 ≤ x.now.toNat
  passNow  : s.passNow = x.passNow.map (·.toNat)
  passLe   : ∀ t, x.passNow = some t → t.toNat ≤ x.now.toNat
  log      : s.log = x.log
  last     : s.lastDeadline = x.lastDeadline
  pool     : s.pool = x.pool
  nextTok  : s.nextTok = x.loop.nextTok

theorem sim_init : Sim xinit init :=
  { inv := winv_init, timers := List.Perm.refl _, rep01 := (by intro t ht; cases ht),
    objs := fun _ => rfl, ivNonneg := (fun _ => by show (0:Int) ≤ (0 : Int64).toInt; decide), scripts := fun _ => rfl, nObjs := rfl, now := rfl,
    nowLt := by decide, nowPos := by decide, passNow := rfl, passLe := (by intro t ht; cases ht),
    log := rfl, last := rfl, pool := rfl, nextTok := rfl }

@[simp] theorem objOf_alive (o : XObj) : (objOf o).alive = o.alive := rfl
@[simp] theorem objOf_inited (o : XObj) : (objOf o).inited = o.inited := rfl
@[simp] theorem objOf_enabled (o : XObj) : (objOf o).enabled = o.enabled := rfl
@[simp] theorem objOf_oneshot (o : XObj) : (objOf o).oneshot = o.oneshot := rfl
@[simp] theorem objOf_token (o : XObj) : (objOf o).token = o.token := rfl
@[simp] theorem objOf_script (o : XObj) : (objOf o).script = o.script := rfl
@[simp] theorem objOf_interval (o : XObj) : (objOf o).interval = o.interval.toInt.toNat := rfl

theorem perm_filter_tok {T : List Rec} {H : List WTimer} (h : T.Perm (H.map toRec)) (tok : Nat) :
    (T.filter (fun r => r.tok != tok)).Perm ((H.filter (fun w => !hasTok tok w)).map toRec) := by
  refine (h.filter _).trans ?_
  rw [List.filter_map]
  exact List.Perm.refl _

theorem msArg_spec (ms : Nat) (h : ms < 2^63) : (msArg ms).toInt = (ms : Int) := by
  unfold msArg
  rw [Int64.toInt_ofNat_of_lt (by omega)]

/-! ### the primitives of TimerEventImpl -/

/-- replacing the loop / the record list by related ones and one object by related ones keeps the relation -/
theorem sim_set {x : XState} {s : State} (h : Sim x s) (L : WLoop) (T : List Rec) (nt : Nat) (j : Nat) (ox : XObj) (os : Obj)
    (hinv : WInv L) (hT : T.Perm (L.heap.map toRec)) (h01 : ∀ t ∈ L.heap, t.rep = 0 ∨ t.rep = 1)
    (hnt : nt = L.nextTok) (ho : os = objOf ox) (hiv : 0 ≤ ox.interval.toInt) (hsc : bndList ox.script = true) :
    Sim ({ x with loop := L }.setObj j ox) ({ s with timers := T, nextTok := nt }.setObj j os) :=
  { h with inv := hinv, timers := hT, rep01 := h01, nextTok := hnt,
           objs := (by
             intro i
             show (if i = j then os else s.objs i) = objOf (if i = j then ox else x.objs i)
             by_cases hij : i = j
             · simp only [hij, ↓reduceIte, ho]
             · simp only [hij, ↓reduceIte]; exact h.objs i),
           ivNonneg := (by
             intro i
             show 0 ≤ (if i = j then ox else x.objs i).interval.toInt
             by_cases hij : i = j
             · simp only [hij, ↓reduceIte]; exact hiv
             · simp only [hij, ↓reduceIte]; exact h.ivNonneg i),
           scripts := (by
             intro i
             show bndList (if i = j then ox else x.objs i).script = true
             by_cases hij : i = j
             · simp only [hij, ↓reduceIte]; exact hsc
             · simp only [hij, ↓reduceIte]; exact h.scripts i) }

theorem not_eq_true_of {b : Bool} (h : b = true) : ¬ ((!b) = true) := by simp [h]
theorem not_eq_true_of_false {b : Bool} (h : ¬ b = true) : (!b) = true := by simp [h]

theorem sim_disable (A : Algs) {x : XState} {s : State} (h : Sim x s) (j : Nat) :
    Sim (xDisable A x j).1 (disable s j).1 ∧ (xDisable A x j).2 = (disable s j).2 := by
  have ho : s.obj j = objOf (x.obj j) := h.objs j
  by_cases ha : (x.obj j).alive = true
  case neg =>
    have e1 : xDisable A x j = (x, false) := by
      unfold xDisable; dsimp only; rw [if_pos (not_eq_true_of_false ha)]
    have e2 : disable s j = (s, false) := by
      unfold disable; dsimp only; rw [ho, if_pos (not_eq_true_of_false (b := (objOf (x.obj j)).alive) ha)]
    rw [e1, e2]; exact ⟨h, rfl⟩
  by_cases hi : (x.obj j).inited = true
  case neg =>
    have e1 : xDisable A x j = (x, false) := by
      unfold xDisable; dsimp only; rw [if_neg (not_eq_true_of ha), if_pos (not_eq_true_of_false hi)]
    have e2 : disable s j = (s, false) := by
      unfold disable; dsimp only
      rw [ho, if_neg (not_eq_true_of (b := (objOf (x.obj j)).alive) ha),
        if_pos (not_eq_true_of_false (b := (objOf (x.obj j)).inited) hi)]
    rw [e1, e2]; exact ⟨h, rfl⟩
  by_cases he : (x.obj j).enabled = true
  case neg =>
    have e1 : xDisable A x j = (x, true) := by
      unfold xDisable; dsimp only
      rw [if_neg (not_eq_true_of ha), if_neg (not_eq_true_of hi), if_pos (not_eq_true_of_false he)]
    have e2 : disable s j = (s, true) := by
      unfold disable; dsimp only
      rw [ho, if_neg (not_eq_true_of (b := (objOf (x.obj j)).alive) ha),
        if_neg (not_eq_true_of (b := (objOf (x.obj j)).inited) hi),
        if_pos (not_eq_true_of_false (b := (objOf (x.obj j)).enabled) he)]
    rw [e1, e2]; exact ⟨h, rfl⟩
  have e1 : xDisable A x j = ({ x with loop := match (x.obj j).token with
        | some t => deleteTimer A x.loop t
        | none => x.loop }.setObj j { x.obj j with enabled := false }, true) := by
    unfold xDisable; dsimp only
    rw [if_neg (not_eq_true_of ha), if_neg (not_eq_true_of hi), if_neg (not_eq_true_of he)]
    rfl
  have e2 : disable s j = ({ s with timers := match (x.obj j).token with
        | some t => s.timers.filter (fun r => r.tok != t)
        | none => s.timers }.setObj j { objOf (x.obj j) with enabled := false }, true) := by
    unfold disable; dsimp only
    rw [ho, if_neg (not_eq_true_of (b := (objOf (x.obj j)).alive) ha),
      if_neg (not_eq_true_of (b := (objOf (x.obj j)).inited) hi),
      if_neg (not_eq_true_of (b := (objOf (x.obj j)).enabled) he)]
    rfl
  rw [e1, e2]
  cases (x.obj j).token with
  | none =>
    exact ⟨sim_set h x.loop s.timers s.nextTok j _ _ h.inv h.timers h.rep01 h.nextTok rfl (h.ivNonneg j) (h.scripts j), rfl⟩
  | some t =>
    obtain ⟨d1, d2, d3⟩ := deleteTimer_spec A x.loop t h.inv
    exact ⟨sim_set h _ _ s.nextTok j _ _ d1 ((perm_filter_tok h.timers t).trans (d3.map toRec).symm)
      (fun w hw => h.rep01 w (List.mem_filter.1 (d3.mem_iff.1 hw)).1) (h.nextTok.trans d2.symm) rfl (h.ivNonneg j) (h.scripts j), rfl⟩

theorem sim_initTimer (A : Algs) {x : XState} {s : State} (h : Sim x s) (j ms : Nat) (os : Bool) (hms : ms < 2^63) :
    Sim (xInit A x j (msArg ms) os).1 (initTimer s j ms os).1 ∧ (xInit A x j (msArg ms) os).2 = (initTimer s j ms os).2 := by
  have ho : s.obj j = objOf (x.obj j) := h.objs j
  by_cases ha : (x.obj j).alive = true
  case neg =>
    have e1 : xInit A x j (msArg ms) os = (x, false) := by
      unfold xInit; rw [if_pos (not_eq_true_of_false ha)]
    have e2 : initTimer s j ms os = (s, false) := by
      unfold initTimer; rw [ho, if_pos (not_eq_true_of_false (b := (objOf (x.obj j)).alive) ha)]
    rw [e1, e2]; exact ⟨h, rfl⟩
  obtain ⟨h1, _⟩ := sim_disable A h j
  have e1 : xInit A x j (msArg ms) os = ((xDisable A x j).1.setObj j
      { (xDisable A x j).1.obj j with interval := msArg ms, oneshot := os, inited := true }, true) := by
    unfold xInit; rw [if_neg (not_eq_true_of ha)]
  have e2 : initTimer s j ms os = ((disable s j).1.setObj j
      { (disable s j).1.obj j with interval := ms, oneshot := os, inited := true }, true) := by
    unfold initTimer; rw [ho, if_neg (not_eq_true_of (b := (objOf (x.obj j)).alive) ha)]
  rw [e1, e2]
  have h1o : (disable s j).1.obj j = objOf ((xDisable A x j).1.obj j) := h1.objs j
  have hms' := msArg_spec ms hms
  refine ⟨sim_set h1 (xDisable A x j).1.loop (disable s j).1.timers (disable s j).1.nextTok j _ _ h1.inv h1.timers h1.rep01
    h1.nextTok ?_ ?_ (h1.scripts j), rfl⟩
  · rw [h1o]; simp only [objOf, hms', Int.toNat_natCast]
  · show 0 ≤ (msArg ms).toInt; rw [hms']; omega

theorem sim_destroy (A : Algs) {x : XState} {s : State} (h : Sim x s) (j : Nat) :
    Sim (xDestroy A x j).1 (destroy s j).1 ∧ (xDestroy A x j).2 = (destroy s j).2 := by
  have ho : s.obj j = objOf (x.obj j) := h.objs j
  by_cases ha : (x.obj j).alive = true
  case neg =>
    have e1 : xDestroy A x j = (x, false) := by
      unfold xDestroy; rw [if_pos (not_eq_true_of_false ha)]
    have e2 : destroy s j = (s, false) := by
      unfold destroy; rw [ho, if_pos (not_eq_true_of_false (b := (objOf (x.obj j)).alive) ha)]
    rw [e1, e2]; exact ⟨h, rfl⟩
  obtain ⟨h1, _⟩ := sim_disable A h j
  have e1 : xDestroy A x j = ((xDisable A x j).1.setObj j { (xDisable A x j).1.obj j with alive := false }, true) := by
    unfold xDestroy; rw [if_neg (not_eq_true_of ha)]
  have e2 : destroy s j = ((disable s j).1.setObj j { (disable s j).1.obj j with alive := false }, true) := by
    unfold destroy; rw [ho, if_neg (not_eq_true_of (b := (objOf (x.obj j)).alive) ha)]
  rw [e1, e2]
  have h1o : (disable s j).1.obj j = objOf ((xDisable A x j).1.obj j) := h1.objs j
  refine ⟨sim_set h1 (xDisable A x j).1.loop (disable s j).1.timers (disable s j).1.nextTok j _ _ h1.inv h1.timers h1.rep01
    h1.nextTok ?_ (h1.ivNonneg j) (h1.scripts j), rfl⟩
  rw [h1o]; rfl

/-- the record `enable` pushes -/
def newRec (s : State) (j : Nat) (o : Obj) : Rec :=
  { tok := s.nextTok, owner := j, expired := s.now + o.interval, interval := o.interval, oneshot := o.oneshot, base := s.now, k := 0 }

theorem sim_enable (A : Algs) {x : XState} {s : State} (h : Sim x s) (j : Nat) :
    Sim (xEnable A x j).1 (enable s j).1 ∧ (xEnable A x j).2 = (enable s j).2 := by
  have ho : s.obj j = objOf (x.obj j) := h.objs j
  by_cases ha : (x.obj j).alive = true
  case neg =>
    have e1 : xEnable A x j = (x, false) := by
      unfold xEnable; dsimp only; rw [if_pos (not_eq_true_of_false ha)]
    have e2 : enable s j = (s, false) := by
      unfold enable; dsimp only; rw [ho, if_pos (not_eq_true_of_false (b := (objOf (x.obj j)).alive) ha)]
    rw [e1, e2]; exact ⟨h, rfl⟩
  by_cases hi : (x.obj j).inited = true
  case neg =>
    have e1 : xEnable A x j = (x, false) := by
      unfold xEnable; dsimp only; rw [if_neg (not_eq_true_of ha), if_pos (not_eq_true_of_false hi)]
    have e2 : enable s j = (s, false) := by
      unfold enable; dsimp only
      rw [ho, if_neg (not_eq_true_of (b := (objOf (x.obj j)).alive) ha),
        if_pos (not_eq_true_of_false (b := (objOf (x.obj j)).inited) hi)]
    rw [e1, e2]; exact ⟨h, rfl⟩
  by_cases he : (x.obj j).enabled = true
  case pos =>
    have e1 : xEnable A x j = (x, true) := by
      unfold xEnable; dsimp only
      rw [if_neg (not_eq_true_of ha), if_neg (not_eq_true_of hi), if_pos he]
    have e2 : enable s j = (s, true) := by
      unfold enable; dsimp only
      rw [ho, if_neg (not_eq_true_of (b := (objOf (x.obj j)).alive) ha),
        if_neg (not_eq_true_of (b := (objOf (x.obj j)).inited) hi), if_pos (show (objOf (x.obj j)).enabled = true from he)]
    rw [e1, e2]; exact ⟨h, rfl⟩
  have e1 : xEnable A x j = ({ x with loop := (addTimer A x.loop x.now (intervalArg (x.obj j).interval)
        (if (x.obj j).oneshot then 1 else 0) j).1 }.setObj j
      { x.obj j with enabled := true,
                     token := some (addTimer A x.loop x.now (intervalArg (x.obj j).interval) (if (x.obj j).oneshot then 1 else 0) j).2 }, true) := by
    unfold xEnable; dsimp only
    rw [if_neg (not_eq_true_of ha), if_neg (not_eq_true_of hi), if_neg he]
  have e2 : enable s j = ({ s with timers := newRec s j (objOf (x.obj j)) :: s.timers, nextTok := s.nextTok + 1 }.setObj j
      { objOf (x.obj j) with enabled := true, token := some s.nextTok }, true) := by
    unfold enable; dsimp only
    rw [ho, if_neg (not_eq_true_of (b := (objOf (x.obj j)).alive) ha),
      if_neg (not_eq_true_of (b := (objOf (x.obj j)).inited) hi), if_neg (show ¬ (objOf (x.obj j)).enabled = true from he)]
    rfl
  rw [e1, e2]
  obtain ⟨a1, a2, a3⟩ := add_exact x.now (x.obj j).interval h.nowLt (h.ivNonneg j)
  obtain ⟨b1, b2, b3, b4⟩ := addTimer_spec A x.loop x.now (intervalArg (x.obj j).interval)
    (if (x.obj j).oneshot then 1 else 0) j h.inv (by have := h.nowPos; omega) a3
  refine ⟨sim_set h _ _ _ j _ _ b1 ?_ ?_ ?_ ?_ (h.ivNonneg j) (h.scripts j), rfl⟩
  · refine List.Perm.trans ?_ (b4.map toRec).symm
    rw [List.map_cons]
    have : toRec { tok := x.loop.nextTok, expired := x.now + intervalArg (x.obj j).interval, interval := intervalArg (x.obj j).interval, rep := (if (x.obj j).oneshot then 1 else 0), owner := j, base := x.now.toNat } = newRec s j (objOf (x.obj j)) := by
      simp only [toRec, newRec, a1, a2, h.nextTok, h.now, objOf_interval, objOf_oneshot]
      cases (x.obj j).oneshot <;> rfl
    rw [this]
    exact List.Perm.cons _ h.timers
  · intro w hw
    rcases List.mem_cons.1 (b4.mem_iff.1 hw) with rfl | hw'
    · cases (x.obj j).oneshot
      · left; rfl
      · right; rfl
    · exact h.rep01 w hw'
  · rw [b3, h.nextTok]
  · rw [b2, h.nextTok]; rfl

theorem sim_newObj {x : XState} {s : State} (h : Sim x s) (sc : List Act) (hsc : bndList sc = true) :
    Sim (xNewObj x sc) (newObjS s sc) := by
  have hs := sim_set h x.loop s.timers s.nextTok x.nObjs { script := sc } { script := sc } h.inv h.timers h.rep01 h.nextTok rfl
    (by show (0 : Int) ≤ (0 : Int64).toInt; decide) hsc
  unfold xNewObj newObjS
  rw [h.nObjs]
  exact { hs with nObjs := rfl }

/-! ### TimerPool, acts, scripts -/

theorem sim_poolSet {x : XState} {s : State} (h : Sim x s) (p k : List Nat) :
    Sim { x with pool := p } { s with pool := p, killed := k } :=
  { h with pool := rfl }

theorem bndList_append (sc : List Act) (k : Nat) (h : bndList sc = true) : bndList (sc ++ [.pfree k]) = true := by
  induction sc with
  | nil => simp [bndList, actBnd]
  | cons a as ih => simp only [bndList, Bool.and_eq_true, List.cons_append] at h ⊢; exact ⟨h.1, ih h.2⟩

theorem sim_pool_add (A : Algs) {x : XState} {s : State} (h : Sim x s) (ms : Nat) (os : Bool) (sc : List Act)
    (hms : ms < 2^63) (hsc : bndList sc = true) :
    Sim (XPool.add A x ms os sc).1 (Pool.add s ms os sc).1 ∧ (XPool.add A x ms os sc).2 = (Pool.add s ms os sc).2 := by
  unfold XPool.add Pool.add
  dsimp only
  rw [h.nObjs]
  have h1 := sim_newObj h sc hsc
  have h2 : Sim { xNewObj x sc with pool := x.nObjs :: (xNewObj x sc).pool }
      { newObjS s sc with pool := x.nObjs :: (newObjS s sc).pool } :=
    { h1 with pool := (by show x.nObjs :: s.pool = x.nObjs :: x.pool; rw [h.pool]) }
  have h3 := (sim_initTimer A h2 x.nObjs ms os hms).1
  exact ⟨(sim_enable A h3 x.nObjs).1, rfl⟩

theorem sim_pool_cancel (A : Algs) {x : XState} {s : State} (h : Sim x s) (k : Nat) :
    Sim (XPool.cancel A x k).1 (Pool.cancel s k).1 ∧ (XPool.cancel A x k).2 = (Pool.cancel s k).2 := by
  unfold XPool.cancel Pool.cancel XPool.live Pool.live
  rw [h.pool]
  by_cases hl : x.pool.contains k = true
  · rw [if_pos hl, if_pos hl]
    have h1 : Sim { x with pool := x.pool.filter (fun y => y != k) }
        { s with pool := x.pool.filter (fun x => x != k), killed := k :: s.killed } := sim_poolSet h _ _
    have h2 := (sim_disable A h1 k).1
    exact ⟨(sim_destroy A h2 k).1, rfl⟩
  · rw [if_neg hl, if_neg hl]; exact ⟨h, rfl⟩

theorem sim_killAll (A : Algs) (l : List Nat) : ∀ {x : XState} {s : State}, Sim x s →
    Sim (l.foldl (fun st k => (xDestroy A (xDisable A st k).1 k).1) x) (l.foldl (fun st k => (destroy (disable st k).1 k).1) s) := by
  induction l with
  | nil => intro x s h; exact h
  | cons k ks ih =>
    intro x s h
    simp only [List.foldl_cons]
    exact ih (sim_destroy A (sim_disable A h k).1 k).1

theorem sim_pool_cleanup (A : Algs) {x : XState} {s : State} (h : Sim x s) :
    Sim (XPool.cleanup A x) (Pool.cleanup s) := by
  unfold XPool.cleanup Pool.cleanup
  dsimp only
  rw [h.pool]
  exact sim_poolSet (sim_killAll A x.pool h) _ _

theorem sim_pool_free (A : Algs) {x : XState} {s : State} (h : Sim x s) (k : Nat) :
    Sim (XPool.free A x k) (Pool.free s k) := by
  unfold XPool.free Pool.free XPool.live Pool.live
  rw [h.pool]
  by_cases hl : x.pool.contains k = true
  · rw [if_pos hl, if_pos hl]
    have h1 : Sim { x with pool := x.pool.filter (fun y => y != k) }
        { s with pool := x.pool.filter (fun x => x != k), killed := s.killed } := sim_poolSet h _ _
    exact (sim_destroy A h1 k).1
  · rw [if_neg hl, if_neg hl]; exact h

theorem xAct_doAfter (A : Algs) (x : XState) (ms : Nat) (sc : List Act) :
    xAct A x (.doAfter ms sc) = ((XPool.add A x ms true (sc ++ [.pfree x.nObjs])).1, true) := rfl
theorem xAct_doEvery (A : Algs) (x : XState) (ms : Nat) (sc : List Act) :
    xAct A x (.doEvery ms sc) = ((XPool.add A x ms false sc).1, true) := rfl
theorem act_doAfter (s : State) (ms : Nat) (sc : List Act) :
    act s (.doAfter ms sc) = ((Pool.add s ms true (sc ++ [.pfree s.nObjs])).1, true) := rfl
theorem act_doEvery (s : State) (ms : Nat) (sc : List Act) :
    act s (.doEvery ms sc) = ((Pool.add s ms false sc).1, true) := rfl

theorem sim_act (A : Algs) {x : XState} {s : State} (h : Sim x s) (a : Act) (hb : actBnd a = true) :
    Sim (xAct A x a).1 (act s a).1 ∧ (xAct A x a).2 = (act s a).2 := by
  cases a with
  | init j ms o => simp only [actBnd, decide_eq_true_eq] at hb; exact sim_initTimer A h j ms o hb
  | enable j => exact sim_enable A h j
  | disable j => exact sim_disable A h j
  | destroy j => exact sim_destroy A h j
  | newObj sc => simp only [actBnd] at hb; exact ⟨sim_newObj h sc hb, rfl⟩
  | doAfter ms sc =>
    simp only [actBnd, Bool.and_eq_true, decide_eq_true_eq] at hb
    rw [xAct_doAfter, act_doAfter, h.nObjs]
    dsimp only
    have h1 := (sim_pool_add A h ms true (sc ++ [.pfree x.nObjs]) hb.1 (bndList_append sc _ hb.2)).1
    exact ⟨h1, rfl⟩
  | doEvery ms sc =>
    simp only [actBnd, Bool.and_eq_true, decide_eq_true_eq] at hb
    rw [xAct_doEvery, act_doEvery]
    dsimp only
    have h1 := (sim_pool_add A h ms false sc hb.1 hb.2).1
    exact ⟨h1, rfl⟩
  | cancel k => exact sim_pool_cancel A h k
  | cleanup => exact ⟨sim_pool_cleanup A h, rfl⟩
  | pfree k => exact ⟨sim_pool_free A h k, rfl⟩

theorem sim_runScript (A : Algs) (as : List Act) : ∀ {x : XState} {s : State}, Sim x s → bndList as = true →
    Sim (xRunScript A x as) (runScript s as) := by
  induction as with
  | nil => intro x s h _; exact h
  | cons a as ih =>
    intro x s h hb
    simp only [bndList, Bool.and_eq_true] at hb
    exact ih (sim_act A h a hb.1).1 hb.2

/-! ### one iteration of `handleExpiredTimers` -/

theorem find_tok {l : List Rec} (hnd : (l.map (·.tok)).Nodup) {r : Rec} (hr : r ∈ l) :
    l.find? (fun q => q.tok == r.tok) = some r := by
  induction l with
  | nil => cases hr
  | cons y ys ih =>
    simp only [List.map_cons, List.nodup_cons] at hnd
    rcases List.mem_cons.1 hr with rfl | hr'
    · simp
    · have hne : (y.tok == r.tok) = false := by
        rw [beq_eq_false_iff_ne]; intro he
        exact hnd.1 (List.mem_map.2 ⟨r, hr', he.symm⟩)
      rw [List.find?_cons, hne]
      exact ih hnd.2 hr'

theorem filter_front {f : WTimer} {rest : List WTimer} (hnd : ((f :: rest).map (·.tok)).Nodup) :
    (f :: rest).filter (fun w => !hasTok f.tok w) = rest := by
  simp only [List.map_cons, List.nodup_cons] at hnd
  rw [List.filter_cons]
  have : (!hasTok f.tok f) = false := by simp [hasTok]
  rw [this]
  simp only [Bool.false_eq_true, ↓reduceIte]
  rw [List.filter_eq_self]
  intro w hw
  simp only [hasTok, Bool.not_eq_eq_eq_not, Bool.not_true, beq_eq_false_iff_ne]
  intro he
  exact hnd.1 (List.mem_map.2 ⟨w, hw, he⟩)

theorem toRec_rearm (f : WTimer) (h0 : f.rep = 0) (hexp : (f.expired + f.interval).toNat = f.expired.toNat + f.interval.toNat) :
    toRec (rearm f) = { toRec f with expired := (toRec f).expired + (toRec f).interval, k := (toRec f).k + 1 } := by
  obtain ⟨tok, exp, iv, rep, owner, base, k⟩ := f
  simp only at h0
  subst h0
  simp only [toRec, rearm, hexp]
  rfl

/-- the log entry `fireHead` writes -/
def evS (s : State) (r : Rec) : Fired :=
  { obj := r.owner, passNow := s.passNow.getD s.now, base := r.base, n := r.k + 1, interval := r.interval,
    okAtCall := (s.obj r.owner).alive && (s.obj r.owner).enabled, deadline := r.expired,
    prevDeadline := s.lastDeadline, oneshot := r.oneshot }
/-- the log entry `xFireHead` writes -/
def evX (x : XState) (t : UInt64) (r : WTimer) : Fired :=
  { obj := r.owner, passNow := t.toNat, base := r.base, n := r.k + 1, interval := r.interval.toNat,
    okAtCall := (x.obj r.owner).alive && (x.obj r.owner).enabled, deadline := r.expired.toNat,
    prevDeadline := x.lastDeadline, oneshot := r.rep == 1 }
/-- the record list `fireHead` leaves -/
def firedTimers (s : State) (r : Rec) : List Rec :=
  if r.oneshot then s.timers.filter (fun q => q.tok != r.tok)
  else { r with expired := r.expired + r.interval, k := r.k + 1 } :: s.timers.filter (fun q => q.tok != r.tok)

theorem sim_fire (A : Algs) (wl : Int64) {x : XState} {s : State} (h : Sim x s) (t : UInt64) (hp : x.passNow = some t)
    (f : WTimer) (rest : List WTimer) (hh : x.loop.heap = f :: rest) (hd : due t f.expired = true) :
    valid s (.fire f.tok) = true ∧ Sim (xFire A wl x t) (step s (.fire f.tok)) := by
  have htl : t.toNat < 2^63 := Nat.lt_of_le_of_lt (h.passLe t hp) h.nowLt
  obtain ⟨l', e, hi', hnx, hp1, hp2, hmin⟩ := handleOne_serves A wl x.loop t f rest h.inv htl hh hd
  have hfm : f ∈ x.loop.heap := by rw [hh]; exact List.mem_cons_self
  have hmem : toRec f ∈ s.timers := h.timers.mem_iff.2 (List.mem_map.2 ⟨f, hfm, rfl⟩)
  have hnd : (s.timers.map (·.tok)).Nodup := by
    refine ((h.timers.map (·.tok)).nodup_iff).2 ?_
    rw [List.map_map]
    exact h.inv.nodup
  have hfind : findTok s f.tok = some (toRec f) := find_tok hnd hmem
  have hdue : f.expired.toNat ≤ t.toNat := by
    have := hd; rw [due_iff] at this; simpa using this
  have hsp : s.passNow = some t.toNat := by rw [h.passNow, hp]; rfl
  have hcan : canFire s (toRec f) = true := by
    unfold canFire
    rw [hsp]
    simp only [Bool.and_eq_true, decide_eq_true_eq, List.all_eq_true]
    refine ⟨⟨hmem, hdue⟩, ?_⟩
    intro q hq
    obtain ⟨w, hw, rfl⟩ := List.mem_map.1 (h.timers.mem_iff.1 hq)
    exact hmin w hw
  refine ⟨by simp only [valid, hfind, hcan], ?_⟩
  have hstep : step s (.fire f.tok) = runScript (fireHead s (toRec f)) (x.obj f.owner).script := by
    simp only [step, hfind]
    rw [fire_eq]
    have : s.obj (toRec f).owner = objOf (x.obj f.owner) := h.objs f.owner
    rw [this]; rfl
  have hx : xFire A wl x t = xRunScript A (xFireHead x t l' f) (x.obj f.owner).script := by
    unfold xFire; rw [e]
  rw [hstep, hx]
  refine sim_runScript A _ ?_ (h.scripts f.owner)
  -- the heads
  have hso : s.obj f.owner = objOf (x.obj f.owner) := h.objs f.owner
  have hrest : (s.timers.filter (fun q => q.tok != f.tok)).Perm (rest.map toRec) := by
    have := perm_filter_tok h.timers f.tok
    rw [hh, filter_front (hh ▸ h.inv.nodup)] at this
    exact this
  have hev : evS s (toRec f) = evX x t f := by
    unfold evS evX
    rw [hsp, h.last, show s.obj (toRec f).owner = objOf (x.obj f.owner) from hso]; rfl
  have h0 : Sim { x with loop := l', log := evX x t f :: x.log, lastDeadline := f.expired.toNat }
      { s with timers := firedTimers s (toRec f), log := evS s (toRec f) :: s.log, lastDeadline := (toRec f).expired } := by
    unfold firedTimers
    by_cases hr : f.rep = 1
    · have hos : (toRec f).oneshot = true := by simp [toRec, hr]
      rw [if_pos hos]
      exact { h with inv := hi', timers := hrest.trans ((hp1 hr).map toRec).symm,
                     rep01 := fun w hw => h.rep01 w (by rw [hh]; exact List.mem_cons_of_mem _ ((hp1 hr).mem_iff.1 hw)),
                     nextTok := h.nextTok.trans hnx.symm,
                     log := (by show _ :: s.log = _ :: x.log; rw [hev, h.log]),
                     last := rfl }
    · have hos : ¬ (toRec f).oneshot = true := by simp [toRec, hr]
      rw [if_neg hos]
      have hr0 : f.rep = 0 := by rcases h.rep01 f hfm with h0 | h1; exact h0; exact absurd h1 hr
      have hex := rearm_exact t f hd htl (h.inv.ivLt f hfm)
      have htr := toRec_rearm f hr0 hex
      exact { h with inv := hi',
                     timers := (by
                       show (_ :: s.timers.filter (fun q => q.tok != f.tok)).Perm (l'.heap.map toRec)
                       rw [← htr]
                       exact (List.Perm.cons _ hrest).trans ((hp2 hr).map toRec).symm),
                     rep01 := (by
                       intro w hw
                       rcases List.mem_cons.1 ((hp2 hr).mem_iff.1 hw) with rfl | hw'
                       · left; show (if f.rep != 0 then f.rep - 1 else f.rep) = 0; rw [hr0]; rfl
                       · exact h.rep01 w (by rw [hh]; exact List.mem_cons_of_mem _ hw')),
                     nextTok := h.nextTok.trans hnx.symm,
                     log := (by show _ :: s.log = _ :: x.log; rw [hev, h.log]),
                     last := rfl }
  unfold xFireHead fireHead
  dsimp only
  have hso' : s.obj (toRec f).owner = objOf (x.obj f.owner) := hso
  have hone' : (s.obj (toRec f).owner).oneshot = (x.obj f.owner).oneshot := by rw [hso']; rfl
  by_cases hone : (x.obj f.owner).oneshot = true
  · rw [if_pos hone, if_pos (hone'.trans hone)]
    exact sim_set h0 l' _ _ f.owner { x.obj f.owner with enabled := false, token := none } _ h0.inv h0.timers h0.rep01 h0.nextTok
      (by rw [hso']; rfl) (h.ivNonneg f.owner) (h.scripts f.owner)
  · rw [if_neg hone, if_neg (by rw [hone']; exact hone)]
    exact h0

/-! ### steps and executions -/

theorem sim_step (A : Algs) (wl : Int64) {x : XState} {s : State} (h : Sim x s) (st : Step) (hb : stepBnd st = true)
    (hv : xvalid A wl x st = true) : valid s st = true ∧ Sim (xstep A wl x st) (step s st) := by
  have hnone : x.passNow.isNone = true → s.passNow.isNone = true := by
    intro hx; rw [h.passNow]; cases hpn : x.passNow with
    | none => rfl
    | some t => rw [hpn] at hx; cases hx
  cases st with
  | newObj sc => exact ⟨hnone hv, sim_newObj h sc hb⟩
  | api a => exact ⟨hnone hv, (sim_act A h a hb).1⟩
  | beginPass =>
    refine ⟨hnone hv, ?_⟩
    exact { h with passNow := (by show some s.now = (some x.now).map (·.toNat); rw [h.now]; rfl),
                   passLe := (by intro t ht; cases ht; exact Nat.le_refl _),
                   last := rfl }
  | advance d =>
    refine ⟨rfl, ?_⟩
    have hd : x.now.toNat + d < 2^63 := by simpa [xvalid] using hv
    have hnat : (x.now + UInt64.ofNat d).toNat = x.now.toNat + d := by
      rw [UInt64.toNat_add, UInt64.toNat_ofNat']
      omega
    exact { h with now := (by show s.now + d = (x.now + UInt64.ofNat d).toNat; rw [hnat, h.now]),
                   nowLt := (by show (x.now + UInt64.ofNat d).toNat < 2^63; rw [hnat]; exact hd),
                   nowPos := (by show 1 ≤ (x.now + UInt64.ofNat d).toNat; rw [hnat]; have := h.nowPos; omega),
                   passLe := (by
                     intro t ht
                     show t.toNat ≤ (x.now + UInt64.ofNat d).toNat
                     rw [hnat]; have := h.passLe t ht; omega) }
  | endPass =>
    cases hpn : x.passNow with
    | none => simp [xvalid, hpn] at hv
    | some t =>
      simp only [xvalid, hpn, Option.isNone_iff_eq_none] at hv
      obtain ⟨_, hall⟩ := handleOne_leaves A wl x.loop t h.inv hv
      have hsp : s.passNow = some t.toNat := by rw [h.passNow, hpn]; rfl
      refine ⟨?_, ?_⟩
      · simp only [valid, hsp, List.all_eq_true, decide_eq_true_eq]
        intro q hq
        obtain ⟨w, hw, rfl⟩ := List.mem_map.1 (h.timers.mem_iff.1 hq)
        exact hall w hw
      · exact { h with passNow := rfl, passLe := (by intro t' ht'; cases ht') }
  | fire tok =>
    cases hpn : x.passNow with
    | none => simp [xvalid, hpn] at hv
    | some t =>
      cases hheap : x.loop.heap with
      | nil => simp [xvalid, hpn, handleOne, hheap] at hv
      | cons f rest =>
        by_cases hd : due t f.expired = true
        · simp only [xvalid, hpn, handleOne, hheap, hd, ↓reduceIte, beq_iff_eq] at hv
          subst hv
          have := sim_fire A wl h t hpn f rest hheap hd
          simp only [xstep, hpn]
          exact this
        · simp [xvalid, hpn, handleOne, hheap, hd] at hv

theorem sim_exec (A : Algs) (wl : Int64) (sts : List Step) : ∀ {x : XState} {s : State}, Sim x s → bndSteps sts = true →
    ∀ x', xexec A wl x sts = some x' → ∃ s', exec s sts = some s' ∧ Sim x' s' := by
  induction sts with
  | nil => intro x s h _ x' he; simp only [xexec, Option.some.injEq] at he; subst he; exact ⟨s, rfl, h⟩
  | cons st sts ih =>
    intro x s h hb x' he
    simp only [bndSteps, List.all_cons, Bool.and_eq_true] at hb
    simp only [xexec] at he
    split at he
    · rename_i hv
      obtain ⟨v, hs⟩ := sim_step A wl h st hb.1 hv
      obtain ⟨s', e', hs'⟩ := ih hs hb.2 x' he
      exact ⟨s', by simp only [exec, v, ↓reduceIte]; exact e', hs'⟩
    · cases he

end Tbox.C02.Wide
