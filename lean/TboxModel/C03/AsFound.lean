/-
C03 — the dispatch of the code AS FOUND (before patches/C03-01…04), over the same state and the
same API functions as `Model.lean`, and the concrete executions on which it violates the property.
Every counterexample below was replayed on the real loops by the check (corpus/C03/*.ops):
  * select: `fd_data_map_.at(fd)` throws when an earlier callback of the pass destroyed the last
    event of a ready descriptor;
  * epoll: the kernel hands back the *pointer* of the shared record (a pool block): after the same
    scenario it is dereferenced although freed, or — when the block was reused for another
    descriptor — the readiness of the old descriptor is delivered to the events of the new one;
  * both: the subscriber vector is copied and every copy entry is called without asking whether the
    event is still subscribed: a sibling disabled by an earlier subscriber is still called, a deleted
    one is dereferenced;
  * both (after the first three repairs): a descriptor number closed and reopened inside a callback
    gets the readiness the kernel reported for the old file.
-/
import TboxModel.C03.Model
namespace Tbox.C03

/-- the copy loop as found: every entry of the snapshot is called (`onEvent` itself reports the
dereference of a destroyed event) -/
def loopAF (w : Wait) (f m : Nat) : State → List Nat → State
  | s, [] => s
  | s, e :: rest => loopAF w f m (onEvent w f m s e) rest

/-- select as found: `fd_data_map_.at(fd)`; `false` = an exception left the loop -/
def dispatchSelectAF (w : Wait) (s : State) (fm : Nat × Nat) : State × Bool :=
  match s.recs fm.1 with
  | none => (s.emit (.bad .raise), false)
  | some r => (loopAF w fm.1 fm.2 s r.subs, true)

def passSelectAF (s : State) (ready : List (Nat × Nat)) : State :=
  let w := waitOf s ready
  (ready.foldl (fun (acc : State × Bool) fm => if acc.2 then dispatchSelectAF w acc.1 fm else acc) (s, true)).1

/-- descriptors the counterexamples use -/
def fdRange : List Nat := List.range 8

/-- epoll as found: the ready entry carries the pool block that held the record when the wait
returned; dispatch dereferences that block, whatever it holds now -/
def dispatchEpollAF (w : Wait) (s : State) (bm : Nat × Nat) : State :=
  if s.freeList.contains bm.1 then s.emit (.bad .freedRecord)
  else match fdRange.find? (fun g => (s.recs g).map (·.block) == some bm.1) with
    | none => s.emit (.bad .freedRecord)
    | some g => match s.recs g with
      | some r => loopAF w g bm.2 s r.subs
      | none => s

def passEpollAF (s : State) (ready : List (Nat × Nat)) : State :=
  let w := waitOf s ready
  let ptrs := ready.filterMap fun fm => (s.recs fm.1).map fun r => (r.block, fm.2)
  ptrs.foldl (dispatchEpollAF w) s

/-- repairs 01–03 without 04: record looked up by descriptor, subscribers re-validated, but no
creation stamp -/
def loopNoSerial (w : Wait) (f m : Nat) : State → List Nat → State
  | s, [] => s
  | s, e :: rest =>
    match s.recs f with
    | none => s
    | some r => if r.subs.contains e then loopNoSerial w f m (onEvent w f m s e) rest
                else loopNoSerial w f m s rest

def passNoSerial (s : State) (ready : List (Nat × Nat)) : State :=
  let w := waitOf s ready
  ready.foldl (fun s fm => match s.recs fm.1 with
    | none => s
    | some r => loopNoSerial w fm.1 fm.2 s r.subs) s

def runSteps (sts : List Step) : State := sts.foldl step init

/-- events 0 (descriptor 0) and 1 (descriptor 1), both readable; the callback of 0 destroys 1
(and optionally does more) -/
def twoFds (extra : List Act) : State :=
  runSteps [.newEv (.destroy 1 :: extra), .newEv [], .newEv [],
            .api (.init 0 0 1 false), .api (.init 1 1 1 false), .api (.enable 0), .api (.enable 1),
            .api (.setR 0 true), .api (.setR 1 true)]

/-- events 0 and 1 share descriptor 0; the callback of 0 does `a` to its sibling -/
def sharedFd (a : Act) : State :=
  runSteps [.newEv [a], .newEv [], .api (.init 0 0 1 false), .api (.init 1 0 1 false),
            .api (.enable 0), .api (.enable 1), .api (.setR 0 true)]

def hasBad (s : State) (b : Bad) : Bool := s.log.contains (.bad b)
def cbsWhere (s : State) (p : Cb → Bool) : List Nat :=
  s.log.filterMap fun o => match o with | .cb c => if p c then some c.e else none | _ => none

/-- select as found: an exception leaves the loop -/
theorem C03_select_at_counterexample :
    validReady .select (twoFds []) [(0, 1), (1, 1)] = true ∧
    hasBad (passSelectAF (twoFds []) [(0, 1), (1, 1)]) .raise = true := by decide

/-- epoll as found: the freed pooled record is dereferenced -/
theorem C03_epoll_stale_record_counterexample :
    validReady .epoll (twoFds []) [(0, 1), (1, 1)] = true ∧
    hasBad (passEpollAF (twoFds []) [(0, 1), (1, 1)]) .freedRecord = true := by decide

/-- epoll as found: the block is reused for descriptor 2 and event 2 receives the readiness that was
reported for descriptor 1 — a callback whose descriptor is not in the ready list -/
theorem C03_epoll_reused_block_counterexample :
    validReady .epoll (twoFds [.init 2 2 1 false, .enable 2]) [(0, 1), (1, 1)] = true ∧
    cbsWhere (passEpollAF (twoFds [.init 2 2 1 false, .enable 2]) [(0, 1), (1, 1)]) (fun c => !c.inReady) = [2] := by
  decide

/-- both back-ends as found: a sibling disabled by the first subscriber is still called -/
theorem C03_disabled_sibling_counterexample :
    cbsWhere (passSelectAF (sharedFd (.disable 1)) [(0, 1)]) (fun c => !c.enabledAt) = [1] ∧
    cbsWhere (passEpollAF (sharedFd (.disable 1)) [(0, 1)]) (fun c => !c.enabledAt) = [1] := by decide

/-- both back-ends as found: a sibling deleted by the first subscriber is dereferenced -/
theorem C03_destroyed_sibling_counterexample :
    hasBad (passSelectAF (sharedFd (.destroy 1)) [(0, 1)]) .deadEvent = true ∧
    hasBad (passEpollAF (sharedFd (.destroy 1)) [(0, 1)]) .deadEvent = true := by decide

/-- without the creation stamp: descriptor 1 is closed, reopened and given the fresh event 2 inside
the callback of event 0; event 2 is called with the readiness of the old file -/
theorem C03_fd_reuse_counterexample :
    cbsWhere (passNoSerial (twoFds [.close 1, .init 2 1 1 false, .enable 2]) [(0, 1), (1, 1)])
      (fun c => !c.instOk) = [2] ∧
    cbsWhere (pass (twoFds [.close 1, .init 2 1 1 false, .enable 2]) [(0, 1), (1, 1)]) (fun _ => true) = [0] := by
  decide

/-- `removeInvalidFds` as found: a range-for over the live subscriber vector while `disable()` erases
from it — position `i` of the shrinking vector is read for every `i` below the ORIGINAL size -/
def disableAllAF (f : Nat) : List Nat → State → State
  | [], s => s
  | i :: is, s =>
    match s.recs f with
    | none => s
    | some r =>
      match r.subs[i]? with
      | some e => disableAllAF f is (disableEv s e).1
      | none => s.emit (.bad .pastEnd)

def removeInvalidAF (s : State) (f : Nat) : State :=
  match s.recs f with
  | none => s
  | some r => disableAllAF f (List.range r.subs.length) s

/-- three events enabled on descriptor 0, which is then closed -/
def threeOnClosed : State :=
  runSteps [.newEv [], .newEv [], .newEv [], .api (.init 0 0 1 false), .api (.init 1 0 1 false), .api (.init 2 0 1 false),
            .api (.enable 0), .api (.enable 1), .api (.enable 2), .api (.kill 0)]

/-- select as found, EBADF: the vector is read past its end and event 1 stays enabled on the closed
descriptor (the next `select` fails again); the repaired loop disables all three -/
theorem C03_badf_partial_disable_counterexample :
    badfTrigger threeOnClosed [0] = true ∧
    hasBad (removeInvalidAF threeOnClosed 0) .pastEnd = true ∧
    ((removeInvalidAF threeOnClosed 0).evs 1).enabled = true ∧
    badfTrigger (removeInvalidAF threeOnClosed 0) [0] = true ∧
    badfTrigger (removeInvalid threeOnClosed [0]) [0] = false := by decide

/-- what the epoll back-end as found can be told about descriptor `f`: it asks for EPOLLERR, not
EPOLLPRI, so pending out-of-band data is never reported -/
def reportedEpollAF (s : State) (f : Nat) : Nat :=
  s.kern f &&& (actualMask s f &&& 3)

/-- an except subscriber and out-of-band data: select reports the except condition, epoll as found
reports nothing — the back-ends disagree on an order-independent (single-descriptor) pass -/
theorem C03_except_backends_counterexample :
    let s := runSteps [.newEv [], .api (.init 0 0 4 false), .api (.enable 0), .api (.oob 0)]
    validReady .select s [(0, 4)] = true ∧ cbsWhere (pass s [(0, 4)]) (fun _ => true) = [0] ∧
    reportedEpollAF s 0 = 0 ∧ validReady .epoll s [(0, 4)] = true := by decide

/-- a whole turn with the snapshot `wait_serial_ = fd_data_serial_` taken where it is used — AFTER
`handleExpiredTimers()` — instead of right after the wait (seeded/C03-6): a record created by a timer
callback of the same turn passes for one that existed when the kernel reported -/
def loopPassLate (s : State) (tms : List (List Act)) (ready : List (Nat × Nat)) (nx : List (List Act)) : State :=
  let s1 := runScripts s tms
  let w : Wait := { serial := s1.serial, gen := s.gen, ready := ready }
  runScripts (ready.foldl (dispatchFd w) s1) nx

/-- event 0 enabled for reading on descriptor 0, which is readable; event 1 is a spare object -/
def timerReuse : State :=
  runSteps [.newEv [], .newEv [], .api (.init 0 0 1 false), .api (.enable 0), .api (.setR 0 true)]

/-- the script of the timer that is due in the same turn: destroy the last event of descriptor 0, close
the descriptor, open a new one under the same number and enable a fresh event on it -/
def reuseScript : List Act := [.destroy 0, .close 0, .init 1 0 1 false, .enable 1]

/-- the late snapshot delivers the readiness of the old file to the event of the new one (which is not
readable); the code as it is delivers nothing; the close contract is kept in both runs -/
theorem C03_late_snapshot_counterexample :
    validReady .epoll timerReuse [(0, 1)] = true ∧
    cbsWhere (loopPassLate timerReuse [reuseScript] [(0, 1)] []) (fun c => !c.instOk) = [1] ∧
    (loopPassLate timerReuse [reuseScript] [(0, 1)] []).breach = false ∧
    actualMask (loopPassLate timerReuse [reuseScript] [(0, 1)] []) 0 &&& 1 = 0 ∧
    cbsWhere (loopPass timerReuse [reuseScript] [(0, 1)] []) (fun _ => true) = [] := by decide

/-! ### a failed wait (select): `errno` was read after the timer callbacks had run -/

inductive WaitErr where
  | eintr | ebadf | other
deriving DecidableEq, Repr

/-- script actions that end in a failing system call in the harness and in any real callback of that kind:
draining a non-blocking socket reads until EAGAIN, filling it writes until EAGAIN -/
def clobbers : Act → Bool
  | .setR _ false => true
  | .setW _ false => true
  | _ => false

/-- what `SelectLoop::runLoop` does when `select` returned -1 with `e` (patch 08: `e` is saved right after
the call): EBADF → `removeInvalidFds`, EINTR → nothing, anything else → `break`, i.e. the loop TERMINATES
(`none`).  The timer callbacks run in between in every case. -/
def selectFailed (s : State) (e : WaitErr) (tms : List (List Act)) (fds : List Nat) (nx : List (List Act)) : Option State :=
  match e with
  | .ebadf => some (loopBadf s tms fds nx)
  | .eintr => some (loopPass s tms [] nx)
  | .other => none

/-- as found: `errno` itself is inspected after `handleExpiredTimers()` -/
def selectFailedAF (s : State) (e : WaitErr) (tms : List (List Act)) (fds : List Nat) (nx : List (List Act)) : Option State :=
  selectFailed s (if tms.any (·.any clobbers) then .other else e) tms fds nx

/-- an interrupted wait, or one that found a closed descriptor, with a timer due whose callback drains a
socket: the loop as found terminates; the repaired loop goes on (and disables the events of the closed
descriptor) -/
theorem C03_select_errno_counterexample :
    selectFailedAF timerReuse .eintr [[.setR 0 false]] [] [] = none ∧
    (selectFailed timerReuse .eintr [[.setR 0 false]] [] []).isSome = true ∧
    selectFailedAF threeOnClosed .ebadf [[.setR 1 false]] [0] [] = none ∧
    (selectFailed threeOnClosed .ebadf [[.setR 1 false]] [0] []).map (fun s => badfTrigger s [0]) = some false := by
  decide

end Tbox.C03
