/- C03 — event-mask plumbing of both engines.  The (from, to) tables in `GenMask.lean` are regenerated
from the if-chains of the source on every run; the theorems below are about those tables, so a changed
chain breaks a proof obligation at build time.

epoll bits: IN 1, PRI 2, OUT 4, ERR 8, HUP 16 (`<sys/epoll.h>`); tbox bits: read 1, write 2, except 4.
Kernel contract assumed (Linux `epoll_ctl(2)`): a wait reports, for a registered descriptor, requested
bits that are ready — and EPOLLERR / EPOLLHUP whether requested or not (`kernelMayReport`).  `select`
returns a descriptor only in sets it was put into. -/
import TboxModel.C03.GenMask
import TboxModel.C03.AsFound
namespace Tbox.C03
open Gen

/-- an if-chain `if (x & from) out |= to;` -/
def xlat (tbl : List (Nat × Nat)) (x : Nat) : Nat :=
  tbl.foldl (fun acc p => if x &&& p.1 != 0 then acc ||| p.2 else acc) 0

/-- `reloadEpoll`: epoll bits requested for the tbox interest `m` (the mask recomputed from the counters) -/
def epollRequest (m : Nat) : Nat := xlat epollAsk m
/-- `EpollFdEvent::OnEventCallback`: tbox bits handed to `onEvent` for the reported epoll bits -/
def epollToTbox (ev : Nat) : Nat := xlat epollReport ev
/-- what is left in `events` after the chain (logged as "unhandle events") -/
def epollUnhandled (ev : Nat) : Nat := epollReport.foldl (fun acc p => if acc &&& p.1 != 0 then acc - p.1 else acc) ev
def selectRequest (m : Nat) : Nat := xlat selectAsk m
def selectToTbox (sets : Nat) : Nat := xlat selectReport sets

def errHup : Nat := 8 ||| 16
/-- reported bits ⊆ requested ∪ {EPOLLERR, EPOLLHUP} -/
def kernelMayReport (req ev : Nat) : Bool := (ev ||| req ||| errHup) == (req ||| errHup)
/-- the tbox bits that can reach a subscriber although nobody asked for them: read (through EPOLLHUP, by
design: the reader then sees end-of-file) and except (through EPOLLERR) -/
def alwaysOn : Nat := 1 ||| 4

def sameSet (a b : List (Nat × Nat)) : Bool := a.all b.contains && b.all a.contains

/-- the tables as read from the source, as sets (the order of independent `if` blocks is free) -/
theorem C03_mask_tables :
    sameSet epollAsk [(1, 1), (2, 4), (4, 10)] = true ∧ sameSet epollReport [(1, 1), (4, 2), (8, 4), (2, 4), (16, 1)] = true ∧
    sameSet selectAsk [(1, 1), (2, 2), (4, 4)] = true ∧ sameSet selectReport [(1, 1), (2, 2), (4, 4)] = true ∧
    onEventGuarded = true ∧ tboxBits = [1, 2, 4] := by decide

/-- every one of the five kernel bits is handled (nothing is left for the "unhandle events" warning),
HUP is delivered as read, ERR and PRI as except -/
theorem C03_epoll_report_table :
    (∀ ev, ev < 32 → epollUnhandled ev = 0) ∧ epollToTbox 16 = 1 ∧ epollToTbox 8 = 4 ∧ epollToTbox 2 = 4 ∧
    epollToTbox 1 = 1 ∧ epollToTbox 4 = 2 := by decide

/-- **no bit nobody asked for, except the always-on ones** (epoll): whatever the kernel may report for the
request built from interest `m`, the tbox mask handed to the subscribers lies within `m ∪ {read, except}`;
and without an error / hang-up condition it lies within `m` exactly. -/
theorem C03_epoll_report_within_interest :
    ∀ m, m < 8 → ∀ ev, ev < 32 → kernelMayReport (epollRequest m) ev = true →
      (epollToTbox ev ||| m ||| alwaysOn) = (m ||| alwaysOn) ∧
      (ev &&& errHup = 0 → (epollToTbox ev ||| m) = m) := by decide

/-- the request is faithful: a condition is requested iff its counter is positive, and each requested
condition that is ready comes back as its own tbox bit -/
theorem C03_epoll_request_roundtrip :
    ∀ m, m < 8 → epollToTbox (epollRequest m) = m ∧ (epollRequest m = 0 ↔ m = 0) := by decide

/-- select: sets and tbox bits are the same three bits both ways, so the reported mask lies within the
interest (select returns a descriptor only in sets it was put into) -/
theorem C03_select_report_exact :
    ∀ m, m < 8 → selectRequest m = m ∧ selectToTbox m = m := by decide

/-- in the model: the mask of a valid ready entry lies within the interest of its descriptor at the wait
(the harness produces no error / hang-up condition, see ASSUMPTIONS) -/
theorem C03_ready_within_interest {be : Backend} {s : State} {r : List (Nat × Nat)} (h : validReady be s r = true) :
    ∀ fm ∈ r, fm.2 &&& interest be s fm.1 = fm.2 := by
  intro fm hfm
  unfold validReady at h
  simp only [Bool.and_eq_true, decide_eq_true_eq, List.all_eq_true, bne_iff_ne, ne_eq, beq_iff_eq] at h
  have := (h.1.2 fm hfm).2
  rw [this, Nat.and_comm, ← Nat.and_assoc, Nat.and_self]

theorem and7 : ∀ m, m < 8 → 7 &&& m = m := by decide

/-- **width**: `initialize(fd, short events, …)` stores `events` in a `uint32_t` (a negative `short` is
sign-extended); only the three condition bits are ever inspected — by the counters (`events_ & kXEvent`) and
by `onEvent` (`events_ & events` with a reported mask below 8) — so every bit above them is inert: the event
behaves exactly like one initialised with `events % 8`, for every value of the 16 (or more) bits -/
theorem C03_mask_high_bits_inert (mask m : Nat) (hm : m < 8) : hasBit mask m = hasBit (mask % 8) m := by
  unfold hasBit
  have h7 : mask % 8 = mask &&& 7 := (Nat.and_two_pow_sub_one_eq_mod mask 3).symm
  rw [h7, Nat.and_assoc, and7 m hm]

/-- what the statement does NOT promise and the code does not do: the mask handed to a callback is the
readiness of the DESCRIPTOR, not restricted to the event's own conditions — a read subscriber sharing a
descriptor with a write subscriber is handed read|write -/
theorem C03_sibling_bits_counterexample :
    let s := runSteps [.newEv [], .newEv [], .api (.init 0 0 1 false), .api (.init 1 0 2 false),
                       .api (.enable 0), .api (.enable 1), .api (.setR 0 true)]
    validReady .epoll s [(0, 3)] = true ∧ cbKeys (pass s [(0, 3)]) = [(1, 3), (0, 3)] := by decide

end Tbox.C03
