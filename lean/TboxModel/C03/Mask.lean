/- C03 — event-mask plumbing of both engines.  The (from, to) tables in `GenMask.lean` are regenerated
from the if-chains of the source on every run; the theorems below are about those tables, so a changed
chain breaks a proof obligation at build time.

epoll bits: IN 1, PRI 2, OUT 4, ERR 8, HUP 16 (`<sys/epoll.h>`); tbox bits: read 1, write 2, except 4.
Kernel contract assumed (Linux `epoll_ctl(2)`): a wait reports, for a registered descriptor, requested
bits that are ready — and EPOLLERR / EPOLLHUP whether requested or not (`kernelMayReport`, `epollKernel`).  `select`
returns a descriptor only in sets it was put into; hang-up and error count as readable, error as writable
(`selectKernel`).  Round 4 drives both contracts on the real kernel in every run (peer close, peer shutdown, pipe ends
closed, refused connect: the `K` lines must be what `reportOf` says). -/
import TboxModel.C03.GenMask
import TboxModel.C03.AsFound
import TboxModel.C03.Proofs
namespace Tbox.C03
open Gen

/-- an if-chain `if (x & from) out |= to;` -/
def xlat (tbl : List (Nat × Nat)) (x : Nat) : Nat :=
  tbl.foldl (fun acc p => if x &&& p.1 != 0 then acc ||| p.2 else acc) 0

/-- `reloadEpoll`: epoll bits requested for the tbox interest `m` (the mask recomputed from the counters) -/
def epollRequest (m : Nat) : Nat := xlat epollAsk m
/-- `EpollFdEvent::OnEventCallback`: tbox bits handed to `onEvent` for the reported epoll bits -/
def epollToTbox (ev : Nat) : Nat := xlat epollReport ev
/-- what is left in `events` after the chain (logged as "unhandle events") -/
def epollUnhandled (ev : Nat) : Nat := epollReport.foldl (fun acc p => if acc &&& p.1 != 0 then acc - p.1 else acc) ev
def selectRequest (m : Nat) : Nat := xlat selectAsk m
def selectToTbox (sets : Nat) : Nat := xlat selectReport sets

def errHup : Nat := 8 ||| 16
/-- reported bits ⊆ requested ∪ {EPOLLERR, EPOLLHUP} -/
def kernelMayReport (req ev : Nat) : Bool := (ev ||| req ||| errHup) == (req ||| errHup)
/-- the tbox bits that can reach a subscriber although nobody asked for them: read (through EPOLLHUP, by
design: the reader then sees end-of-file) and except (through EPOLLERR) -/
def alwaysOn : Nat := 1 ||| 4

def sameSet (a b : List (Nat × Nat)) : Bool := a.all b.contains && b.all a.contains

/-- the tables as read from the source, as sets (the order of independent `if` blocks is free) -/
theorem C03_mask_tables :
    sameSet epollAsk [(1, 1), (2, 4), (4, 10)] = true ∧ sameSet epollReport [(1, 1), (4, 2), (8, 4), (2, 4), (16, 1)] = true ∧
    sameSet selectAsk [(1, 1), (2, 2), (4, 4)] = true ∧ sameSet selectReport [(1, 1), (2, 2), (4, 4)] = true ∧
    onEventGuarded = true ∧ tboxBits = [1, 2, 4] := by decide

/-- every one of the five kernel bits is handled (nothing is left for the "unhandle events" warning),
HUP is delivered as read, ERR and PRI as except -/
theorem C03_epoll_report_table :
    (∀ ev, ev < 32 → epollUnhandled ev = 0) ∧ epollToTbox 16 = 1 ∧ epollToTbox 8 = 4 ∧ epollToTbox 2 = 4 ∧
    epollToTbox 1 = 1 ∧ epollToTbox 4 = 2 := by decide

/-- **no bit nobody asked for, except the always-on ones** (epoll): whatever the kernel may report for the
request built from interest `m`, the tbox mask handed to the subscribers lies within `m ∪ {read, except}`;
and without an error / hang-up condition it lies within `m` exactly. -/
theorem C03_epoll_report_within_interest :
    ∀ m, m < 8 → ∀ ev, ev < 32 → kernelMayReport (epollRequest m) ev = true →
      (epollToTbox ev ||| m ||| alwaysOn) = (m ||| alwaysOn) ∧
      (ev &&& errHup = 0 → (epollToTbox ev ||| m) = m) := by decide

/-- the request is faithful: a condition is requested iff its counter is positive, and each requested
condition that is ready comes back as its own tbox bit -/
theorem C03_epoll_request_roundtrip :
    ∀ m, m < 8 → epollToTbox (epollRequest m) = m ∧ (epollRequest m = 0 ↔ m = 0) := by decide

/-- select: sets and tbox bits are the same three bits both ways, so the reported mask lies within the
interest (select returns a descriptor only in sets it was put into) -/
theorem C03_select_report_exact :
    ∀ m, m < 8 → selectRequest m = m ∧ selectToTbox m = m := by decide

/-! ### kernel readiness with hang-up / error conditions (round 4) -/

/-- the kernel's poll mask of a descriptor (epoll bit numbering) from its plain readiness `a` (tbox numbering: data to
read 1, room to write 2, urgent data 4) and the two conditions -/
def pollOf (a : Nat) (hup err : Bool) : Nat :=
  (if a &&& 1 != 0 then 1 else 0) ||| (if a &&& 4 != 0 then 2 else 0) ||| (if a &&& 2 != 0 then 4 else 0) |||
  (if err then 8 else 0) ||| (if hup then 16 else 0)

/-- Linux `ep_item_poll`: the poll mask restricted to what was requested, EPOLLERR and EPOLLHUP always included -/
def epollKernel (req p : Nat) : Nat := p &&& (req ||| errHup)

/-- Linux `select` (fs/select.c: POLLIN_SET = IN|HUP|ERR, POLLOUT_SET = OUT|ERR, POLLEX_SET = PRI): the sets a descriptor
that was put into the sets `req` comes back in -/
def selectKernel (req p : Nat) : Nat :=
  (if req &&& 1 != 0 && p &&& (1 ||| 16 ||| 8) != 0 then 1 else 0) ||| (if req &&& 2 != 0 && p &&& (4 ||| 8) != 0 then 2 else 0) |||
  (if req &&& 4 != 0 && p &&& 2 != 0 then 4 else 0)

/-- **the model's report is the kernel contract composed with the engines' own tables** (regenerated from the source):
for every interest, readiness and condition, `reportOf` = what `OnEventCallback` computes from what the kernel hands
out for the request `reloadEpoll` / `fillFdSets` made.  (An unregistered descriptor, `m = 0`, is never reported.) -/
theorem C03_report_is_kernel_then_tables :
    ∀ m, m < 8 → ∀ a, a < 8 → ∀ hup err : Bool,
      reportOf .epoll m a hup err = (if m = 0 then 0 else epollToTbox (epollKernel (epollRequest m) (pollOf a hup err))) ∧
      reportOf .select m a hup err = selectToTbox (selectKernel (selectRequest m) (pollOf a hup err)) := by decide

/-- without a hang-up / error condition both engines report interest ∩ readiness (for every `m`) -/
theorem reportOf_quiet (be : Backend) (m a : Nat) : reportOf be m a false false = m &&& a := by
  cases be <;> simp [reportOf]

/-- **what 'ready' means under hang-up and error**, engine by engine: select never reports a condition outside the
interest; epoll may exceed the interest, but only by read (exactly when the descriptor is hung up) and by except (exactly
when it has an error condition) — the documented always-on bits.  A registered descriptor that is hung up or in error
is ALWAYS reported by epoll, whatever the interest (the level-triggered busy loop the source comment speaks of); by
select only if somebody asked for read (hang-up, error) or write (error). -/
theorem C03_report_bounds :
    ∀ m, m < 8 → ∀ a, a < 8 → ∀ hup err : Bool,
      reportOf .select m a hup err &&& m = reportOf .select m a hup err ∧
      (reportOf .epoll m a hup err ||| m ||| alwaysOn) = (m ||| alwaysOn) ∧
      (reportOf .epoll m a hup err ||| m) = (m ||| (if m ≠ 0 ∧ hup then 1 else 0) ||| (if m ≠ 0 ∧ err then 4 else 0)) ∧
      (m ≠ 0 → (hup || err) = true → reportOf .epoll m a hup err ≠ 0) := by decide

/-- without an error condition everything select reports is also reported by epoll (with one — see the counterexample
below — select counts the error as readable / writable while epoll hands over `except`) -/
theorem C03_report_select_within_epoll :
    ∀ m, m < 8 → ∀ a, a < 8 → ∀ hup : Bool,
      (reportOf .select m a hup false ||| reportOf .epoll m a hup false) = reportOf .epoll m a hup false := by decide

/-- **the engines diverge on a hung-up peer** (table level): a write-only interest on a descriptor whose peer is closed is
reported as read|write by epoll and as write by select; an except-only interest on a descriptor in error (write end of a
pipe without reader) is reported by epoll and never by select -/
theorem C03_report_backends_counterexample :
    reportOf .epoll 2 2 true false = 3 ∧ reportOf .select 2 2 true false = 2 ∧
    reportOf .epoll 4 2 false true = 4 ∧ reportOf .select 4 2 false true = 0 ∧
    -- a full pipe whose reader is gone: select calls the write subscriber (error counts as writable), epoll hands it
    -- `except` only, which a write-only event does not meet: it is never called and the loop spins
    reportOf .epoll 2 0 false true = 4 ∧ reportOf .select 2 0 false true = 2 := by decide

/-- **exactly where the engines hand over different masks** (round 5; the trace acceptor's `cmp` judges these passes and
reports the finding `backends-differ-hup-err`): for an interest `m`, plain readiness `a` and the kernel conditions `hup`, `err`
the two engines report the same tbox mask iff nothing is watched, or - without an error - the descriptor is not hung up or
read is watched (hang-up is `read` for both then), or - with an error - urgent data is pending for an except subscriber (so
that `except` is in select's answer too), every watched write has room anyway, and read is watched exactly when hang-up or
data make epoll say `read`.  In particular a quiet descriptor always agrees and a hung-up one agrees iff read is watched. -/
def reportsAgree (m a : Nat) (hup err : Bool) : Bool :=
  m == 0 ||
  (if err then hasBit (m &&& a) 4 && (!hasBit m 2 || hasBit a 2) && (hasBit m 1 == (hup || hasBit (m &&& a) 1))
   else !hup || hasBit m 1)

theorem C03_report_backends_agree_iff :
    ∀ m, m < 8 → ∀ a, a < 8 → ∀ hup err : Bool,
      (reportOf .epoll m a hup err = reportOf .select m a hup err) ↔ reportsAgree m a hup err = true := by decide

theorem actualMask_lt (s : State) (f : Nat) : actualMask s f < 8 := by
  unfold actualMask
  cases s.isOpen f <;> cases s.readable f <;> cases s.writable f <;> cases s.urgent f <;> decide

theorem maskOf_lt (r : Rec) : maskOf r < 8 := by
  unfold maskOf
  split <;> split <;> split <;> decide

/-- in every consistent state the interest of either engine is one of the eight masks -/
theorem interest_lt {s : State} (h : Inv s) (be : Backend) (f : Nat) : interest be s f < 8 := by
  unfold interest
  cases hr : s.recs f with
  | none =>
    cases be
    · simp only; rw [(h.norec f hr).1]; decide
    · simp
  | some r =>
    cases be
    · simp only
      rcases (h.recs f r hr).kor with hk | hk
      · rw [hk, (h.recs f r hr).kev]; exact maskOf_lt r
      · rw [hk]; decide
    · exact maskOf_lt r

theorem reported_quiet {be : Backend} {s : State} {f : Nat} (hq : quietFd s f = true) :
    reported be s f = interest be s f &&& actualMask s f := by
  unfold quietFd at hq
  simp only [Bool.and_eq_true, Bool.not_eq_eq_eq_not, Bool.not_true] at hq
  unfold reported
  rw [hq.1, hq.2]
  exact reportOf_quiet be _ _

/-- **'ready' in the model**: the mask of a valid ready entry is what the engine reports for the descriptor; on select
it lies within the interest at the wait; on epoll within interest ∪ {read, except}, and within the interest when the
descriptor has no hang-up / error condition.  (`C03_only_enabled_ready` then says: the event called was enabled and one
of ITS conditions is in that mask — so a bit the event did not subscribe never causes its callback, it can only
accompany one.) -/
theorem C03_ready_within_interest {be : Backend} {s : State} {r : List (Nat × Nat)} (hi : Inv s) (h : validReady be s r = true) :
    ∀ fm ∈ r, fm.2 = reported be s fm.1 ∧
      (be = .select → fm.2 &&& interest be s fm.1 = fm.2) ∧
      (be = .epoll → (fm.2 ||| interest be s fm.1 ||| alwaysOn) = (interest be s fm.1 ||| alwaysOn)) ∧
      (quietFd s fm.1 = true → fm.2 &&& interest be s fm.1 = fm.2) := by
  intro fm hfm
  unfold validReady at h
  simp only [Bool.and_eq_true, decide_eq_true_eq, List.all_eq_true, bne_iff_ne, ne_eq, beq_iff_eq] at h
  have e := (h.1.2 fm hfm).2
  have hm := interest_lt hi be fm.1
  have ha := actualMask_lt s fm.1
  refine ⟨e, ?_, ?_, ?_⟩
  · intro hb; subst hb
    rw [e]; exact (C03_report_bounds _ hm _ ha _ _).1
  · intro hb; subst hb
    rw [e]; exact (C03_report_bounds _ hm _ ha _ _).2.1
  · intro hq
    rw [e, reported_quiet hq, Nat.and_comm, ← Nat.and_assoc, Nat.and_self]

theorem and7 : ∀ m, m < 8 → 7 &&& m = m := by decide

/-- **width**: `initialize(fd, short events, …)` stores `events` in a `uint32_t` (a negative `short` is
sign-extended); only the three condition bits are ever inspected — by the counters (`events_ & kXEvent`) and
by `onEvent` (`events_ & events` with a reported mask below 8) — so every bit above them is inert: the event
behaves exactly like one initialised with `events % 8`, for every value of the 16 (or more) bits -/
theorem C03_mask_high_bits_inert (mask m : Nat) (hm : m < 8) : hasBit mask m = hasBit (mask % 8) m := by
  unfold hasBit
  have h7 : mask % 8 = mask &&& 7 := (Nat.and_two_pow_sub_one_eq_mod mask 3).symm
  rw [h7, Nat.and_assoc, and7 m hm]

/-- what the statement does NOT promise and the code does not do: the mask handed to a callback is the
readiness of the DESCRIPTOR, not restricted to the event's own conditions — a read subscriber sharing a
descriptor with a write subscriber is handed read|write -/
theorem C03_sibling_bits_counterexample :
    let s := runSteps [.newEv [], .newEv [], .api (.init 0 0 1 false), .api (.init 1 0 2 false),
                       .api (.enable 0), .api (.enable 1), .api (.setR 0 true)]
    validReady .epoll s [(0, 3)] = true ∧ cbKeys (pass s [(0, 3)]) = [(1, 3), (0, 3)] := by decide

end Tbox.C03
