/-
C03 — model of the descriptor-event layer of the event loop (both back-ends):
  modules/event/engines/epoll/{loop.cpp,fd_event.cpp,types.h}
  modules/event/engines/select/{loop.cpp,fd_event.cpp,types.h}
  modules/base/object_pool.hpp   (LIFO free list of record blocks)

The model follows the REPAIRED code (patches/C03-01 … C03-06); the dispatch of the code as it
was found is in `AsFound.lean` (same state, same API functions, only the dispatch differs).

* an event object (`EpollFdEvent`/`SelectFdEvent`) is `Ev`; `inited = false` stands for
  `fd_ == -1, d_ == nullptr`; `oneshot` is `is_stop_after_trigger_` (sticky: `initialize`
  only ever sets it);
* the per-descriptor shared record is `Rec` keyed by descriptor in `recs` (`fd_data_map_`);
  `block` is the pool block it lives in, `serial` the creation stamp introduced by patch 04;
  `holders` (who holds a reference) and `inst` (which open file the record was created for)
  are ghost fields used only by the theorems;
* `kern` is the kernel's epoll interest table (tbox bits: 1 read, 2 write, 4 except; 0 = not
  registered), updated exactly as `reloadEpoll` issues `EPOLL_CTL_ADD/MOD/DEL` (including
  the failing calls: ADD on a registered, MOD on an unregistered descriptor change nothing).
  The select back-end has no such table: its interest is recomputed from the counters at
  every wait (`fillFdSets`) — see `interest`.  The back-end is therefore not part of the
  state: both run the same functions and differ in how the interest is read and in the
  order of the ready list (`validReady`);
* user callbacks are scripts (lists of API calls) carried by the event, so calls made from
  inside callbacks are ordinary model steps;
* a descriptor `f` is a harness slot; `gen f` counts how often it was closed (and reopened
  under the same number), `isOpen f` whether the number currently names an open file,
  `readable/writable/urgent` the actual readiness the harness set up (`urgent` = out-of-band data
  pending: the except condition of both back-ends after patch 06);
* a descriptor may be closed while event objects still refer to it: the kernel drops it from the
  epoll set silently (`kern f := 0`, later `EPOLL_CTL_ADD` fails while it stays closed), `select`
  fails with EBADF and the loop runs `removeInvalidFds` instead of a dispatch (`Step.badfPass`);
  the ghost flag `breach` records that this happened — only the theorem "a callback is on the
  same open file the kernel reported on" needs it clear;
* the pool keeps at most `poolKeep` = 64 parked blocks;
* `lim` is FD_SETSIZE in the numbering of the descriptors (0 = the back-end has no such limit: epoll).
  `SelectFdEvent::initialize` refuses a descriptor `>= FD_SETSIZE` (patch 07: `FD_SET` on it would write
  outside the `fd_set`), so no record of the select back-end ever has such a key (`Inv.lim`);
* one turn of `runLoop()` is `loopPass` (both engines have the same order): the wait returns and
  `wait_serial_` is taken, `handleExpiredTimers()` runs the callbacks of the due timers, the ready
  descriptors are dispatched (or `removeInvalidFds` after EBADF), `handleNextFunc()` runs the batch of
  deferred tasks.  Timer callbacks and deferred tasks are scripts like the descriptor callbacks.  The
  timer heap and the deferred queue are not part of this state (C02 / C01 are about them): WHICH
  timers are due and which tasks are in the batch is an oracle input of the step, the theorems hold
  for every such input; `arm k` / `post k` (enable the one-shot timer of callable `k`, `runNext` it)
  therefore change nothing here — the trace acceptor (Driver/C03.lean) keeps the two queues;
* round 4 — **kernel readiness with hang-up and error conditions**: besides data to read / room to write /
  urgent data a descriptor has the kernel conditions `hup` (EPOLLHUP: peer end of a socket pair closed, last
  writer of a pipe gone, refused connection) and `err` (EPOLLERR: pending socket error — the peer closed with
  our data unread, a refused `connect()` — or no reader left on a pipe).  `kindOf` is the harness's descriptor
  table (6 read end of a pipe, 7 write end of a pipe, 8 non-blocking TCP socket whose `connect()` was refused,
  anything else one end of an AF_UNIX stream socket pair); `Act.cond` are the run-time events that produce the
  conditions; `reportOf` says what each engine hands to `OnEventCallback` for them (epoll: requested ∩ ready,
  plus HUP → read and ERR → except whether requested or not; select: a descriptor comes back in the read set for
  data, hang-up or error, in the write set for room or error, in the except set for urgent data only).
  `Mask.lean` proves that `reportOf` is the kernel contract composed with the tables regenerated from the source;
* round 4 — **a failing `EPOLL_CTL_ADD`** (ENOMEM / ENOSPC / EPERM, injected): `Act.enableF` is `enable()` whose
  ADD the kernel refuses.  The code ignores the result of `epoll_ctl`, so the event reports enabled while the
  kernel never reports the descriptor — and every later subscriber of the descriptor issues a MOD that fails
  with ENOENT — until all are disabled and one is enabled again.  EEXIST on ADD cannot happen (`RecOk.kor`).
-/
namespace Tbox.C03

inductive Backend where
  | epoll | select
deriving DecidableEq, Repr

inductive Act where
  | init (e f mask : Nat) (oneshot : Bool)   -- e->initialize(f, mask, mode)
  | enable (e : Nat)
  | disable (e : Nat)
  | destroy (e : Nat)                        -- delete e
  | close (f : Nat)                          -- close(f) and reopen a fresh socket under the same number
  | setR (f : Nat) (b : Bool)                -- make f readable / drain it
  | setW (f : Nat) (b : Bool)                -- make f writable / fill its send buffer
  | oob (f : Nat)                            -- the peer sends one byte of out-of-band data (except condition)
  | kill (f : Nat)                           -- close(f), the number stays unused until a later `close f` reopens it
  | arm (k : Nat)                            -- enable the one-shot timer that runs callable k (due in the next pass)
  | post (k : Nat)                           -- loop->runNext(callable k)
  | cond (f c : Nat)                         -- a run-time kernel condition on f: c = 0 the peer end is closed, c = 1 the peer shuts down its write side
  | enableF (e : Nat)                        -- e->enable() while the kernel refuses the EPOLL_CTL_ADD it issues (ENOMEM/ENOSPC/EPERM)
  | ctlL (en : Bool) (e : Nat)               -- e->enable() / e->disable() while the kernel refuses the EPOLL_CTL_MOD / _DEL it issues
  | reborn (e : Nat)                         -- delete e; a NEW event object (same callback) that the allocator places at the SAME address
deriving DecidableEq, Repr

structure Ev where
  alive   : Bool := false
  inited  : Bool := false
  fd      : Nat := 0
  mask    : Nat := 0
  oneshot : Bool := false
  enabled : Bool := false
  script  : List Act := []
deriving Repr

structure Rec where
  ref     : Nat := 0
  rd      : Nat := 0
  wr      : Nat := 0
  ex      : Nat := 0
  subs    : List Nat := []      -- fd_events, in enable order
  kev     : Nat := 0            -- d->ev.events as cached by reloadEpoll (tbox bits)
  serial  : Nat := 0            -- creation stamp (patch 04)
  block   : Nat := 0            -- pool block
  holders : List Nat := []      -- ghost
  inst    : Nat := 0            -- ghost
deriving Repr, DecidableEq

inductive Bad where
  | freedRecord      -- a freed (pooled) shared record is dereferenced
  | deadEvent        -- a destroyed event object is dereferenced
  | raise            -- an exception leaves the loop
  | eraseEnd         -- vector::erase(end())
  | pastEnd          -- a vector is read past its end()
deriving Repr, DecidableEq

/-- one callback invocation with what was true at that moment (ghost flags) -/
structure Cb where
  e : Nat
  m : Nat                 -- readiness mask handed to the callback
  dispFd : Nat            -- descriptor whose ready entry is being dispatched
  evFd : Nat              -- descriptor of the event
  aliveAt : Bool          -- event object alive when onEvent was entered
  enabledAt : Bool        -- … and enabled
  meets : Bool            -- its mask meets the reported readiness
  instOk : Bool           -- the descriptor is still the open file the kernel reported on
  inReady : Bool          -- (dispFd, m) is an entry of this pass's ready list
  oneshot : Bool
  enabledInCb : Bool      -- isEnabled() as the user callback starts
deriving Repr, DecidableEq

inductive Out where
  | cb (c : Cb)
  | bad (b : Bad)
deriving Repr, DecidableEq

/-- the harness's descriptor table: 1 = read end of a pipe, 2 = write end of a pipe, 3 = non-blocking TCP socket
whose `connect()` to a bound, not listening loopback port was refused, 0 = one end of an AF_UNIX stream socket pair -/
def kindOf (f : Nat) : Nat := if f = 6 then 1 else if f = 7 then 2 else if f = 8 then 3 else 0

structure State where
  evs      : Nat → Ev := fun _ => {}
  nEv      : Nat := 0
  recs     : Nat → Option Rec := fun _ => none
  kern     : Nat → Nat := fun _ => 0
  gen      : Nat → Nat := fun _ => 0
  readable : Nat → Bool := fun f => kindOf f == 3   -- POLLIN (data, end-of-file after the peer shut down)
  writable : Nat → Bool := fun f => kindOf f != 1   -- POLLOUT
  urgent   : Nat → Bool := fun _ => false   -- out-of-band data pending (select: exceptfds, epoll: EPOLLPRI)
  err      : Nat → Bool := fun f => kindOf f == 3   -- POLLERR: pending socket error / pipe without reader
  hup      : Nat → Bool := fun f => kindOf f == 3   -- POLLHUP: both directions shut down / pipe without writer
  eof      : Nat → Bool := fun f => kindOf f == 3   -- POLLIN is permanent (receive side shut down): the harness can neither feed nor drain
  gone     : Nat → Bool := fun f => kindOf f == 3   -- the peer end no longer exists: the harness can change nothing through it
  isOpen   : Nat → Bool := fun _ => true    -- the descriptor number currently names an open file
  breach   : Bool := false                  -- ghost: some descriptor was closed while an event object still referred to it
  serial   : Nat := 0
  lim      : Nat := 0                       -- FD_SETSIZE in descriptor numbering; 0 = no limit (epoll)
  freeList : List Nat := []       -- parked pool blocks, head = next to be reused
  nBlocks  : Nat := 0
  log      : List Out := []       -- newest first

def State.setEv (s : State) (e : Nat) (v : Ev) : State :=
  { s with evs := fun i => if i = e then v else s.evs i }
def State.setRec (s : State) (f : Nat) (r : Option Rec) : State :=
  { s with recs := fun i => if i = f then r else s.recs i }
def State.emit (s : State) (o : Out) : State := { s with log := o :: s.log }

def upd (k : Nat → Nat) (f v : Nat) : Nat → Nat := fun i => if i = f then v else k i

def hasBit (m b : Nat) : Bool := m &&& b != 0
def inc (c m b : Nat) : Nat := if hasBit m b then c + 1 else c
def dec (c m b : Nat) : Nat := if hasBit m b then c - 1 else c

/-- the event mask `reloadEpoll`/`fillFdSets` compute from the counters -/
def maskOf (r : Rec) : Nat :=
  (if r.rd > 0 then 1 else 0) + (if r.wr > 0 then 2 else 0) + (if r.ex > 0 then 4 else 0)

/-- `EpollFdEvent::reloadEpoll` on record `r` of descriptor `f` -/
def reload (k : Nat → Nat) (op : Bool) (f : Nat) (r : Rec) : (Nat → Nat) × Rec :=
  let new := maskOf r
  let r' := { r with kev := new }
  if r.kev = 0 then
    (if new ≠ 0 then (if k f ≠ 0 || !op then k else upd k f new) else k, r')   -- EPOLL_CTL_ADD (EEXIST, EBADF ignored)
  else if new ≠ 0 then
    (if k f = 0 then k else upd k f new, r')                               -- EPOLL_CTL_MOD (ENOENT ignored; a closed descriptor is never registered)
  else (upd k f 0, r')                                                     -- EPOLL_CTL_DEL (a closed descriptor is not registered anyway)

/-- `ObjectPool::alloc`: the most recently parked block, else a fresh one -/
def popBlock (s : State) : State × Nat :=
  match s.freeList with
  | b :: rest => ({ s with freeList := rest }, b)
  | [] => ({ s with nBlocks := s.nBlocks + 1 }, s.nBlocks)

/-- the pool keeps at most this many parked blocks (`fd_shared_data_pool_{64}`) -/
def poolKeep : Nat := 64

/-- `ObjectPool::free`: the block is parked at the head of the free list, or handed back to the heap
when `poolKeep` blocks are parked already -/
def pushBlock (s : State) (b : Nat) : State :=
  { s with freeList := if s.freeList.length < poolKeep then b :: s.freeList else s.freeList }

/-- `refFdSharedData(f)` on behalf of event `e` -/
def refFd (s : State) (f e : Nat) : State :=
  match s.recs f with
  | some r => s.setRec f (some { r with ref := r.ref + 1, holders := e :: r.holders })
  | none =>
    let p := popBlock s
    { p.1 with serial := s.serial + 1 }.setRec f
      (some { ref := 1, serial := s.serial + 1, block := p.2, holders := [e], inst := s.gen f })

/-- `unrefFdSharedData(f)` on behalf of event `e` -/
def unrefFd (s : State) (f e : Nat) : State :=
  match s.recs f with
  | none => s
  | some r =>
    if r.ref = 1 then (pushBlock s r.block).setRec f none
    else s.setRec f (some { r with ref := r.ref - 1, holders := r.holders.erase e })

/-- `initialize`: drop the reference on the old descriptor (`detach`), take one on the new -/
def detach (s : State) (e : Nat) : State :=
  let v := s.evs e
  (unrefFd s v.fd e).setEv e { v with inited := false }

def attach (s : State) (e f : Nat) : State :=
  (refFd s f e).setEv e { s.evs e with inited := true, fd := f }

def initEv (s : State) (e f mask : Nat) (one : Bool) : State × Bool :=
  let v := s.evs e
  if !v.alive then (s, false)
  else if v.enabled then (s, false)
  else if s.lim != 0 && s.lim ≤ f then (s, false)      -- select: fd >= FD_SETSIZE is refused (patch 07)
  else
    let s1 := if v.inited && v.fd == f then s
              else attach (if v.inited then detach s e else s) e f
    (s1.setEv e { s1.evs e with mask := mask, oneshot := (s1.evs e).oneshot || one }, true)

def enableEv (s : State) (e : Nat) : State × Bool :=
  let v := s.evs e
  if !v.alive then (s, false)
  else if !v.inited then (s, false)
  else if v.enabled then (s, true)
  else match s.recs v.fd with
    | none => (s.emit (.bad .freedRecord), false)
    | some r =>
      let r1 := { r with rd := inc r.rd v.mask 1, wr := inc r.wr v.mask 2, ex := inc r.ex v.mask 4,
                         subs := r.subs ++ [e] }
      let (k, r2) := reload s.kern (s.isOpen v.fd) v.fd r1
      (({ s with kern := k }.setRec v.fd (some r2)).setEv e { v with enabled := true }, true)

def disableEv (s : State) (e : Nat) : State × Bool :=
  let v := s.evs e
  if !v.alive then (s, false)
  else if !v.inited || !v.enabled then (s, true)
  else match s.recs v.fd with
    | none => (s.emit (.bad .freedRecord), false)
    | some r =>
      if !r.subs.contains e then (s.emit (.bad .eraseEnd), false)
      else
        let r1 := { r with rd := dec r.rd v.mask 1, wr := dec r.wr v.mask 2, ex := dec r.ex v.mask 4,
                           subs := r.subs.erase e }
        let (k, r2) := reload s.kern (s.isOpen v.fd) v.fd r1
        (({ s with kern := k }.setRec v.fd (some r2)).setEv e { v with enabled := false }, true)

/-- `~FdEvent`: disable, drop the reference, the object is gone -/
def destroyEv (s : State) (e : Nat) : State × Bool :=
  if !(s.evs e).alive then (s, false)
  else
    let s1 := (disableEv s e).1
    let s2 := if (s1.evs e).inited then detach s1 e else s1
    (s2.setEv e { s2.evs e with alive := false }, true)

/-- `close(f)`; with `reopen` a fresh socket pair is opened under the same number at once.  The kernel
drops a closed file from the epoll set.  Closing a descriptor to which an event object still refers,
or leaving a descriptor number closed, is recorded in the ghost flag `breach` (the loop cannot know about it). -/
def closeFd (s : State) (f : Nat) (reopen : Bool) : State × Bool :=
  if !reopen && !s.isOpen f then (s, false)
  else ({ s with gen := upd s.gen f (s.gen f + 1), kern := upd s.kern f 0,
                 readable := fun i => if i = f then (reopen && kindOf f == 3) else s.readable i,
                 writable := fun i => if i = f then (reopen && kindOf f != 1) else s.writable i,
                 urgent := fun i => if i = f then false else s.urgent i,
                 err := fun i => if i = f then (reopen && kindOf f == 3) else s.err i,
                 hup := fun i => if i = f then (reopen && kindOf f == 3) else s.hup i,
                 eof := fun i => if i = f then (reopen && kindOf f == 3) else s.eof i,
                 gone := fun i => if i = f then (reopen && kindOf f == 3) else s.gone i,
                 isOpen := fun i => if i = f then reopen else s.isOpen i,
                 breach := s.breach || (s.recs f).isSome || !reopen }, true)

/-- readiness set up by the harness through the peer end; nothing happens on a closed descriptor, nor where the
harness has no means left (`blocked`: the peer end is gone, the receive side is shut down, the kind has no such condition).
Draining (`rd = some false`) also discards pending out-of-band data (Linux AF_UNIX). -/
def blocked (s : State) (f : Nat) (rd wr : Option Bool) (ob : Bool) : Bool :=
  !s.isOpen f
  || (rd == some true && (s.eof f || s.gone f || kindOf f == 2))    -- the peer writes a byte: needs a peer that may still write
  || (rd == some false && (s.eof f || kindOf f == 2))               -- drain: end-of-file cannot be drained
  || (ob && (s.eof f || s.gone f || kindOf f != 0))                 -- out-of-band data exists on the socket pairs only
  || (wr.isSome && (s.gone f || kindOf f == 1))                     -- fill / let the peer drain: needs a peer

def setReady (s : State) (f : Nat) (rd wr : Option Bool) (ob : Bool) : State × Bool :=
  if blocked s f rd wr ob then (s, true)
  else ({ s with readable := fun i => if i = f then (rd.getD (s.readable f) || ob) else s.readable i,
                 writable := fun i => if i = f then wr.getD (s.writable f) else s.writable i,
                 urgent := fun i => if i = f then (ob || (s.urgent f && rd != some false)) else s.urgent i }, true)

/-- overwrite the kernel conditions of descriptor `f` -/
def setFlags (s : State) (f : Nat) (rd wr er hu eo go : Bool) : State :=
  { s with readable := fun i => if i = f then rd else s.readable i,
           writable := fun i => if i = f then wr else s.writable i,
           err := fun i => if i = f then er else s.err i,
           hup := fun i => if i = f then hu else s.hup i,
           eof := fun i => if i = f then eo else s.eof i,
           gone := fun i => if i = f then go else s.gone i }

/-- **kernel conditions produced at run time** (measured on this kernel, re-checked by every run through the `K` lines).
`c = 0`, the peer end is closed — socket pair: `sk_shutdown = SHUTDOWN_MASK` gives POLLHUP and a permanent POLLIN, the
send queue is purged so POLLOUT, and POLLERR (ECONNRESET) iff the peer had not read everything we sent (= our send
buffer was full: the harness only ever fills it completely or lets the peer drain it completely); read end of a pipe:
POLLHUP, data stays; write end of a pipe: POLLERR, room stays.  `c = 1`, the peer shuts down its write side (socket pair
only): permanent POLLIN, no POLLHUP.  The result says whether the harness had anything to do. -/
def condFd (s : State) (f c : Nat) : State × Bool :=
  if !s.isOpen f || s.gone f then (s, false)
  else if c = 0 then
    if kindOf f = 0 then (setFlags s f true true (s.err f || !s.writable f) true true true, true)
    else if kindOf f = 1 then (setFlags s f (s.readable f) (s.writable f) (s.err f) true (s.eof f) true, true)
    else (setFlags s f (s.readable f) (s.writable f) true (s.hup f) (s.eof f) true, true)
  else if c = 1 then
    if kindOf f = 0 && !s.eof f then (setFlags s f true (s.writable f) (s.err f) (s.hup f) true (s.gone f), true)
    else (s, false)
  else (s, false)

/-- the kernel will refuse an `EPOLL_CTL_ADD` on `f`; the fault injector is in use (ghost) -/
def refuseAdd (s : State) (f : Nat) : State :=
  { s with isOpen := fun i => if i = f then false else s.isOpen i, breach := true }
def restoreOpen (s0 s : State) : State := { s with isOpen := s0.isOpen }

/-- **`enable()` while the kernel refuses the `EPOLL_CTL_ADD` it issues** (ENOMEM, ENOSPC, EPERM: injected by the
interposer for exactly this call).  `reloadEpoll` ignores the result of `epoll_ctl`, so everything happens as in
`enableEv` except that the kernel table keeps its entry: written as `enableEv` in a state in which the kernel treats the
descriptor like a closed one — the only use `enableEv` makes of `isOpen` is the success of that ADD (MOD and DEL are
not touched by the injection).  The ghost flag `breach` records that the fault injector was used: from here on kernel
and loop may disagree. -/
def enableEvF (s : State) (e : Nat) : State × Bool :=
  (restoreOpen s (enableEv (refuseAdd s (s.evs e).fd) e).1, (enableEv (refuseAdd s (s.evs e).fd) e).2)

/-- the fault injector is in use (ghost) -/
def markFault (s : State) : State := { s with breach := true }

/-- **`enable()` / `disable()` while the kernel refuses the `EPOLL_CTL_MOD` / `EPOLL_CTL_DEL` it issues** (round 5; ENOMEM, EINVAL, EIO
injected by the interposer; an ADD issued by the same call is not refused - that is `enableF`).  `reloadEpoll` ignores the result,
so the loop's own state moves exactly as in the plain call; what the KERNEL holds no longer follows: it keeps the mask it had
(after a refused DEL even for a descriptor without record; a later ADD then fails with EEXIST and keeps the old mask too) until
a later MOD / DEL succeeds or the descriptor is closed.  From here on `kern` is the table AS THE LOOP BELIEVES IT (the cached
`ev.events`); the table the kernel really holds is kept by the trace acceptor (Driver/C03.lean `realAfter`, checked against the
interposed `epoll_ctl` results in every `K` line), and the kernel's answers in such turns are `Step.loopLag`: ANY ready list.
The ghost flag records the use of the injector. -/
def ctlLEv (s : State) (en : Bool) (e : Nat) : State × Bool :=
  (markFault (if en then enableEv s e else disableEv s e).1, (if en then enableEv s e else disableEv s e).2)

/-- **heap-address ABA of event objects** (round 5).  The subscriber vectors (`fd_events`) and the snapshot copy the dispatch
iterates over hold raw `FdEvent*`; the "still subscribed?" test of the dispatch (patch 03) compares addresses.  An event id of
this model IS such an address: `reborn e` is `delete e` followed by `loop->newFdEvent()` + `setCallback(the same callback)`
where the allocator hands out the block that was just freed (what glibc's malloc does for equal sizes; ASan's quarantine never
does, so the harness makes it happen with a one-slot cache in its replaced `operator new`).  The new object is uninitialised
(`fd_ = -1`, no events, persistent, disabled); whatever `initialize` / `enable` follow in the script act on the new object. -/
def rebornEv (s : State) (e : Nat) : State × Bool :=
  if !(s.evs e).alive then (s, false)
  else
    let s2 := (destroyEv s e).1
    (s2.setEv e { s2.evs e with alive := true, mask := 0, oneshot := false }, true)

def act (s : State) : Act → State × Bool
  | .init e f m o => initEv s e f m o
  | .enable e => enableEv s e
  | .disable e => disableEv s e
  | .destroy e => destroyEv s e
  | .close f => closeFd s f true
  | .kill f => closeFd s f false
  | .setR f b => setReady s f (some b) none false
  | .setW f b => setReady s f none (some b) false
  | .oob f => setReady s f none none true
  | .arm _ => (s, true)
  | .post _ => (s, true)
  | .cond f c => condFd s f c
  | .enableF e => enableEvF s e
  | .reborn e => rebornEv s e
  | .ctlL en e => ctlLEv s en e

def runScript (s : State) : List Act → State
  | [] => s
  | a :: as => runScript (act s a).1 as

/-- what the loop remembers when `epoll_wait`/`select` returns -/
structure Wait where
  serial : Nat                    -- fd_data_serial_ at that moment (patch 04)
  gen    : Nat → Nat              -- ghost: which open file each descriptor was
  ready  : List (Nat × Nat)       -- ghost: the ready list itself

/-- entry of `FdEvent::onEvent(m)` for event `e` while the ready entry `(f, m)` is dispatched:
the state in which the user callback starts, and whether there is a callback at all -/
def enterEvent (w : Wait) (f m : Nat) (s : State) (e : Nat) : State × Bool :=
  let v := s.evs e
  if !v.alive then (s.emit (.bad .deadEvent), false)
  else if !hasBit v.mask m then (s, false)
  else
    let s1 := if v.oneshot then (disableEv s e).1 else s
    let c : Cb := { e := e, m := m, dispFd := f, evFd := v.fd, aliveAt := v.alive, enabledAt := v.enabled,
                    meets := hasBit v.mask m, instOk := s.gen v.fd == w.gen v.fd,
                    inReady := w.ready.contains (f, m), oneshot := v.oneshot,
                    enabledInCb := (s1.evs e).enabled }
    (s1.emit (.cb c), true)

/-- `FdEvent::onEvent(m)`: one-shot disables itself first, then the user callback runs -/
def onEvent (w : Wait) (f m : Nat) (s : State) (e : Nat) : State :=
  let r := enterEvent w f m s e
  if r.2 then runScript r.1 (s.evs e).script else r.1

/-- the record a dispatch may use: present in the map and not created after the wait returned -/
def findRec (w : Wait) (s : State) (f : Nat) : Option Rec :=
  match s.recs f with
  | some r => if r.serial ≤ w.serial then some r else none
  | none => none

/-- the `for (auto event : tmp)` loop of `OnEventCallback` (patch 03: look the record up again
and call only events that are still subscribed) -/
def dispLoop (w : Wait) (f m : Nat) : State → List Nat → State
  | s, [] => s
  | s, e :: rest =>
    match findRec w s f with
    | none => s
    | some r => if r.subs.contains e then dispLoop w f m (onEvent w f m s e) rest
                else dispLoop w f m s rest

/-- `OnEventCallback` for one ready entry -/
def dispatchFd (w : Wait) (s : State) (fm : Nat × Nat) : State :=
  match findRec w s fm.1 with
  | none => s
  | some r => dispLoop w fm.1 fm.2 s r.subs

def waitOf (s : State) (ready : List (Nat × Nat)) : Wait := { serial := s.serial, gen := s.gen, ready := ready }

/-- one loop pass: the kernel handed out `ready`; every entry is dispatched in that order -/
def pass (s : State) (ready : List (Nat × Nat)) : State :=
  ready.foldl (dispatchFd (waitOf s ready)) s

/-- `handleExpiredTimers()` / `handleNextFunc()`: the callbacks run one after the other -/
def runScripts (s : State) (scs : List (List Act)) : State := scs.foldl runScript s

/-- **one turn of `runLoop()`**, transcribed from `EpollLoop::runLoop` / `SelectLoop::runLoop`:
`epoll_wait`/`select` returns `ready`; `wait_serial_ = fd_data_serial_` (the snapshot is taken HERE,
before any callback of this turn); `handleExpiredTimers()`; the dispatch of the ready entries;
`handleNextFunc()` -/
def loopPass (s : State) (tms : List (List Act)) (ready : List (Nat × Nat)) (nx : List (List Act)) : State :=
  let w := waitOf s ready
  let s1 := runScripts s tms
  let s2 := ready.foldl (dispatchFd w) s1
  runScripts s2 nx

def actualMask (s : State) (f : Nat) : Nat :=
  if s.isOpen f then
    (if s.readable f then 1 else 0) + (if s.writable f then 2 else 0) + (if s.urgent f then 4 else 0)
  else 0

/-- what the back-end asks the kernel to watch on `f` at wait time -/
def interest (be : Backend) (s : State) (f : Nat) : Nat :=
  match be with
  | .epoll => s.kern f
  | .select => match s.recs f with
      | some r => maskOf r
      | none => 0

def sortedFds : List (Nat × Nat) → Bool
  | a :: b :: rest => a.1 < b.1 && sortedFds (b :: rest)
  | _ => true

/-- **what the wait reports** for a descriptor watched with tbox interest `m` whose plain readiness is `a` (data to
read 1, room to write 2, urgent data 4) under the kernel conditions `hup` / `err`, AS TBOX BITS, i.e. after the engine's own
translation (`OnEventCallback`).  epoll: the kernel reports requested ∩ ready plus EPOLLHUP and EPOLLERR whether requested or
not; the engine turns HUP into read and ERR into except.  select: the kernel puts a descriptor of the read set back for
data, hang-up or error, of the write set for room or error, of the except set for urgent data only.
`C03_report_is_kernel_then_tables` (Mask.lean) derives both lines from that contract and the regenerated tables. -/
def reportOf (be : Backend) (m a : Nat) (hup err : Bool) : Nat :=
  (m &&& a) ||| match be with
    | .epoll => if m = 0 then 0 else (if hup then 1 else 0) ||| (if err then 4 else 0)
    | .select => (if hasBit m 1 && (hup || err) then 1 else 0) ||| (if hasBit m 2 && err then 2 else 0)

/-- … for descriptor `f` in state `s` -/
def reported (be : Backend) (s : State) (f : Nat) : Nat :=
  reportOf be (interest be s f) (actualMask s f) (s.isOpen f && s.hup f) (s.isOpen f && s.err f)

/-- no hang-up / error condition on `f`: the engines then report interest ∩ readiness, and the same -/
def quietFd (s : State) (f : Nat) : Bool := !(s.isOpen f && s.hup f) && !(s.isOpen f && s.err f)

/-- the ready list the kernel may hand out: distinct descriptors, each with the non-empty mask the engine
reports for it (`reported`); select serves descriptors in ascending order -/
def validReady (be : Backend) (s : State) (r : List (Nat × Nat)) : Bool :=
  (r.map (·.1)).Nodup
  && r.all (fun fm => fm.2 != 0 && fm.2 == reported be s fm.1)
  && (be == .epoll || sortedFds r)

inductive Step where
  | newEv (script : List Act)          -- loop->newFdEvent() + setCallback(script)
  | api (a : Act)                      -- API call made outside any callback
  | pass (be : Backend) (ready : List (Nat × Nat))
  | badfPass (fds : List Nat)          -- select returned EBADF: `removeInvalidFds` (the closed descriptors with a record)
  | loop (be : Backend) (tms : List (List Act)) (ready : List (Nat × Nat)) (nx : List (List Act))
                                       -- one whole turn: wait → due timers → dispatch → deferred batch
  | loopBadf (trig : List Nat) (tms : List (List Act)) (fds : List Nat) (nx : List (List Act))
                                       -- the same turn when select failed with EBADF: wait → due timers → removeInvalidFds → deferred batch
  | loopLag (tms : List (List Act)) (ready : List (Nat × Nat)) (nx : List (List Act))
                                       -- a turn of the epoll engine while the kernel's table lags behind the loop's (a MOD / DEL was
                                       -- refused): the kernel reports whatever its stale entries say - for the theorems: ANYTHING
  | defer (nx : List (List Act))       -- the rest of a deferred batch (tasks queued behind the one that made the API calls)
deriving Repr

/-- deleting an event from inside its own callback is outside the property (the code asserts it) -/
def noSelfDestroy (e : Nat) (sc : List Act) : Bool := sc.all (fun a => a != .destroy e && a != .reborn e)

/-- `SelectLoop::removeInvalidFds` (patch 05: over a copy of the subscriber vector): every event
subscribed on a descriptor that is no longer open is disabled -/
def removeInvalid (s : State) (fds : List Nat) : State :=
  fds.foldl (fun s f => match s.recs f with
    | none => s
    | some r => r.subs.foldl (fun s e => (disableEv s e).1) s) s

/-- select fails with EBADF iff a closed descriptor is in its sets -/
def badfTrigger (s : State) (fds : List Nat) : Bool :=
  fds.any (fun f => !s.isOpen f && interest .select s f != 0)

/-- the EBADF turn: `IsFdValid` is asked when `removeInvalidFds` runs, i.e. after the timer callbacks -/
def loopBadf (s : State) (tms : List (List Act)) (fds : List Nat) (nx : List (List Act)) : State :=
  runScripts (removeInvalid (runScripts s tms) fds) nx

def valid (s : State) : Step → Bool
  | .newEv sc => noSelfDestroy s.nEv sc
  | .api _ => true
  | .pass be r => validReady be s r
  | .badfPass fds => badfTrigger s fds && fds.all (fun f => !s.isOpen f)
  | .loop be _ r _ => validReady be s r                 -- the kernel answers for the state at the wait
  | .loopBadf trig tms fds _ => badfTrigger s trig && fds.all (fun f => !(runScripts s tms).isOpen f)
  | .loopLag _ r _ => decide (r.map (·.1)).Nodup          -- epoll_wait reports a descriptor once; nothing else is assumed
  | .defer _ => true

def step (s : State) : Step → State
  | .newEv sc => { s.setEv s.nEv { alive := true, script := sc } with nEv := s.nEv + 1 }
  | .api a => (act s a).1
  | .pass _ r => pass s r
  | .badfPass fds => removeInvalid s fds
  | .loop _ tms r nx => loopPass s tms r nx
  | .loopBadf _ tms fds nx => loopBadf s tms fds nx
  | .loopLag tms r nx => loopPass s tms r nx
  | .defer nx => runScripts s nx

def exec (s : State) : List Step → Option State
  | [] => some s
  | st :: sts => if valid s st then exec (step s st) sts else none

def init : State := {}

/-- the initial state of a loop whose back-end has `FD_SETSIZE = L` (`L = 0`: no limit, epoll) -/
def initL (L : Nat) : State := { lim := L }

/-- the callbacks made so far, newest first: (event, readiness mask handed over) -/
def cbKeys (s : State) : List (Nat × Nat) :=
  s.log.filterMap fun o => match o with | .cb c => some (c.e, c.m) | _ => none

/-- what a callback of a subscriber of descriptor `f` may do under the order-independence criterion:
enable or disable events that are initialised on the same descriptor `f` (itself included), and change
the readiness of any descriptor through its peer (the dispatch never looks at actual readiness) -/
def localAct (s : State) (f : Nat) : Act → Bool
  | .enable e => (s.evs e).alive && (s.evs e).inited && (s.evs e).fd == f
  | .disable e => (s.evs e).alive && (s.evs e).inited && (s.evs e).fd == f
  | .setR _ _ => true
  | .setW _ _ => true
  | .oob _ => true
  | .arm _ => true
  | .post _ => true
  | _ => false

/-- every subscriber of descriptor `f` has a script of local actions only -/
def localFd (s : State) (f : Nat) : Bool :=
  match s.recs f with
  | none => true
  | some rc => rc.subs.all fun e => (s.evs e).script.all (localAct s f)

/-- **the criterion** (decidable): the ready descriptors are distinct and no script of an event
subscribed to a ready descriptor touches events of another descriptor, (re-)initialises, destroys or
closes anything -/
def OrderIndepSyn (s : State) (r : List (Nat × Nat)) : Bool :=
  decide (r.map (·.1)).Nodup && r.all fun fm => localFd s fm.1

end Tbox.C03
