/- C03 — a syntactic, decidable sufficient condition for order independence of a pass
(`OrderIndepSyn`) and the proof that it implies that every serving order of the ready list yields the
same callbacks (`orderIndepSyn_sound`, used by `C03_backends_agree_syn_partial` in Props). -/
import TboxModel.C03.ProofsSync
namespace Tbox.C03

/-- the outcome of a pass does not depend on the order in which ready descriptors are served -/
def OrderIndep (s : State) (r : List (Nat × Nat)) : Prop :=
  ∀ r', r'.Perm r → (cbKeys (pass s r')).Perm (cbKeys (pass s r))

/-! ### what a dispatch does not change -/

/-- the part of an event object that no local action changes -/
def skel (v : Ev) : Bool × Bool × Nat × Nat × Bool × List Act :=
  (v.alive, v.inited, v.fd, v.mask, v.oneshot, v.script)

structure Skel (s t : State) : Prop where
  ev : ∀ e, skel (s.evs e) = skel (t.evs e)
  isOpen : s.isOpen = t.isOpen
  eof : s.eof = t.eof       -- what the harness can still do through the peer end (`blocked`) is not changed by a local action
  gone : s.gone = t.gone

theorem Skel.refl (s : State) : Skel s s := ⟨fun _ => rfl, rfl, rfl, rfl⟩
theorem Skel.symm {s t : State} (h : Skel s t) : Skel t s := ⟨fun e => (h.ev e).symm, h.isOpen.symm, h.eof.symm, h.gone.symm⟩
theorem Skel.trans {a b c : State} (h1 : Skel a b) (h2 : Skel b c) : Skel a c :=
  ⟨fun e => (h1.ev e).trans (h2.ev e), h1.isOpen.trans h2.isOpen, h1.eof.trans h2.eof, h1.gone.trans h2.gone⟩

theorem Skel.fields {s t : State} (h : Skel s t) (e : Nat) :
    (s.evs e).alive = (t.evs e).alive ∧ (s.evs e).inited = (t.evs e).inited ∧ (s.evs e).fd = (t.evs e).fd ∧
    (s.evs e).mask = (t.evs e).mask ∧ (s.evs e).oneshot = (t.evs e).oneshot ∧ (s.evs e).script = (t.evs e).script := by
  have := h.ev e
  simp only [skel, Prod.mk.injEq] at this
  exact this

theorem Skel.holds {s t : State} (h : Skel s t) (f e : Nat) : Holds s f e ↔ Holds t f e := by
  obtain ⟨h1, h2, h3, _⟩ := h.fields e
  unfold Holds; rw [h1, h2, h3]

theorem Skel.localAct {s t : State} (h : Skel s t) (f : Nat) (a : Act) : localAct s f a = localAct t f a := by
  cases a <;> simp only [Tbox.C03.localAct]
  all_goals (rename_i e; obtain ⟨h1, h2, h3, _⟩ := h.fields e; rw [h1, h2, h3])

/-- two states that look the same to the dispatch of descriptor `f` -/
structure SimF (f : Nat) (s t : State) : Prop where
  sk : Skel s t
  en : ∀ e, Holds s f e → (s.evs e).enabled = (t.evs e).enabled
  rc : s.recs f = t.recs f
  kn : s.kern f = t.kern f

theorem SimF.refl (f : Nat) (s : State) : SimF f s s := ⟨Skel.refl s, fun _ _ => rfl, rfl, rfl⟩

theorem SimF.ev_eq {f : Nat} {s t : State} (h : SimF f s t) {e : Nat} (he : Holds s f e) : s.evs e = t.evs e := by
  obtain ⟨h1, h2, h3, h4, h5, h6⟩ := h.sk.fields e
  have h7 := h.en e he
  cases hs : s.evs e; cases ht : t.evs e
  simp only [hs, ht] at h1 h2 h3 h4 h5 h6 h7
  subst h1 h2 h3 h4 h5 h6 h7
  rfl

/-- `s'` differs from `s` only in what belongs to descriptor `g` (and in readiness and log) -/
structure Frame (g : Nat) (s s' : State) : Prop where
  sk : Skel s s'
  en : ∀ f, f ≠ g → ∀ e, Holds s f e → (s.evs e).enabled = (s'.evs e).enabled
  rc : ∀ f, f ≠ g → s.recs f = s'.recs f
  kn : ∀ f, f ≠ g → s.kern f = s'.kern f

theorem Frame.refl (g : Nat) (s : State) : Frame g s s := ⟨Skel.refl s, fun _ _ _ _ => rfl, fun _ _ => rfl, fun _ _ => rfl⟩

theorem Frame.trans {g : Nat} {a b c : State} (h1 : Frame g a b) (h2 : Frame g b c) : Frame g a c :=
  ⟨h1.sk.trans h2.sk,
   fun f hf e he => (h1.en f hf e he).trans (h2.en f hf e ((h1.sk.holds f e).1 he)),
   fun f hf => (h1.rc f hf).trans (h2.rc f hf), fun f hf => (h1.kn f hf).trans (h2.kn f hf)⟩

theorem SimF.frame {f g : Nat} {s t t' : State} (h : SimF f s t) (hfg : f ≠ g) (k : Frame g t t') : SimF f s t' :=
  ⟨h.sk.trans k.sk, fun e he => (h.en e he).trans (k.en f hfg e ((h.sk.holds f e).1 he)),
   h.rc.trans (k.rc f hfg), h.kn.trans (k.kn f hfg)⟩

theorem reload_at (k k' : Nat → Nat) (op : Bool) (f : Nat) (r : Rec) (h : k f = k' f) :
    (reload k op f r).1 f = (reload k' op f r).1 f := by
  unfold reload; dsimp only
  rw [h]
  split <;> (try split) <;> (try split) <;> simp [h]

theorem enableEv_fr (s : State) (e : Nat) : Frame (s.evs e).fd s (enableEv s e).1 := by
  unfold enableEv
  dsimp only
  split; · exact Frame.refl _ s
  split; · exact Frame.refl _ s
  split; · exact Frame.refl _ s
  split
  · exact ⟨⟨fun _ => rfl, rfl, rfl, rfl⟩, fun _ _ _ _ => rfl, fun _ _ => rfl, fun _ _ => rfl⟩
  · refine ⟨⟨fun x => ?_, rfl, rfl, rfl⟩, fun f hf x hx => ?_, fun f hf => ?_, fun f hf => ?_⟩
    · by_cases hx : x = e <;> simp [hx, skel]
    · have : x ≠ e := fun hxe => by subst hxe; exact hf hx.2.2.symm
      simp [this]
    · simp [hf]
    · simp [reload_other _ _ _ _ f hf]

theorem disableEv_fr (s : State) (e : Nat) : Frame (s.evs e).fd s (disableEv s e).1 := by
  unfold disableEv
  dsimp only
  split; · exact Frame.refl _ s
  split; · exact Frame.refl _ s
  split
  · exact ⟨⟨fun _ => rfl, rfl, rfl, rfl⟩, fun _ _ _ _ => rfl, fun _ _ => rfl, fun _ _ => rfl⟩
  · split
    · exact ⟨⟨fun _ => rfl, rfl, rfl, rfl⟩, fun _ _ _ _ => rfl, fun _ _ => rfl, fun _ _ => rfl⟩
    · refine ⟨⟨fun x => ?_, rfl, rfl, rfl⟩, fun f hf x hx => ?_, fun f hf => ?_, fun f hf => ?_⟩
      · by_cases hx : x = e <;> simp [hx, skel]
      · have : x ≠ e := fun hxe => by subst hxe; exact hf hx.2.2.symm
        simp [this]
      · simp [hf]
      · simp [reload_other _ _ _ _ f hf]

theorem setReady_fr (g : Nat) (s : State) (f : Nat) (rd wr : Option Bool) (ob : Bool) :
    Frame g s (setReady s f rd wr ob).1 := by
  unfold setReady; split
  · exact Frame.refl g s
  · exact ⟨⟨fun _ => rfl, rfl, rfl, rfl⟩, fun _ _ _ _ => rfl, fun _ _ => rfl, fun _ _ => rfl⟩

/-- a local action of descriptor `g` changes nothing that belongs to another descriptor -/
theorem act_fr (s : State) (g : Nat) (a : Act) (hl : localAct s g a = true) : Frame g s (act s a).1 := by
  cases a with
  | enable e =>
    simp only [localAct, Bool.and_eq_true, beq_iff_eq] at hl
    have := enableEv_fr s e; rw [hl.2] at this; exact this
  | disable e =>
    simp only [localAct, Bool.and_eq_true, beq_iff_eq] at hl
    have := disableEv_fr s e; rw [hl.2] at this; exact this
  | setR f b => exact setReady_fr g s f _ _ _
  | setW f b => exact setReady_fr g s f _ _ _
  | oob f => exact setReady_fr g s f _ _ _
  | arm k => exact Frame.refl g s
  | post k => exact Frame.refl g s
  | init e f m o => simp [localAct] at hl
  | destroy e => simp [localAct] at hl
  | cond f c => simp [localAct] at hl
  | enableF e => simp [localAct] at hl
  | reborn e => simp [localAct] at hl
  | ctlL en e => simp [localAct] at hl
  | close f => simp [localAct] at hl
  | kill f => simp [localAct] at hl

theorem runScript_fr (g : Nat) (sc : List Act) : ∀ s : State, sc.all (localAct s g) = true →
    Frame g s (runScript s sc) := by
  induction sc with
  | nil => intro s _; exact Frame.refl g s
  | cons a as ih =>
    intro s hl
    simp only [List.all_cons, Bool.and_eq_true] at hl
    have f1 := act_fr s g a hl.1
    refine f1.trans (ih _ ?_)
    rw [List.all_eq_true] at hl ⊢
    intro b hb
    rw [← f1.sk.localAct g b]; exact hl.2 b hb

theorem cbKeys_emit_bad (s : State) (b : Bad) : cbKeys (s.emit (.bad b)) = cbKeys s := by
  simp [cbKeys, State.emit]

theorem enableEv_sim {f : Nat} {s t : State} (h : SimF f s t) {e : Nat} (he : Holds s f e) :
    SimF f (enableEv s e).1 (enableEv t e).1 := by
  have hev := h.ev_eq he
  obtain ⟨ha, hi, hfd⟩ := he
  unfold enableEv
  dsimp only
  rw [← hev, ← h.sk.isOpen]
  simp only [ha, hi, hfd, Bool.not_true, Bool.false_eq_true, ↓reduceIte]
  split
  · exact h
  · rw [← h.rc]
    cases hr : s.recs f with
    | none =>
      dsimp only
      exact ⟨⟨h.sk.ev, by first | rfl | exact h.sk.isOpen, by first | rfl | exact h.sk.eof, by first | rfl | exact h.sk.gone⟩, h.en, h.rc, h.kn⟩
    | some r =>
      dsimp only
      refine ⟨⟨fun x => ?_, by first | rfl | exact h.sk.isOpen, by first | rfl | exact h.sk.eof, by first | rfl | exact h.sk.gone⟩, fun x hx => ?_, ?_, ?_⟩
      · by_cases hx : x = e
        · simp [hx]
        · simpa [hx] using h.sk.ev x
      · by_cases hxe : x = e
        · simp [hxe]
        · have hx' : Holds s f x := by simpa [Holds, hxe] using hx
          simpa [hxe] using h.en x hx'
      · simp [reload_snd]
      · simp only [kern_setEv, kern_setRec]
        exact reload_at _ _ _ _ _ h.kn

theorem disableEv_sim {f : Nat} {s t : State} (h : SimF f s t) {e : Nat} (he : Holds s f e) :
    SimF f (disableEv s e).1 (disableEv t e).1 := by
  have hev := h.ev_eq he
  obtain ⟨ha, hi, hfd⟩ := he
  unfold disableEv
  dsimp only
  rw [← hev, ← h.sk.isOpen]
  simp only [ha, hi, hfd, Bool.not_true, Bool.false_eq_true, ↓reduceIte, Bool.false_or]
  split
  · exact h
  · rw [← h.rc]
    cases hr : s.recs f with
    | none =>
      dsimp only
      exact ⟨⟨h.sk.ev, by first | rfl | exact h.sk.isOpen, by first | rfl | exact h.sk.eof, by first | rfl | exact h.sk.gone⟩, h.en, h.rc, h.kn⟩
    | some r =>
      dsimp only
      split
      · exact ⟨⟨h.sk.ev, by first | rfl | exact h.sk.isOpen, by first | rfl | exact h.sk.eof, by first | rfl | exact h.sk.gone⟩, h.en, h.rc, h.kn⟩
      · refine ⟨⟨fun x => ?_, by first | rfl | exact h.sk.isOpen, by first | rfl | exact h.sk.eof, by first | rfl | exact h.sk.gone⟩, fun x hx => ?_, ?_, ?_⟩
        · by_cases hx : x = e
          · simp [hx]
          · simpa [hx] using h.sk.ev x
        · by_cases hxe : x = e
          · simp [hxe]
          · have hx' : Holds s f x := by simpa [Holds, hxe] using hx
            simpa [hxe] using h.en x hx'
        · simp [reload_snd]
        · simp only [kern_setEv, kern_setRec]
          exact reload_at _ _ _ _ _ h.kn

theorem setReady_sim {f : Nat} {s t : State} (h : SimF f s t) (g : Nat) (rd wr : Option Bool) (ob : Bool) :
    SimF f (setReady s g rd wr ob).1 (setReady t g rd wr ob).1 := by
  have hb : blocked t g rd wr ob = blocked s g rd wr ob := by
    unfold blocked; rw [← h.sk.isOpen, ← h.sk.eof, ← h.sk.gone]
  unfold setReady
  rw [hb]
  split
  · exact h
  · exact ⟨⟨h.sk.ev, h.sk.isOpen, h.sk.eof, h.sk.gone⟩, h.en, h.rc, h.kn⟩

theorem act_sim {f : Nat} {s t : State} (h : SimF f s t) (a : Act) (hl : localAct s f a = true) :
    SimF f (act s a).1 (act t a).1 := by
  cases a with
  | enable e =>
    simp only [localAct, Bool.and_eq_true, beq_iff_eq] at hl
    exact enableEv_sim h ⟨hl.1.1, hl.1.2, hl.2⟩
  | disable e =>
    simp only [localAct, Bool.and_eq_true, beq_iff_eq] at hl
    exact disableEv_sim h ⟨hl.1.1, hl.1.2, hl.2⟩
  | setR g b => exact setReady_sim h g _ _ _
  | setW g b => exact setReady_sim h g _ _ _
  | oob g => exact setReady_sim h g _ _ _
  | arm k => exact h
  | post k => exact h
  | init e g m o => simp [localAct] at hl
  | cond g c => simp [localAct] at hl
  | enableF e => simp [localAct] at hl
  | reborn e => simp [localAct] at hl
  | ctlL en e => simp [localAct] at hl
  | destroy e => simp [localAct] at hl
  | close g => simp [localAct] at hl
  | kill g => simp [localAct] at hl

theorem runScript_sim {f : Nat} (sc : List Act) : ∀ {s t : State}, SimF f s t → sc.all (localAct s f) = true →
    SimF f (runScript s sc) (runScript t sc) := by
  induction sc with
  | nil => intro s t h _; exact h
  | cons a as ih =>
    intro s t h hl
    simp only [List.all_cons, Bool.and_eq_true] at hl
    refine ih (act_sim h a hl.1) ?_
    have f1 := act_fr s f a hl.1
    rw [List.all_eq_true] at hl ⊢
    intro b hb
    rw [← f1.sk.localAct f b]; exact hl.2 b hb

/-! ### local actions make no callback -/

theorem cbKeys_of_log {s t : State} (h : t.log = s.log) : cbKeys t = cbKeys s := by unfold cbKeys; rw [h]

theorem cbKeys_enableEv (s : State) (e : Nat) : cbKeys (enableEv s e).1 = cbKeys s := by
  unfold enableEv; dsimp only
  split; · rfl
  split; · rfl
  split; · rfl
  split
  · exact cbKeys_emit_bad s _
  · rfl

theorem cbKeys_disableEv (s : State) (e : Nat) : cbKeys (disableEv s e).1 = cbKeys s := by
  unfold disableEv; dsimp only
  split; · rfl
  split; · rfl
  split
  · exact cbKeys_emit_bad s _
  · split
    · exact cbKeys_emit_bad s _
    · rfl

theorem cbKeys_setReady (s : State) (g : Nat) (rd wr : Option Bool) (ob : Bool) :
    cbKeys (setReady s g rd wr ob).1 = cbKeys s := by
  unfold setReady; split <;> rfl

theorem cbKeys_act (s : State) (f : Nat) (a : Act) (hl : localAct s f a = true) : cbKeys (act s a).1 = cbKeys s := by
  cases a with
  | enable e => exact cbKeys_enableEv s e
  | disable e => exact cbKeys_disableEv s e
  | setR g b => exact cbKeys_setReady s g _ _ _
  | setW g b => exact cbKeys_setReady s g _ _ _
  | oob g => exact cbKeys_setReady s g _ _ _
  | arm k => rfl
  | post k => rfl
  | init e g m o => simp [localAct] at hl
  | destroy e => simp [localAct] at hl
  | cond g c => simp [localAct] at hl
  | enableF e => simp [localAct] at hl
  | reborn e => simp [localAct] at hl
  | ctlL en e => simp [localAct] at hl
  | close g => simp [localAct] at hl
  | kill g => simp [localAct] at hl

theorem cbKeys_runScript (f : Nat) (sc : List Act) : ∀ s : State, sc.all (localAct s f) = true →
    cbKeys (runScript s sc) = cbKeys s := by
  induction sc with
  | nil => intro s _; rfl
  | cons a as ih =>
    intro s hl
    simp only [List.all_cons, Bool.and_eq_true] at hl
    have f1 := act_fr s f a hl.1
    have : as.all (localAct (act s a).1 f) = true := by
      rw [List.all_eq_true]; intro b hb
      rw [← f1.sk.localAct f b]; exact (List.all_eq_true.1 hl.2) b hb
    exact (ih _ this).trans (cbKeys_act s f a hl.1)

theorem cbKeys_emit_cb (s : State) (c : Cb) : cbKeys (s.emit (.cb c)) = (c.e, c.m) :: cbKeys s := by
  simp [cbKeys, State.emit]

theorem emit_sim {f : Nat} {s t : State} (h : SimF f s t) (o o' : Out) : SimF f (s.emit o) (t.emit o') :=
  ⟨⟨h.sk.ev, h.sk.isOpen, h.sk.eof, h.sk.gone⟩, h.en, h.rc, h.kn⟩

theorem emit_fr (g : Nat) (s : State) (o : Out) : Frame g s (s.emit o) :=
  ⟨⟨fun _ => rfl, rfl, rfl, rfl⟩, fun _ _ _ _ => rfl, fun _ _ => rfl, fun _ _ => rfl⟩

/-- entering the callback of a subscriber `e` of `f` in two states that look the same to `f` -/
theorem enterEvent_sim {w w' : Wait} {f m : Nat} {s t : State} (h : SimF f s t) {e : Nat} (he : Holds s f e) :
    SimF f (enterEvent w f m s e).1 (enterEvent w' f m t e).1 ∧
    (enterEvent w f m s e).2 = (enterEvent w' f m t e).2 ∧
    ∃ k, cbKeys (enterEvent w f m s e).1 = k ++ cbKeys s ∧ cbKeys (enterEvent w' f m t e).1 = k ++ cbKeys t := by
  have hev := h.ev_eq he
  have ha := he.1
  unfold enterEvent
  dsimp only
  rw [← hev]
  simp only [ha, Bool.not_true, Bool.false_eq_true, ↓reduceIte]
  split
  · exact ⟨h, rfl, [], rfl, rfl⟩
  · split
    · refine ⟨emit_sim (disableEv_sim h he) _ _, rfl, [(e, m)], ?_, ?_⟩
      · rw [cbKeys_emit_cb, cbKeys_disableEv]; rfl
      · rw [cbKeys_emit_cb, cbKeys_disableEv]; rfl
    · refine ⟨emit_sim h _ _, rfl, [(e, m)], ?_, ?_⟩
      · rw [cbKeys_emit_cb]; rfl
      · rw [cbKeys_emit_cb]; rfl

theorem enterEvent_fr (w : Wait) (f m : Nat) (s : State) (e : Nat) (he : (s.evs e).fd = f) :
    Frame f s (enterEvent w f m s e).1 := by
  unfold enterEvent
  dsimp only
  split; · exact emit_fr f s _
  split; · exact Frame.refl f s
  split
  · have := disableEv_fr s e; rw [he] at this
    exact this.trans (emit_fr f _ _)
  · exact emit_fr f s _

theorem onEvent_sim {w w' : Wait} {f m : Nat} {s t : State} (h : SimF f s t) {e : Nat} (he : Holds s f e)
    (hl : (s.evs e).script.all (localAct s f) = true) :
    SimF f (onEvent w f m s e) (onEvent w' f m t e) ∧
    ∃ k, cbKeys (onEvent w f m s e) = k ++ cbKeys s ∧ cbKeys (onEvent w' f m t e) = k ++ cbKeys t := by
  obtain ⟨h1, h2, k, k1, k2⟩ := enterEvent_sim (w := w) (w' := w') (m := m) h he
  have hsc : (t.evs e).script = (s.evs e).script := ((h.sk.fields e).2.2.2.2.2).symm
  have f1 := enterEvent_fr w f m s e he.2.2
  have hl1 : (s.evs e).script.all (localAct (enterEvent w f m s e).1 f) = true := by
    rw [List.all_eq_true] at hl ⊢
    intro b hb; rw [← f1.sk.localAct f b]; exact hl b hb
  unfold onEvent
  dsimp only
  rw [← h2, hsc]
  split
  · refine ⟨runScript_sim _ h1 hl1, k, ?_, ?_⟩
    · rw [cbKeys_runScript f _ _ hl1]; exact k1
    · have hl2 : (s.evs e).script.all (localAct (enterEvent w' f m t e).1 f) = true := by
        rw [List.all_eq_true] at hl1 ⊢
        intro b hb; rw [← h1.sk.localAct f b]; exact hl1 b hb
      rw [cbKeys_runScript f _ _ hl2]; exact k2
  · exact ⟨h1, k, k1, k2⟩

theorem onEvent_fr (w : Wait) (f m : Nat) (s : State) (e : Nat) (he : (s.evs e).fd = f)
    (hl : (s.evs e).script.all (localAct s f) = true) : Frame f s (onEvent w f m s e) := by
  have f1 := enterEvent_fr w f m s e he
  unfold onEvent
  dsimp only
  split
  · refine f1.trans (runScript_fr f _ _ ?_)
    rw [List.all_eq_true] at hl ⊢
    intro b hb; rw [← f1.sk.localAct f b]; exact hl b hb
  · exact f1

theorem findRec_sim {w w' : Wait} (hw : w.serial = w'.serial) {f : Nat} {s t : State} (h : SimF f s t) :
    findRec w s f = findRec w' t f := by
  unfold findRec; rw [h.rc, hw]

/-- the scripts of the events in `l` are local to `f` -/
def LocalList (s : State) (f : Nat) (l : List Nat) : Prop :=
  ∀ e ∈ l, (s.evs e).script.all (localAct s f) = true

theorem LocalList.skel {s s' : State} {f : Nat} {l : List Nat} (h : LocalList s f l) (k : Skel s s') : LocalList s' f l := by
  intro e he
  have := h e he
  rw [← (k.fields e).2.2.2.2.2]
  rw [List.all_eq_true] at this ⊢
  intro b hb; rw [← k.localAct f b]; exact this b hb

theorem dispLoop_sim {w w' : Wait} (hw : w.serial = w'.serial) {f m : Nat} (hr : (f, m) ∈ w.ready) (l : List Nat) :
    ∀ {s t : State}, SimF f s t → Inv s → PassInv w s → LocalList s f l →
    ∃ k, cbKeys (dispLoop w f m s l) = k ++ cbKeys s ∧ cbKeys (dispLoop w' f m t l) = k ++ cbKeys t := by
  induction l with
  | nil => intro s t _ _ _ _; exact ⟨[], rfl, rfl⟩
  | cons e rest ih =>
    intro s t h hi hp hl
    unfold dispLoop
    rw [← findRec_sim hw h]
    cases hf : findRec w s f with
    | none => exact ⟨[], rfl, rfl⟩
    | some r =>
      dsimp only
      have hrest : LocalList s f rest := fun x hx => hl x (List.mem_cons_of_mem _ hx)
      by_cases hc : r.subs.contains e = true
      · simp only [hc, ↓reduceIte]
        have hmem : e ∈ r.subs := by simpa using hc
        have hh : Holds s f e := (((hi.recs f r (findRec_some hf).1).s_iff e).1 hmem).1
        have hle := hl e List.mem_cons_self
        obtain ⟨h1, k1, a1, b1⟩ := onEvent_sim (w := w) (w' := w') (m := m) h hh hle
        obtain ⟨i1, p1⟩ := onEvent_ok hi hp hf hmem hr
        have fr := onEvent_fr w f m s e hh.2.2 hle
        obtain ⟨k2, a2, b2⟩ := ih h1 i1 p1 (hrest.skel fr.sk)
        exact ⟨k2 ++ k1, by rw [a2, a1, List.append_assoc], by rw [b2, b1, List.append_assoc]⟩
      · simp only [hc, Bool.false_eq_true, ↓reduceIte]
        exact ih h hi hp hrest

theorem dispLoop_fr (w : Wait) (f m : Nat) (hr : (f, m) ∈ w.ready) (l : List Nat) :
    ∀ s : State, Inv s → PassInv w s → LocalList s f l → Frame f s (dispLoop w f m s l) := by
  induction l with
  | nil => intro s _ _ _; exact Frame.refl f s
  | cons e rest ih =>
    intro s hi hp hl
    unfold dispLoop
    cases hf : findRec w s f with
    | none => exact Frame.refl f s
    | some r =>
      dsimp only
      have hrest : LocalList s f rest := fun x hx => hl x (List.mem_cons_of_mem _ hx)
      by_cases hc : r.subs.contains e = true
      · simp only [hc, ↓reduceIte]
        have hmem : e ∈ r.subs := by simpa using hc
        have hh : Holds s f e := (((hi.recs f r (findRec_some hf).1).s_iff e).1 hmem).1
        have hle := hl e List.mem_cons_self
        obtain ⟨i1, p1⟩ := onEvent_ok hi hp hf hmem hr
        have fr := onEvent_fr w f m s e hh.2.2 hle
        exact fr.trans (ih _ i1 p1 (hrest.skel fr.sk))
      · simp only [hc, Bool.false_eq_true, ↓reduceIte]
        exact ih s hi hp hrest

theorem localFd_list {s : State} {f : Nat} (h : localFd s f = true) {r : Rec} (hr : s.recs f = some r) :
    LocalList s f r.subs := by
  unfold localFd at h
  rw [hr] at h
  simp only [List.all_eq_true] at h
  intro e he
  rw [List.all_eq_true]
  exact h e he

theorem dispatchFd_sim {w w' : Wait} (hw : w.serial = w'.serial) {f m : Nat} (hr : (f, m) ∈ w.ready)
    {s t : State} (h : SimF f s t) (hi : Inv s) (hp : PassInv w s) (hl : localFd s f = true) :
    ∃ k, cbKeys (dispatchFd w s (f, m)) = k ++ cbKeys s ∧ cbKeys (dispatchFd w' t (f, m)) = k ++ cbKeys t := by
  unfold dispatchFd
  dsimp only
  rw [← findRec_sim hw h]
  cases hf : findRec w s f with
  | none => exact ⟨[], rfl, rfl⟩
  | some r => exact dispLoop_sim hw hr r.subs h hi hp (localFd_list hl (findRec_some hf).1)

theorem dispatchFd_fr (w : Wait) (f m : Nat) (hr : (f, m) ∈ w.ready) (s : State) (hi : Inv s) (hp : PassInv w s)
    (hl : localFd s f = true) : Frame f s (dispatchFd w s (f, m)) := by
  unfold dispatchFd
  dsimp only
  cases hf : findRec w s f with
  | none => exact Frame.refl f s
  | some r => exact dispLoop_fr w f m hr r.subs s hi hp (localFd_list hl (findRec_some hf).1)

theorem localFd_sim {f : Nat} {s t : State} (h : SimF f s t) (hl : localFd s f = true) : localFd t f = true := by
  unfold localFd at hl ⊢
  rw [← h.rc]
  cases hr : s.recs f with
  | none => rfl
  | some r =>
    rw [hr] at hl
    simp only [List.all_eq_true] at hl ⊢
    intro e he b hb
    rw [← (h.sk.fields e).2.2.2.2.2] at hb
    rw [← h.sk.localAct f b]; exact hl e he b hb

/-- the callbacks added between `s` and `s'` -/
def newKeys (s s' : State) : List (Nat × Nat) := (cbKeys s').take ((cbKeys s').length - (cbKeys s).length)

theorem newKeys_of_append {s s' : State} {k : List (Nat × Nat)} (h : cbKeys s' = k ++ cbKeys s) : newKeys s s' = k := by
  unfold newKeys; rw [h]; simp

/-- served from a state that looks like `s0` to every descriptor still to be served, each ready entry
contributes exactly the callbacks it would contribute if it were served first from `s0` -/
theorem foldl_keys (s0 : State) (w0 w' : Wait) (hi0 : Inv s0) (hp0 : PassInv w0 s0) (hw : w0.serial = w'.serial)
    (l : List (Nat × Nat)) :
    ∀ t : State, (l.map (·.1)).Nodup →
      (∀ fm ∈ l, fm ∈ w0.ready ∧ fm ∈ w'.ready ∧ localFd s0 fm.1 = true ∧ SimF fm.1 s0 t) → Inv t → PassInv w' t →
      cbKeys (l.foldl (dispatchFd w') t) =
        (l.reverse.flatMap fun fm => newKeys s0 (dispatchFd w0 s0 fm)) ++ cbKeys t := by
  induction l with
  | nil => intro t _ _ _ _; rfl
  | cons fm rest ih =>
    intro t hnd hall hi hp
    obtain ⟨hr0, hr', hl, hsim⟩ := hall fm List.mem_cons_self
    simp only [List.map_cons, List.nodup_cons] at hnd
    obtain ⟨k, a, b⟩ := dispatchFd_sim (f := fm.1) (m := fm.2) hw hr0 hsim hi0 hp0 hl
    have hk := newKeys_of_append a
    obtain ⟨i1, p1⟩ := dispatchFd_ok w' t fm hr' hi hp
    have fr := dispatchFd_fr w' fm.1 fm.2 hr' t hi hp (localFd_sim hsim hl)
    have hrest : ∀ x ∈ rest, x ∈ w0.ready ∧ x ∈ w'.ready ∧ localFd s0 x.1 = true ∧ SimF x.1 s0 (dispatchFd w' t fm) := by
      intro x hx
      obtain ⟨x1, x2, x3, x4⟩ := hall x (List.mem_cons_of_mem _ hx)
      refine ⟨x1, x2, x3, x4.frame ?_ fr⟩
      intro heq
      exact hnd.1 (List.mem_map.2 ⟨x, hx, heq⟩)
    have := ih _ hnd.2 hrest i1 p1
    simp only [List.foldl_cons, List.reverse_cons, List.flatMap_append, List.flatMap_cons, List.flatMap_nil,
      List.append_nil, List.append_assoc]
    rw [this]
    congr 1
    show cbKeys (dispatchFd w' t (fm.1, fm.2)) = newKeys s0 (dispatchFd w0 s0 (fm.1, fm.2)) ++ cbKeys t
    rw [hk]; exact b

theorem orderIndepSyn_sound (s : State) (h : Inv s) (r : List (Nat × Nat)) (hs : OrderIndepSyn s r = true) :
    OrderIndep s r := by
  unfold OrderIndepSyn at hs
  simp only [Bool.and_eq_true, decide_eq_true_eq, List.all_eq_true] at hs
  obtain ⟨hnd, hloc⟩ := hs
  intro r' hp
  have key : ∀ l : List (Nat × Nat), l.Perm r →
      cbKeys (pass s l) = (l.reverse.flatMap fun fm => newKeys s (dispatchFd (waitOf s r) s fm)) ++ cbKeys s := by
    intro l hl
    unfold pass
    apply foldl_keys s (waitOf s r) (waitOf s l) h (passInv_start s r) rfl l s
    · exact (hl.map (·.1)).nodup_iff.2 hnd
    · intro fm hfm
      exact ⟨(hl.mem_iff).1 hfm, hfm, hloc fm ((hl.mem_iff).1 hfm), SimF.refl _ s⟩
    · exact h
    · exact passInv_start s l
  rw [key r' hp, key r (List.Perm.refl r)]
  exact List.Perm.append_right _ ((((List.reverse_perm r').trans hp).trans (List.reverse_perm r).symm).flatMap_right _)

/-! ### whole turns: scripts outside the dispatch make no callback -/

theorem cbKeys_initEv (s : State) (e f m : Nat) (o : Bool) : cbKeys (initEv s e f m o).1 = cbKeys s := by
  apply cbKeys_of_log
  unfold initEv
  dsimp only
  split; · rfl
  split; · rfl
  split; · rfl
  simp only [log_setEv]
  split
  · rfl
  · split <;> simp

theorem cbKeys_destroyEv (s : State) (e : Nat) : cbKeys (destroyEv s e).1 = cbKeys s := by
  unfold destroyEv
  dsimp only
  split; · rfl
  have h1 := cbKeys_disableEv s e
  split
  · exact (cbKeys_of_log (by simp)).trans h1
  · exact (cbKeys_of_log (by simp)).trans h1

theorem cbKeys_condFd (s : State) (f c : Nat) : cbKeys (condFd s f c).1 = cbKeys s := by
  unfold condFd
  repeat' split
  all_goals rfl

theorem cbKeys_enableEvF (s : State) (e : Nat) : cbKeys (enableEvF s e).1 = cbKeys s :=
  (cbKeys_of_log (s := (enableEv (refuseAdd s (s.evs e).fd) e).1) rfl).trans (cbKeys_enableEv _ e)

theorem cbKeys_rebornEv (s : State) (e : Nat) : cbKeys (rebornEv s e).1 = cbKeys s := by
  unfold rebornEv; split
  · rfl
  · exact (cbKeys_of_log (by simp)).trans (cbKeys_destroyEv s e)

theorem cbKeys_act_any (s : State) (a : Act) : cbKeys (act s a).1 = cbKeys s := by
  cases a with
  | init e f m o => exact cbKeys_initEv s e f m o
  | enable e => exact cbKeys_enableEv s e
  | disable e => exact cbKeys_disableEv s e
  | destroy e => exact cbKeys_destroyEv s e
  | close f => show cbKeys (closeFd s f true).1 = _; unfold closeFd; split <;> rfl
  | kill f => show cbKeys (closeFd s f false).1 = _; unfold closeFd; split <;> rfl
  | setR g b => exact cbKeys_setReady s g _ _ _
  | setW g b => exact cbKeys_setReady s g _ _ _
  | oob g => exact cbKeys_setReady s g _ _ _
  | arm k => rfl
  | post k => rfl
  | cond f c => exact cbKeys_condFd s f c
  | enableF e => exact cbKeys_enableEvF s e
  | reborn e => exact cbKeys_rebornEv s e
  | ctlL en e =>
    show cbKeys (ctlLEv s en e).1 = cbKeys s
    unfold ctlLEv
    cases en
    · exact (cbKeys_of_log (s := (disableEv s e).1) rfl).trans (cbKeys_disableEv s e)
    · exact (cbKeys_of_log (s := (enableEv s e).1) rfl).trans (cbKeys_enableEv s e)

theorem cbKeys_runScript_any (sc : List Act) : ∀ s : State, cbKeys (runScript s sc) = cbKeys s := by
  induction sc with
  | nil => intro s; rfl
  | cons a as ih => intro s; exact (ih _).trans (cbKeys_act_any s a)

theorem cbKeys_runScripts (scs : List (List Act)) : ∀ s : State, cbKeys (runScripts s scs) = cbKeys s := by
  unfold runScripts
  induction scs with
  | nil => intro s; rfl
  | cons sc rest ih => intro s; exact (ih _).trans (cbKeys_runScript_any sc s)

/-- the criterion, evaluated in the state the timer callbacks left behind, makes the callbacks of a whole
turn independent of the serving order -/
theorem loopPass_order_indep (s : State) (h : Inv s) (tms nx : List (List Act)) (r : List (Nat × Nat))
    (hs : OrderIndepSyn (runScripts s tms) r = true) :
    ∀ r', r'.Perm r → (cbKeys (loopPass s tms r' nx)).Perm (cbKeys (loopPass s tms r nx)) := by
  unfold OrderIndepSyn at hs
  simp only [Bool.and_eq_true, decide_eq_true_eq, List.all_eq_true] at hs
  obtain ⟨hnd, hloc⟩ := hs
  have h1 := runScripts_inv tms s h
  intro r' hp
  have key : ∀ l : List (Nat × Nat), l.Perm r →
      cbKeys (loopPass s tms l nx) =
        (l.reverse.flatMap fun fm => newKeys (runScripts s tms) (dispatchFd (waitOf s r) (runScripts s tms) fm)) ++
          cbKeys (runScripts s tms) := by
    intro l hl
    unfold loopPass
    dsimp only
    rw [cbKeys_runScripts]
    apply foldl_keys (runScripts s tms) (waitOf s r) (waitOf s l) h1
      ((passInv_start s r).step (runScripts_prov tms s)) rfl l (runScripts s tms)
    · exact (hl.map (·.1)).nodup_iff.2 hnd
    · intro fm hfm
      exact ⟨(hl.mem_iff).1 hfm, hfm, hloc fm ((hl.mem_iff).1 hfm), SimF.refl _ _⟩
    · exact h1
    · exact (passInv_start s l).step (runScripts_prov tms s)
  rw [key r' hp, key r (List.Perm.refl r)]
  exact List.Perm.append_right _ ((((List.reverse_perm r').trans hp).trans (List.reverse_perm r).symm).flatMap_right _)

end Tbox.C03
