/- C03 — the inductive invariant is preserved by every API call, callback and loop pass. -/
import TboxModel.C03.Spec
namespace Tbox.C03

@[simp] theorem evs_setEv (s : State) (e : Nat) (v : Ev) (i : Nat) :
    (s.setEv e v).evs i = if i = e then v else s.evs i := rfl
@[simp] theorem recs_setEv (s : State) (e : Nat) (v : Ev) : (s.setEv e v).recs = s.recs := rfl
@[simp] theorem kern_setEv (s : State) (e : Nat) (v : Ev) : (s.setEv e v).kern = s.kern := rfl
@[simp] theorem gen_setEv (s : State) (e : Nat) (v : Ev) : (s.setEv e v).gen = s.gen := rfl
@[simp] theorem serial_setEv (s : State) (e : Nat) (v : Ev) : (s.setEv e v).serial = s.serial := rfl
@[simp] theorem nEv_setEv (s : State) (e : Nat) (v : Ev) : (s.setEv e v).nEv = s.nEv := rfl
@[simp] theorem log_setEv (s : State) (e : Nat) (v : Ev) : (s.setEv e v).log = s.log := rfl
@[simp] theorem recs_setRec (s : State) (f : Nat) (r : Option Rec) (i : Nat) :
    (s.setRec f r).recs i = if i = f then r else s.recs i := rfl
@[simp] theorem evs_setRec (s : State) (f : Nat) (r : Option Rec) : (s.setRec f r).evs = s.evs := rfl
@[simp] theorem kern_setRec (s : State) (f : Nat) (r : Option Rec) : (s.setRec f r).kern = s.kern := rfl
@[simp] theorem gen_setRec (s : State) (f : Nat) (r : Option Rec) : (s.setRec f r).gen = s.gen := rfl
@[simp] theorem serial_setRec (s : State) (f : Nat) (r : Option Rec) : (s.setRec f r).serial = s.serial := rfl
@[simp] theorem nEv_setRec (s : State) (f : Nat) (r : Option Rec) : (s.setRec f r).nEv = s.nEv := rfl
@[simp] theorem log_setRec (s : State) (f : Nat) (r : Option Rec) : (s.setRec f r).log = s.log := rfl
@[simp] theorem evs_emit (s : State) (o : Out) : (s.emit o).evs = s.evs := rfl
@[simp] theorem recs_emit (s : State) (o : Out) : (s.emit o).recs = s.recs := rfl
@[simp] theorem kern_emit (s : State) (o : Out) : (s.emit o).kern = s.kern := rfl
@[simp] theorem gen_emit (s : State) (o : Out) : (s.emit o).gen = s.gen := rfl
@[simp] theorem serial_emit (s : State) (o : Out) : (s.emit o).serial = s.serial := rfl
@[simp] theorem nEv_emit (s : State) (o : Out) : (s.emit o).nEv = s.nEv := rfl
@[simp] theorem log_emit (s : State) (o : Out) : (s.emit o).log = o :: s.log := rfl
@[simp] theorem breach_setEv (s : State) (e : Nat) (v : Ev) : (s.setEv e v).breach = s.breach := rfl
@[simp] theorem isOpen_setEv (s : State) (e : Nat) (v : Ev) : (s.setEv e v).isOpen = s.isOpen := rfl
@[simp] theorem breach_setRec (s : State) (f : Nat) (r : Option Rec) : (s.setRec f r).breach = s.breach := rfl
@[simp] theorem isOpen_setRec (s : State) (f : Nat) (r : Option Rec) : (s.setRec f r).isOpen = s.isOpen := rfl
@[simp] theorem breach_emit (s : State) (o : Out) : (s.emit o).breach = s.breach := rfl
@[simp] theorem isOpen_emit (s : State) (o : Out) : (s.emit o).isOpen = s.isOpen := rfl
@[simp] theorem upd_apply (k : Nat → Nat) (f v i : Nat) : upd k f v i = if i = f then v else k i := rfl

@[simp] theorem evs_popBlock (s : State) : (popBlock s).1.evs = s.evs := by unfold popBlock; split <;> rfl
@[simp] theorem recs_popBlock (s : State) : (popBlock s).1.recs = s.recs := by unfold popBlock; split <;> rfl
@[simp] theorem kern_popBlock (s : State) : (popBlock s).1.kern = s.kern := by unfold popBlock; split <;> rfl
@[simp] theorem gen_popBlock (s : State) : (popBlock s).1.gen = s.gen := by unfold popBlock; split <;> rfl
@[simp] theorem nEv_popBlock (s : State) : (popBlock s).1.nEv = s.nEv := by unfold popBlock; split <;> rfl
@[simp] theorem log_popBlock (s : State) : (popBlock s).1.log = s.log := by unfold popBlock; split <;> rfl
@[simp] theorem breach_popBlock (s : State) : (popBlock s).1.breach = s.breach := by unfold popBlock; split <;> rfl
@[simp] theorem isOpen_popBlock (s : State) : (popBlock s).1.isOpen = s.isOpen := by unfold popBlock; split <;> rfl
@[simp] theorem breach_pushBlock (s : State) (b : Nat) : (pushBlock s b).breach = s.breach := rfl
@[simp] theorem isOpen_pushBlock (s : State) (b : Nat) : (pushBlock s b).isOpen = s.isOpen := rfl
@[simp] theorem evs_pushBlock (s : State) (b : Nat) : (pushBlock s b).evs = s.evs := rfl
@[simp] theorem recs_pushBlock (s : State) (b : Nat) : (pushBlock s b).recs = s.recs := rfl
@[simp] theorem kern_pushBlock (s : State) (b : Nat) : (pushBlock s b).kern = s.kern := rfl
@[simp] theorem gen_pushBlock (s : State) (b : Nat) : (pushBlock s b).gen = s.gen := rfl
@[simp] theorem serial_pushBlock (s : State) (b : Nat) : (pushBlock s b).serial = s.serial := rfl
@[simp] theorem nEv_pushBlock (s : State) (b : Nat) : (pushBlock s b).nEv = s.nEv := rfl
@[simp] theorem log_pushBlock (s : State) (b : Nat) : (pushBlock s b).log = s.log := rfl

theorem init_inv : Inv init := by
  refine ⟨?_, ?_, ?_, ?_, ?_⟩ <;> simp [init, Holds]

theorem initL_inv (L : Nat) : Inv (initL L) := by
  refine ⟨?_, ?_, ?_, ?_, ?_⟩ <;> simp [initL, Holds]

/-- counting a condition over a list after removing one of its elements -/
theorem countP_erase_add {p : Nat → Bool} {l : List Nat} {e : Nat} (h : e ∈ l) :
    (l.erase e).countP p + (if p e then 1 else 0) = l.countP p := by
  induction l with
  | nil => cases h
  | cons x xs ih =>
    by_cases hx : x = e
    · subst hx; simp [List.countP_cons]
    · have he : e ∈ xs := by
        rcases List.mem_cons.1 h with h | h
        · exact absurd h.symm hx
        · exact h
      have hne : (x == e) = false := by simp [hx]
      rw [List.erase_cons, hne]
      simp only [Bool.false_eq_true, ↓reduceIte, List.countP_cons]
      have := ih he
      omega

theorem cnt_congr {s s' : State} {b : Nat} {l : List Nat}
    (h : ∀ e ∈ l, (s'.evs e).mask = (s.evs e).mask) : cnt s' b l = cnt s b l := by
  unfold cnt
  apply List.countP_congr
  intro e he; rw [h e he]

/-- the record after `reload` has a consistent cached mask; the kernel table is touched only at `f`,
where the descriptor ends up registered with exactly that mask or not registered at all; it follows
the mask exactly when it was in step before and the descriptor is open -/
theorem reload_spec (k : Nat → Nat) (op : Bool) (f : Nat) (r : Rec) (hk : k f = r.kev ∨ k f = 0) :
    (reload k op f r).2 = { r with kev := maskOf r } ∧
    ((reload k op f r).1 f = maskOf r ∨ (reload k op f r).1 f = 0) ∧
    (∀ g, g ≠ f → (reload k op f r).1 g = k g) ∧
    (k f = r.kev → op = true → (reload k op f r).1 f = maskOf r) := by
  unfold reload
  cases op <;> by_cases h0 : r.kev = 0 <;> by_cases hn : maskOf r = 0 <;> by_cases hz : k f = 0 <;>
    simp [h0, hn, hz] <;> grind

theorem RecOk.transfer {s s' : State} {f : Nat} {r : Rec} (h : RecOk s f r)
    (hh : ∀ e, Holds s' f e ↔ Holds s f e) (hs : ∀ e, Subd s' f e ↔ Subd s f e)
    (hm : ∀ e ∈ r.subs, (s'.evs e).mask = (s.evs e).mask) (hk : s'.kern f = s.kern f)
    (hser : s.serial ≤ s'.serial) (_hg : s'.gen f = s.gen f) : RecOk s' f r where
  ref_eq := h.ref_eq
  h_nodup := h.h_nodup
  h_iff := fun e => (h.h_iff e).trans (hh e).symm
  h_ne := h.h_ne
  s_nodup := h.s_nodup
  s_iff := fun e => (h.s_iff e).trans (hs e).symm
  rd := by rw [cnt_congr hm]; exact h.rd
  wr := by rw [cnt_congr hm]; exact h.wr
  ex := by rw [cnt_congr hm]; exact h.ex
  kev := h.kev
  kor := by rw [hk]; exact h.kor
  ser := Nat.le_trans h.ser hser

theorem cnt_append_single (s : State) (b : Nat) (l : List Nat) (e : Nat) :
    cnt s b (l ++ [e]) = inc (cnt s b l) (s.evs e).mask b := by
  unfold cnt inc
  simp [List.countP_append, List.countP_cons]
  split <;> simp_all

theorem enable_core (s : State) (e f : Nat) (r : Rec) (k : Nat → Nat) (h : Inv s)
    (hr : s.recs f = some r) (ha : (s.evs e).alive = true) (hi : (s.evs e).inited = true)
    (hfd : (s.evs e).fd = f) (he : (s.evs e).enabled = false)
    (r1 : Rec) (hr1 : r1 = { r with rd := inc r.rd (s.evs e).mask 1, wr := inc r.wr (s.evs e).mask 2,
                                    ex := inc r.ex (s.evs e).mask 4, subs := r.subs ++ [e] })
    (hkf : k f = maskOf r1 ∨ k f = 0) (hko : ∀ g, g ≠ f → k g = s.kern g) :
    Inv (({ s with kern := k }.setRec f (some { r1 with kev := maskOf r1 })).setEv e
          { s.evs e with enabled := true }) := by
  have ok := h.recs f r hr
  have hne : e ∉ r.subs := fun hm => by have := ((ok.s_iff e).1 hm).2; simp [he] at this
  refine ⟨?_, ?_, ?_, ?_, h.log⟩
  · intro f' r' hr'
    simp only [recs_setEv, recs_setRec] at hr'
    by_cases hff : f' = f
    · subst hff
      simp only [↓reduceIte, Option.some.injEq] at hr'
      subst hr' hr1
      constructor
      · exact ok.ref_eq
      · exact ok.h_nodup
      · intro x; rw [ok.h_iff x]; unfold Holds; by_cases hx : x = e <;> simp [hx, ha, hi, hfd]
      · exact ok.h_ne
      · simp only; rw [List.nodup_append]; refine ⟨ok.s_nodup, by simp, ?_⟩
        intro a ha' b hb; simp at hb; subst hb; intro hab; subst hab; exact hne ha'
      · intro x; simp only [List.mem_append, List.mem_singleton]; rw [ok.s_iff x]; unfold Subd Holds
        by_cases hx : x = e <;> simp [hx, ha, hi, hfd, he]
      · show inc r.rd _ 1 = _
        rw [cnt_congr (s := s) (by intro x _; by_cases hx : x = e <;> simp [hx]), cnt_append_single, ok.rd]
      · show inc r.wr _ 2 = _
        rw [cnt_congr (s := s) (by intro x _; by_cases hx : x = e <;> simp [hx]), cnt_append_single, ok.wr]
      · show inc r.ex _ 4 = _
        rw [cnt_congr (s := s) (by intro x _; by_cases hx : x = e <;> simp [hx]), cnt_append_single, ok.ex]
      · rfl
      · exact hkf
      · exact ok.ser
    · simp only [hff, ↓reduceIte] at hr'
      have ok' := h.recs f' r' hr'
      apply ok'.transfer
      · intro x; unfold Holds; by_cases hx : x = e <;> simp [hx]
      · intro x; unfold Subd Holds; by_cases hx : x = e <;> simp [hx]
        intro _ _ hh; exact absurd (hfd.symm.trans hh).symm hff
      · intro x _; by_cases hx : x = e <;> simp [hx]
      · exact hko f' hff
      · exact Nat.le_refl _
      · rfl
  · intro f' hn
    simp only [recs_setEv, recs_setRec] at hn
    by_cases hff : f' = f
    · subst hff; simp at hn
    · simp only [hff, ↓reduceIte] at hn
      refine ⟨by simpa [hko f' hff] using (h.norec f' hn).1, ?_⟩
      intro x; have := (h.norec f' hn).2 x
      unfold Holds at *; by_cases hx : x = e <;> simp_all
  · intro x; have := h.evs x
    by_cases hx : x = e <;> simp_all
  · intro x hx; have := h.fresh x hx
    by_cases hxe : x = e <;> simp_all
theorem enableEv_inv (s : State) (e : Nat) (h : Inv s) : Inv (enableEv s e).1 := by
  unfold enableEv
  by_cases ha : (s.evs e).alive = true <;> simp only [ha, Bool.not_true, Bool.not_false, Bool.false_eq_true, ↓reduceIte]
  · by_cases hi : (s.evs e).inited = true <;> simp only [hi, Bool.not_true, Bool.not_false, Bool.false_eq_true, ↓reduceIte]
    · by_cases he : (s.evs e).enabled = true <;> simp only [he, Bool.false_eq_true, ↓reduceIte]
      · exact h
      · cases hr : s.recs (s.evs e).fd with
        | none => exact absurd ⟨ha, hi, rfl⟩ ((h.norec _ hr).2 e)
        | some r =>
          have ok := h.recs _ r hr
          obtain ⟨h2, hkf, hko, _⟩ := reload_spec s.kern (s.isOpen (s.evs e).fd) (s.evs e).fd
            { r with rd := inc r.rd (s.evs e).mask 1, wr := inc r.wr (s.evs e).mask 2,
                     ex := inc r.ex (s.evs e).mask 4, subs := r.subs ++ [e] } ok.kor
          simp only [h2]
          have key := enable_core s e _ r _ h hr ha hi rfl (by simpa using he) _ rfl hkf hko
          simp only [ha, hi] at key
          exact key
    · exact h
  · exact h

theorem cnt_erase (s : State) (b : Nat) (l : List Nat) (e : Nat) (h : e ∈ l) :
    cnt s b (l.erase e) = dec (cnt s b l) (s.evs e).mask b := by
  unfold cnt dec
  have := countP_erase_add (p := fun x => hasBit (s.evs x).mask b) h
  split <;> simp_all <;> omega

theorem disable_core (s : State) (e f : Nat) (r : Rec) (k : Nat → Nat) (h : Inv s)
    (hr : s.recs f = some r) (ha : (s.evs e).alive = true) (hi : (s.evs e).inited = true)
    (hfd : (s.evs e).fd = f) (he : (s.evs e).enabled = true)
    (r1 : Rec) (hr1 : r1 = { r with rd := dec r.rd (s.evs e).mask 1, wr := dec r.wr (s.evs e).mask 2,
                                    ex := dec r.ex (s.evs e).mask 4, subs := r.subs.erase e })
    (hkf : k f = maskOf r1 ∨ k f = 0) (hko : ∀ g, g ≠ f → k g = s.kern g) :
    Inv (({ s with kern := k }.setRec f (some { r1 with kev := maskOf r1 })).setEv e
          { s.evs e with enabled := false }) := by
  have ok := h.recs f r hr
  have hmem : e ∈ r.subs := (ok.s_iff e).2 ⟨⟨ha, hi, hfd⟩, he⟩
  refine ⟨?_, ?_, ?_, ?_, h.log⟩
  · intro f' r' hr'
    simp only [recs_setEv, recs_setRec] at hr'
    by_cases hff : f' = f
    · subst hff
      simp only [↓reduceIte, Option.some.injEq] at hr'
      subst hr' hr1
      constructor
      · exact ok.ref_eq
      · exact ok.h_nodup
      · intro x; rw [ok.h_iff x]; unfold Holds; by_cases hx : x = e <;> simp [hx, ha, hi, hfd]
      · exact ok.h_ne
      · exact ok.s_nodup.erase e
      · intro x; simp only; rw [ok.s_nodup.mem_erase_iff, ok.s_iff x]; unfold Subd Holds
        by_cases hx : x = e <;> simp [hx, ha, hi, hfd, he]
      · show dec r.rd _ 1 = _
        rw [cnt_congr (s := s) (by intro x _; by_cases hx : x = e <;> simp [hx]), cnt_erase _ _ _ _ hmem, ok.rd]
      · show dec r.wr _ 2 = _
        rw [cnt_congr (s := s) (by intro x _; by_cases hx : x = e <;> simp [hx]), cnt_erase _ _ _ _ hmem, ok.wr]
      · show dec r.ex _ 4 = _
        rw [cnt_congr (s := s) (by intro x _; by_cases hx : x = e <;> simp [hx]), cnt_erase _ _ _ _ hmem, ok.ex]
      · rfl
      · exact hkf
      · exact ok.ser
    · simp only [hff, ↓reduceIte] at hr'
      have ok' := h.recs f' r' hr'
      apply ok'.transfer
      · intro x; unfold Holds; by_cases hx : x = e <;> simp [hx]
      · intro x; unfold Subd Holds; by_cases hx : x = e <;> simp [hx]
        intro _ _ hh; exact absurd (hfd.symm.trans hh).symm hff
      · intro x _; by_cases hx : x = e <;> simp [hx]
      · exact hko f' hff
      · exact Nat.le_refl _
      · rfl
  · intro f' hn
    simp only [recs_setEv, recs_setRec] at hn
    by_cases hff : f' = f
    · subst hff; simp at hn
    · simp only [hff, ↓reduceIte] at hn
      refine ⟨by simpa [hko f' hff] using (h.norec f' hn).1, ?_⟩
      intro x; have := (h.norec f' hn).2 x
      unfold Holds at *; by_cases hx : x = e <;> simp_all
  · intro x; have := h.evs x
    by_cases hx : x = e <;> simp_all
  · intro x hx; have := h.fresh x hx
    by_cases hxe : x = e <;> simp_all

theorem disableEv_inv (s : State) (e : Nat) (h : Inv s) : Inv (disableEv s e).1 := by
  unfold disableEv
  by_cases ha : (s.evs e).alive = true <;> simp only [ha, Bool.not_true, Bool.not_false, Bool.false_eq_true, ↓reduceIte]
  · by_cases hi : (s.evs e).inited = true
    · by_cases he : (s.evs e).enabled = true
      · simp only [hi, he, Bool.not_true, Bool.or_self, Bool.false_eq_true, ↓reduceIte]
        cases hr : s.recs (s.evs e).fd with
        | none => exact absurd ⟨ha, hi, rfl⟩ ((h.norec _ hr).2 e)
        | some r =>
          have ok := h.recs _ r hr
          have hmem : e ∈ r.subs := (ok.s_iff e).2 ⟨⟨ha, hi, rfl⟩, he⟩
          obtain ⟨h2, hkf, hko, _⟩ := reload_spec s.kern (s.isOpen (s.evs e).fd) (s.evs e).fd
            { r with rd := dec r.rd (s.evs e).mask 1, wr := dec r.wr (s.evs e).mask 2,
                     ex := dec r.ex (s.evs e).mask 4, subs := r.subs.erase e } ok.kor
          have hc : r.subs.contains e = true := by simpa using hmem
          simp only [hc, h2, Bool.not_true, Bool.false_eq_true, ↓reduceIte]
          have key := disable_core s e _ r _ h hr ha hi rfl he _ rfl hkf hko
          simp only [ha, hi] at key
          exact key
      · simp [hi, he]; exact h
    · simp [hi]; exact h
  · exact h

theorem maskOf_zero {r : Rec} (h1 : r.rd = 0) (h2 : r.wr = 0) (h3 : r.ex = 0) : maskOf r = 0 := by
  simp [maskOf, h1, h2, h3]

theorem unrefFd_some {s : State} {f : Nat} {r : Rec} (e : Nat) (hr : s.recs f = some r) :
    unrefFd s f e = if r.ref = 1 then (pushBlock s r.block).setRec f none
      else s.setRec f (some { r with ref := r.ref - 1, holders := r.holders.erase e }) := by
  unfold unrefFd; simp only [hr]

theorem detach_inv (s : State) (e : Nat) (h : Inv s) (ha : (s.evs e).alive = true)
    (hi : (s.evs e).inited = true) (he : (s.evs e).enabled = false) : Inv (detach s e) := by
  unfold detach
  cases hr : s.recs (s.evs e).fd with
  | none => exact absurd ⟨ha, hi, rfl⟩ ((h.norec _ hr).2 e)
  | some r =>
    have ok := h.recs _ r hr
    have hmem : e ∈ r.holders := (ok.h_iff e).2 ⟨ha, hi, rfl⟩
    have hnsub : e ∉ r.subs := fun hm => by have := ((ok.s_iff e).1 hm).2; simp [he] at this
    simp only [unrefFd_some e hr]
    generalize hf : (s.evs e).fd = f at hr ok ⊢
    by_cases h1 : r.ref = 1
    · simp only [h1, ↓reduceIte]
      have hlen : r.holders.length = 1 := by rw [← ok.ref_eq]; exact h1
      have hhold : ∀ x, x ∈ r.holders → x = e := by
        intro x hx
        match hh : r.holders, hlen with
        | [y], _ => simp [hh] at hmem hx; rw [hx, hmem]
      have hsubs : r.subs = [] := by
        apply List.eq_nil_iff_forall_not_mem.2
        intro x hx
        have hx' := (ok.s_iff x).1 hx
        have := hhold x ((ok.h_iff x).2 hx'.1)
        subst this; exact hnsub hx
      refine ⟨?_, ?_, ?_, ?_, h.log⟩
      · intro f' r' hr'
        simp only [recs_setEv, recs_setRec, recs_pushBlock] at hr'
        by_cases hff : f' = f
        · subst hff; simp at hr'
        · simp only [hff, ↓reduceIte] at hr'
          apply (h.recs f' r' hr').transfer
          · intro x; unfold Holds; by_cases hx : x = e <;> simp [hx]
            intro _ _ hh; exact absurd (hf.symm.trans hh).symm hff
          · intro x; unfold Subd Holds; by_cases hx : x = e <;> simp [hx, he]
          · intro x _; by_cases hx : x = e <;> simp [hx]
          · rfl
          · exact Nat.le_refl _
          · rfl
      · intro f' hn
        simp only [recs_setEv, recs_setRec, recs_pushBlock] at hn
        by_cases hff : f' = f
        · subst hff
          refine ⟨?_, ?_⟩
          · show s.kern f' = 0
            rcases ok.kor with hk | hk
            · rw [hk, ok.kev]
              exact maskOf_zero (by rw [ok.rd, hsubs]; rfl) (by rw [ok.wr, hsubs]; rfl) (by rw [ok.ex, hsubs]; rfl)
            · exact hk
          · intro x hx
            by_cases hxe : x = e
            · subst hxe; simp [Holds] at hx
            · have : Holds s f' x := by simpa [Holds, hxe] using hx
              exact hxe (hhold x ((ok.h_iff x).2 this))
        · simp only [hff, ↓reduceIte] at hn
          refine ⟨(h.norec f' hn).1, ?_⟩
          intro x; have := (h.norec f' hn).2 x
          unfold Holds at *; by_cases hx : x = e <;> simp_all
      · intro x; have := h.evs x
        by_cases hx : x = e <;> simp_all
      · intro x hx; have := h.fresh x hx
        by_cases hxe : x = e <;> simp_all
    · simp only [h1, ↓reduceIte]
      refine ⟨?_, ?_, ?_, ?_, h.log⟩
      · intro f' r' hr'
        simp only [recs_setEv, recs_setRec] at hr'
        by_cases hff : f' = f
        · subst hff
          simp only [↓reduceIte, Option.some.injEq] at hr'
          subst hr'
          have hlen := List.length_erase_of_mem hmem
          have hpos : r.holders.length ≠ 0 := fun h0 => ok.h_ne (List.eq_nil_of_length_eq_zero h0)
          constructor
          · show r.ref - 1 = (r.holders.erase e).length
            rw [hlen, ok.ref_eq]
          · exact ok.h_nodup.erase e
          · intro x; simp only; rw [ok.h_nodup.mem_erase_iff, ok.h_iff x]; unfold Holds
            by_cases hx : x = e <;> simp [hx]
          · intro hnil
            have h0 : (r.holders.erase e).length = 0 := by
              have := congrArg List.length hnil; simpa using this
            have := ok.ref_eq; omega
          · exact ok.s_nodup
          · intro x; simp only; rw [ok.s_iff x]; unfold Subd Holds
            by_cases hx : x = e <;> simp [hx, he]
          · show r.rd = _
            rw [cnt_congr (s := s) (by intro x _; by_cases hx : x = e <;> simp [hx]), ok.rd]
          · show r.wr = _
            rw [cnt_congr (s := s) (by intro x _; by_cases hx : x = e <;> simp [hx]), ok.wr]
          · show r.ex = _
            rw [cnt_congr (s := s) (by intro x _; by_cases hx : x = e <;> simp [hx]), ok.ex]
          · exact ok.kev
          · exact ok.kor
          · exact ok.ser
        · simp only [hff, ↓reduceIte] at hr'
          apply (h.recs f' r' hr').transfer
          · intro x; unfold Holds; by_cases hx : x = e <;> simp [hx]
            intro _ _ hh; exact absurd (hf.symm.trans hh).symm hff
          · intro x; unfold Subd Holds; by_cases hx : x = e <;> simp [hx, he]
          · intro x _; by_cases hx : x = e <;> simp [hx]
          · rfl
          · exact Nat.le_refl _
          · rfl
      · intro f' hn
        simp only [recs_setEv, recs_setRec] at hn
        by_cases hff : f' = f
        · subst hff; simp at hn
        · simp only [hff, ↓reduceIte] at hn
          refine ⟨(h.norec f' hn).1, ?_⟩
          intro x; have := (h.norec f' hn).2 x
          unfold Holds at *; by_cases hx : x = e <;> simp_all
      · intro x; have := h.evs x
        by_cases hx : x = e <;> simp_all
      · intro x hx; have := h.fresh x hx
        by_cases hxe : x = e <;> simp_all

theorem attach_inv (s : State) (e f : Nat) (h : Inv s) (ha : (s.evs e).alive = true)
    (hi : (s.evs e).inited = false) : Inv (attach s e f) := by
  have he : (s.evs e).enabled = false := by
    cases hq : (s.evs e).enabled with
    | false => rfl
    | true => have := (h.evs e).1 hq; simp [hi] at this
  have hnh : ∀ g, ¬ Holds s g e := fun g hg => by have := hg.2.1; simp [hi] at this
  unfold attach refFd
  cases hr : s.recs f with
  | some r =>
    have ok := h.recs f r hr
    simp only
    refine ⟨?_, ?_, ?_, ?_, h.log⟩
    · intro f' r' hr'
      simp only [recs_setEv, recs_setRec] at hr'
      by_cases hff : f' = f
      · subst hff
        simp only [↓reduceIte, Option.some.injEq] at hr'
        subst hr'
        constructor
        · show r.ref + 1 = (e :: r.holders).length
          rw [List.length_cons, ok.ref_eq]
        · exact List.nodup_cons.2 ⟨fun hm => hnh _ ((ok.h_iff e).1 hm), ok.h_nodup⟩
        · intro x; simp only [List.mem_cons]; rw [ok.h_iff x]; unfold Holds
          by_cases hx : x = e <;> simp [hx, ha]
        · simp
        · exact ok.s_nodup
        · intro x; simp only; rw [ok.s_iff x]; unfold Subd Holds
          by_cases hx : x = e <;> simp [hx, he, hi]
        · show r.rd = _
          rw [cnt_congr (s := s) (by intro x _; by_cases hx : x = e <;> simp [hx]), ok.rd]
        · show r.wr = _
          rw [cnt_congr (s := s) (by intro x _; by_cases hx : x = e <;> simp [hx]), ok.wr]
        · show r.ex = _
          rw [cnt_congr (s := s) (by intro x _; by_cases hx : x = e <;> simp [hx]), ok.ex]
        · exact ok.kev
        · exact ok.kor
        · exact ok.ser
      · simp only [hff, ↓reduceIte] at hr'
        apply (h.recs f' r' hr').transfer
        · intro x; unfold Holds; by_cases hx : x = e <;> simp [hx, hi]
          intro _ hh; exact absurd hh.symm hff
        · intro x; unfold Subd Holds; by_cases hx : x = e <;> simp [hx, he, hi]
        · intro x _; by_cases hx : x = e <;> simp [hx]
        · rfl
        · exact Nat.le_refl _
        · rfl
    · intro f' hn
      simp only [recs_setEv, recs_setRec] at hn
      by_cases hff : f' = f
      · subst hff; simp at hn
      · simp only [hff, ↓reduceIte] at hn
        refine ⟨(h.norec f' hn).1, ?_⟩
        intro x; have := (h.norec f' hn).2 x
        unfold Holds at *; by_cases hx : x = e <;> simp_all
        intro hh; exact hff hh.symm
    · intro x; have := h.evs x
      by_cases hx : x = e <;> simp_all
    · intro x hx; have := h.fresh x hx
      by_cases hxe : x = e <;> simp_all
  | none =>
    have nr := h.norec f hr
    simp only
    refine ⟨?_, ?_, ?_, ?_, by simpa using h.log⟩
    · intro f' r' hr'
      simp only [recs_setEv, recs_setRec, recs_popBlock] at hr'
      by_cases hff : f' = f
      · subst hff
        simp only [↓reduceIte, Option.some.injEq] at hr'
        subst hr'
        constructor
        · rfl
        · simp
        · intro x; simp only [List.mem_singleton]; unfold Holds
          by_cases hx : x = e
          · simp [hx, ha]
          · have := nr.2 x; simp [Holds] at this; simp [hx]; exact this
        · simp
        · simp
        · intro x; simp only; unfold Subd Holds
          by_cases hx : x = e
          · simp [hx, he]
          · have := nr.2 x; simp [Holds] at this; simp [hx]; intro a b c; exact absurd c (this a b)
        · rfl
        · rfl
        · rfl
        · rfl
        · exact Or.inr (by simpa using nr.1)
        · simp
      · simp only [hff, ↓reduceIte] at hr'
        apply (h.recs f' r' hr').transfer
        · intro x; unfold Holds; by_cases hx : x = e <;> simp [hx, hi]
          intro _ hh; exact absurd hh.symm hff
        · intro x; unfold Subd Holds; by_cases hx : x = e <;> simp [hx, he, hi]
        · intro x _; by_cases hx : x = e <;> simp [hx]
        · simp
        · simp
        · simp
    · intro f' hn
      simp only [recs_setEv, recs_setRec, recs_popBlock] at hn
      by_cases hff : f' = f
      · subst hff; simp at hn
      · simp only [hff, ↓reduceIte] at hn
        refine ⟨by simpa using (h.norec f' hn).1, ?_⟩
        intro x; have := (h.norec f' hn).2 x
        unfold Holds at *; by_cases hx : x = e <;> simp_all
        intro hh; exact hff hh.symm
    · intro x; have := h.evs x
      by_cases hx : x = e <;> simp_all
    · intro x hx; have := h.fresh x (by simpa using hx)
      by_cases hxe : x = e <;> simp_all

/-- replacing a disabled event object by another disabled one that holds the same reference -/
theorem setEv_inv (s : State) (e : Nat) (v' : Ev) (n' : Nat) (h : Inv s)
    (hd : (s.evs e).enabled = false) (hd' : v'.enabled = false)
    (hh : ∀ f, (v'.alive = true ∧ v'.inited = true ∧ v'.fd = f) ↔ Holds s f e)
    (hia : v'.inited = true → v'.alive = true) (hn : s.nEv ≤ n') (hlt : v'.alive = true → e < n') :
    Inv { s.setEv e v' with nEv := n' } := by
  have hH : ∀ f x, Holds { s.setEv e v' with nEv := n' } f x ↔ Holds s f x := by
    intro f x; by_cases hx : x = e
    · subst hx; rw [← hh f]; simp [Holds]
    · simp [Holds, hx]
  have hS : ∀ f x, Subd { s.setEv e v' with nEv := n' } f x ↔ Subd s f x := by
    intro f x; unfold Subd; rw [hH f x]; by_cases hx : x = e
    · subst hx; simp [hd, hd']
    · simp [hx]
  refine ⟨?_, ?_, ?_, ?_, h.log⟩
  · intro f r hr
    have ok := h.recs f r hr
    apply ok.transfer (hH f) (hS f)
    · intro x hx; by_cases hxe : x = e
      · subst hxe; have := ((ok.s_iff x).1 hx).2; simp [hd] at this
      · simp [hxe]
    · rfl
    · exact Nat.le_refl _
    · rfl
  · intro f hn'
    exact ⟨(h.norec f hn').1, fun x hx => (h.norec f hn').2 x ((hH f x).1 hx)⟩
  · intro x; have := h.evs x
    by_cases hx : x = e
    · subst hx; simp [hd']; exact hia
    · simpa [hx] using this
  · intro x hx
    by_cases hxe : x = e
    · subst hxe; simp only [evs_setEv, ↓reduceIte]
      cases hq : v'.alive with
      | false => rfl
      | true => have := hlt hq; simp at hx; omega
    · simp only [evs_setEv, hxe, ↓reduceIte]; exact h.fresh x (Nat.le_trans hn hx)

theorem closeFd_inv (s : State) (f : Nat) (ro : Bool) (h : Inv s) : Inv (closeFd s f ro).1 := by
  unfold closeFd
  split
  · exact h
  · refine ⟨?_, ?_, h.evs, h.fresh, h.log⟩
    · intro f' r' hr'
      have ok := h.recs f' r' hr'
      by_cases hff : f' = f
      · subst hff
        exact { ok with kor := Or.inr (by simp) }
      · exact ok.transfer (fun _ => Iff.rfl) (fun _ => Iff.rfl) (fun _ _ => rfl) (by simp [hff]) (Nat.le_refl _)
          (by simp [hff])
    · intro f' hn
      by_cases hff : f' = f
      · subst hff; exact ⟨by simp, (h.norec f' hn).2⟩
      · exact ⟨by simpa [hff] using (h.norec f' hn).1, (h.norec f' hn).2⟩

/-- changes of the readiness the harness set up do not touch anything the invariant speaks about -/
theorem setReady_inv (s : State) (f : Nat) (rd wr : Option Bool) (ob : Bool) (h : Inv s) :
    Inv (setReady s f rd wr ob).1 := by
  unfold setReady
  split
  · exact h
  · refine ⟨?_, h.norec, h.evs, h.fresh, h.log⟩
    intro f r hr
    exact (h.recs f r hr).transfer (fun _ => Iff.rfl) (fun _ => Iff.rfl) (fun _ _ => rfl) rfl (Nat.le_refl _) rfl

@[simp] theorem evs_unrefFd (s : State) (f e : Nat) : (unrefFd s f e).evs = s.evs := by
  unfold unrefFd; split
  · rfl
  · split <;> rfl
@[simp] theorem nEv_unrefFd (s : State) (f e : Nat) : (unrefFd s f e).nEv = s.nEv := by
  unfold unrefFd; split
  · rfl
  · split <;> rfl
@[simp] theorem log_unrefFd (s : State) (f e : Nat) : (unrefFd s f e).log = s.log := by
  unfold unrefFd; split
  · rfl
  · split <;> rfl
@[simp] theorem evs_refFd (s : State) (f e : Nat) : (refFd s f e).evs = s.evs := by
  unfold refFd; split <;> simp
@[simp] theorem nEv_refFd (s : State) (f e : Nat) : (refFd s f e).nEv = s.nEv := by
  unfold refFd; split <;> simp
@[simp] theorem log_refFd (s : State) (f e : Nat) : (refFd s f e).log = s.log := by
  unfold refFd; split <;> simp
@[simp] theorem evs_detach (s : State) (e i : Nat) :
    (detach s e).evs i = if i = e then { s.evs e with inited := false } else s.evs i := by simp [detach]
@[simp] theorem nEv_detach (s : State) (e : Nat) : (detach s e).nEv = s.nEv := by simp [detach]
@[simp] theorem log_detach (s : State) (e : Nat) : (detach s e).log = s.log := by simp [detach]
@[simp] theorem evs_attach (s : State) (e f i : Nat) :
    (attach s e f).evs i = if i = e then { s.evs e with inited := true, fd := f } else s.evs i := by simp [attach]
@[simp] theorem nEv_attach (s : State) (e f : Nat) : (attach s e f).nEv = s.nEv := by simp [attach]
@[simp] theorem log_attach (s : State) (e f : Nat) : (attach s e f).log = s.log := by simp [attach]

theorem initEv_inv (s : State) (e f m : Nat) (o : Bool) (h : Inv s) : Inv (initEv s e f m o).1 := by
  unfold initEv
  by_cases ha : (s.evs e).alive = true
  · by_cases he : (s.evs e).enabled = true
    · simpa [ha, he] using h
    · have he' : (s.evs e).enabled = false := by simpa using he
      simp only [ha, he', Bool.not_true, Bool.false_eq_true, ↓reduceIte]
      by_cases hl : (s.lim != 0 && decide (s.lim ≤ f)) = true
      · simp only [hl, ↓reduceIte]; exact h
      simp only [hl, Bool.false_eq_true, ↓reduceIte]
      -- the state after the reference moved
      have key : ∀ s1 : State, Inv s1 → (s1.evs e).enabled = false → (s1.evs e).alive = true → s1.nEv = s.nEv →
          Inv (s1.setEv e { s1.evs e with mask := m, oneshot := (s1.evs e).oneshot || o }) := by
        intro s1 h1 hd1 ha1 hn1
        have lt : e < s1.nEv := by
          false_or_by_contra
          rename_i hc
          have := h1.fresh e (by omega); simp [ha1] at this
        exact setEv_inv s1 e _ s1.nEv h1 hd1 hd1 (fun g => by simp [Holds]) (h1.evs e).2 (Nat.le_refl _) (fun _ => lt)
      by_cases hi : (s.evs e).inited = true
      · by_cases hf : (s.evs e).fd = f
        · simp only [hi, hf, beq_self_eq_true, Bool.and_self, ↓reduceIte]
          have k := key s h he' ha rfl
          simp only [hi, hf] at k
          exact k
        · have hf' : ((s.evs e).fd == f) = false := by simpa using hf
          simp only [hi, hf', Bool.and_false, Bool.false_eq_true, ↓reduceIte]
          have h1 := detach_inv s e h ha hi he'
          have h2 := attach_inv (detach s e) e f h1 (by simp [ha]) (by simp)
          exact key _ h2 (by simp [he']) (by simp [ha]) (by simp)
      · have hi' : (s.evs e).inited = false := by simpa using hi
        simp only [hi', Bool.false_and, Bool.false_eq_true, ↓reduceIte]
        have h2 := attach_inv s e f h ha hi'
        exact key _ h2 (by simp [he']) (by simp [ha]) (by simp)
  · simpa [ha] using h

/-- what `disable` does to the event table in a consistent state -/
theorem disableEv_frame (s : State) (e : Nat) (h : Inv s) :
    (disableEv s e).1.nEv = s.nEv ∧ (disableEv s e).1.log = s.log ∧
    (∀ i, i ≠ e → (disableEv s e).1.evs i = s.evs i) ∧
    (disableEv s e).1.evs e = (if (s.evs e).alive then { s.evs e with enabled := false } else s.evs e) := by
  have eta : ∀ v : Ev, v.enabled = false → v = { v with enabled := false } := by
    intro v hv; cases v; simp_all
  unfold disableEv
  by_cases ha : (s.evs e).alive = true
  · by_cases hi : (s.evs e).inited = true
    · by_cases he : (s.evs e).enabled = true
      · cases hr : s.recs (s.evs e).fd with
        | none => exact absurd ⟨ha, hi, rfl⟩ ((h.norec _ hr).2 e)
        | some r =>
          have ok := h.recs _ r hr
          have hmem : e ∈ r.subs := (ok.s_iff e).2 ⟨⟨ha, hi, rfl⟩, he⟩
          have hc : r.subs.contains e = true := by simpa using hmem
          refine ⟨?_, ?_, ?_, ?_⟩ <;> simp [ha, hi, he, hr, hmem]
          intro i hi'; simp [hi']
      · have he' : (s.evs e).enabled = false := by simpa using he
        have := eta _ he'
        refine ⟨?_, ?_, ?_, ?_⟩ <;> simp [ha, hi, he']
        simp only [ha, hi] at this; exact this
    · have hi' : (s.evs e).inited = false := by simpa using hi
      have he' : (s.evs e).enabled = false := by
        cases hq : (s.evs e).enabled with
        | false => rfl
        | true => have := (h.evs e).1 hq; simp [hi'] at this
      have := eta _ he'
      refine ⟨?_, ?_, ?_, ?_⟩ <;> simp [ha, hi']
      simp only [ha, hi'] at this; exact this
  · have ha' : (s.evs e).alive = false := by simpa using ha
    refine ⟨?_, ?_, ?_, ?_⟩ <;> simp [ha']

theorem destroyEv_inv (s : State) (e : Nat) (h : Inv s) : Inv (destroyEv s e).1 := by
  unfold destroyEv
  by_cases ha : (s.evs e).alive = true
  · simp only [ha, Bool.not_true, Bool.false_eq_true, ↓reduceIte]
    have h1 := disableEv_inv s e h
    obtain ⟨hn, _, _, hev⟩ := disableEv_frame s e h
    simp only [ha, ↓reduceIte] at hev
    generalize (disableEv s e).1 = s1 at h1 hn hev ⊢
    have fin : ∀ s2 : State, Inv s2 → (s2.evs e).enabled = false → (s2.evs e).inited = false →
        Inv (s2.setEv e { s2.evs e with alive := false }) := by
      intro s2 h2 hd2 hi2
      exact setEv_inv s2 e _ s2.nEv h2 hd2 hd2 (fun g => by simp [Holds, hi2]) (by simp [hi2]) (Nat.le_refl _)
        (by simp)
    by_cases hi : (s1.evs e).inited = true
    · simp only [hi, ↓reduceIte]
      have h2 := detach_inv s1 e h1 (by rw [hev]) hi (by rw [hev])
      exact fin _ h2 (by simp [hev]) (by simp)
    · have hi' : (s1.evs e).inited = false := by simpa using hi
      simp only [hi', Bool.false_eq_true, ↓reduceIte]
      have k := fin _ h1 (by rw [hev]) hi'
      simp only [hi'] at k
      exact k
  · simpa [ha] using h

/-- `t` is `s` up to the kernel conditions of the descriptors, the open flags and the ghost flag: nothing the
invariant (or the provenance of records) speaks about -/
structure SameCore (s t : State) : Prop where
  evs : t.evs = s.evs
  nEv : t.nEv = s.nEv
  recs : t.recs = s.recs
  kern : t.kern = s.kern
  gen : t.gen = s.gen
  serial : t.serial = s.serial
  log : t.log = s.log

theorem inv_sameCore {s t : State} (h : Inv s) (c : SameCore s t) : Inv t := by
  obtain ⟨e1, e2, e3, e4, e5, e6, e7⟩ := c
  refine ⟨?_, ?_, ?_, ?_, ?_⟩
  · intro f r hr
    rw [e3] at hr
    exact (h.recs f r hr).transfer (fun e => by unfold Holds; rw [e1]) (fun e => by unfold Subd Holds; rw [e1])
      (fun e _ => by rw [e1]) (by rw [e4]) (by rw [e6]; exact Nat.le_refl _) (by rw [e5])
  · intro f hn
    rw [e3] at hn
    have := h.norec f hn
    rw [e4]; unfold Holds; rw [e1]; exact this
  · intro e; rw [e1]; exact h.evs e
  · intro e he; rw [e1]; rw [e2] at he; exact h.fresh e he
  · rw [e7]; exact h.log

theorem setFlags_core (s : State) (f : Nat) (a b c d e g : Bool) : SameCore s (setFlags s f a b c d e g) :=
  ⟨rfl, rfl, rfl, rfl, rfl, rfl, rfl⟩

/-- run-time kernel conditions touch nothing the invariant speaks about -/
theorem condFd_core (s : State) (f c : Nat) : SameCore s (condFd s f c).1 := by
  unfold condFd
  repeat' split
  all_goals first | exact ⟨rfl, rfl, rfl, rfl, rfl, rfl, rfl⟩ | exact setFlags_core ..

theorem condFd_inv (s : State) (f c : Nat) (h : Inv s) : Inv (condFd s f c).1 := inv_sameCore h (condFd_core s f c)

/-- **a refused `EPOLL_CTL_ADD` keeps the invariant**: the bookkeeping is that of `enable()`; the kernel entry stays
"the cached mask or nothing" -/
theorem enableEvF_inv (s : State) (e : Nat) (h : Inv s) : Inv (enableEvF s e).1 := by
  have c1 : SameCore s (refuseAdd s (s.evs e).fd) := ⟨rfl, rfl, rfl, rfl, rfl, rfl, rfl⟩
  have c2 : SameCore (enableEv (refuseAdd s (s.evs e).fd) e).1 (restoreOpen s (enableEv (refuseAdd s (s.evs e).fd) e).1) :=
    ⟨rfl, rfl, rfl, rfl, rfl, rfl, rfl⟩
  exact inv_sameCore (enableEv_inv _ e (inv_sameCore h c1)) c2

theorem destroyEv_dead (s : State) (e : Nat) (ha : (s.evs e).alive = true) : ((destroyEv s e).1.evs e).alive = false := by
  unfold destroyEv
  simp only [ha, Bool.not_true, Bool.false_eq_true, ↓reduceIte]
  simp [State.setEv]

theorem destroyEv_nEv (s : State) (e : Nat) (h : Inv s) : (destroyEv s e).1.nEv = s.nEv := by
  unfold destroyEv
  dsimp only
  split; · rfl
  obtain ⟨hn, _, _, _⟩ := disableEv_frame s e h
  split <;> simp [hn]

/-- **an event object reborn at the same address keeps the invariant**: the new object holds nothing and subscribes nowhere -/
theorem rebornEv_inv (s : State) (e : Nat) (h : Inv s) : Inv (rebornEv s e).1 := by
  unfold rebornEv
  by_cases ha : (s.evs e).alive = true
  · simp only [ha, Bool.not_true, Bool.false_eq_true, ↓reduceIte]
    have h2 := destroyEv_inv s e h
    have hd := destroyEv_dead s e ha
    have hn := destroyEv_nEv s e h
    have hlt : e < s.nEv := by
      by_cases hl : e < s.nEv
      · exact hl
      · have := h.fresh e (by omega); simp [ha] at this
    generalize (destroyEv s e).1 = s2 at h2 hd hn ⊢
    have hi : (s2.evs e).inited = false := by
      cases hq : (s2.evs e).inited with
      | false => rfl
      | true => have := (h2.evs e).2 hq; simp [hd] at this
    have he : (s2.evs e).enabled = false := by
      cases hq : (s2.evs e).enabled with
      | false => rfl
      | true => have := (h2.evs e).1 hq; simp [hi] at this
    exact setEv_inv s2 e _ s2.nEv h2 he he (fun g => by simp [Holds, hi]) (by simp) (Nat.le_refl _) (fun _ => by omega)
  · have ha' : (s.evs e).alive = false := by simpa using ha
    simp only [ha', Bool.not_false, ↓reduceIte]
    exact h

theorem markFault_core (s : State) : SameCore s (markFault s) := ⟨rfl, rfl, rfl, rfl, rfl, rfl, rfl⟩

/-- **refused MOD / DEL keep the invariant** (of the loop's own state; `kern` is the believed table then) -/
theorem ctlLEv_inv (s : State) (en : Bool) (e : Nat) (h : Inv s) : Inv (ctlLEv s en e).1 := by
  unfold ctlLEv
  cases en
  · exact inv_sameCore (disableEv_inv s e h) (markFault_core _)
  · exact inv_sameCore (enableEv_inv s e h) (markFault_core _)

theorem act_inv (s : State) (a : Act) (h : Inv s) : Inv (act s a).1 := by
  cases a with
  | init e f m o => exact initEv_inv s e f m o h
  | enable e => exact enableEv_inv s e h
  | disable e => exact disableEv_inv s e h
  | destroy e => exact destroyEv_inv s e h
  | close f => exact closeFd_inv s f true h
  | kill f => exact closeFd_inv s f false h
  | setR f b => exact setReady_inv s f _ _ _ h
  | setW f b => exact setReady_inv s f _ _ _ h
  | oob f => exact setReady_inv s f _ _ _ h
  | arm k => exact h
  | post k => exact h
  | cond f c => exact condFd_inv s f c h
  | enableF e => exact enableEvF_inv s e h
  | reborn e => exact rebornEv_inv s e h
  | ctlL en e => exact ctlLEv_inv s en e h

theorem runScript_inv (sc : List Act) : ∀ (s : State), Inv s → Inv (runScript s sc) := by
  induction sc with
  | nil => intro s h; exact h
  | cons a as ih => intro s h; exact ih _ (act_inv s a h)

theorem newEv_inv (s : State) (sc : List Act) (h : Inv s) : Inv (step s (.newEv sc)) := by
  have hf := h.fresh s.nEv (Nat.le_refl _)
  have hni : (s.evs s.nEv).inited = false := by
    cases hq : (s.evs s.nEv).inited with
    | false => rfl
    | true => have := (h.evs s.nEv).2 hq; simp [hf] at this
  have hne : (s.evs s.nEv).enabled = false := by
    cases hq : (s.evs s.nEv).enabled with
    | false => rfl
    | true => have := (h.evs s.nEv).1 hq; simp [hni] at this
  exact setEv_inv s s.nEv { alive := true, script := sc } (s.nEv + 1) h hne rfl
    (fun g => by simp [Holds, hni]) (by simp) (Nat.le_succ _) (fun _ => Nat.lt_succ_self _)

/-- provenance of records across a step: the creation counter only grows; a record of the new state
either continues a record of the old state (same stamp, same open file) or carries a newer stamp -/
structure Prov (s s' : State) : Prop where
  ser : s.serial ≤ s'.serial
  recs : ∀ f r', s'.recs f = some r' →
    (∃ r, s.recs f = some r ∧ r'.serial = r.serial ∧ r'.inst = r.inst) ∨ s.serial < r'.serial

theorem Prov.refl (s : State) : Prov s s := ⟨Nat.le_refl _, fun _ r' h => Or.inl ⟨r', h, rfl, rfl⟩⟩

theorem Prov.trans {a b c : State} (h1 : Prov a b) (h2 : Prov b c) : Prov a c := by
  refine ⟨Nat.le_trans h1.ser h2.ser, ?_⟩
  intro f r' hr'
  rcases h2.recs f r' hr' with ⟨r, hr, e1, e2⟩ | hlt
  · rcases h1.recs f r hr with ⟨r0, hr0, e3, e4⟩ | hlt
    · exact Or.inl ⟨r0, hr0, e1.trans e3, e2.trans e4⟩
    · exact Or.inr (by omega)
  · exact Or.inr (by have := h1.ser; omega)

theorem reload_snd (k : Nat → Nat) (op : Bool) (f : Nat) (r : Rec) :
    (reload k op f r).2 = { r with kev := maskOf r } := by
  unfold reload; dsimp only
  split <;> (try split) <;> (try split) <;> rfl

theorem prov_of_recs {s s' : State} (hs : s.serial ≤ s'.serial)
    (h : ∀ f r', s'.recs f = some r' → ∃ r, s.recs f = some r ∧ r'.serial = r.serial ∧ r'.inst = r.inst) :
    Prov s s' := ⟨hs, fun f r' hr' => Or.inl (h f r' hr')⟩

theorem enableEv_prov (s : State) (e : Nat) : Prov s (enableEv s e).1 := by
  unfold enableEv
  dsimp only
  split; · exact Prov.refl s
  split; · exact Prov.refl s
  split; · exact Prov.refl s
  split
  · exact prov_of_recs (by exact Nat.le_refl _) (fun f r' h => ⟨r', h, rfl, rfl⟩)
  · rename_i r hr
    refine prov_of_recs (by exact Nat.le_refl _) ?_
    intro f r' h
    simp only [recs_setEv, recs_setRec, reload_snd] at h
    by_cases hf : f = (s.evs e).fd
    · subst hf; simp at h; subst h; exact ⟨r, hr, rfl, rfl⟩
    · simp [hf] at h; exact ⟨r', h, rfl, rfl⟩

theorem disableEv_prov (s : State) (e : Nat) : Prov s (disableEv s e).1 := by
  unfold disableEv
  dsimp only
  split; · exact Prov.refl s
  split; · exact Prov.refl s
  split
  · exact prov_of_recs (by exact Nat.le_refl _) (fun f r' h => ⟨r', h, rfl, rfl⟩)
  · rename_i r hr
    split
    · exact prov_of_recs (by exact Nat.le_refl _) (fun f r' h => ⟨r', h, rfl, rfl⟩)
    · refine prov_of_recs (by exact Nat.le_refl _) ?_
      intro f r' h
      simp only [recs_setEv, recs_setRec, reload_snd] at h
      by_cases hf : f = (s.evs e).fd
      · subst hf; simp at h; subst h; exact ⟨r, hr, rfl, rfl⟩
      · simp [hf] at h; exact ⟨r', h, rfl, rfl⟩

theorem detach_prov (s : State) (e : Nat) : Prov s (detach s e) := by
  unfold detach unrefFd
  dsimp only
  split
  · exact prov_of_recs (by exact Nat.le_refl _) (fun f r' h => ⟨r', h, rfl, rfl⟩)
  · rename_i r hr
    split
    · refine prov_of_recs (by exact Nat.le_refl _) ?_
      intro f r' h
      simp only [recs_setEv, recs_setRec, recs_pushBlock] at h
      by_cases hf : f = (s.evs e).fd
      · subst hf; simp at h
      · simp [hf] at h; exact ⟨r', h, rfl, rfl⟩
    · refine prov_of_recs (by exact Nat.le_refl _) ?_
      intro f r' h
      simp only [recs_setEv, recs_setRec] at h
      by_cases hf : f = (s.evs e).fd
      · subst hf; simp at h; subst h; exact ⟨r, hr, rfl, rfl⟩
      · simp [hf] at h; exact ⟨r', h, rfl, rfl⟩

theorem attach_prov (s : State) (e f : Nat) : Prov s (attach s e f) := by
  unfold attach refFd
  dsimp only
  split
  · rename_i r hr
    refine prov_of_recs (by exact Nat.le_refl _) ?_
    intro g r' h
    simp only [recs_setEv, recs_setRec] at h
    by_cases hf : g = f
    · subst hf; simp at h; subst h; exact ⟨r, hr, rfl, rfl⟩
    · simp [hf] at h; exact ⟨r', h, rfl, rfl⟩
  · refine ⟨by simp, ?_⟩
    intro g r' h
    simp only [recs_setEv, recs_setRec, recs_popBlock] at h
    by_cases hf : g = f
    · subst hf; simp at h; subst h; exact Or.inr (Nat.lt_succ_self _)
    · simp [hf] at h; exact Or.inl ⟨r', h, rfl, rfl⟩

theorem setEv_prov (s : State) (e : Nat) (v : Ev) : Prov s (s.setEv e v) :=
  prov_of_recs (Nat.le_refl _) (fun _ r' h => ⟨r', h, rfl, rfl⟩)

theorem initEv_prov (s : State) (e f m : Nat) (o : Bool) : Prov s (initEv s e f m o).1 := by
  unfold initEv
  dsimp only
  split; · exact Prov.refl s
  split; · exact Prov.refl s
  split; · exact Prov.refl s
  refine Prov.trans ?_ (setEv_prov _ _ _)
  split
  · exact Prov.refl s
  · split
    · exact (detach_prov s e).trans (attach_prov _ e f)
    · exact attach_prov s e f

theorem destroyEv_prov (s : State) (e : Nat) : Prov s (destroyEv s e).1 := by
  unfold destroyEv
  dsimp only
  split; · exact Prov.refl s
  refine Prov.trans ?_ (setEv_prov _ _ _)
  split
  · exact (disableEv_prov s e).trans (detach_prov _ e)
  · exact disableEv_prov s e

theorem setReady_prov (s : State) (f : Nat) (rd wr : Option Bool) (ob : Bool) :
    Prov s (setReady s f rd wr ob).1 := by
  unfold setReady; split
  · exact Prov.refl s
  · exact prov_of_recs (by exact Nat.le_refl _) (fun _ r' h => ⟨r', h, rfl, rfl⟩)

theorem prov_sameCore {s t : State} (c : SameCore s t) : Prov s t :=
  prov_of_recs (by rw [c.serial]; exact Nat.le_refl _) (fun f r' h => ⟨r', by rw [← c.recs]; exact h, rfl, rfl⟩)

theorem enableEvF_prov (s : State) (e : Nat) : Prov s (enableEvF s e).1 := by
  have c1 : SameCore s (refuseAdd s (s.evs e).fd) := ⟨rfl, rfl, rfl, rfl, rfl, rfl, rfl⟩
  have c2 : SameCore (enableEv (refuseAdd s (s.evs e).fd) e).1 (restoreOpen s (enableEv (refuseAdd s (s.evs e).fd) e).1) :=
    ⟨rfl, rfl, rfl, rfl, rfl, rfl, rfl⟩
  exact ((prov_sameCore c1).trans (enableEv_prov _ e)).trans (prov_sameCore c2)

theorem act_prov (s : State) (a : Act) : Prov s (act s a).1 := by
  cases a with
  | init e f m o => exact initEv_prov s e f m o
  | enable e => exact enableEv_prov s e
  | disable e => exact disableEv_prov s e
  | destroy e => exact destroyEv_prov s e
  | close f =>
    show Prov s (closeFd s f true).1
    unfold closeFd; split
    · exact Prov.refl s
    · exact prov_of_recs (by exact Nat.le_refl _) (fun _ r' h => ⟨r', h, rfl, rfl⟩)
  | kill f =>
    show Prov s (closeFd s f false).1
    unfold closeFd; split
    · exact Prov.refl s
    · exact prov_of_recs (by exact Nat.le_refl _) (fun _ r' h => ⟨r', h, rfl, rfl⟩)
  | setR f b => exact setReady_prov s f _ _ _
  | setW f b => exact setReady_prov s f _ _ _
  | oob f => exact setReady_prov s f _ _ _
  | arm k => exact Prov.refl s
  | post k => exact Prov.refl s
  | cond f c => exact prov_sameCore (condFd_core s f c)
  | enableF e => exact enableEvF_prov s e
  | ctlL en e =>
    show Prov s (ctlLEv s en e).1
    unfold ctlLEv
    cases en
    · exact (disableEv_prov s e).trans (prov_sameCore (markFault_core _))
    · exact (enableEv_prov s e).trans (prov_sameCore (markFault_core _))
  | reborn e =>
    show Prov s (rebornEv s e).1
    unfold rebornEv; split
    · exact Prov.refl s
    · exact (destroyEv_prov s e).trans (setEv_prov _ _ _)

theorem runScript_prov (sc : List Act) : ∀ s : State, Prov s (runScript s sc) := by
  induction sc with
  | nil => intro s; exact Prov.refl s
  | cons a as ih => intro s; exact (act_prov s a).trans (ih _)

theorem PassInv.step {w : Wait} {s s' : State} (hp : PassInv w s) (hv : Prov s s') : PassInv w s' :=
  ⟨Nat.le_trans hp.ser hv.ser⟩

theorem PassSync.step {w : Wait} {s s' : State} (hp : PassInv w s) (hq : PassSync w s) (hv : Prov s s') :
    PassSync w s' := by
  intro f r' hr' hle
  rcases hv.recs f r' hr' with ⟨r, hr, e1, e2⟩ | hlt
  · rw [e2]; exact hq f r hr (by omega)
  · have := hp.ser; omega

theorem emit_inv (s : State) (o : Out) (h : Inv s) (ho : OutOk o) : Inv (s.emit o) := by
  refine ⟨?_, h.norec, h.evs, h.fresh, ?_⟩
  · intro f r hr
    exact (h.recs f r hr).transfer (fun _ => Iff.rfl) (fun _ => Iff.rfl) (fun _ _ => rfl) rfl (Nat.le_refl _) rfl
  · intro o' ho'
    simp only [log_emit, List.mem_cons] at ho'
    rcases ho' with rfl | ho'
    · exact ho
    · exact h.log o' ho'

theorem emit_prov (s : State) (o : Out) : Prov s (s.emit o) :=
  prov_of_recs (by exact Nat.le_refl _) (fun _ r' h => ⟨r', h, rfl, rfl⟩)

theorem findRec_some {w : Wait} {s : State} {f : Nat} {r : Rec} (h : findRec w s f = some r) :
    s.recs f = some r ∧ r.serial ≤ w.serial := by
  unfold findRec at h
  split at h
  · rename_i r0 hr0
    split at h
    · simp at h; subst h; exact ⟨hr0, by assumption⟩
    · simp at h
  · simp at h

/-- the heart of the property: an event that is still subscribed in the record found for the ready
descriptor gets a legitimate callback, and the state stays consistent -/
theorem enterEvent_ok {w : Wait} {s : State} {f m e : Nat} {r : Rec} (h : Inv s) (hp : PassInv w s)
    (hf : findRec w s f = some r) (he : e ∈ r.subs) (hr : (f, m) ∈ w.ready) :
    Inv (enterEvent w f m s e).1 ∧ Prov s (enterEvent w f m s e).1 ∧
    (∀ i, i ≠ e → (enterEvent w f m s e).1.evs i = s.evs i) ∧
    ((enterEvent w f m s e).1.evs e).script = (s.evs e).script := by
  obtain ⟨hrec, hser⟩ := findRec_some hf
  have ok := h.recs f r hrec
  obtain ⟨⟨ha, hi, hfd⟩, hen⟩ := (ok.s_iff e).1 he
  unfold enterEvent
  simp only [ha, Bool.not_true, Bool.false_eq_true, ↓reduceIte]
  by_cases hb : hasBit (s.evs e).mask m = true
  · simp only [hb, Bool.not_true, Bool.false_eq_true, ↓reduceIte]
    have hin : w.ready.contains (f, m) = true := by simpa using hr
    by_cases ho : (s.evs e).oneshot = true
    · simp only [ho, ↓reduceIte]
      obtain ⟨_, _, hoth, hev⟩ := disableEv_frame s e h
      simp only [ha, ↓reduceIte] at hev
      refine ⟨emit_inv _ _ (disableEv_inv s e h) ?_, (disableEv_prov s e).trans (emit_prov _ _), ?_, ?_⟩
      · exact ⟨rfl, hen, rfl, hfd, hin, fun _ => by simp [hev]⟩
      · intro i hi'; simp [hoth i hi']
      · simp [hev]
    · have ho' : (s.evs e).oneshot = false := by simpa using ho
      simp only [ho', Bool.false_eq_true, ↓reduceIte]
      refine ⟨emit_inv _ _ h ?_, emit_prov _ _, fun _ _ => rfl, by first | rfl | trivial⟩
      exact ⟨rfl, hen, rfl, hfd, hin, fun hc => by simp at hc⟩
  · have hb' : hasBit (s.evs e).mask m = false := by simpa using hb
    simp only [hb', Bool.not_false, ↓reduceIte]
    exact ⟨h, Prov.refl s, by simp, by simp⟩

theorem onEvent_ok {w : Wait} {s : State} {f m e : Nat} {r : Rec} (h : Inv s) (hp : PassInv w s)
    (hf : findRec w s f = some r) (he : e ∈ r.subs) (hr : (f, m) ∈ w.ready) :
    Inv (onEvent w f m s e) ∧ PassInv w (onEvent w f m s e) := by
  obtain ⟨h1, p1, _, _⟩ := enterEvent_ok h hp hf he hr
  unfold onEvent
  dsimp only
  split
  · exact ⟨runScript_inv _ _ h1, hp.step (p1.trans (runScript_prov _ _))⟩
  · exact ⟨h1, hp.step p1⟩

theorem dispLoop_ok (w : Wait) (f m : Nat) (hr : (f, m) ∈ w.ready) (l : List Nat) :
    ∀ s : State, Inv s → PassInv w s → Inv (dispLoop w f m s l) ∧ PassInv w (dispLoop w f m s l) := by
  induction l with
  | nil => intro s h hp; exact ⟨h, hp⟩
  | cons e rest ih =>
    intro s h hp
    unfold dispLoop
    cases hf : findRec w s f with
    | none => exact ⟨h, hp⟩
    | some r =>
      dsimp only
      by_cases hc : r.subs.contains e = true
      · simp only [hc, ↓reduceIte]
        obtain ⟨h1, hp1⟩ := onEvent_ok h hp hf (by simpa using hc) hr
        exact ih _ h1 hp1
      · simp only [hc, Bool.false_eq_true, ↓reduceIte]
        exact ih _ h hp

theorem dispatchFd_ok (w : Wait) (s : State) (fm : Nat × Nat) (hr : fm ∈ w.ready) (h : Inv s) (hp : PassInv w s) :
    Inv (dispatchFd w s fm) ∧ PassInv w (dispatchFd w s fm) := by
  unfold dispatchFd
  split
  · exact ⟨h, hp⟩
  · exact dispLoop_ok w fm.1 fm.2 hr _ s h hp

theorem foldl_dispatch_ok (w : Wait) (l : List (Nat × Nat)) :
    ∀ s : State, (∀ fm ∈ l, fm ∈ w.ready) → Inv s → PassInv w s →
      Inv (l.foldl (dispatchFd w) s) ∧ PassInv w (l.foldl (dispatchFd w) s) := by
  induction l with
  | nil => intro s _ h hp; exact ⟨h, hp⟩
  | cons fm rest ih =>
    intro s hsub h hp
    obtain ⟨h1, hp1⟩ := dispatchFd_ok w s fm (hsub fm List.mem_cons_self) h hp
    exact ih _ (fun x hx => hsub x (List.mem_cons_of_mem _ hx)) h1 hp1

theorem passInv_start (s : State) (ready : List (Nat × Nat)) : PassInv (waitOf s ready) s :=
  ⟨Nat.le_refl _⟩

theorem pass_inv (s : State) (ready : List (Nat × Nat)) (h : Inv s) : Inv (pass s ready) :=
  (foldl_dispatch_ok (waitOf s ready) ready s (fun _ hx => hx) h (passInv_start s ready)).1

theorem disableAll_inv (l : List Nat) : ∀ s : State, Inv s → Inv (l.foldl (fun s e => (disableEv s e).1) s) := by
  induction l with
  | nil => intro s h; exact h
  | cons e rest ih => intro s h; exact ih _ (disableEv_inv s e h)

theorem removeInvalid_inv (fds : List Nat) : ∀ s : State, Inv s → Inv (removeInvalid s fds) := by
  unfold removeInvalid
  induction fds with
  | nil => intro s h; exact h
  | cons f rest ih =>
    intro s h
    simp only [List.foldl_cons]
    apply ih
    split
    · exact h
    · exact disableAll_inv _ s h

theorem runScripts_inv (scs : List (List Act)) : ∀ s : State, Inv s → Inv (runScripts s scs) := by
  unfold runScripts
  induction scs with
  | nil => intro s h; exact h
  | cons sc rest ih => intro s h; exact ih _ (runScript_inv sc s h)

theorem runScripts_prov (scs : List (List Act)) : ∀ s : State, Prov s (runScripts s scs) := by
  unfold runScripts
  induction scs with
  | nil => intro s; exact Prov.refl s
  | cons sc rest ih => intro s; exact (runScript_prov sc s).trans (ih _)

/-- a whole turn keeps the invariant: the timer callbacks run between the wait and the dispatch, the
snapshot `w` is the one taken at the wait -/
theorem loopPass_inv (s : State) (tms : List (List Act)) (ready : List (Nat × Nat)) (nx : List (List Act))
    (h : Inv s) : Inv (loopPass s tms ready nx) := by
  unfold loopPass
  exact runScripts_inv nx _
    (foldl_dispatch_ok (waitOf s ready) ready _ (fun _ hx => hx) (runScripts_inv tms s h)
      ((passInv_start s ready).step (runScripts_prov tms s))).1

theorem loopBadf_inv (s : State) (tms : List (List Act)) (fds : List Nat) (nx : List (List Act))
    (h : Inv s) : Inv (loopBadf s tms fds nx) := by
  unfold loopBadf
  exact runScripts_inv nx _ (removeInvalid_inv fds _ (runScripts_inv tms s h))

theorem step_inv (s : State) (st : Step) (h : Inv s) : Inv (step s st) := by
  cases st with
  | newEv sc => exact newEv_inv s sc h
  | api a => exact act_inv s a h
  | pass be r => exact pass_inv s r h
  | badfPass fds => exact removeInvalid_inv fds s h
  | loop be tms r nx => exact loopPass_inv s tms r nx h
  | loopLag tms r nx => exact loopPass_inv s tms r nx h
  | loopBadf trig tms fds nx => exact loopBadf_inv s tms fds nx h
  | defer nx => exact runScripts_inv nx s h

/-- every state reachable from `init` satisfies the invariant -/
theorem exec_inv (sts : List Step) : ∀ (s : State), Inv s → ∀ s', exec s sts = some s' → Inv s' := by
  induction sts with
  | nil => intro s h s' he; simp [exec] at he; subst he; exact h
  | cons st rest ih =>
    intro s h s' he
    unfold exec at he
    split at he
    · exact ih _ (step_inv s st h) s' he
    · simp at he

end Tbox.C03
