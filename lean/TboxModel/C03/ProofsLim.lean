/- C03 — the FD_SETSIZE guard of the select back-end (patch 07): an event object is only ever initialised
on a descriptor below the limit, hence no shared record has a key `>= FD_SETSIZE`, hence `fillFdSets`
never calls `FD_SET` outside the `fd_set` (`C03_select_sets_in_bounds` in Props). -/
import TboxModel.C03.ProofsSync
namespace Tbox.C03

/-- every initialised event object sits on a descriptor below the limit (0 = no limit) -/
def EvLim (s : State) : Prop := ∀ e, (s.evs e).inited = true → s.lim = 0 ∨ (s.evs e).fd < s.lim

/-- a step after which every initialised event either was initialised on the same descriptor before, or
sits below the limit -/
def EL (s s' : State) : Prop :=
  s'.lim = s.lim ∧ ∀ e, (s'.evs e).inited = true →
    ((s.evs e).inited = true ∧ (s'.evs e).fd = (s.evs e).fd) ∨ s.lim = 0 ∨ (s'.evs e).fd < s.lim

theorem EL.refl (s : State) : EL s s := ⟨rfl, fun _ h => Or.inl ⟨h, rfl⟩⟩

theorem EL.trans {a b c : State} (h1 : EL a b) (h2 : EL b c) : EL a c := by
  refine ⟨h2.1.trans h1.1, fun e he => ?_⟩
  rcases h2.2 e he with ⟨hi, hf⟩ | hl
  · rcases h1.2 e hi with ⟨hi', hf'⟩ | hl
    · exact Or.inl ⟨hi', hf.trans hf'⟩
    · rw [hf]; exact Or.inr hl
  · rw [h1.1] at hl; exact Or.inr hl

theorem EvLim.step {s s' : State} (h : EvLim s) (k : EL s s') : EvLim s' := by
  intro e he
  rw [k.1]
  rcases k.2 e he with ⟨hi, hf⟩ | hl
  · rw [hf]; exact h e hi
  · exact hl

@[simp] theorem lim_setEv (s : State) (e : Nat) (v : Ev) : (s.setEv e v).lim = s.lim := rfl
@[simp] theorem lim_setRec (s : State) (f : Nat) (r : Option Rec) : (s.setRec f r).lim = s.lim := rfl
@[simp] theorem lim_emit (s : State) (o : Out) : (s.emit o).lim = s.lim := rfl
@[simp] theorem lim_pushBlock (s : State) (b : Nat) : (pushBlock s b).lim = s.lim := rfl
@[simp] theorem lim_popBlock (s : State) : (popBlock s).1.lim = s.lim := by unfold popBlock; split <;> rfl
@[simp] theorem lim_unrefFd (s : State) (f e : Nat) : (unrefFd s f e).lim = s.lim := by
  unfold unrefFd; split
  · rfl
  · split <;> rfl
@[simp] theorem lim_refFd (s : State) (f e : Nat) : (refFd s f e).lim = s.lim := by
  unfold refFd; split <;> simp

/-- the event table changes at most in the `enabled` flag of one entry -/
theorem el_of_same {s s' : State} (hl : s'.lim = s.lim)
    (h : ∀ x, (s'.evs x).inited = (s.evs x).inited ∧ (s'.evs x).fd = (s.evs x).fd) : EL s s' :=
  ⟨hl, fun x hx => Or.inl ⟨by rw [← (h x).1]; exact hx, (h x).2⟩⟩

theorem enableEv_el (s : State) (e : Nat) : EL s (enableEv s e).1 := by
  unfold enableEv
  dsimp only
  split; · exact EL.refl s
  split; · exact EL.refl s
  split; · exact EL.refl s
  split
  · exact el_of_same rfl (fun _ => ⟨rfl, rfl⟩)
  · refine el_of_same rfl (fun x => ?_)
    by_cases hx : x = e <;> simp [hx]

theorem disableEv_el (s : State) (e : Nat) : EL s (disableEv s e).1 := by
  unfold disableEv
  dsimp only
  split; · exact EL.refl s
  split; · exact EL.refl s
  split
  · exact el_of_same rfl (fun _ => ⟨rfl, rfl⟩)
  · split
    · exact el_of_same rfl (fun _ => ⟨rfl, rfl⟩)
    · refine el_of_same rfl (fun x => ?_)
      by_cases hx : x = e <;> simp [hx]

theorem detach_el (s : State) (e : Nat) : EL s (detach s e) := by
  refine ⟨by simp [detach], fun x hx => ?_⟩
  rw [evs_detach] at hx ⊢
  by_cases hxe : x = e
  · simp [hxe] at hx
  · simp only [hxe, ↓reduceIte] at hx ⊢; exact Or.inl ⟨hx, trivial⟩

theorem attach_el (s : State) (e f : Nat) (hf : s.lim = 0 ∨ f < s.lim) : EL s (attach s e f) := by
  refine ⟨by simp [attach], fun x hx => ?_⟩
  rw [evs_attach] at hx ⊢
  by_cases hxe : x = e
  · simp only [hxe, ↓reduceIte]; exact Or.inr hf
  · simp only [hxe, ↓reduceIte] at hx ⊢; exact Or.inl ⟨hx, trivial⟩

theorem setEv_el (s : State) (e : Nat) (v : Ev) (hi : v.inited = (s.evs e).inited) (hf : v.fd = (s.evs e).fd) :
    EL s (s.setEv e v) := by
  refine el_of_same rfl (fun x => ?_)
  by_cases hx : x = e
  · subst hx; simp [hi, hf]
  · simp [hx]

theorem initEv_el (s : State) (e f m : Nat) (o : Bool) : EL s (initEv s e f m o).1 := by
  unfold initEv
  dsimp only
  split; · exact EL.refl s
  split; · exact EL.refl s
  split; · exact EL.refl s
  rename_i hl
  have hf : s.lim = 0 ∨ f < s.lim := by
    simp only [Bool.and_eq_true, bne_iff_ne, ne_eq, decide_eq_true_eq, not_and] at hl
    by_cases h0 : s.lim = 0
    · exact Or.inl h0
    · exact Or.inr (by have := hl h0; omega)
  refine EL.trans ?_ (setEv_el _ _ _ rfl rfl)
  split
  · exact EL.refl s
  · split
    · exact (detach_el s e).trans (attach_el _ e f (by simpa [detach] using hf))
    · exact attach_el s e f hf

theorem destroyEv_el (s : State) (e : Nat) : EL s (destroyEv s e).1 := by
  unfold destroyEv
  dsimp only
  split; · exact EL.refl s
  refine EL.trans ?_ (setEv_el _ _ _ rfl rfl)
  split
  · exact (disableEv_el s e).trans (detach_el _ e)
  · exact disableEv_el s e

theorem act_el (s : State) (a : Act) : EL s (act s a).1 := by
  cases a with
  | init e f m o => exact initEv_el s e f m o
  | enable e => exact enableEv_el s e
  | disable e => exact disableEv_el s e
  | destroy e => exact destroyEv_el s e
  | close f =>
    show EL s (closeFd s f true).1
    unfold closeFd; split
    · exact EL.refl s
    · exact el_of_same rfl (fun _ => ⟨rfl, rfl⟩)
  | kill f =>
    show EL s (closeFd s f false).1
    unfold closeFd; split
    · exact EL.refl s
    · exact el_of_same rfl (fun _ => ⟨rfl, rfl⟩)
  | setR f b => show EL s (setReady s f _ _ _).1; unfold setReady; split <;> first | exact EL.refl s | exact el_of_same rfl (fun _ => ⟨rfl, rfl⟩)
  | setW f b => show EL s (setReady s f _ _ _).1; unfold setReady; split <;> first | exact EL.refl s | exact el_of_same rfl (fun _ => ⟨rfl, rfl⟩)
  | oob f => show EL s (setReady s f _ _ _).1; unfold setReady; split <;> first | exact EL.refl s | exact el_of_same rfl (fun _ => ⟨rfl, rfl⟩)
  | arm k => exact EL.refl s
  | post k => exact EL.refl s
  | cond f c =>
    show EL s (condFd s f c).1
    unfold condFd
    repeat' split
    all_goals first | exact EL.refl s | exact el_of_same rfl (fun _ => ⟨rfl, rfl⟩)
  | enableF e =>
    show EL s (restoreOpen s (enableEv (refuseAdd s (s.evs e).fd) e).1)
    have c1 : EL s (refuseAdd s (s.evs e).fd) := el_of_same rfl (fun _ => ⟨rfl, rfl⟩)
    have c2 : EL (enableEv (refuseAdd s (s.evs e).fd) e).1 (restoreOpen s (enableEv (refuseAdd s (s.evs e).fd) e).1) :=
      el_of_same rfl (fun _ => ⟨rfl, rfl⟩)
    exact (c1.trans (enableEv_el _ e)).trans c2
  | ctlL en e =>
    show EL s (ctlLEv s en e).1
    unfold ctlLEv
    cases en
    · exact (disableEv_el s e).trans (el_of_same rfl (fun _ => ⟨rfl, rfl⟩))
    · exact (enableEv_el s e).trans (el_of_same rfl (fun _ => ⟨rfl, rfl⟩))
  | reborn e =>
    show EL s (rebornEv s e).1
    unfold rebornEv; split
    · exact EL.refl s
    · exact (destroyEv_el s e).trans (setEv_el _ _ _ rfl rfl)

theorem runScript_el (sc : List Act) : ∀ s : State, EL s (runScript s sc) := by
  induction sc with
  | nil => intro s; exact EL.refl s
  | cons a as ih => intro s; exact (act_el s a).trans (ih _)

theorem runScripts_el (scs : List (List Act)) : ∀ s : State, EL s (runScripts s scs) := by
  unfold runScripts
  induction scs with
  | nil => intro s; exact EL.refl s
  | cons sc rest ih => intro s; exact (runScript_el sc s).trans (ih _)

theorem onEvent_el (w : Wait) (f m : Nat) (s : State) (e : Nat) : EL s (onEvent w f m s e) := by
  have h1 : EL s (enterEvent w f m s e).1 := by
    unfold enterEvent
    dsimp only
    split; · exact el_of_same rfl (fun _ => ⟨rfl, rfl⟩)
    split; · exact EL.refl s
    split
    · exact (disableEv_el s e).trans (el_of_same rfl (fun _ => ⟨rfl, rfl⟩))
    · exact el_of_same rfl (fun _ => ⟨rfl, rfl⟩)
  unfold onEvent
  dsimp only
  split
  · exact h1.trans (runScript_el _ _)
  · exact h1

theorem dispLoop_el (w : Wait) (f m : Nat) (l : List Nat) : ∀ s : State, EL s (dispLoop w f m s l) := by
  induction l with
  | nil => intro s; exact EL.refl s
  | cons e rest ih =>
    intro s
    unfold dispLoop
    split
    · exact EL.refl s
    · split
      · exact (onEvent_el w f m s e).trans (ih _)
      · exact ih s

theorem dispatchFd_el (w : Wait) (s : State) (fm : Nat × Nat) : EL s (dispatchFd w s fm) := by
  unfold dispatchFd
  split
  · exact EL.refl s
  · exact dispLoop_el w fm.1 fm.2 _ s

theorem foldl_dispatch_el (w : Wait) (l : List (Nat × Nat)) : ∀ s : State, EL s (l.foldl (dispatchFd w) s) := by
  induction l with
  | nil => intro s; exact EL.refl s
  | cons fm rest ih => intro s; exact (dispatchFd_el w s fm).trans (ih _)

theorem disableAll_el (l : List Nat) : ∀ s : State, EL s (l.foldl (fun s e => (disableEv s e).1) s) := by
  induction l with
  | nil => intro s; exact EL.refl s
  | cons e rest ih => intro s; exact (disableEv_el s e).trans (ih _)

theorem removeInvalid_el (fds : List Nat) : ∀ s : State, EL s (removeInvalid s fds) := by
  unfold removeInvalid
  induction fds with
  | nil => intro s; exact EL.refl s
  | cons f rest ih =>
    intro s
    simp only [List.foldl_cons]
    split
    · exact ih s
    · exact (disableAll_el _ s).trans (ih _)

theorem step_el (s : State) (st : Step) (h : Inv s) : EL s (step s st) := by
  cases st with
  | newEv sc =>
    have hf := h.fresh s.nEv (Nat.le_refl _)
    refine ⟨rfl, fun x hx => ?_⟩
    by_cases hxe : x = s.nEv
    · subst hxe; simp [step] at hx
    · simp only [step, evs_setEv, hxe, ↓reduceIte] at hx ⊢; exact Or.inl ⟨hx, trivial⟩
  | api a => exact act_el s a
  | pass be r => exact foldl_dispatch_el _ r s
  | badfPass fds => exact removeInvalid_el fds s
  | loop be tms r nx =>
    exact ((runScripts_el tms s).trans (foldl_dispatch_el _ r _)).trans (runScripts_el nx _)
  | loopLag tms r nx =>
    exact ((runScripts_el tms s).trans (foldl_dispatch_el _ r _)).trans (runScripts_el nx _)
  | loopBadf trig tms fds nx =>
    exact ((runScripts_el tms s).trans (removeInvalid_el fds _)).trans (runScripts_el nx _)
  | defer nx => exact runScripts_el nx s

theorem exec_evLim (sts : List Step) : ∀ (s : State), Inv s → EvLim s → ∀ s', exec s sts = some s' → EvLim s' := by
  induction sts with
  | nil => intro s _ hl s' he; simp [exec] at he; subst he; exact hl
  | cons st rest ih =>
    intro s h hl s' he
    unfold exec at he
    split at he
    · exact ih _ (step_inv s st h) (hl.step (step_el s st h)) s' he
    · simp at he

theorem exec_lim (sts : List Step) : ∀ (s s' : State), exec s sts = some s' → s'.lim = s.lim := by
  induction sts with
  | nil => intro s s' he; simp [exec] at he; subst he; rfl
  | cons st rest ih =>
    intro s s' he
    unfold exec at he
    split at he
    · rw [ih _ s' he]
      -- no step changes the limit
      cases st with
      | newEv sc => rfl
      | api a => exact (act_el s a).1
      | pass be r => exact (foldl_dispatch_el _ r s).1
      | badfPass fds => exact (removeInvalid_el fds s).1
      | loop be tms r nx => exact (((runScripts_el tms s).trans (foldl_dispatch_el _ r _)).trans (runScripts_el nx _)).1
      | loopLag tms r nx => exact (((runScripts_el tms s).trans (foldl_dispatch_el _ r _)).trans (runScripts_el nx _)).1
      | loopBadf trig tms fds nx => exact (((runScripts_el tms s).trans (removeInvalid_el fds _)).trans (runScripts_el nx _)).1
      | defer nx => exact (runScripts_el nx s).1
    · simp at he

end Tbox.C03
