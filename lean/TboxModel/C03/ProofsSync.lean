/- C03 — the part of the invariant that depends on the close contract (`Sync`): as long as no
descriptor was closed behind the back of an event object (ghost flag `breach`), the kernel's epoll
interest is exactly the cached mask of every record, every record stands for the current open file of
its descriptor, and every callback was on a descriptor that was still the file the kernel reported on. -/
import TboxModel.C03.Proofs
namespace Tbox.C03

/-- descriptor `f` is in step: open, registered with exactly the cached mask of its record (or not
registered when it has none), the record made for the current open file -/
def RSync (s : State) (f : Nat) : Prop :=
  (∀ r, s.recs f = some r → s.kern f = r.kev ∧ r.inst = s.gen f) ∧ s.isOpen f = true ∧
  (s.recs f = none → s.kern f = 0)

/-- a step that keeps every descriptor in step, does not touch the ghost flag and adds no callback -/
structure KProv (s s' : State) : Prop where
  fds : ∀ f, RSync s f → RSync s' f
  breach : s'.breach = s.breach
  log : ∀ c, Out.cb c ∈ s'.log → Out.cb c ∈ s.log

theorem KProv.refl (s : State) : KProv s s := ⟨fun _ h => h, rfl, fun _ h => h⟩

theorem KProv.trans {a b c : State} (h1 : KProv a b) (h2 : KProv b c) : KProv a c :=
  ⟨fun f h => h2.fds f (h1.fds f h), h2.breach.trans h1.breach, fun x h => h1.log x (h2.log x h)⟩

theorem rsync_of_sync {s : State} (hn : Inv s) (S : Sync s) (f : Nat) : RSync s f :=
  ⟨S.recs f, S.isOpen f, fun h => (hn.norec f h).1⟩

theorem Sync.step {s s' : State} (hn : Inv s) (S : Sync s) (k : KProv s s') : Sync s' :=
  ⟨fun f => (k.fds f (rsync_of_sync hn S f)).1, fun f => (k.fds f (rsync_of_sync hn S f)).2.1,
   fun c hc => S.log c (k.log c hc)⟩

theorem SyncInv.step {s s' : State} (hn : Inv s) (hs : SyncInv s) (k : KProv s s') : SyncInv s' :=
  fun hb => (hs (by rw [← k.breach]; exact hb)).step hn k

/-- a step that leaves records, kernel table, generations and open flags alone -/
theorem KProv.of_same {s s' : State} (hr : s'.recs = s.recs) (hk : s'.kern = s.kern) (hg : s'.gen = s.gen)
    (ho : s'.isOpen = s.isOpen) (hb : s'.breach = s.breach) (hl : ∀ c, Out.cb c ∈ s'.log → Out.cb c ∈ s.log) :
    KProv s s' := by
  refine ⟨fun f h => ?_, hb, hl⟩
  unfold RSync at *
  rw [hr, hk, hg, ho]; exact h

theorem setEv_k (s : State) (e : Nat) (v : Ev) : KProv s (s.setEv e v) :=
  KProv.of_same rfl rfl rfl rfl rfl (fun _ h => h)

theorem emitBad_k (s : State) (b : Bad) : KProv s (s.emit (.bad b)) :=
  KProv.of_same rfl rfl rfl rfl rfl (fun c h => by simpa using h)

theorem reload_other (k : Nat → Nat) (op : Bool) (f : Nat) (r : Rec) (g : Nat) (hg : g ≠ f) :
    (reload k op f r).1 g = k g := by
  unfold reload; dsimp only
  split <;> (try split) <;> (try split) <;> simp [hg]

theorem reload_sync (k : Nat → Nat) (f : Nat) (r : Rec) (hk : k f = r.kev) :
    (reload k true f r).1 f = maskOf r := by
  unfold reload; dsimp only
  by_cases h0 : r.kev = 0 <;> by_cases hn : maskOf r = 0 <;> by_cases hz : k f = 0 <;>
    simp [h0, hn, hz] <;> omega

/-- replacing the record of `f` by one with the same `inst` whose cached mask the reload has just
pushed to the kernel -/
theorem reloaded_k (s : State) (f e : Nat) (v : Ev) (r r1 : Rec) (hr : s.recs f = some r) (hi : r1.inst = r.inst)
    (hkv : r1.kev = r.kev) :
    KProv s (({ s with kern := (reload s.kern (s.isOpen f) f r1).1 }.setRec f
      (some (reload s.kern (s.isOpen f) f r1).2)).setEv e v) := by
  refine ⟨fun g h => ?_, rfl, fun _ hc => hc⟩
  unfold RSync at *
  by_cases hg : g = f
  · subst hg
    obtain ⟨h1, h2, _⟩ := h
    have ⟨hk, hin⟩ := h1 r hr
    refine ⟨?_, h2, by simp⟩
    intro r' hr'
    simp only [recs_setEv, recs_setRec, ↓reduceIte, Option.some.injEq] at hr'
    subst hr'
    simp only [kern_setEv, kern_setRec, gen_setEv, gen_setRec, reload_snd]
    rw [h2] at *
    exact ⟨reload_sync s.kern g r1 (by rw [hkv]; exact hk), by rw [hi]; exact hin⟩
  · simpa [hg, reload_other _ _ _ _ g hg] using h

theorem enableEv_k (s : State) (e : Nat) : KProv s (enableEv s e).1 := by
  unfold enableEv
  dsimp only
  split; · exact KProv.refl s
  split; · exact KProv.refl s
  split; · exact KProv.refl s
  split
  · exact emitBad_k s _
  · rename_i r hr
    exact reloaded_k s _ e _ r _ hr rfl rfl

theorem disableEv_k (s : State) (e : Nat) : KProv s (disableEv s e).1 := by
  unfold disableEv
  dsimp only
  split; · exact KProv.refl s
  split; · exact KProv.refl s
  split
  · exact emitBad_k s _
  · rename_i r hr
    split
    · exact emitBad_k s _
    · exact reloaded_k s _ e _ r _ hr rfl rfl

theorem attach_k (s : State) (e f : Nat) : KProv s (attach s e f) := by
  unfold attach refFd
  dsimp only
  split
  · rename_i r hr
    refine ⟨fun g h => ?_, rfl, fun _ hc => hc⟩
    unfold RSync at *
    by_cases hg : g = f
    · subst hg
      refine ⟨?_, h.2.1, by simp⟩
      intro r' hr'
      simp only [recs_setEv, recs_setRec, ↓reduceIte, Option.some.injEq] at hr'
      subst hr'
      exact h.1 r hr
    · simpa [hg] using h
  · rename_i hr
    refine ⟨fun g h => ?_, by simp, fun _ hc => by simpa using hc⟩
    unfold RSync at *
    by_cases hg : g = f
    · subst hg
      refine ⟨?_, by simpa using h.2.1, by simp⟩
      intro r' hr'
      simp only [recs_setEv, recs_setRec, ↓reduceIte, Option.some.injEq] at hr'
      subst hr'
      simp only [kern_setEv, kern_setRec, gen_setEv, gen_setRec, kern_popBlock, gen_popBlock]
      exact ⟨h.2.2 hr, trivial⟩
    · simpa [hg] using h

theorem detach_k (s : State) (e : Nat) (h : Inv s) (ha : (s.evs e).alive = true)
    (hi : (s.evs e).inited = true) (he : (s.evs e).enabled = false) : KProv s (detach s e) := by
  have hn := detach_inv s e h ha hi he
  cases hrr : s.recs (s.evs e).fd with
  | none => exact absurd ⟨ha, hi, rfl⟩ ((h.norec _ hrr).2 e)
  | some r0 =>
    have hd : detach s e = (if r0.ref = 1 then (pushBlock s r0.block).setRec (s.evs e).fd none
        else s.setRec (s.evs e).fd (some { r0 with ref := r0.ref - 1, holders := r0.holders.erase e })).setEv e
          { s.evs e with inited := false } := by
      unfold detach; dsimp only; rw [unrefFd_some e hrr]
    refine ⟨fun g hg => ?_, ?_, ?_⟩
    · unfold RSync at *
      refine ⟨?_, ?_, fun hr => (hn.norec g hr).1⟩
      · intro r' hr'
        rw [hd] at hr' ⊢
        by_cases h1 : r0.ref = 1
        · simp only [h1, ↓reduceIte, recs_setEv, recs_setRec, recs_pushBlock] at hr'
          simp only [h1, ↓reduceIte, kern_setEv, kern_setRec, kern_pushBlock, gen_setEv, gen_setRec, gen_pushBlock]
          by_cases hgf : g = (s.evs e).fd
          · simp [hgf] at hr'
          · simp only [hgf, ↓reduceIte] at hr'; exact hg.1 r' hr'
        · simp only [h1, ↓reduceIte, recs_setEv, recs_setRec] at hr'
          simp only [h1, ↓reduceIte, kern_setEv, kern_setRec, gen_setEv, gen_setRec]
          by_cases hgf : g = (s.evs e).fd
          · simp only [hgf, ↓reduceIte, Option.some.injEq] at hr'
            subst hr'
            have := hg.1 r0 (by rw [hgf]; exact hrr)
            rw [hgf] at this ⊢
            exact this
          · simp only [hgf, ↓reduceIte] at hr'; exact hg.1 r' hr'
      · have : (detach s e).isOpen = s.isOpen := by rw [hd]; split <;> rfl
        rw [this]; exact hg.2.1
    · rw [hd]; split <;> rfl
    · intro c hc; simpa using hc

theorem setReady_k (s : State) (f : Nat) (rd wr : Option Bool) (ob : Bool) : KProv s (setReady s f rd wr ob).1 := by
  unfold setReady; split
  · exact KProv.refl s
  · exact KProv.of_same rfl rfl rfl rfl rfl (fun _ h => h)

theorem initEv_k (s : State) (e f m : Nat) (o : Bool) (h : Inv s) : KProv s (initEv s e f m o).1 := by
  unfold initEv
  dsimp only
  split; · exact KProv.refl s
  rename_i ha
  split; · exact KProv.refl s
  rename_i he
  have ha' : (s.evs e).alive = true := by simpa using ha
  have he' : (s.evs e).enabled = false := by simpa using he
  split; · exact KProv.refl s
  refine KProv.trans ?_ (setEv_k _ _ _)
  split
  · exact KProv.refl s
  · split
    · rename_i hi
      exact (detach_k s e h ha' hi he').trans (attach_k _ e f)
    · exact attach_k s e f

theorem destroyEv_k (s : State) (e : Nat) (h : Inv s) : KProv s (destroyEv s e).1 := by
  unfold destroyEv
  dsimp only
  split; · exact KProv.refl s
  rename_i ha
  have ha' : (s.evs e).alive = true := by simpa using ha
  refine KProv.trans ?_ (setEv_k _ _ _)
  have h1 := disableEv_inv s e h
  obtain ⟨_, _, _, hev⟩ := disableEv_frame s e h
  simp only [ha', ↓reduceIte] at hev
  split
  · rename_i hi
    exact (disableEv_k s e).trans (detach_k _ e h1 (by rw [hev]) hi (by rw [hev]))
  · exact disableEv_k s e

theorem closeFd_sync (s : State) (f : Nat) (ro : Bool) (hs : SyncInv s) : SyncInv (closeFd s f ro).1 := by
  unfold closeFd
  split
  · exact hs
  · intro hb
    simp only [Bool.or_eq_false_iff, Bool.not_eq_false'] at hb
    obtain ⟨⟨hb0, hnr⟩, hro⟩ := hb
    have S := hs hb0
    have hnone : s.recs f = none := by
      cases hq : s.recs f with
      | none => rfl
      | some r => simp [hq] at hnr
    refine ⟨?_, ?_, S.log⟩
    · intro g r hr
      have hgf : g ≠ f := fun hq => by subst hq; simp [hnone] at hr
      simpa [hgf] using S.recs g r hr
    · intro g
      by_cases hgf : g = f
      · simp [hgf, hro]
      · simpa [hgf] using S.isOpen g

theorem condFd_k (s : State) (f c : Nat) : KProv s (condFd s f c).1 := by
  unfold condFd
  repeat' split
  all_goals first | exact KProv.refl s | exact KProv.of_same rfl rfl rfl rfl rfl (fun _ h => h)

/-- the fault injector leaves its mark: after `enableF` the ghost flag is set, whatever else happened -/
theorem enableEvF_breach (s : State) (e : Nat) : (enableEvF s e).1.breach = true := by
  show (enableEv (refuseAdd s (s.evs e).fd) e).1.breach = true
  rw [(enableEv_k (refuseAdd s (s.evs e).fd) e).breach]; rfl

theorem ctlLEv_breach (s : State) (en : Bool) (e : Nat) : (ctlLEv s en e).1.breach = true := rfl

theorem rebornEv_k (s : State) (e : Nat) (h : Inv s) : KProv s (rebornEv s e).1 := by
  unfold rebornEv; split
  · exact KProv.refl s
  · exact (destroyEv_k s e h).trans (setEv_k _ _ _)

theorem act_sync (s : State) (a : Act) (h : Inv s) (hs : SyncInv s) : SyncInv (act s a).1 := by
  cases a with
  | init e f m o => exact hs.step h (initEv_k s e f m o h)
  | enable e => exact hs.step h (enableEv_k s e)
  | disable e => exact hs.step h (disableEv_k s e)
  | destroy e => exact hs.step h (destroyEv_k s e h)
  | close f => exact closeFd_sync s f true hs
  | kill f => exact closeFd_sync s f false hs
  | setR f b => exact hs.step h (setReady_k s f _ _ _)
  | setW f b => exact hs.step h (setReady_k s f _ _ _)
  | oob f => exact hs.step h (setReady_k s f _ _ _)
  | arm k => exact hs
  | post k => exact hs
  | cond f c => exact hs.step h (condFd_k s f c)
  | enableF e => exact fun hb => absurd ((enableEvF_breach s e).symm.trans hb) (by simp)
  | reborn e => exact hs.step h (rebornEv_k s e h)
  | ctlL en e => exact fun hb => absurd ((ctlLEv_breach s en e).symm.trans hb) (by simp)

theorem runScript_sync (sc : List Act) : ∀ s : State, Inv s → SyncInv s → SyncInv (runScript s sc) := by
  induction sc with
  | nil => intro s _ hs; exact hs
  | cons a as ih => intro s h hs; exact ih _ (act_inv s a h) (act_sync s a h hs)

theorem passSync_start (s : State) (ready : List (Nat × Nat)) (S : Sync s) : PassSync (waitOf s ready) s :=
  fun f r hr _ => (S.recs f r hr).2

/-- the callback entered for a subscriber found through `findRec` is on the open file the kernel
reported on (as long as the close contract was kept) -/
theorem enterEvent_sync {w : Wait} {s : State} {f m e : Nat} {r : Rec} (h : Inv s) (hs : SyncInv s)
    (hq : s.breach = false → PassSync w s) (hf : findRec w s f = some r) (he : e ∈ r.subs) :
    SyncInv (enterEvent w f m s e).1 := by
  obtain ⟨hrec, hser⟩ := findRec_some hf
  have ok := h.recs f r hrec
  obtain ⟨⟨ha, hi, hfd⟩, hen⟩ := (ok.s_iff e).1 he
  unfold enterEvent
  simp only [ha, Bool.not_true, Bool.false_eq_true, ↓reduceIte]
  by_cases hb : hasBit (s.evs e).mask m = true
  · simp only [hb, Bool.not_true, Bool.false_eq_true, ↓reduceIte]
    -- the state just before the entry is logged
    have pre : ∀ s1 : State, Inv s → KProv s s1 → ∀ c : Cb, c.instOk = (s.gen (s.evs e).fd == w.gen (s.evs e).fd) →
        SyncInv (s1.emit (.cb c)) := by
      intro s1 _ k c hc hb1
      have hb0 : s.breach = false := by rw [← k.breach]; exact hb1
      have S := hs hb0
      have S1 := S.step h k
      refine ⟨S1.recs, S1.isOpen, ?_⟩
      intro c' hc'
      simp only [log_emit, List.mem_cons, Out.cb.injEq] at hc'
      rcases hc' with rfl | hc'
      · rw [hc, hfd, ← (S.recs f r hrec).2, hq hb0 f r hrec hser]; simp
      · exact S1.log c' hc'
    split
    · exact pre _ h (disableEv_k s e) _ rfl
    · exact pre _ h (KProv.refl s) _ rfl
  · have hb' : hasBit (s.evs e).mask m = false := by simpa using hb
    simp only [hb', Bool.not_false, ↓reduceIte]
    exact hs

/-! ### the ghost flag only ever goes up -/

theorem act_mono (s : State) (a : Act) (h : Inv s) (hb : (act s a).1.breach = false) : s.breach = false := by
  cases a with
  | init e f m o => rw [← (initEv_k s e f m o h).breach]; exact hb
  | enable e => rw [← (enableEv_k s e).breach]; exact hb
  | disable e => rw [← (disableEv_k s e).breach]; exact hb
  | destroy e => rw [← (destroyEv_k s e h).breach]; exact hb
  | close f =>
    change (closeFd s f true).1.breach = false at hb
    unfold closeFd at hb; split at hb
    · exact hb
    · simp only [Bool.or_eq_false_iff] at hb; exact hb.1.1
  | kill f =>
    change (closeFd s f false).1.breach = false at hb
    unfold closeFd at hb; split at hb
    · exact hb
    · simp only [Bool.or_eq_false_iff] at hb; exact hb.1.1
  | setR f b => rw [← (setReady_k s f _ _ _).breach]; exact hb
  | setW f b => rw [← (setReady_k s f _ _ _).breach]; exact hb
  | oob f => rw [← (setReady_k s f _ _ _).breach]; exact hb
  | arm k => exact hb
  | post k => exact hb
  | cond f c => rw [← (condFd_k s f c).breach]; exact hb
  | enableF e => exact absurd ((enableEvF_breach s e).symm.trans hb) (by simp)
  | reborn e => rw [← (rebornEv_k s e h).breach]; exact hb
  | ctlL en e => exact absurd ((ctlLEv_breach s en e).symm.trans hb) (by simp)

theorem runScript_mono (sc : List Act) : ∀ s : State, Inv s → (runScript s sc).breach = false → s.breach = false := by
  induction sc with
  | nil => intro s _ hb; exact hb
  | cons a as ih => intro s h hb; exact act_mono s a h (ih _ (act_inv s a h) hb)

theorem enterEvent_breach (w : Wait) (f m : Nat) (s : State) (e : Nat) :
    (enterEvent w f m s e).1.breach = s.breach := by
  unfold enterEvent
  dsimp only
  split; · rfl
  split; · rfl
  split
  · simp [(disableEv_k s e).breach]
  · rfl

/-- everything that is carried through a pass that started in `s0` with the wait snapshot `w` -/
structure PassAll (w : Wait) (s0 s : State) : Prop where
  inv  : Inv s
  pi   : PassInv w s
  sy   : SyncInv s
  ps   : s0.breach = false → PassSync w s
  mono : s.breach = false → s0.breach = false

theorem onEvent_all {w : Wait} {s0 s : State} {f m e : Nat} {r : Rec} (A : PassAll w s0 s)
    (hf : findRec w s f = some r) (he : e ∈ r.subs) (hr : (f, m) ∈ w.ready) :
    PassAll w s0 (onEvent w f m s e) := by
  obtain ⟨h1, p1, _, _⟩ := enterEvent_ok A.inv A.pi hf he hr
  have s1 := enterEvent_sync (m := m) A.inv A.sy (fun hb => A.ps (A.mono hb)) hf he
  have b1 := enterEvent_breach w f m s e
  unfold onEvent
  dsimp only
  split
  · refine ⟨runScript_inv _ _ h1, A.pi.step (p1.trans (runScript_prov _ _)), runScript_sync _ _ h1 s1,
      fun hb => (A.ps hb).step A.pi (p1.trans (runScript_prov _ _)), fun hb => ?_⟩
    exact A.mono (by rw [← b1]; exact runScript_mono _ _ h1 hb)
  · exact ⟨h1, A.pi.step p1, s1, fun hb => (A.ps hb).step A.pi p1, fun hb => A.mono (by rw [← b1]; exact hb)⟩

theorem dispLoop_all (w : Wait) (s0 : State) (f m : Nat) (hr : (f, m) ∈ w.ready) (l : List Nat) :
    ∀ s : State, PassAll w s0 s → PassAll w s0 (dispLoop w f m s l) := by
  induction l with
  | nil => intro s A; exact A
  | cons e rest ih =>
    intro s A
    unfold dispLoop
    cases hf : findRec w s f with
    | none => exact A
    | some r =>
      dsimp only
      by_cases hc : r.subs.contains e = true
      · simp only [hc, ↓reduceIte]
        exact ih _ (onEvent_all A hf (by simpa using hc) hr)
      · simp only [hc, Bool.false_eq_true, ↓reduceIte]
        exact ih _ A

theorem dispatchFd_all (w : Wait) (s0 s : State) (fm : Nat × Nat) (hr : fm ∈ w.ready) (A : PassAll w s0 s) :
    PassAll w s0 (dispatchFd w s fm) := by
  unfold dispatchFd
  split
  · exact A
  · exact dispLoop_all w s0 fm.1 fm.2 hr _ s A

theorem foldl_dispatch_all (w : Wait) (s0 : State) (l : List (Nat × Nat)) :
    ∀ s : State, (∀ fm ∈ l, fm ∈ w.ready) → PassAll w s0 s → PassAll w s0 (l.foldl (dispatchFd w) s) := by
  induction l with
  | nil => intro s _ A; exact A
  | cons fm rest ih =>
    intro s hsub A
    exact ih _ (fun x hx => hsub x (List.mem_cons_of_mem _ hx))
      (dispatchFd_all w s0 s fm (hsub fm List.mem_cons_self) A)

theorem pass_sync (s : State) (ready : List (Nat × Nat)) (h : Inv s) (hs : SyncInv s) : SyncInv (pass s ready) :=
  (foldl_dispatch_all (waitOf s ready) s ready s (fun _ hx => hx)
    ⟨h, passInv_start s ready, hs, fun hb => passSync_start s ready (hs hb), fun hb => hb⟩).sy

theorem disableAll_sync (l : List Nat) :
    ∀ s : State, Inv s → SyncInv s → SyncInv (l.foldl (fun s e => (disableEv s e).1) s) := by
  induction l with
  | nil => intro s _ hs; exact hs
  | cons e rest ih => intro s h hs; exact ih _ (disableEv_inv s e h) (hs.step h (disableEv_k s e))

theorem removeInvalid_sync (fds : List Nat) : ∀ s : State, Inv s → SyncInv s → SyncInv (removeInvalid s fds) := by
  unfold removeInvalid
  induction fds with
  | nil => intro s _ hs; exact hs
  | cons f rest ih =>
    intro s h hs
    simp only [List.foldl_cons]
    split
    · exact ih _ h hs
    · exact ih _ (disableAll_inv _ s h) (disableAll_sync _ s h hs)

theorem runScripts_sync (scs : List (List Act)) : ∀ s : State, Inv s → SyncInv s → SyncInv (runScripts s scs) := by
  unfold runScripts
  induction scs with
  | nil => intro s _ hs; exact hs
  | cons sc rest ih => intro s h hs; exact ih _ (runScript_inv sc s h) (runScript_sync sc s h hs)

theorem runScripts_mono (scs : List (List Act)) :
    ∀ s : State, Inv s → (runScripts s scs).breach = false → s.breach = false := by
  unfold runScripts
  induction scs with
  | nil => intro s _ hb; exact hb
  | cons sc rest ih => intro s h hb; exact runScript_mono sc s h (ih _ (runScript_inv sc s h) hb)

/-- the state in which the dispatch of a whole turn starts (after the timer callbacks) carries everything
the dispatch needs, for the snapshot taken at the wait -/
theorem passAll_after_timers (s : State) (tms : List (List Act)) (ready : List (Nat × Nat)) (h : Inv s) (hs : SyncInv s) :
    PassAll (waitOf s ready) s (runScripts s tms) :=
  ⟨runScripts_inv tms s h, (passInv_start s ready).step (runScripts_prov tms s), runScripts_sync tms s h hs,
   fun hb => (passSync_start s ready (hs hb)).step (passInv_start s ready) (runScripts_prov tms s),
   runScripts_mono tms s h⟩

theorem loopPass_sync (s : State) (tms : List (List Act)) (ready : List (Nat × Nat)) (nx : List (List Act))
    (h : Inv s) (hs : SyncInv s) : SyncInv (loopPass s tms ready nx) := by
  unfold loopPass
  have A := foldl_dispatch_all (waitOf s ready) s ready _ (fun _ hx => hx) (passAll_after_timers s tms ready h hs)
  exact runScripts_sync nx _ A.inv A.sy

theorem loopBadf_sync (s : State) (tms : List (List Act)) (fds : List Nat) (nx : List (List Act))
    (h : Inv s) (hs : SyncInv s) : SyncInv (loopBadf s tms fds nx) := by
  unfold loopBadf
  have h1 := runScripts_inv tms s h
  exact runScripts_sync nx _ (removeInvalid_inv fds _ h1) (removeInvalid_sync fds _ h1 (runScripts_sync tms s h hs))

theorem step_sync (s : State) (st : Step) (h : Inv s) (hs : SyncInv s) : SyncInv (step s st) := by
  cases st with
  | newEv sc =>
    exact hs.step h (KProv.of_same rfl rfl rfl rfl rfl (fun _ hc => hc))
  | api a => exact act_sync s a h hs
  | pass be r => exact pass_sync s r h hs
  | badfPass fds => exact removeInvalid_sync fds s h hs
  | loop be tms r nx => exact loopPass_sync s tms r nx h hs
  | loopLag tms r nx => exact loopPass_sync s tms r nx h hs
  | loopBadf trig tms fds nx => exact loopBadf_sync s tms fds nx h hs
  | defer nx => exact runScripts_sync nx s h hs

theorem initL_sync (L : Nat) : SyncInv (initL L) := fun _ => ⟨by simp [initL], by simp [initL], by simp [initL]⟩

theorem init_sync : SyncInv init := fun _ => ⟨by simp [init], by simp [init], by simp [init]⟩

/-- in every reachable state whose ghost flag is clear, `Sync` holds -/
theorem exec_sync (sts : List Step) :
    ∀ (s : State), Inv s → SyncInv s → ∀ s', exec s sts = some s' → SyncInv s' := by
  induction sts with
  | nil => intro s _ hs s' he; simp [exec] at he; subst he; exact hs
  | cons st rest ih =>
    intro s h hs s' he
    unfold exec at he
    split at he
    · exact ih _ (step_inv s st h) (step_sync s st h hs) s' he
    · simp at he

theorem subd_after_disable {s : State} (h : Inv s) {e f x : Nat} (hx : Subd (disableEv s e).1 f x) :
    Subd s f x ∧ x ≠ e := by
  obtain ⟨_, _, hoth, hev⟩ := disableEv_frame s e h
  by_cases hxe : x = e
  · subst hxe
    unfold Subd Holds at hx
    rw [hev] at hx
    by_cases ha : (s.evs x).alive = true
    · simp [ha] at hx
    · have : (s.evs x).alive = false := by simpa using ha
      simp [this] at hx
  · unfold Subd Holds at hx ⊢
    rw [hoth x hxe] at hx
    exact ⟨hx, hxe⟩

def NoSubs (s : State) (f : Nat) : Prop := ∀ x, ¬ Subd s f x

theorem disableAll_clears (l : List Nat) : ∀ s : State, Inv s → ∀ f, (∀ x, Subd s f x → x ∈ l) →
    NoSubs (l.foldl (fun s e => (disableEv s e).1) s) f := by
  induction l with
  | nil => intro s _ f hl x hx; exact absurd (hl x hx) (by simp)
  | cons e rest ih =>
    intro s h f hl
    apply ih _ (disableEv_inv s e h) f
    intro x hx
    obtain ⟨h1, h2⟩ := subd_after_disable h hx
    rcases List.mem_cons.1 (hl x h1) with h3 | h3
    · exact absurd h3 h2
    · exact h3

theorem disableAll_keeps (l : List Nat) : ∀ s : State, Inv s → ∀ f, NoSubs s f →
    NoSubs (l.foldl (fun s e => (disableEv s e).1) s) f := by
  induction l with
  | nil => intro s _ f hn; exact hn
  | cons e rest ih =>
    intro s h f hn
    exact ih _ (disableEv_inv s e h) f (fun x hx => hn x (subd_after_disable h hx).1)

/-- after `removeInvalidFds` no descriptor it looked at has a subscriber left -/
theorem removeInvalid_clears (fds : List Nat) : ∀ s : State, Inv s → ∀ f,
    (f ∈ fds ∨ NoSubs s f) → NoSubs (removeInvalid s fds) f := by
  unfold removeInvalid
  induction fds with
  | nil =>
    intro s _ f hf
    rcases hf with hf | hf
    · simp at hf
    · exact hf
  | cons g rest ih =>
    intro s h f hf
    simp only [List.foldl_cons]
    cases hr : s.recs g with
    | none =>
      simp only
      apply ih s h f
      rcases hf with hf | hf
      · rcases List.mem_cons.1 hf with rfl | hf
        · exact Or.inr (fun x hx => (h.norec f hr).2 x hx.1)
        · exact Or.inl hf
      · exact Or.inr hf
    | some r =>
      simp only
      apply ih _ (disableAll_inv _ s h) f
      rcases hf with hf | hf
      · rcases List.mem_cons.1 hf with rfl | hf
        · exact Or.inr (disableAll_clears r.subs s h f (fun x hx => ((h.recs f r hr).s_iff x).2 hx))
        · exact Or.inl hf
      · exact Or.inr (disableAll_keeps r.subs s h f hf)

end Tbox.C03
