/-
C03 — PROPERTY THEOREMS.  "Fd events fire only when enabled and ready; mutation in callbacks is safe."

All theorems quantify over EVERY execution of the model from `init`: any number of event objects on
any descriptors (shared or not, any masks, persistent or one-shot), any interleaving of API calls made
outside callbacks, any callback scripts (initialize/enable/disable/destroy of any other event,
disable/re-initialise of the running one, close + reopen of a descriptor number, readiness changes),
any loop passes with any ready list the kernel may hand out (`validReady`), on either back-end — a pass
being either the bare dispatch (`Step.pass`) or a WHOLE TURN of `runLoop()` (`Step.loop`: wait → callbacks
of the due timers → dispatch → batch of deferred tasks, the timer callbacks and tasks being arbitrary
scripts of the same API calls; `Step.loopBadf` for the EBADF turn of select; `Step.defer`).
`exec (initL L) sts = some s` says that `sts` is such an execution of a loop whose back-end has
`FD_SETSIZE = L` (`L = 0`: none, epoll; `initL 0 = init`).  The model is the REPAIRED code
(patches/C03-01…04); the code as found is refuted in `AsFound.lean`.
Round 4: the API calls include the run-time kernel conditions (`Act.cond`: peer closed, peer shut down, pipe ends closed;
descriptor 8 is a refused connection) and `enable()` with a refused `EPOLL_CTL_ADD` (`Act.enableF`), so every theorem
below quantifies over them as well; `validReady` is what each engine reports under hang-up / error (`reportOf`).
Round 5: … and over `Act.reborn` (delete + new event object landing on the SAME heap address: an event id is an address),
`Act.ctlL` (`enable()` / `disable()` whose `EPOLL_CTL_MOD` / `_DEL` the kernel refuses) and `Step.loopLag` (a turn in which the
kernel's table lags behind the loop's: ANY ready list, not only a `validReady` one).
-/
import TboxModel.C03.OrderIndep
import TboxModel.C03.ProofsLim
import TboxModel.C03.AsFound
import TboxModel.C03.Mask
namespace Tbox.C03

/-- **only enabled, only ready**: every callback ever made was on an event object that was alive and
enabled when `onEvent` was entered, one of its subscribed conditions was in the reported readiness,
the event belongs to the descriptor whose ready entry was being served, and the entry is one of the
current pass's ready list — whatever the callbacks did, closing descriptors under the feet of their
events included. -/
theorem C03_only_enabled_ready {L : Nat} (sts : List Step) (s : State) (he : exec (initL L) sts = some s) :
    ∀ c, Out.cb c ∈ s.log →
      c.aliveAt = true ∧ c.enabledAt = true ∧ c.meets = true ∧ c.evFd = c.dispFd ∧ c.inReady = true := by
  intro c hc
  have ok : CbOk c := (exec_inv sts (initL L) (initL_inv L) s he).log _ hc
  exact ⟨ok.alive, ok.enabled, ok.meets, ok.sameFd, ok.inReady⟩

-- OPEN (false as stated, see the counterexample below): for EVERY execution, the descriptor of a callback
-- is still the open file the kernel reported on:  ∀ c, Out.cb c ∈ s.log → c.instOk = true.
-- The loop is not told when the application closes a descriptor; an event that is still enabled on a
-- descriptor closed (and possibly reopened) earlier in the same pass is called with the readiness of the
-- old file.  No repair inside the loop can know; the contract "disable or delete the events of a
-- descriptor before closing it" is what the partial theorem assumes (ghost flag `breach`, decidable).

/-- **… on the same open file** (partial: close contract kept): as long as no descriptor was closed
while an event object still referred to it (and no descriptor number was left closed), every
callback's descriptor was still the open file the kernel had reported on — in particular a
descriptor number closed and reopened inside a callback never receives the old file's readiness. -/
theorem C03_same_open_file_partial {L : Nat} (sts : List Step) (s : State) (he : exec (initL L) sts = some s)
    (hb : s.breach = false) : ∀ c, Out.cb c ∈ s.log → c.instOk = true :=
  (exec_sync sts (initL L) (initL_inv L) (initL_sync L) s he hb).log

/-- the full statement is false of the code (and no repair is possible inside the loop): events 0 and 1
on descriptors 0 and 1, both ready; the callback of event 0 closes descriptor 1 and reopens the
number while event 1 is still enabled; event 1 is then called with the old file's readiness -/
theorem C03_same_open_file_counterexample :
    ∃ sts s, exec init sts = some s ∧ cbsWhere s (fun c => !c.instOk) = [1] :=
  ⟨[.newEv [.close 1], .newEv [], .api (.init 0 0 1 false), .api (.init 1 1 1 false), .api (.enable 0),
    .api (.enable 1), .api (.setR 0 true), .api (.setR 1 true), .pass .select [(0, 1), (1, 1)]], _, rfl,
   by decide⟩

/-- **one-shot**: a one-shot event already reports disabled when its callback starts. -/
theorem C03_oneshot_disabled_in_cb {L : Nat} (sts : List Step) (s : State) (he : exec (initL L) sts = some s) :
    ∀ c, Out.cb c ∈ s.log → c.oneshot = true → c.enabledInCb = false :=
  fun _ hc => ((exec_inv sts (initL L) (initL_inv L) s he).log _ hc).oneshot

/-- **no stale access, no exception**: no execution ever dereferences a freed shared record or a
destroyed event object, erases `end()`, or lets an exception leave the loop. -/
theorem C03_no_stale_access {L : Nat} (sts : List Step) (s : State) (he : exec (initL L) sts = some s) :
    ∀ b, Out.bad b ∉ s.log :=
  fun _ hb => (exec_inv sts (initL L) (initL_inv L) s he).log _ hb

/-- **counters and kernel interest are exact** in every reachable state: reference count = number
of event objects initialised on the descriptor, the subscriber vector is exactly the enabled ones
(no duplicates), each per-condition counter = number of subscribers with that condition, the mask
cached for epoll = the mask recomputed from the counters, and the kernel has the descriptor
registered with exactly that mask or not at all (the latter only after a close behind the loop's
back or on a closed number: with the close contract kept the kernel interest is exactly the mask); a
descriptor without record is not registered.  (Round 5: once an `EPOLL_CTL_MOD` / `_DEL` was refused - `Act.ctlL`, ghost
flag set - `kern` is the table the loop BELIEVES the kernel holds; what the kernel really holds then is kept by the trace
acceptor, and the turns are `Step.loopLag`, see `C03_any_kernel_answer_safe`.) -/
theorem C03_counts_match {L : Nat} (sts : List Step) (s : State) (he : exec (initL L) sts = some s) (f : Nat) :
    (∀ r, s.recs f = some r →
      r.ref = r.holders.length ∧ (∀ e, e ∈ r.holders ↔ Holds s f e) ∧ 0 < r.ref ∧
      r.subs.Nodup ∧ (∀ e, e ∈ r.subs ↔ Subd s f e) ∧
      r.rd = cnt s 1 r.subs ∧ r.wr = cnt s 2 r.subs ∧ r.ex = cnt s 4 r.subs ∧ r.kev = maskOf r ∧
      (s.kern f = maskOf r ∨ s.kern f = 0) ∧ (s.breach = false → s.kern f = maskOf r)) ∧
    (s.recs f = none → s.kern f = 0) := by
  have h := exec_inv sts (initL L) (initL_inv L) s he
  refine ⟨fun r hr => ?_, fun hn => (h.norec f hn).1⟩
  have ok := h.recs f r hr
  refine ⟨ok.ref_eq, ok.h_iff, ?_, ok.s_nodup, ok.s_iff, ok.rd, ok.wr, ok.ex, ok.kev, ?_, ?_⟩
  · rw [ok.ref_eq]
    cases hh : r.holders with
    | nil => exact absurd hh ok.h_ne
    | cons a l => simp
  · rw [← ok.kev]; exact ok.kor
  · intro hb
    rw [← ok.kev]
    exact ((exec_sync sts (initL L) (initL_inv L) (initL_sync L) s he hb).recs f r hr).1

/-- **EBADF is safe and does not spin**: the pass in which `select` failed with EBADF keeps the
invariant, raises nothing, and afterwards none of the closed descriptors it looked at has a
subscriber left, so the next `select` does not fail on them again. -/
theorem C03_badf_pass_safe {L : Nat} (sts : List Step) (s : State) (he : exec (initL L) sts = some s) (fds : List Nat) :
    Inv (removeInvalid s fds) ∧ (∀ b, Out.bad b ∉ (removeInvalid s fds).log) ∧
    badfTrigger (removeInvalid s fds) fds = false := by
  have h0 := exec_inv sts (initL L) (initL_inv L) s he
  have h := removeInvalid_inv fds s h0
  refine ⟨h, fun _ hb => h.log _ hb, ?_⟩
  unfold badfTrigger
  rw [List.any_eq_false]
  intro f hf
  have hc := removeInvalid_clears fds s h0 f (Or.inl hf)
  have hi : interest .select (removeInvalid s fds) f = 0 := by
    unfold interest
    cases hr : (removeInvalid s fds).recs f with
    | none => rfl
    | some r =>
      have ok := h.recs f r hr
      have hs : r.subs = [] := List.eq_nil_iff_forall_not_mem.2 (fun x hx => hc x ((ok.s_iff x).1 hx))
      exact maskOf_zero (by rw [ok.rd, hs]; rfl) (by rw [ok.wr, hs]; rfl) (by rw [ok.ex, hs]; rfl)
  simp [hi]

/-- the harness's way of deciding whether a descriptor may be closed (no event object refers to it)
is the model's (no shared record) -/
theorem C03_close_contract (s : State) (h : Inv s) (f : Nat) :
    s.recs f = none ↔ ∀ e, ¬ Holds s f e := by
  constructor
  · intro hn; exact (h.norec f hn).2
  · intro hno
    cases hr : s.recs f with
    | none => rfl
    | some r =>
      have ok := h.recs f r hr
      cases hh : r.holders with
      | nil => exact absurd hh ok.h_ne
      | cons a l => exact absurd ((ok.h_iff a).1 (by rw [hh]; exact List.mem_cons_self)) (hno a)

/-- both back-ends watch the same conditions: the epoll interest table equals what select
recomputes from the counters -/
theorem C03_interest_agree (s : State) (h : Inv s) (S : Sync s) (f : Nat) :
    interest .epoll s f = interest .select s f := by
  unfold interest
  cases hr : s.recs f with
  | none => exact (h.norec f hr).1
  | some r => exact ((S.recs f r hr).1).trans (h.recs f r hr).kev

theorem nodup_of_map_fst {l : List (Nat × Nat)} (h : (l.map (·.1)).Nodup) : l.Nodup :=
  List.Pairwise.of_map (·.1) (fun _ _ hne heq => hne (by rw [heq])) h

theorem validReady_unpack {be : Backend} {s : State} {r : List (Nat × Nat)} (h : validReady be s r = true) :
    (r.map (·.1)).Nodup ∧ ∀ fm ∈ r, fm.2 = reported be s fm.1 := by
  unfold validReady at h
  simp only [Bool.and_eq_true, decide_eq_true_eq, List.all_eq_true, bne_iff_ne, ne_eq, beq_iff_eq] at h
  exact ⟨h.1.1, fun fm hfm => (h.1.2 fm hfm).2⟩

/-- on a descriptor without hang-up / error condition both engines report the same mask -/
theorem reported_agree (s : State) (h : Inv s) (S : Sync s) (f : Nat) (hq : quietFd s f = true) :
    reported .epoll s f = reported .select s f := by
  rw [reported_quiet hq, reported_quiet hq, C03_interest_agree s h S]

/-- the same descriptors reported ready, none of them hung up or in error: the two ready lists are permutations of
each other (same masks) -/
theorem ready_lists_perm (s : State) (h : Inv s) (S : Sync s) (rE rS : List (Nat × Nat))
    (hE : validReady .epoll s rE = true) (hS : validReady .select s rS = true)
    (hsame : ∀ f, f ∈ rE.map (·.1) ↔ f ∈ rS.map (·.1)) (hq : ∀ fm ∈ rE, quietFd s fm.1 = true) : rS.Perm rE := by
  obtain ⟨ndE, mE⟩ := validReady_unpack hE
  obtain ⟨ndS, mS⟩ := validReady_unpack hS
  rw [List.perm_ext_iff_of_nodup (nodup_of_map_fst ndS) (nodup_of_map_fst ndE)]
  intro fm
  constructor
  · intro hm
    have hf : fm.1 ∈ rS.map (·.1) := List.mem_map.2 ⟨fm, hm, rfl⟩
    obtain ⟨fm', hm', hfe⟩ := List.mem_map.1 ((hsame fm.1).2 hf)
    have : fm' = fm := by
      apply Prod.ext hfe
      rw [mE fm' hm', mS fm hm, ← hfe]
      exact reported_agree s h S _ (hq fm' hm')
    rw [← this]; exact hm'
  · intro hm
    have hf : fm.1 ∈ rE.map (·.1) := List.mem_map.2 ⟨fm, hm, rfl⟩
    obtain ⟨fm', hm', hfe⟩ := List.mem_map.1 ((hsame fm.1).1 hf)
    have : fm' = fm := by
      apply Prod.ext hfe
      rw [mS fm' hm', mE fm hm, hfe]
      exact (reported_agree s h S _ (hq fm hm)).symm
    rw [← this]; exact hm'

-- OPEN (false as stated, round 4): "for any scenario whose outcome does not depend on the serving order the epoll and select
-- back-ends deliver the same callbacks" WITHOUT the hypothesis `hq` below.  On a descriptor in hang-up or error the engines hand
-- over different masks, and for error-only conditions even call different events (`C03_hup_backends_counterexample`,
-- `C03_err_backends_counterexample`, replayed on the real loops by corpus/C03/27, 28, 31): epoll reports EPOLLHUP / EPOLLERR
-- whatever was requested and the engine turns them into read / except (by design, see the comment in OnEventCallback; the dbus
-- module relies on except accompanying read/write), select folds them into readable / writable of the sets that were asked for.
-- Aligning the engines changes what existing callers receive; not a small and safe repair.  The theorems below are therefore
-- partial: extra hypothesis `quietFd` (decidable) on the ready descriptors.
-- Round 5: the statement's third sentence has NO premise that excludes these descriptors (its only premise is order independence;
-- "the same callbacks" = the same (event, mask) pairs, the observable the property names), so the divergence is a violation of the
-- statement, not a gap of the model: the trace acceptor's `cmp` judges every order-independent pass, hung up or not, and rejects
-- with the fingerprint `backends-differ-hup-err` (known finding; corpus/C03/32, 33).  `C03_report_backends_agree_iff` (Mask.lean)
-- says exactly for which interest / readiness / condition the engines still hand over the same mask;
-- `C03_err_two_subscribers_counterexample` below is the pass in which they call DIFFERENT events.

/-- **back-ends agree**: from the same consistent state, with the same descriptors reported ready — none of them hung
up or in error, where the engines report different masks by design (`C03_hup_backends_counterexample`) — a pass of the
select back-end (ascending descriptor order) and a pass of the epoll back-end (kernel order) deliver the same callbacks
(as a multiset of (event, readiness mask)), for every scenario whose outcome does not depend on the serving order. -/
theorem C03_backends_agree_partial (s : State) (h : Inv s) (S : Sync s) (rE rS : List (Nat × Nat))
    (hE : validReady .epoll s rE = true) (hS : validReady .select s rS = true)
    (hsame : ∀ f, f ∈ rE.map (·.1) ↔ f ∈ rS.map (·.1)) (hq : ∀ fm ∈ rE, quietFd s fm.1 = true) (hind : OrderIndep s rE) :
    (cbKeys (pass s rS)).Perm (cbKeys (pass s rE)) :=
  hind _ (ready_lists_perm s h S rE rS hE hS hsame hq)

/-- **a decidable criterion for order independence**: if the ready descriptors are distinct and the
scripts of all their subscribers are local (enable/disable events of the same descriptor, change
readiness through a peer; nothing is (re-)initialised, destroyed or closed), then every serving order of
the ready list yields the same callbacks. -/
theorem C03_order_indep_syn {L : Nat} (sts : List Step) (s : State) (he : exec (initL L) sts = some s) (r : List (Nat × Nat))
    (hs : OrderIndepSyn s r = true) : OrderIndep s r :=
  orderIndepSyn_sound s (exec_inv sts (initL L) (initL_inv L) s he) r hs

/-- **back-ends agree, decidable premise**: in a reachable state with the close contract kept, for a
pass that satisfies the syntactic criterion, the select back-end (ascending order) and the epoll
back-end (kernel order) deliver the same callbacks. -/
theorem C03_backends_agree_syn_partial {L : Nat} (sts : List Step) (s : State) (he : exec (initL L) sts = some s) (hb : s.breach = false)
    (rE rS : List (Nat × Nat)) (hE : validReady .epoll s rE = true) (hS : validReady .select s rS = true)
    (hsame : ∀ f, f ∈ rE.map (·.1) ↔ f ∈ rS.map (·.1)) (hq : ∀ fm ∈ rE, quietFd s fm.1 = true)
    (hsyn : OrderIndepSyn s rE = true) :
    (cbKeys (pass s rS)).Perm (cbKeys (pass s rE)) :=
  C03_backends_agree_partial s (exec_inv sts (initL L) (initL_inv L) s he) (exec_sync sts (initL L) (initL_inv L) (initL_sync L) s he hb) rE rS hE hS
    hsame hq (C03_order_indep_syn sts s he rE hsyn)

/-! ### a whole turn of `runLoop()` -/

/-- the bare dispatch is the turn in which no timer is due and no task is queued -/
theorem C03_loop_pass_is_pass (s : State) (r : List (Nat × Nat)) : loopPass s [] r [] = pass s r := rfl

/-- timer callbacks, deferred tasks and API calls never make a descriptor callback themselves: all
callbacks of a turn come from the dispatch of its ready list -/
theorem C03_scripts_make_no_callback (scs : List (List Act)) (s : State) : cbKeys (runScripts s scs) = cbKeys s :=
  cbKeys_runScripts scs s

/-- **back-ends agree over whole turns**: same state at the wait, same due timers (same callbacks in the
same order), same deferred batch, the same descriptors reported ready; if the dispatch — which starts
from the state the timer callbacks left behind, with the snapshot of the wait — satisfies the decidable
criterion, select (ascending order) and epoll (kernel order) deliver the same callbacks. -/
theorem C03_backends_agree_loop_partial {L : Nat} (sts : List Step) (s : State) (he : exec (initL L) sts = some s)
    (hb : s.breach = false) (tms nx : List (List Act)) (rE rS : List (Nat × Nat))
    (hE : validReady .epoll s rE = true) (hS : validReady .select s rS = true)
    (hsame : ∀ f, f ∈ rE.map (·.1) ↔ f ∈ rS.map (·.1)) (hq : ∀ fm ∈ rE, quietFd s fm.1 = true)
    (hsyn : OrderIndepSyn (runScripts s tms) rE = true) :
    (cbKeys (loopPass s tms rS nx)).Perm (cbKeys (loopPass s tms rE nx)) := by
  have h := exec_inv sts (initL L) (initL_inv L) s he
  have S := exec_sync sts (initL L) (initL_inv L) (initL_sync L) s he hb
  exact loopPass_order_indep s h tms nx rE hsyn rS (ready_lists_perm s h S rE rS hE hS hsame hq)

/-- **a failed wait is harmless**: after EINTR or EBADF the select loop never terminates, and the turn is
the whole turn with an empty ready list resp. the EBADF turn — whatever the timer callbacks do in between
(in particular to `errno`: patch 08); so every theorem above covers it. -/
theorem C03_failed_wait_is_a_turn (s : State) (e : WaitErr) (he : e ≠ .other) (tms nx : List (List Act)) (fds : List Nat) :
    (selectFailed s e tms fds nx = some (step s (.loop .select tms [] nx)) ∧ valid s (.loop .select tms [] nx) = true) ∨
    selectFailed s e tms fds nx = some (step s (.loopBadf fds tms fds nx)) := by
  cases e with
  | eintr => exact Or.inl ⟨rfl, by simp [valid, validReady, sortedFds]⟩
  | ebadf => exact Or.inr rfl
  | other => exact absurd rfl he

/-- **select never touches an `fd_set` out of bounds**: in every reachable state of a loop whose
back-end has `FD_SETSIZE = L`, every descriptor with a shared record — the only ones `fillFdSets`
passes to `FD_SET` and the dispatch loop passes to `FD_ISSET` — is below `L`. -/
theorem C03_select_sets_in_bounds {L : Nat} (hL : L ≠ 0) (sts : List Step) (s : State)
    (he : exec (initL L) sts = some s) (f : Nat) (hf : interest .select s f ≠ 0) : f < L := by
  have h := exec_inv sts (initL L) (initL_inv L) s he
  have hl := exec_evLim sts (initL L) (initL_inv L) (fun e hi => by simp [initL] at hi) s he
  have hlim : s.lim = L := exec_lim sts (initL L) s he
  unfold interest at hf
  cases hr : s.recs f with
  | none => simp [hr] at hf
  | some r =>
    have ok := h.recs f r hr
    cases hh : r.holders with
    | nil => exact absurd hh ok.h_ne
    | cons a l =>
      have ha : Holds s f a := (ok.h_iff a).1 (by rw [hh]; exact List.mem_cons_self)
      rcases hl a ha.2.1 with h0 | hlt
      · exact absurd (hlim ▸ h0) hL
      · rw [ha.2.2, hlim] at hlt; exact hlt

/-- … because `initialize` on such a descriptor is refused observably (returns false) and changes nothing -/
theorem C03_select_rejects_high_fd (s : State) (e f m : Nat) (o : Bool) (hL : s.lim ≠ 0) (hf : s.lim ≤ f)
    (ha : (s.evs e).alive = true) (hd : (s.evs e).enabled = false) : initEv s e f m o = (s, false) := by
  unfold initEv
  simp [ha, hd, hL, hf]

/-- the select back-end as found had no such guard (it behaved like `L = 0`): an event enabled on descriptor
1024 puts 1024 into the sets `fillFdSets` builds — `FD_SET(1024, &read_set)` writes past the `fd_set` -/
theorem C03_select_high_fd_asfound_counterexample :
    ∃ sts s, exec init sts = some s ∧ interest .select s 1024 = 1 ∧
      (exec (initL 1024) sts).map (fun s => interest .select s 1024) = some 0 :=
  ⟨[.newEv [], .api (.init 0 1024 1 false), .api (.enable 0)], _, rfl, by decide, by decide⟩

/-! ### round 4: hang-up / error conditions produced at run time -/

/-- a write-only event on descriptor 0; the harness closes the peer end -/
def hupWriter : State :=
  runSteps [.newEv [], .api (.init 0 0 2 false), .api (.enable 0), .api (.cond 0 0)]

/-- **the engines diverge on a hung-up peer**: the same write-only subscriber, the same descriptor whose peer was
closed — epoll hands it read|write (EPOLLHUP is reported whatever was requested and is turned into read), select hands
it write.  Both call the same event (one of ITS conditions is in the mask: `C03_only_enabled_ready` holds on both);
the mask handed over differs, so "the back-ends deliver the same callbacks" needs the descriptors quiet. -/
theorem C03_hup_backends_counterexample :
    validReady .epoll hupWriter [(0, 3)] = true ∧ validReady .select hupWriter [(0, 2)] = true ∧
    validReady .select hupWriter [(0, 3)] = false ∧ quietFd hupWriter 0 = false ∧
    cbKeys (pass hupWriter [(0, 3)]) = [(0, 3)] ∧ cbKeys (pass hupWriter [(0, 2)]) = [(0, 2)] := by decide

/-- **… and on an error condition even in WHO is called**: an except-only event on the write end of a pipe (descriptor 7)
whose reader is gone is called by epoll (EPOLLERR → except) and never reported by select (its except set means urgent
data only); a write-only event on that pipe when it is also full is called by select (error counts as writable) and
not by epoll, which hands `except` to an event that did not ask for it — no callback — in every turn. -/
theorem C03_err_backends_counterexample :
    let s := runSteps [.newEv [], .api (.init 0 7 4 false), .api (.enable 0), .api (.cond 7 0)]
    let t := runSteps [.newEv [], .api (.init 0 7 2 false), .api (.enable 0), .api (.setW 7 false), .api (.cond 7 0)]
    validReady .epoll s [(7, 4)] = true ∧ cbKeys (pass s [(7, 4)]) = [(0, 4)] ∧
    reported .select s 7 = 0 ∧ validReady .select s [] = true ∧
    validReady .select t [(7, 2)] = true ∧ cbKeys (pass t [(7, 2)]) = [(0, 2)] ∧
    validReady .epoll t [(7, 4)] = true ∧ cbKeys (pass t [(7, 4)]) = [] ∧
    validReady .epoll (pass t [(7, 4)]) [(7, 4)] = true := by decide

/-- **different events, not just different masks** (round 5, corpus/C03/33): an except subscriber (event 0) and a read
subscriber (event 1) on the write end of a pipe whose reader is gone.  Both engines are asked for both conditions; epoll hands
over `except`, calls event 0 and never event 1; select hands over `read`, calls event 1 and never event 0.  The pass is
order-independent (one ready descriptor, empty scripts), so this is the third sentence of the statement failing outright. -/
theorem C03_err_two_subscribers_counterexample :
    let s := runSteps [.newEv [], .newEv [], .api (.init 0 7 4 false), .api (.enable 0), .api (.init 1 7 1 false), .api (.enable 1),
                       .api (.cond 7 0)]
    validReady .epoll s [(7, 4)] = true ∧ validReady .select s [(7, 1)] = true ∧ OrderIndepSyn s [(7, 4)] = true ∧
    OrderIndepSyn s [(7, 1)] = true ∧ quietFd s 7 = false ∧
    cbKeys (pass s [(7, 4)]) = [(0, 4)] ∧ cbKeys (pass s [(7, 1)]) = [(1, 1)] := by decide

/-- what the statement does not promise and the epoll engine does not do: a write-only event on the read end of a pipe
(descriptor 6) whose writer is gone is reported in every turn (EPOLLHUP → read), nobody is called (the mask misses the
event), nothing changes — the loop spins.  Safe with respect to "only when enabled and ready"; recorded as an observation. -/
theorem C03_hup_unmet_mask_spins :
    let s := runSteps [.newEv [], .api (.init 0 6 2 false), .api (.enable 0), .api (.cond 6 0)]
    validReady .epoll s [(6, 1)] = true ∧ cbKeys (pass s [(6, 1)]) = [] ∧
    validReady .epoll (pass s [(6, 1)]) [(6, 1)] = true ∧ reported .select s 6 = 0 := by decide

/-- the run-time conditions as the kernel model has them (each line is re-measured on the real kernel by every run):
peer closed with everything read → IN|OUT|HUP; peer closed while our send buffer is full → also ERR; peer shut down its
write side → IN, no HUP; pipe read end without writer → HUP only; refused connect → IN|OUT|ERR|HUP from the start -/
theorem C03_kernel_conditions :
    let flags := fun (s : State) f => (s.readable f, s.writable f, s.err f, s.hup f)
    flags (runSteps [.api (.cond 0 0)]) 0 = (true, true, false, true) ∧
    flags (runSteps [.api (.setW 0 false), .api (.cond 0 0)]) 0 = (true, true, true, true) ∧
    flags (runSteps [.api (.cond 0 1)]) 0 = (true, true, false, false) ∧
    flags (runSteps [.api (.cond 6 0)]) 6 = (false, false, false, true) ∧
    flags (runSteps [.api (.setR 6 true), .api (.cond 6 0), .api (.setR 6 false)]) 6 = (false, false, false, true) ∧
    flags (runSteps [.api (.cond 7 0)]) 7 = (false, true, true, false) ∧
    flags init 8 = (true, true, true, true) ∧
    -- end-of-file cannot be drained, a closed peer cannot write
    flags (runSteps [.api (.cond 0 1), .api (.setR 0 false)]) 0 = (true, true, false, false) ∧
    flags (runSteps [.api (.cond 6 0), .api (.setR 6 true)]) 6 = (false, false, false, true) := by decide

/-! ### round 4: `epoll_ctl` failures -/

/-- **EEXIST cannot happen, and what the kernel holds is never more than the loop wants** (as long as no MOD / DEL is
refused: after `Act.ctlL` this is about the table the loop believes in, and EEXIST does happen - corpus/C03/37): in every reachable state —
injected ADD failures and descriptors closed behind the loop's back included — the kernel's entry for a descriptor is
exactly the mask the record caches, or nothing.  So an `EPOLL_CTL_ADD` (issued only when the cached mask is 0) never
meets an existing entry, and the kernel never reports a condition nobody wants. -/
theorem C03_ctl_kernel_within_wanted {L : Nat} (sts : List Step) (s : State) (he : exec (initL L) sts = some s) (f : Nat) :
    (∀ r, s.recs f = some r → (s.kern f = maskOf r ∨ s.kern f = 0) ∧ (r.kev = 0 → s.kern f = 0)) ∧
    (s.recs f = none → s.kern f = 0) := by
  have h := exec_inv sts (initL L) (initL_inv L) s he
  refine ⟨fun r hr => ?_, fun hn => (h.norec f hn).1⟩
  have ok := h.recs f r hr
  refine ⟨by rw [← ok.kev]; exact ok.kor, fun h0 => ?_⟩
  rcases ok.kor with hk | hk
  · rw [hk, h0]
  · exact hk

/-- **whatever the kernel answers, the first two sentences of the statement hold** (round 5: refused `EPOLL_CTL_MOD` / `_DEL`).
The loop ignores the result of every `epoll_ctl`, so after a refused MOD or DEL the kernel's table is no longer the loop's: it
reports conditions nobody wants any more, misses conditions that were added, keeps descriptors whose record is gone (a later ADD
then meets EEXIST).  None of the safety theorems needs the kernel's answer to be the right one: from a consistent state a whole
turn with ANY ready list - any descriptors, any masks, any order, even repeated - keeps the invariant, and every callback
it makes is on an event that is alive, enabled, subscribed to a reported condition of the descriptor being served, one-shot already
disabled; no stale access.  `Step.loopLag` puts such turns into the executions all theorems above quantify over. -/
theorem C03_any_kernel_answer_safe (s : State) (h : Inv s) (tms nx : List (List Act)) (ready : List (Nat × Nat)) :
    Inv (loopPass s tms ready nx) ∧ (∀ o ∈ (loopPass s tms ready nx).log, OutOk o) ∧
    step s (.loopLag tms ready nx) = loopPass s tms ready nx :=
  ⟨loopPass_inv s tms ready nx h, (loopPass_inv s tms ready nx h).log, rfl⟩

/-- **a refused MOD / DEL is not noticed**: `enable()` / `disable()` return what they return otherwise and leave the loop's
own state exactly as the plain call does (only the ghost flag records the injection) -/
theorem C03_refused_mod_del_unnoticed (s : State) (en : Bool) (e : Nat) :
    (act s (.ctlL en e)).2 = (act s (if en then .enable e else .disable e)).2 ∧
    (act s (.ctlL en e)).1 = markFault (act s (if en then .enable e else .disable e)).1 ∧
    (act s (.ctlL en e)).1.breach = true := by
  cases en <;> exact ⟨rfl, rfl, rfl⟩

/-- **the lagging kernel, concretely** (corpus/C03/37 on the real loop): event 0 (read|write) and event 1 (read) on descriptor
0; `disable()` of event 0 while the MOD is refused - the kernel keeps read|write, the loop believes read: the lagging turn
reports read|write and event 1, subscribed to read only, is called with the mask 3 (one of ITS conditions is in it); then
`disable()` of event 1 while the DEL is refused: the kernel keeps reporting the descriptor, the record is still there with no
subscriber, nobody is called.  Valid executions, the invariant holds, nothing stale. -/
theorem C03_lagging_kernel_example :
    let s := runSteps [.newEv [], .newEv [], .api (.init 0 0 3 false), .api (.init 1 0 1 false), .api (.enable 0), .api (.enable 1),
                       .api (.setR 0 true), .api (.ctlL false 0)]
    let t := step (step s (.loopLag [] [(0, 3)] [])) (.api (.ctlL false 1))
    s.kern 0 = 1 ∧ s.breach = true ∧ valid s (.loopLag [] [(0, 3)] []) = true ∧ validReady .epoll s [(0, 3)] = false ∧
    cbKeys (step s (.loopLag [] [(0, 3)] [])) = [(1, 3)] ∧
    t.kern 0 = 0 ∧ (t.recs 0).isSome = true ∧ cbKeys (step t (.loopLag [] [(0, 3)] [])) = [(1, 3)] ∧
    (step t (.loopLag [] [(0, 3)] [])).log.all (fun o => match o with | .cb c => c.aliveAt && c.enabledAt && c.meets | .bad _ => false) = true := by
  decide

/-- **`enable()` does not notice a refused ADD** (the code ignores the result of `epoll_ctl`): it returns what it returns
otherwise, and event table and shared records are exactly those of a successful `enable()` — only the kernel differs. -/
theorem C03_refused_add_unnoticed (s : State) (e : Nat) :
    (enableEvF s e).2 = (enableEv s e).2 ∧ (enableEvF s e).1.evs = (enableEv s e).1.evs ∧
    (enableEvF s e).1.recs = (enableEv s e).1.recs := by
  unfold enableEvF restoreOpen refuseAdd enableEv
  dsimp only
  split; · exact ⟨rfl, rfl, rfl⟩
  split; · exact ⟨rfl, rfl, rfl⟩
  split; · exact ⟨rfl, rfl, rfl⟩
  split
  · exact ⟨rfl, rfl, rfl⟩
  · simp [State.setEv, State.setRec, reload_snd]

/-- **a silent dead event**: after a refused ADD the event reports enabled (and `enable()` returned true), its descriptor
is readable, and epoll never reports it (no entry in the kernel); select, which has no registration, reports it.  The
failure spreads: a second event enabled on the descriptor issues a MOD, which fails with ENOENT — dead as well.  Only
when every subscriber was disabled (DEL fails, harmlessly) and one is enabled again does the ADD happen again.
Inside "fire only when enabled and ready" this is safe; it is a liveness loss the API does not report. -/
theorem C03_refused_add_dead_event :
    let s := runSteps [.newEv [], .newEv [], .api (.init 0 0 1 false), .api (.init 1 0 1 false), .api (.enableF 0), .api (.setR 0 true)]
    let s2 := (act s (.enable 1)).1
    let s3 := runScript s2 [.disable 0, .disable 1, .enable 1]
    (act (runSteps [.newEv [], .newEv [], .api (.init 0 0 1 false)]) (.enableF 0)).2 = true ∧
    (s.evs 0).enabled = true ∧ s.readable 0 = true ∧ reported .epoll s 0 = 0 ∧ validReady .epoll s [(0, 1)] = false ∧
    validReady .epoll s [] = true ∧ reported .select s 0 = 1 ∧ s.breach = true ∧
    (s2.evs 1).enabled = true ∧ reported .epoll s2 0 = 0 ∧
    reported .epoll s3 0 = 1 ∧ cbKeys (pass s3 [(0, 1)]) = [(1, 1)] := by decide

/-- the recovery in general: once the cached mask is back to 0 the next ADD that the kernel accepts registers exactly
the wanted mask -/
theorem C03_ctl_add_restores (k : Nat → Nat) (f : Nat) (r : Rec) (hk : k f = r.kev ∨ k f = 0) (h0 : r.kev = 0)
    (hn : maskOf r ≠ 0) : (reload k true f r).1 f = maskOf r := by
  have hz : k f = 0 := by rcases hk with h | h; · rw [h, h0]
                          · exact h
  unfold reload
  simp [h0, hn, hz, upd]

/-! ### round 4: state-derived inputs — "unchanged? then skip" shortcuts -/

/-- `initialize` on an enabled event is refused and changes nothing — also with the very descriptor and mask it has -/
theorem C03_init_while_enabled_refused (s : State) (e f m : Nat) (o : Bool) (ha : (s.evs e).alive = true)
    (hen : (s.evs e).enabled = true) : initEv s e f m o = (s, false) := by
  unfold initEv; simp [ha, hen]

/-- `enable()` of an enabled event changes nothing (no second subscription, no counter touched) -/
theorem C03_enable_twice (s : State) (e : Nat) (ha : (s.evs e).alive = true) (hi : (s.evs e).inited = true)
    (hen : (s.evs e).enabled = true) : enableEv s e = (s, true) := by
  unfold enableEv; simp [ha, hi, hen]

/-- re-initialising a disabled event with THE SAME descriptor and mask is not a no-op: the mode still takes effect
(a persistent event becomes one-shot) — what a "same fd, same mask → return" shortcut would lose; and the mode is
sticky the other way (as coded: `initialize` only ever sets `is_stop_after_trigger_`) -/
theorem C03_reinit_same_fd_mask_sets_mode :
    let s := runSteps [.newEv [], .api (.init 0 0 1 false), .api (.init 0 0 1 true), .api (.enable 0), .api (.setR 0 true)]
    let t := runSteps [.newEv [], .api (.init 0 0 1 true), .api (.init 0 0 1 false), .api (.enable 0), .api (.setR 0 true)]
    (s.evs 0).oneshot = true ∧ ((pass s [(0, 1)]).evs 0).enabled = false ∧
    (t.evs 0).oneshot = true ∧ ((pass t [(0, 1)]).evs 0).enabled = false := by decide

/-- **counts do not determine membership** (the seeded C03-7 pattern, generalised): events 0, 1 enabled and 2 disabled on
descriptor 0 (equal masks; event 1 one-shot), event 3 on descriptor 1.  The callback of event 0 disables 1 and enables 2:
the subscriber vector has the same length, the three counters, the reference count, the cached mask and the kernel entry
are unchanged — and event 1 must not be called (it is not), event 2 is not in the snapshot (not called in this turn).
Across descriptors the same holds for the totals. -/
def swapDemo : State :=
  runSteps [.newEv [.disable 1, .enable 2], .newEv [], .newEv [], .newEv [],
            .api (.init 0 0 1 false), .api (.init 1 0 1 true), .api (.init 2 0 1 false), .api (.init 3 1 1 false),
            .api (.enable 0), .api (.enable 1), .api (.enable 3), .api (.setR 0 true)]
/-- everything a "same size / same count → unchanged" shortcut could look at -/
def recSig (u : State) (f : Nat) : Option (List Nat) :=
  (u.recs f).map fun r => [r.subs.length, r.rd, r.wr, r.ex, r.ref, r.kev, u.kern f]

theorem C03_swap_keeps_counts :
    recSig swapDemo 0 = recSig (pass swapDemo [(0, 1)]) 0 ∧ (swapDemo.recs 0).map (·.subs) = some [0, 1] ∧
    ((pass swapDemo [(0, 1)]).recs 0).map (·.subs) = some [0, 2] ∧
    cbKeys (pass swapDemo [(0, 1)]) = [(0, 1)] ∧ ((pass swapDemo [(0, 1)]).evs 1).enabled = false := by
  refine ⟨?_, ?_, ?_, ?_, ?_⟩ <;> decide

/-- **an event object reborn at the same address is a fresh object**: in every state satisfying the invariant, after
`delete e` + `new` landing on the address of `e`, the object is alive, holds no descriptor, is disabled, and NO subscriber
vector contains its address - so the address comparison of the dispatch ("still subscribed?") can only find it again after
the new object itself was initialised and enabled on the very descriptor that is being served. -/
theorem C03_reborn_is_fresh (s : State) (h : Inv s) (e : Nat) (ha : (s.evs e).alive = true) :
    let t := (rebornEv s e).1
    (t.evs e).alive = true ∧ (t.evs e).inited = false ∧ (t.evs e).enabled = false ∧ (t.evs e).script = (s.evs e).script ∧
    (∀ f r, t.recs f = some r → e ∉ r.subs ∧ e ∉ r.holders) ∧ Inv t := by
  intro t
  have hi : Inv t := rebornEv_inv s e h
  have hal : (t.evs e).alive = true := by simp [t, rebornEv, ha, State.setEv]
  have hsc : (t.evs e).script = (s.evs e).script := by
    simp only [t, rebornEv, ha, Bool.not_true, Bool.false_eq_true, ↓reduceIte, State.setEv]
    simp only [destroyEv, ha, Bool.not_true, Bool.false_eq_true, ↓reduceIte, State.setEv]
    split <;> simp [detach, State.setEv, (disableEv_frame s e h).2.2.2, ha]
  have hd := destroyEv_dead s e ha
  have h2 := destroyEv_inv s e h
  have hin : (t.evs e).inited = false := by
    have : (t.evs e).inited = (((destroyEv s e).1).evs e).inited := by simp [t, rebornEv, ha, State.setEv]
    rw [this]
    cases hq : (((destroyEv s e).1).evs e).inited with
    | false => rfl
    | true => have := (h2.evs e).2 hq; simp [hd] at this
  have hen : (t.evs e).enabled = false := by
    cases hq : (t.evs e).enabled with
    | false => rfl
    | true => have := (hi.evs e).1 hq; simp [hin] at this
  refine ⟨hal, hin, hen, hsc, fun f r hr => ⟨fun hm => ?_, fun hm => ?_⟩, hi⟩
  · have := ((hi.recs f r hr).s_iff e).1 hm
    simp [Subd, hen] at this
  · have := ((hi.recs f r hr).h_iff e).1 hm
    simp [Holds, hin] at this

/-- **heap-address ABA of event objects** (round 5; replayed on the real loops by corpus/C03/34, 35 with an allocator that
reuses the freed block).  Events 0 and 1 are enabled on the readable descriptor 0; the callback of event 0 deletes event 1,
creates a new event object that lands on the same address, initialises it and enables it.  (a) on the SAME descriptor with
a condition that is reported: the dispatch finds the address subscribed again and calls the NEW object for the readiness
reported before it existed - it is alive, enabled and subscribed to a reported condition of its (level-triggered) descriptor,
which is all the statement asks (`C03_only_enabled_ready` covers it: the flags of the logged callback are all true);
(b) with a mask that misses the report, (c) on ANOTHER descriptor, (d) left disabled: not called.  Never a stale access. -/
def abaDemo (after : List Act) : State :=
  runSteps [.newEv (.reborn 1 :: after), .newEv [], .api (.init 0 0 1 false), .api (.init 1 0 1 false),
            .api (.enable 0), .api (.enable 1), .api (.setR 0 true), .api (.setR 1 true)]

theorem C03_event_address_aba :
    let a := pass (abaDemo [.init 1 0 3 true, .enable 1]) [(0, 1)]
    cbKeys a = [(1, 1), (0, 1)] ∧
    (a.log.all fun o => match o with
      | .cb c => c.aliveAt && c.enabledAt && c.meets && c.inReady && (c.e != 1 || (c.oneshot && !c.enabledInCb))
      | .bad _ => false) = true ∧
    cbKeys (pass (abaDemo [.init 1 0 2 false, .enable 1]) [(0, 1)]) = [(0, 1)] ∧
    cbKeys (pass (abaDemo [.init 1 1 1 false, .enable 1]) [(0, 1)]) = [(0, 1)] ∧
    cbKeys (pass (abaDemo [.init 1 0 1 false]) [(0, 1)]) = [(0, 1)] ∧
    cbKeys (pass (abaDemo []) [(0, 1)]) = [(0, 1)] ∧
    -- without the reuse of the address (plain delete, a NEW id for the new object) nobody else is called
    cbKeys (pass (runSteps [.newEv [.destroy 1, .init 2 0 1 false, .enable 2], .newEv [], .newEv [], .api (.init 0 0 1 false),
      .api (.init 1 0 1 false), .api (.enable 0), .api (.enable 1), .api (.setR 0 true)]) [(0, 1)]) = [(0, 1)] := by
  refine ⟨by decide, by decide, by decide, by decide, by decide, by decide, by decide⟩

/-- **ABA through the object pool**: the callback of event 0 (descriptor 0) deletes the only event of the ready descriptor 1
— its record goes back to the pool — and initialises + enables a spare event on descriptor 2: the new record lands in THE
SAME pool block; the stale ready entry of descriptor 1 is then served by fd lookup and finds no record (no callback, no
access to the reused block), descriptor 2 is not in this turn's ready list.  Same number of records, same block. -/
theorem C03_pool_block_aba :
    let s := runSteps [.newEv [.destroy 1, .init 2 2 1 false, .enable 2], .newEv [], .newEv [],
                       .api (.init 0 0 1 false), .api (.init 1 1 1 false), .api (.enable 0), .api (.enable 1),
                       .api (.setR 0 true), .api (.setR 1 true), .api (.setR 2 true)]
    let t := pass s [(0, 1), (1, 1)]
    (s.recs 1).map (·.block) = (t.recs 2).map (·.block) ∧ (s.recs 1).isSome = true ∧ t.recs 1 = none ∧
    cbKeys t = [(0, 1)] ∧ (∀ b, Out.bad b ∉ t.log) := by
  refine ⟨by decide, by decide, by decide, by decide, ?_⟩
  intro b hb
  revert hb
  cases b <;> decide

/-! ### non-vacuity: concrete executions that satisfy the hypotheses -/

/-- two descriptors ready in one pass; the callback of the first destroys the only event of the second,
closes and reopens that descriptor number and puts a fresh event on it -/
def demo : List Step :=
  [.newEv [.destroy 1, .close 1, .init 2 1 1 false, .enable 2], .newEv [], .newEv [],
   .api (.init 0 0 1 false), .api (.init 1 1 1 false), .api (.enable 0), .api (.enable 1),
   .api (.setR 0 true), .api (.setR 1 true), .pass .select [(0, 1), (1, 1)]]

example : (exec init demo).isSome = true := by decide
/-- exactly one callback (event 0); the stale readiness of descriptor 1 reaches nobody -/
example : (exec init demo).map cbKeys = some [(0, 1)] := by decide
/-- a ready list that claims a condition nobody subscribed is not a kernel behaviour -/
example : (exec init (demo.take 9 ++ [.pass .select [(0, 3)]])).isSome = false := by decide
/-- select serves in ascending order -/
example : (exec init (demo.take 9 ++ [.pass .select [(1, 1), (0, 1)]])).isSome = false := by decide
example : (exec init (demo.take 9 ++ [.pass .epoll [(1, 1), (0, 1)]])).isSome = true := by decide

/-- order independence is satisfiable: trivially for one ready descriptor … -/
example : OrderIndep (twoFds []) [(0, 1)] := by
  intro r' hp; rw [List.perm_singleton.1 hp]
/-- … and, for two ready descriptors whose callbacks leave each other alone, both serving orders give
the same callbacks (in a different sequence) -/
def quiet : State :=
  runSteps [.newEv [.setR 0 false], .newEv [.disable 1], .api (.init 0 0 1 false), .api (.init 1 1 3 true),
            .api (.enable 0), .api (.enable 1), .api (.setR 0 true), .api (.setR 1 true)]
example : validReady .select quiet [(0, 1), (1, 3)] = true ∧ validReady .epoll quiet [(1, 3), (0, 1)] = true ∧
    cbKeys (pass quiet [(0, 1), (1, 3)]) = [(1, 3), (0, 1)] ∧
    cbKeys (pass quiet [(1, 3), (0, 1)]) = [(0, 1), (1, 3)] := by decide
/-- whereas with cross-descriptor destruction the order matters (so the hypothesis is needed) -/
example : cbKeys (pass (twoFds []) [(0, 1), (1, 1)]) = [(0, 1)] ∧
    cbKeys (pass (twoFds []) [(1, 1), (0, 1)]) = [(0, 1), (1, 1)] := by decide

/-- the criterion holds for `quiet` and fails as soon as a callback destroys an event of another descriptor -/
example : OrderIndepSyn quiet [(1, 3), (0, 1)] = true ∧ OrderIndepSyn (twoFds []) [(0, 1), (1, 1)] = false := by decide

/-- the seeded scenario as an execution: a timer due in the same turn as the ready descriptor 0 destroys
its last event, closes it, reopens the number and enables a fresh event: a valid execution with the
close contract kept, and no callback at all -/
def demoTimer : List Step :=
  [.newEv [], .newEv [], .api (.init 0 0 1 false), .api (.enable 0), .api (.setR 0 true),
   .loop .epoll [reuseScript] [(0, 1)] [[.init 0 0 1 false]]]
example : (exec init demoTimer).map (fun s => (cbKeys s, s.breach)) = some ([], false) := by decide
/-- without the timer the event is called -/
example : (exec init (demoTimer.take 5 ++ [.loop .select [] [(0, 1)] []])).map cbKeys = some [(0, 1)] := by decide
/-- an EBADF turn whose timer callback closes the watched descriptor is NOT what the kernel does (the
trigger is evaluated at the wait); with the descriptor closed before the wait it is -/
example : (exec init (demoTimer.take 5 ++ [.loopBadf [0] [[.kill 0]] [0] []])).isSome = false := by decide
example : (exec init (demoTimer.take 5 ++ [.api (.kill 0), .loopBadf [0] [[.post 3]] [0] [[.close 0]]])).isSome = true := by decide
/-- the select limit: descriptor 1023 is accepted, 1024 refused -/
example : (exec (initL 1024) [.newEv [], .api (.init 0 1023 1 false), .api (.enable 0)]).map
    (fun s => interest .select s 1023) = some 1 := by decide

/-- round 4: the premises of the agreement theorems are satisfiable (all ready descriptors quiet), and a hung-up one is not -/
example : (∀ fm ∈ [(1, 3), (0, 1)], quietFd quiet fm.1 = true) ∧ quietFd hupWriter 0 = false := by decide
/-- an execution with run-time conditions and a refused ADD is an execution like any other: the theorems above cover it -/
example : (exec init [.newEv [.cond 1 0, .enableF 1], .newEv [], .api (.init 0 0 1 false), .api (.init 1 1 2 true), .api (.enable 0),
    .api (.setR 0 true), .api (.setW 1 false), .loop .epoll [] [(0, 1)] [], .api (.disable 1), .api (.enable 1),
    .loop .epoll [] [(0, 1), (1, 7)] []]).map cbKeys = some [(1, 7), (0, 1), (0, 1)] := by decide
/-- premises of `C03_ctl_add_restores`, `C03_init_while_enabled_refused`, `C03_enable_twice` -/
example : ∃ (k : Nat → Nat) (r : Rec), (k 0 = r.kev ∨ k 0 = 0) ∧ r.kev = 0 ∧ maskOf r ≠ 0 :=
  ⟨fun _ => 0, { rd := 1 }, Or.inl rfl, rfl, by decide⟩
example : (quiet.evs 0).alive = true ∧ (quiet.evs 0).inited = true ∧ (quiet.evs 0).enabled = true := by decide

-- OPEN (round 3: looked at, not closed): a wider criterion that also admits initialize/destroy/close confined to
-- one ready descriptor's own events and numbers.  `SimF`/`Frame` (OrderIndep.lean) compare records with `=`;
-- once a callback may free and re-create the record of its own descriptor, the two serving orders produce
-- records that differ in `serial`, `block` and `inst`, and event tables that differ in `nEv`-independent but
-- order-dependent pool state — the simulation has to be restated up to a renaming of stamps and blocks (and
-- `findRec`'s `serial ≤ w.serial` test needs "created in this pass" as an order-independent notion).  The
-- dynamic comparison (`cmp`) reports such passes as `cmp-order-dependent` and claims nothing for them.

end Tbox.C03
