/-
C03 — PROPERTY THEOREMS.  "Fd events fire only when enabled and ready; mutation in callbacks is safe."

All theorems quantify over EVERY execution of the model from `init`: any number of event objects on
any descriptors (shared or not, any masks, persistent or one-shot), any interleaving of API calls made
outside callbacks, any callback scripts (initialize/enable/disable/destroy of any other event,
disable/re-initialise of the running one, close + reopen of a descriptor number, readiness changes),
any loop passes with any ready list the kernel may hand out (`validReady`), on either back-end.
`exec init sts = some s` says that `sts` is such an execution.  The model is the REPAIRED code
(patches/C03-01…04); the code as found is refuted in `AsFound.lean`.
-/
import TboxModel.C03.Proofs
import TboxModel.C03.AsFound
namespace Tbox.C03

/-- **only enabled, only ready**: every callback ever made was on an event object that was alive and
enabled when `onEvent` was entered, one of its subscribed conditions was in the reported readiness,
the event belongs to the descriptor whose ready entry was being served, that descriptor was still
the same open file the kernel reported on (not a reused number), and the entry is one of the
current pass's ready list. -/
theorem C03_only_enabled_ready (sts : List Step) (s : State) (he : exec init sts = some s) :
    ∀ c, Out.cb c ∈ s.log →
      c.aliveAt = true ∧ c.enabledAt = true ∧ c.meets = true ∧ c.evFd = c.dispFd ∧ c.instOk = true ∧
      c.inReady = true := by
  intro c hc
  have ok : CbOk c := (exec_inv sts init init_inv s he).log _ hc
  exact ⟨ok.alive, ok.enabled, ok.meets, ok.sameFd, ok.instOk, ok.inReady⟩

/-- **one-shot**: a one-shot event already reports disabled when its callback starts. -/
theorem C03_oneshot_disabled_in_cb (sts : List Step) (s : State) (he : exec init sts = some s) :
    ∀ c, Out.cb c ∈ s.log → c.oneshot = true → c.enabledInCb = false :=
  fun _ hc => ((exec_inv sts init init_inv s he).log _ hc).oneshot

/-- **no stale access, no exception**: no execution ever dereferences a freed shared record or a
destroyed event object, erases `end()`, or lets an exception leave the loop. -/
theorem C03_no_stale_access (sts : List Step) (s : State) (he : exec init sts = some s) :
    ∀ b, Out.bad b ∉ s.log :=
  fun _ hb => (exec_inv sts init init_inv s he).log _ hb

/-- **counters and kernel interest are exact** in every reachable state: reference count = number
of event objects initialised on the descriptor, the subscriber vector is exactly the enabled ones
(no duplicates), each per-condition counter = number of subscribers with that condition, the kernel's
epoll interest = the mask recomputed from the counters; a descriptor without record is not
registered. -/
theorem C03_counts_match (sts : List Step) (s : State) (he : exec init sts = some s) (f : Nat) :
    (∀ r, s.recs f = some r →
      r.ref = r.holders.length ∧ (∀ e, e ∈ r.holders ↔ Holds s f e) ∧ 0 < r.ref ∧
      r.subs.Nodup ∧ (∀ e, e ∈ r.subs ↔ Subd s f e) ∧
      r.rd = cnt s 1 r.subs ∧ r.wr = cnt s 2 r.subs ∧ r.ex = cnt s 4 r.subs ∧ s.kern f = maskOf r) ∧
    (s.recs f = none → s.kern f = 0) := by
  have h := exec_inv sts init init_inv s he
  refine ⟨fun r hr => ?_, fun hn => (h.norec f hn).1⟩
  have ok := h.recs f r hr
  refine ⟨ok.ref_eq, ok.h_iff, ?_, ok.s_nodup, ok.s_iff, ok.rd, ok.wr, ok.ex, ok.kern.trans ok.kev⟩
  rw [ok.ref_eq]
  cases hh : r.holders with
  | nil => exact absurd hh ok.h_ne
  | cons a l => simp

/-- the harness's way of deciding whether a descriptor may be closed (no event object refers to it)
is the model's (no shared record) -/
theorem C03_close_contract (s : State) (h : Inv s) (f : Nat) :
    s.recs f = none ↔ ∀ e, ¬ Holds s f e := by
  constructor
  · intro hn; exact (h.norec f hn).2
  · intro hno
    cases hr : s.recs f with
    | none => rfl
    | some r =>
      have ok := h.recs f r hr
      cases hh : r.holders with
      | nil => exact absurd hh ok.h_ne
      | cons a l => exact absurd ((ok.h_iff a).1 (by rw [hh]; exact List.mem_cons_self)) (hno a)

/-- both back-ends watch the same conditions: the epoll interest table equals what select
recomputes from the counters -/
theorem C03_interest_agree (s : State) (h : Inv s) (f : Nat) : interest .epoll s f = interest .select s f := by
  unfold interest
  cases hr : s.recs f with
  | none => exact (h.norec f hr).1
  | some r => exact ((h.recs f r hr).kern).trans (h.recs f r hr).kev

def cbKeys (s : State) : List (Nat × Nat) :=
  s.log.filterMap fun o => match o with | .cb c => some (c.e, c.m) | _ => none

/-- the outcome of a pass does not depend on the order in which ready descriptors are served -/
def OrderIndep (s : State) (r : List (Nat × Nat)) : Prop :=
  ∀ r', r'.Perm r → (cbKeys (pass s r')).Perm (cbKeys (pass s r))

theorem nodup_of_map_fst {l : List (Nat × Nat)} (h : (l.map (·.1)).Nodup) : l.Nodup :=
  List.Pairwise.of_map (·.1) (fun _ _ hne heq => hne (by rw [heq])) h

theorem validReady_unpack {be : Backend} {s : State} {r : List (Nat × Nat)} (h : validReady be s r = true) :
    (r.map (·.1)).Nodup ∧ ∀ fm ∈ r, fm.2 = interest be s fm.1 &&& actualMask s fm.1 := by
  unfold validReady at h
  simp only [Bool.and_eq_true, decide_eq_true_eq, List.all_eq_true, bne_iff_ne, ne_eq, beq_iff_eq] at h
  exact ⟨h.1.1, fun fm hfm => (h.1.2 fm hfm).2⟩

/-- **back-ends agree**: from the same consistent state, with the same descriptors reported ready,
a pass of the select back-end (ascending descriptor order) and a pass of the epoll back-end (kernel
order) deliver the same callbacks (as a multiset of (event, readiness mask)), for every scenario whose
outcome does not depend on the serving order. -/
theorem C03_backends_agree (s : State) (h : Inv s) (rE rS : List (Nat × Nat))
    (hE : validReady .epoll s rE = true) (hS : validReady .select s rS = true)
    (hsame : ∀ f, f ∈ rE.map (·.1) ↔ f ∈ rS.map (·.1)) (hind : OrderIndep s rE) :
    (cbKeys (pass s rS)).Perm (cbKeys (pass s rE)) := by
  apply hind
  obtain ⟨ndE, mE⟩ := validReady_unpack hE
  obtain ⟨ndS, mS⟩ := validReady_unpack hS
  rw [List.perm_ext_iff_of_nodup (nodup_of_map_fst ndS) (nodup_of_map_fst ndE)]
  intro fm
  constructor
  · intro hm
    have hf : fm.1 ∈ rS.map (·.1) := List.mem_map.2 ⟨fm, hm, rfl⟩
    obtain ⟨fm', hm', hfe⟩ := List.mem_map.1 ((hsame fm.1).2 hf)
    have : fm' = fm := by
      apply Prod.ext hfe
      rw [mE fm' hm', mS fm hm, C03_interest_agree s h, hfe]
    rw [← this]; exact hm'
  · intro hm
    have hf : fm.1 ∈ rE.map (·.1) := List.mem_map.2 ⟨fm, hm, rfl⟩
    obtain ⟨fm', hm', hfe⟩ := List.mem_map.1 ((hsame fm.1).1 hf)
    have : fm' = fm := by
      apply Prod.ext hfe
      rw [mS fm' hm', mE fm hm, C03_interest_agree s h, hfe]
    rw [← this]; exact hm'

/-! ### non-vacuity: concrete executions that satisfy the hypotheses -/

/-- two descriptors ready in one pass; the callback of the first destroys the only event of the second,
closes and reopens that descriptor number and puts a fresh event on it -/
def demo : List Step :=
  [.newEv [.destroy 1, .close 1, .init 2 1 1 false, .enable 2], .newEv [], .newEv [],
   .api (.init 0 0 1 false), .api (.init 1 1 1 false), .api (.enable 0), .api (.enable 1),
   .api (.setR 0 true), .api (.setR 1 true), .pass .select [(0, 1), (1, 1)]]

example : (exec init demo).isSome = true := by decide
/-- exactly one callback (event 0); the stale readiness of descriptor 1 reaches nobody -/
example : (exec init demo).map cbKeys = some [(0, 1)] := by decide
/-- a ready list that claims a condition nobody subscribed is not a kernel behaviour -/
example : (exec init (demo.take 9 ++ [.pass .select [(0, 3)]])).isSome = false := by decide
/-- select serves in ascending order -/
example : (exec init (demo.take 9 ++ [.pass .select [(1, 1), (0, 1)]])).isSome = false := by decide
example : (exec init (demo.take 9 ++ [.pass .epoll [(1, 1), (0, 1)]])).isSome = true := by decide

/-- order independence is satisfiable: trivially for one ready descriptor … -/
example : OrderIndep (twoFds []) [(0, 1)] := by
  intro r' hp; rw [List.perm_singleton.1 hp]
/-- … and, for two ready descriptors whose callbacks leave each other alone, both serving orders give
the same callbacks (in a different sequence) -/
def quiet : State :=
  runSteps [.newEv [.setR 0 false], .newEv [.disable 1], .api (.init 0 0 1 false), .api (.init 1 1 3 true),
            .api (.enable 0), .api (.enable 1), .api (.setR 0 true), .api (.setR 1 true)]
example : validReady .select quiet [(0, 1), (1, 3)] = true ∧ validReady .epoll quiet [(1, 3), (0, 1)] = true ∧
    cbKeys (pass quiet [(0, 1), (1, 3)]) = [(1, 3), (0, 1)] ∧
    cbKeys (pass quiet [(1, 3), (0, 1)]) = [(0, 1), (1, 3)] := by decide
/-- whereas with cross-descriptor destruction the order matters (so the hypothesis is needed) -/
example : cbKeys (pass (twoFds []) [(0, 1), (1, 1)]) = [(0, 1)] ∧
    cbKeys (pass (twoFds []) [(1, 1), (0, 1)]) = [(0, 1), (1, 1)] := by decide

-- OPEN (not attempted): a syntactic, decidable sufficient condition for `OrderIndep` (e.g. every script of a
-- subscriber of a ready descriptor only touches events of its own descriptor) with a commutation proof.

end Tbox.C03
