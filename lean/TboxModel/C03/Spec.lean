/-
C03 — what the property demands, as predicates over the model (executable where possible).

`Holds s f e`  : event object `e` exists and is initialised on descriptor `f` (it owns a reference
                 to the shared record of `f`);
`Subd s f e`   : … and is enabled (it must be in the subscriber vector of that record);
`RecOk`        : a shared record is exactly what its events say: reference count = number of
                 holders, subscriber vector = enabled holders (no duplicates), per-condition counters
                 = number of subscribers with that condition, cached and kernel interest = the
                 mask recomputed from the counters;
`CbOk`         : a callback was legitimate;
`Inv`          : the inductive invariant of all reachable states.
-/
import TboxModel.C03.Model
namespace Tbox.C03

def Holds (s : State) (f e : Nat) : Prop :=
  (s.evs e).alive = true ∧ (s.evs e).inited = true ∧ (s.evs e).fd = f

def Subd (s : State) (f e : Nat) : Prop :=
  Holds s f e ∧ (s.evs e).enabled = true

/-- number of events of `l` subscribed to condition `b` (1 read, 2 write, 4 except) -/
def cnt (s : State) (b : Nat) (l : List Nat) : Nat := l.countP (fun e => hasBit (s.evs e).mask b)

structure RecOk (s : State) (f : Nat) (r : Rec) : Prop where
  ref_eq  : r.ref = r.holders.length
  h_nodup : r.holders.Nodup
  h_iff   : ∀ e, e ∈ r.holders ↔ Holds s f e
  h_ne    : r.holders ≠ []
  s_nodup : r.subs.Nodup
  s_iff   : ∀ e, e ∈ r.subs ↔ Subd s f e
  rd      : r.rd = cnt s 1 r.subs
  wr      : r.wr = cnt s 2 r.subs
  ex      : r.ex = cnt s 4 r.subs
  kev     : r.kev = maskOf r
  kor     : s.kern f = r.kev ∨ s.kern f = 0     -- registered with exactly the cached mask, or not registered
  ser     : r.serial ≤ s.serial

/-- a logged callback is legitimate: the event was alive and enabled when `onEvent` was entered, one
of its conditions was reported, it belongs to the descriptor whose ready entry is being served, the
entry is one of this pass's ready list, and a one-shot event already reports disabled inside its
callback.  (That the descriptor is still the open file the kernel reported on is `Sync.log`.) -/
structure CbOk (c : Cb) : Prop where
  alive    : c.aliveAt = true
  enabled  : c.enabledAt = true
  meets    : c.meets = true
  sameFd   : c.evFd = c.dispFd
  inReady  : c.inReady = true
  oneshot  : c.oneshot = true → c.enabledInCb = false

def OutOk : Out → Prop
  | .cb c => CbOk c
  | .bad _ => False

/-- what holds as long as no descriptor was closed behind the back of an event object that still
referred to it, and no descriptor number was left closed (`breach = false`): every record stands for the current open file of its descriptor,
the kernel's epoll interest is exactly the cached mask, and every callback made so far was on a
descriptor that was still the open file the kernel had reported on -/
structure Sync (s : State) : Prop where
  recs : ∀ f r, s.recs f = some r → s.kern f = r.kev ∧ r.inst = s.gen f
  isOpen : ∀ f, s.isOpen f = true
  log  : ∀ c, Out.cb c ∈ s.log → c.instOk = true

structure Inv (s : State) : Prop where
  recs  : ∀ f r, s.recs f = some r → RecOk s f r
  norec : ∀ f, s.recs f = none → s.kern f = 0 ∧ ∀ e, ¬ Holds s f e
  evs   : ∀ e, ((s.evs e).enabled = true → (s.evs e).inited = true) ∧
               ((s.evs e).inited = true → (s.evs e).alive = true)
  fresh : ∀ e, s.nEv ≤ e → (s.evs e).alive = false
  log   : ∀ o ∈ s.log, OutOk o

/-- between the moment the wait returned (`w`) and now the creation counter only grew -/
structure PassInv (w : Wait) (s : State) : Prop where
  ser  : w.serial ≤ s.serial

/-- every record that already existed when the wait returned still stands for the open file it stood
for then -/
def PassSync (w : Wait) (s : State) : Prop :=
  ∀ f r, s.recs f = some r → r.serial ≤ w.serial → r.inst = w.gen f

/-- `Sync` as an invariant: it holds as long as the ghost flag is clear -/
def SyncInv (s : State) : Prop := s.breach = false → Sync s

end Tbox.C03
