/- C04 — lemmas about the containers of the model (association-list map, list-as-set, function update)
   and the field-by-field effect of `subscribe` / `unsubscribe`. -/
import TboxModel.C04.Model
namespace Tbox.C04

@[simp] theorem upd_apply {β : Type} (f : Nat → β) (k : Nat) (v : β) (i : Nat) :
    upd f k v i = if i = k then v else f i := rfl

theorem mem_ins {x y : Nat} {l : List Nat} : y ∈ ins x l ↔ y = x ∨ y ∈ l := by
  unfold ins; split
  · constructor
    · exact Or.inr
    · rintro (rfl | h) <;> assumption
  · simp

theorem mem_del {x y : Nat} {l : List Nat} : y ∈ del x l ↔ y ∈ l ∧ y ≠ x := by
  unfold del; simp

theorem ins_ne_nil (x : Nat) (l : List Nat) : ins x l ≠ [] := by
  intro h
  have : x ∈ ins x l := mem_ins.2 (Or.inl rfl)
  rw [h] at this; cases this

theorem nodup_ins {x : Nat} {l : List Nat} (h : l.Nodup) : (ins x l).Nodup := by
  unfold ins; split
  · exact h
  · exact List.nodup_cons.2 ⟨‹_›, h⟩

theorem nodup_del {x : Nat} {l : List Nat} (h : l.Nodup) : (del x l).Nodup := by
  unfold del; exact h.filter _

theorem ne_nil_iff_exists_mem {l : List Nat} : l ≠ [] ↔ ∃ x, x ∈ l := by
  cases l with
  | nil => simp
  | cons a t => simp

theorem del_eq_nil_iff {x : Nat} {l : List Nat} : del x l = [] ↔ ∀ y ∈ l, y = x := by
  unfold del
  rw [List.filter_eq_nil_iff]
  simp

namespace Map
variable {α : Type}

theorem find_erase (m : Map α) (k k' : Nat) :
    (erase m k).find k' = if k' = k then none else m.find k' := by
  induction m with
  | nil => simp [erase, find]
  | cons p r ih =>
    obtain ⟨a, v⟩ := p
    unfold erase at ih ⊢
    by_cases hak : a = k
    · subst hak
      simp only [List.filter_cons, bne_self_eq_false, Bool.false_eq_true, ↓reduceIte, ih, find]
      by_cases h : k' = a
      · simp [h]
      · have : ¬ a = k' := fun h' => h h'.symm
        simp [h, this]
    · have : (a != k) = true := by simp [hak]
      simp only [List.filter_cons, this, ↓reduceIte, find, ih]
      by_cases h : k' = k
      · subst h; simp [hak]
      · simp [h]

theorem find_set (m : Map α) (k : Nat) (v : α) (k' : Nat) :
    (set m k v).find k' = if k' = k then some v else m.find k' := by
  unfold set
  simp only [find, find_erase]
  by_cases h : k' = k
  · subst h; simp
  · have : ¬ k = k' := fun h' => h h'.symm
    simp [h, this]

theorem eq_nil_iff (m : Map α) : m = [] ↔ ∀ k, m.find k = none := by
  constructor
  · rintro rfl k; rfl
  · intro h
    cases m with
    | nil => rfl
    | cons p r =>
      obtain ⟨a, v⟩ := p
      have := h a
      simp [find] at this

theorem set_ne_nil (m : Map α) (k : Nat) (v : α) : set m k v ≠ [] := by simp [set]

end Map

/-! ### what `subscribe` does, field by field -/

theorem subscribe_subs (s : State) (l g e : Nat) :
    (subscribe s l g e).subs = upd s.subs l ((s.subs l).set g (ins e (subsOf s l g))) := by
  unfold subscribe; simp only; split
  · split <;> rfl
  · rfl

theorem subscribe_evs (s : State) (l g e : Nat) : (subscribe s l g e).evs = s.evs := by
  unfold subscribe; simp only; split
  · split <;> rfl
  · rfl

theorem subscribe_nEv (s : State) (l g e : Nat) : (subscribe s l g e).nEv = s.nEv := by
  unfold subscribe; simp only; split
  · split <;> rfl
  · rfl

theorem subscribe_cbs (s : State) (l g e : Nat) : (subscribe s l g e).cbs = s.cbs := by
  unfold subscribe; simp only; split
  · split <;> rfl
  · rfl

theorem subscribe_calls (s : State) (l g e : Nat) : (subscribe s l g e).calls = s.calls := by
  unfold subscribe; simp only; split
  · split <;> rfl
  · rfl

theorem subscribe_hasPipe (s : State) (l g e : Nat) : (subscribe s l g e).hasPipe = upd s.hasPipe l true := by
  unfold subscribe; simp only; split
  · split <;> rfl
  · rfl

theorem subscribe_pipe (s : State) (l g e : Nat) :
    (subscribe s l g e).pipe = if s.hasPipe l then s.pipe else upd s.pipe l [] := by
  unfold subscribe; simp only; split
  · split <;> rfl
  · rfl

theorem subscribe_ctxs (s : State) (l g e : Nat) :
    (subscribe s l g e).ctxs =
      if subsOf s l g = [] then
        upd s.ctxs g (some { fds := ins l (fdsOf s g), old := if fdsOf s g = [] then s.os g else (ctxOf s g).old })
      else s.ctxs := by
  unfold subscribe fdsOf; simp only [List.isEmpty_iff]; split
  · split
    · rename_i h; simp [h]
    · rename_i h; simp [h]
  · rfl

theorem subscribe_os (s : State) (l g e : Nat) :
    (subscribe s l g e).os = if subsOf s l g = [] ∧ fdsOf s g = [] then upd s.os g tboxDisp else s.os := by
  unfold subscribe fdsOf; simp only [List.isEmpty_iff]; split
  · split
    · rename_i h1 h2; simp [h1, h2]
    · rename_i h1 h2; simp [h1, h2]
  · rename_i h1; simp [h1]

/-! ### what `unsubscribe` does, field by field -/

theorem unsubscribe_subs (s : State) (l g e : Nat) :
    (unsubscribe s l g e).subs =
      upd s.subs l (if del e (subsOf s l g) = [] then (s.subs l).erase g else (s.subs l).set g (del e (subsOf s l g))) := by
  unfold unsubscribe; simp only [fdsOf]
  by_cases h : del e (subsOf s l g) = []
  · simp only [h, List.isEmpty_nil, Bool.not_true, Bool.false_eq_true, ↓reduceIte, true_and]
    by_cases h2 : (s.subs l).erase g = []
    · first | (simp [h2]; done) | (simp only [h2, List.isEmpty_nil, Bool.not_true, Bool.false_eq_true, ↓reduceIte]; split <;> simp_all)
    · first | (simp [h2]; done) | (simp [h2]; split <;> simp_all)
  · have h' : (!(del e (subsOf s l g)).isEmpty) = true := by simp [h]
    simp only [h', h, ↓reduceIte, false_and]

theorem unsubscribe_evs (s : State) (l g e : Nat) : (unsubscribe s l g e).evs = s.evs := by
  unfold unsubscribe; simp only; split
  · rfl
  · split <;> rfl

theorem unsubscribe_nEv (s : State) (l g e : Nat) : (unsubscribe s l g e).nEv = s.nEv := by
  unfold unsubscribe; simp only; split
  · rfl
  · split <;> rfl

theorem unsubscribe_cbs (s : State) (l g e : Nat) : (unsubscribe s l g e).cbs = s.cbs := by
  unfold unsubscribe; simp only; split
  · rfl
  · split <;> rfl

theorem unsubscribe_calls (s : State) (l g e : Nat) : (unsubscribe s l g e).calls = s.calls := by
  unfold unsubscribe; simp only; split
  · rfl
  · split <;> rfl

theorem unsubscribe_ctxs (s : State) (l g e : Nat) :
    (unsubscribe s l g e).ctxs =
      if del e (subsOf s l g) = [] then
        (if del l (fdsOf s g) = [] then upd s.ctxs g none
         else upd s.ctxs g (some { ctxOf s g with fds := del l (fdsOf s g) }))
      else s.ctxs := by
  unfold unsubscribe; simp only [fdsOf]
  by_cases h : del e (subsOf s l g) = []
  · simp only [h, List.isEmpty_nil, Bool.not_true, Bool.false_eq_true, ↓reduceIte, true_and]
    by_cases h2 : (s.subs l).erase g = []
    · first | (simp [h2]; done) | (simp only [h2, List.isEmpty_nil, Bool.not_true, Bool.false_eq_true, ↓reduceIte]; split <;> simp_all)
    · first | (simp [h2]; done) | (simp [h2]; split <;> simp_all)
  · have h' : (!(del e (subsOf s l g)).isEmpty) = true := by simp [h]
    simp only [h', h, ↓reduceIte, false_and]

theorem unsubscribe_os (s : State) (l g e : Nat) :
    (unsubscribe s l g e).os =
      if del e (subsOf s l g) = [] ∧ del l (fdsOf s g) = [] then upd s.os g (ctxOf s g).old else s.os := by
  unfold unsubscribe; simp only [fdsOf]
  by_cases h : del e (subsOf s l g) = []
  · simp only [h, List.isEmpty_nil, Bool.not_true, Bool.false_eq_true, ↓reduceIte, true_and]
    by_cases h2 : (s.subs l).erase g = []
    · first | (simp [h2]; done) | (simp only [h2, List.isEmpty_nil, Bool.not_true, Bool.false_eq_true, ↓reduceIte]; split <;> simp_all)
    · first | (simp [h2]; done) | (simp [h2]; split <;> simp_all)
  · have h' : (!(del e (subsOf s l g)).isEmpty) = true := by simp [h]
    simp only [h', h, ↓reduceIte, false_and]

theorem unsubscribe_hasPipe (s : State) (l g e : Nat) :
    (unsubscribe s l g e).hasPipe =
      if del e (subsOf s l g) = [] ∧ (s.subs l).erase g = [] then upd s.hasPipe l false else s.hasPipe := by
  unfold unsubscribe; simp only [fdsOf]
  by_cases h : del e (subsOf s l g) = []
  · simp only [h, List.isEmpty_nil, Bool.not_true, Bool.false_eq_true, ↓reduceIte, true_and]
    by_cases h2 : (s.subs l).erase g = []
    · first | (simp [h2]; done) | (simp only [h2, List.isEmpty_nil, Bool.not_true, Bool.false_eq_true, ↓reduceIte]; split <;> simp_all)
    · first | (simp [h2]; done) | (simp [h2]; split <;> simp_all)
  · have h' : (!(del e (subsOf s l g)).isEmpty) = true := by simp [h]
    simp only [h', h, ↓reduceIte, false_and]

theorem unsubscribe_pipe (s : State) (l g e : Nat) :
    (unsubscribe s l g e).pipe =
      if del e (subsOf s l g) = [] ∧ (s.subs l).erase g = [] then upd s.pipe l [] else s.pipe := by
  unfold unsubscribe; simp only [fdsOf]
  by_cases h : del e (subsOf s l g) = []
  · simp only [h, List.isEmpty_nil, Bool.not_true, Bool.false_eq_true, ↓reduceIte, true_and]
    by_cases h2 : (s.subs l).erase g = []
    · first | (simp [h2]; done) | (simp only [h2, List.isEmpty_nil, Bool.not_true, Bool.false_eq_true, ↓reduceIte]; split <;> simp_all)
    · first | (simp [h2]; done) | (simp [h2]; split <;> simp_all)
  · have h' : (!(del e (subsOf s l g)).isEmpty) = true := by simp [h]
    simp only [h', h, ↓reduceIte, false_and]

/-! ### the subscriber relation after `subscribe` / `unsubscribe` -/

theorem subsOf_subscribe (s : State) (l g e l' g' : Nat) :
    subsOf (subscribe s l g e) l' g' = if l' = l ∧ g' = g then ins e (subsOf s l g) else subsOf s l' g' := by
  have h : subsOf (subscribe s l g e) l' g' = (((subscribe s l g e).subs l').find g').getD [] := rfl
  rw [h, subscribe_subs]
  by_cases hl : l' = l
  · subst hl
    simp only [upd_apply, ↓reduceIte, Map.find_set, true_and]
    by_cases hg : g' = g
    · subst hg; simp
    · simp [hg, subsOf]
  · simp [hl, subsOf]

theorem subsOf_unsubscribe (s : State) (l g e l' g' : Nat) :
    subsOf (unsubscribe s l g e) l' g' = if l' = l ∧ g' = g then del e (subsOf s l g) else subsOf s l' g' := by
  have h : subsOf (unsubscribe s l g e) l' g' = (((unsubscribe s l g e).subs l').find g').getD [] := rfl
  rw [h, unsubscribe_subs]
  by_cases hl : l' = l
  · subst hl
    simp only [upd_apply, ↓reduceIte, true_and]
    by_cases hd : del e (subsOf s l' g) = []
    · simp only [hd, ↓reduceIte, Map.find_erase]
      by_cases hg : g' = g
      · subst hg; simp
      · simp [hg, subsOf]
    · simp only [hd, ↓reduceIte, Map.find_set]
      by_cases hg : g' = g
      · subst hg; simp
      · simp [hg, subsOf]
  · simp [hl, subsOf]

end Tbox.C04
