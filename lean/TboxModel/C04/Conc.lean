/-
C04 — step-level model of the two critical sections that guard `_signal_ctxs_` (common_loop_signal.cpp:107-155 and
:171-195) for ONE signal number, any number of threads (thread t = the loop that runs on it = its pipe's write fd),
interleaved with deliveries of the signal on any thread.

A critical section is  `lock(_signal_lock_); sigprocmask(SIG_BLOCK, full, &old)` … `sigprocmask(SIG_SETMASK, &old); unlock`.
On Linux `sigprocmask` changes the mask of the CALLING THREAD only, so the discipline keeps the handler off the thread
that is inside a critical section (no re-entrancy into the `std::map` operations on that thread) — it does not keep a
delivery to ANOTHER thread out (`handler_on_other_thread_inside_cs`); the property's quantifier excludes those
("while no subscription change is in progress").  What the handler does to the bookkeeping is `_signal_ctxs_[signo]`
(`operator[]` would INSERT a missing entry): `deliveries_find_ctx` shows the entry always exists when tbox's handler is
installed, at every step-level state, so a delivery never mutates the map.

Steps of subscribeSignal's section:  enterS (lock+block) · touch (`_signal_ctxs_[signo]`) · install (`sigaction` if
`write_fds` is empty) · insert (`write_fds.insert`) · leave (restore mask, unlock).
Steps of unsubscribeSignal's section: enterU · eraseFd (`_signal_ctxs_[signo]`, `write_fds.erase`) · restore (`sigaction`
old if empty) · eraseCtx (`_signal_ctxs_.erase` if empty) · leave.
`userSet d` is the application's own `sigaction` while tbox's handler is not installed; `deliver t` a delivery of the
signal on thread t while tbox's handler is installed (enabled only if t does not block the signal).
The tokens `B A S` of the `M sys=` lines of the tie are the block / sigaction / restore-mask system calls of these steps.
-/
namespace Tbox.C04.Conc

inductive PC where
  | idle | sIn | sTouched | sInstalled | sDone | uIn | uErased | uRestored | uDone
deriving DecidableEq, Repr

/-- one logged run of `SignalHandlerFunc` -/
structure Run where
  thread : Nat
  holderPc : PC          -- where the holder of the mutex was (idle = nobody inside a critical section)
  onHolder : Bool        -- the handler ran on the thread that is inside a critical section
  found : Bool           -- `_signal_ctxs_[signo]` found an existing entry (false = the handler inserted into the map)
  fds : List Nat         -- the `write_fds` it wrote to
deriving DecidableEq, Repr

structure State where
  lock  : Option Nat := none          -- `_signal_lock_`
  pc    : Nat → PC := fun _ => .idle
  mask  : Nat → Bool := fun _ => false  -- thread t blocks all signals
  saved : Nat → Bool := fun _ => false  -- `old_sigmask` of the section thread t is in
  ctx   : Bool := false               -- `_signal_ctxs_` has an entry for the signal
  fds   : List Nat := []              -- its `write_fds`
  old   : Nat := 0                    -- its `old_handler`
  os    : Option Nat := some 0        -- kernel disposition: none = tbox's handler, some d = the application's d
  base  : Nat := 0                    -- ghost: the application's disposition (underneath tbox's handler)
  log   : List Run := []

inductive Step where
  | enterS (t : Nat) | touch (t : Nat) | install (t : Nat) | insert (t : Nat)
  | enterU (t : Nat) | eraseFd (t : Nat) | restore (t : Nat) | eraseCtx (t : Nat)
  | leave (t : Nat)
  | userSet (d : Nat)
  | deliver (t : Nat)
deriving DecidableEq, Repr

def upd {β : Type} (f : Nat → β) (k : Nat) (v : β) : Nat → β := fun i => if i = k then v else f i

def holderPc (s : State) : PC := match s.lock with | none => .idle | some t => s.pc t

/-- one atomic step; `none` = not enabled in this state -/
def step (s : State) : Step → Option State
  | .enterS t =>
    if s.lock = none ∧ s.pc t = .idle ∧ t ∉ s.fds then
      some { s with lock := some t, pc := upd s.pc t .sIn, saved := upd s.saved t (s.mask t), mask := upd s.mask t true }
    else none
  | .touch t =>
    if s.pc t = .sIn then some { s with pc := upd s.pc t .sTouched, ctx := true, fds := if s.ctx then s.fds else [] }
    else none
  | .install t =>
    if s.pc t = .sTouched then
      if s.fds = [] then some { s with pc := upd s.pc t .sInstalled, old := s.os.getD 0, os := none }
      else some { s with pc := upd s.pc t .sInstalled }
    else none
  | .insert t =>
    if s.pc t = .sInstalled then some { s with pc := upd s.pc t .sDone, fds := t :: s.fds } else none
  | .enterU t =>
    if s.lock = none ∧ s.pc t = .idle ∧ t ∈ s.fds then
      some { s with lock := some t, pc := upd s.pc t .uIn, saved := upd s.saved t (s.mask t), mask := upd s.mask t true }
    else none
  | .eraseFd t =>
    if s.pc t = .uIn then some { s with pc := upd s.pc t .uErased, ctx := true, fds := s.fds.filter (· != t) } else none
  | .restore t =>
    if s.pc t = .uErased then
      if s.fds = [] then some { s with pc := upd s.pc t .uRestored, os := some s.old }
      else some { s with pc := upd s.pc t .uRestored }
    else none
  | .eraseCtx t =>
    if s.pc t = .uRestored then
      if s.fds = [] then some { s with pc := upd s.pc t .uDone, ctx := false }
      else some { s with pc := upd s.pc t .uDone }
    else none
  | .leave t =>
    if s.pc t = .sDone ∨ s.pc t = .uDone then
      some { s with lock := none, pc := upd s.pc t .idle, mask := upd s.mask t (s.saved t) }
    else none
  | .userSet d =>
    if s.os ≠ none then some { s with os := some d, base := d } else none
  | .deliver t =>
    if s.os = none ∧ s.mask t = false then
      some { s with ctx := true,
                    log := { thread := t, holderPc := holderPc s, onHolder := decide (s.lock = some t), found := s.ctx,
                             fds := s.fds } :: s.log }
    else none

def run (s : State) : List Step → Option State
  | [] => some s
  | a :: as => match step s a with | none => none | some s' => run s' as

/-- the bookkeeping as it must be whenever nobody is inside a critical section -/
def Q (s : State) : Prop :=
  (s.fds = [] → s.ctx = false ∧ s.os = some s.base) ∧ (s.fds ≠ [] → s.ctx = true ∧ s.os = none ∧ s.old = s.base)

/-- what holds of the bookkeeping while the holder of the mutex is at `pc` -/
def phaseInv (s : State) : PC → Prop
  | .idle | .sIn | .sDone | .uDone => Q s
  | .uIn => Q s ∧ s.fds ≠ []
  | .sTouched | .uRestored =>
      s.ctx = true ∧ (s.fds = [] → s.os = some s.base) ∧ (s.fds ≠ [] → s.os = none ∧ s.old = s.base)
  | .sInstalled | .uErased => s.ctx = true ∧ s.os = none ∧ s.old = s.base

structure Inv (s : State) : Prop where
  holder  : ∀ t, s.pc t ≠ .idle → s.lock = some t
  held    : ∀ t, s.lock = some t → s.pc t ≠ .idle
  blocked : ∀ t, s.pc t ≠ .idle → s.mask t = true ∧ s.saved t = false
  open_   : ∀ t, s.pc t = .idle → s.mask t = false
  phase   : phaseInv s (holderPc s)
  logOk   : ∀ r ∈ s.log, r.onHolder = false ∧ r.found = true ∧ (r.holderPc = .idle → r.fds ≠ [])

theorem init_inv : Inv {} := by
  refine ⟨?_, ?_, ?_, ?_, ?_, ?_⟩ <;> simp [holderPc, phaseInv, Q]

theorem upd_self {β : Type} (f : Nat → β) (k : Nat) (v : β) : upd f k v k = v := by simp [upd]
theorem upd_other {β : Type} (f : Nat → β) (k : Nat) (v : β) (i : Nat) (h : i ≠ k) : upd f k v i = f i := by simp [upd, h]

/-- a step of the lock holder t from pc `a` to a non-idle pc `b` that keeps lock/mask/saved/log -/
theorem inv_move (s : State) (t : Nat) (b : PC) (hb : b ≠ .idle) (h : Inv s) (hpc : s.pc t ≠ .idle)
    (s' : State) (hlock : s'.lock = s.lock) (hpc' : s'.pc = upd s.pc t b) (hmask : s'.mask = s.mask)
    (hsaved : s'.saved = s.saved) (hlog : s'.log = s.log) (hph : phaseInv s' b) : Inv s' := by
  have hl : s.lock = some t := h.holder t hpc
  refine ⟨?_, ?_, ?_, ?_, ?_, ?_⟩
  · intro u hu
    rw [hlock]
    by_cases hut : u = t
    · rw [hut]; exact hl
    · rw [hpc', upd_other _ _ _ _ hut] at hu; exact h.holder u hu
  · intro u hu
    rw [hlock, hl] at hu
    have : u = t := by cases hu; rfl
    rw [this, hpc', upd_self]; exact hb
  · intro u hu
    rw [hmask, hsaved]
    by_cases hut : u = t
    · rw [hut]; exact h.blocked t hpc
    · rw [hpc', upd_other _ _ _ _ hut] at hu; exact h.blocked u hu
  · intro u hu
    rw [hmask]
    by_cases hut : u = t
    · rw [hut, hpc', upd_self] at hu; exact absurd hu hb
    · rw [hpc', upd_other _ _ _ _ hut] at hu; exact h.open_ u hu
  · have : holderPc s' = b := by simp [holderPc, hlock, hl, hpc', upd_self]
    rw [this]; exact hph
  · rw [hlog]; exact h.logOk

theorem holderPc_of (s : State) (t : Nat) (h : Inv s) (hpc : s.pc t ≠ .idle) : holderPc s = s.pc t := by
  simp [holderPc, h.holder t hpc]

theorem step_inv (s : State) (a : Step) (s' : State) (h : Inv s) (hs : step s a = some s') : Inv s' := by
  cases a with
  | enterS t =>
    simp only [step] at hs
    split at hs
    · rename_i hc
      cases hs
      have hidle : holderPc s = .idle := by simp [holderPc, hc.1]
      have hq : Q s := by have := h.phase; rw [hidle] at this; exact this
      refine ⟨?_, ?_, ?_, ?_, ?_, h.logOk⟩
      · intro u hu
        by_cases hut : u = t
        · rw [hut]
        · simp only [upd_other _ _ _ _ hut] at hu
          have := h.holder u hu; rw [hc.1] at this; cases this
      · intro u hu
        have : u = t := by cases hu; rfl
        simp [this, upd_self]
      · intro u hu
        by_cases hut : u = t
        · subst hut; simp only [upd_self, true_and]; exact h.open_ u hc.2.1
        · simp only [upd_other _ _ _ _ hut] at hu ⊢; exact h.blocked u hu
      · intro u hu
        by_cases hut : u = t
        · subst hut; simp [upd_self] at hu
        · simp only [upd_other _ _ _ _ hut] at hu ⊢; exact h.open_ u hu
      · simp only [holderPc, upd_self, phaseInv]; exact hq
    · cases hs
  | enterU t =>
    simp only [step] at hs
    split at hs
    · rename_i hc
      cases hs
      have hidle : holderPc s = .idle := by simp [holderPc, hc.1]
      have hq : Q s := by have := h.phase; rw [hidle] at this; exact this
      refine ⟨?_, ?_, ?_, ?_, ?_, h.logOk⟩
      · intro u hu
        by_cases hut : u = t
        · rw [hut]
        · simp only [upd_other _ _ _ _ hut] at hu
          have := h.holder u hu; rw [hc.1] at this; cases this
      · intro u hu
        have : u = t := by cases hu; rfl
        simp [this, upd_self]
      · intro u hu
        by_cases hut : u = t
        · subst hut; simp only [upd_self, true_and]; exact h.open_ u hc.2.1
        · simp only [upd_other _ _ _ _ hut] at hu ⊢; exact h.blocked u hu
      · intro u hu
        by_cases hut : u = t
        · subst hut; simp [upd_self] at hu
        · simp only [upd_other _ _ _ _ hut] at hu ⊢; exact h.open_ u hu
      · simp only [holderPc, upd_self, phaseInv]
        exact ⟨hq, fun hf => by have := hc.2.2; rw [hf] at this; cases this⟩
    · cases hs
  | touch t =>
    simp only [step] at hs
    split at hs
    · rename_i hc
      cases hs
      have hne : s.pc t ≠ .idle := by rw [hc]; decide
      have hq : Q s := by have := h.phase; rw [holderPc_of s t h hne, hc] at this; exact this
      refine inv_move s t .sTouched (by decide) h hne _ rfl rfl rfl rfl rfl ?_
      simp only [phaseInv, true_and]
      by_cases hctx : s.ctx = true
      · simp only [hctx, ↓reduceIte]
        exact ⟨fun hf => (hq.1 hf).2, fun hf => (hq.2 hf).2⟩
      · simp only [hctx, Bool.false_eq_true, ↓reduceIte, ne_eq, not_true_eq_false, false_imp_iff, and_true, forall_const]
        by_cases hf : s.fds = []
        · exact (hq.1 hf).2
        · exact absurd (hq.2 hf).1 hctx
    · cases hs
  | install t =>
    simp only [step] at hs
    split at hs
    · rename_i hc
      have hne : s.pc t ≠ .idle := by rw [hc]; decide
      have hp := h.phase; rw [holderPc_of s t h hne, hc] at hp
      simp only [phaseInv] at hp
      split at hs
      · rename_i hf
        cases hs
        refine inv_move s t .sInstalled (by decide) h hne _ rfl rfl rfl rfl rfl ?_
        simp only [phaseInv, hp.1, true_and]
        rw [hp.2.1 hf]; rfl
      · rename_i hf
        cases hs
        refine inv_move s t .sInstalled (by decide) h hne _ rfl rfl rfl rfl rfl ?_
        exact ⟨hp.1, hp.2.2 hf⟩
    · cases hs
  | insert t =>
    simp only [step] at hs
    split at hs
    · rename_i hc
      cases hs
      have hne : s.pc t ≠ .idle := by rw [hc]; decide
      have hp := h.phase; rw [holderPc_of s t h hne, hc] at hp
      refine inv_move s t .sDone (by decide) h hne _ rfl rfl rfl rfl rfl ?_
      simp only [phaseInv, Q, reduceCtorEq, false_imp_iff, ne_eq, not_false_eq_true, forall_const, true_and]
      exact hp
    · cases hs
  | eraseFd t =>
    simp only [step] at hs
    split at hs
    · rename_i hc
      cases hs
      have hne : s.pc t ≠ .idle := by rw [hc]; decide
      have hp := h.phase; rw [holderPc_of s t h hne, hc] at hp
      refine inv_move s t .uErased (by decide) h hne _ rfl rfl rfl rfl rfl ?_
      have := hp.1.2 hp.2
      exact ⟨rfl, this.2⟩
    · cases hs
  | restore t =>
    simp only [step] at hs
    split at hs
    · rename_i hc
      have hne : s.pc t ≠ .idle := by rw [hc]; decide
      have hp := h.phase; rw [holderPc_of s t h hne, hc] at hp
      simp only [phaseInv] at hp
      split at hs
      · rename_i hf
        cases hs
        refine inv_move s t .uRestored (by decide) h hne _ rfl rfl rfl rfl rfl ?_
        simp only [phaseInv, hp.1, true_and]
        exact ⟨fun _ => by rw [hp.2.2], fun hh => absurd hf hh⟩
      · rename_i hf
        cases hs
        refine inv_move s t .uRestored (by decide) h hne _ rfl rfl rfl rfl rfl ?_
        exact ⟨hp.1, fun hh => absurd hh hf, fun _ => hp.2⟩
    · cases hs
  | eraseCtx t =>
    simp only [step] at hs
    split at hs
    · rename_i hc
      have hne : s.pc t ≠ .idle := by rw [hc]; decide
      have hp := h.phase; rw [holderPc_of s t h hne, hc] at hp
      simp only [phaseInv] at hp
      split at hs
      · rename_i hf
        cases hs
        refine inv_move s t .uDone (by decide) h hne _ rfl rfl rfl rfl rfl ?_
        exact ⟨fun _ => ⟨rfl, hp.2.1 hf⟩, fun hh => absurd hf hh⟩
      · rename_i hf
        cases hs
        refine inv_move s t .uDone (by decide) h hne _ rfl rfl rfl rfl rfl ?_
        exact ⟨fun hh => absurd hh hf, fun _ => ⟨hp.1, hp.2.2 hf⟩⟩
    · cases hs
  | leave t =>
    simp only [step] at hs
    split at hs
    · rename_i hc
      cases hs
      have hne : s.pc t ≠ .idle := by rcases hc with hc | hc <;> (rw [hc]; decide)
      have hl := h.holder t hne
      have hothers : ∀ u, u ≠ t → s.pc u = .idle := by
        intro u hut
        cases hpu : s.pc u with
        | idle => rfl
        | _ =>
          have := h.holder u (by rw [hpu]; decide)
          rw [hl] at this; cases this; exact absurd rfl hut
      have hq : Q s := by
        have hp := h.phase; rw [holderPc_of s t h hne] at hp
        rcases hc with hc | hc <;> (rw [hc] at hp; exact hp)
      have hidle : ∀ u, upd s.pc t .idle u = .idle := by
        intro u
        by_cases hut : u = t
        · rw [hut, upd_self]
        · rw [upd_other _ _ _ _ hut]; exact hothers u hut
      refine ⟨?_, ?_, ?_, ?_, ?_, h.logOk⟩
      · intro u hu; exact absurd (hidle u) hu
      · intro u hu; cases hu
      · intro u hu; exact absurd (hidle u) hu
      · intro u _
        by_cases hut : u = t
        · subst hut; simp only [upd_self]; exact (h.blocked u hne).2
        · simp only [upd_other _ _ _ _ hut]; exact h.open_ u (hothers u hut)
      · simp only [holderPc, phaseInv]; exact hq
    · cases hs
  | userSet d =>
    simp only [step] at hs
    split at hs
    · rename_i hc
      cases hs
      refine ⟨h.holder, h.held, h.blocked, h.open_, ?_, h.logOk⟩
      have hp := h.phase
      have hpc : holderPc { s with os := some d, base := d } = holderPc s := rfl
      rw [hpc]
      have hQ : Q s → Q { s with os := some d, base := d } := fun hq =>
        ⟨fun hf => ⟨(hq.1 hf).1, rfl⟩, fun hf => absurd (hq.2 hf).2.1 hc⟩
      cases hph : holderPc s with
      | idle | sIn | sDone | uDone => rw [hph] at hp; exact hQ hp
      | uIn => rw [hph] at hp; exact ⟨hQ hp.1, hp.2⟩
      | sTouched | uRestored =>
        rw [hph] at hp
        exact ⟨hp.1, fun _ => rfl, fun hf => absurd (hp.2.2 hf).1 hc⟩
      | sInstalled | uErased => rw [hph] at hp; exact absurd hp.2.1 hc
    · cases hs
  | deliver t =>
    simp only [step] at hs
    split at hs
    · rename_i hc
      cases hs
      have hpt : s.pc t = .idle := by
        cases hpu : s.pc t with
        | idle => rfl
        | _ =>
          have := (h.blocked t (by rw [hpu]; decide)).1
          rw [hc.2] at this; cases this
      have hp := h.phase
      have hQ : Q s → s.ctx = true := fun hq => by
        by_cases hf : s.fds = []
        · have := (hq.1 hf).2; rw [hc.1] at this; cases this
        · exact (hq.2 hf).1
      have hctx : s.ctx = true := by
        cases hph : holderPc s with
        | idle | sIn | sDone | uDone => rw [hph] at hp; exact hQ hp
        | uIn => rw [hph] at hp; exact hQ hp.1
        | sTouched | uRestored => rw [hph] at hp; exact hp.1
        | sInstalled | uErased => rw [hph] at hp; exact hp.1
      refine ⟨h.holder, h.held, h.blocked, h.open_, ?_, ?_⟩
      · have hsame : ∀ (lg : List Run) pc, phaseInv { s with ctx := true, log := lg } pc ↔ phaseInv s pc := by
          intro lg pc; cases pc <;> simp only [phaseInv, Q, hctx]
        show phaseInv _ (holderPc s)
        rw [hsame]; exact hp
      · intro r hr
        rcases List.mem_cons.1 hr with hr | hr
        · subst hr
          refine ⟨?_, hctx, ?_⟩
          · simp only [decide_eq_false_iff_not]
            intro hl; exact h.held t hl hpt
          · intro hid
            simp only at hid
            rw [hid] at hp
            intro hf
            have := (hp.1 hf).2; rw [hc.1] at this; cases this
        · exact h.logOk r hr
    · cases hs

theorem run_inv (s : State) (as : List Step) (s' : State) (h : Inv s) (hr : run s as = some s') : Inv s' := by
  induction as generalizing s with
  | nil => simp only [run, Option.some.injEq] at hr; exact hr ▸ h
  | cons a as ih =>
    simp only [run] at hr
    split at hr
    · cases hr
    · rename_i s1 hs1; exact ih s1 (step_inv s a s1 h hs1) hr

end Tbox.C04.Conc
