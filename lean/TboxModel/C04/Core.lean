/- C04 — the event-independent part of the invariant (kernel dispositions ↔ process-wide ctx map ↔
   per-loop subscriber maps ↔ pipes) and its preservation by `subscribe` / `unsubscribe`. -/
import TboxModel.C04.Basics
namespace Tbox.C04

structure Core (s : State) : Prop where
  /-- loop l's write fd is registered for g  ⇔  loop l has a subscriber of g -/
  fdsIff  : ∀ g l, l ∈ fdsOf s g ↔ subsOf s l g ≠ []
  /-- tbox's handler is installed exactly while some loop is registered -/
  osTbox  : ∀ g, (s.os g).kind = .tbox ↔ fdsOf s g ≠ []
  /-- the saved disposition is never tbox's own handler -/
  oldOk   : ∀ g c, s.ctxs g = some c → c.old.kind ≠ .tbox
  /-- nothing is ever registered for a signal on which `sigaction` fails -/
  invalid : ∀ g, sigValid g = false → fdsOf s g = []
  /-- the per-loop map holds no empty entry -/
  entries : ∀ l g x, (s.subs l).find g = some x → x ≠ []
  /-- the loop has a pipe exactly while its map is non-empty -/
  pipeIff : ∀ l, s.hasPipe l = true ↔ s.subs l ≠ []
  pipeNil : ∀ l, s.hasPipe l = false → s.pipe l = []
  ndSubs  : ∀ l g, (subsOf s l g).Nodup
  ndFds   : ∀ g, (fdsOf s g).Nodup

theorem init_core : Core init := by
  refine ⟨?_, ?_, ?_, ?_, ?_, ?_, ?_, ?_, ?_⟩ <;> intros <;> simp_all [init, fdsOf, ctxOf, subsOf, Map.find, zeroDisp]

theorem subsOf_eq_nil_of_find_none {s : State} {l g : Nat} (h : (s.subs l).find g = none) : subsOf s l g = [] := by
  simp [subsOf, h]

theorem Core.subs_ne_nil_iff {s : State} (h : Core s) (l : Nat) : s.subs l ≠ [] ↔ ∃ g, subsOf s l g ≠ [] := by
  constructor
  · intro hne
    have : ¬ ∀ k, (s.subs l).find k = none := fun hall => hne ((Map.eq_nil_iff _).2 hall)
    refine Classical.byContradiction fun hcon => this fun k => ?_
    cases hf : (s.subs l).find k with
    | none => rfl
    | some x =>
      exfalso; apply hcon
      exact ⟨k, by simpa [subsOf, hf] using h.entries l k x hf⟩
  · rintro ⟨g, hg⟩ hnil
    apply hg; simp [subsOf, hnil, Map.find]

theorem fdsOf_eq {s : State} {g : Nat} {c : Ctx} (h : s.ctxs g = some c) : fdsOf s g = c.fds := by
  simp [fdsOf, ctxOf, h]

theorem fdsOf_none {s : State} {g : Nat} (h : s.ctxs g = none) : fdsOf s g = [] := by
  simp [fdsOf, ctxOf, h]

theorem ctx_some_of_fds {s : State} {g : Nat} (hf : fdsOf s g ≠ []) : ∃ c, s.ctxs g = some c ∧ ctxOf s g = c := by
  cases hc : s.ctxs g with
  | none => exact absurd (fdsOf_none hc) hf
  | some c => exact ⟨c, rfl, by simp [ctxOf, hc]⟩

theorem old_ok_ctxOf {s : State} (h : ∀ g c, s.ctxs g = some c → c.old.kind ≠ .tbox) (g : Nat) :
    (ctxOf s g).old.kind ≠ .tbox := by
  cases hc : s.ctxs g with
  | none => simp [ctxOf, hc, zeroDisp]
  | some c => simpa [ctxOf, hc] using h g c hc

/-- value of `fdsOf` after an update of the ctx map -/
theorem fdsOf_upd (s : State) (ctxs : Nat → Option Ctx) (g g' : Nat) (v : Option Ctx)
    (h : ctxs = upd s.ctxs g v) :
    fdsOf { s with ctxs := ctxs } g' = if g' = g then (v.getD {}).fds else fdsOf s g' := by
  subst h; unfold fdsOf ctxOf; simp only [upd_apply]; split <;> rfl

/-! ### subscribe -/

theorem fdsOf_subscribe (s : State) (l g e g' : Nat) :
    fdsOf (subscribe s l g e) g' = if g' = g ∧ subsOf s l g = [] then ins l (fdsOf s g) else fdsOf s g' := by
  unfold fdsOf ctxOf
  rw [subscribe_ctxs]
  by_cases h : subsOf s l g = []
  · by_cases hg : g' = g
    · subst hg; simp [h, fdsOf, ctxOf]
    · simp [h, hg]
  · simp [h]

theorem ctxs_isSome_subscribe (s : State) (l g e g' : Nat) :
    ((subscribe s l g e).ctxs g').isSome = (if g' = g ∧ subsOf s l g = [] then true else (s.ctxs g').isSome) := by
  rw [subscribe_ctxs]
  by_cases h : subsOf s l g = []
  · by_cases hg : g' = g
    · subst hg; simp [h]
    · simp [h, hg]
  · simp [h]

theorem subscribe_core (s : State) (l g e : Nat) (h : Core s) (hok : subscribeFails s l g = false) :
    Core (subscribe s l g e) := by
  have hfd := fdsOf_subscribe s l g e
  have hsb := subsOf_subscribe s l g e
  refine ⟨?_, ?_, ?_, ?_, ?_, ?_, ?_, ?_, ?_⟩
  · -- fdsIff
    intro g' l'
    rw [hfd, hsb]
    by_cases hg : g' = g
    · subst hg
      by_cases hc : subsOf s l g' = []
      · simp only [hc, and_self, ↓reduceIte, mem_ins, and_true]
        by_cases hl : l' = l
        · subst hl; simp [ins_ne_nil]
        · simp only [hl, false_or, ↓reduceIte]; exact h.fdsIff g' l'
      · simp only [hc, and_false, ↓reduceIte, and_true]
        by_cases hl : l' = l
        · subst hl; simp only [↓reduceIte, ins_ne_nil, ne_eq, not_false_eq_true, iff_true]
          exact (h.fdsIff g' l').2 hc
        · simp only [hl, ↓reduceIte]; exact h.fdsIff g' l'
    · simp only [hg, false_and, and_false, ↓reduceIte]; exact h.fdsIff g' l'
  · -- osTbox
    intro g'
    rw [subscribe_os, hfd]
    by_cases hg : g' = g
    · subst hg
      by_cases hc : subsOf s l g' = []
      · by_cases hf : fdsOf s g' = []
        · simp [hc, hf, tboxDisp, ins_ne_nil]
        · simp only [hc, hf, and_false, ↓reduceIte, and_self, ne_eq, ins_ne_nil, not_false_eq_true, iff_true]
          exact (h.osTbox g').2 hf
      · simp only [hc, false_and, ↓reduceIte, and_false]; exact h.osTbox g'
    · by_cases hc : subsOf s l g = [] ∧ fdsOf s g = []
      · simp only [hc, and_self, ↓reduceIte, upd_apply, hg, false_and]; exact h.osTbox g'
      · simp only [hc, ↓reduceIte, hg, false_and]; exact h.osTbox g'
  · -- oldOk
    intro g' c hc
    rw [subscribe_ctxs] at hc
    by_cases hs : subsOf s l g = []
    · simp only [hs, ↓reduceIte, upd_apply] at hc
      by_cases hg : g' = g
      · subst hg
        simp only [↓reduceIte, Option.some.injEq] at hc
        subst hc
        by_cases hf : fdsOf s g' = []
        · simp only [hf, ↓reduceIte]
          intro hk
          exact (h.osTbox g').1 hk hf
        · simp only [hf, ↓reduceIte]
          exact old_ok_ctxOf h.oldOk g'
      · simp only [hg, ↓reduceIte] at hc; exact h.oldOk g' c hc
    · simp only [hs, ↓reduceIte] at hc; exact h.oldOk g' c hc
  · -- invalid
    intro g' hv
    rw [hfd]
    by_cases hc : g' = g ∧ subsOf s l g = []
    · exfalso
      obtain ⟨rfl, hc2⟩ := hc
      have := h.invalid g' hv
      simp [subscribeFails, hc2, this, hv] at hok
    · simp only [hc, ↓reduceIte]; exact h.invalid g' hv
  · -- entries
    intro l' g' x hx
    rw [subscribe_subs] at hx
    by_cases hl : l' = l
    · subst hl
      simp only [upd_apply, ↓reduceIte, Map.find_set] at hx
      by_cases hg : g' = g
      · simp only [hg, ↓reduceIte, Option.some.injEq] at hx; subst hx; exact ins_ne_nil _ _
      · simp only [hg, ↓reduceIte] at hx; exact h.entries l' g' x hx
    · simp only [upd_apply, hl, ↓reduceIte] at hx; exact h.entries l' g' x hx
  · -- pipeIff
    intro l'
    rw [subscribe_hasPipe, subscribe_subs]
    by_cases hl : l' = l
    · subst hl; simp [Map.set_ne_nil]
    · simp only [upd_apply, hl, ↓reduceIte]; exact h.pipeIff l'
  · -- pipeNil
    intro l' hp
    rw [subscribe_hasPipe] at hp
    rw [subscribe_pipe]
    by_cases hl : l' = l
    · subst hl; simp at hp
    · simp only [upd_apply, hl, ↓reduceIte] at hp
      split
      · exact h.pipeNil l' hp
      · simp only [upd_apply, hl, ↓reduceIte]; exact h.pipeNil l' hp
  · -- ndSubs
    intro l' g'
    rw [hsb]; split
    · exact nodup_ins (h.ndSubs l g)
    · exact h.ndSubs l' g'
  · -- ndFds
    intro g'
    rw [hfd]; split
    · exact nodup_ins (h.ndFds g)
    · exact h.ndFds g'

/-! ### unsubscribe -/

theorem fdsOf_unsubscribe (s : State) (l g e g' : Nat) :
    fdsOf (unsubscribe s l g e) g' =
      if g' = g ∧ del e (subsOf s l g) = [] then del l (fdsOf s g) else fdsOf s g' := by
  unfold fdsOf ctxOf
  rw [unsubscribe_ctxs]
  by_cases h : del e (subsOf s l g) = []
  · by_cases hg : g' = g
    · subst hg
      by_cases hd : del l (fdsOf s g') = []
      · simp only [h, ↓reduceIte, hd, upd_apply, Option.getD_none, and_self]
        simp only [fdsOf, ctxOf] at hd; rw [hd]
      · simp only [h, ↓reduceIte, hd, upd_apply, Option.getD_some, and_self]; rfl
    · by_cases hd : del l (fdsOf s g) = []
      · simp [h, hd, hg]
      · simp [h, hd, hg]
  · simp [h]

theorem ctxs_isSome_unsubscribe (s : State) (l g e g' : Nat) :
    ((unsubscribe s l g e).ctxs g').isSome =
      (if g' = g ∧ del e (subsOf s l g) = [] then decide (del l (fdsOf s g) ≠ []) else (s.ctxs g').isSome) := by
  rw [unsubscribe_ctxs]
  by_cases h : del e (subsOf s l g) = []
  · by_cases hg : g' = g
    · subst hg
      by_cases hd : del l (fdsOf s g') = []
      · simp [h, hd]
      · simp [h, hd]
    · by_cases hd : del l (fdsOf s g) = []
      · simp [h, hd, hg]
      · simp [h, hd, hg]
  · simp [h]

theorem unsubscribe_core (s : State) (l g e : Nat) (h : Core s) : Core (unsubscribe s l g e) := by
  have hfd := fdsOf_unsubscribe s l g e
  have hsb := subsOf_unsubscribe s l g e
  -- the new per-loop map of l
  have hent : ∀ l' g' x, ((unsubscribe s l g e).subs l').find g' = some x → x ≠ [] := by
    intro l' g' x hx
    rw [unsubscribe_subs] at hx
    by_cases hl : l' = l
    · subst hl
      simp only [upd_apply, ↓reduceIte] at hx
      by_cases hd : del e (subsOf s l' g) = []
      · simp only [hd, ↓reduceIte, Map.find_erase] at hx
        by_cases hg : g' = g
        · simp [hg] at hx
        · simp only [hg, ↓reduceIte] at hx; exact h.entries l' g' x hx
      · simp only [hd, ↓reduceIte, Map.find_set] at hx
        by_cases hg : g' = g
        · simp only [hg, ↓reduceIte, Option.some.injEq] at hx; subst hx; exact hd
        · simp only [hg, ↓reduceIte] at hx; exact h.entries l' g' x hx
    · simp only [upd_apply, hl, ↓reduceIte] at hx; exact h.entries l' g' x hx
  refine ⟨?_, ?_, ?_, ?_, hent, ?_, ?_, ?_, ?_⟩
  · -- fdsIff
    intro g' l'
    rw [hfd, hsb]
    by_cases hg : g' = g
    · subst hg
      by_cases hc : del e (subsOf s l g') = []
      · simp only [hc, and_self, ↓reduceIte, mem_del, and_true]
        by_cases hl : l' = l
        · subst hl; simp
        · simp only [hl, ne_eq, not_false_eq_true, and_true, ↓reduceIte]; exact h.fdsIff g' l'
      · simp only [hc, and_false, ↓reduceIte, and_true]
        by_cases hl : l' = l
        · subst hl; simp only [↓reduceIte, ne_eq, hc, not_false_eq_true, iff_true]
          apply (h.fdsIff g' l').2
          intro hnil; apply hc; simp [hnil, del]
        · simp only [hl, ↓reduceIte]; exact h.fdsIff g' l'
    · simp only [hg, false_and, and_false, ↓reduceIte]; exact h.fdsIff g' l'
  · -- osTbox
    intro g'
    rw [unsubscribe_os, hfd]
    by_cases hg : g' = g
    · subst hg
      by_cases hc : del e (subsOf s l g') = []
      · by_cases hf : del l (fdsOf s g') = []
        · simp only [hc, hf, and_self, ↓reduceIte, upd_apply, ne_eq, not_true_eq_false, iff_false]
          exact old_ok_ctxOf h.oldOk g'
        · simp only [hc, hf, and_false, ↓reduceIte, and_self, ne_eq, not_false_eq_true, iff_true]
          apply (h.osTbox g').2
          intro hnil; apply hf; simp [hnil, del]
      · simp only [hc, false_and, ↓reduceIte, and_false]; exact h.osTbox g'
    · by_cases hc : del e (subsOf s l g) = [] ∧ del l (fdsOf s g) = []
      · simp only [hc, and_self, ↓reduceIte, upd_apply, hg, false_and]; exact h.osTbox g'
      · simp only [hc, ↓reduceIte, hg, false_and]; exact h.osTbox g'
  · -- oldOk
    intro g' c hc
    rw [unsubscribe_ctxs] at hc
    by_cases hs : del e (subsOf s l g) = []
    · simp only [hs, ↓reduceIte] at hc
      by_cases hd : del l (fdsOf s g) = []
      · simp only [hd, ↓reduceIte, upd_apply] at hc
        by_cases hg : g' = g
        · simp [hg] at hc
        · simp only [hg, ↓reduceIte] at hc; exact h.oldOk g' c hc
      · simp only [hd, ↓reduceIte, upd_apply] at hc
        by_cases hg : g' = g
        · subst hg
          simp only [↓reduceIte, Option.some.injEq] at hc
          subst hc
          exact old_ok_ctxOf h.oldOk g'
        · simp only [hg, ↓reduceIte] at hc; exact h.oldOk g' c hc
    · simp only [hs, ↓reduceIte] at hc; exact h.oldOk g' c hc
  · -- invalid
    intro g' hv
    rw [hfd]
    by_cases hc : g' = g ∧ del e (subsOf s l g) = []
    · obtain ⟨rfl, hc2⟩ := hc
      simp [hc2, h.invalid g' hv, del]
    · simp only [hc, ↓reduceIte]; exact h.invalid g' hv
  · -- pipeIff
    intro l'
    rw [unsubscribe_hasPipe, unsubscribe_subs]
    by_cases hl : l' = l
    · subst hl
      by_cases hd : del e (subsOf s l' g) = []
      · by_cases he : (s.subs l').erase g = []
        · simp [hd, he]
        · simp only [hd, he, and_false, ↓reduceIte, upd_apply, ne_eq, not_false_eq_true, iff_true]
          apply (h.pipeIff l').2
          intro hnil; apply he; simp [hnil, Map.erase]
      · simp only [hd, false_and, ↓reduceIte, upd_apply, ne_eq, Map.set_ne_nil, not_false_eq_true, iff_true]
        apply (h.pipeIff l').2
        intro hnil; apply hd
        have : subsOf s l' g = [] := by simp [subsOf, hnil, Map.find]
        simp [this, del]
    · by_cases hc : del e (subsOf s l g) = [] ∧ (s.subs l).erase g = []
      · simp only [hc, and_self, ↓reduceIte, upd_apply, hl]; exact h.pipeIff l'
      · simp only [hc, ↓reduceIte, upd_apply, hl]; exact h.pipeIff l'
  · -- pipeNil
    intro l' hp
    rw [unsubscribe_hasPipe] at hp
    rw [unsubscribe_pipe]
    by_cases hc : del e (subsOf s l g) = [] ∧ (s.subs l).erase g = []
    · simp only [hc, and_self, ↓reduceIte, upd_apply] at hp ⊢
      by_cases hl : l' = l
      · simp [hl]
      · simp only [hl, ↓reduceIte] at hp ⊢; exact h.pipeNil l' hp
    · simp only [hc, ↓reduceIte] at hp ⊢; exact h.pipeNil l' hp
  · -- ndSubs
    intro l' g'
    rw [hsb]; split
    · exact nodup_del (h.ndSubs l g)
    · exact h.ndSubs l' g'
  · -- ndFds
    intro g'
    rw [hfd]; split
    · exact nodup_del (h.ndFds g)
    · exact h.ndFds g'

/-! ### the disposition "underneath" tbox's handler -/

/-- the disposition the process would have without tbox: the saved one while some loop is registered -/
def baseDisp (s : State) (g : Nat) : Disp :=
  if fdsOf s g = [] then s.os g else (ctxOf s g).old

theorem ctxOf_subscribe (s : State) (l g e g' : Nat) :
    ctxOf (subscribe s l g e) g' =
      if g' = g ∧ subsOf s l g = [] then
        { fds := ins l (fdsOf s g), old := if fdsOf s g = [] then s.os g else (ctxOf s g).old }
      else ctxOf s g' := by
  unfold ctxOf
  rw [subscribe_ctxs]
  by_cases h : subsOf s l g = []
  · by_cases hg : g' = g
    · subst hg; simp [h, ctxOf]
    · simp [h, hg]
  · simp [h]

theorem baseDisp_subscribe (s : State) (l g e g' : Nat) :
    baseDisp (subscribe s l g e) g' = baseDisp s g' := by
  unfold baseDisp
  rw [fdsOf_subscribe, ctxOf_subscribe, subscribe_os]
  by_cases hs : subsOf s l g = []
  · by_cases hg : g' = g
    · subst hg
      by_cases hf : fdsOf s g' = []
      · simp [hs, hf, ins_ne_nil]
      · simp [hs, hf, ins_ne_nil]
    · by_cases hf : fdsOf s g = [] <;> simp [hs, hf, hg]
  · simp [hs]

theorem ctxOf_unsubscribe_old (s : State) (l g e g' : Nat) :
    (ctxOf (unsubscribe s l g e) g').old =
      if g' = g ∧ del e (subsOf s l g) = [] ∧ del l (fdsOf s g) = [] then zeroDisp else (ctxOf s g').old := by
  unfold ctxOf
  rw [unsubscribe_ctxs]
  by_cases h : del e (subsOf s l g) = []
  · by_cases hg : g' = g
    · subst hg
      by_cases hd : del l (fdsOf s g') = []
      · simp [h, hd]
      · simp [h, hd, ctxOf]
    · by_cases hd : del l (fdsOf s g) = [] <;> simp [h, hd, hg]
  · simp [h]

theorem baseDisp_unsubscribe (s : State) (l g e g' : Nat) (h : Core s) (hm : e ∈ subsOf s l g) :
    baseDisp (unsubscribe s l g e) g' = baseDisp s g' := by
  have hne : subsOf s l g ≠ [] := by intro hnil; rw [hnil] at hm; cases hm
  have hl : l ∈ fdsOf s g := (h.fdsIff g l).2 hne
  have hf : fdsOf s g ≠ [] := by intro hnil; rw [hnil] at hl; cases hl
  unfold baseDisp
  rw [fdsOf_unsubscribe, ctxOf_unsubscribe_old, unsubscribe_os]
  by_cases hs : del e (subsOf s l g) = []
  · by_cases hg : g' = g
    · subst hg
      by_cases hd : del l (fdsOf s g') = []
      · simp [hs, hd, hf]
      · simp [hs, hd, hf]
    · by_cases hd : del l (fdsOf s g) = [] <;> simp [hs, hd, hg]
  · simp [hs]

/-! ### the failure path of `subscribeSignal`, and the handler's `_signal_ctxs_[signo]` -/

/-- `_signal_ctxs_[g]` evaluated for its side effect only: the entry now exists -/
def touchCtx (s : State) (g : Nat) : State := { s with ctxs := upd s.ctxs g (some (ctxOf s g)) }

theorem ctxOf_touchCtx (s : State) (g g' : Nat) : ctxOf (touchCtx s g) g' = ctxOf s g' := by
  unfold touchCtx ctxOf
  by_cases hg : g' = g
  · subst hg; simp
  · simp [hg]

theorem fdsOf_touchCtx (s : State) (g g' : Nat) : fdsOf (touchCtx s g) g' = fdsOf s g' := by
  unfold fdsOf; rw [ctxOf_touchCtx]

theorem touchCtx_core (s : State) (g : Nat) (h : Core s) : Core (touchCtx s g) := by
  refine ⟨?_, ?_, ?_, ?_, h.entries, h.pipeIff, h.pipeNil, h.ndSubs, ?_⟩
  · intro g' l; rw [fdsOf_touchCtx]; exact h.fdsIff g' l
  · intro g'; rw [fdsOf_touchCtx]; exact h.osTbox g'
  · intro g' c hc
    unfold touchCtx at hc
    by_cases hg : g' = g
    · subst hg
      simp only [upd_apply, ↓reduceIte, Option.some.injEq] at hc
      subst hc; exact old_ok_ctxOf h.oldOk g'
    · simp only [upd_apply, hg, ↓reduceIte] at hc; exact h.oldOk g' c hc
  · intro g' hv; rw [fdsOf_touchCtx]; exact h.invalid g' hv
  · intro g'; rw [fdsOf_touchCtx]; exact h.ndFds g'

theorem baseDisp_touchCtx (s : State) (g g' : Nat) : baseDisp (touchCtx s g) g' = baseDisp s g' := by
  unfold baseDisp; rw [fdsOf_touchCtx, ctxOf_touchCtx]; rfl

theorem Map.erase_of_find_none {α : Type} (m : Map α) (k : Nat) (h : m.find k = none) : m.erase k = m := by
  induction m with
  | nil => rfl
  | cons p r ih =>
    obtain ⟨a, v⟩ := p
    unfold Map.find at h
    by_cases hak : a = k
    · simp [hak] at h
    · simp only [hak, ↓reduceIte] at h
      unfold Map.erase at ih ⊢
      have : (a != k) = true := by simp [hak]
      simp only [List.filter_cons, this, ↓reduceIte, ih h]

/-- in a state whose bookkeeping is in order a failing `subscribeSignal` leaves nothing behind but the ctx entry -/
theorem subscribeFail_eq (s : State) (l g : Nat) (h : Core s) (hf : subscribeFails s l g = true) :
    subscribeFail s l g = touchCtx s g := by
  simp only [subscribeFails, Bool.and_eq_true, List.isEmpty_iff, Bool.not_eq_eq_eq_not, Bool.not_true] at hf
  have hfind : (s.subs l).find g = none := by
    cases hx : (s.subs l).find g with
    | none => rfl
    | some x =>
      have := h.entries l g x hx
      have hs : subsOf s l g = x := by simp [subsOf, hx]
      rw [hf.1.1] at hs; exact absurd hs.symm this
  have herase := Map.erase_of_find_none _ _ hfind
  unfold subscribeFail touchCtx
  simp only [herase, List.isEmpty_iff]
  by_cases hm : s.subs l = []
  · have hp : s.hasPipe l = false := by
      cases hh : s.hasPipe l with
      | false => rfl
      | true => exact absurd hm ((h.pipeIff l).1 hh)
    have h1 : upd s.hasPipe l false = s.hasPipe := by
      funext i; by_cases hi : i = l
      · subst hi; simp [hp]
      · simp [hi]
    have h2 : upd s.pipe l [] = s.pipe := by
      funext i; by_cases hi : i = l
      · subst hi; simp [h.pipeNil i hp]
      · simp [hi]
    have h3 : upd s.subs l (s.subs l) = s.subs := by
      funext i; by_cases hi : i = l
      · subst hi; simp
      · simp [hi]
    simp only [hm, ↓reduceIte]
    rw [hm] at h3
    rw [h1, h2, h3]
  · have hp : s.hasPipe l = true := (h.pipeIff l).2 hm
    have h1 : upd s.hasPipe l true = s.hasPipe := by
      funext i; by_cases hi : i = l
      · subst hi; simp [hp]
      · simp [hi]
    have h3 : upd s.subs l (s.subs l) = s.subs := by
      funext i; by_cases hi : i = l
      · subst hi; simp
      · simp [hi]
    simp only [hm, ↓reduceIte, hp, h1, h3]

end Tbox.C04
