/- C04 — (1) the disposition underneath tbox's handler (`baseDisp`) is invariant under every step that is not a
   user `sigaction` on that signal; (2) the read loop of a pass terminates by its own condition (the fuel suffices);
   (3) delivery: what one raise followed by loop passes does to the callback log. -/
import TboxModel.C04.Inv
namespace Tbox.C04

/-! ### generic induction over the dispatch loop -/

theorem dispatch_ind (l g : Nat) (P : State → Prop)
    (hP : ∀ s e, Inv s → e ∈ subsOf s l g → P s → P (evOnSignal repaired s l e g))
    (s : State) (todo : List Nat) (h : Inv s) (hp : P s) : P (dispatch repaired s l g todo) := by
  induction todo generalizing s with
  | nil => exact hp
  | cons e es ih =>
    rw [dispatch_cons]
    split
    · rename_i hm; exact ih _ (evOnSignal_inv s l e g h hm) (hP s e h hm hp)
    · exact ih _ h hp

theorem passChunk_ind (l : Nat) (ord : List Nat) (P : State → Prop)
    (hP : ∀ g s e, Inv s → e ∈ subsOf s l g → P s → P (evOnSignal repaired s l e g))
    (s : State) (items : List Nat) (h : Inv s) (hp : P s) : P (passChunk repaired s l ord items) := by
  induction items generalizing s with
  | nil => exact hp
  | cons g gs ih => exact ih _ (dispatch_inv s l g _ h) (dispatch_ind l g P (hP g) s _ h hp)

/-- a property kept by every API call is kept by a callback -/
theorem evOnSignal_ind (P : State → Prop)
    (hEn : ∀ s j, Inv s → P s → P (enable repaired s j).1)
    (hDis : ∀ s j, Inv s → P s → P (disable s j).1)
    (hDes : ∀ s j, Inv s → P s → P (destroy s j).1)
    (hInit : ∀ s j sg o, Inv s → P s → P (initEv repaired s j sg o).1)
    (hPre : ∀ s l e g, Inv s → e ∈ subsOf s l g → P s → P (evPre s l e g))
    (s : State) (l e g : Nat) (h : Inv s) (hm : e ∈ subsOf s l g) (hp : P s) : P (evOnSignal repaired s l e g) := by
  rw [evOnSignal_eq]
  have h1 := evPre_inv s l e g h hm
  have hp1 := hPre s l e g h hm hp
  generalize evPre s l e g = s1 at h1 hp1
  generalize (s.evs e).script = sc
  induction sc generalizing s1 with
  | nil => exact hp1
  | cons a as ih =>
    refine ih _ (act_inv s1 l a h1) ?_
    cases a with
    | enable j => exact hEn s1 j h1 hp1
    | disable j => exact hDis s1 j h1 hp1
    | destroy j => exact hDes s1 j h1 hp1
    | init j sg o => exact hInit s1 j _ o h1 hp1
    | enableP j =>
      show P (enableP repaired s1 j).1
      unfold enableP; split
      · exact hp1
      · exact hEn s1 j h1 hp1

/-! ### baseDisp -/

theorem baseDisp_enable (s : State) (e g : Nat) (h : Inv s) : baseDisp (enable repaired s e).1 g = baseDisp s g := by
  by_cases ha : (s.evs e).alive = true
  case neg => simp only [enable, ha, Bool.not_false, ↓reduceIte]
  by_cases hi : (s.evs e).inited = true
  · rw [enable_cases s e ha hi]
    have r := subscribeAllF_spec s (s.evs e).loop e (s.evs e).sigs h.core
    generalize subscribeAllF s (s.evs e).loop e (s.evs e).sigs = rr at r
    simp only
    split
    · rw [baseDisp_setEv]; exact r.base g
    · split
      · exact r.base g
      · rw [baseDisp_unsubscribeAll _ _ _ _ g r.core ((h.sigsNd e).sublist r.pre.sublist), r.base]
        intro g' hg'
        exact (r.mem _ g' e).2 (Or.inr ⟨rfl, hg', rfl⟩)
  · have hi' : (s.evs e).inited = false := by simpa using hi
    simp only [enable, ha, hi', Bool.not_true, Bool.false_eq_true, ↓reduceIte, baseDisp_setEv]

theorem baseDisp_disable (s : State) (e g : Nat) (h : Inv s) : baseDisp (disable s e).1 g = baseDisp s g := by
  unfold disable
  by_cases ha : (s.evs e).alive = true
  · simp only [ha, Bool.not_true, Bool.false_eq_true, ↓reduceIte, baseDisp_setEv]
    split
    · rename_i hen
      refine baseDisp_unsubscribeAll _ _ _ _ _ h.core (h.sigsNd e) ?_
      intro g' hg'
      exact (h.mem _ g' e).2 ⟨hen, hg', rfl⟩
    · rfl
  · simp [ha]

theorem baseDisp_destroy (s : State) (e g : Nat) (h : Inv s) : baseDisp (destroy s e).1 g = baseDisp s g := by
  unfold destroy
  by_cases ha : (s.evs e).alive = true
  · simp only [ha, Bool.not_true, Bool.false_eq_true, ↓reduceIte, baseDisp_setEv]
    exact baseDisp_disable s e g h
  · simp [ha]

theorem baseDisp_initEv (s : State) (e : Nat) (sg : List Nat) (o : Bool) (g : Nat) (h : Inv s) :
    baseDisp (initEv repaired s e sg o).1 g = baseDisp s g := by
  unfold initEv
  by_cases ha : (s.evs e).alive = true
  · simp only [ha, Bool.not_true, Bool.false_eq_true, ↓reduceIte, repaired, baseDisp_setEv]
    exact baseDisp_disable s e g h
  · simp [ha]

theorem baseDisp_evPre (s : State) (l e g g' : Nat) (h : Inv s) : baseDisp (evPre s l e g) g' = baseDisp s g' := by
  unfold evPre
  show baseDisp (if (s.evs e).oneshot = true then (disable s e).1 else s) g' = _
  split
  · exact baseDisp_disable s e g' h
  · rfl

theorem baseDisp_evOnSignal (s : State) (l e g g' : Nat) (h : Inv s) (hm : e ∈ subsOf s l g) :
    baseDisp (evOnSignal repaired s l e g) g' = baseDisp s g' :=
  evOnSignal_ind (fun s' => baseDisp s' g' = baseDisp s g')
    (fun s1 j h1 hp => by rw [baseDisp_enable s1 j g' h1]; exact hp)
    (fun s1 j h1 hp => by rw [baseDisp_disable s1 j g' h1]; exact hp)
    (fun s1 j h1 hp => by rw [baseDisp_destroy s1 j g' h1]; exact hp)
    (fun s1 j sg o h1 hp => by rw [baseDisp_initEv s1 j sg o g' h1]; exact hp)
    (fun s1 l1 e1 g1 h1 _ hp => by rw [baseDisp_evPre s1 l1 e1 g1 g' h1]; exact hp)
    s l e g h hm rfl

theorem baseDisp_pass (s : State) (l : Nat) (ord : List Nat) (g : Nat) (h : Inv s) :
    baseDisp (pass repaired s l ord) g = baseDisp s g :=
  (passLoop_ind l ord (fun s' => baseDisp s' g = baseDisp s g)
    (fun s1 items h1 hp1 => passChunk_ind l ord (fun s' => baseDisp s' g = baseDisp s g)
      (fun g0 s2 e h2 hm hp => by rw [baseDisp_evOnSignal s2 l e g0 g h2 hm]; exact hp) s1 items h1 hp1)
    (fun _ _ _ hp => hp) _ s h rfl).2

/-- the delivery is one the KERNEL answers by resetting the application's handler: g goes directly to a user handler
installed with SA_RESETHAND (never the case while tbox's handler is installed for g) -/
def directReset (s : State) (g : Nat) : Op → Bool
  | .raise g' | .raiseW g' _ =>
    g' == g && (match (s.os g).kind with | .handler _ => true | _ => false) && (s.os g).resetHand
  | _ => false

/-- how many deliveries of a history the kernel answers by resetting g's handler (SA_RESETHAND on a direct delivery) -/
def kresets (s : State) (g : Nat) : List Op → Nat
  | [] => 0
  | op :: ops => (if directReset s g op then 1 else 0) + kresets (step repaired s op) g ops

theorem baseDisp_raiseW (s : State) (g' g : Nat) (wf : List Nat) (hr : directReset s g (.raiseW g' wf) = false) :
    baseDisp (raiseW s g' wf).1 g = baseDisp s g := by
  unfold raiseW
  split
  · rfl
  · rfl
  · rename_i hh hk
    show (if fdsOf s g = [] then upd s.os g' (kReset (s.os g')) g else (ctxOf s g).old) = baseDisp s g
    unfold baseDisp
    split
    · by_cases hg : g = g'
      · subst hg
        simp only [upd_apply, ↓reduceIte]
        simp only [directReset, beq_self_eq_true, hk, Bool.true_and] at hr
        unfold kReset; simp [hr]
      · simp only [upd_apply, hg, ↓reduceIte]
    · rfl
  · exact baseDisp_touchCtx s g' g

theorem baseDisp_raise (s : State) (g' g : Nat) (hr : directReset s g (.raise g') = false) :
    baseDisp (raise s g').1 g = baseDisp s g := baseDisp_raiseW s g' g [] hr

theorem baseDisp_passC (s : State) (l : Nat) (ord : List Nat) (cs : List (Option Nat)) (g : Nat) (h : Inv s) :
    baseDisp (passC repaired s l ord cs) g = baseDisp s g :=
  (passLoopC_ind l ord (fun s' => baseDisp s' g = baseDisp s g)
    (fun s1 items h1 hp1 => passChunk_ind l ord (fun s' => baseDisp s' g = baseDisp s g)
      (fun g0 s2 e h2 hm hp => by rw [baseDisp_evOnSignal s2 l e g0 g h2 hm]; exact hp) s1 items h1 hp1)
    (fun _ _ _ hp => hp) _ cs s h rfl).2

/-- the only step that changes the disposition underneath tbox's handler is the user's own `sigaction` -/
theorem baseDisp_step (s : State) (op : Op) (g : Nat) (h : Inv s) (hu : ∀ d, op ≠ .setDisp g d)
    (hr : directReset s g op = false) : baseDisp (step repaired s op) g = baseDisp s g := by
  cases op with
  | newEv l sc => rfl
  | init e sigs o => exact baseDisp_initEv s e sigs o g h
  | enable e => exact baseDisp_enable s e g h
  | disable e => exact baseDisp_disable s e g h
  | destroy e => exact baseDisp_destroy s e g h
  | setDisp g' d =>
    show baseDisp (setDisp s g' d).1 g = _
    have hne : g ≠ g' := fun hh => hu d (by rw [hh])
    unfold setDisp; split
    · rfl
    · unfold baseDisp fdsOf ctxOf; simp only [upd_apply, hne, ↓reduceIte]
  | raise g' => exact baseDisp_raise s g' g hr
  | pass l ord => exact baseDisp_pass s l ord g h
  | raiseW g' wf => exact baseDisp_raiseW s g' g wf hr
  | passC l ord cs => exact baseDisp_passC s l ord cs g h
  | setCap b => rfl
  | enableP e =>
    show baseDisp (enableP repaired s e).1 g = _
    unfold enableP; split
    · rfl
    · exact baseDisp_enable s e g h

theorem baseDisp_exec (s : State) (ops : List Op) (g : Nat) (h : Inv s) (hu : ∀ d, Op.setDisp g d ∉ ops)
    (hr : kresets s g ops = 0) (s' : State) (he : exec repaired s ops = some s') : baseDisp s' g = baseDisp s g := by
  induction ops generalizing s with
  | nil => simp only [exec, Option.some.injEq] at he; rw [← he]
  | cons op ops ih =>
    simp only [exec] at he
    split at he
    · rename_i hv
      have hr1 : directReset s g op = false := by
        cases hd : directReset s g op with
        | false => rfl
        | true => simp [kresets, hd] at hr
      have hr2 : kresets (step repaired s op) g ops = 0 := by
        simp only [kresets, hr1, Bool.false_eq_true, ↓reduceIte, Nat.zero_add] at hr; exact hr
      rw [ih _ (step_inv s op h hv) (fun d hd => hu d (List.mem_cons_of_mem _ hd)) hr2 he]
      exact baseDisp_step s op g h (fun d hd => hu d (hd ▸ List.mem_cons_self)) hr1
    · cases he

/-- nobody subscribed ⇒ no loop registered ⇒ the kernel disposition IS the base disposition -/
theorem baseDisp_eq_os_of_no_subscriber (s : State) (g : Nat) (h : Inv s)
    (hno : ∀ e, ¬ ((s.evs e).enabled = true ∧ g ∈ (s.evs e).sigs)) : baseDisp s g = s.os g := by
  unfold baseDisp
  have hf : fdsOf s g = [] := by
    apply Classical.byContradiction
    intro hf
    obtain ⟨l, hl⟩ := ne_nil_iff_exists_mem.1 hf
    obtain ⟨e, he⟩ := ne_nil_iff_exists_mem.1 ((h.core.fdsIff g l).1 hl)
    have := (h.mem l g e).1 he
    exact hno e ⟨this.1, this.2.1⟩
  simp [hf]

/-! ### the pending numbers of a pipe only get fewer during a pass: the fuel of `pass` suffices -/

/-- every pipe is what it was, or empty -/
def PipeMono (s0 s : State) : Prop := ∀ l', s.pipe l' = s0.pipe l' ∨ s.pipe l' = []

theorem PipeMono.refl (s : State) : PipeMono s s := fun _ => Or.inl rfl
theorem PipeMono.trans {a b c : State} (h1 : PipeMono a b) (h2 : PipeMono b c) : PipeMono a c := by
  intro l'
  rcases h2 l' with h | h
  · rcases h1 l' with h' | h'
    · left; rw [h, h']
    · right; rw [h, h']
  · right; exact h

theorem pipeMono_unsubscribeAll (s : State) (l e : Nat) (gs : List Nat) : PipeMono s (unsubscribeAll s l e gs) := by
  intro l'
  rcases unsubscribeAll_pipe_frame s l e gs l' with h | h
  · exact Or.inl h
  · exact Or.inr h.2

theorem pipeMono_disable (s : State) (e : Nat) : PipeMono s (disable s e).1 := by
  intro l'
  rcases disable_pipe_frame s e l' with h | h
  · exact Or.inl h
  · exact Or.inr h.2

theorem pipeMono_destroy (s : State) (e : Nat) : PipeMono s (destroy s e).1 := by
  unfold destroy
  by_cases ha : (s.evs e).alive = true
  · simp only [ha, Bool.not_true, Bool.false_eq_true, ↓reduceIte]
    exact pipeMono_disable s e
  · simp only [ha, Bool.not_false, ↓reduceIte]; exact PipeMono.refl s

theorem pipeMono_initEv (s : State) (e : Nat) (sg : List Nat) (o : Bool) : PipeMono s (initEv repaired s e sg o).1 := by
  unfold initEv
  by_cases ha : (s.evs e).alive = true
  · simp only [ha, Bool.not_true, Bool.false_eq_true, ↓reduceIte, repaired]
    exact pipeMono_disable s e
  · simp only [ha, Bool.not_false, ↓reduceIte]; exact PipeMono.refl s

theorem pipeMono_enable (s : State) (e : Nat) (h : Inv s) : PipeMono s (enable repaired s e).1 := by
  by_cases ha : (s.evs e).alive = true
  case neg => simp only [enable, ha, Bool.not_false, ↓reduceIte]; exact PipeMono.refl s
  by_cases hi : (s.evs e).inited = true
  · rw [enable_cases s e ha hi]
    have r := subscribeAllF_spec s (s.evs e).loop e (s.evs e).sigs h.core
    generalize subscribeAllF s (s.evs e).loop e (s.evs e).sigs = rr at r
    have hr : PipeMono s rr.1 := by
      intro l'
      rcases r.pipe l' with h1 | h1
      · exact Or.inl h1
      · exact Or.inr h1.2
    simp only
    split
    · exact hr
    · split
      · exact hr
      · exact hr.trans (pipeMono_unsubscribeAll _ _ _ _)
  · have hi' : (s.evs e).inited = false := by simpa using hi
    simp only [enable, ha, hi', Bool.not_true, Bool.false_eq_true, ↓reduceIte]
    exact PipeMono.refl s

theorem pipeMono_evPre (s : State) (l e g : Nat) : PipeMono s (evPre s l e g) := by
  unfold evPre
  show PipeMono s (if (s.evs e).oneshot = true then (disable s e).1 else s)
  split
  · exact pipeMono_disable s e
  · exact PipeMono.refl s

theorem pipeMono_passChunk (s : State) (l : Nat) (ord items : List Nat) (h : Inv s) :
    PipeMono s (passChunk repaired s l ord items) :=
  passChunk_ind l ord (PipeMono s)
    (fun g s1 e h1 hm hp => evOnSignal_ind (PipeMono s)
      (fun s2 j h2 hp2 => hp2.trans (pipeMono_enable s2 j h2))
      (fun s2 j _ hp2 => hp2.trans (pipeMono_disable s2 j))
      (fun s2 j _ hp2 => hp2.trans (pipeMono_destroy s2 j))
      (fun s2 j sg o _ hp2 => hp2.trans (pipeMono_initEv s2 j sg o))
      (fun s2 l2 e2 g2 _ _ hp2 => hp2.trans (pipeMono_evPre s2 l2 e2 g2))
      s1 l e g h1 hm hp)
    s items h (PipeMono.refl s)

/-- with more fuel than pending numbers the read loop ends by its own condition: the pipe is closed or empty -/
theorem passLoop_drains (l : Nat) (ord : List Nat) (fuel : Nat) (s : State) (h : Inv s)
    (hf : (s.pipe l).length < fuel) :
    (passLoop repaired l ord fuel s).hasPipe l = false ∨ (passLoop repaired l ord fuel s).pipe l = [] := by
  induction fuel generalizing s with
  | zero => omega
  | succ n ih =>
    unfold passLoop
    by_cases hpipe : s.hasPipe l = true
    · simp only [hpipe, Bool.not_true, Bool.false_eq_true, ↓reduceIte]
      split
      · rename_i hnil; right; exact hnil
      · rename_i hne
        have h1 := setPipe_inv s l ((s.pipe l).drop 10) (upd s.head l ((hd s l + 10) % pageLen)) h hpipe
        refine ih _ (passChunk_inv _ l ord _ h1) ?_
        have hlen : ((s.pipe l).drop 10).length < n := by
          have : (s.pipe l).length ≠ 0 := by
            intro h0; exact hne (List.length_eq_zero_iff.1 h0)
          rw [List.length_drop]; omega
        rcases pipeMono_passChunk _ l ord ((s.pipe l).take 10) h1 l with hm | hm
        · rw [hm]; simpa using hlen
        · rw [hm]; simp only [List.length_nil]; omega
    · left; simp only [hpipe, Bool.not_false, ↓reduceIte]

/-! ### delivery: counting callbacks -/

/-- number of logged callbacks of event e for signal g -/
def cbCount (s : State) (e g : Nat) : Nat := (s.cbs.filter (fun c => c.ev == e && c.sig == g)).length

def passes (s : State) : List (Nat × List Nat) → State
  | [] => s
  | (l, ord) :: ls => passes (pass repaired s l ord) ls

theorem cbCount_evPre (s : State) (l e g e' g' : Nat) :
    cbCount (evPre s l e g) e' g' = cbCount s e' g' + (if e' = e ∧ g' = g then 1 else 0) := by
  unfold evPre cbCount
  have hcb : (if (s.evs e).oneshot = true then (disable s e).1 else s).cbs = s.cbs := by
    split
    · exact disable_cbs s e
    · rfl
  simp only [setEv, hcb, List.filter_cons]
  by_cases he : e' = e
  · by_cases hg : g' = g
    · subst he hg; simp
    · have : (g == g') = false := by simp; exact fun hh => hg hh.symm
      simp [hg, this]
  · have : (e == e') = false := by simp; exact fun hh => he hh.symm
    simp [he, this]

theorem evPre_evs_other (s : State) (l e g e' : Nat) (he : e' ≠ e) : (evPre s l e g).evs e' = s.evs e' := by
  unfold evPre
  simp only [setEv, upd_apply, he, ↓reduceIte]
  split
  · exact disable_evs_other s e e' he
  · rfl

/-- what the multi-pass argument needs to know about the part of a pass that has run so far -/
structure Frame (l : Nat) (s0 s : State) : Prop where
  pipeOther : ∀ l', l' ≠ l → s.pipe l' = s0.pipe l'
  pipeSelf  : s0.pipe l = [] → s.pipe l = []
  evsOther  : ∀ e, (s0.evs e).loop ≠ l → s.evs e = s0.evs e
  same      : ∀ e, (s.evs e).loop = (s0.evs e).loop ∧ (s.evs e).script = (s0.evs e).script ∧
                   (s.evs e).sigs = (s0.evs e).sigs ∧ ((s.evs e).enabled = true → (s0.evs e).enabled = true)

theorem frame_evPre (l g : Nat) (s0 s : State) (e : Nat) (hi : Inv s) (hm : e ∈ subsOf s l g)
    (hf : Frame l s0 s) : Frame l s0 (evPre s l e g) := by
  have hloop : (s.evs e).loop = l := ((hi.mem l g e).1 hm).2.2
  have hpipe : ∀ l', (evPre s l e g).pipe l' = s.pipe l' ∨ (l' = l ∧ (evPre s l e g).pipe l' = []) := by
    intro l'
    unfold evPre
    show (if (s.evs e).oneshot = true then (disable s e).1 else s).pipe l' = _ ∨ (_ ∧ (if (s.evs e).oneshot = true then (disable s e).1 else s).pipe l' = _)
    split
    · have := disable_pipe_frame s e l'; rw [hloop] at this; exact this
    · left; rfl
  refine ⟨?_, ?_, ?_, ?_⟩
  · intro l' hl'
    rcases hpipe l' with h1 | h1
    · rw [h1]; exact hf.pipeOther l' hl'
    · exact absurd h1.1 hl'
  · intro h0
    rcases hpipe l with h1 | h1
    · rw [h1]; exact hf.pipeSelf h0
    · exact h1.2
  · intro e' he'
    have hne : e' ≠ e := by
      intro hh; subst hh
      apply he'; rw [← (hf.same e').1, hloop]
    rw [evPre_evs_other s l e g e' hne]; exact hf.evsOther e' he'
  · intro e'
    by_cases hne : e' = e
    · subst hne
      have hs := hf.same e'
      unfold evPre
      simp only [setEv, upd_apply, ↓reduceIte]
      split
      · rw [disable_evs_self]
        split
        · exact ⟨hs.1, hs.2.1, hs.2.2.1, fun hh => by simp at hh⟩
        · exact hs
      · exact hs
    · rw [evPre_evs_other s l e g e' hne]; exact hf.same e'

/-- the dispatch of one number when no subscriber in the snapshot has a script: every entry is called once -/
theorem dispatch_noscript (l g : Nat) (s0 : State) (todo : List Nat) (s : State) (h : Inv s) (hnd : todo.Nodup)
    (hm : ∀ e ∈ todo, e ∈ subsOf s l g ∧ (s.evs e).script = []) (hf : Frame l s0 s) (e' g' : Nat) :
    cbCount (dispatch repaired s l g todo) e' g' = cbCount s e' g' + (if g' = g ∧ e' ∈ todo then 1 else 0) ∧
    Frame l s0 (dispatch repaired s l g todo) ∧ Inv (dispatch repaired s l g todo) := by
  induction todo generalizing s with
  | nil => simp [dispatch]; exact ⟨hf, h⟩
  | cons e es ih =>
    rw [List.nodup_cons] at hnd
    have hme := hm e List.mem_cons_self
    rw [dispatch_cons]
    simp only [hme.1, ↓reduceIte]
    have heq : evOnSignal repaired s l e g = evPre s l e g := by rw [evOnSignal_eq, hme.2]; rfl
    rw [heq]
    have h1 := evPre_inv s l e g h hme.1
    have hf1 := frame_evPre l g s0 s e h hme.1 hf
    have hm1 : ∀ e2 ∈ es, e2 ∈ subsOf (evPre s l e g) l g ∧ ((evPre s l e g).evs e2).script = [] := by
      intro e2 he2
      have hne : e2 ≠ e := fun hh => hnd.1 (hh ▸ he2)
      have := hm e2 (List.mem_cons_of_mem _ he2)
      rw [h1.mem, evPre_evs_other s l e g e2 hne]
      exact ⟨(h.mem l g e2).1 this.1, this.2⟩
    obtain ⟨hc, hfr, hinv⟩ := ih _ h1 hnd.2 hm1 hf1
    refine ⟨?_, hfr, hinv⟩
    rw [hc, cbCount_evPre]
    by_cases hg : g' = g
    · subst hg
      by_cases he : e' = e
      · subst he; simp [hnd.1]
      · simp [he]
    · simp [hg]

theorem mem_reorder (ord xs : List Nat) (e : Nat) : e ∈ reorder ord xs ↔ e ∈ xs := by
  unfold reorder
  simp only [List.mem_append, List.mem_filter, List.contains_eq_mem, decide_eq_true_eq, Bool.not_eq_eq_eq_not,
    Bool.not_true, decide_eq_false_iff_not]
  constructor
  · rintro (⟨_, h⟩ | ⟨h, _⟩) <;> exact h
  · intro h
    by_cases ho : e ∈ ord
    · exact Or.inl ⟨ho, h⟩
    · exact Or.inr ⟨h, ho⟩

theorem nodup_reorder (ord xs : List Nat) (ho : ord.Nodup) (hx : xs.Nodup) : (reorder ord xs).Nodup := by
  unfold reorder
  refine List.nodup_append.2 ⟨ho.filter _, hx.filter _, ?_⟩
  intro a ha b hb hab
  subst hab
  simp only [List.mem_filter, List.contains_eq_mem, decide_eq_true_eq, Bool.not_eq_eq_eq_not, Bool.not_true,
    decide_eq_false_iff_not] at ha hb
  exact hb.2 ha.1

/-- one pass of loop l whose pipe holds exactly one pending `g`, the subscribers of g having no scripts -/
theorem pass_one (s : State) (l g : Nat) (ord : List Nat) (h : Inv s) (hord : ord.Nodup) (hp : s.pipe l = [g])
    (hns : ∀ e ∈ subsOf s l g, (s.evs e).script = []) :
    (∀ e' g', cbCount (pass repaired s l ord) e' g' = cbCount s e' g' + (if g' = g ∧ e' ∈ subsOf s l g then 1 else 0)) ∧
    Frame l { s with pipe := upd s.pipe l [], head := upd s.head l ((hd s l + 10) % pageLen) } (pass repaired s l ord) ∧ Inv (pass repaired s l ord) := by
  have hhas : s.hasPipe l = true := by
    cases hh : s.hasPipe l with
    | true => rfl
    | false => have := h.core.pipeNil l hh; rw [hp] at this; cases this
  have h1 := setPipe_inv s l [] (upd s.head l ((hd s l + 10) % pageLen)) h hhas
  have hdn := fun e' g' => dispatch_noscript l g { s with pipe := upd s.pipe l [], head := upd s.head l ((hd s l + 10) % pageLen) } (reorder ord (subsOf s l g))
    { s with pipe := upd s.pipe l [], head := upd s.head l ((hd s l + 10) % pageLen) } h1 (nodup_reorder _ _ hord (h.core.ndSubs l g))
    (fun e he => ⟨(mem_reorder _ _ _).1 he, hns e ((mem_reorder _ _ _).1 he)⟩)
    ⟨fun _ _ => rfl, fun h0 => h0, fun _ _ => rfl, fun _ => ⟨rfl, rfl, rfl, fun hh => hh⟩⟩ e' g'
  have hpass : pass repaired s l ord =
      dispatch repaired { s with pipe := upd s.pipe l [], head := upd s.head l ((hd s l + 10) % pageLen) } l g (reorder ord (subsOf s l g)) := by
    unfold pass
    rw [hp]
    show passLoop repaired l ord 2 s = _
    unfold passLoop
    simp only [hhas, Bool.not_true, Bool.false_eq_true, ↓reduceIte, hp, List.drop_succ_cons, List.drop_nil,
      List.take_succ_cons, List.take_nil]
    show passLoop repaired l ord 1 (dispatch repaired { s with pipe := upd s.pipe l [], head := upd s.head l ((hd s l + 10) % pageLen) } l g (reorder ord (subsOf s l g))) = _
    have hnil := (hdn 0 0).2.1.pipeSelf (by simp)
    unfold passLoop
    split
    · rfl
    · rw [hnil]
  rw [hpass]
  refine ⟨fun e' g' => ?_, (hdn 0 0).2.1, (hdn 0 0).2.2⟩
  rw [(hdn e' g').1]
  simp only [mem_reorder]
  rfl

theorem pass_nil (s : State) (l : Nat) (ord : List Nat) (hp : s.pipe l = []) : pass repaired s l ord = s := by
  unfold pass
  rw [hp]
  show passLoop repaired l ord 1 s = s
  unfold passLoop
  split
  · rfl
  · rw [hp]

/-- the multi-pass count: from a state whose pipes hold at most one pending `g` each, the subscribers of g
having no scripts -/
theorem cbCount_passes (g : Nat) (ls : List (Nat × List Nat)) (s : State) (h : Inv s)
    (hq : ∀ l, s.pipe l = [] ∨ s.pipe l = [g]) (hord : ∀ p ∈ ls, p.2.Nodup)
    (hns : ∀ e, (s.evs e).enabled = true → g ∈ (s.evs e).sigs → (s.evs e).script = []) (e g' : Nat) :
    cbCount (passes s ls) e g' = cbCount s e g' +
      (if g' = g ∧ ((s.evs e).enabled = true ∧ g ∈ (s.evs e).sigs) ∧ s.pipe (s.evs e).loop = [g] ∧
          (s.evs e).loop ∈ ls.map (·.1)
       then 1 else 0) := by
  induction ls generalizing s with
  | nil => simp [passes]
  | cons p ls ih =>
    obtain ⟨l, ord⟩ := p
    show cbCount (passes (pass repaired s l ord) ls) e g' = _
    have hord' : ∀ p ∈ ls, p.2.Nodup := fun p hp => hord p (List.mem_cons_of_mem _ hp)
    rcases hq l with hp | hp
    · -- nothing pending for l
      rw [pass_nil s l ord hp, ih s h hq hord' hns]
      congr 1
      by_cases hl : (s.evs e).loop = l
      · have : ¬ s.pipe (s.evs e).loop = [g] := by rw [hl, hp]; simp
        simp [this]
      · have : ((s.evs e).loop = l ∨ (s.evs e).loop ∈ List.map (·.1) ls) ↔ (s.evs e).loop ∈ List.map (·.1) ls := by
          constructor
          · rintro (h1 | h1); exact absurd h1 hl; exact h1
          · exact Or.inr
        simp only [List.map_cons, List.mem_cons, this]
    · have hns1 : ∀ e ∈ subsOf s l g, (s.evs e).script = [] := by
        intro e1 he1
        have := (h.mem l g e1).1 he1
        exact hns e1 this.1 this.2.1
      obtain ⟨hcnt, hfr, hinv⟩ := pass_one s l g ord h (hord (l, ord) List.mem_cons_self) hp hns1
      have hq' : ∀ l', (pass repaired s l ord).pipe l' = [] ∨ (pass repaired s l ord).pipe l' = [g] := by
        intro l'
        by_cases hl : l' = l
        · subst hl; left; exact hfr.pipeSelf (by simp)
        · rw [hfr.pipeOther l' hl]
          show upd s.pipe l [] l' = [] ∨ upd s.pipe l [] l' = [g]
          simp only [upd_apply, hl, ↓reduceIte]; exact hq l'
      have hns' : ∀ e, ((pass repaired s l ord).evs e).enabled = true → g ∈ ((pass repaired s l ord).evs e).sigs →
          ((pass repaired s l ord).evs e).script = [] := by
        intro e1 hen hsg
        have hs := hfr.same e1
        rw [hs.2.1]; rw [hs.2.2.1] at hsg
        exact hns e1 (hs.2.2.2 hen) hsg
      rw [ih _ hinv hq' hord' hns', hcnt]
      by_cases hl : (s.evs e).loop = l
      · -- e lives on l: counted now, never again
        have hloop : ((pass repaired s l ord).evs e).loop = l := by rw [(hfr.same e).1]; exact hl
        have hnil : (pass repaired s l ord).pipe l = [] := hfr.pipeSelf (by simp)
        have h2 : ¬ (pass repaired s l ord).pipe ((pass repaired s l ord).evs e).loop = [g] := by rw [hloop, hnil]; simp
        have hmem : e ∈ subsOf s l g ↔ ((s.evs e).enabled = true ∧ g ∈ (s.evs e).sigs) := by
          rw [h.mem]; simp [hl]
        simp only [h2, false_and, and_false, ↓reduceIte, Nat.add_zero, hmem, hl, hp, List.map_cons, List.mem_cons,
          true_or, and_true]
      · -- e lives elsewhere: untouched
        have hev : (pass repaired s l ord).evs e = s.evs e := hfr.evsOther e hl
        have hnot : ¬ e ∈ subsOf s l g := fun hm => hl ((h.mem l g e).1 hm).2.2
        have hpipe : (pass repaired s l ord).pipe (s.evs e).loop = s.pipe (s.evs e).loop := by
          rw [hfr.pipeOther _ hl]
          show upd s.pipe l [] _ = _
          simp [hl]
        have hmemls : (s.evs e).loop ∈ List.map (·.1) ((l, ord) :: ls) ↔ (s.evs e).loop ∈ List.map (·.1) ls := by
          simp [hl]
        simp only [hnot, and_false, ↓reduceIte, Nat.add_zero, hev, hpipe, hmemls]

/-! ### round 4: bursts (several deliveries without a loop pass), pipe capacity, `read()` answers -/

theorem capOf_pos (s : State) : 0 < capOf s := by unfold capOf; split <;> omega

/-- n deliveries of g in a row, no loop pass in between, every write answered by the real pipe -/
def raises (s : State) (g : Nat) : Nat → State
  | 0 => s
  | n + 1 => raises (raise s g).1 g n

theorem raise_os_tbox (s : State) (g g' : Nat) : ((raise s g).1.os g').kind = .tbox ↔ (s.os g').kind = .tbox := by
  unfold raise raiseW; split
  · rfl
  · rfl
  · rename_i hh hk
    show (upd s.os g (kReset (s.os g)) g').kind = .tbox ↔ _
    by_cases hg : g' = g
    · subst hg
      simp only [upd_apply, ↓reduceIte]
      unfold kReset; split
      · simp [hk]
      · rfl
    · simp only [upd_apply, hg, ↓reduceIte]
  · rfl

/-- a delivery leaves an untouched first page untouched -/
theorem raise_hd (s : State) (g l : Nat) (h : hd s l = 0) : hd (raise s g).1 l = 0 := by
  unfold raise raiseW; split
  · exact h
  · exact h
  · exact h
  · show (if _ = [] then 0 else normHead s l) = 0
    split
    · rfl
    · exact h

theorem raise_small (s : State) (g : Nat) : (raise s g).1.small = s.small := by
  unfold raise raiseW; split <;> rfl

theorem raise_fdsOf (s : State) (g g' : Nat) : fdsOf (raise s g).1 g' = fdsOf s g' := by
  unfold raise raiseW; split
  · rfl
  · rfl
  · rfl
  · exact fdsOf_touchCtx s g g'

theorem raise_pipe (s : State) (g l : Nat) :
    (raise s g).1.pipe l =
      if (s.os g).kind = .tbox ∧ l ∈ fdsOf s g ∧ hd s l + (s.pipe l).length < capOf s then s.pipe l ++ [g]
      else s.pipe l := by
  unfold raise raiseW
  split <;> rename_i hk
  · simp [hk]
  · simp [hk]
  · simp [hk]
  · show appendPipes s.pipe g ((ctxOf s g).fds.filter (wrOk s [])) l = _
    simp only [appendPipes, List.mem_filter, wrOk, List.contains_eq_mem, List.not_mem_nil, decide_false, Bool.not_false,
      Bool.true_and, decide_eq_true_eq, hk, true_and]
    rfl

/-- **the pipes after a burst**: starting with `k` pending copies of g in the pipe of every subscribed loop, n more
deliveries leave `min (k + n) capacity` of them: what does not fit is dropped by the handler (EAGAIN, result ignored) -/
theorem raises_pipe (g n : Nat) (s : State) (k : Nat)
    (l : Nat) (hh : hd s l = 0)
    (hp : s.pipe l = List.replicate (if (s.os g).kind = .tbox ∧ l ∈ fdsOf s g then min k (capOf s) else 0) g) :
    (raises s g n).pipe l =
      List.replicate (if (s.os g).kind = .tbox ∧ l ∈ fdsOf s g then min (k + n) (capOf s) else 0) g := by
  induction n generalizing s k with
  | zero => exact hp
  | succ n ih =>
    show (raises (raise s g).1 g n).pipe l = _
    have hcap : capOf (raise s g).1 = capOf s := by unfold capOf; rw [raise_small]
    have hkk : (((raise s g).1.os g).kind = .tbox ∧ l ∈ fdsOf (raise s g).1 g) ↔ ((s.os g).kind = .tbox ∧ l ∈ fdsOf s g) := by
      rw [raise_os_tbox, raise_fdsOf]
    have := ih (raise s g).1 (k + 1) (raise_hd s g l hh) (by
      simp only [hkk]
      rw [raise_pipe, hh, hcap, hp, Nat.zero_add]
      by_cases hA : (s.os g).kind = .tbox ∧ l ∈ fdsOf s g
      · simp only [hA, and_self, ↓reduceIte, List.length_replicate, true_and]
        by_cases hlt : min k (capOf s) < capOf s
        · simp only [hlt, ↓reduceIte]
          have : min (k + 1) (capOf s) = min k (capOf s) + 1 := by omega
          rw [this, List.replicate_succ']
        · simp only [hlt, ↓reduceIte]
          have : min (k + 1) (capOf s) = min k (capOf s) := by omega
          rw [this]
      · have hA' : ¬ ((s.os g).kind = .tbox ∧ l ∈ fdsOf s g ∧ (List.replicate 0 g).length < capOf s) :=
          fun hh => hA ⟨hh.1, hh.2.1⟩
        simp only [hA, ↓reduceIte, hA'])
    simp only [hkk] at this
    rw [this, hcap]
    have : k + 1 + n = k + (n + 1) := by omega
    rw [this]

/-- a burst is an ordinary history: n `raise g` ops -/
theorem exec_raises (g n : Nat) (s : State) : exec repaired s (List.replicate n (Op.raise g)) = some (raises s g n) := by
  induction n generalizing s with
  | zero => rfl
  | succ n ih => simp only [List.replicate_succ, exec, valid, ↓reduceIte]; exact ih _

theorem exec_foldl (fx : Fixes) (ops : List Op) (s : State) (h : (exec fx s ops).isSome = true) :
    exec fx s ops = some (ops.foldl (step fx) s) := by
  induction ops generalizing s with
  | nil => rfl
  | cons op ops ih =>
    simp only [exec] at h ⊢
    split
    · rename_i hv; simp only [hv, ↓reduceIte] at h; exact ih _ h
    · rename_i hv; simp [hv] at h

/-- with answers that are all data (no error) and more fuel than pending numbers the read loop ends by its own
condition: the pipe is closed or empty -/
theorem passLoopC_drains (l : Nat) (ord : List Nat) (fuel : Nat) (cs : List (Option Nat)) (s : State) (h : Inv s)
    (hcs : ∀ c ∈ cs, c ≠ none) (hf : (s.pipe l).length < fuel) :
    (passLoopC repaired l ord cs fuel s).hasPipe l = false ∨ (passLoopC repaired l ord cs fuel s).pipe l = [] := by
  induction fuel generalizing s cs with
  | zero => omega
  | succ n ih =>
    have hpos : 0 < nextLen cs := by
      unfold nextLen
      cases cs with
      | nil => simp
      | cons c r =>
        cases c with
        | none => exact absurd rfl (hcs none List.mem_cons_self)
        | some c => simp only [chunkLen]; omega
    unfold passLoopC
    by_cases hpipe : s.hasPipe l = true
    · simp only [hpipe, Bool.not_true, Bool.false_eq_true, ↓reduceIte]
      split
      · rename_i hnil; right; exact hnil
      · rename_i hne
        have hn0 : ¬ nextLen cs = 0 := by omega
        simp only [hn0, ↓reduceIte]
        have h1 := setPipe_inv s l ((s.pipe l).drop (nextLen cs)) (upd s.head l ((hd s l + nextLen cs) % pageLen)) h hpipe
        refine ih _ _ (passChunk_inv _ l ord _ h1) (fun c hc => hcs c (List.mem_of_mem_tail hc)) ?_
        have hlen : ((s.pipe l).drop (nextLen cs)).length < n := by
          have : (s.pipe l).length ≠ 0 := by
            intro h0; exact hne (List.length_eq_zero_iff.1 h0)
          rw [List.length_drop]; omega
        rcases pipeMono_passChunk _ l ord ((s.pipe l).take (nextLen cs)) h1 l with hm | hm
        · rw [hm]; simpa using hlen
        · rw [hm]; simp only [List.length_nil]; omega
    · left; simp only [hpipe, Bool.not_false, ↓reduceIte]

/-- without injected answers `passC` is `pass` -/
theorem passLoopC_nil (fx : Fixes) (l : Nat) (ord : List Nat) (fuel : Nat) (s : State) :
    passLoopC fx l ord [] fuel s = passLoop fx l ord fuel s := by
  induction fuel generalizing s with
  | zero => unfold passLoopC passLoop; rfl
  | succ n ih =>
    unfold passLoopC passLoop
    split
    · rfl
    · split
      · rfl
      · simp only [nextLen, List.tail_nil]
        exact ih _

end Tbox.C04
