/- C04 — (1) the disposition underneath tbox's handler (`baseDisp`) is invariant under every step that is not a
   user `sigaction` on that signal; (2) delivery: what one raise followed by loop passes does to the callback log. -/
import TboxModel.C04.Inv
namespace Tbox.C04

/-! ### generic induction over the dispatch loop -/

theorem dispatch_ind (l g : Nat) (P : State → Prop)
    (hP : ∀ s e, Inv s → e ∈ subsOf s l g → P s → P (evOnSignal s l e g))
    (s : State) (todo : List Nat) (h : Inv s) (hnd : todo.Nodup) (hm : ∀ e ∈ todo, e ∈ subsOf s l g)
    (hp : P s) : P (dispatch s l g todo) := by
  induction todo generalizing s with
  | nil => exact hp
  | cons e es ih =>
    rw [List.nodup_cons] at hnd
    have h1 := evOnSignal_inv s l e g h (hm e List.mem_cons_self)
    refine ih _ h1 hnd.2 ?_ (hP s e h (hm e List.mem_cons_self) hp)
    intro e' he'
    have hne : e' ≠ e := fun hh => hnd.1 (hh ▸ he')
    rw [h1.mem, evOnSignal_evs_other s l e g e' hne]
    exact (h.mem l g e').1 (hm e' (List.mem_cons_of_mem _ he'))

theorem passItems_ind (l : Nat) (P : State → Prop)
    (hP : ∀ g s e, Inv s → e ∈ subsOf s l g → P s → P (evOnSignal s l e g))
    (s : State) (items : List Nat) (h : Inv s) (hp : P s) : P (passItems s l items) := by
  induction items generalizing s with
  | nil => exact hp
  | cons g gs ih =>
    exact ih _ (dispatch_inv s l g _ h (h.core.ndSubs l g) (fun _ he => he))
      (dispatch_ind l g P (hP g) s _ h (h.core.ndSubs l g) (fun _ he => he) hp)

/-- the state in which `pass` starts dispatching -/
def drained (s : State) (l : Nat) : State := { s with pipe := upd s.pipe l [] }

theorem drained_inv (s : State) (l : Nat) (h : Inv s) : Inv (drained s l) := by
  refine inv_of_core h ?_ rfl rfl rfl rfl
  have hc := h.core
  refine ⟨hc.fdsIff, hc.ctxSome, hc.osTbox, hc.oldOk, hc.entries, hc.pipeIff, ?_, hc.ndSubs, hc.ndFds⟩
  intro l' hp
  show upd s.pipe l [] l' = []
  by_cases hl : l' = l
  · simp [hl]
  · simp only [upd_apply, hl, ↓reduceIte]; exact hc.pipeNil l' hp

theorem pass_eq (s : State) (l : Nat) : pass s l = passItems (drained s l) l (s.pipe l) := rfl

/-! ### baseDisp -/

theorem baseDisp_enable (s : State) (e g : Nat) (h : Inv s) : baseDisp (enable s e).1 g = baseDisp s g := by
  unfold enable
  by_cases ha : (s.evs e).alive = true
  · simp only [ha, Bool.not_true, Bool.false_eq_true, ↓reduceIte, baseDisp_setEv]
    split
    · exact baseDisp_subscribeAll _ _ _ _ _ h.core
    · rfl
  · simp [ha]

theorem baseDisp_disable (s : State) (e g : Nat) (h : Inv s) : baseDisp (disable s e).1 g = baseDisp s g := by
  unfold disable
  by_cases ha : (s.evs e).alive = true
  · simp only [ha, Bool.not_true, Bool.false_eq_true, ↓reduceIte, baseDisp_setEv]
    split
    · rename_i hen
      refine baseDisp_unsubscribeAll _ _ _ _ _ h.core (h.sigsNd e) ?_
      intro g' hg'
      exact (h.mem _ g' e).2 ⟨hen, hg', rfl⟩
    · rfl
  · simp [ha]

theorem baseDisp_destroy (s : State) (e g : Nat) (h : Inv s) : baseDisp (destroy s e).1 g = baseDisp s g := by
  unfold destroy
  by_cases ha : (s.evs e).alive = true
  · simp only [ha, Bool.not_true, Bool.false_eq_true, ↓reduceIte, baseDisp_setEv]
    exact baseDisp_disable s e g h
  · simp [ha]

theorem baseDisp_evOnSignal (s : State) (l e g g' : Nat) (h : Inv s) :
    baseDisp (evOnSignal s l e g) g' = baseDisp s g' := by
  unfold evOnSignal
  show baseDisp (if (s.evs e).oneshot = true then (disable s e).1 else s) g' = _
  split
  · exact baseDisp_disable s e g' h
  · rfl

theorem baseDisp_pass (s : State) (l g : Nat) (h : Inv s) : baseDisp (pass s l) g = baseDisp s g := by
  rw [pass_eq]
  have : baseDisp (drained s l) g = baseDisp s g := rfl
  rw [← this]
  exact passItems_ind l (fun s' => baseDisp s' g = baseDisp (drained s l) g)
    (fun g0 s' e hi _ hp => by rw [baseDisp_evOnSignal s' l e g0 g hi]; exact hp) _ _ (drained_inv s l h) rfl

theorem baseDisp_raise (s : State) (g' g : Nat) (h : Inv s) : baseDisp (raise s g').1 g = baseDisp s g := by
  unfold raise
  split
  · rfl
  · rfl
  · rfl
  · rename_i hk
    have hsome := (h.core.osTbox g').1 hk
    obtain ⟨c, hcx⟩ := Option.isSome_iff_exists.1 hsome
    have hctx : ctxOf s g' = c := by simp [ctxOf, hcx]
    have hupd : upd s.ctxs g' (some (ctxOf s g')) = s.ctxs := by
      funext i; by_cases hi : i = g'
      · subst hi; simp [hctx, hcx]
      · simp [hi]
    simp only [hupd]; rfl

/-- the only step that changes the disposition underneath tbox's handler is the user's own `sigaction` -/
theorem baseDisp_step (s : State) (op : Op) (g : Nat) (h : Inv s) (hu : ∀ d, op ≠ .setDisp g d) :
    baseDisp (step s op) g = baseDisp s g := by
  cases op with
  | newEv l => rfl
  | init e sigs o =>
    show baseDisp (initEv s e sigs o).1 g = _
    unfold initEv
    by_cases ha : (s.evs e).alive = true
    · simp [ha]
    · simp [ha]
  | enable e => exact baseDisp_enable s e g h
  | disable e => exact baseDisp_disable s e g h
  | destroy e => exact baseDisp_destroy s e g h
  | setDisp g' d =>
    show baseDisp (setDisp s g' d).1 g = _
    have hne : g ≠ g' := fun hh => hu d (by rw [hh])
    unfold setDisp; split
    · rfl
    · unfold baseDisp; simp [hne]
  | raise g' => exact baseDisp_raise s g' g h
  | pass l => exact baseDisp_pass s l g h

theorem baseDisp_exec (s : State) (ops : List Op) (g : Nat) (h : Inv s) (hu : ∀ d, Op.setDisp g d ∉ ops)
    (s' : State) (he : exec s ops = some s') : baseDisp s' g = baseDisp s g := by
  induction ops generalizing s with
  | nil => simp only [exec, Option.some.injEq] at he; rw [← he]
  | cons op ops ih =>
    simp only [exec] at he
    split at he
    · rename_i hv
      rw [ih _ (step_inv s op h hv) (fun d hd => hu d (List.mem_cons_of_mem _ hd)) he]
      exact baseDisp_step s op g h (fun d hd => hu d (hd ▸ List.mem_cons_self))
    · cases he

/-- nobody subscribed ⇒ no ctx ⇒ the kernel disposition IS the base disposition -/
theorem baseDisp_eq_os_of_no_subscriber (s : State) (g : Nat) (h : Inv s)
    (hno : ∀ e, ¬ ((s.evs e).enabled = true ∧ g ∈ (s.evs e).sigs)) : baseDisp s g = s.os g := by
  unfold baseDisp
  cases hc : s.ctxs g with
  | none => rfl
  | some c =>
    exfalso
    have hf := (h.core.ctxSome g).1 (by simp [hc])
    obtain ⟨l, hl⟩ := ne_nil_iff_exists_mem.1 hf
    obtain ⟨e, he⟩ := ne_nil_iff_exists_mem.1 ((h.core.fdsIff g l).1 hl)
    have := (h.mem l g e).1 he
    exact hno e ⟨this.1, this.2.1⟩

/-! ### delivery: counting callbacks -/

/-- number of logged callbacks of event e for signal g -/
def cbCount (s : State) (e g : Nat) : Nat := (s.cbs.filter (fun c => c.ev == e && c.sig == g)).length

def passes (s : State) (ls : List Nat) : State := ls.foldl pass s

theorem cbCount_evOnSignal (s : State) (l e g e' g' : Nat) :
    cbCount (evOnSignal s l e g) e' g' = cbCount s e' g' + (if e' = e ∧ g' = g then 1 else 0) := by
  unfold evOnSignal cbCount
  have hcb : (if (s.evs e).oneshot = true then (disable s e).1 else s).cbs = s.cbs := by
    split
    · exact disable_cbs s e
    · rfl
  simp only [setEv, hcb, List.filter_cons]
  by_cases he : e' = e
  · by_cases hg : g' = g
    · subst he hg; simp
    · have : (g == g') = false := by simp; exact fun hh => hg hh.symm
      simp [hg, this]
  · have : (e == e') = false := by simp; exact fun hh => he hh.symm
    simp [he, this]

/-- everything the multi-pass argument needs to know about one `onSignal` call -/
structure Frame (l : Nat) (s0 s : State) : Prop where
  pipeOther : ∀ l', l' ≠ l → s.pipe l' = s0.pipe l'
  pipeSelf  : s0.pipe l = [] → s.pipe l = []
  evsOther  : ∀ e, (s0.evs e).loop ≠ l → s.evs e = s0.evs e
  loopSame  : ∀ e, (s.evs e).loop = (s0.evs e).loop

theorem frame_evOnSignal (l g : Nat) (s0 s : State) (e : Nat) (hi : Inv s) (hm : e ∈ subsOf s l g)
    (hf : Frame l s0 s) : Frame l s0 (evOnSignal s l e g) := by
  have hloop : (s.evs e).loop = l := ((hi.mem l g e).1 hm).2.2
  have hpipe : ∀ l', (evOnSignal s l e g).pipe l' = s.pipe l' ∨ (l' = l ∧ (evOnSignal s l e g).pipe l' = []) := by
    intro l'
    unfold evOnSignal
    show (if (s.evs e).oneshot = true then (disable s e).1 else s).pipe l' = _ ∨ (_ ∧ (if (s.evs e).oneshot = true then (disable s e).1 else s).pipe l' = _)
    split
    · have := disable_pipe_frame s e l'; rw [hloop] at this; exact this
    · left; rfl
  refine ⟨?_, ?_, ?_, ?_⟩
  · intro l' hl'
    rcases hpipe l' with h1 | h1
    · rw [h1]; exact hf.pipeOther l' hl'
    · exact absurd h1.1 hl'
  · intro h0
    rcases hpipe l with h1 | h1
    · rw [h1]; exact hf.pipeSelf h0
    · exact h1.2
  · intro e' he'
    have hne : e' ≠ e := by
      intro hh; subst hh
      apply he'; rw [← hf.loopSame, hloop]
    rw [evOnSignal_evs_other s l e g e' hne]; exact hf.evsOther e' he'
  · intro e'
    by_cases hne : e' = e
    · subst hne
      rw [← hf.loopSame]
      unfold evOnSignal
      simp only [setEv, upd_apply, ↓reduceIte]
      split
      · rw [disable_evs_self]; split <;> rfl
      · rfl
    · rw [evOnSignal_evs_other s l e g e' hne]; exact hf.loopSame e'

theorem cbCount_dispatch (s : State) (l g : Nat) (todo : List Nat) (hnd : todo.Nodup) (e' g' : Nat) :
    cbCount (dispatch s l g todo) e' g' = cbCount s e' g' + (if g' = g ∧ e' ∈ todo then 1 else 0) := by
  induction todo generalizing s with
  | nil => simp [dispatch]
  | cons e es ih =>
    rw [List.nodup_cons] at hnd
    rw [dispatch, ih _ hnd.2, cbCount_evOnSignal]
    by_cases hg : g' = g
    · subst hg
      by_cases he : e' = e
      · subst he; simp [hnd.1]
      · simp [he]
    · simp [hg]

/-- one pass of loop l whose pipe holds exactly one pending `g` -/
theorem pass_one (s : State) (l g : Nat) (h : Inv s) (hp : s.pipe l = [g]) :
    (∀ e' g', cbCount (pass s l) e' g' = cbCount s e' g' + (if g' = g ∧ e' ∈ subsOf s l g then 1 else 0)) ∧
    Frame l (drained s l) (pass s l) := by
  rw [pass_eq, hp]
  show (∀ e' g', cbCount (dispatch (drained s l) l g (subsOf (drained s l) l g)) e' g' = _) ∧
    Frame l (drained s l) (dispatch (drained s l) l g (subsOf (drained s l) l g))
  constructor
  · intro e' g'
    have hs : subsOf (drained s l) l g = subsOf s l g := rfl
    rw [hs, cbCount_dispatch _ _ _ _ (h.core.ndSubs l g)]
    rfl
  · exact dispatch_ind l g (Frame l (drained s l)) (fun s' e hi hm hf => frame_evOnSignal l g _ s' e hi hm hf)
      _ _ (drained_inv s l h) (h.core.ndSubs l g) (fun _ he => he)
      ⟨fun _ _ => rfl, fun h0 => h0, fun _ _ => rfl, fun _ => rfl⟩

theorem pass_nil (s : State) (l : Nat) (hp : s.pipe l = []) : pass s l = s := by
  rw [pass_eq, hp]
  show drained s l = s
  unfold drained
  have : upd s.pipe l [] = s.pipe := by
    funext i; by_cases hi : i = l
    · subst hi; simp [hp]
    · simp [hi]
  rw [this]

/-- the multi-pass count: from a state whose pipes hold at most one pending `g` each -/
theorem cbCount_passes (g : Nat) (ls : List Nat) (s : State) (h : Inv s)
    (hq : ∀ l, s.pipe l = [] ∨ s.pipe l = [g]) (e g' : Nat) :
    cbCount (passes s ls) e g' = cbCount s e g' +
      (if g' = g ∧ ((s.evs e).enabled = true ∧ g ∈ (s.evs e).sigs) ∧ s.pipe (s.evs e).loop = [g] ∧ (s.evs e).loop ∈ ls
       then 1 else 0) := by
  induction ls generalizing s with
  | nil => simp [passes]
  | cons l ls ih =>
    show cbCount (passes (pass s l) ls) e g' = _
    rcases hq l with hp | hp
    · -- nothing pending for l
      rw [pass_nil s l hp, ih s h hq]
      congr 1
      by_cases hl : (s.evs e).loop = l
      · have : ¬ s.pipe (s.evs e).loop = [g] := by rw [hl, hp]; simp
        simp [this]
      · simp [hl]
    · obtain ⟨hcnt, hfr⟩ := pass_one s l g h hp
      have hinv := pass_inv s l h
      have hq' : ∀ l', (pass s l).pipe l' = [] ∨ (pass s l).pipe l' = [g] := by
        intro l'
        by_cases hl : l' = l
        · subst hl; left; exact hfr.pipeSelf (by simp [drained])
        · rw [hfr.pipeOther l' hl]
          show upd s.pipe l [] l' = [] ∨ upd s.pipe l [] l' = [g]
          simp only [upd_apply, hl, ↓reduceIte]; exact hq l'
      rw [ih _ hinv hq', hcnt]
      by_cases hl : (s.evs e).loop = l
      · -- e lives on l: counted now, never again
        have hloop : ((pass s l).evs e).loop = l := by rw [hfr.loopSame]; exact hl
        have hnil : (pass s l).pipe l = [] := hfr.pipeSelf (by simp [drained])
        have h2 : ¬ (pass s l).pipe ((pass s l).evs e).loop = [g] := by rw [hloop, hnil]; simp
        have hmem : e ∈ subsOf s l g ↔ ((s.evs e).enabled = true ∧ g ∈ (s.evs e).sigs) := by
          rw [h.mem]; simp [hl]
        simp only [h2, false_and, and_false, ↓reduceIte, Nat.add_zero, hmem, hl, hp, List.mem_cons, true_or, and_true]
      · -- e lives elsewhere: untouched
        have hev : (pass s l).evs e = s.evs e := hfr.evsOther e hl
        have hnot : ¬ e ∈ subsOf s l g := fun hm => hl ((h.mem l g e).1 hm).2.2
        have hpipe : (pass s l).pipe (s.evs e).loop = s.pipe (s.evs e).loop := by
          rw [hfr.pipeOther _ hl]
          show upd s.pipe l [] _ = _
          simp [hl]
        have hmemls : (s.evs e).loop ∈ l :: ls ↔ (s.evs e).loop ∈ ls := by simp [hl]
        simp only [hnot, and_false, ↓reduceIte, Nat.add_zero, hev, hpipe, hmemls]

end Tbox.C04
