/- C04 — the full inductive invariant (bookkeeping ↔ event objects) and its preservation by every step. -/
import TboxModel.C04.Core
namespace Tbox.C04

/-- a logged callback is legitimate -/
structure CbOk (c : Cb) : Prop where
  ownLoop    : c.loop = c.evLoop                       -- made by the pass of the event's own loop
  subscribed : c.subscribed = true                     -- the event was enabled and subscribed to that signal
  oneshot    : c.oneshot = true → c.enabledInCb = false ∧ c.firedBefore = 0
  persist    : c.oneshot = false → c.enabledInCb = true

structure Inv (s : State) : Prop where
  core   : Core s
  /-- per-loop subscriber sets = enabled events of that loop whose set contains the signal -/
  mem    : ∀ l g e, e ∈ subsOf s l g ↔ ((s.evs e).enabled = true ∧ g ∈ (s.evs e).sigs ∧ (s.evs e).loop = l)
  dead   : ∀ e, (s.evs e).alive = false → (s.evs e).enabled = false
  uninit : ∀ e, (s.evs e).inited = false → (s.evs e).sigs = []
  sigsNd : ∀ e, (s.evs e).sigs.Nodup
  fresh  : ∀ e, s.nEv ≤ e → (s.evs e).alive = false
  once   : ∀ e, (s.evs e).oneshot = true → (s.evs e).enabled = true → (s.evs e).fired = 0
  cbsOk  : ∀ c ∈ s.cbs, CbOk c

theorem init_inv : Inv init := by
  refine ⟨init_core, ?_, ?_, ?_, ?_, ?_, ?_, ?_⟩ <;> intros <;> simp_all [init, subsOf, Map.find]

/-- `Core` only looks at the bookkeeping fields -/
theorem core_congr {s s' : State} (h : Core s) (h1 : s'.os = s.os) (h2 : s'.ctxs = s.ctxs) (h3 : s'.subs = s.subs)
    (h4 : s'.hasPipe = s.hasPipe) (h5 : s'.pipe = s.pipe) : Core s' := by
  obtain ⟨os, ctxs, subs, hp, pipe, evs, n, calls, cbs⟩ := s
  obtain ⟨os', ctxs', subs', hp', pipe', evs', n', calls', cbs'⟩ := s'
  simp only at h1 h2 h3 h4 h5
  subst h1 h2 h3 h4 h5
  exact ⟨h.1, h.2, h.3, h.4, h.5, h.6, h.7, h.8, h.9⟩

theorem subsOf_congr {s s' : State} (h : s'.subs = s.subs) (l g : Nat) : subsOf s' l g = subsOf s l g := by
  unfold subsOf; rw [h]

/-! ### enable: subscribe to every signal of the set -/

theorem subscribeAll_core (s : State) (l e : Nat) (gs : List Nat) (h : Core s) : Core (subscribeAll s l e gs) := by
  induction gs generalizing s with
  | nil => exact h
  | cons g gs ih => exact ih _ (subscribe_core s l g e h)

theorem subscribeAll_evs (s : State) (l e : Nat) (gs : List Nat) : (subscribeAll s l e gs).evs = s.evs := by
  induction gs generalizing s with
  | nil => rfl
  | cons g gs ih => rw [subscribeAll, ih, subscribe_evs]

theorem subscribeAll_nEv (s : State) (l e : Nat) (gs : List Nat) : (subscribeAll s l e gs).nEv = s.nEv := by
  induction gs generalizing s with
  | nil => rfl
  | cons g gs ih => rw [subscribeAll, ih, subscribe_nEv]

theorem subscribeAll_cbs (s : State) (l e : Nat) (gs : List Nat) : (subscribeAll s l e gs).cbs = s.cbs := by
  induction gs generalizing s with
  | nil => rfl
  | cons g gs ih => rw [subscribeAll, ih, subscribe_cbs]

theorem subscribeAll_calls (s : State) (l e : Nat) (gs : List Nat) : (subscribeAll s l e gs).calls = s.calls := by
  induction gs generalizing s with
  | nil => rfl
  | cons g gs ih => rw [subscribeAll, ih, subscribe_calls]

theorem mem_subsOf_subscribeAll (s : State) (l e : Nat) (gs : List Nat) (l' g' e' : Nat) :
    e' ∈ subsOf (subscribeAll s l e gs) l' g' ↔ e' ∈ subsOf s l' g' ∨ (l' = l ∧ g' ∈ gs ∧ e' = e) := by
  induction gs generalizing s with
  | nil => simp [subscribeAll]
  | cons g gs ih =>
    rw [subscribeAll, ih, subsOf_subscribe]
    by_cases hc : l' = l ∧ g' = g
    · obtain ⟨rfl, rfl⟩ := hc
      simp only [and_self, ↓reduceIte, mem_ins, List.mem_cons, true_or, true_and]
      constructor
      · rintro ((h | h) | ⟨_, h⟩)
        · exact Or.inr h
        · exact Or.inl h
        · exact Or.inr h
      · rintro (h | h)
        · exact Or.inl (Or.inr h)
        · exact Or.inl (Or.inl h)
    · simp only [hc, ↓reduceIte, List.mem_cons]
      constructor
      · rintro (h | ⟨h1, h2, h3⟩)
        · exact Or.inl h
        · exact Or.inr ⟨h1, Or.inr h2, h3⟩
      · rintro (h | ⟨h1, h2 | h2, h3⟩)
        · exact Or.inl h
        · exact absurd ⟨h1, h2⟩ hc
        · exact Or.inr ⟨h1, h2, h3⟩

theorem baseDisp_subscribeAll (s : State) (l e : Nat) (gs : List Nat) (g' : Nat) (h : Core s) :
    baseDisp (subscribeAll s l e gs) g' = baseDisp s g' := by
  induction gs generalizing s with
  | nil => rfl
  | cons g gs ih => rw [subscribeAll, ih _ (subscribe_core s l g e h), baseDisp_subscribe s l g e g' h]

/-! ### disable: unsubscribe from every signal of the set -/

theorem unsubscribeAll_core (s : State) (l e : Nat) (gs : List Nat) (h : Core s) : Core (unsubscribeAll s l e gs) := by
  induction gs generalizing s with
  | nil => exact h
  | cons g gs ih => exact ih _ (unsubscribe_core s l g e h)

theorem unsubscribeAll_evs (s : State) (l e : Nat) (gs : List Nat) : (unsubscribeAll s l e gs).evs = s.evs := by
  induction gs generalizing s with
  | nil => rfl
  | cons g gs ih => rw [unsubscribeAll, ih, unsubscribe_evs]

theorem unsubscribeAll_nEv (s : State) (l e : Nat) (gs : List Nat) : (unsubscribeAll s l e gs).nEv = s.nEv := by
  induction gs generalizing s with
  | nil => rfl
  | cons g gs ih => rw [unsubscribeAll, ih, unsubscribe_nEv]

theorem unsubscribeAll_cbs (s : State) (l e : Nat) (gs : List Nat) : (unsubscribeAll s l e gs).cbs = s.cbs := by
  induction gs generalizing s with
  | nil => rfl
  | cons g gs ih => rw [unsubscribeAll, ih, unsubscribe_cbs]

theorem unsubscribeAll_calls (s : State) (l e : Nat) (gs : List Nat) : (unsubscribeAll s l e gs).calls = s.calls := by
  induction gs generalizing s with
  | nil => rfl
  | cons g gs ih => rw [unsubscribeAll, ih, unsubscribe_calls]

theorem mem_subsOf_unsubscribeAll (s : State) (l e : Nat) (gs : List Nat) (l' g' e' : Nat) :
    e' ∈ subsOf (unsubscribeAll s l e gs) l' g' ↔ e' ∈ subsOf s l' g' ∧ ¬ (l' = l ∧ g' ∈ gs ∧ e' = e) := by
  induction gs generalizing s with
  | nil => simp [unsubscribeAll]
  | cons g gs ih =>
    rw [unsubscribeAll, ih, subsOf_unsubscribe]
    by_cases hc : l' = l ∧ g' = g
    · obtain ⟨rfl, rfl⟩ := hc
      simp only [and_self, ↓reduceIte, mem_del, List.mem_cons, true_or, true_and]
      constructor
      · rintro ⟨⟨h1, h2⟩, _⟩; exact ⟨h1, h2⟩
      · rintro ⟨h1, h2⟩; exact ⟨⟨h1, h2⟩, fun hh => h2 hh.2⟩
    · simp only [hc, ↓reduceIte, List.mem_cons]
      constructor
      · rintro ⟨h1, h2⟩
        refine ⟨h1, ?_⟩
        rintro ⟨ha, hb | hb, hd⟩
        · exact hc ⟨ha, hb⟩
        · exact h2 ⟨ha, hb, hd⟩
      · rintro ⟨h1, h2⟩
        exact ⟨h1, fun ⟨ha, hb, hd⟩ => h2 ⟨ha, Or.inr hb, hd⟩⟩

theorem baseDisp_unsubscribeAll (s : State) (l e : Nat) (gs : List Nat) (g' : Nat) (h : Core s)
    (hnd : gs.Nodup) (hm : ∀ g ∈ gs, e ∈ subsOf s l g) :
    baseDisp (unsubscribeAll s l e gs) g' = baseDisp s g' := by
  induction gs generalizing s with
  | nil => rfl
  | cons g gs ih =>
    rw [List.nodup_cons] at hnd
    rw [unsubscribeAll, ih _ (unsubscribe_core s l g e h) hnd.2, baseDisp_unsubscribe s l g e g' h (hm g List.mem_cons_self)]
    intro g2 hg2
    rw [subsOf_unsubscribe]
    have : g2 ≠ g := fun hh => hnd.1 (hh ▸ hg2)
    simp only [this, and_false, ↓reduceIte]
    exact hm g2 (List.mem_cons_of_mem _ hg2)

/-- a loop's pipe is only ever touched by its own (un)subscriptions, and then only emptied -/
theorem unsubscribe_pipe_frame (s : State) (l g e l' : Nat) :
    (unsubscribe s l g e).pipe l' = s.pipe l' ∨ (l' = l ∧ (unsubscribe s l g e).pipe l' = []) := by
  rw [unsubscribe_pipe]
  split
  · by_cases hl : l' = l
    · right; simp [hl]
    · left; simp [hl]
  · left; rfl

theorem unsubscribeAll_pipe_frame (s : State) (l e : Nat) (gs : List Nat) (l' : Nat) :
    (unsubscribeAll s l e gs).pipe l' = s.pipe l' ∨ (l' = l ∧ (unsubscribeAll s l e gs).pipe l' = []) := by
  induction gs generalizing s with
  | nil => left; rfl
  | cons g gs ih =>
    rw [unsubscribeAll]
    rcases ih (unsubscribe s l g e) with h1 | h1
    · rcases unsubscribe_pipe_frame s l g e l' with h2 | h2
      · left; rw [h1, h2]
      · right; exact ⟨h2.1, by rw [h1, h2.2]⟩
    · right; exact h1

/-! ### setEv on top of a state whose bookkeeping is in order -/

theorem setEv_core {s : State} (e : Nat) (v : Ev) (h : Core s) : Core (setEv s e v) :=
  core_congr h rfl rfl rfl rfl rfl

@[simp] theorem setEv_evs (s : State) (e : Nat) (v : Ev) (i : Nat) :
    (setEv s e v).evs i = if i = e then v else s.evs i := rfl
@[simp] theorem setEv_subsOf (s : State) (e : Nat) (v : Ev) (l g : Nat) : subsOf (setEv s e v) l g = subsOf s l g := rfl
@[simp] theorem setEv_cbs (s : State) (e : Nat) (v : Ev) : (setEv s e v).cbs = s.cbs := rfl
@[simp] theorem setEv_nEv (s : State) (e : Nat) (v : Ev) : (setEv s e v).nEv = s.nEv := rfl
@[simp] theorem setEv_calls (s : State) (e : Nat) (v : Ev) : (setEv s e v).calls = s.calls := rfl
@[simp] theorem setEv_pipe (s : State) (e : Nat) (v : Ev) : (setEv s e v).pipe = s.pipe := rfl
@[simp] theorem setEv_os (s : State) (e : Nat) (v : Ev) : (setEv s e v).os = s.os := rfl
@[simp] theorem setEv_ctxs (s : State) (e : Nat) (v : Ev) : (setEv s e v).ctxs = s.ctxs := rfl
@[simp] theorem baseDisp_setEv (s : State) (e : Nat) (v : Ev) (g : Nat) : baseDisp (setEv s e v) g = baseDisp s g := rfl

/-! ### the API calls -/

theorem enable_inv (s : State) (e : Nat) (h : Inv s) : Inv (enable s e).1 := by
  unfold enable
  by_cases ha : (s.evs e).alive = true
  case neg => simp only [ha, Bool.not_false, ↓reduceIte]; exact h
  simp only [ha, Bool.not_true, Bool.false_eq_true, ↓reduceIte]
  -- s1: after the subscriptions
  have key : ∀ s1 : State, Core s1 → s1.evs = s.evs → s1.nEv = s.nEv → s1.cbs = s.cbs →
      (∀ l g e', e' ∈ subsOf s1 l g ↔ e' ∈ subsOf s l g ∨ (l = (s.evs e).loop ∧ g ∈ (s.evs e).sigs ∧ e' = e)) →
      Inv (setEv s1 e { s.evs e with enabled := true, fired := if (s.evs e).enabled then (s.evs e).fired else 0 }) := by
    intro s1 hc hev hn hcb hmem
    refine ⟨setEv_core _ _ hc, ?_, ?_, ?_, ?_, ?_, ?_, ?_⟩
    · intro l g e'
      rw [setEv_subsOf, hmem, h.mem]
      by_cases he : e' = e
      · subst he
        simp only [setEv_evs, ↓reduceIte, true_and, and_true]
        constructor
        · rintro (⟨_, h2, h3⟩ | ⟨h1, h2⟩)
          · exact ⟨h2, h3⟩
          · exact ⟨h2, h1.symm⟩
        · rintro ⟨h1, h2⟩; exact Or.inr ⟨h2.symm, h1⟩
      · simp [he, hev]
    · intro e' hd
      by_cases he : e' = e
      · subst he; simp [ha] at hd
      · simp only [setEv_evs, he, ↓reduceIte, hev] at hd ⊢; exact h.dead e' hd
    · intro e' hd
      by_cases he : e' = e
      · subst he; simp only [setEv_evs, ↓reduceIte] at hd ⊢; exact h.uninit e' hd
      · simp only [setEv_evs, he, ↓reduceIte, hev] at hd ⊢; exact h.uninit e' hd
    · intro e'
      by_cases he : e' = e
      · subst he; simp only [setEv_evs, ↓reduceIte]; exact h.sigsNd e'
      · simp only [setEv_evs, he, ↓reduceIte, hev]; exact h.sigsNd e'
    · intro e' hn'
      rw [setEv_nEv, hn] at hn'
      by_cases he : e' = e
      · subst he; have := h.fresh e' hn'; simp [ha] at this
      · simp only [setEv_evs, he, ↓reduceIte, hev]; exact h.fresh e' hn'
    · intro e' ho hen
      by_cases he : e' = e
      · subst he
        simp only [setEv_evs, ↓reduceIte] at ho ⊢
        by_cases hen0 : (s.evs e').enabled = true
        · simp only [hen0, ↓reduceIte]; exact h.once e' ho hen0
        · simp [hen0]
      · simp only [setEv_evs, he, ↓reduceIte, hev] at ho hen ⊢; exact h.once e' ho hen
    · intro c hc'; rw [setEv_cbs, hcb] at hc'; exact h.cbsOk c hc'
  by_cases hi : (s.evs e).inited = true
  · simp only [hi, ↓reduceIte]
    have := key _ (subscribeAll_core s (s.evs e).loop e (s.evs e).sigs h.core) (subscribeAll_evs _ _ _ _) (subscribeAll_nEv _ _ _ _)
      (subscribeAll_cbs _ _ _ _) (fun l g e' => mem_subsOf_subscribeAll _ _ _ _ _ _ _)
    simp only [ha, hi] at this; exact this
  · simp only [hi, Bool.false_eq_true, ↓reduceIte]
    have hs : (s.evs e).sigs = [] := h.uninit e (by simpa using hi)
    have := key s h.core rfl rfl rfl (fun l g e' => by simp [hs])
    have hi' : (s.evs e).inited = false := by simpa using hi
    simp only [ha, hi'] at this; exact this

theorem disable_inv (s : State) (e : Nat) (h : Inv s) : Inv (disable s e).1 := by
  unfold disable
  by_cases ha : (s.evs e).alive = true
  case neg => simp only [ha, Bool.not_false, ↓reduceIte]; exact h
  simp only [ha, Bool.not_true, Bool.false_eq_true, ↓reduceIte]
  have key : ∀ s1 : State, Core s1 → s1.evs = s.evs → s1.nEv = s.nEv → s1.cbs = s.cbs →
      (∀ l g e', e' ∈ subsOf s1 l g ↔ e' ∈ subsOf s l g ∧ ¬ (e' = e)) →
      Inv (setEv s1 e { s.evs e with enabled := false }) := by
    intro s1 hc hev hn hcb hmem
    refine ⟨setEv_core _ _ hc, ?_, ?_, ?_, ?_, ?_, ?_, ?_⟩
    · intro l g e'
      rw [setEv_subsOf, hmem, h.mem]
      by_cases he : e' = e
      · subst he; simp
      · simp [he, hev]
    · intro e' hd
      by_cases he : e' = e
      · subst he; simp
      · simp only [setEv_evs, he, ↓reduceIte, hev] at hd ⊢; exact h.dead e' hd
    · intro e' hd
      by_cases he : e' = e
      · subst he; simp only [setEv_evs, ↓reduceIte] at hd ⊢; exact h.uninit e' hd
      · simp only [setEv_evs, he, ↓reduceIte, hev] at hd ⊢; exact h.uninit e' hd
    · intro e'
      by_cases he : e' = e
      · subst he; simp only [setEv_evs, ↓reduceIte]; exact h.sigsNd e'
      · simp only [setEv_evs, he, ↓reduceIte, hev]; exact h.sigsNd e'
    · intro e' hn'
      rw [setEv_nEv, hn] at hn'
      by_cases he : e' = e
      · subst he; have := h.fresh e' hn'; simp [ha] at this
      · simp only [setEv_evs, he, ↓reduceIte, hev]; exact h.fresh e' hn'
    · intro e' ho hen
      by_cases he : e' = e
      · subst he; simp at hen
      · simp only [setEv_evs, he, ↓reduceIte, hev] at ho hen ⊢; exact h.once e' ho hen
    · intro c hc'; rw [setEv_cbs, hcb] at hc'; exact h.cbsOk c hc'
  by_cases hen : (s.evs e).enabled = true
  · simp only [hen, ↓reduceIte]
    have := key _ (unsubscribeAll_core s (s.evs e).loop e (s.evs e).sigs h.core) (unsubscribeAll_evs _ _ _ _) (unsubscribeAll_nEv _ _ _ _)
      (unsubscribeAll_cbs _ _ _ _) (fun l g e' => ?_)
    · simp only [ha] at this; exact this
    rw [mem_subsOf_unsubscribeAll]
    constructor
    · rintro ⟨h1, h2⟩
      refine ⟨h1, fun he => h2 ?_⟩
      subst he
      have := (h.mem l g e').1 h1
      exact ⟨this.2.2.symm, this.2.1, rfl⟩
    · rintro ⟨h1, h2⟩; exact ⟨h1, fun hh => h2 hh.2.2⟩
  · simp only [hen, Bool.false_eq_true, ↓reduceIte]
    have := key s h.core rfl rfl rfl (fun l g e' => ?_)
    · simp only [ha] at this; exact this
    constructor
    · intro h1
      refine ⟨h1, fun he => hen ?_⟩
      subst he; exact ((h.mem l g e').1 h1).1
    · exact fun h1 => h1.1

theorem disable_enabled (s : State) (e : Nat) (ha : (s.evs e).alive = true) :
    ((disable s e).1.evs e).enabled = false := by
  unfold disable; simp [ha]

theorem disable_evs_other (s : State) (e e' : Nat) (he : e' ≠ e) : (disable s e).1.evs e' = s.evs e' := by
  unfold disable
  by_cases ha : (s.evs e).alive = true
  · simp only [ha, Bool.not_true, Bool.false_eq_true, ↓reduceIte, setEv_evs, he]
    split
    · rw [unsubscribeAll_evs]
    · rfl
  · simp [ha]

theorem disable_evs_self (s : State) (e : Nat) :
    (disable s e).1.evs e = if (s.evs e).alive then { s.evs e with enabled := false } else s.evs e := by
  unfold disable
  by_cases ha : (s.evs e).alive = true
  · simp [ha]
  · simp [ha]

theorem disable_cbs (s : State) (e : Nat) : (disable s e).1.cbs = s.cbs := by
  unfold disable
  by_cases ha : (s.evs e).alive = true
  · simp only [ha, Bool.not_true, Bool.false_eq_true, ↓reduceIte, setEv_cbs]
    split
    · rw [unsubscribeAll_cbs]
    · rfl
  · simp [ha]

theorem disable_calls (s : State) (e : Nat) : (disable s e).1.calls = s.calls := by
  unfold disable
  by_cases ha : (s.evs e).alive = true
  · simp only [ha, Bool.not_true, Bool.false_eq_true, ↓reduceIte, setEv_calls]
    split
    · rw [unsubscribeAll_calls]
    · rfl
  · simp [ha]

theorem disable_nEv (s : State) (e : Nat) : (disable s e).1.nEv = s.nEv := by
  unfold disable
  by_cases ha : (s.evs e).alive = true
  · simp only [ha, Bool.not_true, Bool.false_eq_true, ↓reduceIte, setEv_nEv]
    split
    · rw [unsubscribeAll_nEv]
    · rfl
  · simp [ha]

theorem disable_pipe_frame (s : State) (e l' : Nat) :
    (disable s e).1.pipe l' = s.pipe l' ∨ (l' = (s.evs e).loop ∧ (disable s e).1.pipe l' = []) := by
  unfold disable
  by_cases ha : (s.evs e).alive = true
  · simp only [ha, Bool.not_true, Bool.false_eq_true, ↓reduceIte, setEv_pipe]
    split
    · exact unsubscribeAll_pipe_frame _ _ _ _ _
    · left; rfl
  · simp [ha]

theorem destroy_inv (s : State) (e : Nat) (h : Inv s) : Inv (destroy s e).1 := by
  unfold destroy
  by_cases ha : (s.evs e).alive = true
  case neg => simp only [ha, Bool.not_false, ↓reduceIte]; exact h
  simp only [ha, Bool.not_true, Bool.false_eq_true, ↓reduceIte]
  have h1 := disable_inv s e h
  have hen := disable_enabled s e ha
  generalize (disable s e).1 = s1 at h1 hen
  refine ⟨setEv_core _ _ h1.core, ?_, ?_, ?_, ?_, ?_, ?_, ?_⟩
  · intro l g e'
    rw [setEv_subsOf, h1.mem]
    by_cases he : e' = e
    · subst he; simp [hen]
    · simp [he]
  · intro e' hd
    by_cases he : e' = e
    · subst he; simp [hen]
    · simp only [setEv_evs, he, ↓reduceIte] at hd ⊢; exact h1.dead e' hd
  · intro e' hd
    by_cases he : e' = e
    · subst he; simp only [setEv_evs, ↓reduceIte] at hd ⊢; exact h1.uninit e' hd
    · simp only [setEv_evs, he, ↓reduceIte] at hd ⊢; exact h1.uninit e' hd
  · intro e'
    by_cases he : e' = e
    · subst he; simp only [setEv_evs, ↓reduceIte]; exact h1.sigsNd e'
    · simp only [setEv_evs, he, ↓reduceIte]; exact h1.sigsNd e'
  · intro e' hn'
    by_cases he : e' = e
    · subst he; simp
    · simp only [setEv_evs, he, ↓reduceIte]; exact h1.fresh e' hn'
  · intro e' ho hen'
    by_cases he : e' = e
    · subst he; simp [hen] at hen'
    · simp only [setEv_evs, he, ↓reduceIte] at ho hen' ⊢; exact h1.once e' ho hen'
  · exact h1.cbsOk

theorem initEv_inv (s : State) (e : Nat) (sigs : List Nat) (o : Bool) (h : Inv s)
    (hv : valid s (.init e sigs o) = true) : Inv (initEv s e sigs o).1 := by
  simp only [valid, Bool.and_eq_true, Bool.not_eq_eq_eq_not, Bool.not_true, decide_eq_true_eq] at hv
  unfold initEv
  by_cases ha : (s.evs e).alive = true
  case neg => simp only [ha, Bool.not_false, ↓reduceIte]; exact h
  simp only [ha, Bool.not_true, Bool.false_eq_true, ↓reduceIte]
  refine ⟨setEv_core _ _ h.core, ?_, ?_, ?_, ?_, ?_, ?_, ?_⟩
  · intro l g e'
    rw [setEv_subsOf, h.mem]
    by_cases he : e' = e
    · subst he; simp [hv.1]
    · simp [he]
  · intro e' hd
    by_cases he : e' = e
    · subst he; simp [hv.1]
    · simp only [setEv_evs, he, ↓reduceIte] at hd ⊢; exact h.dead e' hd
  · intro e' hd
    by_cases he : e' = e
    · subst he; simp at hd
    · simp only [setEv_evs, he, ↓reduceIte] at hd ⊢; exact h.uninit e' hd
  · intro e'
    by_cases he : e' = e
    · subst he; simp only [setEv_evs, ↓reduceIte]; exact hv.2
    · simp only [setEv_evs, he, ↓reduceIte]; exact h.sigsNd e'
  · intro e' hn'
    by_cases he : e' = e
    · subst he; have := h.fresh e' hn'; simp [ha] at this
    · simp only [setEv_evs, he, ↓reduceIte]; exact h.fresh e' hn'
  · intro e' ho hen'
    by_cases he : e' = e
    · subst he; simp
    · simp only [setEv_evs, he, ↓reduceIte] at ho hen' ⊢; exact h.once e' ho hen'
  · exact h.cbsOk

theorem newEv_inv (s : State) (l : Nat) (h : Inv s) : Inv (newEv s l) := by
  unfold newEv
  have hfr := h.fresh s.nEv (Nat.le_refl _)
  have hen := h.dead _ hfr
  refine ⟨core_congr h.core rfl rfl rfl rfl rfl, ?_, ?_, ?_, ?_, ?_, ?_, ?_⟩
  · intro l' g e'
    show e' ∈ subsOf s l' g ↔ _
    rw [h.mem]
    by_cases he : e' = s.nEv
    · subst he; simp [setEv, hen]
    · simp [setEv, he]
  · intro e' hd
    by_cases he : e' = s.nEv
    · subst he; simp [setEv]
    · simp only [setEv, upd_apply, he, ↓reduceIte] at hd ⊢; exact h.dead e' hd
  · intro e' hd
    by_cases he : e' = s.nEv
    · subst he; simp [setEv]
    · simp only [setEv, upd_apply, he, ↓reduceIte] at hd ⊢; exact h.uninit e' hd
  · intro e'
    by_cases he : e' = s.nEv
    · subst he; simp [setEv]
    · simp only [setEv, upd_apply, he, ↓reduceIte]; exact h.sigsNd e'
  · intro e' hn'
    have : e' ≠ s.nEv := by simp only at hn'; omega
    simp only [setEv, upd_apply, this, ↓reduceIte]
    exact h.fresh e' (by simp only at hn'; omega)
  · intro e' ho hen'
    by_cases he : e' = s.nEv
    · subst he; simp [setEv] at hen'
    · simp only [setEv, upd_apply, he, ↓reduceIte] at ho hen' ⊢; exact h.once e' ho hen'
  · exact h.cbsOk

/-- states that differ from an `Inv` state only in `os` / `ctxs` / `pipe` / `calls` keep the event part -/
theorem inv_of_core {s s' : State} (h : Inv s) (hc : Core s') (hsub : s'.subs = s.subs) (hev : s'.evs = s.evs)
    (hn : s'.nEv = s.nEv) (hcb : s'.cbs = s.cbs) : Inv s' := by
  refine ⟨hc, ?_, ?_, ?_, ?_, ?_, ?_, ?_⟩
  · intro l g e; rw [subsOf_congr hsub, hev]; exact h.mem l g e
  · rw [hev]; exact h.dead
  · rw [hev]; exact h.uninit
  · rw [hev]; exact h.sigsNd
  · rw [hev, hn]; exact h.fresh
  · rw [hev]; exact h.once
  · rw [hcb]; exact h.cbsOk

theorem setDisp_inv (s : State) (g : Nat) (d : Disp) (h : Inv s) (hv : valid s (.setDisp g d) = true) :
    Inv (setDisp s g d).1 := by
  simp only [valid, ne_eq, decide_not, Bool.not_eq_eq_eq_not, Bool.not_true, decide_eq_false_iff_not] at hv
  unfold setDisp
  by_cases hk : (s.os g).kind = .tbox
  · simp only [hk, ↓reduceIte]; exact h
  · simp only [hk, ↓reduceIte]
    refine inv_of_core h ?_ rfl rfl rfl rfl
    have hc := h.core
    refine ⟨hc.fdsIff, hc.ctxSome, ?_, hc.oldOk, hc.entries, hc.pipeIff, hc.pipeNil, hc.ndSubs, hc.ndFds⟩
    intro g'
    show (upd s.os g d g').kind = .tbox ↔ _
    by_cases hg : g' = g
    · subst hg
      simp only [upd_apply, ↓reduceIte]
      constructor
      · intro hh; exact absurd hh hv
      · intro hh; exact absurd ((hc.osTbox g').2 hh) hk
    · simp only [upd_apply, hg, ↓reduceIte]; exact hc.osTbox g'

theorem appendPipes_nil_of_not_mem (pipe : Nat → List Nat) (g : Nat) (fds : List Nat) (l : Nat) (h : l ∉ fds) :
    appendPipes pipe g fds l = pipe l := by
  simp [appendPipes, h]

theorem raise_inv (s : State) (g : Nat) (h : Inv s) : Inv (raise s g).1 := by
  unfold raise
  split
  · exact h
  · exact h
  · exact inv_of_core h (core_congr h.core rfl rfl rfl rfl rfl) rfl rfl rfl rfl
  · rename_i hk
    have hc := h.core
    have hsome := (hc.osTbox g).1 hk
    obtain ⟨c, hcx⟩ := Option.isSome_iff_exists.1 hsome
    have hctx : ctxOf s g = c := by simp [ctxOf, hcx]
    have hupd : upd s.ctxs g (some (ctxOf s g)) = s.ctxs := by
      funext i; by_cases hi : i = g
      · subst hi; simp [hctx, hcx]
      · simp [hi]
    simp only [hupd]
    refine inv_of_core h ?_ rfl rfl rfl rfl
    refine ⟨hc.fdsIff, hc.ctxSome, hc.osTbox, hc.oldOk, hc.entries, hc.pipeIff, ?_, hc.ndSubs, hc.ndFds⟩
    intro l hp
    show appendPipes s.pipe g (ctxOf s g).fds l = []
    have hnot : l ∉ (ctxOf s g).fds := by
      intro hm
      have : subsOf s l g ≠ [] := (hc.fdsIff g l).1 hm
      have : s.subs l ≠ [] := (hc.subs_ne_nil_iff l).2 ⟨g, this⟩
      have := (hc.pipeIff l).2 this
      rw [hp] at this; cases this
    rw [appendPipes_nil_of_not_mem _ _ _ _ hnot]
    exact hc.pipeNil l hp

/-! ### a loop pass -/

theorem evOnSignal_inv (s : State) (l e g : Nat) (h : Inv s) (hm : e ∈ subsOf s l g) : Inv (evOnSignal s l e g) := by
  have hmem := (h.mem l g e).1 hm
  have halive : (s.evs e).alive = true := by
    cases ha : (s.evs e).alive with
    | true => rfl
    | false => have := h.dead e ha; rw [hmem.1] at this; cases this
  unfold evOnSignal
  by_cases ho : (s.evs e).oneshot = true
  · -- one-shot: disabled first
    simp only [ho, ↓reduceIte]
    have h1 := disable_inv s e h
    have hself := disable_evs_self s e
    rw [halive] at hself
    simp only [↓reduceIte] at hself
    have hcb := disable_cbs s e
    generalize (disable s e).1 = s1 at h1 hself hcb
    refine ⟨core_congr h1.core rfl rfl rfl rfl rfl, ?_, ?_, ?_, ?_, ?_, ?_, ?_⟩
    · intro l' g' e'
      show e' ∈ subsOf s1 l' g' ↔ _
      rw [h1.mem]
      by_cases he : e' = e
      · subst he; simp [setEv, hself]
      · simp [setEv, he]
    · intro e' hd
      by_cases he : e' = e
      · subst he; simp [setEv, hself]
      · simp only [setEv, upd_apply, he, ↓reduceIte] at hd ⊢; exact h1.dead e' hd
    · intro e' hd
      by_cases he : e' = e
      · subst he
        simp only [setEv, upd_apply, ↓reduceIte] at hd ⊢
        exact h1.uninit e' hd
      · simp only [setEv, upd_apply, he, ↓reduceIte] at hd ⊢; exact h1.uninit e' hd
    · intro e'
      by_cases he : e' = e
      · subst he; simp only [setEv, upd_apply, ↓reduceIte]; exact h1.sigsNd e'
      · simp only [setEv, upd_apply, he, ↓reduceIte]; exact h1.sigsNd e'
    · intro e' hn'
      by_cases he : e' = e
      · subst he
        simp only [setEv, upd_apply, ↓reduceIte]
        exact h1.fresh e' hn'
      · simp only [setEv, upd_apply, he, ↓reduceIte]; exact h1.fresh e' hn'
    · intro e' ho' hen'
      by_cases he : e' = e
      · subst he; simp [setEv, hself] at hen'
      · simp only [setEv, upd_apply, he, ↓reduceIte] at ho' hen' ⊢; exact h1.once e' ho' hen'
    · intro c hc
      simp only [setEv, List.mem_cons] at hc
      rcases hc with rfl | hc
      · refine ⟨hmem.2.2.symm, by simp [hmem.1, hmem.2.1], fun _ => ⟨by simp [hself], h.once e ho hmem.1⟩, fun hh => by simp [ho] at hh⟩
      · rw [hcb] at hc; exact h.cbsOk c hc
  · -- persistent
    simp only [ho, Bool.false_eq_true, ↓reduceIte]
    refine ⟨core_congr h.core rfl rfl rfl rfl rfl, ?_, ?_, ?_, ?_, ?_, ?_, ?_⟩
    · intro l' g' e'
      show e' ∈ subsOf s l' g' ↔ _
      rw [h.mem]
      by_cases he : e' = e
      · subst he; simp [setEv]
      · simp [setEv, he]
    · intro e' hd
      by_cases he : e' = e
      · subst he; simp only [setEv, upd_apply, ↓reduceIte] at hd ⊢; exact h.dead e' hd
      · simp only [setEv, upd_apply, he, ↓reduceIte] at hd ⊢; exact h.dead e' hd
    · intro e' hd
      by_cases he : e' = e
      · subst he; simp only [setEv, upd_apply, ↓reduceIte] at hd ⊢; exact h.uninit e' hd
      · simp only [setEv, upd_apply, he, ↓reduceIte] at hd ⊢; exact h.uninit e' hd
    · intro e'
      by_cases he : e' = e
      · subst he; simp only [setEv, upd_apply, ↓reduceIte]; exact h.sigsNd e'
      · simp only [setEv, upd_apply, he, ↓reduceIte]; exact h.sigsNd e'
    · intro e' hn'
      by_cases he : e' = e
      · subst he; simp only [setEv, upd_apply, ↓reduceIte]; exact h.fresh e' hn'
      · simp only [setEv, upd_apply, he, ↓reduceIte]; exact h.fresh e' hn'
    · intro e' ho' hen'
      by_cases he : e' = e
      · subst he; simp only [setEv, upd_apply, ↓reduceIte] at ho'; exact absurd ho' (by simp)
      · simp only [setEv, upd_apply, he, ↓reduceIte] at ho' hen' ⊢; exact h.once e' ho' hen'
    · intro c hc
      simp only [setEv, List.mem_cons] at hc
      rcases hc with rfl | hc
      · refine ⟨hmem.2.2.symm, by simp [hmem.1, hmem.2.1], fun hh => absurd hh (by simp), fun _ => hmem.1⟩
      · exact h.cbsOk c hc

/-- events other than e are untouched by e's `onSignal` -/
theorem evOnSignal_evs_other (s : State) (l e g e' : Nat) (he : e' ≠ e) : (evOnSignal s l e g).evs e' = s.evs e' := by
  unfold evOnSignal
  simp only [setEv, upd_apply, he, ↓reduceIte]
  split
  · exact disable_evs_other s e e' he
  · rfl

theorem dispatch_inv (s : State) (l g : Nat) (todo : List Nat) (h : Inv s) (hnd : todo.Nodup)
    (hm : ∀ e ∈ todo, e ∈ subsOf s l g) : Inv (dispatch s l g todo) := by
  induction todo generalizing s with
  | nil => exact h
  | cons e es ih =>
    rw [List.nodup_cons] at hnd
    have h1 := evOnSignal_inv s l e g h (hm e List.mem_cons_self)
    refine ih _ h1 hnd.2 ?_
    intro e' he'
    have hne : e' ≠ e := fun hh => hnd.1 (hh ▸ he')
    rw [h1.mem, evOnSignal_evs_other s l e g e' hne]
    exact (h.mem l g e').1 (hm e' (List.mem_cons_of_mem _ he'))

theorem passItems_inv (s : State) (l : Nat) (items : List Nat) (h : Inv s) : Inv (passItems s l items) := by
  induction items generalizing s with
  | nil => exact h
  | cons g gs ih => exact ih _ (dispatch_inv s l g _ h (h.core.ndSubs l g) (fun _ he => he))

theorem pass_inv (s : State) (l : Nat) (h : Inv s) : Inv (pass s l) := by
  unfold pass
  apply passItems_inv
  refine inv_of_core h ?_ rfl rfl rfl rfl
  have hc := h.core
  refine ⟨hc.fdsIff, hc.ctxSome, hc.osTbox, hc.oldOk, hc.entries, hc.pipeIff, ?_, hc.ndSubs, hc.ndFds⟩
  intro l' hp
  show upd s.pipe l [] l' = []
  by_cases hl : l' = l
  · simp [hl]
  · simp only [upd_apply, hl, ↓reduceIte]; exact hc.pipeNil l' hp

theorem step_inv (s : State) (op : Op) (h : Inv s) (hv : valid s op = true) : Inv (step s op) := by
  cases op with
  | newEv l => exact newEv_inv s l h
  | init e sigs o => exact initEv_inv s e sigs o h hv
  | enable e => exact enable_inv s e h
  | disable e => exact disable_inv s e h
  | destroy e => exact destroy_inv s e h
  | setDisp g d => exact setDisp_inv s g d h hv
  | raise g => exact raise_inv s g h
  | pass l => exact pass_inv s l h

/-- every state reachable by a history of the property satisfies the invariant -/
theorem exec_inv (s : State) (ops : List Op) (h : Inv s) (s' : State) (he : exec s ops = some s') : Inv s' := by
  induction ops generalizing s with
  | nil => simp only [exec, Option.some.injEq] at he; exact he ▸ h
  | cons op ops ih =>
    simp only [exec] at he
    split at he
    · rename_i hv; exact ih _ (step_inv s op h hv) he
    · cases he

end Tbox.C04
