/- C04 — the full inductive invariant (bookkeeping ↔ event objects) and its preservation by every step. -/
import TboxModel.C04.Core
namespace Tbox.C04

/-- a logged callback is legitimate -/
structure CbOk (c : Cb) : Prop where
  ownLoop    : c.loop = c.evLoop                       -- made by the pass of the event's own loop
  subscribed : c.subscribed = true                     -- the event was enabled and subscribed to that signal
  alive      : c.alive = true                          -- the object existed
  oneshot    : c.oneshot = true → c.enabledInCb = false ∧ c.firedBefore = 0
  persist    : c.oneshot = false → c.enabledInCb = true

structure Inv (s : State) : Prop where
  core   : Core s
  /-- per-loop subscriber sets = enabled events of that loop whose set contains the signal -/
  mem    : ∀ l g e, e ∈ subsOf s l g ↔ ((s.evs e).enabled = true ∧ g ∈ (s.evs e).sigs ∧ (s.evs e).loop = l)
  dead   : ∀ e, (s.evs e).alive = false → (s.evs e).enabled = false
  uninit : ∀ e, (s.evs e).inited = false → (s.evs e).sigs = []
  sigsNd : ∀ e, (s.evs e).sigs.Nodup
  fresh  : ∀ e, s.nEv ≤ e → (s.evs e).alive = false
  once   : ∀ e, (s.evs e).oneshot = true → (s.evs e).enabled = true → (s.evs e).fired = 0
  cbsOk  : ∀ c ∈ s.cbs, CbOk c

theorem init_inv : Inv init := by
  refine ⟨init_core, ?_, ?_, ?_, ?_, ?_, ?_, ?_⟩ <;> intros <;> simp_all [init, subsOf, Map.find]

/-- `Core` only looks at the bookkeeping fields -/
theorem core_congr {s s' : State} (h : Core s) (h1 : s'.os = s.os) (h2 : s'.ctxs = s.ctxs) (h3 : s'.subs = s.subs)
    (h4 : s'.hasPipe = s.hasPipe) (h5 : s'.pipe = s.pipe) : Core s' := by
  obtain ⟨os, ctxs, subs, hp, pipe, evs, n, calls, cbs⟩ := s
  obtain ⟨os', ctxs', subs', hp', pipe', evs', n', calls', cbs'⟩ := s'
  simp only at h1 h2 h3 h4 h5
  subst h1 h2 h3 h4 h5
  exact ⟨h.1, h.2, h.3, h.4, h.5, h.6, h.7, h.8, h.9⟩

theorem subsOf_congr {s s' : State} (h : s'.subs = s.subs) (l g : Nat) : subsOf s' l g = subsOf s l g := by
  unfold subsOf; rw [h]

/-! ### enable: subscribe to every signal of the set, until one fails -/

/-- everything later proofs need to know about the loop of `enable()` -/
structure SubAll (s : State) (l e : Nat) (gs : List Nat) (r : State × List Nat × Bool) : Prop where
  core  : Core r.1
  evs   : r.1.evs = s.evs
  nEv   : r.1.nEv = s.nEv
  cbs   : r.1.cbs = s.cbs
  calls : r.1.calls = s.calls
  mem   : ∀ l' g' e', e' ∈ subsOf r.1 l' g' ↔ e' ∈ subsOf s l' g' ∨ (l' = l ∧ g' ∈ r.2.1 ∧ e' = e)
  all   : r.2.2 = true → r.2.1 = gs
  pre   : r.2.1 <+: gs
  base  : ∀ g', baseDisp r.1 g' = baseDisp s g'
  pipe  : ∀ l', r.1.pipe l' = s.pipe l' ∨ (l' = l ∧ r.1.pipe l' = [])

theorem subscribe_pipe_frame (s : State) (l g e l' : Nat) :
    (subscribe s l g e).pipe l' = s.pipe l' ∨ (l' = l ∧ (subscribe s l g e).pipe l' = []) := by
  rw [subscribe_pipe]
  split
  · left; rfl
  · by_cases hl : l' = l
    · right; simp [hl]
    · left; simp [hl]

theorem subscribeAllF_spec (s : State) (l e : Nat) (gs : List Nat) (h : Core s) :
    SubAll s l e gs (subscribeAllF s l e gs) := by
  induction gs generalizing s with
  | nil =>
    exact ⟨h, rfl, rfl, rfl, rfl, by simp [subscribeAllF], fun _ => rfl, List.prefix_refl _, fun _ => rfl, fun _ => Or.inl rfl⟩
  | cons g gs ih =>
    unfold subscribeAllF
    by_cases hf : subscribeFails s l g = true
    · simp only [hf, ↓reduceIte]
      rw [subscribeFail_eq s l g h hf]
      exact ⟨touchCtx_core s g h, rfl, rfl, rfl, rfl, (by intro l' g' e'; simp [touchCtx, subsOf]), (by intro hh; cases hh),
        List.nil_prefix, fun g' => baseDisp_touchCtx s g g', fun _ => Or.inl rfl⟩
    · have hf' : subscribeFails s l g = false := by simpa using hf
      simp only [hf', Bool.false_eq_true, ↓reduceIte]
      have r := ih (subscribe s l g e) (subscribe_core s l g e h hf')
      refine ⟨r.core, by rw [r.evs, subscribe_evs], by rw [r.nEv, subscribe_nEv], by rw [r.cbs, subscribe_cbs],
        by rw [r.calls, subscribe_calls], ?_, ?_, ?_, ?_, ?_⟩
      · intro l' g' e'
        rw [r.mem, subsOf_subscribe]
        by_cases hc : l' = l ∧ g' = g
        · obtain ⟨rfl, rfl⟩ := hc
          simp only [and_self, ↓reduceIte, mem_ins, List.mem_cons, true_or, true_and]
          constructor
          · rintro ((h1 | h1) | ⟨_, h1⟩)
            · exact Or.inr h1
            · exact Or.inl h1
            · exact Or.inr h1
          · rintro (h1 | h1)
            · exact Or.inl (Or.inr h1)
            · exact Or.inl (Or.inl h1)
        · simp only [hc, ↓reduceIte, List.mem_cons]
          constructor
          · rintro (h1 | ⟨h1, h2, h3⟩)
            · exact Or.inl h1
            · exact Or.inr ⟨h1, Or.inr h2, h3⟩
          · rintro (h1 | ⟨h1, h2 | h2, h3⟩)
            · exact Or.inl h1
            · exact absurd ⟨h1, h2⟩ hc
            · exact Or.inr ⟨h1, h2, h3⟩
      · intro hall; simp only at hall ⊢; rw [r.all hall]
      · exact List.cons_prefix_cons.2 ⟨rfl, r.pre⟩
      · intro g'; rw [r.base, baseDisp_subscribe]
      · intro l'
        rcases r.pipe l' with h1 | h1
        · rcases subscribe_pipe_frame s l g e l' with h2 | h2
          · left; rw [h1, h2]
          · right; exact ⟨h2.1, by rw [h1, h2.2]⟩
        · right; exact h1

/-! ### disable: unsubscribe from every signal of the set -/

theorem unsubscribeAll_core (s : State) (l e : Nat) (gs : List Nat) (h : Core s) : Core (unsubscribeAll s l e gs) := by
  induction gs generalizing s with
  | nil => exact h
  | cons g gs ih => exact ih _ (unsubscribe_core s l g e h)

theorem unsubscribeAll_evs (s : State) (l e : Nat) (gs : List Nat) : (unsubscribeAll s l e gs).evs = s.evs := by
  induction gs generalizing s with
  | nil => rfl
  | cons g gs ih => rw [unsubscribeAll, ih, unsubscribe_evs]

theorem unsubscribeAll_nEv (s : State) (l e : Nat) (gs : List Nat) : (unsubscribeAll s l e gs).nEv = s.nEv := by
  induction gs generalizing s with
  | nil => rfl
  | cons g gs ih => rw [unsubscribeAll, ih, unsubscribe_nEv]

theorem unsubscribeAll_cbs (s : State) (l e : Nat) (gs : List Nat) : (unsubscribeAll s l e gs).cbs = s.cbs := by
  induction gs generalizing s with
  | nil => rfl
  | cons g gs ih => rw [unsubscribeAll, ih, unsubscribe_cbs]

theorem unsubscribeAll_calls (s : State) (l e : Nat) (gs : List Nat) : (unsubscribeAll s l e gs).calls = s.calls := by
  induction gs generalizing s with
  | nil => rfl
  | cons g gs ih => rw [unsubscribeAll, ih, unsubscribe_calls]

theorem mem_subsOf_unsubscribeAll (s : State) (l e : Nat) (gs : List Nat) (l' g' e' : Nat) :
    e' ∈ subsOf (unsubscribeAll s l e gs) l' g' ↔ e' ∈ subsOf s l' g' ∧ ¬ (l' = l ∧ g' ∈ gs ∧ e' = e) := by
  induction gs generalizing s with
  | nil => simp [unsubscribeAll]
  | cons g gs ih =>
    rw [unsubscribeAll, ih, subsOf_unsubscribe]
    by_cases hc : l' = l ∧ g' = g
    · obtain ⟨rfl, rfl⟩ := hc
      simp only [and_self, ↓reduceIte, mem_del, List.mem_cons, true_or, true_and]
      constructor
      · rintro ⟨⟨h1, h2⟩, _⟩; exact ⟨h1, h2⟩
      · rintro ⟨h1, h2⟩; exact ⟨⟨h1, h2⟩, fun hh => h2 hh.2⟩
    · simp only [hc, ↓reduceIte, List.mem_cons]
      constructor
      · rintro ⟨h1, h2⟩
        refine ⟨h1, ?_⟩
        rintro ⟨ha, hb | hb, hd⟩
        · exact hc ⟨ha, hb⟩
        · exact h2 ⟨ha, hb, hd⟩
      · rintro ⟨h1, h2⟩
        exact ⟨h1, fun ⟨ha, hb, hd⟩ => h2 ⟨ha, Or.inr hb, hd⟩⟩

theorem baseDisp_unsubscribeAll (s : State) (l e : Nat) (gs : List Nat) (g' : Nat) (h : Core s)
    (hnd : gs.Nodup) (hm : ∀ g ∈ gs, e ∈ subsOf s l g) :
    baseDisp (unsubscribeAll s l e gs) g' = baseDisp s g' := by
  induction gs generalizing s with
  | nil => rfl
  | cons g gs ih =>
    rw [List.nodup_cons] at hnd
    rw [unsubscribeAll, ih _ (unsubscribe_core s l g e h) hnd.2, baseDisp_unsubscribe s l g e g' h (hm g List.mem_cons_self)]
    intro g2 hg2
    rw [subsOf_unsubscribe]
    have : g2 ≠ g := fun hh => hnd.1 (hh ▸ hg2)
    simp only [this, and_false, ↓reduceIte]
    exact hm g2 (List.mem_cons_of_mem _ hg2)

/-- a loop's pipe is only ever touched by its own (un)subscriptions, and then only emptied -/
theorem unsubscribe_pipe_frame (s : State) (l g e l' : Nat) :
    (unsubscribe s l g e).pipe l' = s.pipe l' ∨ (l' = l ∧ (unsubscribe s l g e).pipe l' = []) := by
  rw [unsubscribe_pipe]
  split
  · by_cases hl : l' = l
    · right; simp [hl]
    · left; simp [hl]
  · left; rfl

theorem unsubscribeAll_pipe_frame (s : State) (l e : Nat) (gs : List Nat) (l' : Nat) :
    (unsubscribeAll s l e gs).pipe l' = s.pipe l' ∨ (l' = l ∧ (unsubscribeAll s l e gs).pipe l' = []) := by
  induction gs generalizing s with
  | nil => left; rfl
  | cons g gs ih =>
    rw [unsubscribeAll]
    rcases ih (unsubscribe s l g e) with h1 | h1
    · rcases unsubscribe_pipe_frame s l g e l' with h2 | h2
      · left; rw [h1, h2]
      · right; exact ⟨h2.1, by rw [h1, h2.2]⟩
    · right; exact h1

/-! ### setEv on top of a state whose bookkeeping is in order -/

theorem setEv_core {s : State} (e : Nat) (v : Ev) (h : Core s) : Core (setEv s e v) :=
  core_congr h rfl rfl rfl rfl rfl

@[simp] theorem setEv_evs (s : State) (e : Nat) (v : Ev) (i : Nat) :
    (setEv s e v).evs i = if i = e then v else s.evs i := rfl
@[simp] theorem setEv_subsOf (s : State) (e : Nat) (v : Ev) (l g : Nat) : subsOf (setEv s e v) l g = subsOf s l g := rfl
@[simp] theorem setEv_cbs (s : State) (e : Nat) (v : Ev) : (setEv s e v).cbs = s.cbs := rfl
@[simp] theorem setEv_nEv (s : State) (e : Nat) (v : Ev) : (setEv s e v).nEv = s.nEv := rfl
@[simp] theorem setEv_calls (s : State) (e : Nat) (v : Ev) : (setEv s e v).calls = s.calls := rfl
@[simp] theorem setEv_pipe (s : State) (e : Nat) (v : Ev) : (setEv s e v).pipe = s.pipe := rfl
@[simp] theorem setEv_os (s : State) (e : Nat) (v : Ev) : (setEv s e v).os = s.os := rfl
@[simp] theorem setEv_ctxs (s : State) (e : Nat) (v : Ev) : (setEv s e v).ctxs = s.ctxs := rfl
@[simp] theorem baseDisp_setEv (s : State) (e : Nat) (v : Ev) (g : Nat) : baseDisp (setEv s e v) g = baseDisp s g := rfl

/-! ### the API calls -/

/-- same events, same subscriber relation, bookkeeping in order ⇒ invariant -/
theorem inv_of_mem {s s1 : State} (h : Inv s) (hc : Core s1) (hev : s1.evs = s.evs) (hn : s1.nEv = s.nEv)
    (hcb : s1.cbs = s.cbs) (hmem : ∀ l g e, e ∈ subsOf s1 l g ↔ e ∈ subsOf s l g) : Inv s1 := by
  refine ⟨hc, ?_, ?_, ?_, ?_, ?_, ?_, ?_⟩
  · intro l g e; rw [hmem, hev]; exact h.mem l g e
  · rw [hev]; exact h.dead
  · rw [hev]; exact h.uninit
  · rw [hev]; exact h.sigsNd
  · rw [hev, hn]; exact h.fresh
  · rw [hev]; exact h.once
  · rw [hcb]; exact h.cbsOk

theorem enable_key (s : State) (e : Nat) (h : Inv s) (ha : (s.evs e).alive = true) (s1 : State) (hc : Core s1)
    (hev : s1.evs = s.evs) (hn : s1.nEv = s.nEv) (hcb : s1.cbs = s.cbs)
    (hmem : ∀ l g e', e' ∈ subsOf s1 l g ↔ e' ∈ subsOf s l g ∨ (l = (s.evs e).loop ∧ g ∈ (s.evs e).sigs ∧ e' = e)) :
    Inv (setEv s1 e { s.evs e with enabled := true, fired := if (s.evs e).enabled then (s.evs e).fired else 0 }) := by
  refine ⟨setEv_core _ _ hc, ?_, ?_, ?_, ?_, ?_, ?_, ?_⟩
  · intro l g e'
    rw [setEv_subsOf, hmem, h.mem]
    by_cases he : e' = e
    · subst he
      simp only [setEv_evs, ↓reduceIte, true_and, and_true]
      constructor
      · rintro (⟨_, h2, h3⟩ | ⟨h1, h2⟩)
        · exact ⟨h2, h3⟩
        · exact ⟨h2, h1.symm⟩
      · rintro ⟨h1, h2⟩; exact Or.inr ⟨h2.symm, h1⟩
    · simp [he, hev]
  · intro e' hd
    by_cases he : e' = e
    · subst he; simp [ha] at hd
    · simp only [setEv_evs, he, ↓reduceIte, hev] at hd ⊢; exact h.dead e' hd
  · intro e' hd
    by_cases he : e' = e
    · subst he; simp only [setEv_evs, ↓reduceIte] at hd ⊢; exact h.uninit e' hd
    · simp only [setEv_evs, he, ↓reduceIte, hev] at hd ⊢; exact h.uninit e' hd
  · intro e'
    by_cases he : e' = e
    · subst he; simp only [setEv_evs, ↓reduceIte]; exact h.sigsNd e'
    · simp only [setEv_evs, he, ↓reduceIte, hev]; exact h.sigsNd e'
  · intro e' hn'
    rw [setEv_nEv, hn] at hn'
    by_cases he : e' = e
    · subst he; have := h.fresh e' hn'; simp [ha] at this
    · simp only [setEv_evs, he, ↓reduceIte, hev]; exact h.fresh e' hn'
  · intro e' ho hen
    by_cases he : e' = e
    · subst he
      simp only [setEv_evs, ↓reduceIte] at ho ⊢
      by_cases hen0 : (s.evs e').enabled = true
      · simp only [hen0, ↓reduceIte]; exact h.once e' ho hen0
      · simp [hen0]
    · simp only [setEv_evs, he, ↓reduceIte, hev] at ho hen ⊢; exact h.once e' ho hen
  · intro c hc'; rw [setEv_cbs, hcb] at hc'; exact h.cbsOk c hc'

/-- the three outcomes of `enable()` on an initialised event, for the lemmas below -/
theorem enable_cases (s : State) (e : Nat) (ha : (s.evs e).alive = true) (hi : (s.evs e).inited = true) :
    let r := subscribeAllF s (s.evs e).loop e (s.evs e).sigs
    (enable repaired s e).1 =
      if r.2.2 then setEv r.1 e { s.evs e with enabled := true, fired := if (s.evs e).enabled then (s.evs e).fired else 0 }
      else if (s.evs e).enabled then r.1 else unsubscribeAll r.1 (s.evs e).loop e r.2.1 := by
  simp only [enable, ha, hi, repaired, Bool.not_true, Bool.false_eq_true, ↓reduceIte, Bool.true_and]
  split
  · rfl
  · cases (s.evs e).enabled <;> simp

theorem enable_inv (s : State) (e : Nat) (h : Inv s) : Inv (enable repaired s e).1 := by
  by_cases ha : (s.evs e).alive = true
  case neg => simp only [enable, ha, Bool.not_false, ↓reduceIte]; exact h
  by_cases hi : (s.evs e).inited = true
  · rw [enable_cases s e ha hi]
    have r := subscribeAllF_spec s (s.evs e).loop e (s.evs e).sigs h.core
    generalize subscribeAllF s (s.evs e).loop e (s.evs e).sigs = rr at r
    simp only
    by_cases hok : rr.2.2 = true
    · simp only [hok, ↓reduceIte]
      refine enable_key s e h ha _ r.core r.evs r.nEv r.cbs (fun l g e' => ?_)
      rw [r.mem, r.all hok]
    · simp only [hok, Bool.false_eq_true, ↓reduceIte]
      have hsub : ∀ g, g ∈ rr.2.1 → g ∈ (s.evs e).sigs := fun g hg => r.pre.subset hg
      by_cases hen : (s.evs e).enabled = true
      · -- already enabled: every signal of the set was subscribed before
        simp only [hen, ↓reduceIte]
        refine inv_of_mem h r.core r.evs r.nEv r.cbs (fun l g e' => ?_)
        rw [r.mem]
        constructor
        · rintro (h1 | ⟨rfl, h2, rfl⟩)
          · exact h1
          · exact (h.mem _ g e').2 ⟨hen, hsub g h2, rfl⟩
        · exact Or.inl
      · -- roll back
        simp only [hen, Bool.false_eq_true, ↓reduceIte]
        refine inv_of_mem h (unsubscribeAll_core _ _ _ _ r.core) (by rw [unsubscribeAll_evs, r.evs])
          (by rw [unsubscribeAll_nEv, r.nEv]) (by rw [unsubscribeAll_cbs, r.cbs]) (fun l g e' => ?_)
        rw [mem_subsOf_unsubscribeAll, r.mem]
        constructor
        · rintro ⟨h1 | h1, h2⟩
          · exact h1
          · exact absurd h1 h2
        · intro h1
          refine ⟨Or.inl h1, ?_⟩
          rintro ⟨_, _, rfl⟩
          exact hen ((h.mem l g e').1 h1).1
  · have hi' : (s.evs e).inited = false := by simpa using hi
    have hs : (s.evs e).sigs = [] := h.uninit e hi'
    have := enable_key s e h ha s h.core rfl rfl rfl (fun l g e' => by simp [hs])
    simp only [enable, ha, hi', Bool.not_true, Bool.false_eq_true, ↓reduceIte]
    simp only [ha, hi'] at this
    exact this

theorem disable_inv (s : State) (e : Nat) (h : Inv s) : Inv (disable s e).1 := by
  unfold disable
  by_cases ha : (s.evs e).alive = true
  case neg => simp only [ha, Bool.not_false, ↓reduceIte]; exact h
  simp only [ha, Bool.not_true, Bool.false_eq_true, ↓reduceIte]
  have key : ∀ s1 : State, Core s1 → s1.evs = s.evs → s1.nEv = s.nEv → s1.cbs = s.cbs →
      (∀ l g e', e' ∈ subsOf s1 l g ↔ e' ∈ subsOf s l g ∧ ¬ (e' = e)) →
      Inv (setEv s1 e { s.evs e with enabled := false }) := by
    intro s1 hc hev hn hcb hmem
    refine ⟨setEv_core _ _ hc, ?_, ?_, ?_, ?_, ?_, ?_, ?_⟩
    · intro l g e'
      rw [setEv_subsOf, hmem, h.mem]
      by_cases he : e' = e
      · subst he; simp
      · simp [he, hev]
    · intro e' hd
      by_cases he : e' = e
      · subst he; simp
      · simp only [setEv_evs, he, ↓reduceIte, hev] at hd ⊢; exact h.dead e' hd
    · intro e' hd
      by_cases he : e' = e
      · subst he; simp only [setEv_evs, ↓reduceIte] at hd ⊢; exact h.uninit e' hd
      · simp only [setEv_evs, he, ↓reduceIte, hev] at hd ⊢; exact h.uninit e' hd
    · intro e'
      by_cases he : e' = e
      · subst he; simp only [setEv_evs, ↓reduceIte]; exact h.sigsNd e'
      · simp only [setEv_evs, he, ↓reduceIte, hev]; exact h.sigsNd e'
    · intro e' hn'
      rw [setEv_nEv, hn] at hn'
      by_cases he : e' = e
      · subst he; have := h.fresh e' hn'; simp [ha] at this
      · simp only [setEv_evs, he, ↓reduceIte, hev]; exact h.fresh e' hn'
    · intro e' ho hen
      by_cases he : e' = e
      · subst he; simp at hen
      · simp only [setEv_evs, he, ↓reduceIte, hev] at ho hen ⊢; exact h.once e' ho hen
    · intro c hc'; rw [setEv_cbs, hcb] at hc'; exact h.cbsOk c hc'
  by_cases hen : (s.evs e).enabled = true
  · simp only [hen, ↓reduceIte]
    have := key _ (unsubscribeAll_core s (s.evs e).loop e (s.evs e).sigs h.core) (unsubscribeAll_evs _ _ _ _) (unsubscribeAll_nEv _ _ _ _)
      (unsubscribeAll_cbs _ _ _ _) (fun l g e' => ?_)
    · simp only [ha] at this; exact this
    rw [mem_subsOf_unsubscribeAll]
    constructor
    · rintro ⟨h1, h2⟩
      refine ⟨h1, fun he => h2 ?_⟩
      subst he
      have := (h.mem l g e').1 h1
      exact ⟨this.2.2.symm, this.2.1, rfl⟩
    · rintro ⟨h1, h2⟩; exact ⟨h1, fun hh => h2 hh.2.2⟩
  · simp only [hen, Bool.false_eq_true, ↓reduceIte]
    have := key s h.core rfl rfl rfl (fun l g e' => ?_)
    · simp only [ha] at this; exact this
    constructor
    · intro h1
      refine ⟨h1, fun he => hen ?_⟩
      subst he; exact ((h.mem l g e').1 h1).1
    · exact fun h1 => h1.1

theorem disable_enabled (s : State) (e : Nat) (ha : (s.evs e).alive = true) :
    ((disable s e).1.evs e).enabled = false := by
  unfold disable; simp [ha]

theorem disable_evs_other (s : State) (e e' : Nat) (he : e' ≠ e) : (disable s e).1.evs e' = s.evs e' := by
  unfold disable
  by_cases ha : (s.evs e).alive = true
  · simp only [ha, Bool.not_true, Bool.false_eq_true, ↓reduceIte, setEv_evs, he]
    split
    · rw [unsubscribeAll_evs]
    · rfl
  · simp [ha]

theorem disable_evs_self (s : State) (e : Nat) :
    (disable s e).1.evs e = if (s.evs e).alive then { s.evs e with enabled := false } else s.evs e := by
  unfold disable
  by_cases ha : (s.evs e).alive = true
  · simp [ha]
  · simp [ha]

theorem disable_cbs (s : State) (e : Nat) : (disable s e).1.cbs = s.cbs := by
  unfold disable
  by_cases ha : (s.evs e).alive = true
  · simp only [ha, Bool.not_true, Bool.false_eq_true, ↓reduceIte, setEv_cbs]
    split
    · rw [unsubscribeAll_cbs]
    · rfl
  · simp [ha]

theorem disable_calls (s : State) (e : Nat) : (disable s e).1.calls = s.calls := by
  unfold disable
  by_cases ha : (s.evs e).alive = true
  · simp only [ha, Bool.not_true, Bool.false_eq_true, ↓reduceIte, setEv_calls]
    split
    · rw [unsubscribeAll_calls]
    · rfl
  · simp [ha]

theorem disable_nEv (s : State) (e : Nat) : (disable s e).1.nEv = s.nEv := by
  unfold disable
  by_cases ha : (s.evs e).alive = true
  · simp only [ha, Bool.not_true, Bool.false_eq_true, ↓reduceIte, setEv_nEv]
    split
    · rw [unsubscribeAll_nEv]
    · rfl
  · simp [ha]

theorem disable_pipe_frame (s : State) (e l' : Nat) :
    (disable s e).1.pipe l' = s.pipe l' ∨ (l' = (s.evs e).loop ∧ (disable s e).1.pipe l' = []) := by
  unfold disable
  by_cases ha : (s.evs e).alive = true
  · simp only [ha, Bool.not_true, Bool.false_eq_true, ↓reduceIte, setEv_pipe]
    split
    · exact unsubscribeAll_pipe_frame _ _ _ _ _
    · left; rfl
  · simp [ha]

theorem destroy_inv (s : State) (e : Nat) (h : Inv s) : Inv (destroy s e).1 := by
  unfold destroy
  by_cases ha : (s.evs e).alive = true
  case neg => simp only [ha, Bool.not_false, ↓reduceIte]; exact h
  simp only [ha, Bool.not_true, Bool.false_eq_true, ↓reduceIte]
  have h1 := disable_inv s e h
  have hen := disable_enabled s e ha
  generalize (disable s e).1 = s1 at h1 hen
  refine ⟨setEv_core _ _ h1.core, ?_, ?_, ?_, ?_, ?_, ?_, ?_⟩
  · intro l g e'
    rw [setEv_subsOf, h1.mem]
    by_cases he : e' = e
    · subst he; simp [hen]
    · simp [he]
  · intro e' hd
    by_cases he : e' = e
    · subst he; simp [hen]
    · simp only [setEv_evs, he, ↓reduceIte] at hd ⊢; exact h1.dead e' hd
  · intro e' hd
    by_cases he : e' = e
    · subst he; simp only [setEv_evs, ↓reduceIte] at hd ⊢; exact h1.uninit e' hd
    · simp only [setEv_evs, he, ↓reduceIte] at hd ⊢; exact h1.uninit e' hd
  · intro e'
    by_cases he : e' = e
    · subst he; simp only [setEv_evs, ↓reduceIte]; exact h1.sigsNd e'
    · simp only [setEv_evs, he, ↓reduceIte]; exact h1.sigsNd e'
  · intro e' hn'
    by_cases he : e' = e
    · subst he; simp
    · simp only [setEv_evs, he, ↓reduceIte]; exact h1.fresh e' hn'
  · intro e' ho hen'
    by_cases he : e' = e
    · subst he; simp [hen] at hen'
    · simp only [setEv_evs, he, ↓reduceIte] at ho hen' ⊢; exact h1.once e' ho hen'
  · exact h1.cbsOk

theorem initEv_inv (s : State) (e : Nat) (sigs : List Nat) (o : Bool) (h : Inv s)
    (hv : sigs.Nodup) : Inv (initEv repaired s e sigs o).1 := by
  unfold initEv
  by_cases ha : (s.evs e).alive = true
  case neg => simp only [ha, Bool.not_false, ↓reduceIte]; exact h
  simp only [ha, Bool.not_true, Bool.false_eq_true, ↓reduceIte, repaired]
  have h1 := disable_inv s e h
  have hen := disable_enabled s e ha
  have hal : ((disable s e).1.evs e).alive = true := by rw [disable_evs_self]; simp [ha]
  generalize (disable s e).1 = s1 at h1 hen hal
  refine ⟨setEv_core _ _ h1.core, ?_, ?_, ?_, ?_, ?_, ?_, ?_⟩
  · intro l g e'
    rw [setEv_subsOf, h1.mem]
    by_cases he : e' = e
    · subst he; simp [hen]
    · simp [he]
  · intro e' hd
    by_cases he : e' = e
    · subst he; simp [hen]
    · simp only [setEv_evs, he, ↓reduceIte] at hd ⊢; exact h1.dead e' hd
  · intro e' hd
    by_cases he : e' = e
    · subst he; simp at hd
    · simp only [setEv_evs, he, ↓reduceIte] at hd ⊢; exact h1.uninit e' hd
  · intro e'
    by_cases he : e' = e
    · subst he; simp only [setEv_evs, ↓reduceIte]; exact hv
    · simp only [setEv_evs, he, ↓reduceIte]; exact h1.sigsNd e'
  · intro e' hn'
    by_cases he : e' = e
    · subst he; have := h1.fresh e' hn'; simp [hal] at this
    · simp only [setEv_evs, he, ↓reduceIte]; exact h1.fresh e' hn'
  · intro e' ho hen'
    by_cases he : e' = e
    · subst he; simp
    · simp only [setEv_evs, he, ↓reduceIte] at ho hen' ⊢; exact h1.once e' ho hen'
  · exact h1.cbsOk

theorem newEv_inv (s : State) (l : Nat) (sc : List Act) (h : Inv s) : Inv (newEv s l sc) := by
  unfold newEv
  have hfr := h.fresh s.nEv (Nat.le_refl _)
  have hen := h.dead _ hfr
  refine ⟨core_congr h.core rfl rfl rfl rfl rfl, ?_, ?_, ?_, ?_, ?_, ?_, ?_⟩
  · intro l' g e'
    show e' ∈ subsOf s l' g ↔ _
    rw [h.mem]
    by_cases he : e' = s.nEv
    · subst he; simp [setEv, hen]
    · simp [setEv, he]
  · intro e' hd
    by_cases he : e' = s.nEv
    · subst he; simp [setEv]
    · simp only [setEv, upd_apply, he, ↓reduceIte] at hd ⊢; exact h.dead e' hd
  · intro e' hd
    by_cases he : e' = s.nEv
    · subst he; simp [setEv]
    · simp only [setEv, upd_apply, he, ↓reduceIte] at hd ⊢; exact h.uninit e' hd
  · intro e'
    by_cases he : e' = s.nEv
    · subst he; simp [setEv]
    · simp only [setEv, upd_apply, he, ↓reduceIte]; exact h.sigsNd e'
  · intro e' hn'
    have : e' ≠ s.nEv := by simp only at hn'; omega
    simp only [setEv, upd_apply, this, ↓reduceIte]
    exact h.fresh e' (by simp only at hn'; omega)
  · intro e' ho hen'
    by_cases he : e' = s.nEv
    · subst he; simp [setEv] at hen'
    · simp only [setEv, upd_apply, he, ↓reduceIte] at ho hen' ⊢; exact h.once e' ho hen'
  · exact h.cbsOk

/-- states that differ from an `Inv` state only in `os` / `ctxs` / `pipe` / `calls` keep the event part -/
theorem inv_of_core {s s' : State} (h : Inv s) (hc : Core s') (hsub : s'.subs = s.subs) (hev : s'.evs = s.evs)
    (hn : s'.nEv = s.nEv) (hcb : s'.cbs = s.cbs) : Inv s' := by
  refine ⟨hc, ?_, ?_, ?_, ?_, ?_, ?_, ?_⟩
  · intro l g e; rw [subsOf_congr hsub, hev]; exact h.mem l g e
  · rw [hev]; exact h.dead
  · rw [hev]; exact h.uninit
  · rw [hev]; exact h.sigsNd
  · rw [hev, hn]; exact h.fresh
  · rw [hev]; exact h.once
  · rw [hcb]; exact h.cbsOk

theorem setDisp_inv (s : State) (g : Nat) (d : Disp) (h : Inv s) (hv : valid s (.setDisp g d) = true) :
    Inv (setDisp s g d).1 := by
  simp only [valid, ne_eq, decide_not, Bool.not_eq_eq_eq_not, Bool.not_true, decide_eq_false_iff_not] at hv
  unfold setDisp
  by_cases hk : ((s.os g).kind = .tbox || !sigValid g) = true
  · simp only [hk, ↓reduceIte]; exact h
  · simp only [hk, Bool.false_eq_true, ↓reduceIte]
    simp only [Bool.or_eq_true, decide_eq_true_eq, Bool.not_eq_eq_eq_not, Bool.not_true, not_or, Bool.not_eq_false] at hk
    refine inv_of_core h ?_ rfl rfl rfl rfl
    have hc := h.core
    refine ⟨hc.fdsIff, ?_, hc.oldOk, hc.invalid, hc.entries, hc.pipeIff, hc.pipeNil, hc.ndSubs, hc.ndFds⟩
    intro g'
    show (upd s.os g (kstore d) g').kind = .tbox ↔ _
    by_cases hg : g' = g
    · subst hg
      simp only [upd_apply, ↓reduceIte]
      constructor
      · intro hh; exact absurd hh hv
      · intro hh; exact absurd ((hc.osTbox g').2 hh) hk.1
    · simp only [upd_apply, hg, ↓reduceIte]; exact hc.osTbox g'

theorem appendPipes_nil_of_not_mem (pipe : Nat → List Nat) (g : Nat) (fds : List Nat) (l : Nat) (h : l ∉ fds) :
    appendPipes pipe g fds l = pipe l := by
  simp [appendPipes, h]

theorem raiseW_inv (s : State) (g : Nat) (wf : List Nat) (h : Inv s) : Inv (raiseW s g wf).1 := by
  unfold raiseW
  split
  · exact h
  · exact h
  · rename_i hh hk
    refine inv_of_core h ?_ rfl rfl rfl rfl
    have hc := h.core
    refine ⟨hc.fdsIff, ?_, hc.oldOk, hc.invalid, hc.entries, hc.pipeIff, hc.pipeNil, hc.ndSubs, hc.ndFds⟩
    intro g'
    show (upd s.os g (kReset (s.os g)) g').kind = .tbox ↔ _
    by_cases hg : g' = g
    · subst hg
      simp only [upd_apply, ↓reduceIte]
      have hne : (kReset (s.os g')).kind ≠ .tbox := by
        unfold kReset; split
        · simp
        · rw [hk]; simp
      constructor
      · intro h1; exact absurd h1 hne
      · intro h1; have := (hc.osTbox g').2 h1; rw [hk] at this; cases this
    · simp only [upd_apply, hg, ↓reduceIte]; exact hc.osTbox g'
  · have hc := touchCtx_core s g h.core
    refine inv_of_core h ?_ rfl rfl rfl rfl
    refine ⟨hc.fdsIff, hc.osTbox, hc.oldOk, hc.invalid, hc.entries, hc.pipeIff, ?_, hc.ndSubs, hc.ndFds⟩
    intro l hp
    show appendPipes s.pipe g ((ctxOf s g).fds.filter (wrOk s wf)) l = []
    have hnot : l ∉ (ctxOf s g).fds.filter (wrOk s wf) := by
      intro hm
      have hm := (List.mem_filter.1 hm).1
      have : subsOf s l g ≠ [] := (h.core.fdsIff g l).1 hm
      have : s.subs l ≠ [] := (h.core.subs_ne_nil_iff l).2 ⟨g, this⟩
      have := (h.core.pipeIff l).2 this
      have hp' : s.hasPipe l = false := hp
      rw [hp'] at this; cases this
    rw [appendPipes_nil_of_not_mem _ _ _ _ hnot]
    exact h.core.pipeNil l hp

theorem raise_inv (s : State) (g : Nat) (h : Inv s) : Inv (raise s g).1 := raiseW_inv s g [] h

/-! ### callbacks (scripts) and a loop pass -/

theorem nodup_dedup (l : List Nat) : (dedup l).Nodup := by
  induction l with
  | nil => exact List.nodup_nil
  | cons x xs ih => exact nodup_ins ih

theorem enableP_inv (s : State) (e : Nat) (h : Inv s) : Inv (enableP repaired s e).1 := by
  unfold enableP; split
  · exact h
  · exact enable_inv s e h

theorem act_inv (s : State) (l : Nat) (a : Act) (h : Inv s) : Inv (act repaired s l a) := by
  cases a with
  | enable j => exact enable_inv s j h
  | disable j => exact disable_inv s j h
  | destroy j => exact destroy_inv s j h
  | init j sg o => exact initEv_inv s j _ o h (nodup_dedup sg)
  | enableP j => exact enableP_inv s j h

theorem runScript_inv (s : State) (l : Nat) (as : List Act) (h : Inv s) : Inv (runScript repaired s l as) := by
  induction as generalizing s with
  | nil => exact h
  | cons a as ih => exact ih _ (act_inv s l a h)

/-- `onSignal` up to (not including) the user callback -/
def evPre (s : State) (l e g : Nat) : State :=
  let v := s.evs e
  let s1 := if v.oneshot then (disable s e).1 else s
  let v1 := s1.evs e
  let s2 := setEv s1 e { v1 with fired := v1.fired + 1 }
  { s2 with cbs := { ev := e, sig := g, loop := l, enabledInCb := v1.enabled, oneshot := v.oneshot,
                     firedBefore := v.fired, evLoop := v.loop,
                     subscribed := v.enabled && v.sigs.contains g, alive := v.alive } :: s2.cbs }

theorem evOnSignal_eq (fx : Fixes) (s : State) (l e g : Nat) :
    evOnSignal fx s l e g = runScript fx (evPre s l e g) l (s.evs e).script := rfl

theorem evPre_inv (s : State) (l e g : Nat) (h : Inv s) (hm : e ∈ subsOf s l g) : Inv (evPre s l e g) := by
  have hmem := (h.mem l g e).1 hm
  have halive : (s.evs e).alive = true := by
    cases ha : (s.evs e).alive with
    | true => rfl
    | false => have := h.dead e ha; rw [hmem.1] at this; cases this
  unfold evPre
  by_cases ho : (s.evs e).oneshot = true
  · -- one-shot: disabled first
    simp only [ho, ↓reduceIte]
    have h1 := disable_inv s e h
    have hself := disable_evs_self s e
    rw [halive] at hself
    simp only [↓reduceIte] at hself
    have hcb := disable_cbs s e
    generalize (disable s e).1 = s1 at h1 hself hcb
    refine ⟨core_congr h1.core rfl rfl rfl rfl rfl, ?_, ?_, ?_, ?_, ?_, ?_, ?_⟩
    · intro l' g' e'
      show e' ∈ subsOf s1 l' g' ↔ _
      rw [h1.mem]
      by_cases he : e' = e
      · subst he; simp [setEv, hself]
      · simp [setEv, he]
    · intro e' hd
      by_cases he : e' = e
      · subst he; simp [setEv, hself]
      · simp only [setEv, upd_apply, he, ↓reduceIte] at hd ⊢; exact h1.dead e' hd
    · intro e' hd
      by_cases he : e' = e
      · subst he
        simp only [setEv, upd_apply, ↓reduceIte] at hd ⊢
        exact h1.uninit e' hd
      · simp only [setEv, upd_apply, he, ↓reduceIte] at hd ⊢; exact h1.uninit e' hd
    · intro e'
      by_cases he : e' = e
      · subst he; simp only [setEv, upd_apply, ↓reduceIte]; exact h1.sigsNd e'
      · simp only [setEv, upd_apply, he, ↓reduceIte]; exact h1.sigsNd e'
    · intro e' hn'
      by_cases he : e' = e
      · subst he
        simp only [setEv, upd_apply, ↓reduceIte]
        exact h1.fresh e' hn'
      · simp only [setEv, upd_apply, he, ↓reduceIte]; exact h1.fresh e' hn'
    · intro e' ho' hen'
      by_cases he : e' = e
      · subst he; simp [setEv, hself] at hen'
      · simp only [setEv, upd_apply, he, ↓reduceIte] at ho' hen' ⊢; exact h1.once e' ho' hen'
    · intro c hc
      simp only [setEv, List.mem_cons] at hc
      rcases hc with rfl | hc
      · refine ⟨hmem.2.2.symm, by simp [hmem.1, hmem.2.1], halive, fun _ => ⟨by simp [hself], h.once e ho hmem.1⟩, fun hh => by simp at hh⟩
      · rw [hcb] at hc; exact h.cbsOk c hc
  · -- persistent
    simp only [ho, Bool.false_eq_true, ↓reduceIte]
    refine ⟨core_congr h.core rfl rfl rfl rfl rfl, ?_, ?_, ?_, ?_, ?_, ?_, ?_⟩
    · intro l' g' e'
      show e' ∈ subsOf s l' g' ↔ _
      rw [h.mem]
      by_cases he : e' = e
      · subst he; simp [setEv]
      · simp [setEv, he]
    · intro e' hd
      by_cases he : e' = e
      · subst he; simp only [setEv, upd_apply, ↓reduceIte] at hd ⊢; exact h.dead e' hd
      · simp only [setEv, upd_apply, he, ↓reduceIte] at hd ⊢; exact h.dead e' hd
    · intro e' hd
      by_cases he : e' = e
      · subst he; simp only [setEv, upd_apply, ↓reduceIte] at hd ⊢; exact h.uninit e' hd
      · simp only [setEv, upd_apply, he, ↓reduceIte] at hd ⊢; exact h.uninit e' hd
    · intro e'
      by_cases he : e' = e
      · subst he; simp only [setEv, upd_apply, ↓reduceIte]; exact h.sigsNd e'
      · simp only [setEv, upd_apply, he, ↓reduceIte]; exact h.sigsNd e'
    · intro e' hn'
      by_cases he : e' = e
      · subst he; simp only [setEv, upd_apply, ↓reduceIte]; exact h.fresh e' hn'
      · simp only [setEv, upd_apply, he, ↓reduceIte]; exact h.fresh e' hn'
    · intro e' ho' hen'
      by_cases he : e' = e
      · subst he; simp only [setEv, upd_apply, ↓reduceIte] at ho'; exact absurd ho' (by simp)
      · simp only [setEv, upd_apply, he, ↓reduceIte] at ho' hen' ⊢; exact h.once e' ho' hen'
    · intro c hc
      simp only [setEv, List.mem_cons] at hc
      rcases hc with rfl | hc
      · refine ⟨hmem.2.2.symm, by simp [hmem.1, hmem.2.1], halive, fun hh => absurd hh (by simp), fun _ => hmem.1⟩
      · exact h.cbsOk c hc

theorem evOnSignal_inv (s : State) (l e g : Nat) (h : Inv s) (hm : e ∈ subsOf s l g) :
    Inv (evOnSignal repaired s l e g) := by
  rw [evOnSignal_eq]; exact runScript_inv _ _ _ (evPre_inv s l e g h hm)

/-- the repaired dispatch loop: one step -/
theorem dispatch_cons (s : State) (l g e : Nat) (es : List Nat) :
    dispatch repaired s l g (e :: es) =
      if e ∈ subsOf s l g then dispatch repaired (evOnSignal repaired s l e g) l g es else dispatch repaired s l g es := by
  simp only [dispatch, repaired, Bool.true_and, Bool.not_eq_eq_eq_not, Bool.not_true, List.contains_eq_mem,
    decide_eq_false_iff_not]
  by_cases hm : e ∈ subsOf s l g <;> simp [hm]

theorem dispatch_inv (s : State) (l g : Nat) (todo : List Nat) (h : Inv s) : Inv (dispatch repaired s l g todo) := by
  induction todo generalizing s with
  | nil => exact h
  | cons e es ih =>
    rw [dispatch_cons]
    split
    · rename_i hm; exact ih _ (evOnSignal_inv s l e g h hm)
    · exact ih _ h

theorem passChunk_inv (s : State) (l : Nat) (ord items : List Nat) (h : Inv s) :
    Inv (passChunk repaired s l ord items) := by
  induction items generalizing s with
  | nil => exact h
  | cons g gs ih => exact ih _ (dispatch_inv s l g _ h)

/-- taking numbers out of a loop's pipe keeps the invariant -/
theorem setPipe_inv (s : State) (l : Nat) (p : List Nat) (hv : Nat → Nat) (h : Inv s) (hp : s.hasPipe l = true) :
    Inv { s with pipe := upd s.pipe l p, head := hv } := by
  refine inv_of_core h ?_ rfl rfl rfl rfl
  have hc := h.core
  refine ⟨hc.fdsIff, hc.osTbox, hc.oldOk, hc.invalid, hc.entries, hc.pipeIff, ?_, hc.ndSubs, hc.ndFds⟩
  intro l' hp'
  show upd s.pipe l p l' = []
  by_cases hl : l' = l
  · subst hl; have hp'' : s.hasPipe l' = false := hp'; rw [hp] at hp''; cases hp''
  · simp only [upd_apply, hl, ↓reduceIte]; exact hc.pipeNil l' hp'

/-- generic induction over the read loop of `CommonLoop::onSignal` -/
theorem passLoop_ind (l : Nat) (ord : List Nat) (P : State → Prop)
    (hChunk : ∀ s items, Inv s → P s → P (passChunk repaired s l ord items))
    (hPipe : ∀ s p hv, P s → P { s with pipe := upd s.pipe l p, head := hv })
    (fuel : Nat) (s : State) (h : Inv s) (hp : P s) :
    Inv (passLoop repaired l ord fuel s) ∧ P (passLoop repaired l ord fuel s) := by
  induction fuel generalizing s with
  | zero => exact ⟨h, hp⟩
  | succ n ih =>
    unfold passLoop
    by_cases hpipe : s.hasPipe l = true
    · simp only [hpipe, Bool.not_true, Bool.false_eq_true, ↓reduceIte]
      split
      · exact ⟨h, hp⟩
      · have h1 := setPipe_inv s l ((s.pipe l).drop 10) (upd s.head l ((hd s l + 10) % pageLen)) h hpipe
        exact ih _ (passChunk_inv _ l ord _ h1) (hChunk _ _ h1 (hPipe s _ _ hp))
    · simp only [hpipe, Bool.not_false, ↓reduceIte]; exact ⟨h, hp⟩

theorem pass_inv (s : State) (l : Nat) (ord : List Nat) (h : Inv s) : Inv (pass repaired s l ord) :=
  (passLoop_ind l ord (fun _ => True) (fun _ _ _ _ => trivial) (fun _ _ _ _ => trivial) _ s h trivial).1

/-- generic induction over the read loop with the kernel's `read()` answers as an oracle -/
theorem passLoopC_ind (l : Nat) (ord : List Nat) (P : State → Prop)
    (hChunk : ∀ s items, Inv s → P s → P (passChunk repaired s l ord items))
    (hPipe : ∀ s p hv, P s → P { s with pipe := upd s.pipe l p, head := hv })
    (fuel : Nat) (cs : List (Option Nat)) (s : State) (h : Inv s) (hp : P s) :
    Inv (passLoopC repaired l ord cs fuel s) ∧ P (passLoopC repaired l ord cs fuel s) := by
  induction fuel generalizing s cs with
  | zero => unfold passLoopC; exact ⟨h, hp⟩
  | succ n ih =>
    unfold passLoopC
    by_cases hpipe : s.hasPipe l = true
    · simp only [hpipe, Bool.not_true, Bool.false_eq_true, ↓reduceIte]
      split
      · exact ⟨h, hp⟩
      · split
        · exact ⟨h, hp⟩
        · have h1 := setPipe_inv s l ((s.pipe l).drop (nextLen cs)) (upd s.head l ((hd s l + nextLen cs) % pageLen)) h hpipe
          exact ih _ _ (passChunk_inv _ l ord _ h1) (hChunk _ _ h1 (hPipe s _ _ hp))
    · simp only [hpipe, Bool.not_false, ↓reduceIte]; exact ⟨h, hp⟩

theorem passC_inv (s : State) (l : Nat) (ord : List Nat) (cs : List (Option Nat)) (h : Inv s) :
    Inv (passC repaired s l ord cs) :=
  (passLoopC_ind l ord (fun _ => True) (fun _ _ _ _ => trivial) (fun _ _ _ _ => trivial) _ cs s h trivial).1

theorem step_inv (s : State) (op : Op) (h : Inv s) (hv : valid s op = true) : Inv (step repaired s op) := by
  cases op with
  | newEv l sc => exact newEv_inv s l sc h
  | init e sigs o => exact initEv_inv s e sigs o h (by simpa [valid] using hv)
  | enable e => exact enable_inv s e h
  | disable e => exact disable_inv s e h
  | destroy e => exact destroy_inv s e h
  | setDisp g d => exact setDisp_inv s g d h hv
  | raise g => exact raise_inv s g h
  | pass l ord => exact pass_inv s l ord h
  | raiseW g wf => exact raiseW_inv s g wf h
  | passC l ord cs => exact passC_inv s l ord cs h
  | setCap b => exact inv_of_core h (core_congr h.core rfl rfl rfl rfl rfl) rfl rfl rfl rfl
  | enableP e => exact enableP_inv s e h

/-- every state reachable by a history of the property satisfies the invariant -/
theorem exec_inv (s : State) (ops : List Op) (h : Inv s) (s' : State) (he : exec repaired s ops = some s') : Inv s' := by
  induction ops generalizing s with
  | nil => simp only [exec, Option.some.injEq] at he; exact he ▸ h
  | cons op ops ih =>
    simp only [exec] at he
    split at he
    · rename_i hv; exact ih _ (step_inv s op h hv) he
    · cases he

end Tbox.C04
