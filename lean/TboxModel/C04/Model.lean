/-
C04 — model of the signal-event machinery of the event loop:
  modules/event/common_loop_signal.cpp  (SignalHandlerFunc / subscribeSignal / unsubscribeSignal / onSignal)
  modules/event/signal_event_impl.cpp   (SignalEventImpl: initialize / enable / disable / onSignal / dtor)
  modules/event/common_loop.h           (all_signals_subscribers_, signal_read_fd_/signal_write_fd_)

What is what:
* `os`      the kernel's per-signal disposition (`struct sigaction`: handler, SA_SIGINFO, other flags, mask);
            `Kind.tbox` is `SignalHandlerFunc`, `Kind.handler h` a user handler (harness sentinel h).
* `ctxs`    the process-wide `_signal_ctxs_ : map<int, SignalCtx>`; `fds` = set of write fds.  A loop has at
            most one signal pipe at a time and fds of open pipes are distinct, so a write fd is identified
            with the id of the loop that owns it (a loop without a pipe erases fd -1, which is never a member;
            in the model `l ∈ fds` implies that loop l has a pipe — `Core.pipeIff`/`Core.fdsIff`).
* `subs l`  `all_signals_subscribers_` of loop l: an association list signo ↦ set of subscribers
            (kept as the code keeps it: an entry is created by `operator[]` and erased when its set is empty).
* `pipe l`  the signal numbers written to loop l's pipe and not yet read; `hasPipe l` ⇔ `signal_read_fd_ != -1`.
* `evs`     the `SignalEventImpl` objects.  `fired` is a ghost counter (callbacks since the last
            initialize / disabled→enabled transition), used only by theorems.
* `calls` / `cbs`  ghost logs (newest first): invocations of user handlers, callbacks of signal events.

Round 2: the model follows the REPAIRED code (patches/C04-01…03); the code as found is kept behind the `Fixes`
switches and used only by the `_counterexample` theorems:
* `initDisables`   — `SignalEventImpl::initialize` calls `disable()` first (as found: no guard, no re-subscription);
* `enableRollback` — `SignalEventImpl::enable` unsubscribes what it had subscribed when a later `subscribeSignal`
                     fails (`sigaction` → EINVAL for SIGKILL/SIGSTOP; as found: the event stays half subscribed);
* `revalidate`     — `CommonLoop::onSignal` checks every entry of the subscriber snapshot against the live set
                     before calling it (as found: an event disabled or deleted by an earlier callback is called).
Callbacks are scripts (enable/disable/destroy of events of the same loop) carried in the event object.
Signal ids 0 and 3 stand for SIGKILL and SIGSTOP (ids ascend with the signal numbers, so a sorted id list is the
iteration order of `std::set<int>`): `sigaction` fails on them.
The order in which `onSignal` walks its snapshot (pointer order of a `std::set<SignalSubscribuer*>`) is an oracle
argument of `pass`; theorems quantify over every oracle.
Round 4: (a) the signal pipe is created with `pipe2(O_CLOEXEC | O_NONBLOCK)`: the handler's `write()` never blocks; it
fails with EAGAIN when the pipe is full (`capOf`: 64 KiB = 16384 numbers, 4 KiB = 1024 after `F_SETPIPE_SZ`) and the
handler IGNORES the result (`(void)wsize`): that loop loses that delivery, the other loops and the chained old handler
do not.  A 4-byte write to a pipe is atomic (POSIX, <= PIPE_BUF): the kernel's answers are `ok` or an error, never a
short count; `raiseW` takes the set of loops whose write is answered with an (injected) error as an oracle.
(b) `onSignal`'s `read()` answers are an oracle of `passC`: `some c` = c numbers (1..10, a short read), `none` = an
error (EINTR/EIO/...: the loop logs and leaves, the content stays in the pipe for the next pass).
(c) callback scripts act on events of ANY loop (the call is made on the thread of the loop that runs the callback).
(d) signal ids 6.. stand for SIGRTMAX (valid), 65, INT_MAX, 0, a negative number and 32 (reserved by glibc): `sigaction`
fails with EINVAL on all but the first (`sigValid`).
Round 5: (a) `Disp.flags` is a bit set (1 SA_RESTART, 2 SA_NODEFER, 4 SA_RESETHAND, 8 SA_ONSTACK, 16 SA_NOCLDSTOP,
32 SA_NOCLDWAIT) and `Disp.mask` the 64-bit kernel `sa_mask` (bit k = signal number k+1; the kernel clears SIGKILL / SIGSTOP:
`kstore`).  The kernel's SA_RESETHAND: a DIRECT delivery to a user handler resets the handler to SIG_DFL (Linux keeps flags and
mask); a delivery to tbox's handler chains the saved handler and resets nothing: the saved disposition is restored whole.
`handlerEnv`: what the invoked user handler sees (own signal blocked, extra mask, alternate stack) - under tbox's handler
(SA_SIGINFO only, empty mask) the saved disposition's SA_NODEFER / sa_mask / SA_ONSTACK are NOT in force.
(b) the pipe is a ring of pages: a 4-byte write merges into the last page or takes a new slot, a slot is released only when
wholly read, so with `head l` numbers of the first page already consumed only `capOf - head` fit (`hd`; back to 0 when the
pipe runs empty).
Round 6: (a) `pipe2` of `CreateFdPair` answered with an error (EMFILE / ENFILE) is an oracle: `enableP` = `enable()` with that answer.
`pipe2` is called only by the first `subscribeSignal` of an `enable()` whose loop has no signal pipe (`needsPipe`); the call returns
false before `all_signals_subscribers_[signo]`, the mutex, `sigprocmask` and `sigaction`: nothing changes.  (b) the flags / mask of
tbox's OWN handler (`tboxDisp`: SA_SIGINFO only) are a model-internal observable (`M own=`), the application's saved / restored
disposition stays property-level.  (c) `blockedCall`: what a thread blocked in a slow system call sees when g arrives — decided by
SA_RESTART of the INSTALLED disposition (tbox's own has none: EINTR even where the saved disposition would have restarted).
Not modelled (see props/C04/plugin.py ASSUMPTIONS): `SA_SIGINFO` combined with `SIG_IGN`; deliveries concurrent with a
subscription change are modelled at step level in `Conc.lean`.
-/
namespace Tbox.C04

inductive Kind where
  | dfl | ign | handler (h : Nat) | tbox
deriving DecidableEq, Repr

/-- a `struct sigaction` as far as the property looks at it -/
structure Disp where
  kind    : Kind := .dfl
  siginfo : Bool := false    -- SA_SIGINFO
  flags   : Nat := 0         -- the other sa_flags bits: 1 RESTART, 2 NODEFER, 4 RESETHAND, 8 ONSTACK, 16 NOCLDSTOP, 32 NOCLDWAIT
  mask    : Nat := 0         -- sa_mask as the kernel keeps it: bit k = signal number k + 1 (64 bits)
deriving DecidableEq, Repr

def Disp.restart (d : Disp) : Bool := d.flags.testBit 0
def Disp.noDefer (d : Disp) : Bool := d.flags.testBit 1
def Disp.resetHand (d : Disp) : Bool := d.flags.testBit 2
def Disp.onStack (d : Disp) : Bool := d.flags.testBit 3

/-- all 64 signals but SIGKILL (9) and SIGSTOP (19): the kernel never blocks those two (`sigdelsetmask`) -/
def maskable : Nat := 2 ^ 64 - 1 - 2 ^ 8 - 2 ^ 18
/-- `sa_mask` as the kernel stores it -/
def normMask (m : Nat) : Nat := m &&& maskable
/-- `sigaction(g, &d, …)`: what the kernel keeps of d -/
def kstore (d : Disp) : Disp := { d with mask := normMask d.mask }

/-- a value-initialised `struct sigaction` (what `_signal_ctxs_[signo]` creates) -/
def zeroDisp : Disp := {}
/-- what `subscribeSignal` installs: `sa_sigaction = SignalHandlerFunc, sa_flags = SA_SIGINFO`, empty mask -/
def tboxDisp : Disp := { kind := .tbox, siginfo := true }

structure Ctx where
  fds : List Nat := []
  old : Disp := zeroDisp
deriving DecidableEq, Repr

/-! ### `std::map<int, …>` as an association list -/
abbrev Map (α : Type) := List (Nat × α)

namespace Map
variable {α : Type}
def find : Map α → Nat → Option α
  | [], _ => none
  | (k', v) :: r, k => if k' = k then some v else find r k
def erase (m : Map α) (k : Nat) : Map α := m.filter (fun p => p.1 != k)
def set (m : Map α) (k : Nat) (v : α) : Map α := (k, v) :: erase m k
end Map

/-- `std::set<…>::insert` / `erase` on a list without duplicates -/
def ins (x : Nat) (l : List Nat) : List Nat := if x ∈ l then l else x :: l
def del (x : Nat) (l : List Nat) : List Nat := l.filter (fun y => y != x)

def upd {β : Type} (f : Nat → β) (k : Nat) (v : β) : Nat → β := fun i => if i = k then v else f i

/-- `sigaction(g, …)` succeeds (ids 0 / 3 = SIGKILL / SIGSTOP: EINVAL) -/
def sigValid (g : Nat) : Bool := g != 0 && g != 3 && decide (g < 7)

/-- what a callback script may do (to events of any loop) -/
inductive Act where
  | enable (j : Nat) | disable (j : Nat) | destroy (j : Nat)
  | init (j : Nat) (sigs : List Nat) (oneshot : Bool)
  | enableP (j : Nat)      -- `enable()` with the kernel answering `pipe2` (if it is called) with EMFILE / ENFILE
deriving Repr, DecidableEq

/-- which of the three repairs are in the code -/
structure Fixes where
  initDisables : Bool
  enableRollback : Bool
  revalidate : Bool
deriving Repr, DecidableEq

def repaired : Fixes := ⟨true, true, true⟩
def asFound : Fixes := ⟨false, false, false⟩

structure Ev where
  alive   : Bool := false
  inited  : Bool := false
  enabled : Bool := false
  oneshot : Bool := false
  sigs    : List Nat := []
  loop    : Nat := 0
  fired   : Nat := 0
  script  : List Act := []
deriving Repr, DecidableEq

/-- one callback of a signal event, as logged -/
structure Cb where
  ev : Nat
  sig : Nat
  loop : Nat            -- the loop whose pass made the call
  enabledInCb : Bool    -- `isEnabled()` as seen inside the callback
  oneshot : Bool
  firedBefore : Nat     -- ghost: callbacks since the last enablement, before this one
  evLoop : Nat          -- ghost: the loop the event belongs to
  subscribed : Bool     -- ghost: at entry of onSignal the event was enabled and `sig` was in its set
  alive : Bool          -- ghost: the object existed (false = the call is a use-after-free)
deriving Repr, DecidableEq

structure State where
  os      : Nat → Disp := fun _ => zeroDisp
  ctxs    : Nat → Option Ctx := fun _ => none
  subs    : Nat → Map (List Nat) := fun _ => []
  hasPipe : Nat → Bool := fun _ => false
  pipe    : Nat → List Nat := fun _ => []
  evs     : Nat → Ev := fun _ => {}
  nEv     : Nat := 0
  calls   : List (Nat × Nat) := []      -- (handler id, signo)
  cbs     : List Cb := []
  small   : Bool := false               -- the signal pipes are shrunk to one page (`F_SETPIPE_SZ 4096`)
  head    : Nat → Nat := fun _ => 0     -- numbers of the pipe's first page already read (meaningful while the pipe is non-empty)

def init : State := {}

/-- how many 4-byte signal numbers a signal pipe holds (64 KiB by default, one page when shrunk) -/
def capOf (s : State) : Nat := if s.small then 1024 else 16384

/-- numbers per page of a pipe -/
def pageLen : Nat := 1024
/-- offset of the first pending number in its page; an empty pipe has released every page -/
def hd (s : State) (l : Nat) : Nat := if s.pipe l = [] then 0 else s.head l
/-- `head` with the entries of empty pipes reset -/
def normHead (s : State) : Nat → Nat := fun l => hd s l

def subsOf (s : State) (l g : Nat) : List Nat := ((s.subs l).find g).getD []
def ctxOf (s : State) (g : Nat) : Ctx := (s.ctxs g).getD {}
def fdsOf (s : State) (g : Nat) : List Nat := (ctxOf s g).fds

/-- `CommonLoop::subscribeSignal(signo = g, who = e)` on loop l (success path) -/
def subscribe (s : State) (l g e : Nat) : State :=
  -- if (signal_read_fd_ == -1) CreateFdPair …
  let hasPipe := upd s.hasPipe l true
  let pipe := if s.hasPipe l then s.pipe else upd s.pipe l []
  let cur := subsOf s l g            -- all_signals_subscribers_[signo]
  if cur.isEmpty then
    let c := ctxOf s g               -- _signal_ctxs_[signo]
    if c.fds.isEmpty then
      -- sigaction(signo, &new_handler, &this_signal_ctx.old_handler)
      { s with hasPipe := hasPipe, pipe := pipe,
               os := upd s.os g tboxDisp,
               ctxs := upd s.ctxs g (some { fds := ins l c.fds, old := s.os g }),
               subs := upd s.subs l ((s.subs l).set g (ins e cur)) }
    else
      { s with hasPipe := hasPipe, pipe := pipe,
               ctxs := upd s.ctxs g (some { c with fds := ins l c.fds }),
               subs := upd s.subs l ((s.subs l).set g (ins e cur)) }
  else
    { s with hasPipe := hasPipe, pipe := pipe,
             subs := upd s.subs l ((s.subs l).set g (ins e cur)) }

/-- `CommonLoop::unsubscribeSignal(signo = g, who = e)` on loop l -/
def unsubscribe (s : State) (l g e : Nat) : State :=
  let cur := del e (subsOf s l g)
  if !cur.isEmpty then
    { s with subs := upd s.subs l ((s.subs l).set g cur) }
  else
    let m := (s.subs l).erase g               -- all_signals_subscribers_.erase(signo)
    let c := ctxOf s g                        -- _signal_ctxs_[signo]
    let fds := del l c.fds                    -- write_fds.erase(signal_write_fd_)
    -- restore the old sigaction and erase the ctx when no loop is left
    let os := if fds.isEmpty then upd s.os g c.old else s.os
    let ctxs := if fds.isEmpty then upd s.ctxs g none else upd s.ctxs g (some { c with fds := fds })
    if !m.isEmpty then
      { s with subs := upd s.subs l m, os := os, ctxs := ctxs }
    else
      -- no subscriber of any signal left in this loop: close the pipe (unread content is lost)
      { s with subs := upd s.subs l m, os := os, ctxs := ctxs,
               hasPipe := upd s.hasPipe l false, pipe := upd s.pipe l [] }

/-- `subscribeSignal` reaches `sigaction` and it fails -/
def subscribeFails (s : State) (l g : Nat) : Bool :=
  (subsOf s l g).isEmpty && (fdsOf s g).isEmpty && !sigValid g

/-- the failure path of `subscribeSignal`: the `operator[]`-created entries: the subscriber entry is erased
again (and the pipe closed if the loop has no other subscription), the ctx entry stays -/
def subscribeFail (s : State) (l g : Nat) : State :=
  let m := (s.subs l).erase g
  let ctxs := upd s.ctxs g (some (ctxOf s g))
  if m.isEmpty then
    { s with ctxs := ctxs, subs := upd s.subs l m, hasPipe := upd s.hasPipe l false, pipe := upd s.pipe l [] }
  else
    { s with ctxs := ctxs, subs := upd s.subs l m, hasPipe := upd s.hasPipe l true,
             pipe := if s.hasPipe l then s.pipe else upd s.pipe l [] }

/-- the loop of `enable()`: (state, signals subscribed by this call, all succeeded) -/
def subscribeAllF (s : State) (l e : Nat) : List Nat → State × List Nat × Bool
  | [] => (s, [], true)
  | g :: gs =>
    if subscribeFails s l g then (subscribeFail s l g, [], false)
    else
      let r := subscribeAllF (subscribe s l g e) l e gs
      (r.1, g :: r.2.1, r.2.2)

def unsubscribeAll (s : State) (l e : Nat) : List Nat → State
  | [] => s
  | g :: gs => unsubscribeAll (unsubscribe s l g e) l e gs

def setEv (s : State) (e : Nat) (v : Ev) : State := { s with evs := upd s.evs e v }

/-- `SignalEventImpl::disable` -/
def disable (s : State) (e : Nat) : State × Bool :=
  let v := s.evs e
  if !v.alive then (s, false) else
  let s1 := if v.enabled then unsubscribeAll s v.loop e v.sigs else s
  (setEv s1 e { v with enabled := false }, true)

/-- `SignalEventImpl::initialize(const std::set<int>&, Mode)` -/
def initEv (fx : Fixes) (s : State) (e : Nat) (sigs : List Nat) (oneshot : Bool) : State × Bool :=
  if !(s.evs e).alive then (s, false) else
  let s1 := if fx.initDisables then (disable s e).1 else s
  let v := s1.evs e
  (setEv s1 e { v with sigs := sigs, oneshot := oneshot, inited := true, fired := 0 }, true)

/-- `SignalEventImpl::enable` -/
def enable (fx : Fixes) (s : State) (e : Nat) : State × Bool :=
  let v := s.evs e
  if !v.alive then (s, false) else
  if v.inited then
    let r := subscribeAllF s v.loop e v.sigs
    if r.2.2 then
      (setEv r.1 e { v with enabled := true, fired := if v.enabled then v.fired else 0 }, true)
    else if fx.enableRollback && !v.enabled then
      (unsubscribeAll r.1 v.loop e r.2.1, false)
    else (r.1, false)
  else
    (setEv s e { v with enabled := true, fired := if v.enabled then v.fired else 0 }, true)

/-- `enable()` of event e reaches `pipe2`: the event is initialised with a non-empty set and its loop has no signal pipe
(`signal_read_fd_ == -1` in the first `subscribeSignal`; a later one finds the pipe the first one made, or is not reached) -/
def needsPipe (s : State) (e : Nat) : Bool :=
  let v := s.evs e
  v.alive && v.inited && !v.sigs.isEmpty && !s.hasPipe v.loop

/-- `SignalEventImpl::enable` with the kernel answering `pipe2` with an error (EMFILE / ENFILE): `CreateFdPair` fails, `subscribeSignal`
returns false before any bookkeeping, the roll-back loop of `enable()` breaks at the first signal -/
def enableP (fx : Fixes) (s : State) (e : Nat) : State × Bool :=
  if needsPipe s e then (s, false) else enable fx s e

/-- `~SignalEventImpl` -/
def destroy (s : State) (e : Nat) : State × Bool :=
  let v := s.evs e
  if !v.alive then (s, false) else
  let s1 := (disable s e).1
  (setEv s1 e { s1.evs e with alive := false }, true)

/-- `loop->newSignalEvent()` on loop l + `setCallback(script)` -/
def newEv (s : State) (l : Nat) (script : List Act) : State :=
  { setEv s s.nEv { alive := true, loop := l, script := script } with nEv := s.nEv + 1 }

/-- the user calls `sigaction(g, d, nullptr)`; not while tbox's handler is installed; EINVAL for SIGKILL/SIGSTOP -/
def setDisp (s : State) (g : Nat) (d : Disp) : State × Bool :=
  if (s.os g).kind = .tbox || !sigValid g then (s, false) else ({ s with os := upd s.os g (kstore d) }, true)

/-- `for (int fd : write_fds) write(fd, &signo, sizeof signo)` — `write_fds` is a set: one write per loop -/
def appendPipes (pipe : Nat → List Nat) (g : Nat) (fds : List Nat) : Nat → List Nat :=
  fun l => if l ∈ fds then pipe l ++ [g] else pipe l

inductive RaiseOut where | killed | ignored | handled
deriving DecidableEq, Repr

/-- the handler's `write(fd, &signo, 4)` to loop l's pipe succeeds: no injected error and the pipe is not full -/
def wrOk (s : State) (wf : List Nat) (l : Nat) : Bool := !wf.contains l && decide (hd s l + (s.pipe l).length < capOf s)

/-- the kernel runs a user handler with SA_RESETHAND: the handler (only) is reset to SIG_DFL -/
def kReset (d : Disp) : Disp := if d.resetHand then { d with kind := .dfl } else d

/-- what a user handler invoked for g sees: (g itself is blocked, the other blocked signals, it runs on the alternate stack).
Installed directly: the kernel applies ITS disposition; chained by tbox's handler: tbox's (no SA_NODEFER, empty mask, no
SA_ONSTACK) - the saved disposition's settings are not in force. -/
def handlerEnv (s : State) (g : Nat) : Bool × Nat × Bool :=
  match (s.os g).kind with
  | .tbox => (true, 0, false)
  | _ => (!(s.os g).noDefer, (s.os g).mask, (s.os g).onStack)

/-- what a thread blocked in a slow system call (a `read` on an empty pipe) sees when g is delivered to it -/
inductive Blocked where
  | killed        -- SIG_DFL: the default action ends the process
  | undisturbed   -- SIG_IGN: the signal is discarded, the call sleeps on
  | restarted     -- a handler with SA_RESTART: the kernel restarts the call after the handler
  | eintr         -- a handler without SA_RESTART: the call fails with EINTR
deriving DecidableEq, Repr

/-- the kernel decides by the INSTALLED disposition: tbox's own handler (`tboxDisp`, flags 0) has no SA_RESTART, whatever the
saved disposition says -/
def blockedCall (s : State) (g : Nat) : Blocked :=
  match (s.os g).kind with
  | .dfl => .killed
  | .ign => .undisturbed
  | .tbox => .eintr          -- `new_handler.sa_flags = SA_SIGINFO`: no SA_RESTART
  | .handler _ => if (s.os g).restart then .restarted else .eintr


/-- delivery of signal g to the process; `wf` = the loops whose pipe write is answered with an error by the kernel
(EAGAIN / EINTR / EIO ... — the handler does not look at the result) -/
def raiseW (s : State) (g : Nat) (wf : List Nat) : State × RaiseOut :=
  match (s.os g).kind with
  | .dfl => (s, .killed)            -- default action: terminate (the harness does not raise)
  | .ign => (s, .ignored)
  | .handler h => ({ s with calls := (h, g) :: s.calls, os := upd s.os g (kReset (s.os g)) }, .handled)
  | .tbox =>
    -- SignalHandlerFunc: `_signal_ctxs_[signo]`, old handler first, then one write per subscribed loop
    let c := ctxOf s g
    let calls := match c.old.kind with
      | .handler h => (h, g) :: s.calls
      | _ => s.calls
    ({ s with ctxs := upd s.ctxs g (some c), calls := calls, head := normHead s,
              pipe := appendPipes s.pipe g (c.fds.filter (wrOk s wf)) }, .handled)

/-- delivery of signal g, every write answered by the real pipe -/
def raise (s : State) (g : Nat) : State × RaiseOut := raiseW s g []

/-- a list as the `std::set` it denotes -/
def dedup : List Nat → List Nat
  | [] => []
  | x :: xs => ins x (dedup xs)

/-- one action of a callback script running on loop l (on l's thread): an API call on an event of any loop -/
def act (fx : Fixes) (s : State) (_l : Nat) : Act → State
  | .enable j => (enable fx s j).1
  | .disable j => (disable s j).1
  | .destroy j => (destroy s j).1
  | .init j sg o => (initEv fx s j (dedup sg) o).1
  | .enableP j => (enableP fx s j).1

def runScript (fx : Fixes) (s : State) (l : Nat) : List Act → State
  | [] => s
  | a :: as => runScript fx (act fx s l a) l as

/-- `SignalEventImpl::onSignal(g)` for event e, called from loop l's dispatch: one-shot disables itself
first, then the user callback (its script) -/
def evOnSignal (fx : Fixes) (s : State) (l e g : Nat) : State :=
  let v := s.evs e
  let s1 := if v.oneshot then (disable s e).1 else s
  let v1 := s1.evs e
  let s2 := setEv s1 e { v1 with fired := v1.fired + 1 }
  let s3 := { s2 with cbs := { ev := e, sig := g, loop := l, enabledInCb := v1.enabled, oneshot := v.oneshot,
                               firedBefore := v.fired, evLoop := v.loop,
                               subscribed := v.enabled && v.sigs.contains g, alive := v.alive } :: s2.cbs }
  runScript fx s3 l v.script

/-- `for (auto s : todo) …` over the COPY `todo` of the subscriber set; the repaired code skips an entry that is
no longer in the live set -/
def dispatch (fx : Fixes) (s : State) (l g : Nat) : List Nat → State
  | [] => s
  | e :: es =>
    if fx.revalidate && !(subsOf s l g).contains e then dispatch fx s l g es
    else dispatch fx (evOnSignal fx s l e g) l g es

/-- the snapshot in the order the implementation walks it: `ord` first (the oracle), the rest after -/
def reorder (ord xs : List Nat) : List Nat :=
  ord.filter (fun e => xs.contains e) ++ xs.filter (fun e => !ord.contains e)

/-- the signal numbers of one `read()` (at most 10) -/
def passChunk (fx : Fixes) (s : State) (l : Nat) (ord : List Nat) : List Nat → State
  | [] => s
  | g :: gs => passChunk fx (dispatch fx s l g (reorder ord (subsOf s l g))) l ord gs

/-- `CommonLoop::onSignal`: `while (signal_read_fd_ != -1) { read ≤ 10 ints; dispatch each; }` until EAGAIN.
A callback may close the pipe (what was not yet read is lost, the rest of the chunk in hand is still
dispatched) and a later one may create a new, empty one.  `fuel` bounds the iterations (`pass` gives enough:
the pending numbers only get fewer). -/
def passLoop (fx : Fixes) (l : Nat) (ord : List Nat) : Nat → State → State
  | 0, s => s
  | fuel + 1, s =>
    if !s.hasPipe l then s else
    match s.pipe l with
    | [] => s
    | items =>
      let s1 := { s with pipe := upd s.pipe l (items.drop 10), head := upd s.head l ((hd s l + 10) % pageLen) }
      passLoop fx l ord fuel (passChunk fx s1 l ord (items.take 10))

/-- one pass of loop l -/
def pass (fx : Fixes) (s : State) (l : Nat) (ord : List Nat) : State :=
  passLoop fx l ord ((s.pipe l).length + 1) s

/-- the kernel's answer to one `read(signal_read_fd_, …, 40)`: `none` = an error other than "empty", `some c` = c numbers
(clamped to 1..10; fewer than 10 with more pending = a short read) -/
def chunkLen : Option Nat → Nat
  | none => 0
  | some c => max 1 (min c 10)

/-- how many numbers the next `read()` delivers -/
def nextLen : List (Option Nat) → Nat
  | [] => 10
  | c :: _ => chunkLen c

/-- `CommonLoop::onSignal` with the answers `cs` of its successive `read()` calls (10 numbers each once `cs` is used up) -/
def passLoopC (fx : Fixes) (l : Nat) (ord : List Nat) : List (Option Nat) → Nat → State → State
  | _, 0, s => s
  | cs, fuel + 1, s =>
    if !s.hasPipe l then s else
    match s.pipe l with
    | [] => s
    | items =>
      let n := nextLen cs
      if n = 0 then s else      -- rsize <= 0, errno != EAGAIN: LogWarn, break — nothing is consumed
      let s1 := { s with pipe := upd s.pipe l (items.drop n), head := upd s.head l ((hd s l + n) % pageLen) }
      passLoopC fx l ord cs.tail fuel (passChunk fx s1 l ord (items.take n))

def passC (fx : Fixes) (s : State) (l : Nat) (ord : List Nat) (cs : List (Option Nat)) : State :=
  passLoopC fx l ord cs ((s.pipe l).length + 1) s

inductive Op where
  | newEv (l : Nat) (script : List Act)
  | init (e : Nat) (sigs : List Nat) (oneshot : Bool)
  | enable (e : Nat)
  | disable (e : Nat)
  | destroy (e : Nat)
  | setDisp (g : Nat) (d : Disp)
  | raise (g : Nat)
  | pass (l : Nat) (ord : List Nat)
  | raiseW (g : Nat) (wf : List Nat)
  | passC (l : Nat) (ord : List Nat) (cs : List (Option Nat))
  | setCap (small : Bool)
  | enableP (e : Nat)      -- `enable()`, `pipe2` (if called) answered with EMFILE / ENFILE
deriving Repr, DecidableEq

/-- the histories the property quantifies over: `initialize` is given a set; the user installs ordinary
dispositions (never tbox's own handler); a callback does not delete its own event; an oracle is a list
without repetitions -/
def valid (s : State) : Op → Bool
  | .newEv _ script => script.all (fun a => a != .destroy s.nEv)
  | .init _ sigs _ => decide sigs.Nodup
  | .setDisp _ d => decide (d.kind ≠ .tbox)
  | .pass _ ord => decide ord.Nodup
  | .passC _ ord _ => decide ord.Nodup
  | .setCap _ => s.nEv == 0       -- `F_SETPIPE_SZ` is applied to every signal pipe at its creation
  | _ => true

def step (fx : Fixes) (s : State) : Op → State
  | .newEv l sc => newEv s l sc
  | .init e sigs o => (initEv fx s e sigs o).1
  | .enable e => (enable fx s e).1
  | .disable e => (disable s e).1
  | .destroy e => (destroy s e).1
  | .setDisp g d => (setDisp s g d).1
  | .raise g => (raise s g).1
  | .pass l ord => pass fx s l ord
  | .raiseW g wf => (raiseW s g wf).1
  | .passC l ord cs => passC fx s l ord cs
  | .setCap b => { s with small := b }
  | .enableP e => (enableP fx s e).1

def exec (fx : Fixes) (s : State) : List Op → Option State
  | [] => some s
  | op :: ops => if valid s op then exec fx (step fx s op) ops else none

end Tbox.C04
