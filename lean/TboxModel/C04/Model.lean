/-
C04 — model of the signal-event machinery of the event loop:
  modules/event/common_loop_signal.cpp  (SignalHandlerFunc / subscribeSignal / unsubscribeSignal / onSignal)
  modules/event/signal_event_impl.cpp   (SignalEventImpl: initialize / enable / disable / onSignal / dtor)
  modules/event/common_loop.h           (all_signals_subscribers_, signal_read_fd_/signal_write_fd_)

What is what:
* `os`      the kernel's per-signal disposition (`struct sigaction`: handler, SA_SIGINFO, other flags, mask);
            `Kind.tbox` is `SignalHandlerFunc`, `Kind.handler h` a user handler (harness sentinel h).
* `ctxs`    the process-wide `_signal_ctxs_ : map<int, SignalCtx>`; `fds` = set of write fds.  A loop has at
            most one signal pipe at a time and fds of open pipes are distinct, so a write fd is identified
            with the id of the loop that owns it (a loop without a pipe erases fd -1, which is never a member;
            in the model `l ∈ fds` implies that loop l has a pipe — `Core.pipeIff`/`Core.fdsIff`).
* `subs l`  `all_signals_subscribers_` of loop l: an association list signo ↦ set of subscribers
            (kept as the code keeps it: an entry is created by `operator[]` and erased when its set is empty).
* `pipe l`  the signal numbers written to loop l's pipe and not yet read; `hasPipe l` ⇔ `signal_read_fd_ != -1`.
* `evs`     the `SignalEventImpl` objects.  `fired` is a ghost counter (callbacks since the last
            initialize / disabled→enabled transition), used only by theorems.
* `calls` / `cbs`  ghost logs (newest first): invocations of user handlers, callbacks of signal events.

Not modelled (see props/C04/plugin.py ASSUMPTIONS): the failure branch of `sigaction` (invalid signal numbers;
the op alphabet has valid signals only), the capacity of the pipe (64 KiB = 16384 undelivered signals),
the 10-int read chunks of `CommonLoop::onSignal` (invisible: once the pipe is closed inside a chunk every
later lookup fails because the subscriber map is empty), `SA_SIGINFO` combined with `SIG_IGN`.
-/
namespace Tbox.C04

inductive Kind where
  | dfl | ign | handler (h : Nat) | tbox
deriving DecidableEq, Repr

/-- a `struct sigaction` as far as the property looks at it -/
structure Disp where
  kind    : Kind := .dfl
  siginfo : Bool := false    -- SA_SIGINFO
  flags   : Nat := 0         -- the other sa_flags bits (opaque)
  mask    : Nat := 0         -- sa_mask (opaque)
deriving DecidableEq, Repr

/-- a value-initialised `struct sigaction` (what `_signal_ctxs_[signo]` creates) -/
def zeroDisp : Disp := {}
/-- what `subscribeSignal` installs: `sa_sigaction = SignalHandlerFunc, sa_flags = SA_SIGINFO`, empty mask -/
def tboxDisp : Disp := { kind := .tbox, siginfo := true }

structure Ctx where
  fds : List Nat := []
  old : Disp := zeroDisp
deriving DecidableEq, Repr

/-! ### `std::map<int, …>` as an association list -/
abbrev Map (α : Type) := List (Nat × α)

namespace Map
variable {α : Type}
def find : Map α → Nat → Option α
  | [], _ => none
  | (k', v) :: r, k => if k' = k then some v else find r k
def erase (m : Map α) (k : Nat) : Map α := m.filter (fun p => p.1 != k)
def set (m : Map α) (k : Nat) (v : α) : Map α := (k, v) :: erase m k
end Map

/-- `std::set<…>::insert` / `erase` on a list without duplicates -/
def ins (x : Nat) (l : List Nat) : List Nat := if x ∈ l then l else x :: l
def del (x : Nat) (l : List Nat) : List Nat := l.filter (fun y => y != x)

def upd {β : Type} (f : Nat → β) (k : Nat) (v : β) : Nat → β := fun i => if i = k then v else f i

structure Ev where
  alive   : Bool := false
  inited  : Bool := false
  enabled : Bool := false
  oneshot : Bool := false
  sigs    : List Nat := []
  loop    : Nat := 0
  fired   : Nat := 0
deriving Repr, DecidableEq

/-- one callback of a signal event, as logged -/
structure Cb where
  ev : Nat
  sig : Nat
  loop : Nat            -- the loop whose pass made the call
  enabledInCb : Bool    -- `isEnabled()` as seen inside the callback
  oneshot : Bool
  firedBefore : Nat     -- ghost: callbacks since the last enablement, before this one
  evLoop : Nat          -- ghost: the loop the event belongs to
  subscribed : Bool     -- ghost: at entry of onSignal the event was enabled and `sig` was in its set
deriving Repr, DecidableEq

structure State where
  os      : Nat → Disp := fun _ => zeroDisp
  ctxs    : Nat → Option Ctx := fun _ => none
  subs    : Nat → Map (List Nat) := fun _ => []
  hasPipe : Nat → Bool := fun _ => false
  pipe    : Nat → List Nat := fun _ => []
  evs     : Nat → Ev := fun _ => {}
  nEv     : Nat := 0
  calls   : List (Nat × Nat) := []      -- (handler id, signo)
  cbs     : List Cb := []

def init : State := {}

def subsOf (s : State) (l g : Nat) : List Nat := ((s.subs l).find g).getD []
def ctxOf (s : State) (g : Nat) : Ctx := (s.ctxs g).getD {}
def fdsOf (s : State) (g : Nat) : List Nat := (ctxOf s g).fds

/-- `CommonLoop::subscribeSignal(signo = g, who = e)` on loop l (success path) -/
def subscribe (s : State) (l g e : Nat) : State :=
  -- if (signal_read_fd_ == -1) CreateFdPair …
  let hasPipe := upd s.hasPipe l true
  let pipe := if s.hasPipe l then s.pipe else upd s.pipe l []
  let cur := subsOf s l g            -- all_signals_subscribers_[signo]
  if cur.isEmpty then
    let c := ctxOf s g               -- _signal_ctxs_[signo]
    if c.fds.isEmpty then
      -- sigaction(signo, &new_handler, &this_signal_ctx.old_handler)
      { s with hasPipe := hasPipe, pipe := pipe,
               os := upd s.os g tboxDisp,
               ctxs := upd s.ctxs g (some { fds := ins l c.fds, old := s.os g }),
               subs := upd s.subs l ((s.subs l).set g (ins e cur)) }
    else
      { s with hasPipe := hasPipe, pipe := pipe,
               ctxs := upd s.ctxs g (some { c with fds := ins l c.fds }),
               subs := upd s.subs l ((s.subs l).set g (ins e cur)) }
  else
    { s with hasPipe := hasPipe, pipe := pipe,
             subs := upd s.subs l ((s.subs l).set g (ins e cur)) }

/-- `CommonLoop::unsubscribeSignal(signo = g, who = e)` on loop l -/
def unsubscribe (s : State) (l g e : Nat) : State :=
  let cur := del e (subsOf s l g)
  if !cur.isEmpty then
    { s with subs := upd s.subs l ((s.subs l).set g cur) }
  else
    let m := (s.subs l).erase g               -- all_signals_subscribers_.erase(signo)
    let c := ctxOf s g                        -- _signal_ctxs_[signo]
    let fds := del l c.fds                    -- write_fds.erase(signal_write_fd_)
    -- restore the old sigaction and erase the ctx when no loop is left
    let os := if fds.isEmpty then upd s.os g c.old else s.os
    let ctxs := if fds.isEmpty then upd s.ctxs g none else upd s.ctxs g (some { c with fds := fds })
    if !m.isEmpty then
      { s with subs := upd s.subs l m, os := os, ctxs := ctxs }
    else
      -- no subscriber of any signal left in this loop: close the pipe (unread content is lost)
      { s with subs := upd s.subs l m, os := os, ctxs := ctxs,
               hasPipe := upd s.hasPipe l false, pipe := upd s.pipe l [] }

def subscribeAll (s : State) (l e : Nat) : List Nat → State
  | [] => s
  | g :: gs => subscribeAll (subscribe s l g e) l e gs

def unsubscribeAll (s : State) (l e : Nat) : List Nat → State
  | [] => s
  | g :: gs => unsubscribeAll (unsubscribe s l g e) l e gs

def setEv (s : State) (e : Nat) (v : Ev) : State := { s with evs := upd s.evs e v }

/-- `SignalEventImpl::initialize(const std::set<int>&, Mode)`: no guard, no re-subscription -/
def initEv (s : State) (e : Nat) (sigs : List Nat) (oneshot : Bool) : State × Bool :=
  let v := s.evs e
  if !v.alive then (s, false) else
  (setEv s e { v with sigs := sigs, oneshot := oneshot, inited := true, fired := 0 }, true)

/-- `SignalEventImpl::enable` -/
def enable (s : State) (e : Nat) : State × Bool :=
  let v := s.evs e
  if !v.alive then (s, false) else
  let s1 := if v.inited then subscribeAll s v.loop e v.sigs else s
  (setEv s1 e { v with enabled := true, fired := if v.enabled then v.fired else 0 }, true)

/-- `SignalEventImpl::disable` -/
def disable (s : State) (e : Nat) : State × Bool :=
  let v := s.evs e
  if !v.alive then (s, false) else
  let s1 := if v.enabled then unsubscribeAll s v.loop e v.sigs else s
  (setEv s1 e { v with enabled := false }, true)

/-- `~SignalEventImpl` -/
def destroy (s : State) (e : Nat) : State × Bool :=
  let v := s.evs e
  if !v.alive then (s, false) else
  let s1 := (disable s e).1
  (setEv s1 e { s1.evs e with alive := false }, true)

/-- `loop->newSignalEvent()` on loop l -/
def newEv (s : State) (l : Nat) : State :=
  { setEv s s.nEv { alive := true, loop := l } with nEv := s.nEv + 1 }

/-- the user calls `sigaction(g, d, nullptr)`; not while tbox's handler is installed -/
def setDisp (s : State) (g : Nat) (d : Disp) : State × Bool :=
  if (s.os g).kind = .tbox then (s, false) else ({ s with os := upd s.os g d }, true)

/-- `for (int fd : write_fds) write(fd, &signo, sizeof signo)` — `write_fds` is a set: one write per loop -/
def appendPipes (pipe : Nat → List Nat) (g : Nat) (fds : List Nat) : Nat → List Nat :=
  fun l => if l ∈ fds then pipe l ++ [g] else pipe l

inductive RaiseOut where | killed | ignored | handled
deriving DecidableEq, Repr

/-- delivery of signal g to the process -/
def raise (s : State) (g : Nat) : State × RaiseOut :=
  match (s.os g).kind with
  | .dfl => (s, .killed)            -- default action of SIGUSRx / SIGRTMIN+k: terminate (the harness does not raise)
  | .ign => (s, .ignored)
  | .handler h => ({ s with calls := (h, g) :: s.calls }, .handled)
  | .tbox =>
    -- SignalHandlerFunc: `_signal_ctxs_[signo]`, old handler first, then one write per subscribed loop
    let c := ctxOf s g
    let calls := match c.old.kind with
      | .handler h => (h, g) :: s.calls
      | _ => s.calls
    ({ s with ctxs := upd s.ctxs g (some c), calls := calls, pipe := appendPipes s.pipe g c.fds }, .handled)

/-- `SignalEventImpl::onSignal(g)` for event e, called from loop l's dispatch -/
def evOnSignal (s : State) (l e g : Nat) : State :=
  let v := s.evs e
  let s1 := if v.oneshot then (disable s e).1 else s
  let v1 := s1.evs e
  let s2 := setEv s1 e { v1 with fired := v1.fired + 1 }
  { s2 with cbs := { ev := e, sig := g, loop := l, enabledInCb := v1.enabled, oneshot := v.oneshot,
                     firedBefore := v.fired, evLoop := v.loop,
                     subscribed := v.enabled && v.sigs.contains g } :: s2.cbs }

/-- `for (auto s : todo) s->onSignal(signo)` over the COPY `todo` of the subscriber set -/
def dispatch (s : State) (l g : Nat) : List Nat → State
  | [] => s
  | e :: es => dispatch (evOnSignal s l e g) l g es

/-- the body of `CommonLoop::onSignal` for the signal numbers read from the pipe -/
def passItems (s : State) (l : Nat) : List Nat → State
  | [] => s
  | g :: gs => passItems (dispatch s l g (subsOf s l g)) l gs

/-- one pass of loop l: the pipe (if any) is drained and every number dispatched -/
def pass (s : State) (l : Nat) : State :=
  passItems { s with pipe := upd s.pipe l [] } l (s.pipe l)

inductive Op where
  | newEv (l : Nat)
  | init (e : Nat) (sigs : List Nat) (oneshot : Bool)
  | enable (e : Nat)
  | disable (e : Nat)
  | destroy (e : Nat)
  | setDisp (g : Nat) (d : Disp)
  | raise (g : Nat)
  | pass (l : Nat)
deriving Repr, DecidableEq

/-- the histories the property quantifies over: `initialize` is given a set and is not called on an
enabled event; the user installs ordinary dispositions (never tbox's own handler) -/
def valid (s : State) : Op → Bool
  | .init e sigs _ => !(s.evs e).enabled && decide sigs.Nodup
  | .setDisp _ d => decide (d.kind ≠ .tbox)
  | _ => true

def step (s : State) : Op → State
  | .newEv l => newEv s l
  | .init e sigs o => (initEv s e sigs o).1
  | .enable e => (enable s e).1
  | .disable e => (disable s e).1
  | .destroy e => (destroy s e).1
  | .setDisp g d => (setDisp s g d).1
  | .raise g => (raise s g).1
  | .pass l => pass s l

def exec (s : State) : List Op → Option State
  | [] => some s
  | op :: ops => if valid s op then exec (step s op) ops else none

end Tbox.C04
