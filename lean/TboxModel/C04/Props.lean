/-
C04 — PROPERTY THEOREMS.  "Signal events reach every subscriber; the old disposition is restored."

Every theorem quantifies over EVERY history of the model of the repaired code (`exec repaired init ops = some s`):
any number of signals (including the two on which `sigaction` fails), loops and signal events, any callback scripts
(enable/disable/destroy of events of the same loop, not of the running event itself), any interleaving of
newSignalEvent / initialize (also of an enabled event) / enable / disable / destroy, user `sigaction` calls,
signal deliveries `raise g` (one at a time, not concurrent with a subscription change) and single loop passes
`pass l ord` with any oracle `ord` for the order in which the subscriber snapshot is walked.  No bound on any of these.
The three `_counterexample` theorems show what the code AS FOUND does on three concrete histories
(patches/C04-01…03 repair them).  Helper lemmas: Basics / Core / Inv / Deliver.
-/
import TboxModel.C04.Deliver
import TboxModel.C04.Conc
namespace Tbox.C04

/-- event e is enabled and subscribed to g -/
def Subscribed (s : State) (e g : Nat) : Prop := (s.evs e).enabled = true ∧ g ∈ (s.evs e).sigs

instance (s : State) (e g : Nat) : Decidable (Subscribed s e g) := by unfold Subscribed; infer_instance

/-- reachable states satisfy the invariant (re-exported for the audit) -/
theorem C04_reachable_inv (ops : List Op) (s : State) (he : exec repaired init ops = some s) : Inv s :=
  exec_inv init ops init_inv s he

/-- **bookkeeping never goes stale**: the process-wide ctx map, the per-loop subscriber maps, the pipes and the
event objects agree in every reachable state.  In particular an event that is not enabled (never enabled, disabled,
destroyed, re-initialised, or whose `enable()` failed half-way) is in no subscriber set. -/
theorem C04_ctx_matches (ops : List Op) (s : State) (he : exec repaired init ops = some s) :
    (∀ l g e, e ∈ subsOf s l g ↔ (Subscribed s e g ∧ (s.evs e).loop = l)) ∧
    (∀ g l, l ∈ fdsOf s g ↔ ∃ e, Subscribed s e g ∧ (s.evs e).loop = l) ∧
    (∀ l, s.hasPipe l = true ↔ ∃ e g, Subscribed s e g ∧ (s.evs e).loop = l) ∧
    (∀ e, (s.evs e).alive = false → (s.evs e).enabled = false) := by
  have h := C04_reachable_inv ops s he
  have hmem : ∀ l g e, e ∈ subsOf s l g ↔ (Subscribed s e g ∧ (s.evs e).loop = l) := by
    intro l g e; rw [h.mem]; unfold Subscribed; exact ⟨fun ⟨a, b, c⟩ => ⟨⟨a, b⟩, c⟩, fun ⟨⟨a, b⟩, c⟩ => ⟨a, b, c⟩⟩
  have hfds : ∀ g l, l ∈ fdsOf s g ↔ ∃ e, Subscribed s e g ∧ (s.evs e).loop = l := by
    intro g l
    rw [h.core.fdsIff, ne_nil_iff_exists_mem]
    exact ⟨fun ⟨e, hm⟩ => ⟨e, (hmem l g e).1 hm⟩, fun ⟨e, hm⟩ => ⟨e, (hmem l g e).2 hm⟩⟩
  refine ⟨hmem, hfds, ?_, h.dead⟩
  intro l
  rw [h.core.pipeIff, h.core.subs_ne_nil_iff]
  constructor
  · rintro ⟨g, hg⟩
    obtain ⟨e, hm⟩ := ne_nil_iff_exists_mem.1 hg
    exact ⟨e, g, (hmem l g e).1 hm⟩
  · rintro ⟨e, g, hm⟩
    exact ⟨g, ne_nil_iff_exists_mem.2 ⟨e, (hmem l g e).2 hm⟩⟩

/-- tbox's handler is installed for g exactly while some enabled event is subscribed to g (never for a signal on
which `sigaction` fails). -/
theorem C04_installed_while_subscribed (ops : List Op) (s : State) (he : exec repaired init ops = some s) (g : Nat) :
    ((s.os g).kind = .tbox ↔ ∃ e, Subscribed s e g) ∧ (sigValid g = false → ∀ e, ¬ Subscribed s e g) := by
  have h := C04_reachable_inv ops s he
  have hfds := (C04_ctx_matches ops s he).2.1 g
  have hiff : (s.os g).kind = .tbox ↔ ∃ e, Subscribed s e g := by
    rw [h.core.osTbox, ne_nil_iff_exists_mem]
    constructor
    · rintro ⟨l, hl⟩; obtain ⟨e, he', _⟩ := (hfds l).1 hl; exact ⟨e, he'⟩
    · rintro ⟨e, he'⟩; exact ⟨_, (hfds _).2 ⟨e, he', rfl⟩⟩
  refine ⟨hiff, fun hv e hs => ?_⟩
  have := (hfds _).2 ⟨e, hs, rfl⟩
  rw [h.core.invalid g hv] at this; cases this

/-- **old disposition restored**: take any reachable state s0 in which nobody is subscribed to g, continue with
any history (subscriptions by several events on several loops, re-initialisations, failing enables, deliveries,
passes with callbacks that change subscriptions, sigaction on OTHER signals) to any state s1 in which again nobody
is subscribed to g: the kernel disposition of g — handler, SA_SIGINFO, every flag bit (SA_RESTART, SA_NODEFER, SA_RESETHAND,
SA_ONSTACK, SA_NOCLDSTOP, SA_NOCLDWAIT), the whole 64-bit mask — is exactly what it was in s0.  Round 5: the only other thing
that changes an application's disposition is the KERNEL's answer to SA_RESETHAND on a delivery that goes directly to the
application's handler (`kresets`: none happened; `C04_chained_delivery_never_resets`: a delivery while somebody is subscribed
never is one, however many there are). -/
theorem C04_disposition_restored (pre mid : List Op) (s0 s1 : State) (g : Nat)
    (h0 : exec repaired init pre = some s0) (h1 : exec repaired s0 mid = some s1)
    (hno0 : ∀ e, ¬ Subscribed s0 e g) (hno1 : ∀ e, ¬ Subscribed s1 e g)
    (huser : ∀ d, Op.setDisp g d ∉ mid) (hk : kresets s0 g mid = 0) : s1.os g = s0.os g := by
  have hi0 := C04_reachable_inv pre s0 h0
  have hi1 := exec_inv s0 mid hi0 s1 h1
  rw [← baseDisp_eq_os_of_no_subscriber s0 g hi0 hno0, ← baseDisp_eq_os_of_no_subscriber s1 g hi1 hno1]
  exact baseDisp_exec s0 mid g hi0 huser hk s1 h1

/-- **SA_RESETHAND on the saved disposition**: while tbox's handler is installed for g (⇔ somebody is subscribed,
`C04_installed_while_subscribed`) no delivery of any signal is a kernel reset of g's handler, the saved disposition stays
what it was and the saved handler is invoked by EVERY delivery (`C04_chain_old_handler`) — the statement's "a handler that
was installed before the first subscription is still invoked"; the kernel alone would have run it once and then reset it. -/
theorem C04_chained_delivery_never_resets (ops : List Op) (s : State) (_he : exec repaired init ops = some s) (g g' : Nat)
    (wf : List Nat) (hk : (s.os g).kind = .tbox) :
    directReset s g (.raiseW g' wf) = false ∧ directReset s g (.raise g') = false ∧
    baseDisp (raiseW s g' wf).1 g = baseDisp s g := by
  have h1 : directReset s g (.raiseW g' wf) = false := by simp [directReset, hk]
  have h2 : directReset s g (.raise g') = false := by simp [directReset, hk]
  exact ⟨h1, h2, baseDisp_raiseW s g' g wf h1⟩

/-- what the kernel does on its own (nobody subscribed): a delivery to a handler installed with SA_RESETHAND runs it and
resets the HANDLER to SIG_DFL, keeping flags and mask (Linux); without the flag nothing changes -/
theorem C04_direct_delivery_resethand (s : State) (g h : Nat) (wf : List Nat) (hk : (s.os g).kind = .handler h) :
    (raiseW s g wf).1.os g = (if (s.os g).resetHand then { s.os g with kind := .dfl } else s.os g) ∧
    (raiseW s g wf).1.calls = (h, g) :: s.calls := by
  unfold raiseW
  simp only [hk, upd_apply, ↓reduceIte, kReset, and_true]

/-- chaining differs from the kernel's own SA_RESETHAND (as the statement demands): handler 1 with SA_RESETHAND on signal 1.
Directly: the first delivery runs it, the second meets SIG_DFL.  With a subscriber: three deliveries run it three times,
and after the last unsubscription the disposition is the original one, SA_RESETHAND included -/
theorem C04_resethand_chain_counterexample :
    let d : Disp := { kind := .handler 1, flags := 4 }
    let direct : List Op := [.setDisp 1 d, .raise 1]
    let chained : List Op := [.setDisp 1 d, .newEv 0 [], .init 0 [1] false, .enable 0, .raise 1, .raise 1, .raise 1, .disable 0]
    ((direct.foldl (step repaired) init).os 1 = { d with kind := .dfl } ∧ (direct.foldl (step repaired) init).calls = [(1, 1)] ∧
     (raise (direct.foldl (step repaired) init) 1).2 = .killed) ∧
    ((chained.foldl (step repaired) init).os 1 = d ∧ (chained.foldl (step repaired) init).calls = [(1, 1), (1, 1), (1, 1)] ∧
     (exec repaired init chained).isSome = true ∧ kresets init 1 chained = 0 ∧ kresets init 1 direct = 1) := by
  refine ⟨⟨?_, ?_, ?_⟩, ?_, ?_, ?_, ?_, ?_⟩ <;> decide

/-- **what the chained handler sees** (outside the statement, recorded): installed directly the kernel blocks g unless
SA_NODEFER, blocks the saved `sa_mask` and switches to the alternate stack if SA_ONSTACK; chained under tbox's handler
(SA_SIGINFO only, empty mask) g is always blocked, the mask is not applied and the handler runs on the interrupted stack -/
theorem C04_chain_env_counterexample :
    let d : Disp := { kind := .handler 1, flags := 2 + 8, mask := 2 ^ 11 + 2 ^ 33 }
    let pre : List Op := [.setDisp 1 d]
    let sub : List Op := pre ++ [.newEv 0 [], .init 0 [1] false, .enable 0]
    handlerEnv (pre.foldl (step repaired) init) 1 = (false, 2 ^ 11 + 2 ^ 33, true) ∧
    handlerEnv (sub.foldl (step repaired) init) 1 = (true, 0, false) ∧
    baseDisp (sub.foldl (step repaired) init) 1 = d := by
  refine ⟨?_, ?_, ?_⟩ <;> decide

/-- **the mask as the kernel keeps it** (`sigaction` on 64-bit `sa_mask`): every bit but SIGKILL's (8) and SIGSTOP's (18) is
kept, those two are cleared, nothing beyond bit 63 exists — the saved copy restored by the last unsubscription is this one -/
theorem C04_mask_kernel (m : Nat) :
    (∀ i, i < 64 → i ≠ 8 → i ≠ 18 → (normMask m).testBit i = m.testBit i) ∧
    (normMask m).testBit 8 = false ∧ (normMask m).testBit 18 = false ∧ normMask m < 2 ^ 64 ∧
    normMask (normMask m) = normMask m := by
  have hbits : ∀ i, i < 64 → i ≠ 8 → i ≠ 18 → maskable.testBit i = true := by decide
  refine ⟨fun i hi h8 h18 => ?_, ?_, ?_, ?_, ?_⟩
  · unfold normMask; rw [Nat.testBit_and, hbits i hi h8 h18, Bool.and_true]
  · unfold normMask; rw [Nat.testBit_and]; have : maskable.testBit 8 = false := by decide
    rw [this, Bool.and_false]
  · unfold normMask; rw [Nat.testBit_and]; have : maskable.testBit 18 = false := by decide
    rw [this, Bool.and_false]
  · unfold normMask; exact Nat.lt_of_le_of_lt Nat.and_le_right (by decide)
  · unfold normMask; rw [Nat.and_assoc, Nat.and_self]

/-- **the pre-existing handler is still invoked, exactly once per delivery**: whatever the subscription state and
whatever the kernel answers to the handler's pipe writes (`wf`: full pipe, EINTR, EIO …), a
delivery of g invokes the handler that is the process's own disposition of g (`baseDisp`: the one saved at the
first subscription while tbox is installed, the current one otherwise) exactly once, and nothing else. -/
theorem C04_chain_old_handler (ops : List Op) (s : State) (he : exec repaired init ops = some s) (g : Nat)
    (wf : List Nat) :
    (raiseW s g wf).1.calls = (match (baseDisp s g).kind with
                               | .handler h => (h, g) :: s.calls
                               | _ => s.calls) := by
  have h := C04_reachable_inv ops s he
  unfold raiseW baseDisp
  by_cases hf : fdsOf s g = []
  · have hk : (s.os g).kind ≠ .tbox := fun hk => (h.core.osTbox g).1 hk hf
    simp only [hf, ↓reduceIte]
    cases hkind : (s.os g).kind with
    | tbox => exact absurd hkind hk
    | dfl => simp
    | ign => simp
    | handler h' => simp
  · have hk : (s.os g).kind = .tbox := (h.core.osTbox g).2 hf
    simp only [hk, hf, ↓reduceIte]
    cases (ctxOf s g).old.kind <;> rfl

/-- every callback ever made is legitimate: made by the pass of the event's own loop, on an object that existed and
was enabled and subscribed to that signal at that moment; a one-shot event is already disabled inside its callback
and the callback is the first since its enablement; a persistent event is still enabled inside its callback. -/
theorem C04_callbacks_legit (ops : List Op) (s : State) (he : exec repaired init ops = some s) : ∀ c ∈ s.cbs, CbOk c :=
  (C04_reachable_inv ops s he).cbsOk

/-- **no callback on a disabled or destroyed event**: also when an earlier callback of the same delivery (same
snapshot of the subscriber set) disabled or destroyed it — for every callback script and every walking order. -/
theorem C04_no_callback_on_disabled_or_destroyed (ops : List Op) (s : State) (he : exec repaired init ops = some s) :
    ∀ c ∈ s.cbs, c.alive = true ∧ c.subscribed = true :=
  fun c hc => ⟨((C04_reachable_inv ops s he).cbsOk c hc).alive, ((C04_reachable_inv ops s he).cbsOk c hc).subscribed⟩

/-- **one-shot fires at most once** (per enablement): a callback of a one-shot event is the first one since the
event was (re-)enabled, and it leaves the event disabled — hence unsubscribed from all its signals
(`C04_ctx_matches`), so no later delivery reaches it until it is enabled again; and an enabled one-shot event
has not fired since its enablement. -/
theorem C04_oneshot_at_most_once (ops : List Op) (s : State) (he : exec repaired init ops = some s) :
    (∀ c ∈ s.cbs, c.oneshot = true → c.firedBefore = 0 ∧ c.enabledInCb = false) ∧
    (∀ e, (s.evs e).oneshot = true → (s.evs e).enabled = true → (s.evs e).fired = 0) := by
  have h := C04_reachable_inv ops s he
  exact ⟨fun c hc ho => ⟨((h.cbsOk c hc).oneshot ho).2, ((h.cbsOk c hc).oneshot ho).1⟩, h.once⟩

/-- the read loop of a pass ends because the pipe is closed or empty, never because the model's fuel ran out -/
theorem C04_pass_drains (ops : List Op) (s : State) (he : exec repaired init ops = some s) (l : Nat) (ord : List Nat) :
    (pass repaired s l ord).hasPipe l = false ∨ (pass repaired s l ord).pipe l = [] :=
  passLoop_drains l ord _ s (C04_reachable_inv ops s he) (Nat.lt_succ_self _)

/-- the pipes after one delivery in a quiescent state: one number in the pipe of every subscribed loop whose write
the kernel accepted -/
theorem raiseW_pipe_quiescent (s : State) (h : Inv s) (hq : ∀ l, s.pipe l = []) (g : Nat) (wf : List Nat) (l : Nat) :
    (raiseW s g wf).1.pipe l = if (s.os g).kind = .tbox ∧ l ∈ fdsOf s g ∧ l ∉ wf then [g] else [] := by
  have hcap : 0 < capOf s := by unfold capOf; split <;> omega
  unfold raiseW
  split <;> rename_i hk
  · simp [hk, hq]
  · simp [hk, hq]
  · simp [hk, hq]
  · show appendPipes s.pipe g ((ctxOf s g).fds.filter (wrOk s wf)) l = _
    simp only [appendPipes, hq, List.nil_append, hk, true_and, List.mem_filter, wrOk, hd, List.length_nil, hcap,
      ↓reduceIte, Nat.add_zero, decide_true, Bool.and_true, Bool.not_eq_eq_eq_not, Bool.not_true, List.contains_eq_mem,
      decide_eq_false_iff_not]
    rfl

/-- **every subscriber exactly once, on its own loop**: in any reachable quiescent state (no delivery pending in any
pipe) deliver g once — the kernel answering the handler's write to the pipes of the loops in `wf` with an error — and
then run the loops `ls` one pass each, in any order, any loop any number of times, each pass with any walking order.
If the callbacks of the subscribers of g do not themselves change subscriptions (the property's histories:
subscription changes happen between deliveries), the number of callbacks (e, g') grows by exactly one iff g' = g, e was
enabled and subscribed to g at the delivery, e's loop is among those that ran and the write to its pipe succeeded — and
by zero otherwise (no callback for another signal, for a disabled or unsubscribed event, no second callback).
With `wf = []` (`raise`) this is the property's clause; a failed write loses the delivery for that loop only.
(`C04_callbacks_legit`: that callback is made by e's own loop; with scripts that do change subscriptions
`C04_no_callback_on_disabled_or_destroyed` says who is NOT called.) -/
theorem C04_every_subscriber_once (ops : List Op) (s : State) (he : exec repaired init ops = some s)
    (hq : ∀ l, s.pipe l = []) (g : Nat) (wf : List Nat) (ls : List (Nat × List Nat)) (hord : ∀ p ∈ ls, p.2.Nodup)
    (hns : ∀ e, Subscribed s e g → (s.evs e).script = []) (e g' : Nat) :
    cbCount (passes (raiseW s g wf).1 ls) e g' =
      cbCount s e g' + (if g' = g ∧ Subscribed s e g ∧ (s.evs e).loop ∈ ls.map (·.1) ∧ (s.evs e).loop ∉ wf
                        then 1 else 0) := by
  have h := C04_reachable_inv ops s he
  have h1 := raiseW_inv s g wf h
  -- the state after the delivery: same events, same log, pipes hold at most one g
  have hev : (raiseW s g wf).1.evs = s.evs := by unfold raiseW; split <;> rfl
  have hcb : (raiseW s g wf).1.cbs = s.cbs := by unfold raiseW; split <;> rfl
  have hpipe := raiseW_pipe_quiescent s h hq g wf
  have hq' : ∀ l, (raiseW s g wf).1.pipe l = [] ∨ (raiseW s g wf).1.pipe l = [g] := by
    intro l; rw [hpipe]; split
    · right; rfl
    · left; rfl
  have hns' : ∀ e, ((raiseW s g wf).1.evs e).enabled = true → g ∈ ((raiseW s g wf).1.evs e).sigs →
      ((raiseW s g wf).1.evs e).script = [] := by
    rw [hev]; exact fun e h1 h2 => hns e ⟨h1, h2⟩
  rw [cbCount_passes g ls _ h1 hq' hord hns' e g']
  have hc0 : cbCount (raiseW s g wf).1 e g' = cbCount s e g' := by unfold cbCount; rw [hcb]
  rw [hc0, hev]
  congr 1
  have hiff : (g' = g ∧ ((s.evs e).enabled = true ∧ g ∈ (s.evs e).sigs) ∧ (raiseW s g wf).1.pipe (s.evs e).loop = [g] ∧
      (s.evs e).loop ∈ ls.map (·.1)) ↔
      (g' = g ∧ Subscribed s e g ∧ (s.evs e).loop ∈ ls.map (·.1) ∧ (s.evs e).loop ∉ wf) := ?_
  · by_cases hc : g' = g ∧ Subscribed s e g ∧ (s.evs e).loop ∈ ls.map (·.1) ∧ (s.evs e).loop ∉ wf
    · rw [if_pos hc, if_pos (hiff.2 hc)]
    · rw [if_neg hc, if_neg (fun hh => hc (hiff.1 hh))]
  constructor
  · rintro ⟨h1, h2, h3, h4⟩
    refine ⟨h1, h2, h4, ?_⟩
    rw [hpipe] at h3
    by_cases hw : (s.evs e).loop ∈ wf
    · simp [hw] at h3
    · exact hw
  · rintro ⟨h1, hs, h4, hw⟩
    -- a subscriber: tbox's handler is installed and e's loop is registered
    have hm : e ∈ subsOf s (s.evs e).loop g := (h.mem _ g e).2 ⟨hs.1, hs.2, rfl⟩
    have hne : subsOf s (s.evs e).loop g ≠ [] := ne_nil_iff_exists_mem.2 ⟨e, hm⟩
    have hfd : (s.evs e).loop ∈ fdsOf s g := (h.core.fdsIff g _).2 hne
    have hk : (s.os g).kind = .tbox := (h.core.osTbox g).2 (ne_nil_iff_exists_mem.2 ⟨_, hfd⟩)
    refine ⟨h1, hs, ?_, h4⟩
    rw [hpipe]; simp [hk, hfd, hw]

/-! ### round 4: bursts and the capacity of the signal pipe, kernel answers to `write()` / `read()` -/

/-- **a burst of n deliveries without a loop pass** (each delivery raised on its own; nothing pending in the kernel):
from any reachable quiescent state, after n deliveries of g the pipe of every loop with a subscriber of g holds
`min n capacity` copies of g and every other pipe is empty.  (`C04_chain_old_handler` applies to each of the n deliveries:
the old handler is invoked n times, whatever fits.) -/
theorem C04_burst_pipe (ops : List Op) (s : State) (_he : exec repaired init ops = some s) (g n l : Nat)
    (hq : s.pipe l = []) :
    exec repaired s (List.replicate n (Op.raise g)) = some (raises s g n) ∧
    (raises s g n).pipe l =
      List.replicate (if (s.os g).kind = .tbox ∧ l ∈ fdsOf s g then min n (capOf s) else 0) g := by
  refine ⟨exec_raises g n s, ?_⟩
  have := raises_pipe g n s 0 l (by simp [hd, hq]) (by rw [hq]; split <;> simp)
  simpa using this

-- OPEN (full statement, false): after ANY burst every delivery is pending for every subscribed loop:
--   theorem C04_burst_no_loss … : (raises s g n).pipe l = List.replicate n g
/-- **no delivery is lost while the burst fits the pipe** (decidable hypothesis `n ≤ capOf s`: 16384 pending numbers with
the default 64 KiB pipe, 1024 with a one-page pipe) -/
theorem C04_burst_no_loss_partial (ops : List Op) (s : State) (he : exec repaired init ops = some s)
    (g n l : Nat) (hq : s.pipe l = []) (hn : n ≤ capOf s) (e : Nat) (hs : Subscribed s e g) (hl : (s.evs e).loop = l) :
    (raises s g n).pipe l = List.replicate n g := by
  have h := C04_reachable_inv ops s he
  have hfd : l ∈ fdsOf s g := ((C04_ctx_matches ops s he).2.1 g l).2 ⟨e, hs, hl⟩
  have hk : (s.os g).kind = .tbox := (h.core.osTbox g).2 (ne_nil_iff_exists_mem.2 ⟨_, hfd⟩)
  rw [(C04_burst_pipe ops s he g n l hq).2]
  simp only [hk, hfd, and_self, ↓reduceIte]
  congr 1; omega

/-- a persistent event on loop 0 subscribed to signal 1, nothing pending -/
def burstOps : List Op := [.newEv 0 [], .init 0 [1] false, .enable 0]

/-- **beyond the capacity deliveries are lost**: one delivery more than the pipe holds, made one at a time with the
loop not running in between, and the subscribed loop has only `capacity` numbers pending: the handler's `write()` got
EAGAIN and `SignalHandlerFunc` ignores the result (both default and one-page pipes). -/
theorem C04_burst_overflow_counterexample :
    ∃ s, exec repaired init burstOps = some s ∧ s.pipe 0 = [] ∧ Subscribed s 0 1 ∧
      (raises s 1 (capOf s + 1)).pipe 0 = List.replicate (capOf s) 1 ∧
      (raises s 1 (capOf s + 1)).pipe 0 ≠ List.replicate (capOf s + 1) 1 := by
  have he : exec repaired init burstOps = some (burstOps.foldl (step repaired) init) := exec_foldl _ _ _ (by decide)
  refine ⟨burstOps.foldl (step repaired) init, he, by decide, by decide, ?_⟩
  have hb := (C04_burst_pipe burstOps _ he 1 (capOf (burstOps.foldl (step repaired) init) + 1) 0 (by decide)).2
  have hc : ((burstOps.foldl (step repaired) init).os 1).kind = .tbox ∧ 0 ∈ fdsOf (burstOps.foldl (step repaired) init) 1 := by
    decide
  rw [if_pos hc] at hb
  have hmin : min (capOf (burstOps.foldl (step repaired) init) + 1) (capOf (burstOps.foldl (step repaired) init)) =
      capOf (burstOps.foldl (step repaired) init) := by omega
  rw [hmin] at hb
  refine ⟨hb, ?_⟩
  rw [hb]
  intro hh
  have := congrArg List.length hh
  simp at this

/-- **`read()` answers**: whatever the kernel answers to the reads of `onSignal` (short reads, errors) every clause
proved over `exec` holds (they are ordinary ops); when no read fails the loop still ends with the pipe closed or
empty … -/
theorem C04_passC_drains_partial (ops : List Op) (s : State) (he : exec repaired init ops = some s) (l : Nat)
    (ord : List Nat) (cs : List (Option Nat)) (hcs : ∀ c ∈ cs, c ≠ none) :
    (passC repaired s l ord cs).hasPipe l = false ∨ (passC repaired s l ord cs).pipe l = [] :=
  passLoopC_drains l ord _ cs s (C04_reachable_inv ops s he) hcs (Nat.lt_succ_self _)

/-- … and `passC` without injected answers is `pass` -/
theorem C04_passC_nil (s : State) (l : Nat) (ord : List Nat) : passC repaired s l ord [] = pass repaired s l ord :=
  passLoopC_nil repaired l ord _ s

/-- a failing `read()` (EINTR, EIO …; `none`) ends the pass with the numbers still pending — the next pass delivers
them (the read end stays readable): nothing is lost, the callback is late -/
theorem C04_read_error_counterexample :
    let s := (burstOps ++ [Op.raise 1, Op.raise 1]).foldl (step repaired) init
    (passC repaired s 0 [] [none]).pipe 0 = [1, 1] ∧ cbCount (passC repaired s 0 [] [none]) 0 1 = 0 ∧
    cbCount (pass repaired (passC repaired s 0 [] [none]) 0 []) 0 1 = 2 ∧
    cbCount (passC repaired s 0 [] [some 1, none]) 0 1 = 1 := by decide

/-- the count computed by `onSignal` from `read()`'s result: for the results the loop body accepts (0 < rsize ≤ 40 bytes)
the conversion of `ssize_t` to `size_t` at `rsize / sizeof(int)` (tools/narrowing/C04.txt, the only line) is exact and
the count is at most the 10 elements of `signo_array` -/
theorem C04_read_count_width (rsize : Int) (h0 : 0 < rsize) (h1 : rsize ≤ 40) :
    (BitVec.ofInt 64 rsize).toNat = rsize.toNat ∧ (BitVec.ofInt 64 rsize).toNat / 4 ≤ 10 := by
  have : (BitVec.ofInt 64 rsize).toNat = rsize.toNat := by
    rw [BitVec.toNat_ofInt]; omega
  exact ⟨this, by rw [this]; omega⟩

/-- **signal numbers outside the valid range** (ids 7… = 65, INT_MAX, 0, negative, glibc's reserved 32; also SIGKILL /
SIGSTOP): `enable()` of an event whose set contains one fails and leaves no subscription and no disposition changed,
for every reachable state (second half of `C04_installed_while_subscribed`); here: the concrete history of the tie -/
theorem C04_invalid_signal_total :
    let ops : List Op := [.setDisp 1 { kind := .handler 2 }, .newEv 0 [], .init 0 [10, 1, 7] false, .enable 0]
    (exec repaired init ops).isSome = true ∧
    (∀ g < 12, ¬ Subscribed (ops.foldl (step repaired) init) 0 g) ∧
    ((ops.foldl (step repaired) init).os 1) = { kind := .handler 2 } ∧
    (∀ l < 3, (ops.foldl (step repaired) init).hasPipe l = false) := by decide

/-- **a callback on loop 0 acts on events of loop 1** (disable, re-initialise + enable, destroy): the invariant theorems
above cover such scripts (no restriction on the loop in `act`); here a concrete run: event 1 (loop 1) is disabled by
the callback of event 0 (loop 0) before loop 1 runs, so its pending delivery is dropped with its pipe -/
theorem C04_cross_loop_script_example :
    let ops : List Op := [.newEv 0 [.disable 1], .newEv 1 [], .init 0 [1] false, .init 1 [1] false, .enable 0, .enable 1,
                          .raise 1, .pass 0 [], .pass 1 []]
    (exec repaired init ops).isSome = true ∧
    ((ops.foldl (step repaired) init).cbs.map (fun c => (c.ev, c.loop))) = [(0, 0)] ∧
    fdsOf (ops.foldl (step repaired) init) 1 = [0] ∧ (ops.foldl (step repaired) init).hasPipe 1 = false := by decide

/-! ### round 5: the consumed part of the pipe's first page; state-derived histories -/

/-- **the handler's write, exactly**: loop l's pipe takes the number iff tbox's handler is installed for g, l is registered,
the kernel does not answer with an injected error and `hd + pending < capacity` — `hd` numbers of the first page are
already read and their room is not available again until the whole page is (a pipe is a ring of pages) -/
theorem C04_head_page_capacity (s : State) (g : Nat) (wf : List Nat) (l : Nat) :
    (raiseW s g wf).1.pipe l =
      if (s.os g).kind = .tbox ∧ l ∈ fdsOf s g ∧ l ∉ wf ∧ hd s l + (s.pipe l).length < capOf s then s.pipe l ++ [g]
      else s.pipe l := by
  unfold raiseW
  split <;> rename_i hk
  · simp [hk]
  · simp [hk]
  · simp [hk]
  · show appendPipes s.pipe g ((ctxOf s g).fds.filter (wrOk s wf)) l = _
    simp only [appendPipes, List.mem_filter, wrOk, List.contains_eq_mem, Bool.and_eq_true, Bool.not_eq_eq_eq_not, Bool.not_true,
      decide_eq_false_iff_not, decide_eq_true_eq, hk, true_and]
    rfl

/-- a one-page pipe filled by 1024 deliveries, one `read()` of 10 numbers, then EINTR -/
def headOps : List Op :=
  [.setCap true, .newEv 0 [], .init 0 [1] false, .enable 0] ++ List.replicate 1024 (.raise 1) ++ [.passC 0 [] [some 10, none]]

-- OPEN (full statement, false): a delivery is pending for every subscribed loop whenever fewer than `capOf` are pending
set_option maxRecDepth 100000 in
/-- **fewer than the capacity pending, and still dropped**: 1014 of 1024 numbers pending, 10 consumed from the only page: the
next delivery is lost for this loop (replayed: corpus/C04/head_page.ops) -/
theorem C04_consumed_head_counterexample :
    (exec repaired init headOps).isSome = true ∧
    ((headOps.foldl (step repaired) init).pipe 0).length = 1014 ∧ hd (headOps.foldl (step repaired) init) 0 = 10 ∧
    ((raise (headOps.foldl (step repaired) init) 1).1.pipe 0).length = 1014 := by decide +kernel

/-- **two events of one loop on one signal, one leaves** (count bookkeeping): the other one is still subscribed, still in
its loop's subscriber set, the loop is still registered and tbox's handler still installed — so `C04_every_subscriber_once`
(which holds in every reachable state) still gives it exactly one callback per delivery.  Same for a destroyed sibling. -/
theorem C04_sibling_keeps_subscription (ops : List Op) (s : State) (he : exec repaired init ops = some s) (e1 e2 g : Nat)
    (hne : e2 ≠ e1) (hs : Subscribed s e2 g) :
    (Subscribed (disable s e1).1 e2 g ∧ e2 ∈ subsOf (disable s e1).1 ((s.evs e2).loop) g ∧
      (s.evs e2).loop ∈ fdsOf (disable s e1).1 g ∧ ((disable s e1).1.os g).kind = .tbox) ∧
    (Subscribed (destroy s e1).1 e2 g ∧ e2 ∈ subsOf (destroy s e1).1 ((s.evs e2).loop) g ∧
      (s.evs e2).loop ∈ fdsOf (destroy s e1).1 g ∧ ((destroy s e1).1.os g).kind = .tbox) := by
  have h := C04_reachable_inv ops s he
  have key : ∀ s', Inv s' → s'.evs e2 = s.evs e2 →
      Subscribed s' e2 g ∧ e2 ∈ subsOf s' ((s.evs e2).loop) g ∧ (s.evs e2).loop ∈ fdsOf s' g ∧ (s'.os g).kind = .tbox := by
    intro s' hi hev
    have hs' : Subscribed s' e2 g := by unfold Subscribed; rw [hev]; exact hs
    have hm : e2 ∈ subsOf s' ((s.evs e2).loop) g := (hi.mem _ g e2).2 ⟨hs'.1, hs'.2, by rw [hev]⟩
    have hfd := (hi.core.fdsIff g _).2 (ne_nil_iff_exists_mem.2 ⟨e2, hm⟩)
    exact ⟨hs', hm, hfd, (hi.core.osTbox g).2 (ne_nil_iff_exists_mem.2 ⟨_, hfd⟩)⟩
  refine ⟨key _ (disable_inv s e1 h) (disable_evs_other s e1 e2 hne), key _ (destroy_inv s e1 h) ?_⟩
  unfold destroy
  by_cases ha : (s.evs e1).alive = true
  · simp only [ha, Bool.not_true, Bool.false_eq_true, ↓reduceIte, setEv, upd_apply, hne]
    exact disable_evs_other s e1 e2 hne
  · simp only [ha, Bool.not_false, ↓reduceIte]

/-- **histories on one object that revisit its cached state** (each replayed by the generator's state-derived family):
(1) `enable()` twice, `disable()` once: nothing stays subscribed (a second enable does not need a second disable);
(2) `initialize()` with the SAME set and mode on an enabled event disables it (no "unchanged, skip");
(3) a one-shot event whose own callback does enable → disable → enable is subscribed again afterwards and fires on the next
delivery too; (4) two events of one loop on one signal, one disabled: the other one gets the next delivery -/
theorem C04_state_derived_histories :
    let pre : List Op := [.setDisp 1 { kind := .handler 2, flags := 4 + 1, mask := 2 ^ 63 + 5 }, .newEv 0 [], .init 0 [1] false, .enable 0]
    let twice := pre ++ [.enable 0, .disable 0]
    let same := pre ++ [.init 0 [1] false]
    let reent : List Op := [.newEv 0 [.enable 0, .disable 0, .enable 0], .init 0 [1] true, .enable 0, .raise 1, .pass 0 [],
                            .raise 1, .pass 0 []]
    let sib := pre ++ [.newEv 0 [], .init 1 [1] false, .enable 1, .disable 0, .raise 1, .pass 0 []]
    ((twice.foldl (step repaired) init).os 1 = { kind := .handler 2, flags := 5, mask := 2 ^ 63 + 5 } ∧
      fdsOf (twice.foldl (step repaired) init) 1 = [] ∧ (twice.foldl (step repaired) init).hasPipe 0 = false) ∧
    (((same.foldl (step repaired) init).evs 0).enabled = false ∧ ((same.foldl (step repaired) init).os 1).kind = .handler 2) ∧
    (((reent.foldl (step repaired) init).evs 0).enabled = true ∧ cbCount (reent.foldl (step repaired) init) 0 1 = 2 ∧
      (exec repaired init reent).isSome = true) ∧
    (cbCount (sib.foldl (step repaired) init) 1 1 = 1 ∧ cbCount (sib.foldl (step repaired) init) 0 1 = 0 ∧
      (sib.foldl (step repaired) init).calls = [(2, 1)]) := by
  refine ⟨⟨?_, ?_, ?_⟩, ⟨?_, ?_⟩, ⟨?_, ?_, ?_⟩, ?_, ?_, ?_⟩ <;> decide

/-! ### round 6: `pipe2` answered with an error; a thread blocked in a system call -/

/-- **`pipe2` fails (EMFILE / ENFILE)**, any state, repaired or as found: when `enable()` reaches `pipe2` (`needsPipe`) and the kernel
answers with an error, `enable()` returns false and NOTHING changes — no subscriber entry, no ctx entry, no disposition, no pipe, the event
stays as it was; when it does not reach `pipe2` the answer is irrelevant -/
theorem C04_pipe2_failure (fx : Fixes) (s : State) (e : Nat) :
    (needsPipe s e = true → enableP fx s e = (s, false)) ∧ (needsPipe s e = false → enableP fx s e = enable fx s e) := by
  unfold enableP
  constructor <;> intro h <;> simp [h]

/-- **where `pipe2` is reached** (reachable states; histories now contain `enable()` calls with a failing `pipe2` at any point, also inside
callbacks): exactly at an `enable()` of an alive, initialised event with a non-empty set whose loop has no subscription at all; that event
is not enabled, so after the failure nothing is subscribed for it, every disposition and every saved disposition is untouched, `isEnabled()`
stays false, and a later `enable()` behaves as if the failed one had never been made -/
theorem C04_pipe2_failure_reachable (ops : List Op) (s : State) (he : exec repaired init ops = some s) (e : Nat)
    (hp : needsPipe s e = true) :
    (enableP repaired s e).2 = false ∧ (enableP repaired s e).1 = s ∧
    (s.evs e).enabled = false ∧ (∀ g, subsOf s (s.evs e).loop g = []) ∧ (∀ g, (s.evs e).loop ∉ fdsOf s g) ∧
    (∀ g, ¬ Subscribed (enableP repaired s e).1 e g) ∧
    enable repaired (enableP repaired s e).1 e = enable repaired s e := by
  have h := C04_reachable_inv ops s he
  have hm := (C04_ctx_matches ops s he).1
  have hf := (C04_ctx_matches ops s he).2.1
  have hpipe := (C04_ctx_matches ops s he).2.2.1
  have heq := (C04_pipe2_failure repaired s e).1 hp
  have hnp : s.hasPipe (s.evs e).loop = false := by
    unfold needsPipe at hp; simp only [Bool.and_eq_true, Bool.not_eq_true'] at hp; exact hp.2
  have hnone : ∀ e' g, ¬ (Subscribed s e' g ∧ (s.evs e').loop = (s.evs e).loop) := by
    intro e' g hs
    have := (hpipe (s.evs e).loop).2 ⟨e', g, hs⟩
    rw [hnp] at this; cases this
  have hsub : ∀ g, subsOf s (s.evs e).loop g = [] := by
    intro g
    cases hc : subsOf s (s.evs e).loop g with
    | nil => rfl
    | cons x xs =>
      exact absurd ((hm (s.evs e).loop g x).1 (by rw [hc]; exact List.mem_cons_self)) (hnone x g)
  have hen : (s.evs e).enabled = false := by
    cases hc : (s.evs e).enabled with
    | false => rfl
    | true =>
      have hs : (s.evs e).sigs ≠ [] := by
        unfold needsPipe at hp; simp only [Bool.and_eq_true, Bool.not_eq_true'] at hp
        intro hnil; rw [hnil] at hp; simp at hp
      obtain ⟨g, hg⟩ := List.exists_mem_of_ne_nil _ hs
      exact absurd ⟨⟨hc, hg⟩, rfl⟩ (hnone e g)
  refine ⟨by rw [heq], by rw [heq], hen, hsub, ?_, ?_, by rw [heq]⟩
  · intro g hmem
    obtain ⟨e', hs⟩ := (hf g _).1 hmem
    exact hnone e' g hs
  · intro g hs
    rw [heq] at hs
    rw [hs.1] at hen; cases hen

/-- non-vacuity and the oracle at work: loop 1 is subscribed to signal 1 (handler 0 with SA_RESTART saved), `enable()` of loop 0's event meets a
failing `pipe2`: returns false, same dispositions, the delivery reaches loop 1 only and chains the saved handler; the plain `enable()` then
succeeds; with loop 0's pipe open the answer of `pipe2` does not matter -/
theorem C04_pipe2_failure_example :
    let pre : List Op := [.setDisp 1 { kind := .handler 0, flags := 1 }, .newEv 0 [], .newEv 1 [], .newEv 0 [], .init 0 [1, 2] false,
                          .init 1 [1] false, .init 2 [2] true, .enable 1]
    let s := pre.foldl (step repaired) init
    let s2 := (pre ++ [Op.enableP 0, Op.raise 1, Op.pass 0 [], Op.pass 1 []]).foldl (step repaired) init
    let s3 := (pre ++ [Op.enableP 0, Op.enable 0, Op.enableP 2]).foldl (step repaired) init
    (needsPipe s 0 = true ∧ (enableP repaired s 0).2 = false ∧ fdsOf (step repaired s (.enableP 0)) 1 = [1] ∧
      baseDisp (step repaired s (.enableP 0)) 1 = { kind := .handler 0, flags := 1 }) ∧
    (cbCount s2 1 1 = 1 ∧ cbCount s2 0 1 = 0 ∧ s2.calls = [(0, 1)]) ∧
    (needsPipe ((pre ++ [Op.enableP 0, Op.enable 0]).foldl (step repaired) init) 2 = false ∧ (s3.evs 2).enabled = true ∧ (s3.evs 0).enabled = true ∧
      (exec repaired init (pre ++ [Op.enableP 0, Op.enable 0, Op.enableP 2])).isSome = true) := by
  refine ⟨⟨?_, ?_, ?_, ?_⟩, ⟨?_, ?_, ?_⟩, ?_, ?_, ?_, ?_⟩ <;> decide

/-- **a blocked system call while somebody is subscribed** (outside the statement, recorded): in every reachable state in which some enabled
event is subscribed to g, a thread blocked in a slow system call that receives g gets EINTR — tbox's own handler is installed and it has
no SA_RESTART — whatever the saved disposition says; with nobody subscribed the application's own disposition decides -/
theorem C04_blocked_call_while_subscribed (ops : List Op) (s : State) (he : exec repaired init ops = some s) (g : Nat) :
    ((∃ e, Subscribed s e g) → blockedCall s g = .eintr) ∧
    ((¬ ∃ e, Subscribed s e g) → blockedCall s g =
      match (s.os g).kind with
      | .dfl => .killed | .ign => .undisturbed
      | _ => if (s.os g).restart then .restarted else .eintr) := by
  have hi := (C04_installed_while_subscribed ops s he g).1
  constructor
  · intro hs
    have hk := hi.2 hs
    unfold blockedCall; rw [hk]
  · intro hs
    have hk : (s.os g).kind ≠ .tbox := fun hk => hs (hi.1 hk)
    unfold blockedCall
    cases hc : (s.os g).kind with
    | tbox => exact absurd hc hk
    | _ => rfl

/-- **SA_RESTART of the saved disposition is not in force while chained** (like `C04_chain_env_counterexample`): the application installed
its handler with SA_RESTART, so its blocked `read` is restarted after the handler; as soon as a signal event subscribes, the same delivery
makes that `read` fail with EINTR (the handler still runs: chained); after the last unsubscription it is restarted again -/
theorem C04_restart_env_counterexample :
    let d : Disp := { kind := .handler 1, flags := 1 }
    let pre : List Op := [.setDisp 1 d]
    let sub : List Op := pre ++ [.newEv 0 [], .init 0 [1] false, .enable 0]
    let post : List Op := sub ++ [.raise 1, .pass 0 [], .disable 0]
    blockedCall (pre.foldl (step repaired) init) 1 = .restarted ∧
    (blockedCall (sub.foldl (step repaired) init) 1 = .eintr ∧ (baseDisp (sub.foldl (step repaired) init) 1).restart = true ∧
      (raise (sub.foldl (step repaired) init) 1).1.calls = [(1, 1)]) ∧
    (blockedCall (post.foldl (step repaired) init) 1 = .restarted ∧ (post.foldl (step repaired) init).os 1 = d) := by
  refine ⟨?_, ⟨?_, ?_, ?_⟩, ?_, ?_⟩ <;> decide

/-! ### the code as found: three concrete histories (each replayed on /repo by the check) -/

/-- (C04-01) `initialize` on an enabled event -/
def reinitOps : List Op :=
  [.setDisp 2 { kind := .handler 7 }, .newEv 0 [], .init 0 [1] false, .enable 0, .init 0 [2] false, .destroy 0]

/-- as found: the destroyed event is still in loop 0's subscriber set for signal 1 and tbox's handler stays installed;
the user's handler for signal 2 — never subscribed — is overwritten with a zeroed sigaction.  Repaired: nothing
is left and nothing is touched. -/
theorem C04_reinit_while_enabled_counterexample :
    (((reinitOps.foldl (step asFound) init).evs 0).alive = false ∧
     ((reinitOps.foldl (step asFound) init).os 1).kind = .tbox ∧
     subsOf (reinitOps.foldl (step asFound) init) 0 1 = [0] ∧
     (reinitOps.foldl (step asFound) init).os 2 = zeroDisp) ∧
    (((reinitOps.foldl (step repaired) init).os 1) = zeroDisp ∧
     subsOf (reinitOps.foldl (step repaired) init) 0 1 = [] ∧
     (reinitOps.foldl (step repaired) init).os 2 = { kind := .handler 7 }) := by
  refine ⟨⟨?_, ?_, ?_, ?_⟩, ?_, ?_, ?_⟩ <;> decide

/-- (C04-02) `enable()` with SIGSTOP (id 3) in the set -/
def enableFailOps : List Op := [.newEv 0 [], .init 0 [1, 3] false, .enable 0]

/-- as found: `enable()` returns false, the event reports disabled, yet it stays subscribed to signal 1 with tbox's
handler installed — `disable()` and the destructor will never remove it.  Repaired: rolled back. -/
theorem C04_enable_fails_midway_counterexample :
    (((enableFailOps.foldl (step asFound) init).evs 0).enabled = false ∧
     subsOf (enableFailOps.foldl (step asFound) init) 0 1 = [0] ∧
     ((enableFailOps.foldl (step asFound) init).os 1).kind = .tbox) ∧
    (((enableFailOps.foldl (step repaired) init).evs 0).enabled = false ∧
     subsOf (enableFailOps.foldl (step repaired) init) 0 1 = [] ∧
     (enableFailOps.foldl (step repaired) init).os 1 = zeroDisp) := by
  refine ⟨⟨?_, ?_, ?_⟩, ?_, ?_, ?_⟩ <;> decide

/-- (C04-03) the callback of event 0 destroys event 1; both are in the snapshot of one delivery -/
def staleOps : List Op :=
  [.setDisp 1 { kind := .ign }, .newEv 0 [.destroy 1], .newEv 0 [], .init 0 [1] false, .init 1 [1] false,
   .enable 0, .enable 1, .raise 1, .pass 0 [0, 1]]

/-- as found: the destroyed event 1 is called (a use-after-free).  Repaired: one callback, on event 0. -/
theorem C04_callback_on_destroyed_counterexample :
    ((staleOps.foldl (step asFound) init).cbs.map (fun c => (c.ev, c.alive)) = [(1, false), (0, true)]) ∧
    ((staleOps.foldl (step repaired) init).cbs.map (fun c => (c.ev, c.alive)) = [(0, true)]) ∧
    (exec repaired init staleOps).isSome = true := by
  refine ⟨?_, ?_, ?_⟩ <;> decide

/-! ### non-vacuity: concrete histories satisfying the hypotheses -/

/-- a user handler on signal 1; two loops; a persistent event on loop 0 and a one-shot on loop 1, both enabled;
a third, scripted event (its callback disables event 0) subscribed to another signal -/
def demo : List Op :=
  [.setDisp 1 { kind := .handler 1, siginfo := true, flags := 1, mask := 5 }, .newEv 0 [], .newEv 1 [],
   .newEv 0 [.disable 0], .init 0 [1] false, .init 1 [1, 2] true, .init 2 [4] false, .enable 0, .enable 1, .enable 2]

def demoState : State := demo.foldl (step repaired) init

example : (exec repaired init demo).isSome = true := by decide
/-- quiescent, tbox installed for 1, ctx of 1 lists both loops, the subscribers of 1 have no scripts -/
example : (demoState.os 1).kind = .tbox ∧ fdsOf demoState 1 = [1, 0] ∧ (∀ l < 3, demoState.pipe l = []) ∧
    (∀ e < 3, Subscribed demoState e 1 → (demoState.evs e).script = []) := by decide
/-- delivery of 1 then passes of loops 1 and 0: the old handler ran once, each event got one callback, the
one-shot is disabled -/
example : (passes (raise demoState 1).1 [(1, []), (0, [2, 0])]).calls = [(1, 1)] ∧
    cbCount (passes (raise demoState 1).1 [(1, []), (0, [2, 0])]) 0 1 = 1 ∧
    cbCount (passes (raise demoState 1).1 [(1, []), (0, [2, 0])]) 1 1 = 1 ∧
    cbCount (passes (raise demoState 1).1 [(1, []), (0, [2, 0])]) 1 2 = 0 ∧
    ((passes (raise demoState 1).1 [(1, []), (0, [2, 0])]).evs 1).enabled = false := by decide
/-- after all are disabled the disposition of 1 is the user's again, field by field (hypotheses of
`C04_disposition_restored` with pre = [setDisp …], mid = the rest) -/
example : ((demo ++ [Op.raise 1, Op.pass 0 [], Op.init 0 [2] false, Op.destroy 1]).foldl (step repaired) init).os 1 =
    { kind := .handler 1, siginfo := true, flags := 1, mask := 5 } := by decide
example : (exec repaired init (demo ++ [Op.raise 1, Op.pass 0 [], Op.init 0 [2] false, Op.destroy 1])).isSome = true := by decide
/-- the same with SA_RESETHAND on the user's handler: three chained deliveries, no kernel reset, restored whole -/
example : let pre : List Op := [.setDisp 1 { kind := .handler 1, siginfo := true, flags := 4 + 2, mask := 2 ^ 40 }]
    let mid : List Op := [.newEv 0 [], .init 0 [1] false, .enable 0, .raise 1, .raise 1, .pass 0 [], .raise 1, .destroy 0]
    kresets (pre.foldl (step repaired) init) 1 mid = 0 ∧ (exec repaired (pre.foldl (step repaired) init) mid).isSome = true ∧
    ((pre ++ mid).foldl (step repaired) init).os 1 = { kind := .handler 1, siginfo := true, flags := 6, mask := 2 ^ 40 } ∧
    ((pre ++ mid).foldl (step repaired) init).calls.length = 3 := by
  refine ⟨?_, ?_, ?_, ?_⟩ <;> decide

end Tbox.C04

/-! ### round 4: step-level model of the `_signal_ctxs_` critical sections (Conc.lean) -/
namespace Tbox.C04.Conc

/-- every interleaving of the atomic steps of any number of threads (enter / touch / install / insert / leave of
`subscribeSignal`, enter / eraseFd / restore / eraseCtx / leave of `unsubscribeSignal`), of deliveries on any thread
that does not block the signal, and of the application's own `sigaction` calls keeps the step-level invariant -/
theorem C04_cs_reachable_inv (as : List Step) (s : State) (hr : run {} as = some s) : Inv s :=
  run_inv {} as s init_inv hr

/-- **mutual exclusion**: two different threads are never both inside a critical section -/
theorem C04_cs_mutex (as : List Step) (s : State) (hr : run {} as = some s) (t u : Nat)
    (ht : s.pc t ≠ .idle) (hu : s.pc u ≠ .idle) : t = u := by
  have h := C04_cs_reachable_inv as s hr
  have h1 := h.holder t ht
  have h2 := h.holder u hu
  rw [h1] at h2; cases h2; rfl

/-- **bookkeeping at every quiescent point** (nobody inside a critical section), for every interleaving: tbox's
handler is installed iff some thread's fd is registered; then the ctx entry exists and its saved handler is the
application's disposition; otherwise there is no entry and the kernel disposition is the application's own -/
theorem C04_cs_bookkeeping (as : List Step) (s : State) (hr : run {} as = some s) (hq : s.lock = none) :
    (s.fds = [] → s.ctx = false ∧ s.os = some s.base) ∧ (s.fds ≠ [] → s.ctx = true ∧ s.os = none ∧ s.old = s.base) := by
  have h := (C04_cs_reachable_inv as s hr).phase
  simp only [holderPc, hq, phaseInv] at h
  exact h

/-- **the sigprocmask discipline**: a thread inside a critical section blocks the signal (so the handler never runs
on it: every logged run has `onHolder = false`), and a thread outside has its mask restored (deliveries reach it) -/
theorem C04_cs_mask_discipline (as : List Step) (s : State) (hr : run {} as = some s) :
    (∀ t, s.pc t ≠ .idle → s.mask t = true) ∧ (∀ t, s.pc t = .idle → s.mask t = false) ∧
    (∀ r ∈ s.log, r.onHolder = false) := by
  have h := C04_cs_reachable_inv as s hr
  exact ⟨fun t ht => (h.blocked t ht).1, h.open_, fun r hr => (h.logOk r hr).1⟩

/-- **a delivery never mutates the map**: whenever tbox's handler can run — at EVERY step-level state, also in the
middle of another thread's critical section — the entry `_signal_ctxs_[signo]` exists (`operator[]` does not insert);
and a delivery while nobody is inside a critical section writes to a non-empty set of pipes -/
theorem C04_cs_deliveries_find_ctx (as : List Step) (s : State) (hr : run {} as = some s) :
    ∀ r ∈ s.log, r.found = true ∧ (r.holderPc = .idle → r.fds ≠ []) :=
  fun r hm => ((C04_cs_reachable_inv as s hr).logOk r hm).2

/-- the per-thread mask does NOT keep a delivery to another thread out of a critical section: thread 0 has installed
tbox's handler and not yet registered its fd; the delivery on thread 1 finds the entry with no fd to write to.  (Not a
violation of the property: its quantifier excludes deliveries while a subscription change is in progress.) -/
theorem C04_cs_handler_on_other_thread_counterexample :
    (run {} [.enterS 0, .touch 0, .install 0, .deliver 1]).map (fun s => s.log) =
      some [{ thread := 1, holderPc := .sInstalled, onHolder := false, found := true, fds := [] }] ∧
    (run {} [.enterS 0, .touch 0, .install 0, .deliver 0]) = none := by
  constructor <;> decide

/-- non-vacuity: two threads subscribe, a delivery reaches both, the application changes its disposition afterwards -/
example : ((run {} [.userSet 5, .enterS 0, .touch 0, .install 0, .insert 0, .leave 0, .enterS 1, .touch 1, .install 1,
    .insert 1, .leave 1, .deliver 2, .enterU 0, .eraseFd 0, .restore 0, .eraseCtx 0, .leave 0, .enterU 1, .eraseFd 1,
    .restore 1, .eraseCtx 1, .leave 1, .userSet 7]).map fun s => (s.os, s.ctx, s.fds, s.log.map (·.fds))) =
    some (some 7, false, [], [[1, 0]]) := by decide

end Tbox.C04.Conc
