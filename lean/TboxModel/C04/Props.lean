/-
C04 — PROPERTY THEOREMS.  "Signal events reach every subscriber; the old disposition is restored."

Every theorem quantifies over EVERY history of the model from `init` (`exec init ops = some s`): any number of
signals, loops and signal events, any interleaving of newSignalEvent / initialize (on a disabled event) / enable /
disable / destroy, user `sigaction` calls (while tbox's handler is not installed), signal deliveries `raise g`
(one at a time, not concurrent with a subscription change) and single loop passes `pass l`.  No bound on any of these.
Helper lemmas: Basics / Core / Inv / Deliver.
-/
import TboxModel.C04.Deliver
namespace Tbox.C04

/-- event e is enabled and subscribed to g -/
def Subscribed (s : State) (e g : Nat) : Prop := (s.evs e).enabled = true ∧ g ∈ (s.evs e).sigs

instance (s : State) (e g : Nat) : Decidable (Subscribed s e g) := by unfold Subscribed; infer_instance

/-- reachable states satisfy the invariant (re-exported for the audit) -/
theorem C04_reachable_inv (ops : List Op) (s : State) (he : exec init ops = some s) : Inv s :=
  exec_inv init ops init_inv s he

/-- **bookkeeping never goes stale**: the process-wide ctx map, the per-loop subscriber maps, the pipes and the
event objects agree in every reachable state. -/
theorem C04_ctx_matches (ops : List Op) (s : State) (he : exec init ops = some s) :
    (∀ l g e, e ∈ subsOf s l g ↔ (Subscribed s e g ∧ (s.evs e).loop = l)) ∧
    (∀ g l, l ∈ fdsOf s g ↔ ∃ e, Subscribed s e g ∧ (s.evs e).loop = l) ∧
    (∀ g, (s.ctxs g).isSome = true ↔ ∃ e, Subscribed s e g) ∧
    (∀ l, s.hasPipe l = true ↔ ∃ e g, Subscribed s e g ∧ (s.evs e).loop = l) := by
  have h := C04_reachable_inv ops s he
  have hmem : ∀ l g e, e ∈ subsOf s l g ↔ (Subscribed s e g ∧ (s.evs e).loop = l) := by
    intro l g e; rw [h.mem]; unfold Subscribed; exact ⟨fun ⟨a, b, c⟩ => ⟨⟨a, b⟩, c⟩, fun ⟨⟨a, b⟩, c⟩ => ⟨a, b, c⟩⟩
  have hfds : ∀ g l, l ∈ fdsOf s g ↔ ∃ e, Subscribed s e g ∧ (s.evs e).loop = l := by
    intro g l
    rw [h.core.fdsIff, ne_nil_iff_exists_mem]
    exact ⟨fun ⟨e, hm⟩ => ⟨e, (hmem l g e).1 hm⟩, fun ⟨e, hm⟩ => ⟨e, (hmem l g e).2 hm⟩⟩
  refine ⟨hmem, hfds, ?_, ?_⟩
  · intro g
    rw [h.core.ctxSome, ne_nil_iff_exists_mem]
    constructor
    · rintro ⟨l, hl⟩; obtain ⟨e, he', _⟩ := (hfds g l).1 hl; exact ⟨e, he'⟩
    · rintro ⟨e, he'⟩; exact ⟨_, (hfds g _).2 ⟨e, he', rfl⟩⟩
  · intro l
    rw [h.core.pipeIff, h.core.subs_ne_nil_iff]
    constructor
    · rintro ⟨g, hg⟩
      obtain ⟨e, hm⟩ := ne_nil_iff_exists_mem.1 hg
      exact ⟨e, g, (hmem l g e).1 hm⟩
    · rintro ⟨e, g, hm⟩
      exact ⟨g, ne_nil_iff_exists_mem.2 ⟨e, (hmem l g e).2 hm⟩⟩

/-- tbox's handler is installed for g exactly while some enabled event is subscribed to g. -/
theorem C04_installed_while_subscribed (ops : List Op) (s : State) (he : exec init ops = some s) (g : Nat) :
    (s.os g).kind = .tbox ↔ ∃ e, Subscribed s e g := by
  rw [(C04_reachable_inv ops s he).core.osTbox]
  exact (C04_ctx_matches ops s he).2.2.1 g

/-- **old disposition restored**: take any reachable state s0 in which nobody is subscribed to g, continue with
any history (subscriptions by several events on several loops, deliveries, passes, sigaction on OTHER signals) to
any state s1 in which again nobody is subscribed to g: the kernel disposition of g — handler, SA_SIGINFO, flags,
mask — is exactly what it was in s0. -/
theorem C04_disposition_restored (pre mid : List Op) (s0 s1 : State) (g : Nat)
    (h0 : exec init pre = some s0) (h1 : exec s0 mid = some s1)
    (hno0 : ∀ e, ¬ Subscribed s0 e g) (hno1 : ∀ e, ¬ Subscribed s1 e g)
    (huser : ∀ d, Op.setDisp g d ∉ mid) : s1.os g = s0.os g := by
  have hi0 := C04_reachable_inv pre s0 h0
  have hi1 := exec_inv s0 mid hi0 s1 h1
  rw [← baseDisp_eq_os_of_no_subscriber s0 g hi0 hno0, ← baseDisp_eq_os_of_no_subscriber s1 g hi1 hno1]
  exact baseDisp_exec s0 mid g hi0 huser s1 h1

/-- **the pre-existing handler is still invoked, exactly once per delivery**: whatever the subscription state, a
delivery of g invokes the handler that is the process's own disposition of g (`baseDisp`: the one saved at the
first subscription while tbox is installed, the current one otherwise) exactly once, and nothing else. -/
theorem C04_chain_old_handler (ops : List Op) (s : State) (he : exec init ops = some s) (g : Nat) :
    (raise s g).1.calls = (match (baseDisp s g).kind with
                           | .handler h => (h, g) :: s.calls
                           | _ => s.calls) := by
  have h := C04_reachable_inv ops s he
  unfold raise baseDisp
  cases hc : s.ctxs g with
  | none =>
    have hk : (s.os g).kind ≠ .tbox := fun hk => by have := (h.core.osTbox g).1 hk; simp [hc] at this
    cases hkind : (s.os g).kind with
    | tbox => exact absurd hkind hk
    | dfl => simp
    | ign => simp
    | handler h' => simp
  | some c =>
    have hk : (s.os g).kind = .tbox := (h.core.osTbox g).2 (by simp [hc])
    have hctx : ctxOf s g = c := by simp [ctxOf, hc]
    simp only [hk, hctx]
    cases c.old.kind <;> rfl

/-- every callback ever made is legitimate: made by the pass of the event's own loop, on an event that was
enabled and subscribed to that signal; a one-shot event is already disabled inside its callback and the
callback is the first since its enablement; a persistent event is still enabled inside its callback. -/
theorem C04_callbacks_legit (ops : List Op) (s : State) (he : exec init ops = some s) : ∀ c ∈ s.cbs, CbOk c :=
  (C04_reachable_inv ops s he).cbsOk

/-- **one-shot fires at most once** (per enablement): a callback of a one-shot event is the first one since the
event was (re-)enabled, and it leaves the event disabled — hence unsubscribed from all its signals
(`C04_ctx_matches`), so no later delivery reaches it until it is enabled again; and an enabled one-shot event
has not fired since its enablement. -/
theorem C04_oneshot_at_most_once (ops : List Op) (s : State) (he : exec init ops = some s) :
    (∀ c ∈ s.cbs, c.oneshot = true → c.firedBefore = 0 ∧ c.enabledInCb = false) ∧
    (∀ e, (s.evs e).oneshot = true → (s.evs e).enabled = true → (s.evs e).fired = 0) := by
  have h := C04_reachable_inv ops s he
  exact ⟨fun c hc ho => ⟨((h.cbsOk c hc).oneshot ho).2, ((h.cbsOk c hc).oneshot ho).1⟩, h.once⟩

/-- **every subscriber exactly once, on its own loop**: in any reachable quiescent state (no delivery pending in any
pipe) deliver g once and then run the loops `ls` one pass each, in any order, any loop any number of times.  The
number of callbacks (e, g') grows by exactly one iff g' = g, e was enabled and subscribed to g at the delivery and
e's loop is among those that ran — and by zero otherwise (no callback for another signal, for a disabled or
unsubscribed event, no second callback).  (`C04_callbacks_legit`: that callback is made by e's own loop.) -/
theorem C04_every_subscriber_once (ops : List Op) (s : State) (he : exec init ops = some s)
    (hq : ∀ l, s.pipe l = []) (g : Nat) (ls : List Nat) (e g' : Nat) :
    cbCount (passes (raise s g).1 ls) e g' =
      cbCount s e g' + (if g' = g ∧ Subscribed s e g ∧ (s.evs e).loop ∈ ls then 1 else 0) := by
  have h := C04_reachable_inv ops s he
  have h1 := raise_inv s g h
  -- the state after the delivery: same events, same log, pipes hold at most one g
  have hev : (raise s g).1.evs = s.evs := by unfold raise; split <;> rfl
  have hcb : (raise s g).1.cbs = s.cbs := by unfold raise; split <;> rfl
  have hpipe : ∀ l, (raise s g).1.pipe l = if (s.os g).kind = .tbox ∧ l ∈ fdsOf s g then [g] else [] := by
    intro l
    unfold raise
    split <;> rename_i hk
    · simp [hk, hq]
    · simp [hk, hq]
    · simp [hk, hq]
    · show appendPipes s.pipe g (ctxOf s g).fds l = _
      simp only [appendPipes, hq, List.nil_append, hk, true_and]; rfl
  have hq' : ∀ l, (raise s g).1.pipe l = [] ∨ (raise s g).1.pipe l = [g] := by
    intro l; rw [hpipe]; split
    · right; rfl
    · left; rfl
  rw [cbCount_passes g ls _ h1 hq' e g']
  have hc0 : cbCount (raise s g).1 e g' = cbCount s e g' := by unfold cbCount; rw [hcb]
  rw [hc0, hev]
  congr 1
  unfold Subscribed
  by_cases hs : (s.evs e).enabled = true ∧ g ∈ (s.evs e).sigs
  · -- a subscriber: tbox's handler is installed and e's loop is registered
    have hm : e ∈ subsOf s (s.evs e).loop g := (h.mem _ g e).2 ⟨hs.1, hs.2, rfl⟩
    have hne : subsOf s (s.evs e).loop g ≠ [] := ne_nil_iff_exists_mem.2 ⟨e, hm⟩
    have hfd : (s.evs e).loop ∈ fdsOf s g := (h.core.fdsIff g _).2 hne
    have hk : (s.os g).kind = .tbox :=
      (h.core.osTbox g).2 ((h.core.ctxSome g).2 (ne_nil_iff_exists_mem.2 ⟨_, hfd⟩))
    rw [hpipe]
    simp [hs, hk, hfd]
  · simp [hs]

/-! ### why `initialize` on an enabled event is outside the histories (`valid`)

`SignalEventImpl::initialize` neither refuses an enabled event nor re-subscribes.  Replacing the signal set of an
enabled event and then destroying it leaves tbox's handler installed for the old signal with a dangling subscriber
(the destroyed object is still in the loop's subscriber set), and `disable()` "unsubscribes" the never-subscribed
new signal, which overwrites the user's disposition of that signal with a zeroed `struct sigaction`. -/
def reinitOps : List Op :=
  [.setDisp 1 { kind := .handler 7 }, .newEv 0, .init 0 [0] false, .enable 0, .init 0 [1] false, .destroy 0]

theorem C04_reinit_while_enabled_counterexample :
    exec init reinitOps = none ∧
    ((reinitOps.foldl step init).evs 0).alive = false ∧
    ((reinitOps.foldl step init).os 0).kind = .tbox ∧
    subsOf (reinitOps.foldl step init) 0 0 = [0] ∧
    (reinitOps.foldl step init).os 1 = zeroDisp := by
  refine ⟨?_, ?_, ?_, ?_, ?_⟩ <;> decide

/-! ### non-vacuity: concrete histories satisfying the hypotheses -/

/-- a user handler on signal 0; two loops; a persistent event on loop 0 and a one-shot on loop 1, both enabled -/
def demo : List Op :=
  [.setDisp 0 { kind := .handler 1, siginfo := true, flags := 1, mask := 5 }, .newEv 0, .newEv 1,
   .init 0 [0] false, .init 1 [0, 1] true, .enable 0, .enable 1]

def demoState : State := demo.foldl step init

example : (exec init demo).isSome = true := by decide
/-- quiescent, tbox installed for 0 and 1, ctx of 0 lists both loops -/
example : (demoState.os 0).kind = .tbox ∧ fdsOf demoState 0 = [1, 0] ∧ (∀ l < 3, demoState.pipe l = []) := by decide
/-- delivery of 0 then passes of loops 1 and 0: the old handler ran once, each event got one callback, the
one-shot is disabled -/
example : (passes (raise demoState 0).1 [1, 0]).calls = [(1, 0)] ∧
    cbCount (passes (raise demoState 0).1 [1, 0]) 0 0 = 1 ∧ cbCount (passes (raise demoState 0).1 [1, 0]) 1 0 = 1 ∧
    cbCount (passes (raise demoState 0).1 [1, 0]) 1 1 = 0 ∧
    ((passes (raise demoState 0).1 [1, 0]).evs 1).enabled = false := by decide
/-- after both are disabled the disposition of 0 is the user's again, field by field (hypotheses of
`C04_disposition_restored` with pre = [setDisp …], mid = the rest ++ [disable 0, destroy 1]) -/
example : ((demo ++ [Op.raise 0, Op.pass 0, Op.disable 0, Op.destroy 1]).foldl step init).os 0 =
    { kind := .handler 1, siginfo := true, flags := 1, mask := 5 } := by decide
example : (exec init (demo ++ [Op.raise 0, Op.pass 0, Op.disable 0, Op.destroy 1])).isSome = true := by decide

end Tbox.C04
