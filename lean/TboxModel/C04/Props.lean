/-
C04 — PROPERTY THEOREMS.  "Signal events reach every subscriber; the old disposition is restored."

Every theorem quantifies over EVERY history of the model of the repaired code (`exec repaired init ops = some s`):
any number of signals (including the two on which `sigaction` fails), loops and signal events, any callback scripts
(enable/disable/destroy of events of the same loop, not of the running event itself), any interleaving of
newSignalEvent / initialize (also of an enabled event) / enable / disable / destroy, user `sigaction` calls,
signal deliveries `raise g` (one at a time, not concurrent with a subscription change) and single loop passes
`pass l ord` with any oracle `ord` for the order in which the subscriber snapshot is walked.  No bound on any of these.
The three `_counterexample` theorems show what the code AS FOUND does on three concrete histories
(patches/C04-01…03 repair them).  Helper lemmas: Basics / Core / Inv / Deliver.
-/
import TboxModel.C04.Deliver
namespace Tbox.C04

/-- event e is enabled and subscribed to g -/
def Subscribed (s : State) (e g : Nat) : Prop := (s.evs e).enabled = true ∧ g ∈ (s.evs e).sigs

instance (s : State) (e g : Nat) : Decidable (Subscribed s e g) := by unfold Subscribed; infer_instance

/-- reachable states satisfy the invariant (re-exported for the audit) -/
theorem C04_reachable_inv (ops : List Op) (s : State) (he : exec repaired init ops = some s) : Inv s :=
  exec_inv init ops init_inv s he

/-- **bookkeeping never goes stale**: the process-wide ctx map, the per-loop subscriber maps, the pipes and the
event objects agree in every reachable state.  In particular an event that is not enabled (never enabled, disabled,
destroyed, re-initialised, or whose `enable()` failed half-way) is in no subscriber set. -/
theorem C04_ctx_matches (ops : List Op) (s : State) (he : exec repaired init ops = some s) :
    (∀ l g e, e ∈ subsOf s l g ↔ (Subscribed s e g ∧ (s.evs e).loop = l)) ∧
    (∀ g l, l ∈ fdsOf s g ↔ ∃ e, Subscribed s e g ∧ (s.evs e).loop = l) ∧
    (∀ l, s.hasPipe l = true ↔ ∃ e g, Subscribed s e g ∧ (s.evs e).loop = l) ∧
    (∀ e, (s.evs e).alive = false → (s.evs e).enabled = false) := by
  have h := C04_reachable_inv ops s he
  have hmem : ∀ l g e, e ∈ subsOf s l g ↔ (Subscribed s e g ∧ (s.evs e).loop = l) := by
    intro l g e; rw [h.mem]; unfold Subscribed; exact ⟨fun ⟨a, b, c⟩ => ⟨⟨a, b⟩, c⟩, fun ⟨⟨a, b⟩, c⟩ => ⟨a, b, c⟩⟩
  have hfds : ∀ g l, l ∈ fdsOf s g ↔ ∃ e, Subscribed s e g ∧ (s.evs e).loop = l := by
    intro g l
    rw [h.core.fdsIff, ne_nil_iff_exists_mem]
    exact ⟨fun ⟨e, hm⟩ => ⟨e, (hmem l g e).1 hm⟩, fun ⟨e, hm⟩ => ⟨e, (hmem l g e).2 hm⟩⟩
  refine ⟨hmem, hfds, ?_, h.dead⟩
  intro l
  rw [h.core.pipeIff, h.core.subs_ne_nil_iff]
  constructor
  · rintro ⟨g, hg⟩
    obtain ⟨e, hm⟩ := ne_nil_iff_exists_mem.1 hg
    exact ⟨e, g, (hmem l g e).1 hm⟩
  · rintro ⟨e, g, hm⟩
    exact ⟨g, ne_nil_iff_exists_mem.2 ⟨e, (hmem l g e).2 hm⟩⟩

/-- tbox's handler is installed for g exactly while some enabled event is subscribed to g (never for a signal on
which `sigaction` fails). -/
theorem C04_installed_while_subscribed (ops : List Op) (s : State) (he : exec repaired init ops = some s) (g : Nat) :
    ((s.os g).kind = .tbox ↔ ∃ e, Subscribed s e g) ∧ (sigValid g = false → ∀ e, ¬ Subscribed s e g) := by
  have h := C04_reachable_inv ops s he
  have hfds := (C04_ctx_matches ops s he).2.1 g
  have hiff : (s.os g).kind = .tbox ↔ ∃ e, Subscribed s e g := by
    rw [h.core.osTbox, ne_nil_iff_exists_mem]
    constructor
    · rintro ⟨l, hl⟩; obtain ⟨e, he', _⟩ := (hfds l).1 hl; exact ⟨e, he'⟩
    · rintro ⟨e, he'⟩; exact ⟨_, (hfds _).2 ⟨e, he', rfl⟩⟩
  refine ⟨hiff, fun hv e hs => ?_⟩
  have := (hfds _).2 ⟨e, hs, rfl⟩
  rw [h.core.invalid g hv] at this; cases this

/-- **old disposition restored**: take any reachable state s0 in which nobody is subscribed to g, continue with
any history (subscriptions by several events on several loops, re-initialisations, failing enables, deliveries,
passes with callbacks that change subscriptions, sigaction on OTHER signals) to any state s1 in which again nobody
is subscribed to g: the kernel disposition of g — handler, SA_SIGINFO, flags, mask — is exactly what it was in s0. -/
theorem C04_disposition_restored (pre mid : List Op) (s0 s1 : State) (g : Nat)
    (h0 : exec repaired init pre = some s0) (h1 : exec repaired s0 mid = some s1)
    (hno0 : ∀ e, ¬ Subscribed s0 e g) (hno1 : ∀ e, ¬ Subscribed s1 e g)
    (huser : ∀ d, Op.setDisp g d ∉ mid) : s1.os g = s0.os g := by
  have hi0 := C04_reachable_inv pre s0 h0
  have hi1 := exec_inv s0 mid hi0 s1 h1
  rw [← baseDisp_eq_os_of_no_subscriber s0 g hi0 hno0, ← baseDisp_eq_os_of_no_subscriber s1 g hi1 hno1]
  exact baseDisp_exec s0 mid g hi0 huser s1 h1

/-- **the pre-existing handler is still invoked, exactly once per delivery**: whatever the subscription state, a
delivery of g invokes the handler that is the process's own disposition of g (`baseDisp`: the one saved at the
first subscription while tbox is installed, the current one otherwise) exactly once, and nothing else. -/
theorem C04_chain_old_handler (ops : List Op) (s : State) (he : exec repaired init ops = some s) (g : Nat) :
    (raise s g).1.calls = (match (baseDisp s g).kind with
                           | .handler h => (h, g) :: s.calls
                           | _ => s.calls) := by
  have h := C04_reachable_inv ops s he
  unfold raise baseDisp
  by_cases hf : fdsOf s g = []
  · have hk : (s.os g).kind ≠ .tbox := fun hk => (h.core.osTbox g).1 hk hf
    simp only [hf, ↓reduceIte]
    cases hkind : (s.os g).kind with
    | tbox => exact absurd hkind hk
    | dfl => simp
    | ign => simp
    | handler h' => simp
  · have hk : (s.os g).kind = .tbox := (h.core.osTbox g).2 hf
    simp only [hk, hf, ↓reduceIte]
    cases (ctxOf s g).old.kind <;> rfl

/-- every callback ever made is legitimate: made by the pass of the event's own loop, on an object that existed and
was enabled and subscribed to that signal at that moment; a one-shot event is already disabled inside its callback
and the callback is the first since its enablement; a persistent event is still enabled inside its callback. -/
theorem C04_callbacks_legit (ops : List Op) (s : State) (he : exec repaired init ops = some s) : ∀ c ∈ s.cbs, CbOk c :=
  (C04_reachable_inv ops s he).cbsOk

/-- **no callback on a disabled or destroyed event**: also when an earlier callback of the same delivery (same
snapshot of the subscriber set) disabled or destroyed it — for every callback script and every walking order. -/
theorem C04_no_callback_on_disabled_or_destroyed (ops : List Op) (s : State) (he : exec repaired init ops = some s) :
    ∀ c ∈ s.cbs, c.alive = true ∧ c.subscribed = true :=
  fun c hc => ⟨((C04_reachable_inv ops s he).cbsOk c hc).alive, ((C04_reachable_inv ops s he).cbsOk c hc).subscribed⟩

/-- **one-shot fires at most once** (per enablement): a callback of a one-shot event is the first one since the
event was (re-)enabled, and it leaves the event disabled — hence unsubscribed from all its signals
(`C04_ctx_matches`), so no later delivery reaches it until it is enabled again; and an enabled one-shot event
has not fired since its enablement. -/
theorem C04_oneshot_at_most_once (ops : List Op) (s : State) (he : exec repaired init ops = some s) :
    (∀ c ∈ s.cbs, c.oneshot = true → c.firedBefore = 0 ∧ c.enabledInCb = false) ∧
    (∀ e, (s.evs e).oneshot = true → (s.evs e).enabled = true → (s.evs e).fired = 0) := by
  have h := C04_reachable_inv ops s he
  exact ⟨fun c hc ho => ⟨((h.cbsOk c hc).oneshot ho).2, ((h.cbsOk c hc).oneshot ho).1⟩, h.once⟩

/-- the read loop of a pass ends because the pipe is closed or empty, never because the model's fuel ran out -/
theorem C04_pass_drains (ops : List Op) (s : State) (he : exec repaired init ops = some s) (l : Nat) (ord : List Nat) :
    (pass repaired s l ord).hasPipe l = false ∨ (pass repaired s l ord).pipe l = [] :=
  passLoop_drains l ord _ s (C04_reachable_inv ops s he) (Nat.lt_succ_self _)

/-- **every subscriber exactly once, on its own loop**: in any reachable quiescent state (no delivery pending in any
pipe) deliver g once and then run the loops `ls` one pass each, in any order, any loop any number of times, each
pass with any walking order.  If the callbacks of the subscribers of g do not themselves change subscriptions (the
property's histories: subscription changes happen between deliveries), the number of callbacks (e, g') grows by
exactly one iff g' = g, e was enabled and subscribed to g at the delivery and e's loop is among those that ran — and
by zero otherwise (no callback for another signal, for a disabled or unsubscribed event, no second callback).
(`C04_callbacks_legit`: that callback is made by e's own loop; with scripts that do change subscriptions
`C04_no_callback_on_disabled_or_destroyed` says who is NOT called.) -/
theorem C04_every_subscriber_once (ops : List Op) (s : State) (he : exec repaired init ops = some s)
    (hq : ∀ l, s.pipe l = []) (g : Nat) (ls : List (Nat × List Nat)) (hord : ∀ p ∈ ls, p.2.Nodup)
    (hns : ∀ e, Subscribed s e g → (s.evs e).script = []) (e g' : Nat) :
    cbCount (passes (raise s g).1 ls) e g' =
      cbCount s e g' + (if g' = g ∧ Subscribed s e g ∧ (s.evs e).loop ∈ ls.map (·.1) then 1 else 0) := by
  have h := C04_reachable_inv ops s he
  have h1 := raise_inv s g h
  -- the state after the delivery: same events, same log, pipes hold at most one g
  have hev : (raise s g).1.evs = s.evs := by unfold raise; split <;> rfl
  have hcb : (raise s g).1.cbs = s.cbs := by unfold raise; split <;> rfl
  have hpipe : ∀ l, (raise s g).1.pipe l = if (s.os g).kind = .tbox ∧ l ∈ fdsOf s g then [g] else [] := by
    intro l
    unfold raise
    split <;> rename_i hk
    · simp [hk, hq]
    · simp [hk, hq]
    · simp [hk, hq]
    · show appendPipes s.pipe g (ctxOf s g).fds l = _
      simp only [appendPipes, hq, List.nil_append, hk, true_and]; rfl
  have hq' : ∀ l, (raise s g).1.pipe l = [] ∨ (raise s g).1.pipe l = [g] := by
    intro l; rw [hpipe]; split
    · right; rfl
    · left; rfl
  have hns' : ∀ e, ((raise s g).1.evs e).enabled = true → g ∈ ((raise s g).1.evs e).sigs →
      ((raise s g).1.evs e).script = [] := by
    rw [hev]; exact fun e h1 h2 => hns e ⟨h1, h2⟩
  rw [cbCount_passes g ls _ h1 hq' hord hns' e g']
  have hc0 : cbCount (raise s g).1 e g' = cbCount s e g' := by unfold cbCount; rw [hcb]
  rw [hc0, hev]
  congr 1
  have hiff : (g' = g ∧ ((s.evs e).enabled = true ∧ g ∈ (s.evs e).sigs) ∧ (raise s g).1.pipe (s.evs e).loop = [g] ∧
      (s.evs e).loop ∈ ls.map (·.1)) ↔ (g' = g ∧ Subscribed s e g ∧ (s.evs e).loop ∈ ls.map (·.1)) := ?_
  · by_cases hc : g' = g ∧ Subscribed s e g ∧ (s.evs e).loop ∈ ls.map (·.1)
    · rw [if_pos hc, if_pos (hiff.2 hc)]
    · rw [if_neg hc, if_neg (fun hh => hc (hiff.1 hh))]
  constructor
  · rintro ⟨h1, h2, _, h4⟩; exact ⟨h1, h2, h4⟩
  · rintro ⟨h1, hs, h4⟩
    -- a subscriber: tbox's handler is installed and e's loop is registered
    have hm : e ∈ subsOf s (s.evs e).loop g := (h.mem _ g e).2 ⟨hs.1, hs.2, rfl⟩
    have hne : subsOf s (s.evs e).loop g ≠ [] := ne_nil_iff_exists_mem.2 ⟨e, hm⟩
    have hfd : (s.evs e).loop ∈ fdsOf s g := (h.core.fdsIff g _).2 hne
    have hk : (s.os g).kind = .tbox := (h.core.osTbox g).2 (ne_nil_iff_exists_mem.2 ⟨_, hfd⟩)
    refine ⟨h1, hs, ?_, h4⟩
    rw [hpipe]; simp [hk, hfd]

/-! ### the code as found: three concrete histories (each replayed on /repo by the check) -/

/-- (C04-01) `initialize` on an enabled event -/
def reinitOps : List Op :=
  [.setDisp 2 { kind := .handler 7 }, .newEv 0 [], .init 0 [1] false, .enable 0, .init 0 [2] false, .destroy 0]

/-- as found: the destroyed event is still in loop 0's subscriber set for signal 1 and tbox's handler stays installed;
the user's handler for signal 2 — never subscribed — is overwritten with a zeroed sigaction.  Repaired: nothing
is left and nothing is touched. -/
theorem C04_reinit_while_enabled_counterexample :
    (((reinitOps.foldl (step asFound) init).evs 0).alive = false ∧
     ((reinitOps.foldl (step asFound) init).os 1).kind = .tbox ∧
     subsOf (reinitOps.foldl (step asFound) init) 0 1 = [0] ∧
     (reinitOps.foldl (step asFound) init).os 2 = zeroDisp) ∧
    (((reinitOps.foldl (step repaired) init).os 1) = zeroDisp ∧
     subsOf (reinitOps.foldl (step repaired) init) 0 1 = [] ∧
     (reinitOps.foldl (step repaired) init).os 2 = { kind := .handler 7 }) := by
  refine ⟨⟨?_, ?_, ?_, ?_⟩, ?_, ?_, ?_⟩ <;> decide

/-- (C04-02) `enable()` with SIGSTOP (id 3) in the set -/
def enableFailOps : List Op := [.newEv 0 [], .init 0 [1, 3] false, .enable 0]

/-- as found: `enable()` returns false, the event reports disabled, yet it stays subscribed to signal 1 with tbox's
handler installed — `disable()` and the destructor will never remove it.  Repaired: rolled back. -/
theorem C04_enable_fails_midway_counterexample :
    (((enableFailOps.foldl (step asFound) init).evs 0).enabled = false ∧
     subsOf (enableFailOps.foldl (step asFound) init) 0 1 = [0] ∧
     ((enableFailOps.foldl (step asFound) init).os 1).kind = .tbox) ∧
    (((enableFailOps.foldl (step repaired) init).evs 0).enabled = false ∧
     subsOf (enableFailOps.foldl (step repaired) init) 0 1 = [] ∧
     (enableFailOps.foldl (step repaired) init).os 1 = zeroDisp) := by
  refine ⟨⟨?_, ?_, ?_⟩, ?_, ?_, ?_⟩ <;> decide

/-- (C04-03) the callback of event 0 destroys event 1; both are in the snapshot of one delivery -/
def staleOps : List Op :=
  [.setDisp 1 { kind := .ign }, .newEv 0 [.destroy 1], .newEv 0 [], .init 0 [1] false, .init 1 [1] false,
   .enable 0, .enable 1, .raise 1, .pass 0 [0, 1]]

/-- as found: the destroyed event 1 is called (a use-after-free).  Repaired: one callback, on event 0. -/
theorem C04_callback_on_destroyed_counterexample :
    ((staleOps.foldl (step asFound) init).cbs.map (fun c => (c.ev, c.alive)) = [(1, false), (0, true)]) ∧
    ((staleOps.foldl (step repaired) init).cbs.map (fun c => (c.ev, c.alive)) = [(0, true)]) ∧
    (exec repaired init staleOps).isSome = true := by
  refine ⟨?_, ?_, ?_⟩ <;> decide

/-! ### non-vacuity: concrete histories satisfying the hypotheses -/

/-- a user handler on signal 1; two loops; a persistent event on loop 0 and a one-shot on loop 1, both enabled;
a third, scripted event (its callback disables event 0) subscribed to another signal -/
def demo : List Op :=
  [.setDisp 1 { kind := .handler 1, siginfo := true, flags := 1, mask := 5 }, .newEv 0 [], .newEv 1 [],
   .newEv 0 [.disable 0], .init 0 [1] false, .init 1 [1, 2] true, .init 2 [4] false, .enable 0, .enable 1, .enable 2]

def demoState : State := demo.foldl (step repaired) init

example : (exec repaired init demo).isSome = true := by decide
/-- quiescent, tbox installed for 1, ctx of 1 lists both loops, the subscribers of 1 have no scripts -/
example : (demoState.os 1).kind = .tbox ∧ fdsOf demoState 1 = [1, 0] ∧ (∀ l < 3, demoState.pipe l = []) ∧
    (∀ e < 3, Subscribed demoState e 1 → (demoState.evs e).script = []) := by decide
/-- delivery of 1 then passes of loops 1 and 0: the old handler ran once, each event got one callback, the
one-shot is disabled -/
example : (passes (raise demoState 1).1 [(1, []), (0, [2, 0])]).calls = [(1, 1)] ∧
    cbCount (passes (raise demoState 1).1 [(1, []), (0, [2, 0])]) 0 1 = 1 ∧
    cbCount (passes (raise demoState 1).1 [(1, []), (0, [2, 0])]) 1 1 = 1 ∧
    cbCount (passes (raise demoState 1).1 [(1, []), (0, [2, 0])]) 1 2 = 0 ∧
    ((passes (raise demoState 1).1 [(1, []), (0, [2, 0])]).evs 1).enabled = false := by decide
/-- after all are disabled the disposition of 1 is the user's again, field by field (hypotheses of
`C04_disposition_restored` with pre = [setDisp …], mid = the rest) -/
example : ((demo ++ [Op.raise 1, Op.pass 0 [], Op.init 0 [2] false, Op.destroy 1]).foldl (step repaired) init).os 1 =
    { kind := .handler 1, siginfo := true, flags := 1, mask := 5 } := by decide
example : (exec repaired init (demo ++ [Op.raise 1, Op.pass 0 [], Op.init 0 [2] false, Op.destroy 1])).isSome = true := by decide

end Tbox.C04
