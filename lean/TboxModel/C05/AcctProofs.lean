/- C05 — coverage invariants: every accepted task is accounted for (`AcctInv`), every worker thread is
in the cabinet, in cleanup()'s vector, in the self-exited list, or joined (`JoinInv`). -/
import TboxModel.C05.CbProofs
namespace Tbox.C05

/-! ### tasks -/

/-- still going to run: waiting, or held by a worker whose body has not started -/
def pendingTask (s : State) (id : Nat) : Prop :=
  (∃ t ∈ s.undo, t.id = id) ∨ ∃ w t, (s.pc w).pre? = some t ∧ t.id = id

structure AcctInv (s : State) : Prop where
  cover  : ∀ id, id < s.nextTask → id ∈ s.ranIds ∨ id ∈ s.cancelled ∨ id ∈ s.dropped ∨ pendingTask s id
  noUndo : s.phase1 = true → s.undo = []

theorem AcctInv.weaken {s s' : State} (h : AcctInv s) (h1 : s'.undo = s.undo) (h2 : s'.nextTask = s.nextTask)
    (h3 : s'.ran = s.ran) (h4 : s'.cancelled = s.cancelled) (h5 : s'.dropped = s.dropped) (h6 : s'.phase1 = s.phase1)
    (hpc : ∀ i t, (s.pc i).pre? = some t → (s'.pc i).pre? = some t) : AcctInv s' := by
  have hr : s'.ranIds = s.ranIds := by simp only [State.ranIds, h3]
  constructor
  · rw [h2, hr, h4, h5]
    intro id hid
    rcases h.cover id hid with a | a | a | a
    · exact Or.inl a
    · exact Or.inr (Or.inl a)
    · exact Or.inr (Or.inr (Or.inl a))
    · refine Or.inr (Or.inr (Or.inr ?_))
      rcases a with ⟨t, ht, e⟩ | ⟨w, t, hw, e⟩
      · exact Or.inl ⟨t, h1 ▸ ht, e⟩
      · exact Or.inr ⟨w, t, hpc w t hw, e⟩
  · rw [h6, h1]; exact h.noUndo

theorem AcctInv.of_eq {s s' : State} (h : AcctInv s) (h1 : s'.undo = s.undo) (h2 : s'.nextTask = s.nextTask)
    (h3 : s'.ran = s.ran) (h4 : s'.cancelled = s.cancelled) (h5 : s'.dropped = s.dropped) (h6 : s'.phase1 = s.phase1)
    (h7 : s'.pc = s.pc) : AcctInv s' :=
  h.weaken h1 h2 h3 h4 h5 h6 (fun i t => by rw [h7]; exact id)

/-- worker `w`, which holds no not-yet-run task, changes its program counter -/
theorem AcctInv.setPc_idle {s : State} (h : AcctInv s) (w : Nat) (p : PC) (hw : (s.pc w).pre? = none) :
    AcctInv (setPc s w p) :=
  h.weaken rfl rfl rfl rfl rfl rfl (fun i t hi => by
    simp only [setPc_pc]; by_cases e : i = w
    · rw [e, hw] at hi; cases hi
    · simpa [e] using hi)

theorem AcctInv.afterPred {s : State} (h : AcctInv s) (w : Nat) (hw : (s.pc w).pre? = none) :
    AcctInv (afterPred s w) := by
  unfold Tbox.C05.afterPred
  split
  · split
    · exact (h.of_eq (s' := { s with idle := s.idle - 1 }) rfl rfl rfl rfl rfl rfl rfl).setPc_idle w _ hw
    · split
      · exact (h.of_eq (s' := { s with idle := s.idle - 1 }) rfl rfl rfl rfl rfl rfl rfl).setPc_idle w _ hw
      · rename_i t hp
        have key : ∀ (p : PC), p.pre? = some t → ∀ (dg : List Nat) (pk : List (Tk × List Tk)) (idl : Nat),
            AcctInv (setPc { s with idle := idl, undo := removeId s.undo t.id, picks := pk, doing := dg } w p) := by
          intro p hp' dg pk idl
          constructor
          · intro id hid
            rcases h.cover id hid with a | a | a | a
            · exact Or.inl a
            · exact Or.inr (Or.inl a)
            · exact Or.inr (Or.inr (Or.inl a))
            · refine Or.inr (Or.inr (Or.inr ?_))
              rcases a with ⟨u, hu, e⟩ | ⟨i, u, hi, e⟩
              · by_cases hid' : u.id = t.id
                · exact Or.inr ⟨w, t, by simp [hp'], by rw [← hid', e]⟩
                · exact Or.inl ⟨u, mem_removeId.2 ⟨hu, hid'⟩, e⟩
              · by_cases e' : i = w
                · rw [e', hw] at hi; cases hi
                · exact Or.inr ⟨i, u, by simpa [e'] using hi, e⟩
          · intro hp1
            have := h.noUndo hp1
            simp only [setPc_undo]; rw [this]; rfl
        split
        · exact key _ rfl _ _ _
        · exact key _ rfl _ _ _
  · exact (h.of_eq (s' := { s with lock := true }) rfl rfl rfl rfl rfl rfl rfl).setPc_idle w _ hw

theorem AcctInv.step {s : State} (h : AcctInv s) (hw : WorkerInv s) (st : Step) (hv : valid s st = true) :
    AcctInv (step s st) := by
  have fresh : ∀ w, s.nW ≤ w → (s.pc w).pre? = none := by
    intro w hle
    cases hp : (s.pc w).active
    · cases hpc : s.pc w <;> simp_all [PC.active, PC.pre?]
    · have := hw.bound w (hw.live w hp); omega
  cases st with
  | execute prio cb =>
    simp only [valid, inCleanup, Bool.and_eq_true, Bool.not_eq_true', Bool.and_eq_false_iff] at hv
    simp only [Tbox.C05.step]
    split
    · exact h
    · rename_i hd
      have hph : s.phase1 = false := by
        rcases hv.2 with hp | hp
        · exact hp
        · simp at hp; exact absurd hp hd
      have h1 : AcctInv { s with undo := s.undo ++ [{ id := s.nextTask, lvl := levelOf prio, cb := cb }],
                                 nextTask := s.nextTask + 1, pend := s.pend + 1 } := by
        constructor
        · intro id hid
          by_cases e : id = s.nextTask
          · exact Or.inr (Or.inr (Or.inr (Or.inl ⟨_, List.mem_append_right _ List.mem_cons_self, e.symm⟩)))
          · rcases h.cover id (by simp only at hid; omega) with a | a | a | a
            · exact Or.inl a
            · exact Or.inr (Or.inl a)
            · exact Or.inr (Or.inr (Or.inl a))
            · refine Or.inr (Or.inr (Or.inr ?_))
              rcases a with ⟨u, hu, e'⟩ | a
              · exact Or.inl ⟨u, List.mem_append_left _ hu, e'⟩
              · exact Or.inr a
        · intro hp; simp only at hp; rw [hph] at hp; cases hp
      split
      · split
        · refine AcctInv.setPc_idle ?_ _ _ (fresh _ (Nat.le_refl _))
          exact h1.of_eq rfl rfl rfl rfl rfl rfl rfl
        · exact h1.of_eq rfl rfl rfl rfl rfl rfl rfl
      · exact h1
  | executeF prio cb =>
    simp only [valid, inCleanup, Bool.and_eq_true, Bool.not_eq_true', Bool.and_eq_false_iff, decide_eq_true_eq] at hv
    simp only [Tbox.C05.step]
    split
    · exact h
    · have hd : s.done = false := hv.1.1.2
      have hph : s.phase1 = false := by
        rcases hv.1.1.1.2 with hp | hp
        · exact hp
        · simp at hp; rw [hd] at hp; cases hp
      constructor
      · intro id hid
        by_cases e : id = s.nextTask
        · exact Or.inr (Or.inr (Or.inr (Or.inl ⟨_, List.mem_append_right _ List.mem_cons_self, e.symm⟩)))
        · rcases h.cover id (by simp only at hid; omega) with a | a | a | a
          · exact Or.inl a
          · exact Or.inr (Or.inl a)
          · exact Or.inr (Or.inr (Or.inl a))
          · refine Or.inr (Or.inr (Or.inr ?_))
            rcases a with ⟨u, hu, e'⟩ | a
            · exact Or.inl ⟨u, List.mem_append_left _ hu, e'⟩
            · exact Or.inr a
      · intro hp; simp only at hp; rw [hph] at hp; cases hp
  | cancel id =>
    simp only [Tbox.C05.step]
    rcases cancelAns_cases s id with ⟨hc, hu⟩ | ⟨hc, _, _⟩ | hc
    · rw [hc]
      constructor
      · intro j hj
        by_cases e : j = id
        · exact Or.inr (Or.inl (by simp [e]))
        · rcases h.cover j hj with a | a | a | a
          · exact Or.inl a
          · exact Or.inr (Or.inl (List.mem_cons_of_mem _ a))
          · exact Or.inr (Or.inr (Or.inl a))
          · refine Or.inr (Or.inr (Or.inr ?_))
            rcases a with ⟨u, hu', e'⟩ | a
            · exact Or.inl ⟨u, mem_removeId.2 ⟨hu', by rw [e']; exact e⟩, e'⟩
            · exact Or.inr a
      · intro hp; have := h.noUndo hp; simp only; rw [this]; rfl
    · rw [hc]; simp only; split
      · exact h
      · exact h.of_eq rfl rfl rfl rfl rfl rfl rfl
    · rw [hc]; exact h
  | status id =>
    simp only [Tbox.C05.step]
    split
    · split
      · exact h
      · exact h.of_eq rfl rfl rfl rfl rfl rfl rfl
    · exact h
  | snapshot => exact h
  | cleanup1 =>
    constructor
    · intro j hj
      rcases h.cover j hj with a | a | a | a
      · exact Or.inl a
      · exact Or.inr (Or.inl a)
      · exact Or.inr (Or.inr (Or.inl (List.mem_append_right _ a)))
      · rcases a with ⟨u, hu, e⟩ | a
        · exact Or.inr (Or.inr (Or.inl (List.mem_append_left _ (List.mem_map.2 ⟨u, hu, e⟩))))
        · exact Or.inr (Or.inr (Or.inr (Or.inr a)))
    · intro _; rfl
  | setStop => exact h.of_eq rfl rfl rfl rfl rfl rfl rfl
  | notifyAll =>
    refine h.weaken rfl rfl rfl rfl rfl rfl (fun i t hi => ?_)
    simp only [Tbox.C05.step]
    by_cases hw' : s.pc i = .waiting
    · rw [hw'] at hi; cases hi
    · simpa [hw'] using hi
  | notifyOne ow =>
    cases ow with
    | none => exact h.of_eq rfl rfl rfl rfl rfl rfl rfl
    | some w =>
      simp only [valid, Bool.and_eq_true, decide_eq_true_eq, beq_iff_eq] at hv
      refine AcctInv.setPc_idle ?_ w _ (by rw [hv.2]; rfl)
      exact h.of_eq rfl rfl rfl rfl rfl rfl rfl
  | join w => exact h.of_eq rfl rfl rfl rfl rfl rfl rfl
  | cleanupRet => exact h.of_eq rfl rfl rfl rfl rfl rfl rfl
  | loopRun =>
    simp only [Tbox.C05.step]
    split
    · exact h
    · exact h.of_eq rfl rfl rfl rfl rfl rfl rfl
    · split <;> exact h.of_eq rfl rfl rfl rfl rfl rfl rfl
    · exact h.of_eq rfl rfl rfl rfl rfl rfl rfl
  | enter w =>
    simp only [valid, Bool.and_eq_true, Bool.not_eq_true', decide_eq_true_eq, beq_iff_eq] at hv
    have hpw : (s.pc w).pre? = none := by rw [hv.2]; rfl
    simp only [Tbox.C05.step]
    split
    · split
      · refine AcctInv.setPc_idle ?_ w _ hpw
        exact h.of_eq rfl rfl rfl rfl rfl rfl rfl
      · exact h.setPc_idle w _ hpw
    · exact (h.of_eq (s' := { s with idle := s.idle + 1 }) rfl rfl rfl rfl rfl rfl rfl).afterPred w hpw
  | block w =>
    simp only [valid, Bool.and_eq_true, decide_eq_true_eq, beq_iff_eq] at hv
    exact (h.of_eq (s' := { s with lock := false }) rfl rfl rfl rfl rfl rfl rfl).setPc_idle w _ (by rw [hv.2]; rfl)
  | wake w =>
    simp only [valid, Bool.and_eq_true, decide_eq_true_eq, beq_iff_eq] at hv
    exact h.setPc_idle w _ (by rw [hv.2]; rfl)
  | reenter w =>
    simp only [valid, Bool.and_eq_true, Bool.not_eq_true', decide_eq_true_eq, beq_iff_eq] at hv
    exact h.afterPred w (by rw [hv.2]; rfl)
  | markDoing w =>
    simp only [Tbox.C05.step]
    split
    · rename_i t hp
      refine AcctInv.weaken (s := s) h rfl rfl rfl rfl rfl rfl (fun i u hi => ?_)
      simp only [setPc_pc]; by_cases e : i = w
      · rw [e, hp] at hi; simpa [e, PC.pre?] using hi
      · simpa [e] using hi
    · exact h
  | runBody w =>
    simp only [Tbox.C05.step]
    split
    · rename_i t hp
      constructor
      · intro j hj
        rcases h.cover j hj with a | a | a | a
        · exact Or.inl (by simp only [State.ranIds, setPc_ran, List.map_cons]; exact List.mem_cons_of_mem _ a)
        · exact Or.inr (Or.inl a)
        · exact Or.inr (Or.inr (Or.inl a))
        · rcases a with a | ⟨i, u, hi, e⟩
          · exact Or.inr (Or.inr (Or.inr (Or.inl a)))
          · by_cases e' : i = w
            · rw [e', hp] at hi; simp only [PC.pre?, Option.some.injEq] at hi
              subst hi
              exact Or.inl (by simp [State.ranIds, e])
            · exact Or.inr (Or.inr (Or.inr (Or.inr ⟨i, u, by simpa [e'] using hi, e⟩)))
      · exact h.noUndo
    · exact h
  | postCb w =>
    simp only [Tbox.C05.step]
    split
    · rename_i t hp
      refine AcctInv.setPc_idle ?_ w _ (by split <;> (rw [hp]; rfl))
      split
      · exact h.of_eq rfl rfl rfl rfl rfl rfl rfl
      · exact h
    · exact h
  | finish w =>
    simp only [Tbox.C05.step]
    split
    · rename_i t hp
      refine AcctInv.setPc_idle ?_ w _ (by rw [hp]; rfl)
      exact h.of_eq rfl rfl rfl rfl rfl rfl rfl
    · exact h
  | selfRemove w =>
    simp only [valid, Bool.and_eq_true, decide_eq_true_eq] at hv
    have hpw : (s.pc w).pre? = none := by
      cases hp : s.pc w <;> simp_all [PC.pre?]
    simp only [Tbox.C05.step]
    split
    · refine AcctInv.setPc_idle ?_ w _ hpw
      exact h.of_eq rfl rfl rfl rfl rfl rfl rfl
    · split
      · refine AcctInv.setPc_idle ?_ w _ hpw
        exact h.of_eq rfl rfl rfl rfl rfl rfl rfl
      · split
        · exact h.setPc_idle w _ hpw
        · refine AcctInv.setPc_idle ?_ w _ hpw
          exact h.of_eq rfl rfl rfl rfl rfl rfl rfl
  | threadEnd w =>
    simp only [valid, Bool.and_eq_true, decide_eq_true_eq, beq_iff_eq] at hv
    exact h.setPc_idle w _ (by rw [hv.2]; rfl)

theorem AcctInv.init (c : Cfg) : AcctInv (init c) :=
  ⟨fun id hid => by simp [Tbox.C05.init] at hid, fun hp => by simp [Tbox.C05.init] at hp⟩

/-! ### worker threads -/

structure JoinInv (s : State) : Prop where
  fixD     : s.cfg.fixD = true
  cover    : ∀ w, w < s.nW → w ∈ s.cab ∨ w ∈ s.vec ∨ w ∈ s.exiting ∨ w ∈ s.joined
  joinedEx : ∀ w ∈ s.joined, s.pc w = .exited ∧ w < s.nW
  exitBound : ∀ w ∈ s.exiting, w < s.nW
  donePhase : s.done = true → s.phase1 = true
  doneAll  : s.done = true → ∀ w, w < s.nW → w ∈ s.joined

theorem JoinInv.weaken {s s' : State} (h : JoinInv s) (h0 : s'.cfg = s.cfg) (h1 : s'.cab = s.cab) (h2 : s'.vec = s.vec)
    (h3 : s'.exiting = s.exiting) (h4 : s'.joined = s.joined) (h5 : s'.nW = s.nW) (h6 : s'.done = s.done)
    (h7 : s'.phase1 = s.phase1) (hpc : ∀ i ∈ s.joined, s'.pc i = s.pc i) : JoinInv s' := by
  constructor
  · rw [h0]; exact h.fixD
  · rw [h1, h2, h3, h4, h5]; exact h.cover
  · rw [h4, h5]; intro w hw; rw [hpc w hw]; exact h.joinedEx w hw
  · rw [h3, h5]; exact h.exitBound
  · rw [h6, h7]; exact h.donePhase
  · rw [h4, h5, h6]; exact h.doneAll

theorem JoinInv.of_eq {s s' : State} (h : JoinInv s) (h0 : s'.cfg = s.cfg) (h1 : s'.cab = s.cab) (h2 : s'.vec = s.vec)
    (h3 : s'.exiting = s.exiting) (h4 : s'.joined = s.joined) (h5 : s'.nW = s.nW) (h6 : s'.done = s.done)
    (h8 : s'.phase1 = s.phase1) (h7 : s'.pc = s.pc) : JoinInv s' :=
  h.weaken h0 h1 h2 h3 h4 h5 h6 h8 (fun i _ => by rw [h7])

/-- a step of worker `w` whose thread function has not returned -/
theorem JoinInv.setPc_alive {s : State} (h : JoinInv s) (w : Nat) (p : PC) (hw : s.pc w ≠ .exited) :
    JoinInv (setPc s w p) :=
  h.weaken rfl rfl rfl rfl rfl rfl rfl rfl (fun i hi => by
    simp only [setPc_pc]; by_cases e : i = w
    · exact absurd (e ▸ (h.joinedEx i hi).1) hw
    · simp [e])

theorem JoinInv.afterPred {s : State} (h : JoinInv s) (w : Nat) (hw : s.pc w ≠ .exited) : JoinInv (afterPred s w) := by
  unfold Tbox.C05.afterPred
  split
  · split
    · exact (h.of_eq (s' := { s with idle := s.idle - 1 }) rfl rfl rfl rfl rfl rfl rfl rfl rfl).setPc_alive w _ hw
    · split
      · exact (h.of_eq (s' := { s with idle := s.idle - 1 }) rfl rfl rfl rfl rfl rfl rfl rfl rfl).setPc_alive w _ hw
      · split
        · refine JoinInv.setPc_alive ?_ w _ hw
          exact h.of_eq rfl rfl rfl rfl rfl rfl rfl rfl rfl
        · refine JoinInv.setPc_alive ?_ w _ hw
          exact h.of_eq rfl rfl rfl rfl rfl rfl rfl rfl rfl
  · exact (h.of_eq (s' := { s with lock := true }) rfl rfl rfl rfl rfl rfl rfl rfl rfl).setPc_alive w _ hw

/-- worker `w` moves from the cabinet to the self-exited list -/
theorem JoinInv.leave {s : State} (h : JoinInv s) (w : Nat) (p : PC) (hw : s.pc w ≠ .exited) (hlt : w < s.nW)
    {lq : List LoopItem} :
    JoinInv (setPc { s with cab := s.cab.filter (· != w), loopQ := lq,
                            exiting := if s.cfg.fixD then s.exiting ++ [w] else s.exiting } w p) := by
  constructor
  · exact h.fixD
  · intro i hi
    simp only [setPc_cab, setPc_vec, setPc_exiting, setPc_joined, h.fixD, ↓reduceIte]
    by_cases e : i = w
    · right; right; left; simp [e]
    · rcases h.cover i hi with a | a | a | a
      · left; simp [a, e]
      · right; left; exact a
      · right; right; left; simp [a]
      · right; right; right; exact a
  · intro i hi
    simp only [setPc_pc]
    by_cases e : i = w
    · exact absurd (e ▸ (h.joinedEx i hi).1) hw
    · simpa [e] using h.joinedEx i hi
  · intro i hi
    simp only [setPc_exiting, setPc_nW, h.fixD, ↓reduceIte, List.mem_append, List.mem_singleton] at hi ⊢
    rcases hi with a | rfl
    · exact h.exitBound i a
    · exact hlt
  · exact h.donePhase
  · exact h.doneAll

theorem mem_of_nextJoin_none {l j : List Nat} (h : (l.filter (fun w => !j.contains w)).head? = none) :
    ∀ w ∈ l, w ∈ j := by
  intro w hw
  have hnil : l.filter (fun w => !j.contains w) = [] := List.head?_eq_none_iff.1 h
  have := List.filter_eq_nil_iff.1 hnil w hw
  simpa using this

theorem JoinInv.step {s : State} (h : JoinInv s) (hw : WorkerInv s) (hl : LockInv s) (st : Step)
    (hv : valid s st = true) : JoinInv (step s st) := by
  cases st with
  | execute prio cb =>
    simp only [Tbox.C05.step]
    split
    · exact h
    · rename_i hd
      split
      · split
        · constructor
          · exact h.fixD
          · intro i hi
            simp only [setPc_nW] at hi
            simp only [setPc_cab, setPc_vec, setPc_exiting, setPc_joined]
            by_cases e : i = s.nW
            · left; simp [e]
            · rcases h.cover i (by omega) with a | a | a | a
              · left; simp [a]
              · right; left; exact a
              · right; right; left; exact a
              · right; right; right; exact a
          · intro i hi
            have := h.joinedEx i hi
            simp only [setPc_pc, setPc_nW]
            have hne : i ≠ s.nW := by omega
            simp only [hne, ↓reduceIte]
            exact ⟨this.1, by omega⟩
          · intro i hi; exact Nat.lt_succ_of_lt (h.exitBound i hi)
          · intro hd'; simp only [setPc_done] at hd'; exact absurd hd' hd
          · intro hd'; simp only [setPc_done] at hd'; exact absurd hd' hd
        · exact h.of_eq rfl rfl rfl rfl rfl rfl rfl rfl rfl
      · exact h.of_eq rfl rfl rfl rfl rfl rfl rfl rfl rfl
  | executeF prio cb =>
    simp only [Tbox.C05.step]
    split
    · exact h
    · exact h.of_eq rfl rfl rfl rfl rfl rfl rfl rfl rfl
  | cancel id =>
    simp only [Tbox.C05.step]
    split
    · exact h.of_eq rfl rfl rfl rfl rfl rfl rfl rfl rfl
    · split
      · exact h
      · exact h.of_eq rfl rfl rfl rfl rfl rfl rfl rfl rfl
    · exact h
  | status id =>
    simp only [Tbox.C05.step]
    split
    · split
      · exact h
      · exact h.of_eq rfl rfl rfl rfl rfl rfl rfl rfl rfl
    · exact h
  | snapshot => exact h
  | cleanup1 =>
    simp only [valid, Bool.and_eq_true, Bool.not_eq_true'] at hv
    have hvec := hw.ph0 hv.1.2
    constructor
    · exact h.fixD
    · intro i hi
      rcases h.cover i hi with a | a | a | a
      · right; left; exact a
      · rw [hvec] at a; cases a
      · right; right; left; exact a
      · right; right; right; exact a
    · exact h.joinedEx
    · exact h.exitBound
    · intro _; rfl
    · exact h.doneAll
  | setStop => exact h.of_eq rfl rfl rfl rfl rfl rfl rfl rfl rfl
  | notifyAll =>
    refine h.weaken rfl rfl rfl rfl rfl rfl rfl rfl (fun i hi => ?_)
    simp only [Tbox.C05.step]
    have := (h.joinedEx i hi).1
    simp [this]
  | notifyOne ow =>
    cases ow with
    | none => exact h.of_eq rfl rfl rfl rfl rfl rfl rfl rfl rfl
    | some w =>
      simp only [valid, Bool.and_eq_true, decide_eq_true_eq, beq_iff_eq] at hv
      refine JoinInv.setPc_alive ?_ w _ (by rw [hv.2]; simp)
      exact h.of_eq rfl rfl rfl rfl rfl rfl rfl rfl rfl
  | join w =>
    simp only [valid, Bool.and_eq_true, Bool.not_eq_true', beq_iff_eq] at hv
    have hlt : w < s.nW := by
      have hm : w ∈ (s.vec ++ if s.cfg.fixD then s.exiting else []) := by
        have := List.mem_of_mem_head? hv.1.2
        exact (List.mem_filter.1 this).1
      rcases List.mem_append.1 hm with a | a
      · exact hw.bound w (Or.inr a)
      · rw [h.fixD] at a; exact h.exitBound w a
    constructor
    · exact h.fixD
    · intro i hi
      by_cases e : i = w
      · right; right; right; simp [Tbox.C05.step, e]
      · rcases h.cover i hi with a | a | a | a
        · left; exact a
        · right; left; exact a
        · right; right; left; simp [Tbox.C05.step, a, e]
        · right; right; right; simp [Tbox.C05.step, a]
    · intro i hi
      simp only [Tbox.C05.step, List.mem_cons] at hi
      rcases hi with rfl | hi
      · exact ⟨hv.2, hlt⟩
      · exact h.joinedEx i hi
    · intro i hi
      simp only [Tbox.C05.step, List.mem_filter] at hi
      exact h.exitBound i hi.1
    · exact h.donePhase
    · intro hd i hi
      simp only [Tbox.C05.step] at hd
      exact List.mem_cons_of_mem _ (h.doneAll hd i hi)
  | cleanupRet =>
    simp only [valid, Bool.and_eq_true, Bool.not_eq_true', Option.isNone_iff_eq_none] at hv
    have hph : s.phase1 = true := hl.stopPhase (hl.notif hv.1.1).1
    have hcab := hw.ph1 hph
    have hall := mem_of_nextJoin_none hv.2
    constructor
    · exact h.fixD
    · exact h.cover
    · exact h.joinedEx
    · exact h.exitBound
    · intro _; exact hph
    · intro _ i hi
      rcases h.cover i hi with a | a | a | a
      · rw [hcab] at a; cases a
      · exact hall i (List.mem_append_left _ a)
      · exact hall i (List.mem_append_right _ (by rw [h.fixD]; exact a))
      · exact a
  | loopRun =>
    simp only [valid, Bool.and_eq_true, Bool.not_eq_true'] at hv
    simp only [Tbox.C05.step]
    split
    · exact h
    · exact h.of_eq rfl rfl rfl rfl rfl rfl rfl rfl rfl
    · rename_i w q hq
      split
      · exact h.of_eq rfl rfl rfl rfl rfl rfl rfl rfl rfl
      · rename_i hc
        rw [hq] at hv
        simp only [h.fixD, Bool.true_and, Bool.or_eq_true, Bool.not_eq_true', beq_iff_eq] at hv hc
        have hex : s.pc w = .exited := by
          rcases hv.2 with a | a
          · exact absurd a hc
          · exact a
        have hin : w ∈ s.exiting := by
          cases hcc : s.exiting.contains w
          · exact absurd hcc hc
          · simpa using hcc
        constructor
        · exact h.fixD
        · intro i hi
          by_cases e : i = w
          · right; right; right; simp [e]
          · rcases h.cover i hi with a | a | a | a
            · left; exact a
            · right; left; exact a
            · right; right; left; simp [a, e]
            · right; right; right; simp [a]
        · intro i hi
          simp only [List.mem_cons] at hi
          rcases hi with rfl | hi
          · exact ⟨hex, h.exitBound i hin⟩
          · exact h.joinedEx i hi
        · intro i hi
          simp only [List.mem_filter] at hi
          exact h.exitBound i hi.1
        · exact h.donePhase
        · intro hd i hi; exact List.mem_cons_of_mem _ (h.doneAll hd i hi)
    · exact h.of_eq rfl rfl rfl rfl rfl rfl rfl rfl rfl
  | enter w =>
    simp only [valid, Bool.and_eq_true, Bool.not_eq_true', decide_eq_true_eq, beq_iff_eq] at hv
    have hne : s.pc w ≠ .exited := by rw [hv.2]; simp
    simp only [Tbox.C05.step]
    split
    · split
      · exact h.leave w _ hne hv.1.1 (lq := s.loopQ)
      · exact h.setPc_alive w _ hne
    · exact (h.of_eq (s' := { s with idle := s.idle + 1 }) rfl rfl rfl rfl rfl rfl rfl rfl rfl).afterPred w hne
  | block w =>
    simp only [valid, Bool.and_eq_true, decide_eq_true_eq, beq_iff_eq] at hv
    exact (h.of_eq (s' := { s with lock := false }) rfl rfl rfl rfl rfl rfl rfl rfl rfl).setPc_alive w _ (by rw [hv.2]; simp)
  | wake w =>
    simp only [valid, Bool.and_eq_true, decide_eq_true_eq, beq_iff_eq] at hv
    exact h.setPc_alive w _ (by rw [hv.2]; simp)
  | reenter w =>
    simp only [valid, Bool.and_eq_true, Bool.not_eq_true', decide_eq_true_eq, beq_iff_eq] at hv
    exact h.afterPred w (by rw [hv.2]; simp)
  | markDoing w =>
    simp only [Tbox.C05.step]
    split
    · rename_i t hp
      refine JoinInv.setPc_alive ?_ w _ (by rw [hp]; simp)
      exact h.of_eq rfl rfl rfl rfl rfl rfl rfl rfl rfl
    · exact h
  | runBody w =>
    simp only [Tbox.C05.step]
    split
    · rename_i t hp
      refine JoinInv.setPc_alive ?_ w _ (by rw [hp]; simp)
      exact h.of_eq rfl rfl rfl rfl rfl rfl rfl rfl rfl
    · exact h
  | postCb w =>
    simp only [Tbox.C05.step]
    split
    · rename_i t hp
      refine JoinInv.setPc_alive ?_ w _ (by split <;> (rw [hp]; simp))
      split
      · exact h.of_eq rfl rfl rfl rfl rfl rfl rfl rfl rfl
      · exact h
    · exact h
  | finish w =>
    simp only [Tbox.C05.step]
    split
    · rename_i t hp
      refine JoinInv.setPc_alive ?_ w _ (by rw [hp]; simp)
      exact h.of_eq rfl rfl rfl rfl rfl rfl rfl rfl rfl
    · exact h
  | selfRemove w =>
    simp only [valid, Bool.and_eq_true, decide_eq_true_eq] at hv
    have hne : s.pc w ≠ .exited := by
      intro e; rw [e] at hv; simp at hv
    simp only [Tbox.C05.step]
    split
    · refine JoinInv.setPc_alive ?_ w _ hne
      exact h.of_eq rfl rfl rfl rfl rfl rfl rfl rfl rfl
    · split
      · exact h.leave w _ hne hv.1
      · split
        · exact h.setPc_alive w _ hne
        · refine JoinInv.setPc_alive ?_ w _ hne
          exact h.of_eq rfl rfl rfl rfl rfl rfl rfl rfl rfl
  | threadEnd w =>
    simp only [valid, Bool.and_eq_true, decide_eq_true_eq, beq_iff_eq] at hv
    exact h.setPc_alive w _ (by rw [hv.2]; simp)

end Tbox.C05
