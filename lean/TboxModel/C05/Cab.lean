/-
C05 — THE QUEUE LAYER AS THE CODE HAS IT: token deques + waiting cabinet + running set, updated separately.

Model.lean keeps one list `undo` for the waiting tasks.  The code keeps THREE structures that have to move in
lock-step under the pool mutex (thread_pool.cpp / work_thread.cpp):

  undo_tasks_token[0..4]   five `std::deque<TaskToken>` (WorkThread: one) — the ORDER of the waiting tasks
  undo_tasks_cabinet       `cabinet::Cabinet<Task>` — token ↦ Task*, used by getTaskStatus() (`at`) and, through
                           `size()`, by the spawn test of execute() and the exit test of threadProc()
  doing_tasks_token        `std::set<TaskToken>` — the tasks being executed

and every removal has the shape `task_pool.free(undo_tasks_cabinet.free(token))` (thread_pool.cpp: execute() withdraw,
cancel(), cleanup(); popOneTask() returns `undo_tasks_cabinet.free(token)`; work_thread.cpp likewise).  That is safe
only while every token in a deque resolves in the cabinet: `Cabinet::free` answers nullptr for a token it does not
hold, `ObjectPool::free(nullptr)` is `TBOX_ASSERT(p != nullptr); p->~T()` — an abort or a null dereference —, and
popOneTask() handing nullptr to threadProc() means the task is silently gone.  cancel() looks the token up in the
DEQUES, getTaskStatus() in the CABINET: the two agree only under the same invariant.

This file transcribes those statements on token ids.  The cabinet is used through its contract, which is what C08
proves about cabinet.hpp (`C08_cab_*`: a finite map keyed by ids that are never reissued; a token resolves iff its
cell holds its id): here `cab` is the list of ids in occupied cells, `last` is `last_id_`.  A token is its id; 0 is the
null token (`Token::isNull`); a well-formed token whose position does not match its id resolves nowhere, exactly like an
id that is not in `cab`.  `nullFree` records that `ObjectPool::free(nullptr)` was reached, `lost` that popOneTask()
returned nullptr for a token it had popped.
-/
import TboxModel.C05.Model
namespace Tbox.C05.Cab
open Tbox.C05

abbrev Tok := Nat

structure Q where
  deq      : Nat → List Tok := fun _ => []   -- undo_tasks_token.at(l), l < 5 (WorkThread: only level 2 is used)
  cab      : List Tok := []                  -- ids of the occupied cells of undo_tasks_cabinet
  last     : Tok := 0                        -- Cabinet::last_id_
  doing    : List Tok := []                  -- doing_tasks_token
  nullFree : Bool := false                   -- ObjectPool::free(nullptr) reached
  lost     : Bool := false                   -- popOneTask() popped a token that did not resolve

/-- `Cabinet::at(token) != nullptr` -/
def cabAt (cab : List Tok) (tok : Tok) : Bool := tok != 0 && cab.contains tok

/-- `Cabinet::free(token)`: (resolved?, cabinet afterwards) -/
def cabFree (cab : List Tok) (tok : Tok) : Bool × List Tok :=
  if tok != 0 && cab.contains tok then (true, cab.erase tok) else (false, cab)

/-- execute(), inside the lock: `token = undo_tasks_cabinet.alloc(item); undo_tasks_token.at(level).push_back(token)` -/
def execute (q : Q) (lvl : Nat) : Q × Tok :=
  let tok := q.last + 1
  ({ q with last := tok, cab := tok :: q.cab, deq := fun l => if l = lvl then q.deq l ++ [tok] else q.deq l }, tok)

/-- execute() when no worker exists and none could be created (fix C05-06):
`undo_tasks_token.at(level).pop_back(); task_pool.free(undo_tasks_cabinet.free(token))` -/
def withdraw (q : Q) (lvl : Nat) (tok : Tok) : Q :=
  let r := cabFree q.cab tok
  { q with deq := fun l => if l = lvl then (q.deq l).dropLast else q.deq l, cab := r.2, nullFree := q.nullFree || !r.1 }

/-- the level loop of cancel(): first level i, i+1, … (n of them) whose deque is non-empty and contains the token -/
def findLevel (q : Q) (tok : Tok) (i : Nat) : Nat → Option Nat
  | 0 => none
  | n + 1 => if (q.deq i).contains tok then some i else findLevel q tok (i + 1) n

/-- cancel(token): 2 executing, 0 cancelled (`erase(iter); task_pool.free(undo_tasks_cabinet.free(token))`), 1 not found -/
def cancel (q : Q) (tok : Tok) : Q × Nat :=
  if q.doing.contains tok then (q, 2) else
  match findLevel q tok 0 nPrio with
  | some i =>
    let r := cabFree q.cab tok
    ({ q with deq := fun l => if l = i then (q.deq l).erase tok else q.deq l, cab := r.2, nullFree := q.nullFree || !r.1 }, 0)
  | none => (q, 1)

/-- the level loop of popOneTask(): first non-empty level -/
def firstNonEmpty (q : Q) (i : Nat) : Nat → Option Nat
  | 0 => none
  | n + 1 => if (q.deq i).isEmpty then firstNonEmpty q (i + 1) n else some i

/-- popOneTask() followed by `if (item != nullptr) doing_tasks_token.insert(item->token)` (one critical section) -/
def pop (q : Q) : Q × Option Tok :=
  match firstNonEmpty q 0 nPrio with
  | none => (q, none)
  | some i =>
    match q.deq i with
    | [] => (q, none)
    | tok :: rest =>
      let r := cabFree q.cab tok
      let q1 := { q with deq := fun l => if l = i then rest else q.deq l, cab := r.2 }
      if r.1 then ({ q1 with doing := tok :: q1.doing }, some tok) else ({ q1 with lost := true }, none)

/-- threadProc() after the body: `doing_tasks_token.erase(item->token)` -/
def finish (q : Q) (tok : Tok) : Q := { q with doing := q.doing.erase tok }

/-- one `while (!tasks_token.empty()) { token = front(); task_pool.free(undo_tasks_cabinet.free(token)); pop_front(); }` -/
def drain (acc : List Tok × Bool) (d : List Tok) : List Tok × Bool :=
  d.foldl (fun a tok => let r := cabFree a.1 tok; (r.2, a.2 || !r.1)) acc

/-- cleanup(), the critical section: every deque is drained -/
def cleanup (q : Q) : Q :=
  let r := (List.range nPrio).foldl (fun a l => drain a (q.deq l)) (q.cab, q.nullFree)
  { q with deq := fun _ => [], cab := r.1, nullFree := r.2 }

/-- getTaskStatus(token): the CABINET is asked for "waiting", the running set for "executing" -/
def status (q : Q) (tok : Tok) : Status :=
  if cabAt q.cab tok then .waiting else if q.doing.contains tok then .executing else .notFound

/-- what the abstract model (`inUndo`) and cancel() use instead: the DEQUES -/
def inDeques (q : Q) (tok : Tok) : Bool := (List.range nPrio).any (fun l => (q.deq l).contains tok)

/-- `undo_tasks_cabinet.size()` as execute() / threadProc() read it -/
def cabSize (q : Q) : Nat := q.cab.length

def deqTotal (q : Q) : Nat := ((List.range nPrio).map (fun l => (q.deq l).length)).sum

inductive Op where
  | execute (lvl : Nat)            -- lvl < 5 (the clamp, `C05_prio_width`)
  | executeWithdrawn (lvl : Nat)   -- execute() whose task is withdrawn again in the same critical section
  | cancel (tok : Tok)             -- ANY token: live, stale, null, forged, from another pool
  | status (tok : Tok)
  | pop
  | finish (tok : Tok)             -- only tokens a worker holds are erased by the code; any token is harmless
  | cleanup
deriving Repr, DecidableEq

def step (q : Q) : Op → Q
  | .execute lvl => if lvl < nPrio then (execute q lvl).1 else q
  | .executeWithdrawn lvl => if lvl < nPrio then (let r := execute q lvl; withdraw r.1 lvl r.2) else q
  | .cancel tok => (cancel q tok).1
  | .status _ => q
  | .pop => (pop q).1
  | .finish tok => finish q tok
  | .cleanup => cleanup q

def run (q : Q) : List Op → Q
  | [] => q
  | o :: os => run (step q o) os

end Tbox.C05.Cab
