/-
C05 — proofs for Cab.lean: the token deques, the waiting cabinet and the running set move in lock-step.
-/
import TboxModel.C05.Cab
namespace Tbox.C05.Cab
open Tbox.C05

/-! ## basic facts -/

theorem nPrio_eq : nPrio = 5 := rfl

/-- linear arithmetic on token ids (`Tok` is `Nat`) and levels (`nPrio` is 5) -/
macro "tomega" : tactic =>
  `(tactic| (have hnp := nPrio_eq; (try simp only [Tok] at *); omega))

theorem lt5 {l : Nat} (h : l < nPrio) : l = 0 ∨ l = 1 ∨ l = 2 ∨ l = 3 ∨ l = 4 := by
  have := nPrio_eq; tomega

theorem deqTotal_eq (q : Q) :
    deqTotal q = (q.deq 0).length + (q.deq 1).length + (q.deq 2).length + (q.deq 3).length + (q.deq 4).length := by
  simp [deqTotal, nPrio, List.range_succ]
  tomega

theorem cabAt_iff (cab : List Tok) (tok : Tok) : cabAt cab tok = true ↔ tok ≠ 0 ∧ tok ∈ cab := by
  simp [cabAt]

theorem cabFree_hit {cab : List Tok} {tok : Tok} (h0 : tok ≠ 0) (hm : tok ∈ cab) :
    cabFree cab tok = (true, cab.erase tok) := by
  simp [cabFree, h0, hm]

theorem cabFree_miss {cab : List Tok} {tok : Tok} (h : tok = 0 ∨ tok ∉ cab) :
    cabFree cab tok = (false, cab) := by
  rcases h with h | h <;> simp [cabFree, h]

theorem inDeques_iff (q : Q) (tok : Tok) : inDeques q tok = true ↔ ∃ l, l < nPrio ∧ tok ∈ q.deq l := by
  simp [inDeques]

theorem inDeques_false_iff (q : Q) (tok : Tok) : inDeques q tok = false ↔ ∀ l, l < nPrio → tok ∉ q.deq l := by
  rw [← Bool.not_eq_true, inDeques_iff]
  constructor
  · intro h l hl hm; exact h ⟨l, hl, hm⟩
  · rintro h ⟨l, hl, hm⟩; exact h l hl hm

theorem deqTotal_update (q q' : Q) (i : Nat) (hi : i < nPrio) (d : List Tok)
    (hq : q'.deq = fun l => if l = i then d else q.deq l) :
    deqTotal q' + (q.deq i).length = deqTotal q + d.length := by
  rw [deqTotal_eq, deqTotal_eq, hq]
  rcases lt5 hi with rfl | rfl | rfl | rfl | rfl <;> simp <;> tomega

/-! ## the level loops -/

theorem findLevel_some {q : Q} {tok : Tok} {n : Nat} :
    ∀ {i j : Nat}, findLevel q tok i n = some j → i ≤ j ∧ j < i + n ∧ tok ∈ q.deq j := by
  induction n with
  | zero => intro i j h; simp [findLevel] at h
  | succ n ih =>
    intro i j h
    simp only [findLevel] at h
    split at h
    · rename_i hc
      have hij : i = j := by simpa using h
      subst hij
      exact ⟨Nat.le_refl _, by tomega, by simpa using hc⟩
    · have := ih h
      exact ⟨by tomega, by tomega, this.2.2⟩

theorem findLevel_none {q : Q} {tok : Tok} {n : Nat} :
    ∀ {i : Nat}, findLevel q tok i n = none → ∀ j, i ≤ j → j < i + n → tok ∉ q.deq j := by
  induction n with
  | zero => intro i _ j h1 h2; tomega
  | succ n ih =>
    intro i h j h1 h2
    simp only [findLevel] at h
    split at h
    · simp at h
    · rename_i hc
      by_cases hij : j = i
      · subst hij; simpa using hc
      · exact ih h j (by tomega) (by tomega)

theorem firstNonEmpty_some {q : Q} {n : Nat} :
    ∀ {i j : Nat}, firstNonEmpty q i n = some j →
      i ≤ j ∧ j < i + n ∧ q.deq j ≠ [] ∧ ∀ k, i ≤ k → k < j → q.deq k = [] := by
  induction n with
  | zero => intro i j h; simp [firstNonEmpty] at h
  | succ n ih =>
    intro i j h
    simp only [firstNonEmpty] at h
    split at h
    · rename_i hc
      have := ih h
      refine ⟨by tomega, by tomega, this.2.2.1, ?_⟩
      intro k hk1 hk2
      by_cases hki : k = i
      · subst hki; simpa using hc
      · exact this.2.2.2 k (by tomega) hk2
    · rename_i hc
      have hij : i = j := by simpa using h
      subst hij
      refine ⟨Nat.le_refl _, by tomega, by simpa using hc, ?_⟩
      intro k hk1 hk2; tomega

theorem firstNonEmpty_none {q : Q} {n : Nat} :
    ∀ {i : Nat}, firstNonEmpty q i n = none → ∀ j, i ≤ j → j < i + n → q.deq j = [] := by
  induction n with
  | zero => intro i _ j h1 h2; tomega
  | succ n ih =>
    intro i h j h1 h2
    simp only [firstNonEmpty] at h
    split at h
    · rename_i hc
      by_cases hij : j = i
      · subst hij; simpa using hc
      · exact ih h j (by tomega) (by tomega)
    · simp at h

/-! ## the lock-step invariant -/

/-- the lock-step invariant -/
structure QInv (q : Q) : Prop where
  nodup   : ∀ l, (q.deq l).Nodup
  disj    : ∀ l l' tok, tok ∈ q.deq l → tok ∈ q.deq l' → l = l'
  resolve : ∀ l tok, tok ∈ q.deq l → l < nPrio ∧ tok ∈ q.cab
  owned   : ∀ tok ∈ q.cab, ∃ l, l < nPrio ∧ tok ∈ q.deq l
  cabNodup : q.cab.Nodup
  cabRange : ∀ tok ∈ q.cab, 0 < tok ∧ tok ≤ q.last
  doingOut : ∀ tok ∈ q.doing, 0 < tok ∧ tok ≤ q.last ∧ tok ∉ q.cab
  doingNodup : q.doing.Nodup
  size    : cabSize q = deqTotal q
  safe    : q.nullFree = false ∧ q.lost = false

theorem QInv.size_unfolded {q : Q} (h : QInv q) :
    q.cab.length = (q.deq 0).length + (q.deq 1).length + (q.deq 2).length + (q.deq 3).length + (q.deq 4).length := by
  have := h.size
  rwa [deqTotal_eq] at this

theorem QInv.init : QInv ({} : Q) := by
  constructor <;> simp [cabSize, deqTotal, nPrio, List.range_succ]

/-- the state may change only in `last` (growing) and the two flags (staying clear) -/
theorem QInv.frame {q q' : Q} (h : QInv q) (hdeq : q'.deq = q.deq) (hcab : q'.cab = q.cab)
    (hdoing : q'.doing = q.doing) (hlast : q.last ≤ q'.last) (hnf : q'.nullFree = false)
    (hlost : q'.lost = false) : QInv q' := by
  constructor
  · rw [hdeq]; exact h.nodup
  · rw [hdeq]; exact h.disj
  · rw [hdeq, hcab]; exact h.resolve
  · rw [hdeq, hcab]; exact h.owned
  · rw [hcab]; exact h.cabNodup
  · rw [hcab]; intro tok hm; have := h.cabRange tok hm; tomega
  · rw [hcab, hdoing]; intro tok hm; have := h.doingOut tok hm; exact ⟨this.1, by tomega, this.2.2⟩
  · rw [hdoing]; exact h.doingNodup
  · have := h.size; simp only [cabSize, deqTotal, hdeq, hcab] at *; exact this
  · exact ⟨hnf, hlost⟩

/-- removal of a waiting token from its level and from the cabinet (cancel(), popOneTask()) -/
theorem QInv.remove {q q' : Q} (h : QInv q) {i : Nat} {tok : Tok} (hm : tok ∈ q.deq i)
    (hdeq : q'.deq = fun l => if l = i then (q.deq l).erase tok else q.deq l)
    (hcab : q'.cab = q.cab.erase tok) (hlast : q'.last = q.last)
    (hdoing : q'.doing = q.doing ∨ q'.doing = tok :: q.doing)
    (hnf : q'.nullFree = false) (hlost : q'.lost = false) : QInv q' := by
  have hi : i < nPrio := (h.resolve i tok hm).1
  have hc : tok ∈ q.cab := (h.resolve i tok hm).2
  have hmem : ∀ l x, x ∈ q'.deq l ↔ x ∈ q.deq l ∧ x ≠ tok := by
    intro l x
    rw [hdeq]
    by_cases hli : l = i
    · subst hli
      simp only [if_true]
      rw [(h.nodup l).mem_erase_iff]
      exact ⟨fun ⟨a, b⟩ => ⟨b, a⟩, fun ⟨a, b⟩ => ⟨b, a⟩⟩
    · simp only [if_neg hli]
      constructor
      · intro hx
        refine ⟨hx, ?_⟩
        intro hxt; subst hxt
        exact hli (h.disj _ _ _ hx hm)
      · exact fun hx => hx.1
  have hcmem : ∀ x, x ∈ q'.cab ↔ x ∈ q.cab ∧ x ≠ tok := by
    intro x
    rw [hcab, h.cabNodup.mem_erase_iff]
    exact ⟨fun ⟨a, b⟩ => ⟨b, a⟩, fun ⟨a, b⟩ => ⟨b, a⟩⟩
  constructor
  · intro l
    rw [hdeq]
    by_cases hli : l = i
    · simp only [if_pos hli]; exact (h.nodup l).erase tok
    · simp only [if_neg hli]; exact h.nodup l
  · intro l l' x hx hx'
    exact h.disj l l' x ((hmem l x).1 hx).1 ((hmem l' x).1 hx').1
  · intro l x hx
    have hx' := (hmem l x).1 hx
    have := h.resolve l x hx'.1
    exact ⟨this.1, (hcmem x).2 ⟨this.2, hx'.2⟩⟩
  · intro x hx
    have hx' := (hcmem x).1 hx
    obtain ⟨l, hl, hxl⟩ := h.owned x hx'.1
    exact ⟨l, hl, (hmem l x).2 ⟨hxl, hx'.2⟩⟩
  · rw [hcab]; exact h.cabNodup.erase tok
  · intro x hx
    rw [hlast]
    exact h.cabRange x ((hcmem x).1 hx).1
  · intro x hx
    rw [hlast]
    rcases hdoing with hd | hd
    · rw [hd] at hx
      have := h.doingOut x hx
      exact ⟨this.1, this.2.1, fun hxc => this.2.2 ((hcmem x).1 hxc).1⟩
    · rw [hd] at hx
      rcases List.mem_cons.1 hx with hxt | hx
      · subst hxt
        have := h.cabRange x hc
        exact ⟨this.1, this.2, fun hxc => ((hcmem x).1 hxc).2 rfl⟩
      · have := h.doingOut x hx
        exact ⟨this.1, this.2.1, fun hxc => this.2.2 ((hcmem x).1 hxc).1⟩
  · rcases hdoing with hd | hd
    · rw [hd]; exact h.doingNodup
    · rw [hd]
      exact List.nodup_cons.2 ⟨fun hx => (h.doingOut tok hx).2.2 hc, h.doingNodup⟩
  · have h1 := deqTotal_update q q' i hi ((q.deq i).erase tok) (by
      rw [hdeq]; funext l; by_cases hli : l = i
      · subst hli; simp
      · simp [hli])
    have h2 := h.size
    have h3 : 0 < (q.deq i).length := List.length_pos_of_mem hm
    have h4 : 0 < q.cab.length := List.length_pos_of_mem hc
    simp only [cabSize] at *
    rw [hcab, List.length_erase_of_mem hc]
    rw [List.length_erase_of_mem hm] at h1
    tomega
  · exact ⟨hnf, hlost⟩

/-! ## one lemma per operation -/

theorem QInv.execute {q : Q} (h : QInv q) (lvl : Nat) (hl : lvl < nPrio) : QInv (Cab.execute q lvl).1 := by
  have fresh : q.last + 1 ∉ q.cab := fun hm => by have := (h.cabRange _ hm).2; tomega
  have freshD : ∀ l, q.last + 1 ∉ q.deq l := fun l hm => fresh (h.resolve l _ hm).2
  have hmem : ∀ l x, x ∈ (Cab.execute q lvl).1.deq l ↔ x ∈ q.deq l ∨ (l = lvl ∧ x = q.last + 1) := by
    intro l x
    simp only [Cab.execute]
    by_cases hli : l = lvl
    · simp [hli]
    · simp [hli]
  constructor
  · intro l
    simp only [Cab.execute]
    by_cases hli : l = lvl
    · simp only [if_pos hli]
      rw [List.nodup_append]
      refine ⟨h.nodup l, by simp, ?_⟩
      intro a ha b hb
      simp only [List.mem_singleton] at hb
      subst hb
      intro hab; subst hab
      exact freshD l ha
    · simp only [if_neg hli]; exact h.nodup l
  · intro l l' x hx hx'
    rcases (hmem l x).1 hx with h1 | h1 <;> rcases (hmem l' x).1 hx' with h2 | h2
    · exact h.disj l l' x h1 h2
    · rw [h2.2] at h1; exact absurd h1 (freshD l)
    · rw [h1.2] at h2; exact absurd h2 (freshD l')
    · rw [h1.1, h2.1]
  · intro l x hx
    rcases (hmem l x).1 hx with h1 | h1
    · have := h.resolve l x h1
      exact ⟨this.1, by simp [Cab.execute, this.2]⟩
    · exact ⟨h1.1 ▸ hl, by simp [Cab.execute, h1.2]⟩
  · intro x hx
    have hx' : x = q.last + 1 ∨ x ∈ q.cab := by simpa [Cab.execute] using hx
    rcases hx' with hx' | hx'
    · exact ⟨lvl, hl, (hmem lvl x).2 (Or.inr ⟨rfl, hx'⟩)⟩
    · obtain ⟨l, hl', hxl⟩ := h.owned x hx'
      exact ⟨l, hl', (hmem l x).2 (Or.inl hxl)⟩
  · show ((q.last + 1) :: q.cab).Nodup
    exact List.nodup_cons.2 ⟨fresh, h.cabNodup⟩
  · intro x hx
    have hx' : x = q.last + 1 ∨ x ∈ q.cab := by simpa [Cab.execute] using hx
    show 0 < x ∧ x ≤ q.last + 1
    rcases hx' with hx' | hx'
    · tomega
    · have := h.cabRange x hx'; tomega
  · intro x hx
    have hx' : x ∈ q.doing := hx
    have := h.doingOut x hx'
    show 0 < x ∧ x ≤ q.last + 1 ∧ x ∉ ((q.last + 1) :: q.cab)
    refine ⟨this.1, by tomega, ?_⟩
    intro hxc
    rcases List.mem_cons.1 hxc with hxc | hxc
    · tomega
    · exact this.2.2 hxc
  · exact h.doingNodup
  · have h1 := deqTotal_update q (Cab.execute q lvl).1 lvl hl (q.deq lvl ++ [q.last + 1]) (by
      simp only [Cab.execute]; funext l; by_cases hli : l = lvl
      · subst hli; simp
      · simp [hli])
    have h2 := h.size
    simp only [cabSize] at *
    show ((q.last + 1) :: q.cab).length = _
    simp only [List.length_append, List.length_cons, List.length_nil] at h1 ⊢
    tomega
  · exact h.safe

/-- execute() whose task is withdrawn again: everything is restored, only the id counter moved on -/
theorem C05_withdraw_restores {q : Q} (h : QInv q) (lvl : Nat) (hl : lvl < nPrio) :
    let r := execute q lvl
    (withdraw r.1 lvl r.2).deq = q.deq ∧ (withdraw r.1 lvl r.2).cab = q.cab ∧
    (withdraw r.1 lvl r.2).doing = q.doing ∧ (withdraw r.1 lvl r.2).last = q.last + 1 ∧
    (withdraw r.1 lvl r.2).nullFree = false := by
  intro r
  have _ := hl
  have hf : cabFree ((q.last + 1) :: q.cab) (q.last + 1) = (true, q.cab) := by
    rw [cabFree_hit (by tomega) (by simp)]; simp
  refine ⟨?_, ?_, rfl, rfl, ?_⟩
  · funext l
    simp only [r, withdraw, execute]
    by_cases hli : l = lvl
    · simp [hli]
    · simp [hli]
  · simp only [r, withdraw, execute, hf]
  · simp only [r, withdraw, execute, hf, h.safe.1]; rfl

theorem QInv.withdraw {q : Q} (h : QInv q) (lvl : Nat) (hl : lvl < nPrio) :
    QInv (Cab.withdraw (Cab.execute q lvl).1 lvl (Cab.execute q lvl).2) := by
  have hr := C05_withdraw_restores h lvl hl
  simp only at hr
  exact h.frame hr.1 hr.2.1 hr.2.2.1 (by rw [hr.2.2.2.1]; tomega) hr.2.2.2.2 h.safe.2

/-! ### cancel -/

theorem cancel_doing {q : Q} {tok : Tok} (hd : tok ∈ q.doing) : cancel q tok = (q, 2) := by
  simp [cancel, hd]

theorem cancel_none {q : Q} {tok : Tok} (hd : tok ∉ q.doing) (hf : findLevel q tok 0 nPrio = none) :
    cancel q tok = (q, 1) := by
  simp [cancel, hd, hf]

theorem cancel_some {q : Q} {tok : Tok} {i : Nat} (hd : tok ∉ q.doing) (hf : findLevel q tok 0 nPrio = some i) :
    cancel q tok =
      ({ q with deq := fun l => if l = i then (q.deq l).erase tok else q.deq l,
                cab := (cabFree q.cab tok).2, nullFree := q.nullFree || !(cabFree q.cab tok).1 }, 0) := by
  simp [cancel, hd, hf]

theorem findLevel_none_iff (q : Q) (tok : Tok) : findLevel q tok 0 nPrio = none ↔ inDeques q tok = false := by
  rw [inDeques_false_iff]
  constructor
  · intro hf l hl; exact findLevel_none hf l (Nat.zero_le _) (by tomega)
  · intro hall
    cases hf : findLevel q tok 0 nPrio with
    | none => rfl
    | some j =>
      have := findLevel_some hf
      exact absurd this.2.2 (hall j (by tomega))

/-- in the `cancelled` case the token was waiting and resolves -/
theorem QInv.cancel_some_state {q : Q} (h : QInv q) {tok : Tok} {i : Nat} (hd : tok ∉ q.doing)
    (hf : findLevel q tok 0 nPrio = some i) :
    tok ∈ q.deq i ∧ tok ∈ q.cab ∧ tok ≠ 0 ∧
    Cab.cancel q tok =
      ({ q with deq := fun l => if l = i then (q.deq l).erase tok else q.deq l, cab := q.cab.erase tok }, 0) := by
  have hm := (findLevel_some hf).2.2
  have hc := (h.resolve i tok hm).2
  have h0 : tok ≠ 0 := by have := (h.cabRange tok hc).1; tomega
  refine ⟨hm, hc, h0, ?_⟩
  rw [cancel_some hd hf, cabFree_hit h0 hc]
  simp

theorem QInv.cancel {q : Q} (h : QInv q) (tok : Tok) : QInv (Cab.cancel q tok).1 := by
  by_cases hd : tok ∈ q.doing
  · rw [cancel_doing hd]; exact h
  · cases hf : findLevel q tok 0 nPrio with
    | none => rw [cancel_none hd hf]; exact h
    | some i =>
      obtain ⟨hm, _, _, he⟩ := h.cancel_some_state hd hf
      rw [he]
      exact h.remove hm rfl rfl rfl (Or.inl rfl) h.safe.1 h.safe.2

/-! ### pop -/

theorem pop_none {q : Q} (hf : firstNonEmpty q 0 nPrio = none) : pop q = (q, none) := by
  simp [pop, hf]

theorem QInv.pop_some_state {q : Q} (h : QInv q) {i : Nat} (hf : firstNonEmpty q 0 nPrio = some i) :
    ∃ tok rest, q.deq i = tok :: rest ∧ tok ∈ q.cab ∧ tok ≠ 0 ∧
      Cab.pop q =
        ({ q with deq := fun l => if l = i then rest else q.deq l, cab := q.cab.erase tok,
                  doing := tok :: q.doing }, some tok) := by
  have hs := firstNonEmpty_some hf
  cases hdi : q.deq i with
  | nil => exact absurd hdi hs.2.2.1
  | cons tok rest =>
    have hm : tok ∈ q.deq i := by rw [hdi]; simp
    have hc := (h.resolve i tok hm).2
    have h0 : tok ≠ 0 := by have := (h.cabRange tok hc).1; tomega
    refine ⟨tok, rest, rfl, hc, h0, ?_⟩
    simp only [Cab.pop, hf, hdi, cabFree_hit h0 hc]
    simp

theorem QInv.pop {q : Q} (h : QInv q) : QInv (Cab.pop q).1 := by
  cases hf : firstNonEmpty q 0 nPrio with
  | none => rw [pop_none hf]; exact h
  | some i =>
    obtain ⟨tok, rest, hdi, hc, h0, he⟩ := h.pop_some_state hf
    have hm : tok ∈ q.deq i := by rw [hdi]; simp
    rw [he]
    refine h.remove hm ?_ rfl rfl (Or.inr rfl) h.safe.1 h.safe.2
    funext l
    by_cases hli : l = i
    · subst hli; simp [hdi]
    · simp [hli]

/-! ### finish -/

theorem QInv.finish {q : Q} (h : QInv q) (tok : Tok) : QInv (Cab.finish q tok) := by
  constructor
  · exact h.nodup
  · exact h.disj
  · exact h.resolve
  · exact h.owned
  · exact h.cabNodup
  · exact h.cabRange
  · intro x hx
    exact h.doingOut x (List.mem_of_mem_erase hx)
  · exact h.doingNodup.erase tok
  · exact h.size
  · exact h.safe

/-! ### cleanup -/

theorem drain_cons (acc : List Tok × Bool) (a : Tok) (d : List Tok) :
    drain acc (a :: d) = drain ((cabFree acc.1 a).2, acc.2 || !(cabFree acc.1 a).1) d := by
  simp [drain]

theorem drain_spec (d : List Tok) : ∀ (cab : List Tok) (nf : Bool), cab.Nodup → d.Nodup →
    (∀ x ∈ d, x ≠ 0 ∧ x ∈ cab) →
    (drain (cab, nf) d).2 = nf ∧ (drain (cab, nf) d).1.Nodup ∧
      ∀ x, x ∈ (drain (cab, nf) d).1 ↔ x ∈ cab ∧ x ∉ d := by
  induction d with
  | nil => intro cab nf hc _ _; simp [drain, hc]
  | cons a d ih =>
    intro cab nf hc hd hall
    have ha := hall a (by simp)
    have hd' := List.nodup_cons.1 hd
    rw [drain_cons]
    simp only [cabFree_hit ha.1 ha.2, Bool.not_true, Bool.or_false]
    have hall' : ∀ x ∈ d, x ≠ 0 ∧ x ∈ cab.erase a := by
      intro x hx
      have := hall x (by simp [hx])
      refine ⟨this.1, ?_⟩
      rw [hc.mem_erase_iff]
      refine ⟨?_, this.2⟩
      intro hxa; subst hxa; exact hd'.1 hx
    obtain ⟨h1, h2, h3⟩ := ih (cab.erase a) nf (hc.erase a) hd'.2 hall'
    refine ⟨h1, h2, ?_⟩
    intro x
    rw [h3, hc.mem_erase_iff]
    simp only [List.mem_cons, not_or]
    constructor
    · rintro ⟨⟨a1, a2⟩, a3⟩; exact ⟨a2, a1, a3⟩
    · rintro ⟨a2, a1, a3⟩; exact ⟨⟨a1, a2⟩, a3⟩

theorem drainAll_spec (deq : Nat → List Tok) (hnd : ∀ l, (deq l).Nodup)
    (hdisj : ∀ l l' x, x ∈ deq l → x ∈ deq l' → l = l') :
    ∀ (ls : List Nat) (cab : List Tok) (nf : Bool), ls.Nodup → cab.Nodup →
      (∀ l ∈ ls, ∀ x ∈ deq l, x ≠ 0 ∧ x ∈ cab) →
      (ls.foldl (fun a l => drain a (deq l)) (cab, nf)).2 = nf ∧
      (ls.foldl (fun a l => drain a (deq l)) (cab, nf)).1.Nodup ∧
      ∀ x, x ∈ (ls.foldl (fun a l => drain a (deq l)) (cab, nf)).1 ↔ x ∈ cab ∧ ∀ l ∈ ls, x ∉ deq l := by
  intro ls
  induction ls with
  | nil => intro cab nf _ hc _; simp [hc]
  | cons l ls ih =>
    intro cab nf hls hc hall
    have hls' := List.nodup_cons.1 hls
    obtain ⟨h1, h2, h3⟩ := drain_spec (deq l) cab nf hc (hnd l) (hall l (by simp))
    have hpair : drain (cab, nf) (deq l) = ((drain (cab, nf) (deq l)).1, nf) := by
      exact Prod.ext rfl h1
    rw [List.foldl_cons, hpair]
    have hall' : ∀ l' ∈ ls, ∀ x ∈ deq l', x ≠ 0 ∧ x ∈ (drain (cab, nf) (deq l)).1 := by
      intro l' hl' x hx
      have := hall l' (by simp [hl']) x hx
      refine ⟨this.1, (h3 x).2 ⟨this.2, ?_⟩⟩
      intro hxl
      have : l' = l := hdisj l' l x hx hxl
      subst this
      exact hls'.1 hl'
    obtain ⟨g1, g2, g3⟩ := ih _ nf hls'.2 h2 hall'
    refine ⟨g1, g2, ?_⟩
    intro x
    rw [g3, h3]
    simp only [List.mem_cons, forall_eq_or_imp]
    exact ⟨fun ⟨⟨a, b⟩, c⟩ => ⟨a, b, c⟩, fun ⟨a, b, c⟩ => ⟨⟨a, b⟩, c⟩⟩

/-- after cleanup()'s critical section the cabinet is empty; the id counter is NOT reset -/
theorem C05_cleanup_empties {q : Q} (h : QInv q) :
    (cleanup q).cab = [] ∧ (∀ l, (cleanup q).deq l = []) ∧ (cleanup q).nullFree = false ∧
    (cleanup q).doing = q.doing ∧ (cleanup q).last = q.last := by
  have hall : ∀ l ∈ List.range nPrio, ∀ x ∈ q.deq l, x ≠ 0 ∧ x ∈ q.cab := by
    intro l _ x hx
    have hc := (h.resolve l x hx).2
    have := (h.cabRange x hc).1
    exact ⟨by tomega, hc⟩
  obtain ⟨h1, _, h3⟩ := drainAll_spec q.deq h.nodup h.disj (List.range nPrio) q.cab q.nullFree
    List.nodup_range h.cabNodup hall
  refine ⟨?_, fun _ => rfl, ?_, rfl, rfl⟩
  · show ((List.range nPrio).foldl (fun a l => drain a (q.deq l)) (q.cab, q.nullFree)).1 = []
    rw [List.eq_nil_iff_forall_not_mem]
    intro x hx
    have hx' := (h3 x).1 hx
    obtain ⟨l, hl, hxl⟩ := h.owned x hx'.1
    exact hx'.2 l (List.mem_range.2 hl) hxl
  · show ((List.range nPrio).foldl (fun a l => drain a (q.deq l)) (q.cab, q.nullFree)).2 = false
    rw [h1]; exact h.safe.1

theorem QInv.cleanup {q : Q} (h : QInv q) : QInv (Cab.cleanup q) := by
  obtain ⟨h1, h2, h3, h4, h5⟩ := C05_cleanup_empties h
  constructor
  · intro l; rw [h2]; exact List.nodup_nil
  · intro l l' x hx; rw [h2] at hx; simp at hx
  · intro l x hx; rw [h2] at hx; simp at hx
  · intro x hx; rw [h1] at hx; simp at hx
  · rw [h1]; exact List.nodup_nil
  · intro x hx; rw [h1] at hx; simp at hx
  · intro x hx
    rw [h4] at hx
    have := h.doingOut x hx
    rw [h1, h5]
    exact ⟨this.1, this.2.1, by simp⟩
  · rw [h4]; exact h.doingNodup
  · rw [deqTotal_eq]; simp [cabSize, h1, h2]
  · exact ⟨h3, h.safe.2⟩

/-! ## every operation with every argument -/

theorem QInv.step {q : Q} (h : QInv q) (o : Op) : QInv (Cab.step q o) := by
  cases o with
  | execute lvl =>
    simp only [Cab.step]
    split
    · rename_i hl; exact h.execute lvl hl
    · exact h
  | executeWithdrawn lvl =>
    simp only [Cab.step]
    split
    · rename_i hl; exact h.withdraw lvl hl
    · exact h
  | cancel tok => exact h.cancel tok
  | status tok => exact h
  | pop => exact h.pop
  | finish tok => exact h.finish tok
  | cleanup => exact h.cleanup

theorem QInv.run {q : Q} (h : QInv q) (ops : List Op) : QInv (Cab.run q ops) := by
  induction ops generalizing q with
  | nil => exact h
  | cons o os ih => exact ih (h.step o)

/-- the three structures stay in lock-step along every run from the empty pool -/
theorem C05_cabinet_lockstep (ops : List Op) : QInv (run {} ops) :=
  QInv.init.run ops

/-! ## consequences -/

/-- getTaskStatus() (cabinet) and cancel() (deques) agree on "waiting" -/
theorem C05_status_cabinet_eq_deques {q : Q} (h : QInv q) (tok : Tok) : cabAt q.cab tok = inDeques q tok := by
  rw [Bool.eq_iff_iff, cabAt_iff, inDeques_iff]
  constructor
  · intro ⟨_, hc⟩; exact h.owned tok hc
  · rintro ⟨l, _, hm⟩
    have hc := (h.resolve l tok hm).2
    have := (h.cabRange tok hc).1
    exact ⟨by tomega, hc⟩

theorem C05_cancel_answers {q : Q} (h : QInv q) (tok : Tok) :
    ((cancel q tok).2 = 2 ↔ tok ∈ q.doing) ∧
    ((cancel q tok).2 = 0 ↔ (tok ∉ q.doing ∧ inDeques q tok = true)) ∧
    ((cancel q tok).2 = 1 ↔ (tok ∉ q.doing ∧ inDeques q tok = false)) ∧
    ((cancel q tok).2 = 0 → status (cancel q tok).1 tok = .notFound ∧ inDeques (cancel q tok).1 tok = false) ∧
    ((cancel q tok).2 ≠ 0 → (cancel q tok).1 = q) := by
  by_cases hd : tok ∈ q.doing
  · rw [cancel_doing hd]; simp [hd]
  · cases hf : findLevel q tok 0 nPrio with
    | none =>
      have hin := (findLevel_none_iff q tok).1 hf
      rw [cancel_none hd hf]; simp [hd, hin]
    | some i =>
      have hin : inDeques q tok = true := by
        cases hb : inDeques q tok with
        | true => rfl
        | false => rw [(findLevel_none_iff q tok).2 hb] at hf; simp at hf
      have hq' := h.cancel tok
      have heq := C05_status_cabinet_eq_deques hq' tok
      obtain ⟨hm, hc, h0, he⟩ := h.cancel_some_state hd hf
      rw [he] at hq' heq ⊢
      have hnc : cabAt (q.cab.erase tok) tok = false := by
        rw [← Bool.not_eq_true, cabAt_iff, h.cabNodup.mem_erase_iff]
        intro hx; exact hx.2.1 rfl
      simp only at heq
      refine ⟨by simp [hd], by simp [hd, hin], by simp [hd, hin], ?_, by simp⟩
      intro _
      refine ⟨?_, by rw [← heq]; exact hnc⟩
      simp [status, hnc, hd]

/-- the pick is the FRONT of the FIRST non-empty level and resolves; "none" only when every deque is empty -/
theorem C05_pop_resolves {q : Q} (h : QInv q) :
    (match (pop q).2 with
     | some tok => ∃ i, i < nPrio ∧ (q.deq i).head? = some tok ∧ (∀ j, j < i → q.deq j = []) ∧
                     tok ∈ (pop q).1.doing ∧ status (pop q).1 tok = .executing
     | none => ∀ l, l < nPrio → q.deq l = []) ∧ (pop q).1.lost = false := by
  cases hf : firstNonEmpty q 0 nPrio with
  | none =>
    rw [pop_none hf]
    exact ⟨fun l hl => firstNonEmpty_none hf l (Nat.zero_le _) (by tomega), h.safe.2⟩
  | some i =>
    obtain ⟨tok, rest, hdi, hc, h0, he⟩ := h.pop_some_state hf
    have hs := firstNonEmpty_some hf
    rw [he]
    refine ⟨⟨i, by tomega, by simp [hdi], fun j hj => hs.2.2.2 j (Nat.zero_le _) hj, by simp, ?_⟩, h.safe.2⟩
    have hnc : cabAt (q.cab.erase tok) tok = false := by
      rw [← Bool.not_eq_true, cabAt_iff, h.cabNodup.mem_erase_iff]
      intro hx; exact hx.2.1 rfl
    simp [status, hnc]

/-- a null token, a token never issued by this pool, or any stale token: not found, nothing changes -/
theorem C05_forged_token {q : Q} (h : QInv q) (tok : Tok)
    (hf : tok = 0 ∨ q.last < tok ∨ (tok ∉ q.cab ∧ tok ∉ q.doing)) :
    status q tok = .notFound ∧ (cancel q tok).2 = 1 ∧ (cancel q tok).1 = q ∧ finish q tok = q := by
  have hd : tok ∉ q.doing := by
    intro hx
    have := h.doingOut tok hx
    rcases hf with hf | hf | hf
    · tomega
    · tomega
    · exact hf.2 hx
  have hnc : cabAt q.cab tok = false := by
    rw [← Bool.not_eq_true, cabAt_iff]
    intro ⟨h0, hx⟩
    have := h.cabRange tok hx
    rcases hf with hf | hf | hf
    · tomega
    · tomega
    · exact hf.1 hx
  have hin : inDeques q tok = false := by rw [← C05_status_cabinet_eq_deques h]; exact hnc
  have hfl := (findLevel_none_iff q tok).2 hin
  rw [cancel_none hd hfl]
  refine ⟨by simp [status, hnc, hd], rfl, rfl, ?_⟩
  simp only [finish, List.erase_of_not_mem hd]

/-! ## non-vacuity and a counterexample -/

def demoOps : List Op :=
  [.execute 2, .execute 0, .execute 2, .pop, .cancel 3, .cancel 3, .status 1, .finish 2, .cleanup]

example :
    (run {} (demoOps.take 3)).cab = [3, 2, 1] ∧ (run {} (demoOps.take 3)).deq 2 = [1, 3] ∧
    (run {} (demoOps.take 3)).deq 0 = [2] ∧
    (pop (run {} (demoOps.take 3))).2 = some 2 ∧
    status (run {} (demoOps.take 4)) 2 = .executing ∧ status (run {} (demoOps.take 4)) 1 = .waiting ∧
    (cancel (run {} (demoOps.take 4)) 3).2 = 0 ∧ (cancel (run {} (demoOps.take 5)) 3).2 = 1 ∧
    (cancel (run {} (demoOps.take 5)) 2).2 = 2 ∧
    (run {} (demoOps.take 5)).cab = [1] ∧ (run {} (demoOps.take 5)).deq 2 = [1] ∧
    (run {} (demoOps.take 8)).doing = [] ∧ status (run {} (demoOps.take 8)) 2 = .notFound ∧
    (run {} demoOps).cab = [] ∧ (run {} demoOps).deq 2 = [] ∧ (run {} demoOps).last = 3 ∧
    (run {} demoOps).nullFree = false ∧ (run {} demoOps).lost = false ∧
    cabSize (run {} demoOps) = deqTotal (run {} demoOps) := by
  decide

/-- a plausible broken rewrite of cancel(): the token leaves its deque, the cabinet cell is NOT freed -/
def cancelNoFree (q : Q) (tok : Tok) : Q × Nat :=
  if q.doing.contains tok then (q, 2) else
  match findLevel q tok 0 nPrio with
  | some i => ({ q with deq := fun l => if l = i then (q.deq l).erase tok else q.deq l }, 0)
  | none => (q, 1)

/-- without the `cabFree` the lock-step is lost: status says waiting, the deques say gone, the sizes differ -/
theorem C05_cabinet_desync_counterexample :
    let q := (cancelNoFree (execute {} 2).1 1).1
    (cancelNoFree (execute {} 2).1 1).2 = 0 ∧
    status q 1 = .waiting ∧ inDeques q 1 = false ∧ cabSize q = 1 ∧ deqTotal q = 0 ∧
    cabSize q ≠ deqTotal q ∧ ¬ QInv q := by
  refine ⟨by decide, by decide, by decide, by decide, by decide, by decide, ?_⟩
  intro hq
  have := hq.size
  revert this
  decide

end Tbox.C05.Cab
